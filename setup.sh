#!/bin/sh
# Build the whole framework from files on disk (offline): Lean project (all property theorems and
# drivers) and every harness binary.
set -e
cd "$(dirname "$0")"
export CARGO_NET_OFFLINE=true
python3 tools/setup.py
