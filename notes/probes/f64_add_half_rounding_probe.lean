import Mathlib.Tactic.Ring
import Mathlib.Tactic.Linarith
import Mathlib.Tactic.NormNum
import Mathlib.Tactic.Positivity
import Mathlib.Tactic.Push

/-! C18 probe: `value + 0.5` in binary64 followed by truncation gives `⌊f + ½⌋` for every normal
    `f = m·2^(−s)`, `2^52 ≤ m < 2^53`, `1 ≤ s ≤ 53` (i.e. `½ ≤ f < 2^52`); for `s = 0` (integers in
    `[2^52, 2^53)`) the sum is a tie and rounds to even — the defect; for `f ≥ 2^53` the sum rounds back to `f`. -/
namespace Fl

/-- round `M/2` to nearest, ties to even. -/
def rneShift1 (M : ℕ) : ℕ := if M % 2 = 1 ∧ (M / 2) % 2 = 1 then M / 2 + 1 else M / 2

/-- RNE(`m·2^(−s) + ½`) as (mantissa, shift): value `= mantissa / 2^shift`; the exact sum is `(m + 2^(s−1))/2^s`,
    it has at most 54 significant bits, so at most one bit is rounded away. -/
def addHalf (m s : ℕ) : ℕ × ℕ :=
  let M := m + 2 ^ (s - 1)
  if M < 2 ^ 53 then (M, s) else (rneShift1 M, s - 1)

theorem rneShift1_cases (M : ℕ) : rneShift1 M = M / 2 ∨ (rneShift1 M = M / 2 + 1 ∧ M % 2 = 1) := by
  unfold rneShift1; split
  · next h => right; exact ⟨rfl, h.1⟩
  · left; rfl

theorem addHalf_floor (m s : ℕ) (hm : 2 ^ 52 ≤ m) (hm' : m < 2 ^ 53) (hs : 1 ≤ s) (hs' : s ≤ 53) :
    (addHalf m s).1 / 2 ^ (addHalf m s).2 = (m + 2 ^ (s - 1)) / 2 ^ s
    ∧ 2 ^ 52 ≤ (addHalf m s).1 ∧ (addHalf m s).1 ≤ 2 ^ 53 := by
  obtain ⟨G, hG⟩ : ∃ G, G = 2 ^ (s - 1) := ⟨_, rfl⟩
  obtain ⟨C, hC⟩ : ∃ C, C = 2 ^ (53 - s) := ⟨_, rfl⟩
  have hG0 : 0 < G := by rw [hG]; positivity
  have h2s : 2 ^ s = 2 * G := by
    rw [hG, ← pow_succ']; congr 1; omega
  have hGC : G * C = 2 ^ 52 := by
    rw [hG, hC, ← pow_add]; congr 1; omega
  have hGle : G ≤ 2 ^ 52 := by
    rw [← hGC]; exact Nat.le_mul_of_pos_right _ (by rw [hC]; positivity)
  unfold addHalf
  simp only []
  rw [← hG, h2s]
  split
  · next hlt =>
    dsimp only
    exact ⟨by rw [h2s], by omega, by omega⟩
  · next hge =>
    push Not at hge
    obtain ⟨t, ht⟩ : ∃ t, m + G = 2 ^ 53 + t := ⟨m + G - 2 ^ 53, by omega⟩
    have htG : t < G := by omega
    have hdiv : (m + G) / (2 * G) = C := by
      rw [← Nat.div_div_eq_div_mul, ht]
      have : (2 ^ 53 + t) / 2 = G * C + t / 2 := by rw [hGC]; omega
      rw [this, Nat.mul_add_div hG0, Nat.div_eq_of_lt (by omega), Nat.add_zero]
    have hpow : 2 ^ (s - 1) = G := hG.symm
    rw [hpow, hdiv]
    rcases rneShift1_cases (m + G) with h | ⟨h, hodd⟩
    · rw [h, ht]
      have : (2 ^ 53 + t) / 2 = G * C + t / 2 := by rw [hGC]; omega
      refine ⟨?_, by omega, by omega⟩
      rw [this, Nat.mul_add_div hG0, Nat.div_eq_of_lt (by omega), Nat.add_zero]
    · rw [h, ht]
      rw [ht] at hodd
      have htodd : t % 2 = 1 := by omega
      -- G is a power of two with an odd number below it, so G is even
      have hGeven : G % 2 = 0 := by
        have hs2 : 2 ≤ s := by
          by_contra hc
          have : s = 1 := by omega
          rw [this] at hG; simp at hG; omega
        rw [hG]
        have : s - 1 = (s - 2) + 1 := by omega
        rw [this, pow_succ]; omega
      have : (2 ^ 53 + t) / 2 + 1 = G * C + (t / 2 + 1) := by rw [hGC]; omega
      refine ⟨?_, by omega, by omega⟩
      rw [this, Nat.mul_add_div hG0, Nat.div_eq_of_lt (by omega), Nat.add_zero]

/-- the exact sum's floor is the intended `⌊f + ½⌋`: `(m + 2^(s-1)) / 2^s = (2m + 2^s) / 2^(s+1)`. -/
theorem floor_half (m s : ℕ) (hs : 1 ≤ s) : (m + 2 ^ (s - 1)) / 2 ^ s = (2 * m + 2 ^ s) / 2 ^ (s + 1) := by
  have h2s : 2 ^ s = 2 * 2 ^ (s - 1) := by rw [← pow_succ']; congr 1; omega
  rw [pow_succ, h2s]
  have : 2 * m + 2 * 2 ^ (s - 1) = 2 * (m + 2 ^ (s - 1)) := by ring
  rw [this, Nat.mul_comm (2 * 2 ^ (s - 1)) 2, Nat.mul_div_mul_left _ _ (by norm_num)]

/-- integers in `[2^52, 2^53)`: `f + ½ = (2m+1)/2` is a tie; RNE gives `m` for even `m` and `m+1` for odd `m`. -/
theorem tie_even (m : ℕ) : rneShift1 (2 * m + 1) = if m % 2 = 1 then m + 1 else m := by
  unfold rneShift1
  have h1 : (2 * m + 1) % 2 = 1 := by omega
  have h2 : (2 * m + 1) / 2 = m := by omega
  rw [h1, h2]; simp

/-- the current tree's behaviour at the witness: `2^52 + 1 ↦ 2^52 + 2`. -/
example : rneShift1 (2 * (2 ^ 52 + 1) + 1) = 2 ^ 52 + 2 := by decide

/-- `f ≥ 2^53` (`f = m·2^e`, `e ≥ 1`): `f + ½` rounds back to `f` — the half is below half an ulp
    (`e ≥ 2`) or loses the tie to the even mantissa... not a tie: `½ < 1 = ulp/2` for `e = 1`. Stated on the
    scaled integer `2m·2^e + 1` rounded to a multiple of `2^(e+1)`. -/
theorem big_absorbs (m e : ℕ) (he : 1 ≤ e) : (2 * (m * 2 ^ e) + 1) / 2 ^ (e + 1) = m ∧ (2 * (m * 2 ^ e) + 1) % 2 ^ (e + 1) < 2 ^ e := by
  have hp : 2 ^ (e + 1) = 2 * 2 ^ e := by rw [pow_succ]; ring
  have h2e : 2 ≤ 2 ^ e := by
    calc 2 = 2 ^ 1 := by norm_num
      _ ≤ 2 ^ e := Nat.pow_le_pow_right (by norm_num) he
  have e1 : 2 * (m * 2 ^ e) + 1 = 1 + (2 * 2 ^ e) * m := by ring
  rw [hp, e1]
  constructor
  · rw [Nat.add_mul_div_left _ _ (by positivity), Nat.div_eq_of_lt (by omega), Nat.zero_add]
  · rw [Nat.add_mul_mod_self_left, Nat.mod_eq_of_lt (by omega)]; omega

#print axioms addHalf_floor
#print axioms big_absorbs
end Fl
