import Mathlib.Tactic.Ring
import Mathlib.Tactic.Linarith
import Mathlib.Tactic.NormNum
import Mathlib.Tactic.Positivity
import Mathlib.Tactic.Push

/-! Value-level content of one Knuth-D step (complements `knuth_digit_estimate`).
    `P = W^n`, window `Win = n2*P + L`, `L < P`, divisor `D < P`, `Win < D*W`. -/
namespace KS

/-- multiply-subtract over the `n` low limbs returns `(L', b)` with `L' + qh*D = L + b*P`, `L' < P`.
    If the estimate is exact the borrow word equals the top limb and `L'` is the remainder;
    if it is one too large the borrow word is `n2 + 1` and adding `D` back (mod `P`) is the remainder. -/
theorem correction (P D n2 L L' b qh q R : ℕ) (hP : 0 < P) (hD : D < P) (hL' : L' < P)
    (hsub : L' + qh * D = L + b * P)
    (hq : n2 * P + L = q * D + R) (hR : R < D) :
    (qh = q → b = n2 ∧ L' = R) ∧
    (qh = q + 1 → b = n2 + 1 ∧ (L' + D) % P = R ∧ P ≤ L' + D) := by
  constructor
  · intro h
    subst h
    -- n2*P + L' + b*P... : (n2 - b) P + L' = R, 0 ≤ R < P
    have e : n2 * P + L' = b * P + R := by nlinarith
    have hRP : R < P := by omega
    have hb : b = n2 := by
      rcases Nat.lt_trichotomy b n2 with h | h | h
      · exfalso
        have : (b + 1) * P ≤ n2 * P := Nat.mul_le_mul_right _ h
        nlinarith
      · exact h
      · exfalso
        have : (n2 + 1) * P ≤ b * P := Nat.mul_le_mul_right _ h
        nlinarith
    subst hb
    exact ⟨rfl, by omega⟩
  · intro h
    subst h
    -- L' + (q+1) D = L + b P ; n2 P + L = q D + R  ⇒ n2 P + L' + D = b P + R
    have e : n2 * P + L' + D = b * P + R := by nlinarith
    have hb : b = n2 + 1 := by
      rcases Nat.lt_trichotomy b (n2 + 1) with h | h | h
      · exfalso
        -- b ≤ n2 ⇒ b P + R < n2 P + D ≤ n2 P + L' + D
        have : b * P ≤ n2 * P := Nat.mul_le_mul_right _ (by omega)
        omega
      · exact h
      · exfalso
        have : (n2 + 2) * P ≤ b * P := Nat.mul_le_mul_right _ h
        nlinarith
    subst hb
    have e2 : L' + D = P + R := by nlinarith
    refine ⟨rfl, ?_, by omega⟩
    rw [e2, Nat.add_mod_left, Nat.mod_eq_of_lt (by omega)]

/-- forced digit: if the two leading (shifted) limbs of the window equal those of the divisor,
    the true digit is `W - 1`.  `D' = D2*M + dl`, `N' = (D2*W + n0)*M + nl`, `N' < D'*W`,
    and `W*M ≤ D'` (the divisor has `n` limbs with non-zero top: `D' ≥ W^(n-1) = W*M`). -/
theorem forced_digit (W M D2 dl n0 nl : ℕ) (hW : 2 ≤ W) (hdl : dl < M)
    (hlt : (D2 * W + n0) * M + nl < (D2 * M + dl) * W) (hbig : W * M ≤ D2 * M + dl) :
    ((D2 * W + n0) * M + nl) / (D2 * M + dl) = W - 1 := by
  apply Nat.div_eq_of_lt_le
  · -- (W-1) * D' ≤ N' :  N' ≥ D2*W*M = (D' - dl)*W ≥ D'*W - W*M + W > D'*W - D'
    have key : (W - 1) * (D2 * M + dl) + (D2 * M + dl) = (D2 * M + dl) * W := by
      have : W - 1 + 1 = W := by omega
      calc (W - 1) * (D2 * M + dl) + (D2 * M + dl) = (W - 1 + 1) * (D2 * M + dl) := by ring
        _ = (D2 * M + dl) * W := by rw [this, Nat.mul_comm]
    have h2 : (D2 * M + dl) * W = D2 * W * M + dl * W := by ring
    have h3 : dl * W ≤ M * W := Nat.mul_le_mul_right _ hdl.le
    have h4 : (D2 * W + n0) * M = D2 * W * M + n0 * M := by ring
    have h5 : M * W = W * M := Nat.mul_comm _ _
    omega
  · have : W - 1 + 1 = W := by omega
    rw [this]; calc (D2 * W + n0) * M + nl < (D2 * M + dl) * W := hlt
      _ = W * (D2 * M + dl) := Nat.mul_comm _ _

#print axioms correction
#print axioms forced_digit
end KS
