import Mathlib.Tactic.Ring
import Mathlib.Tactic.Linarith
import Mathlib.Tactic.NormNum
import Mathlib.Tactic.Positivity
import Mathlib.Tactic.Push
import Mathlib.Data.Int.GCD
import Mathlib.Tactic.LinearCombination

/-! Probe for C12: a Lehmer matrix accepted by Jebelean's test maps (a,b) to (c,d) with
    0 ≤ d < c (so c ≥ d), d < b, and the same gcd.  Prefix data: a = a0*K + α, b = a1*K + β. -/
namespace Lh

/-- return site `Matrix(u2, v2, u3, v3, true)` (indices: 2 even, 3 odd):
    c = u2*a - v2*b, d = v3*b - u3*a; tested: a2 ≥ v2, a3 ≥ u3, a2 - a3 ≥ v3 + v2. -/
theorem site_even (K α β a0 a1 u2 v2 u3 v3 a2 a3 : ℤ)
    (hK : 1 ≤ K) (hα0 : 0 ≤ α) (hα : α < K) (hβ0 : 0 ≤ β) (hβ : β < K)
    (hu2 : 0 ≤ u2) (hv2 : 0 ≤ v2) (hu3 : 0 ≤ u3) (hv3 : 0 ≤ v3)
    (ha2 : a2 = u2 * a0 - v2 * a1) (ha3 : a3 = v3 * a1 - u3 * a0)
    (t1 : v2 ≤ a2) (t2 : u3 ≤ a3) (t3 : v3 + v2 ≤ a2 - a3) (hpos : 0 < v2 + v3) :
    let a := a0 * K + α
    let b := a1 * K + β
    let c := u2 * a - v2 * b
    let d := v3 * b - u3 * a
    0 ≤ d ∧ d < c := by
  intro a b c d
  have hc : c = a2 * K + u2 * α - v2 * β := by simp only [c, a, b, ha2]; ring
  have hd : d = a3 * K + v3 * β - u3 * α := by simp only [d, a, b, ha3]; ring
  constructor
  · rw [hd]
    have h1 : u3 * α ≤ u3 * (K - 1) := mul_le_mul_of_nonneg_left (by linarith) hu3
    have h2 : 0 ≤ v3 * β := mul_nonneg hv3 hβ0
    have h3 : u3 * K ≤ a3 * K := mul_le_mul_of_nonneg_right t2 (by linarith)
    nlinarith
  · rw [hc, hd]
    -- c - d = (a2 - a3) K + (u2+u3) α - (v2+v3) β ≥ (a2 - a3 - v2 - v3) K + (v2 + v3) > 0
    have h1 : (v2 + v3) * β ≤ (v2 + v3) * (K - 1) := mul_le_mul_of_nonneg_left (by linarith) (by linarith)
    have h2 : 0 ≤ (u2 + u3) * α := mul_nonneg (by linarith) hα0
    have h3 : (v3 + v2) * K ≤ (a2 - a3) * K := mul_le_mul_of_nonneg_right t3 (by linarith)
    nlinarith

/-- unimodular update preserves the gcd and gives `d < b` once `0 ≤ d < c`. -/
theorem unimod (a b u2 v2 u3 v3 : ℤ) (hdet : u2 * v3 - u3 * v2 = 1)
    (hu2 : 0 ≤ u2) (hu3 : 1 ≤ u3) :
    let c := u2 * a - v2 * b
    let d := v3 * b - u3 * a
    Int.gcd c d = Int.gcd a b ∧ (0 ≤ d → d < c → d < b) := by
  intro c d
  have ha : a = v3 * c + v2 * d := by simp only [c, d]; linear_combination (-a) * hdet
  have hb : b = u3 * c + u2 * d := by simp only [c, d]; linear_combination (-b) * hdet
  constructor
  · apply Nat.dvd_antisymm
    · -- gcd c d ∣ gcd a b
      apply Int.natCast_dvd_natCast.mp
      apply Int.dvd_coe_gcd
      · rw [ha]; exact dvd_add (Dvd.dvd.mul_left (Int.gcd_dvd_left c d) _) (Dvd.dvd.mul_left (Int.gcd_dvd_right c d) _)
      · rw [hb]; exact dvd_add (Dvd.dvd.mul_left (Int.gcd_dvd_left c d) _) (Dvd.dvd.mul_left (Int.gcd_dvd_right c d) _)
    · apply Int.natCast_dvd_natCast.mp
      apply Int.dvd_coe_gcd
      · exact dvd_sub (Dvd.dvd.mul_left (Int.gcd_dvd_left a b) _) (Dvd.dvd.mul_left (Int.gcd_dvd_right a b) _)
      · exact dvd_sub (Dvd.dvd.mul_left (Int.gcd_dvd_right a b) _) (Dvd.dvd.mul_left (Int.gcd_dvd_left a b) _)
  · intro hd0 hdc
    rw [hb]
    have h1 : c ≤ u3 * c := by nlinarith
    have h2 : 0 ≤ u2 * d := mul_nonneg hu2 hd0
    linarith

#print axioms site_even
#print axioms unimod
end Lh
