import random, subprocess, math, sys
from math import gcd
random.seed(int(sys.argv[1]) if len(sys.argv)>1 else 1)
WIDTHS=[1,2,3,4,8,63,64,65,127,128,129,192,250,256,320]
def val(bits):
    if bits==0: return 0
    M=(1<<bits)-1
    c=random.random()
    if c<0.08: return random.choice([0,1,2&M,M,M-1 if M>0 else 0])
    if c<0.2:
        k=random.randrange(bits); return ((1<<k)+random.choice([-1,0,1]))&M
    if c<0.4:
        n=random.randrange(1,bits+1); return random.getrandbits(n)
    if c<0.55:
        # limb patterns
        limbs=(bits+63)//64; v=0
        for i in range(limbs):
            v|=random.choice([0,0xffffffffffffffff,random.getrandbits(64),1,1<<63])<<(64*i)
        return v&M
    if c<0.65:
        v=0
        for _ in range(random.randrange(1,4)): v|=1<<random.randrange(bits)
        return v
    return random.getrandbits(bits)
def iroot(n,k):
    if n<2: return n
    lo,hi=1,1<<((n.bit_length()+k-1)//k+1)
    while lo<hi:
        mid=(lo+hi+1)//2
        if mid**k<=n: lo=mid
        else: hi=mid-1
    return lo
def ilog(x,b):
    r=0; p=b
    while p<=x: p*=b; r+=1
    return r
def hx(v): return format(v,'x')
cases=[]  # (line, expected or callable on output)
def add(line, exp): cases.append((line,exp))
N=int(sys.argv[2]) if len(sys.argv)>2 else 300
for bits in WIDTHS:
    M=(1<<bits)-1; Mod=1<<bits
    for _ in range(N):
        a,b,c=val(bits),val(bits),val(bits)
        if random.random()<0.15: b=(a+random.choice([-1,0,1]))&M
        add(f"oadd {bits} {hx(a)} {hx(b)}", f"{hx((a+b)&M)} {int(a+b>M)}")
        add(f"osub {bits} {hx(a)} {hx(b)}", f"{hx((a-b)&M)} {int(a<b)}")
        add(f"omul {bits} {hx(a)} {hx(b)}", f"{hx((a*b)&M)} {int(a*b>M)}")
        add(f"wmul {bits} {hx(a)} {hx(b)}", hx((a*b)&M))
        add(f"invring {bits} {hx(a)}", hx(pow(a,-1,Mod)) if a&1 else "none")
        if b: add(f"divrem {bits} {hx(a)} {hx(b)}", f"{hx(a//b)} {hx(a%b)}")
        # k*d - eps
        if b>1:
            k=random.randrange(1,max(2,Mod//b)); n=k*b-random.randrange(1,3)
            if 0<=n<=M: add(f"divrem {bits} {hx(n)} {hx(b)}", f"{hx(n//b)} {hx(n%b)}")
        s=random.choice([0,1,63,64,65,bits-1,bits,bits+1,random.randrange(0,bits+70)])
        if s<0: s=0
        add(f"shl {bits} {hx(a)} {s}", hx((a<<s)&M)); add(f"shr {bits} {hx(a)} {s}", hx(a>>s))
        sign=a>>(bits-1)&1
        add(f"ashr {bits} {hx(a)} {s}", hx(((a>>s)|((M<<max(bits-s,0))&M if sign else 0))&M))
        k=s%bits
        add(f"rotl {bits} {hx(a)} {s}", hx(((a<<k)|(a>>(bits-k)))&M)); add(f"rotr {bits} {hx(a)} {s}", hx(((a>>k)|(a<<(bits-k)))&M))
        add(f"rev {bits} {hx(a)}", hx(int(format(a,f'0{bits}b')[::-1],2)))
        bl=a.bit_length(); lz=bits-bl; lo=bits-((~a)&M).bit_length(); tz=(a&-a).bit_length()-1 if a else bits; na=(~a)&M; to=(na&-na).bit_length()-1 if na else bits
        co=bin(a).count('1')
        if bl<=64: ms,e=a,0
        else: e=bl-64; ms=a>>e
        # exponent semantic: code gives exponent = first_set_limb*64 - lz(hi) -> bl-64 when >1 limb nonzero
        add(f"counts {bits} {hx(a)}", f"{lz} {lo} {tz} {to} {co} {bits-co} {bl} {(bl+7)//8} {hx(ms)} {e}")
        np=1 if a==0 else (a if a&(a-1)==0 else 1<<bl)
        add(f"npow2 {bits} {hx(a)}", hx(np) if np<=M else "none")
        m=val(bits)
        if random.random()<0.2: m=random.choice([0,1,2&M,M])
        add(f"addmod {bits} {hx(a)} {hx(b)} {hx(m)}", hx((a+b)%m if m else 0))
        add(f"mulmod {bits} {hx(a)} {hx(b)} {hx(m)}", hx((a*b)%m if m else 0))
        if bits<=256 or random.random()<0.1:
            e_=val(bits) if bits<=128 else val(64)&M
            add(f"powmod {bits} {hx(a)} {hx(e_)} {hx(m)}", hx(pow(a,e_,m) if m else 0))
        add(f"invmod {bits} {hx(a)} {hx(m)}", hx(pow(a,-1,m)) if m>=2 and gcd(a,m)==1 else "none")
        g=gcd(a,b)
        add(f"gcd {bits} {hx(a)} {hx(b)}", hx(g))
        l=(a*b//g) if g else 0
        add(f"lcm {bits} {hx(a)} {hx(b)}", hx(l) if l<=M else "none")
        def chk(out,a=a,b=b,g=g,M=M):
            p=out.split(' ')
            if len(p)!=4: return False
            gg,x,y,s=int(p[0],16),int(p[1],16),int(p[2],16),p[3]=='1'
            return gg==g and (((a*x-b*y)&M)==g if s else ((b*y-a*x)&M)==g)
        add(f"gcdx {bits} {hx(a)} {hx(b)}", chk)
        # fibonacci-like / common factor
        if random.random()<0.3:
            f0,f1=1,1
            while f1.bit_length()<bits: f0,f1=f1,f0+f1
            add(f"gcd {bits} {hx(f0)} {hx(f1-f0 if f1-f0>0 else 1)}", hx(gcd(f0,f1-f0 if f1-f0>0 else 1)))
            t=val(max(1,bits//2)); x=(a>>(bits//2+1))*t; y=(b>>(bits//2+1))*t
            add(f"gcd {bits} {hx(x)} {hx(y)}", hx(gcd(x,y))); add(f"invmod {bits} {hx(x)} {hx(y)}", hx(pow(x,-1,y)) if y>=2 and gcd(x,y)==1 else "none")
        ee=random.choice([0,1,2,3,random.randrange(0,bits+2), val(bits)])&M
        pw=pow(a,ee) if (a<2 or ee<4096) else None
        if pw is not None: add(f"opow {bits} {hx(a)} {hx(ee)}", f"{hx(pw&M)} {int(pw>M)}")
        if bits>=4:
            base=random.choice([2,3,10,val(bits),val(min(bits,16))])&M
            add(f"log {bits} {hx(a)} {hx(base)}", str(ilog(a,base)) if a>0 and base>=2 else "none")
        if bits>=1:
            deg=random.choice([1,2,3,5,random.randrange(1,bits+3)])
            add(f"root {bits} {hx(a)} {deg}", hx(iroot(a,deg)))
            r=val(max(1,bits//deg)) ; pp=r**deg+random.choice([-1,0,1])
            if 0<=pp<=M: add(f"root {bits} {hx(pp)} {deg}", hx(iroot(pp,deg)))
        # redc
        L=(bits+63)//64; R=1<<(64*L)
        mm=val(bits)|1
        if random.random()<0.5 and bits%64==0:
            top=random.choice([(1<<62)-2,(1<<62)-1,1<<62,(1<<63)-2,(1<<63)-1,1<<63,(1<<64)-1])
            mm=((top<<(64*(L-1)))|random.getrandbits(64*(L-1)) if L>1 else top)|1
            if random.random()<0.5: mm=((top<<(64*(L-1)))|((1<<(64*(L-1)))-1))|1 if L>1 else top|1
        mm&=M
        if mm>=3:
            x=random.choice([mm-1,mm-2,val(bits)%mm,0,1]); y=random.choice([mm-1,mm-2,val(bits)%mm])
            inv=(-pow(mm,-1,1<<64))%(1<<64)
            add(f"redc {bits} {hx(x)} {hx(y)} {hx(mm)} {hx(inv)}", hx(x*y*pow(R,-1,mm)%mm))
            add(f"sqredc {bits} {hx(x)} {hx(mm)} {hx(inv)}", hx(x*x*pow(R,-1,mm)%mm))
        bb=random.choice([2,3,10,16,36,255,256,10**19,2**32,2**63,2**64-1,random.randrange(2,1<<64)])
        ds=[];t=a
        while t: ds.append(t%bb); t//=bb
        add(f"tobase {bits} {hx(a)} {bb}", ",".join(map(str,ds[::-1])))
        # from base: value maybe overflow by a bit
        v2=random.choice([a, M+1, M+random.randrange(1,5), M*bb if random.random()<0.3 else a, Mod*random.randrange(1,3)])
        ds=[];t=v2
        while t: ds.append(t%bb); t//=bb
        ds+= [0]*random.choice([0,0,1,3])
        add(f"frombe {bits} {bb} {','.join(map(str,ds[::-1])) or '-'}", hx(v2) if v2<=M else "err Overflow")
        add(f"fromle {bits} {bb} {','.join(map(str,ds)) or '-'}", hx(v2) if v2<=M else "err Overflow")
        add(f"dec {bits} {hx(a)}", str(a)); add(f"oct {bits} {hx(a)}", format(a,'o')); add(f"bin {bits} {hx(a)}", format(a,'b'))
inp="\n".join(l for l,_ in cases)+"\n"
out=subprocess.run(["/tmp/probe/target/debug/scan"],input=inp,capture_output=True,text=True).stdout.split("\n")
bad={}
for (line,exp),o in zip(cases,out):
    ok = exp(o) if callable(exp) else (o==exp)
    if not ok:
        op=line.split(' ')[0]; bad.setdefault(op,[]).append((line,exp if not callable(exp) else 'pred',o))
print("cases",len(cases))
for op,l in bad.items():
    print("==",op,len(l))
    for x in l[:4]: print("   ",x[0][:150],"| exp",str(x[1])[:70],"| got",x[2][:70])
