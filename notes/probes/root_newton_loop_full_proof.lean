import Mathlib.Tactic.Ring
import Mathlib.Tactic.Linarith
import Mathlib.Tactic.NormNum
import Mathlib.Tactic.Positivity
import Mathlib.Tactic.Push

/-! C13 probe: the three facts about the integer Newton step `f x = ((k-1)·x + n / x^(k-1)) / k`
    that make `root` exact, for every degree `k ≥ 1`:
    (1) `s^k ≤ n → s ≤ f x` for all `x ≥ 1` (AM–GM), (2) `n < x^k → f x < x`, (3) `(x+1)^k ≤ n → x < f x`. -/
namespace Rt

/-- AM–GM in the form needed: `k·s·x^(k-1) ≤ s^k + (k-1)·x^k`. Stated with `k = j+1`. -/
theorem amgm (s x : ℕ) (j : ℕ) : (j + 1) * s * x ^ j ≤ s ^ (j + 1) + j * x ^ (j + 1) := by
  induction j with
  | zero => simp
  | succ j ih =>
    -- rearrangement: s^(j+1)·x + s·x^(j+1) ≤ s^(j+2) + x^(j+2)
    have hre : s ^ (j + 1) * x + s * x ^ (j + 1) ≤ s ^ (j + 2) + x ^ (j + 2) := by
      rcases Nat.le_total s x with h | h
      · have hp : s ^ (j + 1) ≤ x ^ (j + 1) := Nat.pow_le_pow_left h _
        obtain ⟨a, ha⟩ := Nat.exists_eq_add_of_le h
        obtain ⟨b, hb⟩ := Nat.exists_eq_add_of_le hp
        rw [pow_succ s (j + 1), pow_succ x (j + 1), hb, ha]
        nlinarith [Nat.zero_le (a * b)]
      · have hp : x ^ (j + 1) ≤ s ^ (j + 1) := Nat.pow_le_pow_left h _
        obtain ⟨a, ha⟩ := Nat.exists_eq_add_of_le h
        obtain ⟨b, hb⟩ := Nat.exists_eq_add_of_le hp
        rw [pow_succ s (j + 1), pow_succ x (j + 1), hb, ha]
        nlinarith [Nat.zero_le (a * b)]
    have h1 : (j + 1) * s * x ^ j * x ≤ (s ^ (j + 1) + j * x ^ (j + 1)) * x := Nat.mul_le_mul_right _ ih
    have e1 : (j + 1) * s * x ^ j * x = (j + 1) * s * x ^ (j + 1) := by rw [pow_succ]; ring
    have e2 : (s ^ (j + 1) + j * x ^ (j + 1)) * x = s ^ (j + 1) * x + j * x ^ (j + 2) := by
      rw [pow_succ x (j + 1)]; ring
    rw [e1, e2] at h1
    have e3 : (j + 1 + 1) * s * x ^ (j + 1) = (j + 1) * s * x ^ (j + 1) + s * x ^ (j + 1) := by ring
    have e4 : (j + 1) * x ^ (j + 1 + 1) = j * x ^ (j + 2) + x ^ (j + 2) := by ring
    rw [e3, e4]
    have : s ^ (j + 1 + 1) = s ^ (j + 2) := rfl
    rw [this]
    omega

/-- Bernoulli in the form needed: `x^(j+1) + (j+1)·x^j ≤ (x+1)^(j+1)`. -/
theorem bern (x j : ℕ) : x ^ (j + 1) + (j + 1) * x ^ j ≤ (x + 1) ^ (j + 1) := by
  induction j with
  | zero => simp
  | succ j ih =>
    have h1 : (x ^ (j + 1) + (j + 1) * x ^ j) * (x + 1) ≤ (x + 1) ^ (j + 1) * (x + 1) := Nat.mul_le_mul_right _ ih
    have e1 : (x ^ (j + 1) + (j + 1) * x ^ j) * (x + 1)
        = x ^ (j + 2) + (j + 2) * x ^ (j + 1) + (j + 1) * x ^ j := by
      rw [pow_succ x (j + 1), pow_succ x j]; ring
    rw [e1, ← pow_succ] at h1
    have : x ^ (j + 1 + 1) + (j + 1 + 1) * x ^ (j + 1) = x ^ (j + 2) + (j + 2) * x ^ (j + 1) := rfl
    rw [this]
    omega

/-- the Newton step, degree `k = j+1`. -/
def step (n j x : ℕ) : ℕ := (j * x + n / x ^ j) / (j + 1)

/-- (1) never below the root. -/
theorem step_ge (n j x s : ℕ) (hx : 1 ≤ x) (hs : s ^ (j + 1) ≤ n) : s ≤ step n j x := by
  unfold step
  have hxj : 0 < x ^ j := by positivity
  rw [Nat.le_div_iff_mul_le (by omega)]
  -- s·(j+1) ≤ j·x + n / x^j  ⇐  (s·(j+1) - j·x)·x^j ≤ n
  by_cases hc : s * (j + 1) ≤ j * x
  · exact le_trans hc (Nat.le_add_right _ _)
  · push Not at hc
    obtain ⟨g, hg⟩ : ∃ g, g = n / x ^ j := ⟨_, rfl⟩
    rw [← hg]
    have : s * (j + 1) - j * x ≤ g := by
      rw [hg]
      rw [Nat.le_div_iff_mul_le hxj]
      have h1 := amgm s x j
      have e : (s * (j + 1) - j * x) * x ^ j = (j + 1) * s * x ^ j - j * x ^ (j + 1) := by
        rw [Nat.sub_mul, pow_succ]; congr 1 <;> ring
      rw [e]; omega
    omega

/-- (2) strictly decreasing above the root. -/
theorem step_lt (n j x : ℕ) (hj : 1 ≤ j) (hn : n < x ^ (j + 1)) : step n j x < x := by
  unfold step
  have hx : 0 < x := by
    rcases Nat.eq_zero_or_pos x with h | h
    · rw [h] at hn; simp at hn
    · exact h
  have hxj : 0 < x ^ j := by positivity
  rw [Nat.div_lt_iff_lt_mul (by omega)]
  have : n / x ^ j < x := by
    rw [Nat.div_lt_iff_lt_mul hxj]; rw [pow_succ] at hn; linarith [Nat.mul_comm x (x ^ j)]
  have e : x * (j + 1) = j * x + x := by ring
  omega

/-- (3) strictly increasing while at least one below the root. -/
theorem step_gt (n j x : ℕ) (hx : 1 ≤ x) (hn : (x + 1) ^ (j + 1) ≤ n) : x < step n j x := by
  unfold step
  have hxj : 0 < x ^ j := by positivity
  rw [Nat.lt_iff_add_one_le, Nat.le_div_iff_mul_le (by omega)]
  have : x + (j + 1) ≤ n / x ^ j := by
    rw [Nat.le_div_iff_mul_le hxj]
    have := bern x j
    have e : (x + (j + 1)) * x ^ j = x ^ (j + 1) + (j + 1) * x ^ j := by rw [pow_succ]; ring
    rw [e]; omega
  have e : (x + 1) * (j + 1) = j * x + (x + (j + 1)) := by ring
  omega


/-- the Newton loop of `root` on ℕ (no wrap-around), `dec` = the `decreasing` flag, capped doubling. -/
def rootLoop (n j : ℕ) : ℕ → Bool → ℕ → Option ℕ
  | 0, _, _ => none
  | f + 1, dec, r =>
    let it := step n j r
    if it = r then some r
    else if r < it then (if dec then some r else rootLoop n j f false (min it (2 * r)))
    else rootLoop n j f true it

/-- fuel that always suffices. -/
def mu (s : ℕ) (dec : Bool) (r : ℕ) : ℕ :=
  if dec then (r - s) + 1 else if r ≤ s then (s - r) + s + 3 else (r - s) + 2

theorem root_loop_spec (n j s : ℕ) (hj : 1 ≤ j) (hn : 1 ≤ n)
    (hlo : s ^ (j + 1) ≤ n) (hhi : n < (s + 1) ^ (j + 1))
    (f : ℕ) (dec : Bool) (r : ℕ) (hr : 1 ≤ r) (hdec : dec = true → s ≤ r) (hf : mu s dec r ≤ f) :
    rootLoop n j f dec r = some s := by
  have hs1 : 1 ≤ s := by
    rcases Nat.eq_zero_or_pos s with h | h
    · rw [h] at hhi; simp at hhi; omega
    · exact h
  -- classification of the step relative to the root
  have hbelow : ∀ x, 1 ≤ x → x < s → x < step n j x := fun x hx hxs =>
    step_gt n j x hx (le_trans (Nat.pow_le_pow_left (by omega) _) hlo)
  have habove : ∀ x, s < x → step n j x < x := fun x hxs =>
    step_lt n j x hj (lt_of_lt_of_le hhi (Nat.pow_le_pow_left (by omega) _))
  have hge : ∀ x, 1 ≤ x → s ≤ step n j x := fun x hx => step_ge n j x s hx hlo
  induction f generalizing dec r with
  | zero => unfold mu at hf; split at hf <;> (try split at hf) <;> omega
  | succ f ih =>
    simp only [rootLoop]
    have h1 := hbelow r hr
    have h2 := habove r
    have h3 := hge r hr
    obtain ⟨it, hit⟩ : ∃ it, it = step n j r := ⟨_, rfl⟩
    rw [← hit] at h1 h2 h3 ⊢
    split
    · next heq => -- fixed point
      have : r = s := by
        rcases Nat.lt_trichotomy r s with h | h | h
        · have := h1 h; omega
        · exact h
        · have := h2 h; omega
      rw [this]
    · next hne =>
      split
      · next hgt =>
        have hrs : r ≤ s := by
          by_contra hc; push Not at hc
          have := h2 hc; omega
        cases dec
        · simp only [Bool.false_eq_true, if_false]
          apply ih false (min it (2 * r)) (by omega) (by simp)
          unfold mu at hf ⊢
          simp only [Bool.false_eq_true, if_false] at hf ⊢
          rw [if_pos hrs] at hf
          split <;> omega
        · simp only [if_true]
          have := hdec rfl
          have : r = s := by omega
          rw [this]
      · next hle =>
        have hlt : it < r := by omega
        apply ih true it (by omega) (fun _ => h3)
        unfold mu at hf ⊢
        simp only [if_true]
        cases dec
        · simp only [Bool.false_eq_true, if_false] at hf
          split at hf
          · next hrs =>
            -- r ≤ s and it < r contradicts it ≥ s unless impossible
            omega
          · omega
        · simp only [if_true] at hf
          omega

#print axioms root_loop_spec
#print axioms step_ge
#print axioms step_lt
#print axioms step_gt
end Rt
