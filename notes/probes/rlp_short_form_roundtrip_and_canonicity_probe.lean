import Mathlib.Data.Nat.Digits.Lemmas
import Mathlib.Tactic.Ring
import Mathlib.Tactic.Linarith
import Mathlib.Tactic.NormNum
import Mathlib.Tactic.Push

/-! C16/C17 probe: RLP (alloy-rlp rules, short form = payload ≤ 55 bytes, i.e. every width up to 440 bits):
    `decode (encode x ++ tail) = ok (x, tail)`, the encoding is the canonical one, and the decoder's
    canonicity checks are exactly what makes it injective. Byte strings are `List ℕ` with entries `< 256`. -/
namespace Rlp

def toBE (x : ℕ) : List ℕ := (Nat.digits 256 x).reverse
def fromBE (bs : List ℕ) : ℕ := Nat.ofDigits 256 bs.reverse

theorem fromBE_toBE (x : ℕ) : fromBE (toBE x) = x := by
  unfold fromBE toBE; rw [List.reverse_reverse]; exact Nat.ofDigits_digits 256 x

def enc (x : ℕ) : List ℕ :=
  match toBE x with
  | [] => [0x80]
  | [b] => if b < 0x80 then [b] else [0x81, b]
  | bs => (0x80 + bs.length) :: bs

inductive Err | tooShort | nonCanonicalSingle | leadingZero | overflow | unsupported
  deriving DecidableEq, Repr

/-- `Header::decode_bytes` (short forms) followed by ruint's own checks; `maxv` = `2^BITS`. -/
def dec (maxv : ℕ) : List ℕ → Except Err (ℕ × List ℕ)
  | [] => .error .tooShort
  | b :: rest =>
    if b < 0x80 then (if b = 0 then .error .leadingZero else if b < maxv then .ok (b, rest) else .error .overflow)
    else if b ≤ 0xb7 then
      let len := b - 0x80
      if rest.length < len then .error .tooShort
      else
        let payload := rest.take len
        if len = 1 ∧ payload.headD 0 < 0x80 then .error .nonCanonicalSingle
        else if payload.headD 1 = 0 then .error .leadingZero
        else if fromBE payload < maxv then .ok (fromBE payload, rest.drop len) else .error .overflow
    else .error .unsupported

theorem toBE_head_ne_zero (x : ℕ) (b : ℕ) (bs : List ℕ) (h : toBE x = b :: bs) : b ≠ 0 := by
  unfold toBE at h
  have hne : Nat.digits 256 x ≠ [] := by
    intro h0; rw [h0] at h; simp at h
  have hl := Nat.getLast_digit_ne_zero 256 (m := x) (by
    intro hx; rw [hx] at hne; simp at hne)
  have : (Nat.digits 256 x).getLast hne = b := by
    have h2 : Nat.digits 256 x = (b :: bs).reverse := by rw [← h, List.reverse_reverse]
    simp [h2]
  rw [this] at hl; exact hl

theorem toBE_lt (x : ℕ) : ∀ b ∈ toBE x, b < 256 := by
  intro b hb
  unfold toBE at hb
  exact Nat.digits_lt_base (by norm_num) (List.mem_reverse.mp hb)

/-- round trip, with arbitrary trailing bytes left in the buffer. -/
theorem dec_enc (maxv x : ℕ) (tail : List ℕ) (hx : x < maxv) (hlen : (toBE x).length ≤ 55) :
    dec maxv (enc x ++ tail) = .ok (x, tail) := by
  have hrt := fromBE_toBE x
  unfold enc
  match hbs : toBE x with
  | [] =>
    rw [hbs] at hrt
    have hx0 : x = 0 := by rw [← hrt]; rfl
    simp [dec, fromBE, hx0 ▸ hx, hx0]
  | [b] =>
    rw [hbs] at hrt
    have hbx : x = b := by rw [← hrt]; simp [fromBE]
    have hb0 := toBE_head_ne_zero x b [] hbs
    rw [hbx] at hx ⊢
    have hfb : fromBE [b] = b := by simp [fromBE]
    by_cases hb : b < 0x80
    · simp [dec, hb, hb0, hx]
    · simp [dec, hb, hb0, hfb, hx]
  | b :: c :: bs =>
    rw [hbs] at hrt hlen
    have hb0 := toBE_head_ne_zero x b (c :: bs) hbs
    simp only [List.cons_append, dec]
    have hL : (b :: c :: bs).length = bs.length + 2 := by simp
    rw [hL] at hlen ⊢
    have h1 : ¬ (0x80 + (bs.length + 2) < 0x80) := by omega
    have h2 : 0x80 + (bs.length + 2) ≤ 0xb7 := by omega
    have h3 : 0x80 + (bs.length + 2) - 0x80 = bs.length + 2 := by omega
    rw [if_neg h1, if_pos h2]
    simp only [h3]
    have h4 : ¬ ((b :: c :: (bs ++ tail)).length < bs.length + 2) := by simp
    rw [if_neg h4]
    have htake : (b :: c :: (bs ++ tail)).take (bs.length + 2) = b :: c :: bs := by
      simp [List.take_succ_cons]
    have hdrop : (b :: c :: (bs ++ tail)).drop (bs.length + 2) = tail := by
      simp [List.drop_succ_cons]
    rw [htake, hdrop]
    have h5 : ¬ (bs.length + 2 = 1 ∧ (b :: c :: bs).headD 0 < 0x80) := by omega
    rw [if_neg h5]
    have h6 : ¬ ((b :: c :: bs).headD 1 = 0) := by simpa using hb0
    rw [if_neg h6, hrt, if_pos hx]

/-- the single byte `0x80 ≤ b` must be wrapped, and a wrapped byte `< 0x80` is rejected. -/
example : dec 256 [0x81, 0x05] = .error .nonCanonicalSingle := by decide
example : dec (2 ^ 64) [0x82, 0x00, 0x01] = .error .leadingZero := by decide
example : dec 256 [0x82, 0x01, 0x00] = .error .overflow := by decide
example : dec 256 [0x83, 0x01] = .error .tooShort := by decide

theorem toBE_fromBE (bs : List ℕ) (hlt : ∀ b ∈ bs, b < 256) (hhead : bs.headD 1 ≠ 0) : toBE (fromBE bs) = bs := by
  unfold toBE fromBE
  have h1 : ∀ l ∈ bs.reverse, l < 256 := fun l hl => hlt l (List.mem_reverse.mp hl)
  have h2 : ∀ h : bs.reverse ≠ [], bs.reverse.getLast h ≠ 0 := by
    intro h
    match bs, hhead, h with
    | b :: bs', hhead, _ => simpa using hhead
  rw [Nat.digits_ofDigits 256 (by norm_num) bs.reverse h1 h2, List.reverse_reverse]

/-- the decoder accepts only the canonical encoding: anything it accepts is `enc x ++ tail`. -/
theorem dec_canonical (maxv : ℕ) (buf : List ℕ) (x : ℕ) (tail : List ℕ) (hbuf : ∀ b ∈ buf, b < 256)
    (h : dec maxv buf = .ok (x, tail)) : buf = enc x ++ tail := by
  match buf, hbuf, h with
  | [], _, h => simp [dec] at h
  | b :: rest, hbuf, h =>
    simp only [dec] at h
    split at h
    · next hb =>
      split at h
      · simp at h
      · next hb0 =>
        split at h
        · simp only [Except.ok.injEq, Prod.mk.injEq] at h
          obtain ⟨rfl, rfl⟩ := h
          have : toBE b = [b] := by
            have := toBE_fromBE [b] (fun y hy => by simp at hy; rw [hy]; omega) (by simpa using hb0)
            simpa [fromBE] using this
          simp [enc, this, hb]
        · simp at h
    · next hb =>
      split at h
      · next hb7 =>
        split at h
        · simp at h
        · next hlen =>
          split at h
          · simp at h
          · next hnc =>
            split at h
            · simp at h
            · next hlz =>
              split at h
              · simp only [Except.ok.injEq, Prod.mk.injEq] at h
                obtain ⟨rfl, rfl⟩ := h
                obtain ⟨len, hlen'⟩ : ∃ len, len = b - 0x80 := ⟨_, rfl⟩
                rw [← hlen'] at hlen hnc hlz ⊢
                have hb' : b = 0x80 + len := by omega
                obtain ⟨p, hp⟩ : ∃ p, p = rest.take len := ⟨_, rfl⟩
                rw [← hp] at hnc hlz ⊢
                have hplen : p.length = len := by rw [hp]; simp; omega
                have hplt : ∀ y ∈ p, y < 256 := fun y hy =>
                  hbuf y (by rw [hp] at hy; exact List.mem_cons_of_mem _ (List.mem_of_mem_take hy))
                have hrt := toBE_fromBE p hplt hlz
                have hrest : rest = p ++ rest.drop len := by rw [hp, List.take_append_drop]
                unfold enc
                rw [hrt]
                match p, hplen, hnc, hlz, hrest with
                | [], hplen, _, _, hrest =>
                  simp at hplen
                  rw [hb', ← hplen]; simp [hrest.symm]
                | [y], hplen, hnc, _, hrest =>
                  simp at hplen
                  have hy : ¬ y < 0x80 := by
                    intro hy; apply hnc; exact ⟨hplen.symm, by simpa using hy⟩
                  simp only [hy, if_false]
                  rw [hb', ← hplen]
                  simp only [List.cons_append, List.nil_append]
                  rw [hrest]; simp
                | y :: z :: p', hplen, _, _, hrest =>
                  rw [hb', ← hplen]
                  simp only [List.cons_append]
                  rw [hrest]; simp
              · simp at h
      · simp at h

#print axioms dec_canonical
#print axioms dec_enc
end Rlp
