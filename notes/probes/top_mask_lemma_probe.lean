import Mathlib.Tactic.Ring
import Mathlib.Tactic.Linarith
import Mathlib.Tactic.NormNum
import Mathlib.Tactic.Positivity
import Mathlib.Tactic.Push

/-! Probe: the top-limb mask lemma that every masked producer (C01..C13) and C04 rest on. -/
namespace M

def W : ℕ := 2 ^ 64
theorem W_pos : 0 < W := by unfold W; positivity

def val : List ℕ → ℕ
  | [] => 0
  | x :: xs => x + W * val xs
@[simp] theorem val_nil : val [] = 0 := rfl
@[simp] theorem val_cons (x xs) : val (x :: xs) = x + W * val xs := rfl
def AllLt (l : List ℕ) : Prop := ∀ x ∈ l, x < W

def nlimbs (bits : ℕ) : ℕ := (bits + 63) / 64
/-- `mask(bits)` exactly as in `src/lib.rs`. -/
def mask (bits : ℕ) : ℕ :=
  if bits = 0 then 0 else if bits % 64 = 0 then W - 1 else 2 ^ (bits % 64) - 1

/-- number of significant bits in the top limb -/
def topBits (bits : ℕ) : ℕ := bits - 64 * (nlimbs bits - 1)

theorem topBits_range (bits : ℕ) (h : 0 < bits) : 1 ≤ topBits bits ∧ topBits bits ≤ 64
    ∧ bits = 64 * (nlimbs bits - 1) + topBits bits := by
  unfold topBits nlimbs; omega

theorem mask_eq (bits : ℕ) (h : 0 < bits) : mask bits = 2 ^ topBits bits - 1 := by
  unfold mask
  have hb : bits ≠ 0 := by omega
  simp only [hb, if_false]
  by_cases h64 : bits % 64 = 0
  · simp only [h64, if_true]
    have : topBits bits = 64 := by unfold topBits nlimbs; omega
    rw [this]; rfl
  · simp only [h64, if_false]
    have : topBits bits = bits % 64 := by unfold topBits nlimbs; omega
    rw [this]

theorem val_append_single (l : List ℕ) (x : ℕ) : val (l ++ [x]) = val l + W ^ l.length * x := by
  induction l with
  | nil => simp
  | cons y ys ih => simp only [List.cons_append, val_cons, ih, List.length_cons, pow_succ]; ring

theorem val_lt_pow (l : List ℕ) (h : AllLt l) : val l < W ^ l.length := by
  induction l with
  | nil => simp
  | cons x xs ih =>
    have hx : x < W := h x (by simp)
    have hxs := ih (fun y hy => h y (by simp [hy]))
    simp only [val_cons, List.length_cons, pow_succ]
    nlinarith [Nat.zero_le (val xs)]

theorem two_pow_bits (bits : ℕ) (h : 0 < bits) :
    2 ^ bits = W ^ (nlimbs bits - 1) * 2 ^ topBits bits := by
  obtain ⟨_, _, e⟩ := topBits_range bits h
  conv_lhs => rw [e]
  rw [pow_add, pow_mul]; rfl

/-- top limb test ⇔ value test, and masking the top limb = reducing the value mod `2^bits`. -/
theorem top_mask (bits : ℕ) (h : 0 < bits) (init : List ℕ) (t : ℕ)
    (hlen : init.length = nlimbs bits - 1) (hinit : AllLt init) :
    (t ≤ mask bits ↔ val (init ++ [t]) < 2 ^ bits)
    ∧ val (init ++ [t % 2 ^ topBits bits]) = val (init ++ [t]) % 2 ^ bits := by
  have hlow := val_lt_pow init hinit
  rw [hlen] at hlow
  rw [val_append_single, val_append_single, hlen, two_pow_bits bits h, mask_eq bits h]
  set P := W ^ (nlimbs bits - 1) with hP
  set T := 2 ^ topBits bits with hT
  have hPpos : 0 < P := by have := W_pos; positivity
  have hTpos : 0 < T := by positivity
  constructor
  · constructor
    · intro hle
      have : t + 1 ≤ T := by omega
      nlinarith
    · intro hlt
      by_contra hcon
      push Not at hcon
      have : T ≤ t := by omega
      nlinarith
  · have e := Nat.div_add_mod t T
    have hm := Nat.mod_lt t hTpos
    have hlt : val init + P * (t % T) < P * T := by nlinarith
    have : val init + P * t = (val init + P * (t % T)) + P * T * (t / T) := by
      have : P * t = P * (T * (t / T) + t % T) := by rw [e]
      rw [this]; ring
    rw [this, Nat.add_mul_mod_self_left, Nat.mod_eq_of_lt hlt]

end M
#print axioms M.top_mask
