import Mathlib.Tactic.Ring
import Mathlib.Tactic.Linarith
import Mathlib.Tactic.NormNum
import Mathlib.Tactic.Positivity
import Mathlib.Tactic.Push
import Mathlib.Data.Nat.ModEq

/-! `mul_redc` (CIOS Montgomery multiplication), generic base `B`: inner loop, one outer step,
    the outer loop with the threshold arm that drops the carry, and the final conditional subtraction. -/
namespace Redc

def val (B : ℕ) : List ℕ → ℕ
  | [] => 0
  | x :: xs => x + B * val B xs
@[simp] theorem val_nil (B) : val B [] = 0 := rfl
@[simp] theorem val_cons (B x xs) : val B (x :: xs) = x + B * val B xs := rfl

/-- tail of the inner loop (indices `i ≥ 1`): returns shifted outputs and the two carries. -/
def inner (B b m : ℕ) : List ℕ → List ℕ → List ℕ → ℕ → ℕ → List ℕ × ℕ × ℕ
  | a :: as, mo :: ms, r :: rs, c1, c2 =>
      let t1 := a * b + r + c1
      let t2 := mo * m + t1 % B + c2
      let rest := inner B b m as ms rs (t1 / B) (t2 / B)
      (t2 % B :: rest.1, rest.2.1, rest.2.2)
  | _, _, _, c1, c2 => ([], c1, c2)

theorem inner_spec (B b m : ℕ) (as ms rs : List ℕ) (c1 c2 : ℕ)
    (h1 : as.length = rs.length) (h2 : ms.length = rs.length) :
    val B (inner B b m as ms rs c1 c2).1
        + B ^ rs.length * ((inner B b m as ms rs c1 c2).2.1 + (inner B b m as ms rs c1 c2).2.2)
      = val B rs + val B as * b + val B ms * m + c1 + c2
    ∧ (inner B b m as ms rs c1 c2).1.length = rs.length := by
  induction rs generalizing as ms c1 c2 with
  | nil =>
    cases as <;> cases ms <;> simp_all [inner]
  | cons r rs ih =>
    cases as with
    | nil => simp at h1
    | cons a as =>
      cases ms with
      | nil => simp at h2
      | cons mo ms =>
        simp only [List.length_cons, Nat.add_right_cancel_iff] at h1 h2
        simp only [inner, val_cons, List.length_cons, pow_succ]
        obtain ⟨ih1, ih2⟩ := ih as ms ((a * b + r + c1) / B) ((mo * m + (a * b + r + c1) % B + c2) / B) h1 h2
        refine ⟨?_, by simp [ih2]⟩
        have e1 := Nat.div_add_mod (a * b + r + c1) B
        have e2 := Nat.div_add_mod (mo * m + (a * b + r + c1) % B + c2) B
        set rest := inner B b m as ms rs ((a * b + r + c1) / B) ((mo * m + (a * b + r + c1) % B + c2) / B)
        nlinarith [ih1, e1, e2]

/-- one outer iteration: accumulator `(res, carry)` ↦ `(res', carry')` for multiplier limb `b`. -/
def outer (B inv b : ℕ) (a md res : List ℕ) (carry : ℕ) : List ℕ × ℕ :=
  match a, md, res with
  | a0 :: as, m0 :: ms, r0 :: rs =>
      let t1 := a0 * b + r0
      let m := (t1 % B * inv) % B
      let t2 := m0 * m + t1 % B
      let rest := inner B b m as ms rs (t1 / B) (t2 / B)
      let top := rest.2.1 + rest.2.2 + carry
      (rest.1 ++ [top % B], top / B)
  | _, _, _ => (res, carry)

theorem val_append_single (B : ℕ) (l : List ℕ) (x : ℕ) : val B (l ++ [x]) = val B l + B ^ l.length * x := by
  induction l with
  | nil => simp
  | cons y ys ih => simp only [List.cons_append, val_cons, ih, List.length_cons, pow_succ]; ring

set_option maxHeartbeats 2000000 in
/-- Exactness of one CIOS step: `B * A' = A + a*b + m*Mod` where `A = val res + B^N * carry`,
    provided the reduction factor kills the lowest limb. -/
theorem outer_spec (B inv b : ℕ) (a0 m0 r0 : ℕ) (as ms rs : List ℕ) (carry : ℕ) (hB : 0 < B)
    (h1 : as.length = rs.length) (h2 : ms.length = rs.length)
    (hm : (m0 * (((a0 * b + r0) % B * inv) % B) + (a0 * b + r0) % B) % B = 0) :
    let r := outer B inv b (a0 :: as) (m0 :: ms) (r0 :: rs) carry
    B * (val B r.1 + B ^ (rs.length + 1) * r.2)
      = (val B (r0 :: rs) + B ^ (rs.length + 1) * carry) + val B (a0 :: as) * b
        + val B (m0 :: ms) * (((a0 * b + r0) % B * inv) % B) := by
  intro r
  simp only [r, outer]
  set t1 := a0 * b + r0 with ht1
  set m := (t1 % B * inv) % B with hmdef
  set t2 := m0 * m + t1 % B with ht2
  obtain ⟨s1, s2⟩ := inner_spec B b m as ms rs (t1 / B) (t2 / B) h1 h2
  set rest := inner B b m as ms rs (t1 / B) (t2 / B)
  rw [val_append_single, s2]
  have e1 := Nat.div_add_mod t1 B
  have e2 := Nat.div_add_mod t2 B
  have e3 := Nat.div_add_mod (rest.2.1 + rest.2.2 + carry) B
  rw [hm] at e2
  simp only [val_cons, pow_succ]
  set P := B ^ rs.length with hP
  set T := rest.2.1 + rest.2.2 + carry with hT
  have k1 : P * (T % B) + P * B * (T / B) = P * T := by
    have : P * T = P * (B * (T / B) + T % B) := by rw [e3]
    rw [this]; ring
  have k2 : P * T = P * (rest.2.1 + rest.2.2) + P * carry := by rw [hT]; ring
  have k3 : B * (val B rest.1 + P * (rest.2.1 + rest.2.2))
      = B * (val B rs + val B as * b + val B ms * m + t1 / B + t2 / B) := by rw [s1]
  have k4 : B * (t1 / B) = t1 - t1 % B := by omega
  have k5 : t1 % B ≤ t1 := Nat.mod_le _ _
  have k6 : B * (val B rs + val B as * b + val B ms * m + t1 / B + t2 / B)
      = B * val B rs + B * (val B as * b) + B * (val B ms * m) + B * (t1 / B) + B * (t2 / B) := by ring
  clear_value P T rest
  have goal_lhs : B * (val B rest.1 + P * (T % B) + P * B * (T / B))
      = B * (val B rest.1 + P * (rest.2.1 + rest.2.2)) + B * (P * carry) := by
    have : val B rest.1 + P * (T % B) + P * B * (T / B) = val B rest.1 + (P * (T % B) + P * B * (T / B)) := by ring
    rw [this, k1, k2]; ring
  rw [goal_lhs, k3, k6]
  have e2' : B * (t2 / B) = t2 := by omega
  rw [e2', ht2]
  have : B * (t1 / B) + t1 % B = a0 * b + r0 := by rw [e1]
  nlinarith [this]


def AllLt (B : ℕ) (l : List ℕ) : Prop := ∀ x ∈ l, x < B

theorem val_lt_pow (B : ℕ) (l : List ℕ) (h : AllLt B l) : val B l < B ^ l.length := by
  induction l with
  | nil => simp
  | cons x xs ih =>
    have hx : x < B := h x (by simp)
    have hxs := ih (fun y hy => h y (by simp [hy]))
    simp only [val_cons, List.length_cons, pow_succ]
    nlinarith

theorem inner_allLt (B b m : ℕ) (hB : 0 < B) (as ms rs : List ℕ) (c1 c2 : ℕ) :
    AllLt B (inner B b m as ms rs c1 c2).1 := by
  induction rs generalizing as ms c1 c2 with
  | nil => cases as <;> cases ms <;> simp [inner, AllLt]
  | cons r rs ih =>
    cases as with
    | nil => simp [inner, AllLt]
    | cons a as =>
      cases ms with
      | nil => simp [inner, AllLt]
      | cons mo ms =>
        simp only [inner]
        intro x hx
        simp only [List.mem_cons] at hx
        rcases hx with rfl | hx
        · exact Nat.mod_lt _ hB
        · exact ih _ _ _ _ x hx

/-- the reduction factor clears the lowest limb when `inv·m0 ≡ −1 (mod B)`. -/
theorem m_kills (B inv m0 t : ℕ) (hB : 0 < B) (hinv : (inv * m0) % B = B - 1) :
    (m0 * ((t % B * inv) % B) + t % B) % B = 0 := by
  have h1 : Nat.ModEq B (m0 * ((t % B * inv) % B) + t % B) (m0 * (t % B * inv) + t % B) :=
    Nat.ModEq.add_right _ (Nat.ModEq.mul_left _ (Nat.mod_modEq _ _))
  have h2 : m0 * (t % B * inv) + t % B = (t % B) * (inv * m0 + 1) := by ring
  have h3 : (inv * m0 + 1) % B = 0 := by
    rw [Nat.add_mod, hinv]
    rcases Nat.lt_or_ge 1 B with h | h
    · rw [Nat.mod_eq_of_lt h, Nat.sub_add_cancel (le_of_lt h), Nat.mod_self]
    · have : B = 1 := by omega
      subst this; simp
  rw [h1, h2, Nat.mul_mod, h3, Nat.mul_zero, Nat.zero_mod]

/-- the outer loop over the limbs of `b`; `big` = `modulus[N-1] >= 0x7fff_ffff_ffff_ffff`. -/
def redcLoop (B inv : ℕ) (big : Bool) (a md : List ℕ) : List ℕ → List ℕ → ℕ → List ℕ × ℕ
  | [], res, carry => (res, carry)
  | b :: bs, res, carry =>
    let r := outer B inv b a md res carry
    redcLoop B inv big a md bs r.1 (if big then r.2 else 0)

/-- one step with bounds: exactness, limb range, `A' < 2·Mod`. -/
theorem outer_step (B inv b : ℕ) (a md res : List ℕ) (carry : ℕ) (hB : 0 < B)
    (hN : 0 < res.length) (hla : a.length = res.length) (hlm : md.length = res.length)
    (hinv : (inv * md.headD 0) % B = B - 1) (hb : b < B)
    (ha : val B a < val B md) (hA : val B res + B ^ res.length * carry < 2 * val B md) :
    (∃ m, B * (val B (outer B inv b a md res carry).1 + B ^ res.length * (outer B inv b a md res carry).2)
        = (val B res + B ^ res.length * carry) + val B a * b + val B md * m)
    ∧ (outer B inv b a md res carry).1.length = res.length ∧ AllLt B (outer B inv b a md res carry).1
    ∧ val B (outer B inv b a md res carry).1 + B ^ res.length * (outer B inv b a md res carry).2 < 2 * val B md := by
  cases res with
  | nil => simp at hN
  | cons r0 rs =>
  cases a with
  | nil => simp at hla
  | cons a0 as =>
  cases md with
  | nil => simp at hlm
  | cons m0 ms =>
    simp only [List.length_cons, Nat.add_right_cancel_iff] at hla hlm
    simp only [List.headD_cons] at hinv
    have hm := m_kills B inv m0 (a0 * b + r0) hB hinv
    have hs := outer_spec B inv b a0 m0 r0 as ms rs carry hB hla hlm hm
    simp only at hs
    obtain ⟨m, hmdef⟩ : ∃ m, m = ((a0 * b + r0) % B * inv) % B := ⟨_, rfl⟩
    have hmB : m < B := by rw [hmdef]; exact Nat.mod_lt _ hB
    rw [← hmdef] at hs
    have hlen : (outer B inv b (a0 :: as) (m0 :: ms) (r0 :: rs) carry).1.length = (r0 :: rs).length := by
      simp only [outer, List.length_append, List.length_cons, List.length_nil]
      rw [(inner_spec B b _ as ms rs _ _ hla hlm).2]
    have hall : AllLt B (outer B inv b (a0 :: as) (m0 :: ms) (r0 :: rs) carry).1 := by
      simp only [outer]
      intro x hx
      rcases List.mem_append.mp hx with h | h
      · exact inner_allLt B b _ hB _ _ _ _ _ x h
      · simp at h; rw [h]; exact Nat.mod_lt _ hB
    obtain ⟨r, hr⟩ : ∃ r, r = outer B inv b (a0 :: as) (m0 :: ms) (r0 :: rs) carry := ⟨_, rfl⟩
    rw [← hr] at hs hlen hall ⊢
    simp only [List.length_cons] at hs hA hlen ⊢
    refine ⟨⟨m, hs⟩, hlen, hall, ?_⟩
    -- B * A' = A + a*b + Mod*m < 2*Mod*B
    obtain ⟨A', hA'⟩ : ∃ A', A' = val B r.1 + B ^ (rs.length + 1) * r.2 := ⟨_, rfl⟩
    obtain ⟨A, hAd⟩ : ∃ A, A = val B (r0 :: rs) + B ^ (rs.length + 1) * carry := ⟨_, rfl⟩
    obtain ⟨Av, hAv⟩ : ∃ Av, Av = val B (a0 :: as) := ⟨_, rfl⟩
    obtain ⟨Md, hMd⟩ : ∃ Md, Md = val B (m0 :: ms) := ⟨_, rfl⟩
    rw [← hA', ← hAd, ← hAv, ← hMd] at hs
    rw [← hAd, ← hMd] at hA
    rw [← hAv, ← hMd] at ha
    rw [← hA', ← hMd]
    have h1 : Av * b ≤ Md * (B - 1) := Nat.mul_le_mul (le_of_lt ha) (by omega)
    have h2 : Md * m ≤ Md * (B - 1) := Nat.mul_le_mul_left _ (by omega)
    have h3 : Md * (B - 1) + Md = Md * B := by
      have : B - 1 + 1 = B := Nat.sub_add_cancel hB
      calc Md * (B - 1) + Md = Md * (B - 1 + 1) := by ring
        _ = Md * B := by rw [this]
    by_contra hc; push Not at hc
    have : B * (2 * Md) ≤ B * A' := Nat.mul_le_mul_left _ hc
    have e : B * (2 * Md) = 2 * (Md * B) := by ring
    omega

theorem redcLoop_spec (B inv : ℕ) (big : Bool) (a md : List ℕ) (hB : 0 < B)
    (hinv : (inv * md.headD 0) % B = B - 1) (ha : val B a < val B md)
    (hbig : big = false → 2 * val B md ≤ B ^ md.length)
    (bs res : List ℕ) (carry : ℕ) (hbs : AllLt B bs)
    (hN : 0 < res.length) (hla : a.length = res.length) (hlm : md.length = res.length)
    (hres : AllLt B res) (hA : val B res + B ^ res.length * carry < 2 * val B md) :
    let out := redcLoop B inv big a md bs res carry
    (∃ M, B ^ bs.length * (val B out.1 + B ^ res.length * out.2)
        = (val B res + B ^ res.length * carry) + val B a * val B bs + val B md * M)
    ∧ out.1.length = res.length ∧ AllLt B out.1
    ∧ val B out.1 + B ^ res.length * out.2 < 2 * val B md := by
  induction bs generalizing res carry with
  | nil =>
    intro out
    simp only [redcLoop, out, List.length_nil, pow_zero, Nat.one_mul, val_nil, Nat.mul_zero, Nat.add_zero]
    exact ⟨⟨0, by simp⟩, trivial, hres, hA⟩
  | cons b bs ih =>
    intro out
    have hb : b < B := hbs b (by simp)
    have hbs' : AllLt B bs := fun y hy => hbs y (by simp [hy])
    obtain ⟨⟨m, s1⟩, s2, s3, s4⟩ := outer_step B inv b a md res carry hB hN hla hlm hinv hb ha hA
    obtain ⟨r, hr⟩ : ∃ r, r = outer B inv b a md res carry := ⟨_, rfl⟩
    simp only [← hr] at s1 s2 s3 s4
    -- the carry that is kept equals the real one
    have hkeep : (if big then r.2 else 0) = r.2 := by
      cases big
      · simp only [Bool.false_eq_true, if_false]
        have h2 := hbig rfl
        rw [hlm] at h2
        have hv := val_lt_pow B r.1 s3
        rw [s2] at hv
        rcases Nat.eq_zero_or_pos r.2 with h | h
        · exact h.symm
        · have : B ^ res.length ≤ B ^ res.length * r.2 := Nat.le_mul_of_pos_right _ h
          omega
      · simp
    have hA1 : val B r.1 + B ^ r.1.length * (if big then r.2 else 0) < 2 * val B md := by
      rw [hkeep, s2]; exact s4
    have := ih r.1 (if big then r.2 else 0) hbs' (by rw [s2]; exact hN) (by rw [s2]; exact hla)
      (by rw [s2]; exact hlm) s3 hA1
    simp only at this
    obtain ⟨⟨M, t1⟩, t2, t3, t4⟩ := this
    have hout : out = redcLoop B inv big a md bs r.1 (if big then r.2 else 0) := by
      simp only [out, redcLoop, ← hr]
    rw [← hout] at t1 t2 t3 t4
    rw [hkeep, s2] at t1
    rw [s2] at t2 t4
    refine ⟨⟨m + B * M, ?_⟩, t2, t3, t4⟩
    simp only [List.length_cons, pow_succ, val_cons]
    obtain ⟨Ao, hAo⟩ : ∃ Ao, Ao = val B out.1 + B ^ res.length * out.2 := ⟨_, rfl⟩
    obtain ⟨A1, hA1d⟩ : ∃ A1, A1 = val B r.1 + B ^ res.length * r.2 := ⟨_, rfl⟩
    obtain ⟨A, hAd⟩ : ∃ A, A = val B res + B ^ res.length * carry := ⟨_, rfl⟩
    rw [← hAo, ← hA1d] at t1
    rw [← hA1d, ← hAd] at s1
    rw [← hAo, ← hAd]
    calc B ^ bs.length * B * Ao = B * (B ^ bs.length * Ao) := by ring
      _ = B * (A1 + val B a * val B bs + val B md * M) := by rw [t1]
      _ = B * A1 + val B a * (B * val B bs) + val B md * (B * M) := by ring
      _ = (A + val B a * b + val B md * m) + val B a * (B * val B bs) + val B md * (B * M) := by rw [s1]
      _ = A + val B a * (b + B * val B bs) + val B md * (m + B * M) := by ring

/-- `reduce1_carry` on values: `sub` computes `(v − Mod) mod B^N` with a borrow flag. -/
def reduce1 (P v md carry : ℕ) : ℕ :=
  let borrow := decide (v < md)
  let reduced := (v + P - md) % P
  if carry ≠ 0 ∨ !borrow then reduced else v

theorem reduce1_spec (P v md carry : ℕ) (hv : v < P) (hmd : md ≤ P) (hmd0 : 0 < md) (hA : v + P * carry < 2 * md) :
    reduce1 P v md carry = (v + P * carry) % md ∧ reduce1 P v md carry < md := by
  unfold reduce1
  simp only []
  by_cases hc : carry = 0
  · subst hc
    simp only [Nat.mul_zero, Nat.add_zero] at hA ⊢
    by_cases hlt : v < md
    · have hcond : ¬ ((0 : ℕ) ≠ 0 ∨ (!decide (v < md)) = true) := by simp [hlt]
      rw [if_neg hcond]
      exact ⟨(Nat.mod_eq_of_lt hlt).symm, hlt⟩
    · have hcond : ((0 : ℕ) ≠ 0 ∨ (!decide (v < md)) = true) := by simp [hlt]
      rw [if_pos hcond]
      push Not at hlt
      have e : v + P - md = (v - md) + P := by omega
      rw [e, Nat.add_mod_right, Nat.mod_eq_of_lt (by omega)]
      have : v % md = v - md := by
        rw [Nat.mod_eq_sub_mod hlt, Nat.mod_eq_of_lt (by omega)]
      rw [this]; exact ⟨rfl, by omega⟩
  · have hcond : (carry ≠ 0 ∨ (!decide (v < md)) = true) := Or.inl hc
    rw [if_pos hcond]
    have hc1 : carry = 1 := by
      by_contra hne
      have : 2 ≤ carry := by omega
      have : P * 2 ≤ P * carry := Nat.mul_le_mul_left _ this
      omega
    subst hc1
    simp only [Nat.mul_one] at hA ⊢
    have hvm : v < md := by omega
    rw [Nat.mod_eq_of_lt (by omega : v + P - md < P)]
    have : (v + P) % md = v + P - md := by
      rw [Nat.mod_eq_sub_mod (by omega), Nat.mod_eq_of_lt (by omega)]
    rw [this]; exact ⟨rfl, by omega⟩

theorem val_replicate_zero (B n : ℕ) : val B (List.replicate n 0) = 0 := by
  induction n with
  | zero => rfl
  | succ n ih => simp [List.replicate_succ, ih]

/-- `mul_redc` on values. -/
def mulRedc (B inv : ℕ) (big : Bool) (a b md : List ℕ) : ℕ :=
  let out := redcLoop B inv big a md b (List.replicate md.length 0) 0
  reduce1 (B ^ md.length) (val B out.1) (val B md) out.2

/-- `mul_redc a b = a·b·B^(−N) mod Mod`: the result is reduced and `B^N · result ≡ a·b (mod Mod)`. -/
theorem mulRedc_spec (B inv : ℕ) (big : Bool) (a b md : List ℕ) (hB : 0 < B)
    (hN : 0 < md.length) (hla : a.length = md.length) (hlb : b.length = md.length)
    (hb : AllLt B b) (hmd : AllLt B md)
    (hinv : (inv * md.headD 0) % B = B - 1) (ha : val B a < val B md)
    (hbig : big = false → 2 * val B md ≤ B ^ md.length) :
    mulRedc B inv big a b md < val B md
    ∧ (B ^ md.length * mulRedc B inv big a b md) % val B md = (val B a * val B b) % val B md := by
  have hz : AllLt B (List.replicate md.length 0) := by
    intro x hx; rw [List.eq_of_mem_replicate hx]; exact hB
  have hzl : (List.replicate md.length 0).length = md.length := List.length_replicate
  have hmd0 : 0 < val B md := by omega
  have key := redcLoop_spec B inv big a md hB hinv ha hbig b (List.replicate md.length 0) 0 hb
    (by rw [hzl]; exact hN) (by rw [hzl]; exact hla) (by rw [hzl]) hz
    (by rw [val_replicate_zero]; omega)
  simp only at key
  obtain ⟨⟨M, k1⟩, k2, k3, k4⟩ := key
  unfold mulRedc
  simp only []
  obtain ⟨out, hout⟩ : ∃ out, out = redcLoop B inv big a md b (List.replicate md.length 0) 0 := ⟨_, rfl⟩
  rw [← hout] at k1 k2 k3 k4 ⊢
  rw [hzl] at k1 k2 k4
  rw [val_replicate_zero, hlb] at k1
  have hv := val_lt_pow B out.1 k3
  rw [k2] at hv
  have hmdP : val B md ≤ B ^ md.length := le_of_lt (val_lt_pow B md hmd)
  obtain ⟨r1, r2⟩ := reduce1_spec (B ^ md.length) (val B out.1) (val B md) out.2 hv hmdP hmd0 k4
  refine ⟨r2, ?_⟩
  rw [r1, Nat.mul_mod, Nat.mod_mod, ← Nat.mul_mod, k1]
  simp only [Nat.zero_add, Nat.mul_zero, Nat.add_zero]
  rw [Nat.add_mul_mod_self_left]

#print axioms mulRedc_spec
#print axioms redcLoop_spec
#print axioms reduce1_spec

end Redc
