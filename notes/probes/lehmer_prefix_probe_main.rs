use ruint::algorithms::LehmerMatrix as M;
fn lcg(s: u64) -> u64 { s.wrapping_mul(6364136223846793005).wrapping_add(1442695040888963407) }
fn main() {
    let mut s = 99u64;
    for i in 0..4000u64 {
        s = lcg(s); let mut a0 = s | (1u64 << 63);
        s = lcg(s); let mut a1 = s;
        match i % 8 {
            0 => a1 >>= 1 + (s >> 58) % 40,
            1 => a1 = a0 - ((s >> 40) % 1000),
            2 => a1 = (a0 / 2).wrapping_add(s % 7),
            3 => { a0 = (1u64 << 63) | (s % 5); a1 = (1u64 << 62) + (s >> 34) },
            4 => a1 = (s >> 30) | (1 << 33),
            _ => {}
        }
        if a1 > a0 { a1 = a0 - (a1 - a0).min(a0 / 2); }
        let m = M::from_u64_prefix(a0, a1);
        println!("{} {} {} {} {} {} {}", a0, a1, m.0, m.1, m.2, m.3, m.4);
    }
}
