import Mathlib.Tactic.Ring
import Mathlib.Tactic.Linarith
import Mathlib.Tactic.NormNum
import Mathlib.Tactic.Positivity

/-! Limb-chain foundation probe: generic base `B`, little-endian `List ℕ`. -/
namespace Limb

def val (B : ℕ) : List ℕ → ℕ
  | [] => 0
  | x :: xs => x + B * val B xs

@[simp] theorem val_nil (B) : val B [] = 0 := rfl
@[simp] theorem val_cons (B x xs) : val B (x :: xs) = x + B * val B xs := rfl

def AllLt (B : ℕ) (l : List ℕ) : Prop := ∀ x ∈ l, x < B

theorem val_lt_pow (B : ℕ) (l : List ℕ) (h : AllLt B l) : val B l < B ^ l.length := by
  induction l with
  | nil => simp
  | cons x xs ih =>
    have hx : x < B := h x (by simp)
    have hxs := ih (fun y hy => h y (by simp [hy]))
    simp only [val_cons, List.length_cons, pow_succ]
    nlinarith [Nat.zero_le (val B xs)]

/-- `adc_n`: `lhs += rhs + carry` limb by limb; returns new limbs and carry word. -/
def adcN (B : ℕ) : List ℕ → List ℕ → ℕ → List ℕ × ℕ
  | [], _, c => ([], c)
  | a :: as, [], c => (a :: as, c)            -- Rust would index out of bounds: outside the domain
  | a :: as, b :: bs, c =>
      let s := a + b + c
      let r := adcN B as bs (s / B)
      (s % B :: r.1, r.2)

theorem adcN_spec (B : ℕ) (as bs : List ℕ) (c : ℕ) (h : as.length = bs.length) :
    val B (adcN B as bs c).1 + B ^ as.length * (adcN B as bs c).2 = val B as + val B bs + c
    ∧ (adcN B as bs c).1.length = as.length := by
  induction as generalizing bs c with
  | nil => cases bs <;> simp_all [adcN]
  | cons a as ih =>
    cases bs with
    | nil => simp at h
    | cons b bs =>
      simp only [List.length_cons, Nat.add_right_cancel_iff] at h
      obtain ⟨ih1, ih2⟩ := ih bs ((a + b + c) / B) h
      simp only [adcN, val_cons, List.length_cons, pow_succ]
      refine ⟨?_, by simp [ih2]⟩
      have e := Nat.div_add_mod (a + b + c) B
      set r := adcN B as bs ((a + b + c) / B)
      nlinarith [ih1, e]

/-- single-limb `sbb`: returns (low, borrow-out) with `low + rhs + borrow = lhs + B * out`. -/
def sbb (B lhs rhs borrow : ℕ) : ℕ × ℕ :=
  let x := rhs + borrow
  if x ≤ lhs then (lhs - x, 0) else
    let bo := (x - lhs + B - 1) / B
    (lhs + bo * B - x, bo)

theorem sbb_spec (B lhs rhs borrow : ℕ) (hB : 0 < B) :
    (sbb B lhs rhs borrow).1 + rhs + borrow = lhs + B * (sbb B lhs rhs borrow).2
    ∧ (sbb B lhs rhs borrow).1 < B ∨ (rhs + borrow ≤ lhs ∧ (sbb B lhs rhs borrow) = (lhs - (rhs + borrow), 0)) := by
  unfold sbb
  simp only []
  by_cases hx : rhs + borrow ≤ lhs
  · right; simp [hx]
  · left
    simp only [hx, if_false]
    set x := rhs + borrow with hxd
    have hlt : lhs < x := by omega
    set bo := (x - lhs + B - 1) / B with hbo
    have h1 : bo * B ≤ x - lhs + B - 1 := Nat.div_mul_le_self _ _
    have h2 : x - lhs + B - 1 < (bo + 1) * B := by
      have := Nat.div_add_mod (x - lhs + B - 1) B
      have hm := Nat.mod_lt (x - lhs + B - 1) hB
      rw [← hbo] at this
      nlinarith
    have h2' : x - lhs + B - 1 < bo * B + B := by rw [Nat.add_mul, Nat.one_mul] at h2; exact h2
    clear_value bo x
    have h3 : x ≤ lhs + bo * B := by omega
    constructor
    · have : lhs + bo * B - x + rhs + borrow = lhs + bo * B - x + x := by omega
      rw [this, Nat.sub_add_cancel h3, Nat.mul_comm]
    · have : lhs + bo * B - x < B := by
        have h4 : bo * B < x - lhs + B := by omega
        omega
      exact this

/-- `mul_nx1`: `lhs *= a`, returns carry. -/
def mulNx1 (B : ℕ) : List ℕ → ℕ → ℕ → List ℕ × ℕ
  | [], _, c => ([], c)
  | x :: xs, a, c =>
      let t := x * a + c
      let r := mulNx1 B xs a (t / B)
      (t % B :: r.1, r.2)

theorem mulNx1_spec (B : ℕ) (xs : List ℕ) (a c : ℕ) :
    val B (mulNx1 B xs a c).1 + B ^ xs.length * (mulNx1 B xs a c).2 = val B xs * a + c := by
  induction xs generalizing c with
  | nil => simp [mulNx1]
  | cons x xs ih =>
    simp only [mulNx1, val_cons, List.length_cons, pow_succ]
    have e := Nat.div_add_mod (x * a + c) B
    have := ih ((x * a + c) / B)
    set r := mulNx1 B xs a ((x * a + c) / B)
    nlinarith [this, e]

/-- `addmul_nx1`: `lhs += a * b`, returns carry (`lhs`, `a` same length). -/
def addmulNx1 (B : ℕ) : List ℕ → List ℕ → ℕ → ℕ → List ℕ × ℕ
  | l :: ls, a :: as, b, c =>
      let t := a * b + c + l
      let r := addmulNx1 B ls as b (t / B)
      (t % B :: r.1, r.2)
  | ls, _, _, c => (ls, c)

theorem addmulNx1_spec (B : ℕ) (ls as : List ℕ) (b c : ℕ) (h : ls.length = as.length) :
    val B (addmulNx1 B ls as b c).1 + B ^ ls.length * (addmulNx1 B ls as b c).2
      = val B ls + val B as * b + c := by
  induction ls generalizing as c with
  | nil => cases as <;> simp_all [addmulNx1]
  | cons l ls ih =>
    cases as with
    | nil => simp at h
    | cons a as =>
      simp only [List.length_cons, Nat.add_right_cancel_iff] at h
      simp only [addmulNx1, val_cons, List.length_cons, pow_succ]
      have e := Nat.div_add_mod (a * b + c + l) B
      have := ih as ((a * b + c + l) / B) h
      set r := addmulNx1 B ls as b ((a * b + c + l) / B)
      nlinarith [this, e]

end Limb
#print axioms Limb.adcN_spec
#print axioms Limb.addmulNx1_spec
#print axioms Limb.sbb_spec
