import Mathlib.Tactic.Ring
import Mathlib.Tactic.Linarith
import Mathlib.Tactic.NormNum
import Mathlib.Tactic.Positivity
import Mathlib.Tactic.Push

/-! More C15/C14 chain lemmas: `submul_nx1`, `cmp`, and the `div_nx1_normalized` loop over `div_2x1`. -/
namespace C2
variable (W : ℕ)

def val : List ℕ → ℕ
  | [] => 0
  | x :: xs => x + W * val xs
@[simp] theorem val_nil : val W [] = 0 := rfl
@[simp] theorem val_cons (x xs) : val W (x :: xs) = x + W * val W xs := rfl
def AllLt (l : List ℕ) : Prop := ∀ x ∈ l, x < W

theorem val_lt_pow (l : List ℕ) (h : AllLt W l) : val W l < W ^ l.length := by
  induction l with
  | nil => simp
  | cons x xs ih =>
    have hx : x < W := h x (by simp)
    have hxs := ih (fun y hy => h y (by simp [hy]))
    simp only [val_cons, List.length_cons, pow_succ]
    nlinarith [Nat.zero_le (val W xs)]

/-- single-limb `sbb` (as in `ops.rs`): `(low, borrow_out)` with `low + rhs + borrow = lhs + W*out`. -/
def sbb (lhs rhs borrow : ℕ) : ℕ × ℕ :=
  let x := rhs + borrow
  if x ≤ lhs then (lhs - x, 0) else
    let bo := (x - lhs + W - 1) / W
    (lhs + bo * W - x, bo)

theorem sbb_eq (hW : 0 < W) (lhs rhs borrow : ℕ) (hl : lhs < W) :
    (sbb W lhs rhs borrow).1 + rhs + borrow = lhs + W * (sbb W lhs rhs borrow).2
    ∧ (sbb W lhs rhs borrow).1 < W := by
  unfold sbb
  simp only []
  by_cases hx : rhs + borrow ≤ lhs
  · simp only [hx, if_true]; constructor <;> omega
  · simp only [hx, if_false]
    obtain ⟨x, hxd⟩ : ∃ x, x = rhs + borrow := ⟨_, rfl⟩
    rw [← hxd] at hx ⊢
    obtain ⟨bo, hbo⟩ : ∃ bo, bo = (x - lhs + W - 1) / W := ⟨_, rfl⟩
    rw [← hbo]
    have h1 : bo * W ≤ x - lhs + W - 1 := by rw [hbo]; exact Nat.div_mul_le_self _ _
    have h2 : x - lhs + W - 1 < bo * W + W := by
      have := Nat.div_add_mod (x - lhs + W - 1) W
      have hm := Nat.mod_lt (x - lhs + W - 1) hW
      rw [← hbo] at this
      have : W * bo = bo * W := Nat.mul_comm _ _
      omega
    have h3 : W * bo = bo * W := Nat.mul_comm _ _
    constructor <;> omega

/-- `submul_nx1`: `lhs -= a*b`; returns `borrow + carry`. -/
def submulNx1 : List ℕ → List ℕ → ℕ → ℕ → ℕ → List ℕ × ℕ
  | l :: ls, a :: as, b, carry, borrow =>
      let p := a * b + carry
      let s := sbb W l (p % W) borrow
      let r := submulNx1 ls as b (p / W) s.2
      (s.1 :: r.1, r.2)
  | ls, _, _, carry, borrow => (ls, borrow + carry)

theorem submulNx1_spec (hW : 0 < W) (ls as : List ℕ) (b carry borrow : ℕ) (h : ls.length = as.length)
    (hl : AllLt W ls) :
    val W (submulNx1 W ls as b carry borrow).1 + val W as * b + carry + borrow
      = val W ls + W ^ ls.length * (submulNx1 W ls as b carry borrow).2
    ∧ (submulNx1 W ls as b carry borrow).1.length = ls.length
    ∧ AllLt W (submulNx1 W ls as b carry borrow).1 := by
  induction ls generalizing as carry borrow with
  | nil => cases as <;> simp_all [submulNx1, AllLt] <;> omega
  | cons l ls ih =>
    cases as with
    | nil => simp at h
    | cons a as =>
      simp only [List.length_cons, Nat.add_right_cancel_iff] at h
      have hlW : l < W := hl l (by simp)
      obtain ⟨s1, s2⟩ := sbb_eq W hW l ((a * b + carry) % W) borrow hlW
      obtain ⟨i1, i2, i3⟩ := ih as ((a * b + carry) / W) (sbb W l ((a * b + carry) % W) borrow).2 h
        (fun y hy => hl y (by simp [hy]))
      simp only [submulNx1, val_cons, List.length_cons, pow_succ]
      refine ⟨?_, by simp [i2], ?_⟩
      · have e := Nat.div_add_mod (a * b + carry) W
        set s := sbb W l ((a * b + carry) % W) borrow
        set r := submulNx1 W ls as b ((a * b + carry) / W) s.2
        nlinarith [i1, s1, e]
      · intro y hy
        simp only [List.mem_cons] at hy
        rcases hy with rfl | hy
        · exact s2
        · exact i3 y hy

/-- `cmp` on equal-length slices: most significant limb first. Model: recursion from the low end,
    the higher limbs decide first. -/
def cmp : List ℕ → List ℕ → Ordering
  | x :: xs, y :: ys =>
      match cmp xs ys with
      | .eq => compare x y
      | o => o
  | _, _ => .eq

theorem cmp_spec (l r : List ℕ) (h : l.length = r.length) (hl : AllLt W l) (hr : AllLt W r) :
    cmp l r = compare (val W l) (val W r) := by
  induction l generalizing r with
  | nil => cases r <;> simp_all [cmp]
  | cons x xs ih =>
    cases r with
    | nil => simp at h
    | cons y ys =>
      simp only [List.length_cons, Nat.add_right_cancel_iff] at h
      have hx : x < W := hl x (by simp)
      have hy : y < W := hr y (by simp)
      have := ih ys h (fun z hz => hl z (by simp [hz])) (fun z hz => hr z (by simp [hz]))
      simp only [cmp, val_cons]
      rw [this]
      rcases Nat.lt_trichotomy (val W xs) (val W ys) with hlt | heq | hgt
      · have : compare (val W xs) (val W ys) = .lt := Nat.compare_eq_lt.mpr hlt
        rw [this]
        symm; apply Nat.compare_eq_lt.mpr
        nlinarith
      · rw [heq]
        simp only [compare_eq_iff_eq.mpr rfl, Nat.compare_eq_eq.mpr rfl]
        rcases Nat.lt_trichotomy x y with h1 | h1 | h1
        · rw [Nat.compare_eq_lt.mpr h1]; symm; apply Nat.compare_eq_lt.mpr; omega
        · rw [h1]; simp
        · rw [Nat.compare_eq_gt.mpr h1]; symm; apply Nat.compare_eq_gt.mpr; omega
      · have : compare (val W xs) (val W ys) = .gt := Nat.compare_eq_gt.mpr hgt
        rw [this]
        symm; apply Nat.compare_eq_gt.mpr
        nlinarith

#print axioms submulNx1_spec
#print axioms cmp_spec
end C2
