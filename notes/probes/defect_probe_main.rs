use ruint::{Uint, uint, aliases::*};
use std::panic::catch_unwind;
fn p<T: std::fmt::Debug>(name: &str, f: impl FnOnce() -> T + std::panic::UnwindSafe) {
    match catch_unwind(f) { Ok(v) => println!("{name}: {v:?}"), Err(_) => println!("{name}: PANIC") }
}
fn main() {
    std::panic::set_hook(Box::new(|_| {}));
    // C03 next_multiple_of
    p("next_multiple_of(23,8)", || U64::from(23).next_multiple_of(U64::from(8)));
    // C05 shl overflow flag
    p("U128 [0,1] oshl 64", || U128::from_limbs([0,1]).overflowing_shl(64));
    p("U65 2^64 oshl 1", || Uint::<65,2>::from_limbs([0,1]).overflowing_shl(1));
    p("U128 [1,0] oshr 64", || U128::from_limbs([1,0]).overflowing_shr(64));
    p("U128 1 << U128(2^64)", || U128::from(1) << U128::from_limbs([0,1]));
    p("U128 MAX >> U128(2^64)", || U128::MAX >> U128::from_limbs([0,1]));
    // C07 u128
    p("U65 wrapping_from(3<<64|5)", || Uint::<65,2>::wrapping_from((3u128<<64)|5));
    p("U66 wrapping_from(7<<64|5)", || Uint::<66,2>::wrapping_from((7u128<<64)|5));
    // C08 try_from_be_slice fast path
    p("U60 try_from_be_slice ff*8", || Uint::<60,1>::try_from_be_slice(&[0xff;8]));
    p("U60 try_from_le_slice ff*8", || Uint::<60,1>::try_from_le_slice(&[0xff;8]));
    p("U250 try_from_be_slice ff*32", || Uint::<250,4>::try_from_be_slice(&[0xff;32]));
    // C09 base64 alphabet
    p("from_str_radix('g',64)", || U64::from_str_radix("g", 64));
    p("from_str_radix('z',64)", || U64::from_str_radix("z", 64));
    p("from_str_radix('f',64)", || U64::from_str_radix("f", 64));
    // C13 log small widths
    p("U1 checked_log2(1)", || Uint::<1,1>::from(1).checked_log2());
    p("U1 checked_log(1,1)", || Uint::<1,1>::from(1).checked_log(Uint::<1,1>::from(1)));
    p("U3 checked_log10(5)", || Uint::<3,1>::from(5).checked_log10());
    p("U3 log10(5)", || Uint::<3,1>::from(5).log10());
    p("U1 log2(1)", || Uint::<1,1>::from(1).log2());
    p("U2 checked_log10(3)", || Uint::<2,1>::from(3).checked_log10());
    // C18 float
    p("U64 try_from(2^52+1 as f64)", || U64::try_from(4503599627370497.0f64));
    p("U64 try_from(2^53-1 as f64)", || U64::try_from(9007199254740991.0f64));
    p("U64 try_from(0.49999999999999994)", || U64::try_from(0.49999999999999994f64));
    // C15 shift small amount 0
    p("shift_left_small amt 0", || { let mut l=[1u64,2]; let o = ruint::algorithms::shift_left_small(&mut l, 0); (l,o) });
    p("shift_right_small amt 0", || { let mut l=[1u64,2]; let o = ruint::algorithms::shift_right_small(&mut l, 0); (l,o) });
    // C04 ill-formed
    // (compile-time probes separately)
    // C16 scale compact size hint
    {
        use parity_scale_codec::Encode;
        p("scale compact U512 2^31 encode", || ruint::support::scale::CompactRefUint(&U512::from(1u64<<31)).encode());
        p("scale compact U512 2^31 size_hint", || ruint::support::scale::CompactRefUint(&U512::from(1u64<<31)).size_hint());
        p("scale compact U64 2^40 size_hint", || (ruint::support::scale::CompactRefUint(&U64::from(1u64<<40)).size_hint(), ruint::support::scale::CompactRefUint(&U64::from(1u64<<40)).encode().len()));
    }
    // C17 ssz
    {
        use ssz::Decode;
        p("ssz U7 from [0xff]", || Uint::<7,1>::from_ssz_bytes(&[0xff]).map_err(|e| format!("{e:?}")));
        p("ssz U64 from [1] (short)", || U64::from_ssz_bytes(&[1]).map_err(|e| format!("{e:?}")));
    }
    // C17 postgres
    {
        use postgres_types::{FromSql, Type};
        p("pg JSONB empty", || U64::from_sql(&Type::JSONB, &[]).map_err(|e| e.to_string()));
        p("pg JSON single quote", || U64::from_sql(&Type::JSON, b"\"").map_err(|e| e.to_string()));
        p("pg BIT len4 nopayload", || U64::from_sql(&Type::BIT, &[0,0,0,4]).map_err(|e| e.to_string()));
        p("pg NUMERIC exp 7fff", || U64::from_sql(&Type::NUMERIC, &[0,0,0x7f,0xff,0,0,0,0]).map_err(|e| e.to_string()));
        p("pg BIT len16 payload1", || U64::from_sql(&Type::BIT, &[0,0,0,16,0xff]).map_err(|e| e.to_string()));
    }
    // serde binary
    p("bincode U60 ff*8", || { let mut v = vec![8u8,0,0,0,0,0,0,0]; v.extend([0xffu8;8]); bincode::deserialize::<Uint<60,1>>(&v).map_err(|e| e.to_string()) });
    // num_traits swap_bytes
    {
        use num_traits::PrimInt;
        p("U12 swap_bytes 0x0f0", || Uint::<12,1>::from(0x0f0).swap_bytes());
    }
    // root small
    p("U4 15 root 3", || Uint::<4,1>::from(15).root(3));
    // mul_redc etc fine
    let _ = uint!(1_U8);
}
