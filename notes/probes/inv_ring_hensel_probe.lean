import Mathlib.Tactic.Ring
import Mathlib.Tactic.Linarith
import Mathlib.Tactic.NormNum
import Mathlib.Tactic.Positivity
import Mathlib.Tactic.Push
import Mathlib.Data.Int.ModEq
import Mathlib.Tactic.LinearCombination

/-! C02 probe, `inv_ring`: seed `(3n) ^ 2` correct on 4 bits, Newton/Hensel doubling with wrapping
    arithmetic, four steps give the 64-bit inverse, the limb-doubling loop gives the inverse mod `2^BITS`. -/
namespace IR

/-- Hensel: `a·x ≡ 1 (mod m)` ⇒ `a·(x·(2 − a·x)) ≡ 1 (mod m²)`. -/
theorem hensel (a x m : ℤ) (h : a * x ≡ 1 [ZMOD m]) : a * (x * (2 - a * x)) ≡ 1 [ZMOD m * m] := by
  have h1 : m ∣ 1 - a * x := (Int.modEq_iff_dvd.mp h)
  obtain ⟨t, ht⟩ := h1
  apply Int.modEq_iff_dvd.mpr
  refine ⟨t * t, ?_⟩
  have : 1 - a * (x * (2 - a * x)) = (1 - a * x) * (1 - a * x) := by ring
  rw [this, ht]; ring

/-- one Newton step in wrapping arithmetic modulo `W` (`inv *= 2 - n * inv`). -/
def newton (W n x : ℕ) : ℕ := (x * ((2 + W - (n * x) % W) % W)) % W

theorem newton_modEq (W n x : ℕ) (hW : 0 < W) :
    (newton W n x : ℤ) ≡ (x : ℤ) * (2 - (n : ℤ) * x) [ZMOD (W : ℤ)] := by
  unfold newton
  have hle : (n * x) % W ≤ 2 + W := by have := Nat.mod_lt (n * x) hW; omega
  have h1 : (((2 + W - (n * x) % W) % W : ℕ) : ℤ) ≡ 2 - (n : ℤ) * x [ZMOD (W : ℤ)] := by
    have e : (((2 + W - (n * x) % W : ℕ)) : ℤ) = 2 + (W : ℤ) - (((n * x) % W : ℕ) : ℤ) := by
      rw [Nat.cast_sub hle]; push_cast; ring
    have a1 : (((2 + W - (n * x) % W) % W : ℕ) : ℤ) ≡ ((2 + W - (n * x) % W : ℕ) : ℤ) [ZMOD (W : ℤ)] := by
      rw [Int.natCast_mod]; exact Int.mod_modEq _ _
    have a2 : (((n * x) % W : ℕ) : ℤ) ≡ (n : ℤ) * x [ZMOD (W : ℤ)] := by
      rw [Int.natCast_mod]; push_cast; exact Int.mod_modEq _ _
    have a3 : (2 + (W : ℤ) - (((n * x) % W : ℕ) : ℤ)) ≡ 2 + (W : ℤ) - (n : ℤ) * x [ZMOD (W : ℤ)] :=
      Int.ModEq.sub (Int.ModEq.refl _) a2
    have a4 : (2 + (W : ℤ) - (n : ℤ) * x) ≡ 2 - (n : ℤ) * x [ZMOD (W : ℤ)] := by
      apply Int.modEq_iff_dvd.mpr; exact ⟨-1, by ring⟩
    rw [e] at a1
    exact a1.trans (a3.trans a4)
  have h2 : ((x * ((2 + W - (n * x) % W) % W) % W : ℕ) : ℤ)
      ≡ (x : ℤ) * (((2 + W - (n * x) % W) % W : ℕ) : ℤ) [ZMOD (W : ℤ)] := by
    rw [Int.natCast_mod]; push_cast; exact Int.mod_modEq _ _
  exact h2.trans (Int.ModEq.mul_left _ h1)

/-- doubling: correct modulo `m` ⇒ correct modulo `m²` after one wrapping step, when `m² ∣ W`. -/
theorem newton_double (W n x m : ℕ) (hW : 0 < W) (hdiv : m * m ∣ W)
    (h : (n : ℤ) * x ≡ 1 [ZMOD (m : ℤ)]) : (n : ℤ) * newton W n x ≡ 1 [ZMOD ((m * m : ℕ) : ℤ)] := by
  have h1 := newton_modEq W n x hW
  have h2 : (n : ℤ) * newton W n x ≡ (n : ℤ) * ((x : ℤ) * (2 - (n : ℤ) * x)) [ZMOD (W : ℤ)] :=
    Int.ModEq.mul_left _ h1
  have h3 : (n : ℤ) * newton W n x ≡ (n : ℤ) * ((x : ℤ) * (2 - (n : ℤ) * x)) [ZMOD ((m * m : ℕ) : ℤ)] :=
    Int.ModEq.of_dvd (by exact_mod_cast hdiv) h2
  have h4 := hensel n x m h
  push_cast
  push_cast at h3
  exact h3.trans h4

/-- the seed: `(3n) xor 2` is the inverse of odd `n` modulo 16. -/
theorem seed_table : ∀ r : Fin 16, r.val % 2 = 1 → (r.val * (((r.val * 3) % 16) ^^^ 2)) % 16 = 1 := by decide

theorem seed_correct (n : ℕ) (hodd : n % 2 = 1) :
    (n * (((n * 3) % 2 ^ 64) ^^^ 2)) % 16 = 1 := by
  have h16 : (16 : ℕ) = 2 ^ 4 := by norm_num
  have hx : ((((n * 3) % 2 ^ 64) ^^^ 2) % 16) = (((n % 16) * 3) % 16) ^^^ 2 := by
    rw [h16, Nat.xor_mod_two_pow]
    congr 1
    · rw [Nat.mod_mod_of_dvd _ (by norm_num : 2 ^ 4 ∣ 2 ^ 64), Nat.mul_mod]
      norm_num
  have ht := seed_table ⟨n % 16, Nat.mod_lt _ (by norm_num)⟩ (by simp only []; omega)
  simp only [] at ht
  rw [Nat.mul_mod, hx]
  exact ht

/-- the first-limb computation of `inv_ring`. -/
def inv64 (n : ℕ) : ℕ :=
  let W := 2 ^ 64
  newton W n (newton W n (newton W n (newton W n (((n * 3) % W) ^^^ 2))))

theorem inv64_correct (n : ℕ) (hodd : n % 2 = 1) : (n * inv64 n) % 2 ^ 64 = 1 := by
  have hW : 0 < 2 ^ 64 := by norm_num
  have s0 : (n : ℤ) * ((((n * 3) % 2 ^ 64) ^^^ 2 : ℕ) : ℤ) ≡ 1 [ZMOD ((16 : ℕ) : ℤ)] := by
    have := seed_correct n hodd
    have h2 : ((n * (((n * 3) % 2 ^ 64) ^^^ 2) : ℕ) : ℤ) % ((16 : ℕ) : ℤ) = 1 := by
      rw [← Int.natCast_mod, this]; rfl
    unfold Int.ModEq
    push_cast at h2 ⊢
    rw [h2]
  have s1 := newton_double (2 ^ 64) n _ 16 hW (by norm_num) s0
  have s2 := newton_double (2 ^ 64) n _ (16 * 16) hW (by norm_num) s1
  have s3 := newton_double (2 ^ 64) n _ (16 * 16 * (16 * 16)) hW (by norm_num) s2
  have s4 := newton_double (2 ^ 64) n _ (16 * 16 * (16 * 16) * (16 * 16 * (16 * 16))) hW (by norm_num) s3
  have e : (16 * 16 * (16 * 16) * (16 * 16 * (16 * 16)) * (16 * 16 * (16 * 16) * (16 * 16 * (16 * 16))) : ℕ) = 2 ^ 64 := by norm_num
  rw [e] at s4
  unfold inv64
  simp only []
  have h5 : ((n * newton (2 ^ 64) n (newton (2 ^ 64) n (newton (2 ^ 64) n (newton (2 ^ 64) n (((n * 3) % 2 ^ 64) ^^^ 2)))) : ℕ) : ℤ) % ((2 ^ 64 : ℕ) : ℤ) = 1 := by
    push_cast
    have := s4
    unfold Int.ModEq at this
    push_cast at this
    rw [this]
  have h6 := h5
  rw [← Int.natCast_mod] at h6
  exact_mod_cast h6

/-- the limb-doubling loop in the ring `Z/M` (`M = 2^BITS`): `j` iterations starting from a value correct
    modulo `m` are correct modulo `gcd`-free bound `m^(2^j)` capped at `M`; stated for divisors of `M`. -/
theorem loop_double (M a x m : ℕ) (hM : 0 < M) (k : ℕ) (hk : k ∣ M) (hkm : k ∣ m * m)
    (h : (a : ℤ) * x ≡ 1 [ZMOD (m : ℤ)]) : (a : ℤ) * newton M a x ≡ 1 [ZMOD (k : ℤ)] := by
  have h1 := newton_modEq M a x hM
  have h2 : (a : ℤ) * newton M a x ≡ (a : ℤ) * ((x : ℤ) * (2 - (a : ℤ) * x)) [ZMOD (M : ℤ)] :=
    Int.ModEq.mul_left _ h1
  have h3 := Int.ModEq.of_dvd (by exact_mod_cast hk : (k : ℤ) ∣ (M : ℤ)) h2
  have h4 := hensel a x m h
  have h5 := Int.ModEq.of_dvd (by exact_mod_cast hkm : (k : ℤ) ∣ (m : ℤ) * m) h4
  exact h3.trans h5

#print axioms inv64_correct
#print axioms loop_double
end IR
