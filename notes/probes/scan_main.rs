use ruint::Uint;
use std::io::{BufRead, Write};
use std::panic::{catch_unwind, AssertUnwindSafe};

fn run<const B: usize, const L: usize>(op: &str, args: &[&str]) -> String {
    type U<const B: usize, const L: usize> = Uint<B, L>;
    let u = |s: &str| -> U<B, L> { U::<B, L>::from_str_radix(s, 16).unwrap() };
    let h = |x: U<B, L>| format!("{x:x}");
    let ob = |o: bool| if o { "1" } else { "0" };
    match op {
        "oadd" => { let (r,o) = u(args[0]).overflowing_add(u(args[1])); format!("{} {}", h(r), ob(o)) }
        "osub" => { let (r,o) = u(args[0]).overflowing_sub(u(args[1])); format!("{} {}", h(r), ob(o)) }
        "omul" => { let (r,o) = u(args[0]).overflowing_mul(u(args[1])); format!("{} {}", h(r), ob(o)) }
        "wmul" => h(u(args[0]).wrapping_mul(u(args[1]))),
        "invring" => match u(args[0]).inv_ring() { Some(x) => h(x), None => "none".into() },
        "divrem" => { let (q,r) = u(args[0]).div_rem(u(args[1])); format!("{} {}", h(q), h(r)) }
        "shl" => h(u(args[0]).wrapping_shl(args[1].parse().unwrap())),
        "shr" => h(u(args[0]).wrapping_shr(args[1].parse().unwrap())),
        "ashr" => h(u(args[0]).arithmetic_shr(args[1].parse().unwrap())),
        "rotl" => h(u(args[0]).rotate_left(args[1].parse().unwrap())),
        "rotr" => h(u(args[0]).rotate_right(args[1].parse().unwrap())),
        "rev" => h(u(args[0]).reverse_bits()),
        "counts" => { let x = u(args[0]); let (m,e) = x.most_significant_bits(); format!("{} {} {} {} {} {} {} {} {:x} {}", x.leading_zeros(), x.leading_ones(), x.trailing_zeros(), x.trailing_ones(), x.count_ones(), x.count_zeros(), x.bit_len(), x.byte_len(), m, e) }
        "npow2" => match u(args[0]).checked_next_power_of_two() { Some(x) => h(x), None => "none".into() },
        "addmod" => h(u(args[0]).add_mod(u(args[1]), u(args[2]))),
        "mulmod" => h(u(args[0]).mul_mod(u(args[1]), u(args[2]))),
        "powmod" => h(u(args[0]).pow_mod(u(args[1]), u(args[2]))),
        "invmod" => match u(args[0]).inv_mod(u(args[1])) { Some(x) => h(x), None => "none".into() },
        "gcd" => h(u(args[0]).gcd(u(args[1]))),
        "lcm" => match u(args[0]).lcm(u(args[1])) { Some(x) => h(x), None => "none".into() },
        "gcdx" => { let (g,x,y,s) = u(args[0]).gcd_extended(u(args[1])); format!("{} {} {} {}", h(g), h(x), h(y), ob(s)) }
        "opow" => { let (r,o) = u(args[0]).overflowing_pow(u(args[1])); format!("{} {}", h(r), ob(o)) }
        "log" => match u(args[0]).checked_log(u(args[1])) { Some(x) => x.to_string(), None => "none".into() },
        "root" => h(u(args[0]).root(args[1].parse().unwrap())),
        "redc" => { let inv = u64::from_str_radix(args[3],16).unwrap(); h(u(args[0]).mul_redc(u(args[1]), u(args[2]), inv)) }
        "sqredc" => { let inv = u64::from_str_radix(args[2],16).unwrap(); h(u(args[0]).square_redc(u(args[1]), inv)) }
        "tobase" => { let b: u64 = args[1].parse().unwrap(); u(args[0]).to_base_be(b).map(|d| d.to_string()).collect::<Vec<_>>().join(",") }
        "frombe" => { let b: u64 = args[0].parse().unwrap(); let ds: Vec<u64> = if args[1]=="-" {vec![]} else {args[1].split(',').map(|x| x.parse().unwrap()).collect()}; match U::<B,L>::from_base_be(b, ds) { Ok(x)=>h(x), Err(e)=>format!("err {e:?}") } }
        "fromle" => { let b: u64 = args[0].parse().unwrap(); let ds: Vec<u64> = if args[1]=="-" {vec![]} else {args[1].split(',').map(|x| x.parse().unwrap()).collect()}; match U::<B,L>::from_base_le(b, ds) { Ok(x)=>h(x), Err(e)=>format!("err {e:?}") } }
        "dec" => format!("{}", u(args[0])),
        "oct" => format!("{:o}", u(args[0])),
        "bin" => format!("{:b}", u(args[0])),
        _ => "badop".into(),
    }
}
macro_rules! dispatch { ($bits:expr, $op:expr, $args:expr; $($b:literal),*) => { match $bits { $( $b => run::<$b, {($b+63)/64}>($op, $args), )* _ => "badwidth".to_string() } } }
fn main() {
    std::panic::set_hook(Box::new(|_| {}));
    let stdin = std::io::stdin(); let out = std::io::stdout(); let mut out = out.lock();
    for line in stdin.lock().lines() {
        let line = line.unwrap(); let parts: Vec<&str> = line.split(' ').collect();
        let bits: usize = parts[1].parse().unwrap();
        let r = catch_unwind(AssertUnwindSafe(|| dispatch!(bits, parts[0], &parts[2..]; 1,2,3,4,8,63,64,65,127,128,129,192,250,256,320)));
        writeln!(out, "{}", r.unwrap_or_else(|_| "PANIC".into())).unwrap();
    }
}
