#![allow(clippy::all)]
use ruint::{Uint, ToUintError, FromUintError};
use std::io::{BufRead, Write};
use std::panic::{catch_unwind, AssertUnwindSafe};

fn hexb(b: &[u8]) -> String { if b.is_empty() { "-".into() } else { b.iter().map(|x| format!("{x:02x}")).collect() } }
fn unhex(s: &str) -> Vec<u8> { if s == "-" { vec![] } else { (0..s.len()/2).map(|i| u8::from_str_radix(&s[2*i..2*i+2],16).unwrap()).collect() } }

fn run<const B: usize, const L: usize>(op: &str, args: &[&str]) -> String {
    type U<const B: usize, const L: usize> = Uint<B, L>;
    let u = |s: &str| -> U<B, L> { U::<B, L>::from_str_radix(s, 16).unwrap() };
    let h = |x: U<B, L>| format!("{x:x}");
    fn tu<const B: usize, const L: usize>(r: Result<Uint<B,L>, ToUintError<Uint<B,L>>>) -> String { match r { Ok(x) => format!("ok {x:x}"), Err(ToUintError::ValueTooLarge(_, x)) => format!("big {x:x}"), Err(ToUintError::ValueNegative(_, x)) => format!("neg {x:x}"), Err(ToUintError::NotANumber(_)) => "nan".into() } }
    macro_rules! fu { ($t:ty, $r:expr) => { match $r { Ok(x) => format!("ok {}", x), Err(FromUintError::Overflow(_, w, m)) => format!("ovf {} {}", w, m) } } }
    match op {
        "fromu64" => tu(U::<B,L>::try_from(args[0].parse::<u64>().unwrap())),
        "fromu128" => tu(U::<B,L>::try_from(args[0].parse::<u128>().unwrap())),
        "fromi128" => tu(U::<B,L>::try_from(args[0].parse::<i128>().unwrap())),
        "fromi64" => tu(U::<B,L>::try_from(args[0].parse::<i64>().unwrap())),
        "fromi8" => tu(U::<B,L>::try_from(args[0].parse::<i8>().unwrap())),
        "fromi16" => tu(U::<B,L>::try_from(args[0].parse::<i16>().unwrap())),
        "fromu8" => tu(U::<B,L>::try_from(args[0].parse::<u8>().unwrap())),
        "frombool" => tu(U::<B,L>::try_from(args[0]=="1")),
        "tou64" => fu!(u64, u64::try_from(u(args[0]))), "toi64" => fu!(i64, i64::try_from(u(args[0]))),
        "tou8" => fu!(u8, u8::try_from(u(args[0]))), "toi8" => fu!(i8, i8::try_from(u(args[0]))),
        "tou16" => fu!(u16, u16::try_from(u(args[0]))), "toi32" => fu!(i32, i32::try_from(u(args[0]))),
        "tou128" => fu!(u128, u128::try_from(u(args[0]))), "toi128" => fu!(i128, i128::try_from(u(args[0]))),
        "tobool" => fu!(bool, bool::try_from(u(args[0]))),
        "fromlimbs" => { let l: Vec<u64> = if args[0]=="-" {vec![]} else {args[0].split(',').map(|x| u64::from_str_radix(x,16).unwrap()).collect()}; let (x,o) = U::<B,L>::overflowing_from_limbs_slice(&l); format!("{} {}", h(x), o as u8) }
        "to256" => { match <Uint<256,4> as ruint::UintTryFrom<U<B,L>>>::uint_try_from(u(args[0])) { Ok(x)=>format!("ok {x:x}"), Err(ToUintError::ValueTooLarge(_,x))=>format!("big {x:x}"), _=>"?".into() } }
        "to12" => { match <Uint<12,1> as ruint::UintTryFrom<U<B,L>>>::uint_try_from(u(args[0])) { Ok(x)=>format!("ok {x:x}"), Err(ToUintError::ValueTooLarge(_,x))=>format!("big {x:x}"), _=>"?".into() } }
        "to65" => { match <Uint<65,2> as ruint::UintTryFrom<U<B,L>>>::uint_try_from(u(args[0])) { Ok(x)=>format!("ok {x:x}"), Err(ToUintError::ValueTooLarge(_,x))=>format!("big {x:x}"), _=>"?".into() } }
        "tole" => hexb(&u(args[0]).to_le_bytes_vec()), "tobe" => hexb(&u(args[0]).to_be_bytes_vec()),
        "letrim" => hexb(&u(args[0]).to_le_bytes_trimmed_vec()), "betrim" => hexb(&u(args[0]).to_be_bytes_trimmed_vec()),
        "copybe" => { let mut b = vec![0xaau8; U::<B,L>::BYTES + 2]; let n = u(args[0]).copy_be_bytes_to(&mut b); format!("{} {}", n, hexb(&b)) }
        "copyle" => { let mut b = vec![0xaau8; U::<B,L>::BYTES + 2]; let n = u(args[0]).copy_le_bytes_to(&mut b); format!("{} {}", n, hexb(&b)) }
        "fromle" => match U::<B,L>::try_from_le_slice(&unhex(args[0])) { Some(x)=>h(x), None=>"none".into() },
        "frombe" => match U::<B,L>::try_from_be_slice(&unhex(args[0])) { Some(x)=>h(x), None=>"none".into() },
        "bit" => (u(args[0]).bit(args[1].parse().unwrap()) as u8).to_string(),
        "setbit" => { let mut x = u(args[0]); x.set_bit(args[1].parse().unwrap(), args[2]=="1"); h(x) }
        "byte" => u(args[0]).byte(args[1].parse().unwrap()).to_string(),
        "cbyte" => match u(args[0]).checked_byte(args[1].parse().unwrap()) { Some(x)=>x.to_string(), None=>"none".into() },
        "not" => h(!u(args[0])), "and" => h(u(args[0]) & u(args[1])), "or" => h(u(args[0]) | u(args[1])), "xor" => h(u(args[0]) ^ u(args[1])),
        // codecs: encode and round trip flag
        "rlp" => { let v = u(args[0]); let e = rlp::encode(&v); let d: Result<U<B,L>,_> = rlp::decode(&e); format!("{} {}", hexb(&e), (d.ok()==Some(v)) as u8) }
        "arlp" => { let v = u(args[0]); let mut e = vec![]; alloy_rlp::Encodable::encode(&v, &mut e); let mut s=&e[..]; let d = <U<B,L> as alloy_rlp::Decodable>::decode(&mut s); format!("{} {} {}", hexb(&e), alloy_rlp::Encodable::length(&v), (d.ok()==Some(v) && s.is_empty()) as u8) }
        "frlp4" => { let v = u(args[0]); let mut e = vec![]; fastrlp_04::Encodable::encode(&v, &mut e); let mut s=&e[..]; let d = <U<B,L> as fastrlp_04::Decodable>::decode(&mut s); format!("{} {} {}", hexb(&e), fastrlp_04::Encodable::length(&v), (d.ok()==Some(v) && s.is_empty()) as u8) }
        "frlp3" => { let v = u(args[0]); let mut e = vec![]; fastrlp_03::Encodable::encode(&v, &mut e); let mut s=&e[..]; let d = <U<B,L> as fastrlp_03::Decodable>::decode(&mut s); format!("{} {} {}", hexb(&e), fastrlp_03::Encodable::length(&v), (d.ok()==Some(v) && s.is_empty()) as u8) }
        "scale" => { use parity_scale_codec::{Encode,Decode}; let v = u(args[0]); let e = Encode::encode(&v); let d = <U<B,L> as Decode>::decode(&mut &e[..]); format!("{} {} {}", hexb(&e), Encode::size_hint(&v), (d.ok()==Some(v)) as u8) }
        "scalec" => { use parity_scale_codec::{Encode,Decode}; let v = u(args[0]); let sh = catch_unwind(AssertUnwindSafe(|| ruint::support::scale::CompactRefUint(&v).size_hint())).map(|x| x.to_string()).unwrap_or("PANIC".into()); let mut e = vec![]; ruint::support::scale::CompactRefUint(&v).encode_to(&mut e); let d = ruint::support::scale::CompactUint::<B,L>::decode(&mut &e[..]); format!("{} {} {}", hexb(&e), sh, (d.ok().map(|x| x.0)==Some(v)) as u8) }
        "ssz" => { let v = u(args[0]); let e = ssz::Encode::as_ssz_bytes(&v); let d = <U<B,L> as ssz::Decode>::from_ssz_bytes(&e); format!("{} {} {}", hexb(&e), ssz::Encode::ssz_bytes_len(&v), (d.ok()==Some(v)) as u8) }
        "borsh" => { let v = u(args[0]); let e = borsh::to_vec(&v).unwrap(); let d = borsh::from_slice::<U<B,L>>(&e); format!("{} {}", hexb(&e), (d.ok()==Some(v)) as u8) }
        "der" => { let v = u(args[0]); let e = der::Encode::to_der(&v).unwrap(); let d = <U<B,L> as der::Decode>::from_der(&e); format!("{} {} {}", hexb(&e), u32::from(der::EncodeValue::value_len(&v).unwrap()), (d.ok()==Some(v)) as u8) }
        "json" => { let v = u(args[0]); let e = serde_json::to_string(&v).unwrap(); let d = serde_json::from_str::<U<B,L>>(&e); format!("{} {}", e, (d.ok()==Some(v)) as u8) }
        "bincode" => { let v = u(args[0]); let e = bincode::serialize(&v).unwrap(); let d = bincode::deserialize::<U<B,L>>(&e); format!("{} {}", hexb(&e), (d.ok()==Some(v)) as u8) }
        "bigint" => { let v = u(args[0]); let b: num_bigint::BigUint = v.into(); let back = U::<B,L>::try_from(b.clone()); format!("{} {}", b.to_str_radix(16), (back.ok()==Some(v)) as u8) }
        "pg" => { use postgres_types::{ToSql,FromSql,Type}; let v = u(args[0]); let mut out = String::new();
            for ty in [Type::BOOL, Type::INT2, Type::INT4, Type::OID, Type::INT8, Type::MONEY, Type::BYTEA, Type::BIT, Type::VARBIT, Type::TEXT, Type::CHAR, Type::VARCHAR, Type::JSON, Type::JSONB, Type::NUMERIC] {
                let mut b = bytes::BytesMut::new();
                let r = catch_unwind(AssertUnwindSafe(|| v.to_sql(&ty, &mut b).is_ok()));
                match r { Err(_) => out += &format!("{}:PANIC ", ty.name()), Ok(false) => out += &format!("{}:err ", ty.name()), Ok(true) => {
                    let d = catch_unwind(AssertUnwindSafe(|| U::<B,L>::from_sql(&ty, &b).ok()));
                    match d { Err(_) => out += &format!("{}:{}:DPANIC ", ty.name(), hexb(&b)), Ok(d) => out += &format!("{}:{}:{} ", ty.name(), hexb(&b), (d==Some(v)) as u8) } } } }
            out.trim_end().to_string() }
        _ => "badop".into(),
    }
}

fn facades<const B: usize, const L: usize>(seed: u64, n: usize) -> Vec<String> {
    use num_traits::*; use num_traits::ops::overflowing::*; use num_integer::Integer; use subtle::*;
    type U<const B: usize, const L: usize> = Uint<B, L>;
    let mut s = seed; let mut next = || { s ^= s << 13; s ^= s >> 7; s ^= s << 17; s };
    let mut bad = vec![];
    let mut gen = |next: &mut dyn FnMut() -> u64| -> U<B,L> { let mut l = [0u64; L]; for x in l.iter_mut() { *x = match next()%5 {0=>0,1=>u64::MAX,2=>next()>>(next()%64),_=>next()}; } if L>0 { l[L-1] &= U::<B,L>::MASK; } U::<B,L>::from_limbs(l) };
    macro_rules! ck { ($name:expr, $a:expr, $b:expr, $ctx:expr) => {{ let ra = catch_unwind(AssertUnwindSafe(|| $a)); let rb = catch_unwind(AssertUnwindSafe(|| $b)); let same = match (&ra,&rb) { (Ok(x),Ok(y)) => x==y, (Err(_),Err(_)) => true, _ => false }; if !same && bad.len() < 40 { bad.push(format!("{}<{}> {:?} facade={:?} inherent={:?}", $name, B, $ctx, ra.ok(), rb.ok())); } }} }
    for _ in 0..n {
        let a = gen(&mut next); let b = gen(&mut next); let c = gen(&mut next); let sh = (next() % (B as u64 + 70)) as usize;
        let ctx = (a,b,sh);
        ck!("add&", &a + &b, a.wrapping_add(b), ctx); ck!("add_v&", a + &b, a.wrapping_add(b), ctx); ck!("add&v", &a + b, a.wrapping_add(b), ctx);
        ck!("sub&", &a - &b, a.wrapping_sub(b), ctx); ck!("sub&v", &a - b, a.wrapping_sub(b), ctx);
        ck!("mul&", &a * &b, a.wrapping_mul(b), ctx); ck!("div&", &a / &b, a.wrapping_div(b), ctx); ck!("rem&", &a % &b, a.wrapping_rem(b), ctx); ck!("rem&v", &a % b, a.wrapping_rem(b), ctx); ck!("divv&", a / &b, a.wrapping_div(b), ctx);
        ck!("addassign", { let mut x=a; x+=b; x }, a.wrapping_add(b), ctx); ck!("subassign&", { let mut x=a; x-=&b; x }, a.wrapping_sub(b), ctx); ck!("mulassign", { let mut x=a; x*=b; x }, a.wrapping_mul(b), ctx);
        ck!("divassign", { let mut x=a; x/=b; x }, a.wrapping_div(b), ctx); ck!("remassign&", { let mut x=a; x%=&b; x }, a.wrapping_rem(b), ctx);
        ck!("neg&", -&a, a.wrapping_neg(), ctx); ck!("not&", !&a, a.not(), ctx);
        ck!("and&v", &a & b, a & b, ctx); ck!("or&&", &a | &b, a | b, ctx); ck!("xorv&", a ^ &b, a ^ b, ctx); ck!("orassign&", { let mut x=a; x|=&b; x }, a|b, ctx);
        ck!("shl_u8", a << (sh as u8), a.wrapping_shl(sh as u8 as usize), ctx); ck!("shr_u16", a >> (sh as u16), a.wrapping_shr(sh), ctx); ck!("shl_i32", a << (sh as i32), a.wrapping_shl(sh), ctx); ck!("shr_u64", a >> (sh as u64), a.wrapping_shr(sh), ctx);
        ck!("shl_&usize", a << &sh, a.wrapping_shl(sh), ctx); ck!("shlassign", { let mut x=a; x<<=sh; x }, a.wrapping_shl(sh), ctx); ck!("shrassign&", { let mut x=a; x>>=&sh; x }, a.wrapping_shr(sh), ctx);
        if B >= 16 { let t = U::<B,L>::from(sh as u64 & 0xffff); ck!("shl_uint", a << t, a.wrapping_shl(sh & 0xffff), ctx); ck!("shr_uint&", a >> &t, a.wrapping_shr(sh & 0xffff), ctx); }
        // Bits wrapper
        let ba = ruint::Bits::<B,L>::from(a); let bb = ruint::Bits::<B,L>::from(b);
        ck!("bits_and", (ba & bb).into_inner(), a & b, ctx); ck!("bits_or&", (&ba | &bb).into_inner(), a | b, ctx); ck!("bits_xorv&", (ba ^ &bb).into_inner(), a ^ b, ctx); ck!("bits_not", (!ba).into_inner(), !a, ctx);
        ck!("bits_shl", (ba << sh).into_inner(), a << sh, ctx); ck!("bits_shr&", (&ba >> sh).into_inner(), a >> sh, ctx); ck!("bits_rotl", ba.rotate_left(sh).into_inner(), a.rotate_left(sh), ctx); ck!("bits_rotr", ba.rotate_right(sh).into_inner(), a.rotate_right(sh), ctx);
        ck!("bits_oshl", { let (x,o)=ba.overflowing_shl(sh); (x.into_inner(),o) }, a.overflowing_shl(sh), ctx); ck!("bits_cshr", ba.checked_shr(sh).map(|x| x.into_inner()), a.checked_shr(sh), ctx);
        ck!("bits_lz", ba.leading_zeros(), U::<B,L>::leading_zeros(&a), ctx); ck!("bits_to", ba.trailing_ones(), U::<B,L>::trailing_ones(&a), ctx); ck!("bits_rev", ba.reverse_bits().into_inner(), a.reverse_bits(), ctx); ck!("bits_idx", ba[sh], a.bit(sh), ctx);
        ck!("bits_shlassign", { let mut x=ba; x<<=sh; x.into_inner() }, a<<sh, ctx); ck!("bits_andassign&", { let mut x=ba; x&=&bb; x.into_inner() }, a&b, ctx);
        // num-traits
        ck!("CheckedAdd", CheckedAdd::checked_add(&a,&b), a.checked_add(b), ctx); ck!("CheckedSub", CheckedSub::checked_sub(&a,&b), a.checked_sub(b), ctx); ck!("CheckedMul", CheckedMul::checked_mul(&a,&b), a.checked_mul(b), ctx);
        ck!("CheckedDiv", CheckedDiv::checked_div(&a,&b), a.checked_div(b), ctx); ck!("CheckedRem", CheckedRem::checked_rem(&a,&b), a.checked_rem(b), ctx); ck!("CheckedNeg", CheckedNeg::checked_neg(&a), a.checked_neg(), ctx);
        ck!("CheckedShl", CheckedShl::checked_shl(&a, sh as u32), a.checked_shl(sh), ctx); ck!("CheckedShr", CheckedShr::checked_shr(&a, sh as u32), a.checked_shr(sh), ctx);
        ck!("CheckedEuclidDiv", CheckedEuclid::checked_div_euclid(&a,&b), a.checked_div(b), ctx); ck!("CheckedEuclidRem", CheckedEuclid::checked_rem_euclid(&a,&b), a.checked_rem(b), ctx);
        ck!("EuclidDiv", Euclid::div_euclid(&a,&b), a.wrapping_div(b), ctx); ck!("EuclidRem", Euclid::rem_euclid(&a,&b), a.wrapping_rem(b), ctx);
        ck!("Inv", Inv::inv(a), a.inv_ring(), ctx); ck!("MulAdd", MulAdd::mul_add(a,b,c), a.wrapping_mul(b).wrapping_add(c), ctx); ck!("MulAddAssign", { let mut x=a; MulAddAssign::mul_add_assign(&mut x,b,c); x }, a.wrapping_mul(b).wrapping_add(c), ctx);
        ck!("Saturating::add", Saturating::saturating_add(a,b), a.saturating_add(b), ctx); ck!("Saturating::sub", Saturating::saturating_sub(a,b), a.saturating_sub(b), ctx);
        ck!("SaturatingAdd", SaturatingAdd::saturating_add(&a,&b), a.saturating_add(b), ctx); ck!("SaturatingSub", SaturatingSub::saturating_sub(&a,&b), a.saturating_sub(b), ctx); ck!("SaturatingMul", SaturatingMul::saturating_mul(&a,&b), a.saturating_mul(b), ctx);
        ck!("WrappingAdd", WrappingAdd::wrapping_add(&a,&b), a.wrapping_add(b), ctx); ck!("WrappingSub", WrappingSub::wrapping_sub(&a,&b), a.wrapping_sub(b), ctx); ck!("WrappingMul", WrappingMul::wrapping_mul(&a,&b), a.wrapping_mul(b), ctx); ck!("WrappingNeg", WrappingNeg::wrapping_neg(&a), a.wrapping_neg(), ctx);
        ck!("WrappingShl", WrappingShl::wrapping_shl(&a, sh as u32), a.wrapping_shl(sh), ctx); ck!("WrappingShr", WrappingShr::wrapping_shr(&a, sh as u32), a.wrapping_shr(sh), ctx);
        ck!("OverflowingAdd", OverflowingAdd::overflowing_add(&a,&b), a.overflowing_add(b), ctx); ck!("OverflowingSub", OverflowingSub::overflowing_sub(&a,&b), a.overflowing_sub(b), ctx); ck!("OverflowingMul", OverflowingMul::overflowing_mul(&a,&b), a.overflowing_mul(b), ctx);
        ck!("Pow", Pow::pow(a, b), a.pow(b), ctx); ck!("Zero", <U<B,L> as Zero>::is_zero(&a), a == U::<B,L>::ZERO, ctx);
        ck!("to_u64", ToPrimitive::to_u64(&a), u64::try_from(a).ok(), ctx); ck!("to_i64", ToPrimitive::to_i64(&a), i64::try_from(a).ok(), ctx); ck!("to_u128", ToPrimitive::to_u128(&a), u128::try_from(a).ok(), ctx); ck!("to_i128", ToPrimitive::to_i128(&a), i128::try_from(a).ok(), ctx);
        let p = next(); ck!("from_u64", <U<B,L> as FromPrimitive>::from_u64(p), U::<B,L>::try_from(p).ok(), p); ck!("from_i64", <U<B,L> as FromPrimitive>::from_i64(p as i64), U::<B,L>::try_from(p as i64).ok(), p);
        ck!("NumCast", <U<B,L> as NumCast>::from(p), U::<B,L>::try_from(p).ok(), p);
        ck!("PI_count_ones", PrimInt::count_ones(a) as usize, U::<B,L>::count_ones(&a), ctx); ck!("PI_count_zeros", PrimInt::count_zeros(a) as usize, U::<B,L>::count_zeros(&a), ctx); ck!("PI_lz", PrimInt::leading_zeros(a) as usize, U::<B,L>::leading_zeros(&a), ctx); ck!("PI_lo", PrimInt::leading_ones(a) as usize, U::<B,L>::leading_ones(&a), ctx); ck!("PI_tz", PrimInt::trailing_zeros(a) as usize, U::<B,L>::trailing_zeros(&a), ctx); ck!("PI_to", PrimInt::trailing_ones(a) as usize, U::<B,L>::trailing_ones(&a), ctx);
        ck!("PI_rotl", PrimInt::rotate_left(a, sh as u32), a.rotate_left(sh), ctx); ck!("PI_rotr", PrimInt::rotate_right(a, sh as u32), a.rotate_right(sh), ctx); ck!("PI_sshl", PrimInt::signed_shl(a, sh as u32), a.wrapping_shl(sh), ctx); ck!("PI_sshr", PrimInt::signed_shr(a, sh as u32), a.arithmetic_shr(sh), ctx); ck!("PI_ushl", PrimInt::unsigned_shl(a, sh as u32), a.wrapping_shl(sh), ctx); ck!("PI_ushr", PrimInt::unsigned_shr(a, sh as u32), a.wrapping_shr(sh), ctx);
        ck!("PI_rev", PrimInt::reverse_bits(a), a.reverse_bits(), ctx);
        if B >= 8 { let e = (next()%200) as u32; ck!("PI_pow", PrimInt::pow(a, e), a.pow(U::<B,L>::from(e as u64 & if B<32 {(1u64<<B.min(8))-1} else {u64::MAX})), (a,e)); }
        ck!("ToBytes_le", ToBytes::to_le_bytes(&a), a.to_le_bytes_vec(), ctx); ck!("ToBytes_be", ToBytes::to_be_bytes(&a), a.to_be_bytes_vec(), ctx); ck!("FromBytes_le", <U<B,L> as FromBytes>::from_le_bytes(&a.to_le_bytes_vec()), a, ctx); ck!("FromBytes_be", <U<B,L> as FromBytes>::from_be_bytes(&a.to_be_bytes_vec()), a, ctx);
        ck!("Num_from_str_radix", <U<B,L> as Num>::from_str_radix(&format!("{a:x}"), 16).ok(), Some(a), ctx);
        // num-integer
        ck!("I_div_floor", Integer::div_floor(&a,&b), a.wrapping_div(b), ctx); ck!("I_mod_floor", Integer::mod_floor(&a,&b), a.wrapping_rem(b), ctx); ck!("I_gcd", Integer::gcd(&a,&b), a.gcd(b), ctx); ck!("I_lcm", Integer::lcm(&a,&b), a.lcm(b).unwrap(), ctx);
        ck!("I_div_rem", Integer::div_rem(&a,&b), a.div_rem(b), ctx); ck!("I_div_ceil", Integer::div_ceil(&a,&b), a.div_ceil(b), ctx); ck!("I_div_mod_floor", Integer::div_mod_floor(&a,&b), a.div_rem(b), ctx);
        ck!("I_is_multiple_of", Integer::is_multiple_of(&a,&b), if b == U::<B,L>::ZERO { a == U::<B,L>::ZERO } else { a % b == U::<B,L>::ZERO }, ctx); ck!("I_even", Integer::is_even(&a), !a.bit(0), ctx); ck!("I_odd", Integer::is_odd(&a), a.bit(0), ctx);
        ck!("I_xgcd", { let e = Integer::extended_gcd(&a,&b); (e.gcd, e.x, e.y) }, { let (g,x,y,_) = a.gcd_extended(b); (g,x,y) }, ctx);
        ck!("I_inc", { let mut x=a; Integer::inc(&mut x); x }, a.wrapping_add(U::<B,L>::ONE), ctx); ck!("I_dec", { let mut x=a; Integer::dec(&mut x); x }, a.wrapping_sub(U::<B,L>::ONE), ctx);
        // subtle
        ck!("ct_eq", bool::from(a.ct_eq(&b)), a==b, ctx); ck!("ct_eq_self", bool::from(a.ct_eq(&a)), true, ctx); ck!("ct_gt", bool::from(a.ct_gt(&b)), a>b, ctx); ck!("ct_lt", bool::from(a.ct_lt(&b)), a<b, ctx);
        let ch = (next()&1) as u8; ck!("ct_select", U::<B,L>::conditional_select(&a,&b,Choice::from(ch)), if ch==1 {b} else {a}, ctx); ck!("ct_negate", { let mut x=a; x.conditional_negate(Choice::from(ch)); x }, if ch==1 {a.wrapping_neg()} else {a}, ctx);
        if B>0 { let i = sh % B; ck!("bit_ct", bool::from(a.bit_ct(i)), a.bit(i), ctx); }
        ck!("sum", [a,b,c].iter().sum::<U<B,L>>(), a.wrapping_add(b).wrapping_add(c), ctx); ck!("sumv", [a,b,c].into_iter().sum::<U<B,L>>(), a.wrapping_add(b).wrapping_add(c), ctx);
        ck!("product", [a,b,c].iter().product::<U<B,L>>(), if B==0 {U::<B,L>::ZERO} else {a.wrapping_mul(b).wrapping_mul(c)}, ctx); ck!("productv", [a,b,c].into_iter().product::<U<B,L>>(), if B==0 {U::<B,L>::ZERO} else {a.wrapping_mul(b).wrapping_mul(c)}, ctx);
        { use zeroize::Zeroize; ck!("zeroize", { let mut x=a; x.zeroize(); x }, U::<B,L>::ZERO, ctx); }
    }
    bad
}
macro_rules! dispatch { ($bits:expr, $op:expr, $args:expr; $($b:literal),*) => { match $bits { $( $b => run::<$b, {($b+63)/64}>($op, $args), )* _ => "badwidth".to_string() } } }
fn main() {
    std::panic::set_hook(Box::new(|_| {}));
    if std::env::args().nth(1).as_deref() == Some("facades") {
        macro_rules! f { ($($b:literal),*) => { $( for l in facades::<$b, {($b+63)/64}>(0x9E3779B97F4A7C15 ^ $b, 400) { println!("{l}"); } )* } }
        f!(0,1,7,8,12,60,63,64,65,100,128,160,250,256,512);
        println!("facades done"); return;
    }
    let stdin = std::io::stdin(); let out = std::io::stdout(); let mut out = out.lock();
    for line in stdin.lock().lines() {
        let line = line.unwrap(); let parts: Vec<&str> = line.split(' ').collect();
        let bits: usize = parts[1].parse().unwrap();
        let r = catch_unwind(AssertUnwindSafe(|| dispatch!(bits, parts[0], &parts[2..]; 0,1,7,8,12,60,63,64,65,100,128,160,250,256,512,535)));
        writeln!(out, "{}", r.unwrap_or_else(|_| "PANIC".into())).unwrap();
    }
}
