import Redc
open Redc
def W : Nat := 2^64
def inv64 (m0 : Nat) : Nat := Id.run do
  let mut x := m0
  for _ in [0:6] do
    x := (x * ((2 + W * W - (m0 * x) % W) % W)) % W
  return (W - x) % W
def lcg (s : Nat) : Nat := (s * 6364136223846793005 + 1442695040888963407) % 2^64
def gen : Nat → Nat → List Nat × Nat
  | 0, s => ([], s)
  | n+1, s => let s1 := lcg s; let (r, s2) := gen n s1; ((if s1 % 5 == 0 then W - 1 else if s1 % 7 == 0 then 0 else s1) :: r, s2)
def toLimbs : Nat → Nat → List Nat
  | 0, _ => []
  | n+1, x => (x % W) :: toLimbs n (x / W)
def run (cnt : Nat) : Nat × Nat × Nat := Id.run do
  let mut s := 7
  let mut bad := 0
  let mut small := 0
  for i in [0:cnt] do
    let n := 1 + i % 4
    let (md0, s1) := gen n s
    let top := if i % 3 == 0 then md0.getD (n-1) 0 % 2^62 else md0.getD (n-1) 0
    let md1 := (md0.take (n-1)) ++ [if top == 0 then 1 else top]
    let md := match md1 with | x :: r => (x ||| 1) :: r | [] => []
    let Md := val W md
    let (a0, s2) := gen n s1
    let (b0, s3) := gen n s2
    s := s3
    let a := toLimbs n (val W a0 % Md)
    let b := toLimbs n (val W b0 % Md)
    let big := decide (md.getD (n-1) 0 ≥ 0x7fffffffffffffff)
    if !big then small := small + 1
    let r := mulRedc W (inv64 (md.headD 0)) big a b md
    if !(r < Md && (W^n * r) % Md == (val W a * val W b) % Md) then bad := bad + 1
  return (cnt, bad, small)
#eval run 2000
