import Mathlib.Tactic.Ring
import Mathlib.Tactic.Linarith
import Mathlib.Tactic.NormNum
import Mathlib.Tactic.Positivity
import Mathlib.Tactic.Push

/-! C11 probe, `square_redc`: the arithmetic core of the loop invariant (list-free).
    Notation at outer index `i`: `P = B^(i+1)`, `a = lo + H` with `lo = a mod P`, `H` = the limbs above `i`
    (not yet multiplied in), `T` = accumulator value (array + carries) after the iteration,
    `M < P` the accumulated reduction multipliers. Invariant: `T·P + H² = a² + M·Mod`. -/
namespace Sq

/-- iteration `i` adds `X·(X + 2H')` with `X = a_i·B^i`: the square telescopes. -/
theorem telescope (X H' : ℕ) : X * (X + 2 * H') + H' ^ 2 = (X + H') ^ 2 := by ring

/-- one step preserves the invariant: from `T₀·P₀ + H₀² = a² + M₀·Mod` with `H₀ = X + H`,
    the step's exactness `T·B·P₀ = T₀·P₀ + X·(X+2H) + m·P₀·Mod` gives the invariant at `P = B·P₀`. -/
theorem inv_step (a Mod B P0 T0 M0 X H T m : ℕ)
    (hinv : T0 * P0 + (X + H) ^ 2 = a ^ 2 + M0 * Mod)
    (hstep : T * (B * P0) = T0 * P0 + X * (X + 2 * H) + m * P0 * Mod) :
    T * (B * P0) + H ^ 2 = a ^ 2 + (M0 + m * P0) * Mod := by
  have := telescope X H
  nlinarith [hinv, hstep, this]

/-- multiplier bound: `M₀ < P₀`, `m < B` ⇒ `M₀ + m·P₀ < B·P₀`. -/
theorem mult_bound (B P0 M0 m : ℕ) (hM : M0 < P0) (hm : m < B) : M0 + m * P0 < B * P0 := by
  have : (m + 1) * P0 ≤ B * P0 := Nat.mul_le_mul_right _ hm
  nlinarith

/-- the accumulator stays below `3·Mod`: hence `carry_outer ≤ 2`. -/
theorem acc_bound (a Mod P lo H T M : ℕ) (hP : 0 < P)
    (ha : a = lo + H) (hlo : lo < P) (haM : a < Mod) (hM : M < P)
    (hinv : T * P + H ^ 2 = a ^ 2 + M * Mod) : T < 3 * Mod := by
  -- T·P = lo·(a + H) + M·Mod ≤ (P−1)·2Mod + (P−1)·Mod
  have h1 : a ^ 2 = lo * (a + H) + H ^ 2 := by rw [ha]; ring
  have h2 : T * P = lo * (a + H) + M * Mod := by omega
  have hH : H ≤ a := by omega
  have h3 : lo * (a + H) ≤ (P - 1) * (2 * Mod) := Nat.mul_le_mul (by omega) (by omega)
  have h4 : M * Mod ≤ (P - 1) * Mod := Nat.mul_le_mul_right _ (by omega)
  by_contra hc; push Not at hc
  have h5 : 3 * Mod * P ≤ T * P := Nat.mul_le_mul_right _ hc
  have h6 : (P - 1) * (2 * Mod) + (P - 1) * Mod = 3 * Mod * (P - 1) := by ring
  have h7 : 3 * Mod * (P - 1) + 3 * Mod = 3 * Mod * P := by
    have : P - 1 + 1 = P := Nat.sub_add_cancel hP
    calc 3 * Mod * (P - 1) + 3 * Mod = 3 * Mod * (P - 1 + 1) := by ring
      _ = 3 * Mod * P := by rw [this]
  omega

/-- value after the multiply phase (before the reduction of the same iteration) is below `(2B+1)·Mod`:
    with `4·Mod ≤ B^N` this is `< B^(N+1)`, so `carry_hi = 0` in the small-modulus arm. -/
theorem mid_bound (a Mod B P0 lo H T0 M0 X Pm : ℕ) (hP0 : 0 < P0) (hB : 0 < B)
    (ha : a = lo + H) (hlo : lo < B * P0) (haM : a < Mod) (hM0 : M0 < P0)
    (hinv : T0 * P0 + (X + H) ^ 2 = a ^ 2 + M0 * Mod)
    (hmid : Pm * P0 = T0 * P0 + X * (X + 2 * H)) : Pm < (2 * B + 1) * Mod := by
  have ht := telescope X H
  have h1 : a ^ 2 = lo * (a + H) + H ^ 2 := by rw [ha]; ring
  have h2 : Pm * P0 = lo * (a + H) + M0 * Mod := by nlinarith [hinv, hmid, ht, h1]
  have hH : H ≤ a := by omega
  have h3 : lo * (a + H) ≤ (B * P0) * (2 * Mod) := Nat.mul_le_mul (by omega) (by omega)
  have h4 : M0 * Mod ≤ P0 * Mod := Nat.mul_le_mul_right _ (by omega)
  have hMod : 0 < Mod := by omega
  by_contra hc; push Not at hc
  have h5 : (2 * B + 1) * Mod * P0 ≤ Pm * P0 := Nat.mul_le_mul_right _ hc
  have h6 : (B * P0) * (2 * Mod) + P0 * Mod = (2 * B + 1) * Mod * P0 := by ring
  -- need strictness: lo < B*P0 strictly and Mod > 0, a + H ≥ ... use lo*(a+H) < B*P0*2Mod when a+H>0, else Pm*P0 = M0*Mod < P0*Mod
  have h7 : M0 * Mod < P0 * Mod := Nat.mul_lt_mul_of_pos_right hM0 hMod
  omega

/-- small-modulus arm: `4·Mod ≤ B^N` ⇒ accumulator `< B^N` (so `carry_outer = 0` and the top-limb add cannot wrap). -/
theorem small_arm (Mod BN T : ℕ) (h4 : 4 * Mod ≤ BN) (hT : T < 3 * Mod) : T < BN := by omega

#print axioms acc_bound
#print axioms mid_bound
#print axioms inv_step
end Sq
