        assert_eq!(parse_digits("258664426012969093929703085429980814127835149614277183275038967946009968870203535512256352201271898244626862047232"), Ok(vec![0, 15125697203588300800, 6414901478162127871, 13296924585243691235, 13584922160258634318, 121098312706494698]));
        assert_eq!(parse_digits("2135987035920910082395021706169552114602704522356652769947041607822219725780640550022962086936576"), Ok(vec![0, 0, 0, 0, 0, 1]));
    }
}

#[cfg(test)]
mod verif_fast {
    use super::*;
    #[test]
    fn drive() {
        for lit in ["0x10U256", "1a_U64", "300_U8", "0xAB5", "0xA_B5", "12_u8", "0b2_U8", "1_U0", "0_U0"] {
            let out = match parse_suffix(lit) {
                None => "pass".to_string(),
                Some((ty, bits, value)) => match parse_digits(value) {
                    Err(e) => format!("err {e}"),
                    Ok(l) => match pad_limbs(bits, l) { None => "err too large".into(), Some(l) => format!("ok {ty} {bits} {l:x?}") }
                }
            };
            println!("{lit} => {out}");
        }
    }
}
