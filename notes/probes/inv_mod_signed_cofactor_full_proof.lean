import Mathlib.Tactic.Ring
import Mathlib.Tactic.Linarith
import Mathlib.Tactic.NormNum
import Mathlib.Tactic.Positivity
import Mathlib.Tactic.Push
import Mathlib.Data.Int.ModEq
import Mathlib.Tactic.LinearCombination

/-! C10/C12 probe, `inv_mod`: the cofactor `t0` is tracked modulo `2^BITS` with an `even` flag saying which of
    `t0`, `t1` is "negative". At value level (signed integers, abstract Lehmer-matrix oracle):
    signs alternate as the flag says, magnitudes satisfy `|t0|·b + |t1|·a = modulus` and `|t0| ≤ |t1|`,
    `a ≡ t0·num`, `b ≡ t1·num (mod modulus)`; at exit with `a = 1` the returned value is the canonical inverse. -/
namespace IM

abbrev Mat := ℕ × ℕ × ℕ × ℕ × Bool
def ident : Mat := (1, 0, 0, 1, true)
def sgn (b : Bool) : ℤ := if b then 1 else -1

/-- `Matrix::apply` on integers (the code works mod `2^BITS`). -/
def applyZ (m : Mat) (x y : ℤ) : ℤ × ℤ :=
  if m.2.2.2.2 then ((m.1 : ℤ) * x - m.2.1 * y, (m.2.2.2.1 : ℤ) * y - m.2.2.1 * x)
  else ((m.2.1 : ℤ) * y - m.1 * x, (m.2.2.1 : ℤ) * x - m.2.2.2.1 * y)

structure St where
  (a b t0 t1 : ℤ)
  (even : Bool)

/-- one loop iteration. -/
def step (mat : ℤ → ℤ → Mat) (s : St) : St :=
  let m := mat s.a s.b
  if m = ident then
    let q := s.a / s.b
    { a := s.b, b := s.a - q * s.b, t0 := s.t1, t1 := s.t0 - q * s.t1, even := !s.even }
  else
    { a := (applyZ m s.a s.b).1, b := (applyZ m s.a s.b).2,
      t0 := (applyZ m s.t0 s.t1).1, t1 := (applyZ m s.t0 s.t1).2, even := xor s.even (!m.2.2.2.2) }

def loop (mat : ℤ → ℤ → Mat) : ℕ → St → St
  | 0, s => s
  | f + 1, s => if s.b = 0 then s else loop mat f (step mat s)

/-- what the Lehmer oracle guarantees for `a ≥ b > 0` (from `Lh.prefix_valid` / `apply_progress` plus the
    cofactor growth invariants): non-identity answers are unimodular with non-decreasing rows and make progress. -/
def Good (mat : ℤ → ℤ → Mat) : Prop :=
  ∀ a b : ℤ, 0 < b → b ≤ a → mat a b = ident ∨
    (((mat a b).1 : ℤ) * (mat a b).2.2.2.1 - (mat a b).2.1 * (mat a b).2.2.1 = sgn (mat a b).2.2.2.2
      ∧ (mat a b).1 ≤ (mat a b).2.2.1 ∧ (mat a b).2.1 ≤ (mat a b).2.2.2.1
      ∧ 0 ≤ (applyZ (mat a b) a b).2 ∧ (applyZ (mat a b) a b).2 < (applyZ (mat a b) a b).1
      ∧ (applyZ (mat a b) a b).2 < b)

/-- the invariant. `T0`, `T1` are the magnitudes of `t0`, `t1`. -/
structure Inv (num M : ℤ) (s : St) (T0 T1 : ℤ) : Prop where
  n0 : 0 ≤ T0
  n1 : 0 ≤ T1
  s0 : s.t0 = - sgn s.even * T0
  s1 : s.t1 = sgn s.even * T1
  lin : T0 * s.b + T1 * s.a = M
  mono : T0 ≤ T1
  ca : s.a ≡ s.t0 * num [ZMOD M]
  cb : s.b ≡ s.t1 * num [ZMOD M]
  ob : 0 ≤ s.b
  oab : s.b < s.a

theorem sgn_not (b : Bool) : sgn (!b) = - sgn b := by cases b <;> simp [sgn]
theorem sgn_sq (b : Bool) : sgn b * sgn b = 1 := by cases b <;> simp [sgn]

set_option maxHeartbeats 1000000 in
theorem inv_step (mat : ℤ → ℤ → Mat) (hg : Good mat) (num M : ℤ) (s : St) (T0 T1 : ℤ)
    (h : Inv num M s T0 T1) (hb : s.b ≠ 0) :
    ∃ T0' T1', Inv num M (step mat s) T0' T1' ∧ (step mat s).b < s.b := by
  obtain ⟨n0, n1, s0, s1, lin, mono, ca, cb, ob, oab⟩ := h
  have hbpos : 0 < s.b := lt_of_le_of_ne ob (Ne.symm hb)
  unfold step
  simp only []
  rcases hg s.a s.b hbpos (le_of_lt oab) with hid | ⟨hdet, hr0, hr1, hd0, hdc, hdb⟩
  · -- Euclid step
    rw [if_pos hid]
    obtain ⟨q, hq⟩ : ∃ q, q = s.a / s.b := ⟨_, rfl⟩
    rw [← hq]
    have hq1 : 1 ≤ q := by
      rw [hq]; exact Int.le_ediv_of_mul_le hbpos (by linarith)
    have hrem : s.a - q * s.b = s.a % s.b := by
      rw [Int.emod_def, hq]; ring
    have hr0' : 0 ≤ s.a - q * s.b := by rw [hrem]; exact Int.emod_nonneg _ hb
    have hr1' : s.a - q * s.b < s.b := by rw [hrem]; exact Int.emod_lt_of_pos _ hbpos
    refine ⟨T1, T0 + q * T1, ⟨n1, by nlinarith, ?_, ?_, ?_, by nlinarith, cb, ?_, hr0', hr1'⟩, hr1'⟩
    · simp only [sgn_not]; rw [s1]; ring
    · simp only [sgn_not]; rw [s0, s1]; ring
    · simp only []; linear_combination lin
    · simp only []
      have := Int.ModEq.sub ca (Int.ModEq.mul_left q cb)
      have e : s.t0 * num - q * (s.t1 * num) = (s.t0 - q * s.t1) * num := by ring
      rw [e] at this; exact this
  · -- Lehmer step
    have hne : ¬ mat s.a s.b = ident := by
      intro hid
      rw [hid] at hdc hd0 hdb
      (simp [applyZ, ident] at hdc hd0 hdb) <;> linarith
    rw [if_neg hne]
    obtain ⟨m0, m1, m2, m3, ev, hm⟩ : ∃ m0 m1 m2 m3 ev, mat s.a s.b = (m0, m1, m2, m3, ev) :=
      ⟨_, _, _, _, _, rfl⟩
    rw [hm] at hdet hr0 hr1 hd0 hdc hdb ⊢
    simp only at hdet hr0 hr1 hd0 hdc hdb ⊢
    have hr0z : (m0 : ℤ) ≤ m2 := by exact_mod_cast hr0
    have hr1z : (m1 : ℤ) ≤ m3 := by exact_mod_cast hr1
    have p0 : (0 : ℤ) ≤ m0 := by positivity
    have p1 : (0 : ℤ) ≤ m1 := by positivity
    have p2 : (0 : ℤ) ≤ m2 := by positivity
    have p3 : (0 : ℤ) ≤ m3 := by positivity
    refine ⟨m0 * T0 + m1 * T1, m2 * T0 + m3 * T1, ⟨by positivity, by positivity, ?_, ?_, ?_, by nlinarith, ?_, ?_, hd0, hdc⟩, hdb⟩
    · -- sign of t0'
      cases ev <;> cases hE : s.even <;> simp only [applyZ, hE, sgn, Bool.false_eq_true, if_false, if_true, Bool.not_false, Bool.not_true, Bool.xor_false, Bool.xor_true, Bool.false_xor, Bool.true_xor] at s0 s1 ⊢ <;> rw [s0, s1] <;> ring
    · cases ev <;> cases hE : s.even <;> simp only [applyZ, hE, sgn, Bool.false_eq_true, if_false, if_true, Bool.not_false, Bool.not_true, Bool.xor_false, Bool.xor_true, Bool.false_xor, Bool.true_xor] at s0 s1 ⊢ <;> rw [s0, s1] <;> ring
    · cases ev
      · simp only [applyZ, Bool.false_eq_true, if_false, sgn] at hdet ⊢
        linear_combination (-(T0 * s.b + T1 * s.a)) * hdet + lin
      · simp only [applyZ, if_true, sgn] at hdet ⊢
        linear_combination (T0 * s.b + T1 * s.a) * hdet + lin
    · cases ev
      · simp only [applyZ, Bool.false_eq_true, if_false]
        have := Int.ModEq.sub (Int.ModEq.mul_left (m1 : ℤ) cb) (Int.ModEq.mul_left (m0 : ℤ) ca)
        have e : (m1 : ℤ) * (s.t1 * num) - m0 * (s.t0 * num) = (m1 * s.t1 - m0 * s.t0) * num := by ring
        rw [e] at this; exact this
      · simp only [applyZ, if_true]
        have := Int.ModEq.sub (Int.ModEq.mul_left (m0 : ℤ) ca) (Int.ModEq.mul_left (m1 : ℤ) cb)
        have e : (m0 : ℤ) * (s.t0 * num) - m1 * (s.t1 * num) = (m0 * s.t0 - m1 * s.t1) * num := by ring
        rw [e] at this; exact this
    · cases ev
      · simp only [applyZ, Bool.false_eq_true, if_false]
        have := Int.ModEq.sub (Int.ModEq.mul_left (m2 : ℤ) ca) (Int.ModEq.mul_left (m3 : ℤ) cb)
        have e : (m2 : ℤ) * (s.t0 * num) - m3 * (s.t1 * num) = (m2 * s.t0 - m3 * s.t1) * num := by ring
        rw [e] at this; exact this
      · simp only [applyZ, if_true]
        have := Int.ModEq.sub (Int.ModEq.mul_left (m3 : ℤ) cb) (Int.ModEq.mul_left (m2 : ℤ) ca)
        have e : (m3 : ℤ) * (s.t1 * num) - m2 * (s.t0 * num) = (m3 * s.t1 - m2 * s.t0) * num := by ring
        rw [e] at this; exact this


theorem inv_loop (mat : ℤ → ℤ → Mat) (hg : Good mat) (num M : ℤ) (f : ℕ) (s : St) (T0 T1 : ℤ)
    (h : Inv num M s T0 T1) (hf : s.b < f) :
    ∃ T0' T1', Inv num M (loop mat f s) T0' T1' ∧ (loop mat f s).b = 0 := by
  induction f generalizing s T0 T1 with
  | zero => have := h.ob; simp at hf; omega
  | succ f ih =>
    simp only [loop]
    split
    · next hb => exact ⟨T0, T1, h, hb⟩
    · next hb =>
      obtain ⟨T0', T1', hI, hlt⟩ := inv_step mat hg num M s T0 T1 h hb
      exact ih _ T0' T1' hI (by push_cast at hf; omega)

/-- exit: `a = 1` ⇒ the patched cofactor is the canonical inverse. -/
theorem final (num M : ℤ) (s : St) (T0 T1 : ℤ) (h : Inv num M s T0 T1) (hb : s.b = 0) (ha : s.a = 1)
    (hM : 1 < M) :
    0 ≤ (if s.even then M + s.t0 else s.t0) ∧ (if s.even then M + s.t0 else s.t0) < M
    ∧ (if s.even then M + s.t0 else s.t0) * num ≡ 1 [ZMOD M]
    ∧ |s.t0| ≤ M ∧ |s.t1| ≤ M := by
  obtain ⟨n0, n1, s0, s1, lin, mono, ca, cb, ob, oab⟩ := h
  rw [hb, ha] at lin
  have hT1 : T1 = M := by linarith
  rw [ha] at ca
  -- T0 is neither 0 nor M, otherwise 1 ≡ 0 (mod M)
  have hnot : ∀ z : ℤ, s.t0 = z * M → False := by
    intro z hz
    rw [hz] at ca
    have h1 : M ∣ z * M * num - 1 := Int.modEq_iff_dvd.mp ca
    have h2 : M ∣ 1 := by
      have : (1 : ℤ) = M * (z * num) - (z * M * num - 1) := by ring
      rw [this]; exact dvd_sub (Dvd.intro _ rfl) h1
    have := Int.le_of_dvd (by norm_num) h2
    linarith
  have hT0pos : 0 < T0 := by
    rcases lt_or_eq_of_le n0 with h | h
    · exact h
    · exfalso; apply hnot 0; rw [s0, ← h]; ring
  have hT0lt : T0 < M := by
    rcases lt_or_eq_of_le (hT1 ▸ mono) with h | h
    · exact h
    · exfalso
      cases hE : s.even
      · apply hnot 1; rw [s0, hE, h]; simp [sgn]
      · apply hnot (-1); rw [s0, hE, h]; simp [sgn]
  have habs0 : |s.t0| ≤ M := by
    rw [s0]; cases s.even <;> simp [sgn, abs_of_nonneg n0] <;> linarith
  have habs1 : |s.t1| ≤ M := by
    rw [s1]; cases s.even <;> simp [sgn, abs_of_nonneg n1] <;> linarith
  cases hE : s.even
  · simp only [Bool.false_eq_true, if_false]
    rw [hE] at s0
    simp only [sgn, Bool.false_eq_true, if_false] at s0
    refine ⟨by linarith, by linarith, ca.symm, habs0, habs1⟩
  · simp only [if_true]
    rw [hE] at s0
    simp only [sgn, if_true] at s0
    refine ⟨by linarith, by linarith, ?_, habs0, habs1⟩
    have : (M + s.t0) * num ≡ s.t0 * num [ZMOD M] := by
      apply Int.modEq_iff_dvd.mpr
      exact ⟨-num, by ring⟩
    exact this.trans ca.symm

/-- the start state satisfies the invariant. -/
theorem init (num M b : ℤ) (hM : 0 < M) (hb : b = num % M) :
    Inv num M { a := M, b := b, t0 := 0, t1 := 1, even := true } 0 1 :=
  { n0 := le_refl _
    n1 := by norm_num
    s0 := by simp [sgn]
    s1 := by simp [sgn]
    lin := by simp
    mono := by norm_num
    ca := by
      show M ≡ 0 * num [ZMOD M]
      apply Int.modEq_iff_dvd.mpr; exact ⟨-1, by ring⟩
    cb := by
      show b ≡ 1 * num [ZMOD M]
      rw [hb, one_mul]; exact Int.mod_modEq _ _
    ob := by show 0 ≤ b; rw [hb]; exact Int.emod_nonneg _ (by linarith)
    oab := by show b < M; rw [hb]; exact Int.emod_lt_of_pos _ hM }

#print axioms inv_step
#print axioms inv_loop
#print axioms final
#print axioms init
end IM
