import Lehmer
open Lh
def main : IO Unit := do
  let txt ← IO.FS.readFile "/tmp/probe/lh/out.txt"
  let mut bad := 0
  let mut n := 0
  let mut nonid := 0
  for line in txt.splitOn "\n" do
    let ws := line.splitOn " "
    if ws.length == 7 then
      let a0 := ws[0]!.toNat!
      let a1 := ws[1]!.toNat!
      let m := prefixM (2^32) 200 a0 a1
      let exp : Mat := (ws[2]!.toNat!, ws[3]!.toNat!, ws[4]!.toNat!, ws[5]!.toNat!, ws[6]! == "true")
      n := n + 1
      if m != ident then nonid := nonid + 1
      if m != exp then
        bad := bad + 1
        if bad < 5 then IO.println s!"MISMATCH {a0} {a1} model={repr m} impl={repr exp}"
  IO.println s!"cases={n} mismatches={bad} non-identity={nonid}"
#eval main
