import Mathlib.Tactic.Ring
import Mathlib.Tactic.Linarith
import Mathlib.Tactic.NormNum
import Mathlib.Tactic.Positivity
import Mathlib.Tactic.Push

/-! C18 probe, `From<&Uint> for f64`: truncate to the top 64 bits (`most_significant_bits`), round that
    to 53 bits nearest-even (`bits as f64`), scale by `2^exponent` (exact). The result is one of the two
    53-bit neighbours of the exact value, equal to it when it is representable, and monotone. -/
namespace TF

/-- round `x` to a multiple of `2^k`, nearest, ties to even quotient. -/
def rneK (x k : ℕ) : ℕ :=
  if 2 ^ k < 2 * (x % 2 ^ k) ∨ (2 * (x % 2 ^ k) = 2 ^ k ∧ (x / 2 ^ k) % 2 = 1)
  then (x / 2 ^ k + 1) * 2 ^ k else x / 2 ^ k * 2 ^ k

theorem rneK_bounds (x k : ℕ) : x / 2 ^ k * 2 ^ k ≤ rneK x k ∧ rneK x k ≤ (x / 2 ^ k + 1) * 2 ^ k := by
  unfold rneK; split
  · exact ⟨Nat.mul_le_mul_right _ (by omega), le_refl _⟩
  · exact ⟨le_refl _, Nat.mul_le_mul_right _ (by omega)⟩

theorem rneK_exact (x k : ℕ) (h : x % 2 ^ k = 0) : rneK x k = x := by
  unfold rneK
  have hp : 0 < 2 ^ k := by positivity
  rw [h]
  have : ¬ (2 ^ k < 2 * 0 ∨ (2 * 0 = 2 ^ k ∧ (x / 2 ^ k) % 2 = 1)) := by omega
  rw [if_neg this]
  exact Nat.div_mul_cancel (Nat.dvd_of_mod_eq_zero h)

theorem rneK_mono (x y k : ℕ) (h : x ≤ y) : rneK x k ≤ rneK y k := by
  have hp : 0 < 2 ^ k := by positivity
  have hq : x / 2 ^ k ≤ y / 2 ^ k := Nat.div_le_div_right h
  rcases Nat.lt_or_ge (x / 2 ^ k) (y / 2 ^ k) with hlt | hge
  · calc rneK x k ≤ (x / 2 ^ k + 1) * 2 ^ k := (rneK_bounds x k).2
      _ ≤ y / 2 ^ k * 2 ^ k := Nat.mul_le_mul_right _ hlt
      _ ≤ rneK y k := (rneK_bounds y k).1
  · have heq : x / 2 ^ k = y / 2 ^ k := le_antisymm hq hge
    have hr : x % 2 ^ k ≤ y % 2 ^ k := by
      have e1 := Nat.div_add_mod x (2 ^ k)
      have e2 := Nat.div_add_mod y (2 ^ k)
      rw [heq] at e1
      omega
    unfold rneK
    rw [heq]
    split
    · next hx =>
      have : 2 ^ k < 2 * (y % 2 ^ k) ∨ (2 * (y % 2 ^ k) = 2 ^ k ∧ (y / 2 ^ k) % 2 = 1) := by
        rcases hx with h1 | ⟨h1, h2⟩
        · left; omega
        · rcases Nat.lt_or_ge (2 ^ k) (2 * (y % 2 ^ k)) with h3 | h3
          · left; exact h3
          · right; exact ⟨by omega, h2⟩
      rw [if_pos this]
    · split
      · exact Nat.mul_le_mul_right _ (by omega)
      · exact le_refl _

/-- composition with the truncation: `v ∈ [x·2^e, (x+1)·2^e)`; grid of spacing `2^(k+e)`. -/
theorem trunc_then_rne (v x e k : ℕ) (hlo : x * 2 ^ e ≤ v) (hhi : v < (x + 1) * 2 ^ e) :
    v / 2 ^ (k + e) * 2 ^ (k + e) ≤ rneK x k * 2 ^ e
    ∧ rneK x k * 2 ^ e ≤ (v / 2 ^ (k + e) + 1) * 2 ^ (k + e)
    ∧ (v % 2 ^ (k + e) = 0 → rneK x k * 2 ^ e = v) := by
  have hpe : 0 < 2 ^ e := by positivity
  have hpk : 0 < 2 ^ k := by positivity
  have hvx : v / 2 ^ e = x := by
    apply Nat.div_eq_of_lt_le
    · exact hlo
    · exact hhi
  have hq : v / 2 ^ (k + e) = x / 2 ^ k := by
    rw [Nat.add_comm k e, pow_add, ← Nat.div_div_eq_div_mul, hvx]
  have hpow : 2 ^ (k + e) = 2 ^ k * 2 ^ e := pow_add 2 k e
  obtain ⟨b1, b2⟩ := rneK_bounds x k
  refine ⟨?_, ?_, ?_⟩
  · rw [hq, hpow, ← Nat.mul_assoc]; exact Nat.mul_le_mul_right _ b1
  · rw [hq, hpow, ← Nat.mul_assoc]; exact Nat.mul_le_mul_right _ b2
  · intro hv
    have hv' : v = x / 2 ^ k * (2 ^ k * 2 ^ e) := by
      have := Nat.div_add_mod v (2 ^ (k + e))
      rw [hv, hq, hpow, Nat.add_zero, Nat.mul_comm] at this
      exact this.symm
    -- then x*2^e ≤ v = q*2^k*2^e ≤ x*2^e, so x = q*2^k
    have hqx : x / 2 ^ k * 2 ^ k ≤ x := Nat.div_mul_le_self _ _
    have h1 : x / 2 ^ k * 2 ^ k * 2 ^ e ≤ x * 2 ^ e := Nat.mul_le_mul_right _ hqx
    have h2 : x * 2 ^ e ≤ x / 2 ^ k * 2 ^ k * 2 ^ e := by
      rw [Nat.mul_assoc, ← hv']; exact hlo
    have h3 : x * 2 ^ e = x / 2 ^ k * 2 ^ k * 2 ^ e := le_antisymm h2 h1
    have hx : x = x / 2 ^ k * 2 ^ k := Nat.eq_of_mul_eq_mul_right hpe h3
    have hmod : x % 2 ^ k = 0 := by
      have := Nat.div_add_mod x (2 ^ k)
      rw [Nat.mul_comm] at this
      omega
    rw [rneK_exact x k hmod, hv', ← Nat.mul_assoc, ← hx]

#print axioms rneK_mono
#print axioms trunc_then_rne
end TF
