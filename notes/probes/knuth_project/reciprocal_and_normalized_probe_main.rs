use ruint::algorithms::div::{reciprocal, reciprocal_2, div_nxm_normalized};
fn lcg(s: u64) -> u64 { s.wrapping_mul(6364136223846793005).wrapping_add(1442695040888963407) }
fn main() {
    let mut s = 777u64;
    for i in 0..4000u64 {
        s = lcg(s); let mut hi = s | (1u64 << 63);
        s = lcg(s); let mut lo = s;
        match i % 8 {
            0 => { hi = 1u64 << 63; lo = s % 5; }
            1 => { hi = u64::MAX; lo = u64::MAX - (s % 5); }
            2 => { lo = 0; }
            3 => { hi = (1u64 << 63) | (s >> 40); lo = u64::MAX; }
            4 => { hi = (hi >> 55 << 55) | (s % 3); }
            _ => {}
        }
        let d = ((hi as u128) << 64) | lo as u128;
        println!("R {} {} {} {}", hi, lo, reciprocal(hi), reciprocal_2(d));
    }
    // div_nxm_normalized under the real precondition: numerator = q*d + r with top window < d
    for _ in 0..1500u64 {
        s = lcg(s);
        let n = 2 + ((s >> 20) % 4) as usize;
        let m = ((s >> 30) % 4) as usize;
        let mode = (s >> 40) % 2;
        let mut limb = |s: &mut u64| { *s = lcg(*s); if mode == 0 { *s } else { match (*s >> 60) % 4 { 0 => *s, 1 => 0, 2 => u64::MAX, _ => *s % 4 } } };
        let mut ds: Vec<u64> = (0..n).map(|_| limb(&mut s)).collect();
        ds[n - 1] |= 1 << 63;
        let mut num: Vec<u64> = (0..n + m + 1).map(|_| limb(&mut s)).collect();
        // force top n limbs below the divisor: clear the top limb's high bit and make it smaller
        num[n + m] = 0;
        let top = ds[n - 1];
        num[n + m - 0] = 0; // extra zero limb guarantees window < d*W
        let _ = top;
        let p = |v: &Vec<u64>| v.iter().map(|x| x.to_string()).collect::<Vec<_>>().join(",");
        print!("N {}|{}|", p(&num), p(&ds));
        div_nxm_normalized(&mut num, &ds);
        println!("{}", p(&num));
    }
}
