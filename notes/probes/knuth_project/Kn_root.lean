import Kn.Pre
import Kn.Lead
