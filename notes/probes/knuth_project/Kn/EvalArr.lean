import Kn.Arr
open C2 KStep KLoop KArr

def parseList (s : String) : List Nat := (s.splitOn ",").filterMap (fun t => t.toNat?)
def clz64 (x : Nat) : Nat := 64 - x.log2 - 1

def main : IO Unit := do
  let txt ← IO.FS.readFile "/tmp/probe/kd/out.txt"
  let mut bad := 0
  let mut n := 0
  let mut sh0 := 0
  for line in txt.splitOn "\n" do
    let ps := line.splitOn "|"
    if ps.length == 4 then
      let num := parseList ps[0]!
      let ds := parseList ps[1]!
      let en := parseList ps[2]!
      let ed := parseList ps[3]!
      let W := 2^64
      let nn := ds.length
      let e1 := ds.getD (nn-1) 0
      let sh := clz64 e1
      let T := 2^sh
      let U := 2^(64 - sh)
      let d := (e1 * W + ds.getD (nn-2) 0) * T + ds.getD (nn-3) 0 / U
      let v := recip2Spec W d
      let r := divNxmArr T U num ds d v
      n := n + 1
      if sh == 0 then sh0 := sh0 + 1
      if r.1 != en || r.2 != ed then
        bad := bad + 1
        if bad < 4 then IO.println s!"MISMATCH num={num} ds={ds} model={r} impl=({en},{ed})"
  IO.println s!"cases={n} mismatches={bad} shift0={sh0}"
#eval main
