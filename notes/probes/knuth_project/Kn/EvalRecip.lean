import Kn.Full
import Kn.NLoop
open C2 KN

def parseList (s : String) : List Nat := (s.splitOn ",").filterMap (fun t => t.toNat?)

def main : IO Unit := do
  let txt ← IO.FS.readFile "/tmp/probe/rc/out.txt"
  let mut badR := 0
  let mut nR := 0
  let mut badN := 0
  let mut nN := 0
  for line in txt.splitOn "\n" do
    if line.startsWith "R " then
      let ws := (line.drop 2).toString.splitOn " "
      if ws.length == 4 then
        let hi := ws[0]!.toNat!
        let lo := ws[1]!.toNat!
        let r1 := ws[2]!.toNat!
        let r2 := ws[3]!.toNat!
        nR := nR + 1
        if Recip.recipModel hi != r1 || KFull.recip2Code (hi * 2^64 + lo) != r2 then
          badR := badR + 1
          if badR < 4 then IO.println s!"MISMATCH R {hi} {lo}: model=({Recip.recipModel hi},{KFull.recip2Code (hi * 2^64 + lo)}) impl=({r1},{r2})"
    else if line.startsWith "N " then
      let ps := (line.drop 2).toString.splitOn "|"
      if ps.length == 3 then
        let num := parseList ps[0]!
        let ds := parseList ps[1]!
        let en := parseList ps[2]!
        let W := 2^64
        let n := ds.length
        let m1 := num.length - n
        let d := ds.getD (n-1) 0 * W + ds.getD (n-2) 0
        let v := KFull.recip2Code d
        let r := nloop W ds v (num.take m1).reverse (num.drop m1)
        nN := nN + 1
        if r.2 ++ r.1 != en then
          badN := badN + 1
          if badN < 4 then IO.println s!"MISMATCH N num={num} ds={ds} model={r.2 ++ r.1} impl={en}"
  IO.println s!"reciprocal cases={nR} mismatches={badR}; div_nxm_normalized cases={nN} mismatches={badN}"
#eval main
