import Kn.Loop
open C2 KStep KLoop

def lcg (s : Nat) : Nat := (s * 6364136223846793005 + 1442695040888963407) % 2^64

def genLimbs : Nat → Nat → Nat → List Nat × Nat
  | 0, s, _ => ([], s)
  | n+1, s, mode =>
    let s1 := lcg s
    let x := match (s1 / 2^60) % 4 * mode with
      | 0 => s1
      | 1 => 0
      | 2 => 2^64 - 1
      | _ => s1 % 4
    let (r, s2) := genLimbs n s1 mode
    (x :: r, s2)

def clz64 (x : Nat) : Nat := 64 - x.log2 - 1

def runCase (seed n m mode : Nat) : Bool × Nat :=
  let (ds0, s1) := genLimbs n seed mode
  let top := ds0.getD (n-1) 0
  let ds := if top = 0 then ds0.take (n-1) ++ [1 + (lcg s1) % 7] else ds0
  let (num, _) := genLimbs (n + m) (lcg s1) mode
  let W := 2^64
  let e1 := ds.getD (n-1) 0
  let sh := clz64 e1
  let T := 2^sh
  let U := 2^(64 - sh)
  let d := (e1 * W + ds.getD (n-2) 0) * T + ds.getD (n-3) 0 / U
  let v := recip2Spec W d
  let r := knuthDiv T U num ds d v
  let N := val W num
  let D := val W ds
  (val W r.1 == N / D && val W r.2 == N % D && r.1.length == m + 1 && r.2.length == n, sh)

def runAll (cnt : Nat) : Nat × Nat × Nat := Id.run do
  let mut bad := 0
  let mut sh0 := 0
  let mut s := 12345
  for i in [0:cnt] do
    s := lcg s
    let n := 3 + (s / 2^20) % 4
    let m := (s / 2^30) % 5
    let mode := (s / 2^40) % 2
    let (ok, sh) := runCase (s + i) n m mode
    if !ok then bad := bad + 1
    if sh == 0 then sh0 := sh0 + 1
  return (cnt, bad, sh0)

#eval runAll 3000
