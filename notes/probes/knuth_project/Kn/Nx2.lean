import Kn.Pre
open C2

/-! `div_nx2_normalized`: loop over the proved `div_3x2`, most significant limb first. -/
namespace Nx2

/-- big-endian Horner value with an incoming high part. -/
def horner (W : ℕ) (r : ℕ) (ms : List ℕ) : ℕ := ms.foldl (fun acc x => acc * W + x) r

theorem horner_lin (W r : ℕ) (ms : List ℕ) : horner W r ms = r * W ^ ms.length + horner W 0 ms := by
  induction ms generalizing r with
  | nil => simp [horner]
  | cons x ms ih =>
    have h1 : horner W r (x :: ms) = horner W (r * W + x) ms := rfl
    have h2 : horner W 0 (x :: ms) = horner W (0 * W + x) ms := rfl
    rw [h1, h2, ih (r * W + x), ih (0 * W + x), List.length_cons, pow_succ]; ring

/-- `for u in u.iter_mut().rev() { (q, r) = div_3x2(remainder, *u, d, v); *u = q; remainder = r }`. -/
def nx2 (W d v : ℕ) : List ℕ → ℕ → List ℕ × ℕ
  | [], r => ([], r)
  | u :: us, r =>
    let s := div3x2 W r u d v
    let t := nx2 W d v us s.2
    (s.1 :: t.1, t.2)

theorem nx2_spec (W d : ℕ) (hW : 2 ≤ W) (hd2 : W * W ≤ 2 * d) (hdW : d < W * W)
    (ms : List ℕ) (r : ℕ) (hms : ∀ x ∈ ms, x < W) (hr : r < d) :
    horner W r ms = horner W 0 (nx2 W d (recip2Spec W d) ms r).1 * d + (nx2 W d (recip2Spec W d) ms r).2
    ∧ (nx2 W d (recip2Spec W d) ms r).2 < d
    ∧ (nx2 W d (recip2Spec W d) ms r).1.length = ms.length
    ∧ ∀ x ∈ (nx2 W d (recip2Spec W d) ms r).1, x < W := by
  induction ms generalizing r with
  | nil => simp [nx2, horner, hr]
  | cons u ms ih =>
    have hu : u < W := hms u (by simp)
    have hms' : ∀ x ∈ ms, x < W := fun x hx => hms x (by simp [hx])
    have hs := div3x2_spec W r u d hW hd2 hdW hr hu
    simp only [nx2, hs]
    have hd0 : 0 < d := by
      rcases Nat.eq_zero_or_pos d with h | h
      · rw [h] at hd2; have : 0 < W * W := by positivity
        omega
      · exact h
    have hrem : (r * W + u) % d < d := Nat.mod_lt _ hd0
    have hq : (r * W + u) / d < W := by
      apply Nat.div_lt_of_lt_mul
      have : (r + 1) * W ≤ d * W := Nat.mul_le_mul_right _ hr
      nlinarith
    obtain ⟨i1, i2, i3, i4⟩ := ih ((r * W + u) % d) hms' hrem
    obtain ⟨t, ht⟩ : ∃ t, t = nx2 W d (recip2Spec W d) ms ((r * W + u) % d) := ⟨_, rfl⟩
    rw [← ht] at i1 i2 i3 i4 ⊢
    refine ⟨?_, i2, by simp [i3], ?_⟩
    · have h1 : horner W r (u :: ms) = horner W (r * W + u) ms := rfl
      have h2 : horner W 0 ((r * W + u) / d :: t.1) = horner W (0 * W + (r * W + u) / d) t.1 := rfl
      rw [h1, h2, horner_lin W (r * W + u), horner_lin W (0 * W + (r * W + u) / d), i3]
      have e := Nat.div_add_mod (r * W + u) d
      rw [horner_lin W ((r * W + u) % d)] at i1
      obtain ⟨P, hP⟩ : ∃ P, P = W ^ ms.length := ⟨_, rfl⟩
      rw [← hP] at i1 ⊢
      obtain ⟨Q, hQ⟩ : ∃ Q, Q = (r * W + u) / d := ⟨_, rfl⟩
      obtain ⟨R, hR⟩ : ∃ R, R = (r * W + u) % d := ⟨_, rfl⟩
      rw [← hQ, ← hR] at e
      rw [← hR] at i1
      rw [← hQ]
      rw [← e]
      nlinarith [i1]
    · intro x hx
      simp only [List.mem_cons] at hx
      rcases hx with rfl | hx
      · exact hq
      · exact i4 x hx

#print axioms nx2_spec
end Nx2
