import Kn.Pre
import Kn.Lead
import Kn.Loop
import Kn.Arr
import Kn.Norm
import Kn.Full
import Kn.NStep
import Kn.NLoop
