use ruint::algorithms::div::div_nxm;
fn lcg(s: u64) -> u64 { s.wrapping_mul(6364136223846793005).wrapping_add(1442695040888963407) }
fn limb(s: &mut u64, mode: u64) -> u64 {
    *s = lcg(*s);
    if mode == 0 { return *s; }
    match (*s >> 60) % 4 { 0 => *s, 1 => 0, 2 => u64::MAX, _ => *s % 4 }
}
fn main() {
    let mut s = 4242u64;
    for i in 0..3000u64 {
        s = lcg(s);
        let n = 3 + ((s >> 20) % 4) as usize;
        let m = ((s >> 30) % 5) as usize;
        let mode = (s >> 40) % 2;
        let mut ds: Vec<u64> = (0..n).map(|_| limb(&mut s, mode)).collect();
        if ds[n - 1] == 0 { ds[n - 1] = 1 + lcg(s) % 7; }
        if i % 5 == 0 { ds[n - 1] |= 1 << 63; }
        let mut num: Vec<u64> = (0..n + m).map(|_| limb(&mut s, mode)).collect();
        let p = |v: &Vec<u64>| v.iter().map(|x| x.to_string()).collect::<Vec<_>>().join(",");
        print!("{}|{}|", p(&num), p(&ds));
        div_nxm(&mut num, &mut ds);
        println!("{}|{}", p(&num), p(&ds));
    }
}
