import Mathlib.Tactic.Ring
import Mathlib.Tactic.Linarith
import Mathlib.Tactic.NormNum
import Mathlib.Tactic.Positivity
import Mathlib.Tactic.Push

/-- Knuth D digit estimate from the three leading limbs (3-by-2):
    `D = D2*M + dl`, `N = N3*M + nl`, `M = W^(n-2)`, normalised `W² ≤ 2·D2`, `N < D·W`.
    Then the true digit `q = N / D` and the estimate `q̂ = N3 / D2` satisfy `q ≤ q̂ ≤ q + 1`. -/
theorem knuth_digit_estimate (W M D2 dl N3 nl : ℕ) (hW : 2 ≤ W) (hM : 0 < M)
    (hdl : dl < M) (hnl : nl < M) (hnorm : W * W ≤ 2 * D2)
    (hlt : N3 * M + nl < (D2 * M + dl) * W) :
    (N3 * M + nl) / (D2 * M + dl) ≤ N3 / D2 ∧ N3 / D2 ≤ (N3 * M + nl) / (D2 * M + dl) + 1 := by
  set D := D2 * M + dl with hD
  set N := N3 * M + nl with hN
  have hD2 : 0 < D2 := by nlinarith
  have hD0 : 0 < D := by positivity
  set q := N / D with hq
  have hq1 : q * D ≤ N := Nat.div_mul_le_self N D
  have hq2 : N < (q + 1) * D := by
    have := Nat.lt_succ_iff.mpr (le_refl q)
    have h := Nat.div_add_mod N D
    have hm := Nat.mod_lt N hD0
    rw [← hq] at h
    nlinarith
  have hqW : q < W := by
    rw [hq]; exact Nat.div_lt_of_lt_mul hlt
  clear_value q D N
  constructor
  · -- q ≤ N3 / D2
    rw [Nat.le_div_iff_mul_le hD2]
    -- q*D2*M ≤ q*D ≤ N < (N3+1)*M
    have h1 : q * (D2 * M) ≤ q * D := Nat.mul_le_mul_left _ (by omega)
    have h2 : q * D2 * M < (N3 + 1) * M := by nlinarith
    have h3 : q * D2 < N3 + 1 := Nat.lt_of_mul_lt_mul_right h2
    omega
  · -- N3 / D2 ≤ q + 1
    by_contra hcon
    push Not at hcon
    have hqh : (q + 2) * D2 ≤ N3 :=
      (Nat.le_div_iff_mul_le hD2).mp (Nat.succ_le_of_lt hcon)
    -- N ≥ N3*M ≥ (q+2)*D2*M ; N < (q+1)*D < (q+1)*(D2+1)*M
    have h1 : (q + 2) * D2 * M ≤ N := by nlinarith
    have h2 : (q + 1) * D < (q + 1) * ((D2 + 1) * M) := by
      apply Nat.mul_lt_mul_of_pos_left _ (by omega)
      nlinarith
    have h3 : (q + 2) * D2 * M < (q + 1) * (D2 + 1) * M := by nlinarith
    have h4 : (q + 2) * D2 < (q + 1) * (D2 + 1) := Nat.lt_of_mul_lt_mul_right h3
    have h5 : D2 ≤ q := by nlinarith
    have h6 : W ≤ D2 := by nlinarith
    omega

#print axioms knuth_digit_estimate
