import Mathlib.Tactic.Ring
import Mathlib.Tactic.Linarith
import Mathlib.Tactic.NormNum
import Mathlib.Tactic.Positivity
import Mathlib.Tactic.Push

/-! Probe for C13: `overflowing_pow` (square-and-multiply with two overflow flags), value-level L2 model:
    the loop body uses the L1 value spec of `overflowing_mul` : `(a*b % m, decide (m ≤ a*b))`, `m = 2^BITS`. -/
namespace Pw

def omul (m a b : ℕ) : ℕ × Bool := (a * b % m, decide (m ≤ a * b))

/-- the loop of `overflowing_pow`, with fuel; state: base, exp, result, overflow, base_overflow -/
def loop (m : ℕ) : ℕ → ℕ → ℕ → ℕ → Bool → Bool → ℕ × Bool
  | 0, _, _, result, ov, _ => (result, ov)
  | fuel + 1, base, exp, result, ov, bov =>
      if exp = 0 then (result, ov) else
        let p : ℕ × Bool :=
          if exp % 2 = 1 then
            let r := omul m result base
            (r.1, ov || r.2 || bov)
          else (result, ov)
        let s := omul m base base
        loop m fuel s.1 (exp / 2) p.1 p.2 (bov || s.2)

def opow (m a e : ℕ) : ℕ × Bool := loop m (e + 1) (a % m) e (1 % m) false false

theorem flag_mul (m R A : ℕ) (hR : 1 ≤ R) (hA : 1 ≤ A) :
    (decide (m ≤ R) || decide (m ≤ R % m * (A % m)) || decide (m ≤ A)) = decide (m ≤ R * A) := by
  by_cases h1 : m ≤ R
  · have : m ≤ R * A := le_trans h1 (Nat.le_mul_of_pos_right _ hA)
    simp [h1, this]
  · by_cases h2 : m ≤ A
    · have : m ≤ R * A := le_trans h2 (Nat.le_mul_of_pos_left _ hR)
      simp [h2, this]
    · push Not at h1 h2
      rw [Nat.mod_eq_of_lt h1, Nat.mod_eq_of_lt h2]
      have e1 : decide (m ≤ R) = false := by simp [h1]
      have e2 : decide (m ≤ A) = false := by simp [h2]
      rw [e1, e2]; simp

theorem loop_spec (m : ℕ) (hm : 2 ≤ m) (fuel : ℕ) :
    ∀ (A e R : ℕ), e < fuel → 1 ≤ R → 1 ≤ A →
      loop m fuel (A % m) e (R % m) (decide (m ≤ R)) (decide (m ≤ A))
        = ((R * A ^ e) % m, decide (m ≤ R * A ^ e)) := by
  induction fuel with
  | zero => intro A e R h; omega
  | succ fuel ih =>
    intro A e R hfuel hR hA
    unfold loop
    by_cases he : e = 0
    · simp [he]
    · simp only [he, if_false]
      have he2 : e / 2 < fuel := by omega
      have hAA : 1 ≤ A * A := Nat.mul_pos hA hA
      have hsq : (A % m) * (A % m) % m = (A * A) % m := by rw [← Nat.mul_mod]
      have hbov : (decide (m ≤ A) || decide (m ≤ A % m * (A % m))) = decide (m ≤ A * A) := by
        have := flag_mul m A A hA hA
        by_cases h2 : m ≤ A
        · have : m ≤ A * A := le_trans h2 (Nat.le_mul_of_pos_left _ hA)
          simp [h2, this]
        · push Not at h2
          rw [Nat.mod_eq_of_lt h2]; simp [h2]
      have hdec := Nat.div_add_mod e 2
      by_cases hodd : e % 2 = 1
      · simp only [hodd, if_true, omul]
        have hRA : (R % m) * (A % m) % m = (R * A) % m := by rw [← Nat.mul_mod]
        rw [hRA, hsq, flag_mul m R A hR hA, hbov]
        have := ih (A * A) (e / 2) (R * A) he2 (Nat.mul_pos hR hA) hAA
        rw [this]
        have hpow : R * A * (A * A) ^ (e / 2) = R * A ^ e := by
          have : e = 2 * (e / 2) + 1 := by omega
          conv_rhs => rw [this, pow_succ, pow_mul]
          ring
        rw [hpow]
      · have heven : e % 2 = 0 := by omega
        simp only [hodd, if_false, omul]
        rw [hsq, hbov]
        have := ih (A * A) (e / 2) R he2 hR hAA
        rw [this]
        have hpow : R * (A * A) ^ (e / 2) = R * A ^ e := by
          have : e = 2 * (e / 2) := by omega
          conv_rhs => rw [this, pow_mul]
          ring
        rw [hpow]

/-- base 0 -/
theorem loop_zero (m : ℕ) (hm : 2 ≤ m) (fuel : ℕ) :
    ∀ (e R : ℕ), e < fuel → R < m →
      loop m fuel 0 e R false false = (if e = 0 then R else 0, false) := by
  induction fuel with
  | zero => intro e R h; omega
  | succ fuel ih =>
    intro e R hfuel hR
    unfold loop
    by_cases he : e = 0
    · simp [he]
    · simp only [he, if_false]
      have he2 : e / 2 < fuel := by omega
      have hmpos : 0 < m := by omega
      by_cases hodd : e % 2 = 1
      · simp only [hodd, if_true, omul, Nat.mul_zero, Nat.zero_mod]
        have hnm : ¬ (m ≤ 0) := by omega
        simp only [hnm, decide_false, Bool.or_false]
        rw [ih (e / 2) 0 he2 hmpos]
        by_cases h0 : e / 2 = 0 <;> simp [h0]
      · simp only [hodd, if_false, omul, Nat.mul_zero, Nat.zero_mod]
        have hnm : ¬ (m ≤ 0) := by omega
        simp only [hnm, decide_false, Bool.or_false]
        rw [ih (e / 2) R he2 hR]
        have : e / 2 ≠ 0 := by omega
        simp [this]

/-- `overflowing_pow`: value `a^e mod 2^BITS` and flag `a^e ≥ 2^BITS` (including `0^0 = 1`). -/
theorem opow_spec (m a e : ℕ) (hm : 2 ≤ m) (ha : a < m) :
    opow m a e = (a ^ e % m, decide (m ≤ a ^ e)) := by
  unfold opow
  rcases Nat.eq_zero_or_pos a with h0 | hpos
  · subst h0
    rw [Nat.zero_mod, Nat.mod_eq_of_lt (by omega : 1 < m), loop_zero m hm (e + 1) e 1 (by omega) (by omega)]
    by_cases he : e = 0
    · subst he
      have h1 : (1:ℕ) % m = 1 := Nat.mod_eq_of_lt (by omega)
      have h2 : ¬ (m ≤ 1) := by omega
      simp [h1, h2]
    · have h0 : (0:ℕ) ^ e = 0 := Nat.zero_pow (by omega)
      have h2 : ¬ (m ≤ 0) := by omega
      simp [he, h0, h2]
  · have := loop_spec m hm (e + 1) a e 1 (by omega) (by omega) hpos
    have h1 : decide (m ≤ 1) = false := by simp; omega
    have h2 : decide (m ≤ a) = false := by simp; omega
    rw [h1, h2] at this
    rw [this, Nat.one_mul]

#print axioms opow_spec
end Pw
