import Mathlib.Tactic.Ring
import Mathlib.Tactic.Linarith
import Mathlib.Tactic.NormNum
import Mathlib.Tactic.Positivity
import Mathlib.Tactic.Push

/-! Probe for C01: `overflowing_add` on canonical limb lists with top-limb mask, all widths. -/
namespace C

def W : ℕ := 2 ^ 64
theorem W_pos : 0 < W := by unfold W; positivity

def val : List ℕ → ℕ
  | [] => 0
  | x :: xs => x + W * val xs
@[simp] theorem val_nil : val [] = 0 := rfl
@[simp] theorem val_cons (x xs) : val (x :: xs) = x + W * val xs := rfl

def AllLt (l : List ℕ) : Prop := ∀ x ∈ l, x < W
def nlimbs (bits : ℕ) : ℕ := (bits + 63) / 64
def Canon (bits : ℕ) (l : List ℕ) : Prop := l.length = nlimbs bits ∧ AllLt l ∧ val l < 2 ^ bits

theorem val_lt_pow (l : List ℕ) (h : AllLt l) : val l < W ^ l.length := by
  induction l with
  | nil => simp
  | cons x xs ih =>
    have hx : x < W := h x (by simp)
    have hxs := ih (fun y hy => h y (by simp [hy]))
    simp only [val_cons, List.length_cons, pow_succ]
    nlinarith [Nat.zero_le (val xs)]

/-- carry chain of `carrying_add` -/
def addChain : List ℕ → List ℕ → ℕ → List ℕ × ℕ
  | a :: as, b :: bs, c =>
      let s := a + b + c
      let r := addChain as bs (s / W)
      (s % W :: r.1, r.2)
  | _, _, c => ([], c)

theorem addChain_spec (as bs : List ℕ) (c : ℕ) (h : as.length = bs.length) :
    val (addChain as bs c).1 + W ^ as.length * (addChain as bs c).2 = val as + val bs + c
    ∧ (addChain as bs c).1.length = as.length ∧ AllLt (addChain as bs c).1 := by
  induction as generalizing bs c with
  | nil => cases bs <;> simp_all [addChain, AllLt]
  | cons a as ih =>
    cases bs with
    | nil => simp at h
    | cons b bs =>
      simp only [List.length_cons, Nat.add_right_cancel_iff] at h
      obtain ⟨ih1, ih2, ih3⟩ := ih bs ((a + b + c) / W) h
      simp only [addChain, val_cons, List.length_cons, pow_succ]
      refine ⟨?_, by simp [ih2], ?_⟩
      · have e := Nat.div_add_mod (a + b + c) W
        set r := addChain as bs ((a + b + c) / W)
        nlinarith [ih1, e]
      · intro x hx
        simp only [List.mem_cons] at hx
        rcases hx with rfl | hx
        · exact Nat.mod_lt _ W_pos
        · exact ih3 x hx

/-- reduce a full-limb value modulo `2^bits` : what `masked()` does to the value. -/
def maskVal (bits v : ℕ) : ℕ := v % 2 ^ bits

/-- Value-level statement of `overflowing_add`: from the chain result `(r, c)` with
    `val r + W^n * c = a + b`, `n = nlimbs bits`, the masked value and the flag
    `c ≠ 0 ∨ top > mask` (equivalently `val r ≥ 2^bits`) are the spec. -/
theorem oadd_value (bits n a b r c : ℕ) (hn : 2 ^ bits ∣ W ^ n) (hr : r < W ^ n)
    (hsum : r + W ^ n * c = a + b) (ha : a < 2 ^ bits) (hb : b < 2 ^ bits) :
    r % 2 ^ bits = (a + b) % 2 ^ bits ∧ ((c ≠ 0 ∨ 2 ^ bits ≤ r) ↔ 2 ^ bits ≤ a + b) := by
  obtain ⟨k, hk⟩ := hn
  have hpos : 0 < 2 ^ bits := by positivity
  constructor
  · rw [← hsum, hk, Nat.mul_assoc, Nat.add_mul_mod_self_left]
  · constructor
    · rintro (hc | hr2)
      · have : 1 ≤ c := Nat.one_le_iff_ne_zero.mpr hc
        have hle : 2 ^ bits ≤ W ^ n := Nat.le_of_dvd (by have := W_pos; positivity) ⟨k, hk⟩
        nlinarith
      · omega
    · intro h
      by_cases hc : c = 0
      · right; subst hc; simp at hsum; omega
      · left; exact hc

theorem pow_dvd_W (bits : ℕ) : 2 ^ bits ∣ W ^ nlimbs bits := by
  unfold W nlimbs
  rw [← pow_mul]
  exact pow_dvd_pow 2 (by omega)

end C
#print axioms C.addChain_spec
#print axioms C.oadd_value
#print axioms C.pow_dvd_W
