import Mathlib.Tactic.Ring
import Mathlib.Tactic.Linarith
import Mathlib.Tactic.NormNum
import Mathlib.Tactic.Positivity
import Mathlib.Tactic.Push
import Mathlib.Data.Int.ModEq
import Mathlib.Tactic.LinearCombination

/-! C12 probe, `gcd_extended` (same technique as the `inv_mod` probe)
    original header of the shared definitions: `inv_mod`: the cofactor `t0` is tracked modulo `2^BITS` with an `even` flag saying which of
    `t0`, `t1` is "negative". At value level (signed integers, abstract Lehmer-matrix oracle):
    signs alternate as the flag says, magnitudes satisfy `|t0|·b + |t1|·a = modulus` and `|t0| ≤ |t1|`,
    `a ≡ t0·num`, `b ≡ t1·num (mod modulus)`; at exit with `a = 1` the returned value is the canonical inverse. -/
namespace GE

abbrev Mat := ℕ × ℕ × ℕ × ℕ × Bool
def ident : Mat := (1, 0, 0, 1, true)
def sgn (b : Bool) : ℤ := if b then 1 else -1

/-- `Matrix::apply` on integers (the code works mod `2^BITS`). -/
def applyZ (m : Mat) (x y : ℤ) : ℤ × ℤ :=
  if m.2.2.2.2 then ((m.1 : ℤ) * x - m.2.1 * y, (m.2.2.2.1 : ℤ) * y - m.2.2.1 * x)
  else ((m.2.1 : ℤ) * y - m.1 * x, (m.2.2.1 : ℤ) * x - m.2.2.2.1 * y)

structure St where
  (a b s0 s1 t0 t1 : ℤ)
  (even : Bool)

def step (mat : ℤ → ℤ → Mat) (s : St) : St :=
  let m := mat s.a s.b
  if m = ident then
    let q := s.a / s.b
    { a := s.b, b := s.a - q * s.b, s0 := s.s1, s1 := s.s0 - q * s.s1,
      t0 := s.t1, t1 := s.t0 - q * s.t1, even := !s.even }
  else
    { a := (applyZ m s.a s.b).1, b := (applyZ m s.a s.b).2,
      s0 := (applyZ m s.s0 s.s1).1, s1 := (applyZ m s.s0 s.s1).2,
      t0 := (applyZ m s.t0 s.t1).1, t1 := (applyZ m s.t0 s.t1).2, even := xor s.even (!m.2.2.2.2) }

def loop (mat : ℤ → ℤ → Mat) : ℕ → St → St
  | 0, s => s
  | f + 1, s => if s.b = 0 then s else loop mat f (step mat s)

def Good (mat : ℤ → ℤ → Mat) : Prop :=
  ∀ a b : ℤ, 0 < b → b ≤ a → mat a b = ident ∨
    (((mat a b).1 : ℤ) * (mat a b).2.2.2.1 - (mat a b).2.1 * (mat a b).2.2.1 = sgn (mat a b).2.2.2.2
      ∧ (mat a b).1 ≤ (mat a b).2.2.1 ∧ (mat a b).2.1 ≤ (mat a b).2.2.2.1
      ∧ 0 ≤ (applyZ (mat a b) a b).2 ∧ (applyZ (mat a b) a b).2 < (applyZ (mat a b) a b).1
      ∧ (applyZ (mat a b) a b).2 < b)

/-- invariant; `S0 S1 T0 T1` are the magnitudes of the four cofactors. -/
structure Inv (A B : ℤ) (s : St) (S0 S1 T0 T1 : ℤ) : Prop where
  nS0 : 0 ≤ S0
  nS1 : 0 ≤ S1
  nT0 : 0 ≤ T0
  nT1 : 0 ≤ T1
  es0 : s.s0 = sgn s.even * S0
  es1 : s.s1 = - sgn s.even * S1
  et0 : s.t0 = - sgn s.even * T0
  et1 : s.t1 = sgn s.even * T1
  la : s.a = s.s0 * A + s.t0 * B
  lb : s.b = s.s1 * A + s.t1 * B
  linT : T0 * s.b + T1 * s.a = A
  linS : S0 * s.b + S1 * s.a = B
  monoT : T0 ≤ T1
  monoS : S0 ≤ S1 ∨ (S0 = 1 ∧ S1 = 0)
  ob : 0 ≤ s.b
  oab : s.b ≤ s.a

theorem sgn_not (b : Bool) : sgn (!b) = - sgn b := by cases b <;> simp [sgn]

set_option maxHeartbeats 2000000 in
theorem inv_step (mat : ℤ → ℤ → Mat) (hg : Good mat) (A B : ℤ) (s : St) (S0 S1 T0 T1 : ℤ)
    (h : Inv A B s S0 S1 T0 T1) (hb : s.b ≠ 0) :
    ∃ S0' S1' T0' T1', Inv A B (step mat s) S0' S1' T0' T1' ∧ (step mat s).b < s.b := by
  obtain ⟨nS0, nS1, nT0, nT1, es0, es1, et0, et1, la, lb, linT, linS, monoT, monoS, ob, oab⟩ := h
  have hbpos : 0 < s.b := lt_of_le_of_ne ob (Ne.symm hb)
  unfold step
  simp only []
  rcases hg s.a s.b hbpos oab with hid | ⟨hdet, hr0, hr1, hd0, hdc, hdb⟩
  · rw [if_pos hid]
    obtain ⟨q, hq⟩ : ∃ q, q = s.a / s.b := ⟨_, rfl⟩
    rw [← hq]
    have hq1 : 1 ≤ q := by rw [hq]; exact Int.le_ediv_of_mul_le hbpos (by linarith)
    have hrem : s.a - q * s.b = s.a % s.b := by rw [Int.emod_def, hq]; ring
    have hr0' : 0 ≤ s.a - q * s.b := by rw [hrem]; exact Int.emod_nonneg _ hb
    have hr1' : s.a - q * s.b < s.b := by rw [hrem]; exact Int.emod_lt_of_pos _ hbpos
    refine ⟨S1, S0 + q * S1, T1, T0 + q * T1,
      ⟨nS1, by nlinarith, nT1, by nlinarith, ?_, ?_, ?_, ?_, lb, ?_, ?_, ?_, by nlinarith, ?_, hr0', le_of_lt hr1'⟩, hr1'⟩
    · simp only [sgn_not]; rw [es1]; try ring
    · simp only [sgn_not]; rw [es0, es1]; try ring
    · simp only [sgn_not]; rw [et1]; try ring
    · simp only [sgn_not]; rw [et0, et1]; try ring
    · simp only []; rw [la, lb]; ring
    · simp only []; linear_combination linT
    · simp only []; linear_combination linS
    · left
      rcases monoS with h | ⟨h1, h2⟩
      · nlinarith
      · rw [h1, h2]; nlinarith
  · have hne : ¬ mat s.a s.b = ident := by
      intro hid
      rw [hid] at hdc hd0 hdb
      (simp [applyZ, ident] at hdc hd0 hdb) <;> linarith
    rw [if_neg hne]
    obtain ⟨m0, m1, m2, m3, ev, hm⟩ : ∃ m0 m1 m2 m3 ev, mat s.a s.b = (m0, m1, m2, m3, ev) :=
      ⟨_, _, _, _, _, rfl⟩
    rw [hm] at hdet hr0 hr1 hd0 hdc hdb ⊢
    simp only at hdet hr0 hr1 hd0 hdc hdb ⊢
    have hr0z : (m0 : ℤ) ≤ m2 := by exact_mod_cast hr0
    have hr1z : (m1 : ℤ) ≤ m3 := by exact_mod_cast hr1
    have p0 : (0 : ℤ) ≤ m0 := by positivity
    have p1 : (0 : ℤ) ≤ m1 := by positivity
    have p2 : (0 : ℤ) ≤ m2 := by positivity
    have p3 : (0 : ℤ) ≤ m3 := by positivity
    refine ⟨m0 * S0 + m1 * S1, m2 * S0 + m3 * S1, m0 * T0 + m1 * T1, m2 * T0 + m3 * T1,
      ⟨by positivity, by positivity, by positivity, by positivity, ?_, ?_, ?_, ?_, ?_, ?_, ?_, ?_, by nlinarith, ?_, hd0, le_of_lt hdc⟩, hdb⟩
    · cases ev <;> cases hE : s.even <;> simp only [applyZ, hE, sgn, Bool.false_eq_true, if_false, if_true, Bool.not_false, Bool.not_true, Bool.xor_false, Bool.xor_true, Bool.false_xor, Bool.true_xor] at es0 es1 ⊢ <;> rw [es0, es1] <;> ring
    · cases ev <;> cases hE : s.even <;> simp only [applyZ, hE, sgn, Bool.false_eq_true, if_false, if_true, Bool.not_false, Bool.not_true, Bool.xor_false, Bool.xor_true, Bool.false_xor, Bool.true_xor] at es0 es1 ⊢ <;> rw [es0, es1] <;> ring
    · cases ev <;> cases hE : s.even <;> simp only [applyZ, hE, sgn, Bool.false_eq_true, if_false, if_true, Bool.not_false, Bool.not_true, Bool.xor_false, Bool.xor_true, Bool.false_xor, Bool.true_xor] at et0 et1 ⊢ <;> rw [et0, et1] <;> ring
    · cases ev <;> cases hE : s.even <;> simp only [applyZ, hE, sgn, Bool.false_eq_true, if_false, if_true, Bool.not_false, Bool.not_true, Bool.xor_false, Bool.xor_true, Bool.false_xor, Bool.true_xor] at et0 et1 ⊢ <;> rw [et0, et1] <;> ring
    · cases ev <;> simp only [applyZ, Bool.false_eq_true, if_false, if_true] <;> rw [la, lb] <;> ring
    · cases ev <;> simp only [applyZ, Bool.false_eq_true, if_false, if_true] <;> rw [la, lb] <;> ring
    · cases ev
      · simp only [applyZ, Bool.false_eq_true, if_false, sgn] at hdet ⊢
        linear_combination (-(T0 * s.b + T1 * s.a)) * hdet + linT
      · simp only [applyZ, if_true, sgn] at hdet ⊢
        linear_combination (T0 * s.b + T1 * s.a) * hdet + linT
    · cases ev
      · simp only [applyZ, Bool.false_eq_true, if_false, sgn] at hdet ⊢
        linear_combination (-(S0 * s.b + S1 * s.a)) * hdet + linS
      · simp only [applyZ, if_true, sgn] at hdet ⊢
        linear_combination (S0 * s.b + S1 * s.a) * hdet + linS
    · left
      rcases monoS with h | ⟨h1, h2⟩
      · nlinarith
      · rw [h1, h2]; nlinarith

theorem inv_loop (mat : ℤ → ℤ → Mat) (hg : Good mat) (A B : ℤ) (f : ℕ) (s : St) (S0 S1 T0 T1 : ℤ)
    (h : Inv A B s S0 S1 T0 T1) (hf : s.b < f) :
    ∃ S0' S1' T0' T1', Inv A B (loop mat f s) S0' S1' T0' T1' ∧ (loop mat f s).b = 0 := by
  induction f generalizing s S0 S1 T0 T1 with
  | zero => have := h.ob; simp at hf; omega
  | succ f ih =>
    simp only [loop]
    split
    · next hb => exact ⟨S0, S1, T0, T1, h, hb⟩
    · next hb =>
      obtain ⟨S0', S1', T0', T1', hI, hlt⟩ := inv_step mat hg A B s S0 S1 T0 T1 h hb
      exact ih _ S0' S1' T0' T1' hI (by push_cast at hf; omega)

/-- exit: the returned magnitudes and flag satisfy the Bezout identity, `a` divides both inputs,
    and the magnitudes are bounded by the inputs (so they fit the type). -/
theorem final (A B : ℤ) (hA : 0 < A) (hB : 0 ≤ B) (s : St) (S0 S1 T0 T1 : ℤ)
    (h : Inv A B s S0 S1 T0 T1) (hb : s.b = 0) :
    (if s.even then s.a = S0 * A - T0 * B else s.a = T0 * B - S0 * A)
    ∧ s.a ∣ A ∧ s.a ∣ B ∧ 0 ≤ S0 ∧ 0 ≤ T0 ∧ T0 ≤ A ∧ (S0 ≤ B ∨ S0 = 1) := by
  obtain ⟨nS0, nS1, nT0, nT1, es0, es1, et0, et1, la, lb, linT, linS, monoT, monoS, ob, oab⟩ := h
  rw [hb] at linT linS
  have hTa : T1 * s.a = A := by linarith
  have hSa : S1 * s.a = B := by linarith
  have hapos : 0 < s.a := by
    rcases lt_or_eq_of_le (hb ▸ oab : (0 : ℤ) ≤ s.a) with h | h
    · exact h
    · rw [← h] at hTa; linarith
  refine ⟨?_, ⟨T1, by linarith⟩, ⟨S1, by linarith⟩, nS0, nT0, ?_, ?_⟩
  · cases hE : s.even
    · simp only [Bool.false_eq_true, if_false]
      rw [la, es0, et0, hE]; simp only [sgn, Bool.false_eq_true, if_false]; ring
    · simp only [if_true]
      rw [la, es0, et0, hE]; simp only [sgn, if_true]; ring
  · have : T1 ≤ T1 * s.a := by nlinarith
    linarith
  · rcases monoS with h | ⟨h1, _⟩
    · left
      have : S1 ≤ S1 * s.a := by nlinarith
      linarith
    · right; exact h1

theorem init (A B : ℤ) (hB : 0 ≤ B) (hBA : B ≤ A) :
    Inv A B { a := A, b := B, s0 := 1, s1 := 0, t0 := 0, t1 := 1, even := true } 1 0 0 1 :=
  { nS0 := by norm_num, nS1 := le_refl _, nT0 := le_refl _, nT1 := by norm_num
    es0 := by simp [sgn], es1 := by simp [sgn], et0 := by simp [sgn], et1 := by simp [sgn]
    la := by simp, lb := by simp
    linT := by simp, linS := by simp
    monoT := by norm_num, monoS := Or.inr ⟨rfl, rfl⟩
    ob := hB, oab := hBA }

#print axioms inv_step
#print axioms final
#print axioms init
end GE
