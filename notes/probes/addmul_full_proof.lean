import Mathlib.Tactic.Ring
import Mathlib.Tactic.Linarith
import Mathlib.Tactic.NormNum
import Mathlib.Tactic.Positivity
import Mathlib.Tactic.Push

/-! Probe for C02/C15: the row loop of `addmul` (after trimming): window advances one limb per row,
    overflow bookkeeping, short-window arm.  Generic base `W`. -/
namespace Am
variable (W : ℕ)

def val : List ℕ → ℕ
  | [] => 0
  | x :: xs => x + W * val xs
@[simp] theorem val_nil : val W [] = 0 := rfl
@[simp] theorem val_cons (x xs) : val W (x :: xs) = x + W * val W xs := rfl
def AllLt (l : List ℕ) : Prop := ∀ x ∈ l, x < W

/-- `addmul_nx1` over `min |lhs| |a|` limbs (the Rust short-window arm passes `a[..lhs.len()]`);
    returns updated prefix ++ untouched rest, and the carry. -/
def addmulNx1 : List ℕ → List ℕ → ℕ → ℕ → List ℕ × ℕ
  | l :: ls, a :: as, b, c =>
      let t := a * b + c + l
      let r := addmulNx1 ls as b (t / W)
      (t % W :: r.1, r.2)
  | ls, _, _, c => (ls, c)

/-- `add_nx1`: propagate a carry word into the rest; returns final carry -/
def addNx1 : List ℕ → ℕ → List ℕ × ℕ
  | [], c => ([], c)
  | l :: ls, c =>
      let t := l + c
      let r := addNx1 ls (t / W)
      (t % W :: r.1, r.2)

theorem addNx1_spec (ls : List ℕ) (c : ℕ) :
    val W (addNx1 W ls c).1 + W ^ ls.length * (addNx1 W ls c).2 = val W ls + c
    ∧ (addNx1 W ls c).1.length = ls.length := by
  induction ls generalizing c with
  | nil => simp [addNx1]
  | cons l ls ih =>
    obtain ⟨i1, i2⟩ := ih ((l + c) / W)
    simp only [addNx1, val_cons, List.length_cons, pow_succ]
    refine ⟨?_, by simp [i2]⟩
    have e := Nat.div_add_mod (l + c) W
    set r := addNx1 W ls ((l + c) / W)
    nlinarith [i1, e]

/-- one row on the whole window when it is long enough: `window += a*b` with carry propagation. -/
def row (win a : List ℕ) (b : ℕ) : List ℕ × ℕ :=
  let r1 := addmulNx1 W (win.take a.length) a b 0
  let r2 := addNx1 W (win.drop a.length) r1.2
  (r1.1 ++ r2.1, r2.2)

theorem addmulNx1_spec (ls as : List ℕ) (b c : ℕ) (h : ls.length = as.length) :
    val W (addmulNx1 W ls as b c).1 + W ^ ls.length * (addmulNx1 W ls as b c).2
      = val W ls + val W as * b + c ∧ (addmulNx1 W ls as b c).1.length = ls.length := by
  induction ls generalizing as c with
  | nil => cases as <;> simp_all [addmulNx1]
  | cons l ls ih =>
    cases as with
    | nil => simp at h
    | cons a as =>
      simp only [List.length_cons, Nat.add_right_cancel_iff] at h
      obtain ⟨i1, i2⟩ := ih as ((a * b + c + l) / W) h
      simp only [addmulNx1, val_cons, List.length_cons, pow_succ]
      refine ⟨?_, by simp [i2]⟩
      have e := Nat.div_add_mod (a * b + c + l) W
      set r := addmulNx1 W ls as b ((a * b + c + l) / W)
      nlinarith [i1, e]

theorem val_append (l1 l2 : List ℕ) : val W (l1 ++ l2) = val W l1 + W ^ l1.length * val W l2 := by
  induction l1 with
  | nil => simp
  | cons x xs ih => simp only [List.cons_append, val_cons, ih, List.length_cons, pow_succ]; ring

/-- a full row: `val win' + W^|win| * carry = val win + val a * b`. -/
theorem row_spec (win a : List ℕ) (b : ℕ) (h : a.length ≤ win.length) :
    val W (row W win a b).1 + W ^ win.length * (row W win a b).2 = val W win + val W a * b
    ∧ (row W win a b).1.length = win.length := by
  unfold row
  simp only []
  have ht : (win.take a.length).length = a.length := by rw [List.length_take]; omega
  obtain ⟨s1, s2⟩ := addmulNx1_spec W (win.take a.length) a b 0 ht
  obtain ⟨t1, t2⟩ := addNx1_spec W (win.drop a.length) (addmulNx1 W (win.take a.length) a b 0).2
  have hsplit : val W win = val W (win.take a.length) + W ^ a.length * val W (win.drop a.length) := by
    conv_lhs => rw [← List.take_append_drop a.length win]
    rw [val_append, ht]
  have hlen : win.length = a.length + (win.drop a.length).length := by rw [List.length_drop]; omega
  constructor
  · rw [val_append, s2, ht, hsplit]
    set r1 := addmulNx1 W (win.take a.length) a b 0
    set r2 := addNx1 W (win.drop a.length) r1.2
    rw [ht] at s1
    have hp : W ^ win.length = W ^ a.length * W ^ (win.drop a.length).length := by
      rw [← pow_add, ← hlen]
    rw [hp]
    have t1' : W ^ a.length * (val W r2.1 + W ^ (win.drop a.length).length * r2.2)
        = W ^ a.length * (val W (win.drop a.length) + r1.2) := by rw [t1]
    have e1 : W ^ a.length * (val W r2.1 + W ^ (win.drop a.length).length * r2.2)
        = W ^ a.length * val W r2.1 + W ^ a.length * W ^ (win.drop a.length).length * r2.2 := by ring
    have e2 : W ^ a.length * (val W (win.drop a.length) + r1.2)
        = W ^ a.length * val W (win.drop a.length) + W ^ a.length * r1.2 := by ring
    omega
  · rw [List.length_append, s2, t2, ht]; omega


theorem val_lt_pow (l : List ℕ) (h : AllLt W l) : val W l < W ^ l.length := by
  induction l with
  | nil => simp
  | cons x xs ih =>
    have hx : x < W := h x (by simp)
    have hxs := ih (fun y hy => h y (by simp [hy]))
    simp only [val_cons, List.length_cons, pow_succ]
    nlinarith [Nat.zero_le (val W xs)]

/-- the row loop of `addmul` (operands already trimmed and ordered); `ov` is the running flag. -/
def rows : List ℕ → List ℕ → List ℕ → Bool → List ℕ × Bool
  | win, _, [], ov => (win, ov)
  | win, a, b :: bs, ov =>
      if a.length ≤ win.length then
        let r := row W win a b
        let ov' := ov || decide (r.2 ≠ 0)
        match r.1 with
        | [] => ([], ov')
        | w :: ws => let rest := rows ws a bs ov'; (w :: rest.1, rest.2)
      else
        match win with
        | [] => ([], true)
        | _ :: _ =>
          let r := addmulNx1 W win a b 0
          match r.1 with
          | [] => ([], true)
          | w :: ws => let rest := rows ws a bs true; (w :: rest.1, rest.2)

/-- truncated `addmul_nx1` (window shorter than `a`): exact accounting of what is dropped. -/
theorem addmulNx1_trunc (ls as : List ℕ) (b c : ℕ) (h : ls.length ≤ as.length) :
    val W (addmulNx1 W ls as b c).1 + W ^ ls.length * ((addmulNx1 W ls as b c).2 + val W (as.drop ls.length) * b)
      = val W ls + val W as * b + c ∧ (addmulNx1 W ls as b c).1.length = ls.length := by
  induction ls generalizing as c with
  | nil => simp [addmulNx1]; ring
  | cons l ls ih =>
    cases as with
    | nil => simp at h
    | cons a as =>
      simp only [List.length_cons, Nat.add_le_add_iff_right] at h
      obtain ⟨i1, i2⟩ := ih as ((a * b + c + l) / W) h
      simp only [addmulNx1, val_cons, List.length_cons, pow_succ, List.drop_succ_cons]
      refine ⟨?_, by simp [i2]⟩
      have e := Nat.div_add_mod (a * b + c + l) W
      set r := addmulNx1 W ls as b ((a * b + c + l) / W)
      set dr := val W (as.drop ls.length)
      nlinarith [i1, e]


theorem addNx1_lt (hW : 0 < W) (ls : List ℕ) (c : ℕ) : AllLt W (addNx1 W ls c).1 := by
  induction ls generalizing c with
  | nil => intro x hx; simp [addNx1] at hx
  | cons l ls ih =>
    intro x hx
    simp only [addNx1, List.mem_cons] at hx
    rcases hx with rfl | hx
    · exact Nat.mod_lt _ hW
    · exact ih _ x hx

theorem addmulNx1_lt (hW : 0 < W) (ls as : List ℕ) (b c : ℕ) (h : AllLt W ls) : AllLt W (addmulNx1 W ls as b c).1 := by
  induction ls generalizing as c with
  | nil => cases as <;> (intro x hx; simp [addmulNx1] at hx)
  | cons l ls ih =>
    cases as with
    | nil => simpa [addmulNx1] using h
    | cons a as =>
      intro x hx
      simp only [addmulNx1, List.mem_cons] at hx
      rcases hx with rfl | hx
      · exact Nat.mod_lt _ hW
      · exact ih as _ (fun y hy => h y (by simp [hy])) x hx

theorem row_lt (hW : 0 < W) (win a : List ℕ) (b : ℕ) (h : AllLt W win) : AllLt W (row W win a b).1 := by
  unfold row
  intro x hx
  simp only [List.mem_append] at hx
  rcases hx with hx | hx
  · exact addmulNx1_lt W hW _ _ _ _ (fun y hy => h y (List.mem_of_mem_take hy)) x hx
  · exact addNx1_lt W hW _ _ x hx

/-- top limb non-zero -/
def TopNZ (l : List ℕ) : Prop := l.getLast? ≠ some 0

theorem topnz_val (hW : 0 < W) (l : List ℕ) (hne : l ≠ []) (ht : TopNZ l) : W ^ (l.length - 1) ≤ val W l := by
  induction l with
  | nil => exact absurd rfl hne
  | cons x xs ih =>
    by_cases hxs : xs = []
    · subst hxs
      simp only [TopNZ, List.getLast?_singleton, ne_eq, Option.some.injEq] at ht
      simp; omega
    · have ht' : TopNZ xs := by
        unfold TopNZ at ht ⊢
        obtain ⟨y, ys, rfl⟩ := List.exists_cons_of_ne_nil hxs
        rwa [List.getLast?_cons_cons] at ht
      have := ih hxs ht'
      simp only [val_cons, List.length_cons, Nat.add_sub_cancel]
      have hl : xs.length = (xs.length - 1) + 1 := by
        have : 0 < xs.length := List.length_pos_of_ne_nil hxs
        omega
      rw [hl, pow_succ]
      nlinarith

theorem topnz_tail (b : ℕ) (bs : List ℕ) (hbs : bs ≠ []) (h : TopNZ (b :: bs)) : TopNZ bs := by
  unfold TopNZ at h ⊢
  obtain ⟨y, ys, rfl⟩ := List.exists_cons_of_ne_nil hbs
  rwa [List.getLast?_cons_cons] at h

/-- Exact accounting for the row loop: total = stored + W^|win| * k, flag = `ov ∨ k ≠ 0`. -/
theorem rows_spec (hW : 2 ≤ W) (a : List ℕ) (ha : a ≠ []) (hatop : TopNZ a) :
    ∀ (bs win : List ℕ) (ov : Bool), AllLt W win → (bs = [] ∨ TopNZ bs) →
      ∃ k : ℕ, val W (rows W win a bs ov).1 + W ^ win.length * k = val W win + val W a * val W bs
        ∧ (rows W win a bs ov).1.length = win.length ∧ AllLt W (rows W win a bs ov).1
        ∧ (rows W win a bs ov).2 = (ov || decide (k ≠ 0)) := by
  have hW0 : 0 < W := by omega
  have haval := topnz_val W hW0 a ha hatop
  have halen : 0 < a.length := List.length_pos_of_ne_nil ha
  intro bs
  induction bs with
  | nil => intro win ov hwin _; exact ⟨0, by simp [rows], by simp [rows], by simpa [rows] using hwin, by simp [rows]⟩
  | cons b bs ih =>
    intro win ov hwin hbtop
    have hbtop0 : TopNZ (b :: bs) := by
      rcases hbtop with h | h
      · simp at h
      · exact h
    have hbtop' : bs = [] ∨ TopNZ bs := by
      by_cases hbs : bs = []
      · left; exact hbs
      · right; exact topnz_tail b bs hbs hbtop0
    have hbval : 1 ≤ val W (b :: bs) := by
      have := topnz_val W hW0 (b :: bs) (by simp) hbtop0
      have : 1 ≤ W ^ ((b :: bs).length - 1) := Nat.one_le_pow _ _ hW0
      omega
    unfold rows
    by_cases hlen : a.length ≤ win.length
    · -- full row
      simp only [hlen, if_true]
      obtain ⟨r1, r2⟩ := row_spec W win a b hlen
      have rlt := row_lt W hW0 win a b hwin
      set r := row W win a b with hr
      have hwlen : 0 < win.length := by omega
      match hm : r.1 with
      | [] => rw [hm] at r2; simp at r2; omega
      | w :: ws =>
        simp only []
        rw [hm] at r1 r2 rlt
        have hws : AllLt W ws := fun y hy => rlt y (by simp [hy])
        obtain ⟨k, k1, k2, k3, k4⟩ := ih ws (ov || decide (r.2 ≠ 0)) hws hbtop'
        simp only [List.length_cons] at r2
        have hwl : win.length = ws.length + 1 := by omega
        refine ⟨r.2 + k, ?_, by rw [List.length_cons, k2, hwl], ?_, ?_⟩
        · simp only [val_cons] at r1 ⊢
          rw [hwl, pow_succ] at r1 ⊢
          have : W * (val W (rows W ws a bs (ov || decide (r.2 ≠ 0))).1 + W ^ ws.length * k)
              = W * (val W ws + val W a * val W bs) := by rw [k1]
          nlinarith [r1, this]
        · intro y hy
          simp only [List.mem_cons] at hy
          rcases hy with rfl | hy
          · exact rlt y (by simp)
          · exact k3 y hy
        · rw [k4]
          by_cases h1 : r.2 = 0 <;> by_cases h2 : k = 0 <;> simp [h1, h2]
    · -- short window
      simp only [hlen, if_false]
      push Not at hlen
      match hwin_m : win with
      | [] =>
        -- empty window: everything is dropped; k = total ≥ 1
        refine ⟨val W a * val W (b :: bs), by simp, by simp, by intro y hy; simp at hy, ?_⟩
        have : val W a * val W (b :: bs) ≠ 0 := by
          have : 1 ≤ val W a := le_trans (Nat.one_le_pow _ _ hW0) haval
          have : 1 ≤ val W a * val W (b :: bs) := Nat.mul_pos this hbval
          omega
        have hd : decide (val W a * val W (b :: bs) ≠ 0) = true := decide_eq_true this
        rw [hd, Bool.or_true]
      | l :: ls =>
        simp only []
        have hle : (l :: ls).length ≤ a.length := by omega
        obtain ⟨t1, t2⟩ := addmulNx1_trunc W (l :: ls) a b 0 hle
        have tlt := addmulNx1_lt W hW0 (l :: ls) a b 0 (hwin_m ▸ hwin)
        set r := addmulNx1 W (l :: ls) a b 0 with hr
        match hm : r.1 with
        | [] => rw [hm] at t2; simp at t2
        | w :: ws =>
          simp only []
          rw [hm] at t1 t2 tlt
          have hws : AllLt W ws := fun y hy => tlt y (by simp [hy])
          obtain ⟨k, k1, k2, k3, k4⟩ := ih ws true hws hbtop'
          simp only [List.length_cons] at t2
          have hwl : ls.length = ws.length := by omega
          set dr := val W (a.drop (l :: ls).length) with hdr
          have heq : val W (w :: (rows W ws a bs true).1) + W ^ (l :: ls).length * (r.2 + dr * b + k)
              = val W (l :: ls) + val W a * val W (b :: bs) := by
            simp only [val_cons, List.length_cons] at t1 ⊢
            rw [hwl, pow_succ] at t1 ⊢
            have : W * (val W (rows W ws a bs true).1 + W ^ ws.length * k)
                = W * (val W ws + val W a * val W bs) := by rw [k1]
            nlinarith [t1, this]
          have hall : AllLt W (w :: (rows W ws a bs true).1) := by
            intro y hy
            simp only [List.mem_cons] at hy
            rcases hy with rfl | hy
            · exact tlt y (by simp)
            · exact k3 y hy
          have hlen2 : (w :: (rows W ws a bs true).1).length = (l :: ls).length := by
            rw [List.length_cons, List.length_cons, k2, hwl]
          refine ⟨r.2 + dr * b + k, heq, hlen2, hall, ?_⟩
          rw [k4]
          have hstored := val_lt_pow W _ hall
          rw [hlen2] at hstored
          have hK : r.2 + dr * b + k ≠ 0 := by
            intro h0
            rw [h0, Nat.mul_zero, Nat.add_zero] at heq
            -- total ≥ val a ≥ W^(|a|-1) ≥ W^|win|
            have h1 : W ^ (l :: ls).length ≤ W ^ (a.length - 1) := Nat.pow_le_pow_right hW0 (by omega)
            have h2 : val W a ≤ val W a * val W (b :: bs) := Nat.le_mul_of_pos_right _ hbval
            omega
          have hd : decide (r.2 + dr * b + k ≠ 0) = true := decide_eq_true hK
          rw [hd]; simp


/-- strip leading zero limbs of `a`, advancing the window; returns (skipped prefix, window, a') -/
def stripFront : List ℕ → List ℕ → List ℕ × List ℕ × List ℕ
  | win, 0 :: as =>
      match win with
      | [] => let r := stripFront [] as; (r.1, r.2.1, r.2.2)
      | l :: ls => let r := stripFront ls as; (l :: r.1, r.2.1, r.2.2)
  | win, as => ([], win, as)

theorem stripFront_spec (win a : List ℕ) :
    let r := stripFront win a
    win = r.1 ++ r.2.1 ∧ (∃ k, val W a = W ^ k * val W r.2.2 ∧ (r.1.length = k ∨ (r.2.1 = [] ∧ r.1.length ≤ k)))
    ∧ (r.2.2 = [] ∨ r.2.2.head? ≠ some 0) := by
  induction a generalizing win with
  | nil => simp [stripFront]
  | cons x xs ih =>
    by_cases hx : x = 0
    · subst hx
      cases win with
      | nil =>
        obtain ⟨i1, ⟨k, i2, i3⟩, i4⟩ := ih []
        simp only [stripFront]
        refine ⟨by simpa using i1, ⟨k + 1, by simp [i2, pow_succ]; ring, ?_⟩, i4⟩
        right
        have h1 : (stripFront [] xs).1 = [] ∧ (stripFront [] xs).2.1 = [] := by
          have := i1; simp at this; exact ⟨this.1, this.2⟩
        exact ⟨h1.2, by rw [h1.1]; simp⟩
      | cons l ls =>
        obtain ⟨i1, ⟨k, i2, i3⟩, i4⟩ := ih ls
        simp only [stripFront]
        refine ⟨by simp [← i1], ⟨k + 1, by simp [i2, pow_succ]; ring, ?_⟩, i4⟩
        rcases i3 with h | ⟨h1, h2⟩
        · left; simp [h]
        · right; exact ⟨h1, by simp; omega⟩
    · have : stripFront win (x :: xs) = ([], win, x :: xs) := by
        cases x with
        | zero => exact absurd rfl hx
        | succ n => rfl
      rw [this]
      exact ⟨by simp, ⟨0, by simp, Or.inl rfl⟩, Or.inr (by simp; exact hx)⟩


/-- strip trailing (most significant) zero limbs -/
def stripBack : List ℕ → List ℕ
  | [] => []
  | x :: xs =>
      match stripBack xs with
      | [] => if x = 0 then [] else [x]
      | y :: ys => x :: y :: ys

theorem stripBack_spec (l : List ℕ) :
    val W (stripBack l) = val W l ∧ (stripBack l = [] ∨ TopNZ (stripBack l)) := by
  induction l with
  | nil => simp [stripBack]
  | cons x xs ih =>
    obtain ⟨i1, i2⟩ := ih
    simp only [stripBack]
    match hm : stripBack xs with
    | [] =>
      rw [hm] at i1
      simp only [val_nil] at i1
      by_cases hx : x = 0
      · simp [hx, ← i1]
      · simp only [hx, if_false]
        refine ⟨by simp [← i1], Or.inr ?_⟩
        simp [TopNZ, hx]
    | y :: ys =>
      rw [hm] at i1 i2
      refine ⟨by simp only [val_cons] at i1 ⊢; rw [i1], Or.inr ?_⟩
      rcases i2 with h | h
      · simp at h
      · unfold TopNZ at h ⊢; rwa [List.getLast?_cons_cons]

/-- the complete `addmul` -/
def addmul (lhs a b : List ℕ) : List ℕ × Bool :=
  let s1 := stripFront lhs a
  let a' := stripBack s1.2.2
  let s2 := stripFront s1.2.1 b
  let b' := stripBack s2.2.2
  if a' = [] ∨ b' = [] then (lhs, false)
  else if s2.2.1 = [] then (lhs, true)
  else
    let r := if b'.length > a'.length then rows W s2.2.1 b' a' false else rows W s2.2.1 a' b' false
    (s1.1 ++ s2.1 ++ r.1, r.2)

theorem tot_aux (p P vwin vr Q k xy : ℕ) (h : P * (vr + Q * k) = P * (vwin + xy)) :
    p + P * vwin + P * xy = (p + P * vr) + P * Q * k := by
  have h' : P * vr + P * Q * k = P * vwin + P * xy := by
    have := h; rw [Nat.mul_add, Nat.mul_add, ← Nat.mul_assoc] at this; exact this
  omega

theorem fit_aux (p P vr Q : ℕ) (hp : p < P) (hr : vr + 1 ≤ Q) : p + P * vr < P * Q := by
  have h1 := Nat.mul_le_mul_left P hr
  rw [Nat.mul_add, Nat.mul_one] at h1
  omega

set_option maxHeartbeats 4000000 in
/-- `addmul`: `lhs += a*b` modulo `W^|lhs|`, flag exactly when the true sum does not fit. -/
theorem addmul_spec (hW : 2 ≤ W) (lhs a b : List ℕ) (hl : AllLt W lhs) :
    val W (addmul W lhs a b).1 = (val W lhs + val W a * val W b) % W ^ lhs.length
    ∧ (addmul W lhs a b).1.length = lhs.length
    ∧ ((addmul W lhs a b).2 = true ↔ W ^ lhs.length ≤ val W lhs + val W a * val W b) := by
  have hW0 : 0 < W := by omega
  have hlhs := val_lt_pow W lhs hl
  unfold addmul
  simp only []
  obtain ⟨p1, ⟨k1, q1, r1⟩, _⟩ := stripFront_spec W lhs a
  obtain ⟨p2, ⟨k2, q2, r2⟩, _⟩ := stripFront_spec W (stripFront lhs a).2.1 b
  obtain ⟨va, ta⟩ := stripBack_spec W (stripFront lhs a).2.2
  obtain ⟨vb, tb⟩ := stripBack_spec W (stripFront (stripFront lhs a).2.1 b).2.2
  set s1 := stripFront lhs a
  set s2 := stripFront s1.2.1 b
  set a' := stripBack s1.2.2
  set b' := stripBack s2.2.2
  have hva : val W a = W ^ k1 * val W a' := by rw [q1, va]
  have hvb : val W b = W ^ k2 * val W b' := by rw [q2, vb]
  by_cases hz : a' = [] ∨ b' = []
  · -- product is zero
    simp only [hz, if_true]
    have hprod : val W a * val W b = 0 := by
      rcases hz with h | h
      · rw [hva, h]; simp
      · rw [hvb, h]; simp
    rw [hprod, Nat.add_zero, Nat.mod_eq_of_lt hlhs]
    refine ⟨rfl, trivial, ?_⟩
    constructor
    · intro h; simp at h
    · intro h; omega
  · simp only [hz, if_false]
    push Not at hz
    obtain ⟨hane, hbne⟩ := hz
    have hta : TopNZ a' := by rcases ta with h | h; exact absurd h hane; exact h
    have htb : TopNZ b' := by rcases tb with h | h; exact absurd h hbne; exact h
    have hav := topnz_val W hW0 a' hane hta
    have hbv := topnz_val W hW0 b' hbne htb
    have hap : 1 ≤ val W a' := le_trans (Nat.one_le_pow _ _ hW0) hav
    have hbp : 1 ≤ val W b' := le_trans (Nat.one_le_pow _ _ hW0) hbv
    -- lhs = s1.1 ++ s2.1 ++ window
    have hsplit : lhs = s1.1 ++ s2.1 ++ s2.2.1 := by rw [List.append_assoc, ← p2, ← p1]
    have hlen : lhs.length = s1.1.length + s2.1.length + s2.2.1.length := by
      conv_lhs => rw [hsplit]
      simp [List.length_append]; omega
    have hprod : val W a * val W b = W ^ (k1 + k2) * (val W a' * val W b') := by
      rw [hva, hvb, pow_add]; ring
    by_cases hwe : s2.2.1 = []
    · -- window exhausted: product ≥ W^(k1+k2) ≥ W^|lhs|
      simp only [hwe, if_true]
      have hk : lhs.length ≤ k1 + k2 := by
        rw [hwe] at hlen
        simp at hlen
        have h1 : s1.1.length ≤ k1 := by rcases r1 with h | ⟨_, h⟩ <;> omega
        have h2 : s2.1.length ≤ k2 := by rcases r2 with h | ⟨_, h⟩ <;> omega
        omega
      have hbig : W ^ lhs.length ≤ val W a * val W b := by
        rw [hprod]
        have : W ^ lhs.length ≤ W ^ (k1 + k2) := Nat.pow_le_pow_right hW0 hk
        have : 1 ≤ val W a' * val W b' := Nat.mul_pos hap hbp
        nlinarith
      have hmod : (val W lhs + val W a * val W b) % W ^ lhs.length = val W lhs := by
        rw [hprod]
        have : W ^ (k1 + k2) = W ^ lhs.length * W ^ (k1 + k2 - lhs.length) := by
          rw [← pow_add]; congr 1; omega
        rw [this, Nat.mul_assoc, Nat.add_mul_mod_self_left, Nat.mod_eq_of_lt hlhs]
      rw [hmod]
      refine ⟨rfl, trivial, ?_⟩
      constructor
      · intro _; omega
      · intro _; trivial
    · simp only [hwe, if_false]
      -- main case: rows on the window
      have hwin : AllLt W s2.2.1 := by
        intro y hy; apply hl y; rw [hsplit]; simp [hy]
      have hk1 : s1.1.length = k1 := by
        rcases r1 with h | ⟨h, _⟩
        · exact h
        · exfalso
          -- window of s1 empty ⇒ s2 window empty
          have : s2.2.1 = [] := by
            have := p2; rw [h] at this
            simp at this; exact this.2
          exact hwe this
      have hk2 : s2.1.length = k2 := by
        rcases r2 with h | ⟨h, _⟩
        · exact h
        · exact absurd h hwe
      set pre := s1.1 ++ s2.1 with hpre
      have hprelen : pre.length = k1 + k2 := by rw [hpre, List.length_append, hk1, hk2]
      have hvl : val W lhs = val W pre + W ^ (k1 + k2) * val W s2.2.1 := by
        conv_lhs => rw [hsplit]
        rw [val_append, hprelen]
      have hprelt : val W pre < W ^ (k1 + k2) := by
        have := val_lt_pow W pre (fun y hy => hl y (by rw [hsplit]; simp [hpre] at hy ⊢; tauto))
        rwa [hprelen] at this
      have hLw : lhs.length = (k1 + k2) + s2.2.1.length := by rw [hlen, hk1, hk2]
      have hWL : W ^ lhs.length = W ^ (k1 + k2) * W ^ s2.2.1.length := by rw [hLw, pow_add]
      -- apply rows_spec in the right orientation
      have main : ∀ (x y : List ℕ), x ≠ [] → TopNZ x → y ≠ [] → TopNZ y → val W x * val W y = val W a' * val W b' →
          val W (pre ++ (rows W s2.2.1 x y false).1) = (val W lhs + val W a * val W b) % W ^ lhs.length
          ∧ (pre ++ (rows W s2.2.1 x y false).1).length = lhs.length
          ∧ ((rows W s2.2.1 x y false).2 = true ↔ W ^ lhs.length ≤ val W lhs + val W a * val W b) := by
        intro x y hx htx hy hty hxy
        obtain ⟨k, e1, e2, e3, e4⟩ := rows_spec W hW x hx htx y s2.2.1 false hwin (Or.inr hty)
        set rr := rows W s2.2.1 x y false
        have hstored := val_lt_pow W rr.1 e3
        rw [e2] at hstored
        have htot : val W lhs + val W a * val W b
            = (val W pre + W ^ (k1 + k2) * val W rr.1) + W ^ lhs.length * k := by
          rw [hvl, hprod, ← hxy, hWL]
          have h0 : W ^ (k1 + k2) * (val W rr.1 + W ^ s2.2.1.length * k)
              = W ^ (k1 + k2) * (val W s2.2.1 + val W x * val W y) := by rw [e1]
          exact tot_aux _ _ _ _ _ _ _ h0
        have hfit : val W pre + W ^ (k1 + k2) * val W rr.1 < W ^ lhs.length := by
          rw [hWL]
          exact fit_aux _ _ _ _ hprelt hstored
        refine ⟨?_, by rw [List.length_append, e2, hprelen, hLw], ?_⟩
        · rw [val_append, hprelen, htot, Nat.add_mul_mod_self_left, Nat.mod_eq_of_lt hfit]
        · rw [e4, htot]
          simp only [Bool.false_or, decide_eq_true_eq]
          constructor
          · intro hk
            have : 1 ≤ k := Nat.one_le_iff_ne_zero.mpr hk
            nlinarith [Nat.zero_le (val W pre + W ^ (k1 + k2) * val W rr.1)]
          · intro hle hk0
            rw [hk0] at hle; omega
      by_cases hsw : b'.length > a'.length
      · simp only [hsw, if_true]
        have := main b' a' hbne htb hane hta (Nat.mul_comm _ _)
        simpa [hpre] using this
      · simp only [hsw, if_false]
        have := main a' b' hane hta hbne htb rfl
        simpa [hpre] using this

#print axioms addmul_spec
end Am
