use ruint::Uint;
use std::panic::{catch_unwind, AssertUnwindSafe};
use std::sync::Mutex;
use std::collections::BTreeMap;
static LOCS: Mutex<BTreeMap<String, (u64, String)>> = Mutex::new(BTreeMap::new());
thread_local!{ static CUR: std::cell::RefCell<String> = std::cell::RefCell::new(String::new()); }
struct Rng(u64);
impl Rng { fn next(&mut self) -> u64 { self.0 ^= self.0 << 13; self.0 ^= self.0 >> 7; self.0 ^= self.0 << 17; self.0 } fn below(&mut self, n: u64) -> u64 { self.next() % n } }
fn mutate(r: &mut Rng, base: &[u8]) -> Vec<u8> {
    let mut v = base.to_vec();
    match r.below(8) {
        0 => {}
        1 => { if !v.is_empty() { let i = r.below(v.len() as u64) as usize; v[i] = r.next() as u8; } }
        2 => { if !v.is_empty() { let i = r.below(v.len() as u64) as usize; v[i] = [0,0xff,0x80,0x7f,1][r.below(5) as usize]; } }
        3 => { let n = r.below(v.len() as u64 + 1) as usize; v.truncate(n); }
        4 => { let n = r.below(4) + 1; for _ in 0..n { v.push(r.next() as u8); } }
        5 => { let i = r.below(v.len() as u64 + 1) as usize; v.insert(i, [0,0xff,0x80][r.below(3) as usize]); }
        6 => { for b in v.iter_mut() { if r.below(4)==0 { *b = 0xff; } } }
        _ => { let n = r.below(12) as usize; v = (0..n).map(|_| r.next() as u8).collect(); }
    }
    v
}
fn fuzz<const B: usize, const L: usize>(r: &mut Rng, iters: usize) {
    use parity_scale_codec::{Encode, Decode};
    use postgres_types::{FromSql, ToSql, Type};
    type U<const B: usize, const L: usize> = Uint<B, L>;
    let mut go = |name: &str, input: &[u8], f: &mut dyn FnMut(&[u8])| {
        CUR.with(|c| *c.borrow_mut() = format!("{name}<{B}> {:02x?}", input));
        let _ = catch_unwind(AssertUnwindSafe(|| f(input)));
    };
    for _ in 0..iters {
        // random valid value
        let mut limbs = [0u64; L];
        for l in limbs.iter_mut() { *l = match r.below(4) { 0 => 0, 1 => u64::MAX, 2 => r.next() >> r.below(64), _ => r.next() }; }
        if L > 0 { limbs[L-1] &= U::<B,L>::MASK; }
        let v = U::<B,L>::from_limbs(limbs);
        // alloy-rlp
        let mut enc = vec![]; alloy_rlp::Encodable::encode(&v, &mut enc); let m = mutate(r, &enc);
        go("alloy_rlp", &m, &mut |b| { let mut s = b; let _ = <U<B,L> as alloy_rlp::Decodable>::decode(&mut s); });
        go("fastrlp04", &m, &mut |b| { let mut s = b; let _ = <U::<B,L> as fastrlp_04::Decodable>::decode(&mut s); });
        go("rlp", &m, &mut |b| { let _ = rlp::decode::<U<B,L>>(b); });
        let m = mutate(r, &Encode::encode(&v));
        go("scale", &m, &mut |b| { let mut s = b; let _ = <U<B,L> as Decode>::decode(&mut s); });
        if B < 536 {
            let e = catch_unwind(AssertUnwindSafe(|| ruint::support::scale::CompactRefUint(&v).encode()));
            let base = match e { Ok(e) => e, Err(_) => { vec![0xff; 5] } };
            let m = mutate(r, &base);
            go("scale_compact", &m, &mut |b| { let mut s = b; let _ = ruint::support::scale::CompactUint::<B,L>::decode(&mut s); });
        }
        let m = mutate(r, &v.to_le_bytes_vec());
        go("ssz", &m, &mut |b| { let _ = <U<B,L> as ssz::Decode>::from_ssz_bytes(b); });
        go("borsh", &m, &mut |b| { let _ = borsh::from_slice::<U<B,L>>(b); });
        let der_enc = der::Encode::to_der(&v).unwrap(); let m = mutate(r, &der_enc);
        go("der", &m, &mut |b| { let _ = <U<B,L> as der::Decode>::from_der(b); });
        let m = mutate(r, &bincode::serialize(&v).unwrap());
        go("bincode", &m, &mut |b| { let _ = bincode::deserialize::<U<B,L>>(b); });
        let m = mutate(r, serde_json::to_string(&v).unwrap().as_bytes());
        go("json", &m, &mut |b| { let _ = serde_json::from_slice::<U<B,L>>(b); });
        for ty in [Type::BOOL, Type::INT2, Type::INT4, Type::OID, Type::INT8, Type::FLOAT4, Type::FLOAT8, Type::MONEY, Type::BYTEA, Type::BIT, Type::VARBIT, Type::TEXT, Type::JSON, Type::JSONB, Type::NUMERIC] {
            let mut out = bytes::BytesMut::new();
            let ok = catch_unwind(AssertUnwindSafe(|| v.to_sql(&ty, &mut out).is_ok())).unwrap_or(false);
            let base = if ok { out.to_vec() } else { vec![0,0,0,1,0x80] };
            let m = mutate(r, &base);
            go(&format!("pg_{}", ty.name()), &m, &mut |b| { let _ = U::<B,L>::from_sql(&ty, b); });
        }
        let m = mutate(r, format!("{v:#x}").as_bytes());
        go("from_str", &m, &mut |b| { if let Ok(s) = std::str::from_utf8(b) { let _ = s.parse::<U<B,L>>(); } });
        go("be_slice", &m, &mut |b| { let _ = U::<B,L>::try_from_be_slice(b); });
    }
}
fn main() {
    std::panic::set_hook(Box::new(|info| {
        let loc = info.location().map(|l| format!("{}:{}", l.file().rsplit('/').take(2).collect::<Vec<_>>().into_iter().rev().collect::<Vec<_>>().join("/"), l.line())).unwrap_or_default();
        let cur = CUR.with(|c| c.borrow().clone());
        let mut m = LOCS.lock().unwrap();
        let key = format!("{} @ {}", cur.split(' ').next().unwrap_or("").split('<').next().unwrap_or(""), loc);
        let e = m.entry(key).or_insert((0, cur.chars().take(110).collect()));
        e.0 += 1;
    }));
    let mut r = Rng(0x9E3779B97F4A7C15);
    fuzz::<0,0>(&mut r, 300); fuzz::<1,1>(&mut r, 2000); fuzz::<7,1>(&mut r, 3000); fuzz::<12,1>(&mut r, 3000);
    fuzz::<60,1>(&mut r, 3000); fuzz::<64,1>(&mut r, 3000); fuzz::<100,2>(&mut r, 3000); fuzz::<250,4>(&mut r, 3000); fuzz::<256,4>(&mut r, 3000); fuzz::<512,8>(&mut r, 2000);
    for (k, (n, ex)) in LOCS.lock().unwrap().iter() { println!("{n:6} {k}\n        e.g. {ex}"); }
}
