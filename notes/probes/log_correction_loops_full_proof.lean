import Mathlib.Tactic.Ring
import Mathlib.Tactic.Linarith
import Mathlib.Tactic.NormNum
import Mathlib.Tactic.Positivity
import Mathlib.Tactic.Push

/-! C13 probe, `log`: the float estimate is a parameter; the correction loops (down with the
    "overflow ⇒ decrement once and stop" arm, then up) return `r` with `base^r ≤ x < base^(r+1)` provided
    the estimate is at most one above the true logarithm *or* `base^est` does not overflow the type. -/
namespace Lg

/-- `checked_pow` on values, `M = 2^BITS`. -/
def cpow (M base r : ℕ) : Option ℕ := if base ^ r < M then some (base ^ r) else none

/-- the first loop. -/
def down (M base x : ℕ) : ℕ → ℕ → ℕ
  | 0, r => r
  | f + 1, r =>
    match cpow M base r with
    | some v => if v > x then down M base x f (r - 1) else r
    | none => r - 1

/-- the second loop. -/
def up (M base x : ℕ) : ℕ → ℕ → ℕ
  | 0, r => r
  | f + 1, r =>
    match cpow M base (r + 1) with
    | some v => if v ≤ x then up M base x f (r + 1) else r
    | none => r

theorem down_spec (M base x L : ℕ) (hb : 2 ≤ base) (hx1 : 1 ≤ x) (hxM : x < M) (hL : base ^ L ≤ x)
    (f r : ℕ) (hf : r < f) (hest : r ≤ L + 1 ∨ base ^ r < M) :
    base ^ (down M base x f r) ≤ x := by
  induction f generalizing r with
  | zero => omega
  | succ f ih =>
    simp only [down, cpow]
    split
    · next v hv =>
      split at hv
      · next hlt =>
        simp only [Option.some.injEq] at hv
        subst hv
        split
        · next hgt =>
          have hr : r ≠ 0 := by
            intro h0; rw [h0] at hgt; simp at hgt; omega
          apply ih (r - 1) (by omega)
          right
          have : base ^ (r - 1) ≤ base ^ r := Nat.pow_le_pow_right (by omega) (by omega)
          omega
        · next hle => omega
      · simp at hv
    · next hv =>
      split at hv
      · simp at hv
      · next hge =>
        rcases hest with h | h
        · calc base ^ (r - 1) ≤ base ^ L := Nat.pow_le_pow_right (by omega) (by omega)
            _ ≤ x := hL
        · omega

theorem up_spec (M base x : ℕ) (hb : 2 ≤ base) (hxM : x < M) (f r : ℕ) (hr : base ^ r ≤ x)
    (hf : x < base ^ (r + f)) :
    base ^ (up M base x f r) ≤ x ∧ x < base ^ (up M base x f r + 1) := by
  induction f generalizing r with
  | zero => simp only [up]; simp at hf; omega
  | succ f ih =>
    simp only [up, cpow]
    split
    · next v hv =>
      split at hv
      · next hlt =>
        simp only [Option.some.injEq] at hv
        subst hv
        split
        · next hle => exact ih (r + 1) hle (by rw [show r + 1 + f = r + (f + 1) by ring]; exact hf)
        · next hgt => exact ⟨hr, by omega⟩
      · simp at hv
    · next hv =>
      split at hv
      · simp at hv
      · next hge => exact ⟨hr, by omega⟩

/-- both loops. `f1 > est`, and `f2` large enough (`x < base^(r+f2)`, e.g. `f2 = x` or `BITS`). -/
theorem log_spec (M base x L est f1 f2 : ℕ) (hb : 2 ≤ base) (hx1 : 1 ≤ x) (hxM : x < M)
    (hL : base ^ L ≤ x) (hf1 : est < f1) (hest : est ≤ L + 1 ∨ base ^ est < M)
    (hf2 : ∀ r, x < base ^ (r + f2)) :
    let r := up M base x f2 (down M base x f1 est)
    base ^ r ≤ x ∧ x < base ^ (r + 1) := by
  intro r
  have h1 := down_spec M base x L hb hx1 hxM hL f1 est hf1 hest
  exact up_spec M base x hb hxM f2 _ h1 (hf2 _)

/-- the hypothesis on the estimate cannot be dropped: with `est = L + 2` and `base^est ≥ M` the code
    stops one too high (model-level witness; `base = 3`, `x = 3`, `M = 8`, `est = 3`). -/
example : up 8 3 3 8 (down 8 3 3 8 3) = 2 := by decide

#print axioms log_spec
end Lg
