import Mathlib.Tactic.Ring
import Mathlib.Tactic.Linarith
import Mathlib.Tactic.NormNum
import Mathlib.Tactic.Positivity
import Mathlib.Tactic.Push

/-! C14 probe for the un-normalised `div_nx1` / `div_nx2` (shift on the fly, `W = T·U`, `T = 2^shift`):
    the initial remainder `last >> (64 - shift)` is the top word of `N·T`, and each fused digit
    `(upper << shift) | (lower >> (64 - shift))` is a word (no overlap between the two halves). -/
namespace L1

/-- top word of the shifted number: `⌊(y·W^k + b)·T / W^(k+1)⌋ = ⌊y / U⌋` for `b < W^k`. -/
theorem top_word (W T U k y b : ℕ) (hW : W = T * U) (hT : 0 < T) (hU : 0 < U) (hb : b < W ^ k) :
    (y * W ^ k + b) * T / (W ^ k * W) = y / U := by
  have hP : 0 < W ^ k := by rw [hW]; positivity
  rw [← Nat.div_div_eq_div_mul]
  have e : (y * W ^ k + b) * T = b * T + W ^ k * (y * T) := by ring
  rw [e, Nat.add_mul_div_left _ _ hP]
  have hc : b * T / W ^ k < T := by
    apply Nat.div_lt_of_lt_mul
    exact Nat.mul_lt_mul_of_pos_right hb hT
  obtain ⟨c, hcdef⟩ : ∃ c, c = b * T / W ^ k := ⟨_, rfl⟩
  rw [← hcdef] at hc ⊢
  rw [hW, ← Nat.div_div_eq_div_mul]
  have : (c + y * T) / T = y := by
    rw [Nat.add_mul_div_right _ _ hT, Nat.div_eq_of_lt hc, Nat.zero_add]
  rw [this]

/-- the fused digit is a word: `(x·T) mod W` is a multiple of `T` below `W`, `y / U < T`. -/
theorem fused_digit (W T U x y : ℕ) (hW : W = T * U) (hT : 0 < T) (hU : 0 < U) (hy : y < W) :
    (x * T) % W = (x % U) * T ∧ (x * T) % W + y / U < W := by
  have h1 : (x * T) % W = (x % U) * T := by
    rw [hW, Nat.mul_comm x T, Nat.mul_mod_mul_left, Nat.mul_comm]
  refine ⟨h1, ?_⟩
  rw [h1]
  have h2 : x % U < U := Nat.mod_lt _ hU
  have h3 : y / U < T := by
    apply Nat.div_lt_of_lt_mul; rw [Nat.mul_comm, ← hW]; exact hy
  have h4 : (x % U + 1) * T ≤ U * T := Nat.mul_le_mul_right _ h2
  rw [hW, Nat.mul_comm T U]
  nlinarith

/-- un-normalising the remainder: `N·T = Q·(d·T) + r` ⇒ `r = (N mod d)·T`, so `r / T = N mod d` and `Q = N / d`. -/
theorem unshift (N d T Q r : ℕ) (hT : 0 < T) (hd : 0 < d) (h : N * T = Q * (d * T) + r) (hr : r < d * T) :
    Q = N / d ∧ r / T = N % d := by
  have hQ : Q = N * T / (d * T) := by
    rw [h, Nat.mul_comm Q (d * T), Nat.mul_add_div (by positivity), Nat.div_eq_of_lt hr, Nat.add_zero]
  have hQ' : Q = N / d := by rw [hQ, Nat.mul_div_mul_right _ _ hT]
  refine ⟨hQ', ?_⟩
  have e := Nat.div_add_mod N d
  have : r = (N % d) * T := by
    have h2 : N * T = (d * (N / d) + N % d) * T := by rw [e]
    rw [← hQ'] at h2
    have h3 : (d * Q + N % d) * T = Q * (d * T) + (N % d) * T := by ring
    omega
  rw [this, Nat.mul_div_cancel _ hT]

#print axioms top_word
#print axioms fused_digit
#print axioms unshift
end L1
