import random, subprocess, sys
random.seed(int(sys.argv[1]) if len(sys.argv)>1 else 1)
N=int(sys.argv[2]) if len(sys.argv)>2 else 150
WIDTHS=[0,1,7,8,12,60,63,64,65,100,128,160,250,256,512,535]
def val(bits):
    if bits==0: return 0
    M=(1<<bits)-1; c=random.random()
    if c<0.1: return random.choice([0,1,2&M,M,M-1 if M>0 else 0,127&M,128&M,255&M,256&M])
    if c<0.3:
        k=random.randrange(bits); return ((1<<k)+random.choice([-1,0,1]))&M
    if c<0.55: return random.getrandbits(random.randrange(1,bits+1))
    if c<0.7:
        limbs=(bits+63)//64; v=0
        for i in range(limbs): v|=random.choice([0,0xffffffffffffffff,random.getrandbits(64),1,1<<63])<<(64*i)
        return v&M
    return random.getrandbits(bits)
hx=lambda v: format(v,'x')
def hb(b): return b.hex() if b else '-'
def be(v,n=None):
    n=(v.bit_length()+7)//8 if n is None else n
    return v.to_bytes(n,'big')
def rlp_enc(v):
    b=be(v)
    if len(b)==1 and b[0]<0x80: return b
    if len(b)<=55: return bytes([0x80+len(b)])+b
    l=be(len(b)); return bytes([0xb7+len(l)])+l+b
def scale_compact(v):
    if v<1<<6: return bytes([v<<2])
    if v<1<<14: return ((v<<2)|1).to_bytes(2,'little')
    if v<1<<30: return ((v<<2)|2).to_bytes(4,'little')
    n=(v.bit_length()+7)//8; return bytes([((n-4)<<2)|3])+v.to_bytes(n,'little')
def der_enc(v):
    b=be(v)
    if not b or b[0]>=0x80: b=b'\x00'+b
    L=len(b)
    if L<128: hdr=bytes([L])
    else:
        lb=be(L); hdr=bytes([0x80|len(lb)])+lb
    return b'\x02'+hdr+b, L
def tu(v,bits,signed_src_bits=None):
    M=(1<<bits)-1
    if v<0: return f"neg {hx((v % (1<<signed_src_bits)) & M)}"
    if v>M: return f"big {hx(v&M)}"
    return f"ok {hx(v)}"
def fu(a,tbits,signed):
    cap=tbits-1 if signed else tbits
    mx=(1<<cap)-1
    w=a&((1<<tbits)-1)
    if signed and w>>(tbits-1): w-=1<<tbits
    if a>mx: return f"ovf {w} {mx}"
    return f"ok {a}"
cases=[]
def add(l,e): cases.append((l,e))
for bits in WIDTHS:
    M=(1<<bits)-1; BY=(bits+7)//8; L=(bits+63)//64
    for _ in range(N):
        a=val(bits); b=val(bits)
        for src in [random.choice([0,1,255,256,(1<<63),(1<<64)-1,M&((1<<64)-1),(M+1)&((1<<64)-1),random.getrandbits(random.randrange(1,65))])]:
            add(f"fromu64 {bits} {src}", tu(src,bits))
        src=random.choice([0,(1<<64)-1,1<<64,(1<<64)+5,(3<<64)+5,(7<<64)|5,(1<<127),(1<<128)-1,M&((1<<128)-1),(M+1)&((1<<128)-1),random.getrandbits(random.randrange(1,129))])
        add(f"fromu128 {bits} {src}", tu(src,bits))
        src=random.choice([0,-1,-(1<<127),(1<<127)-1,-10,random.getrandbits(127)*random.choice([1,-1])])
        add(f"fromi128 {bits} {src}", tu(src,bits,128))
        src=random.choice([0,-1,-(1<<63),(1<<63)-1,-10,random.getrandbits(63)*random.choice([1,-1])])
        add(f"fromi64 {bits} {src}", tu(src,bits,64))
        src=random.choice([0,-1,-128,127,-10,5]); add(f"fromi8 {bits} {src}", tu(src,bits,8))
        src=random.choice([0,-1,-32768,32767,-10,300]); add(f"fromi16 {bits} {src}", tu(src,bits,16))
        src=random.choice([0,1,255,128]); add(f"fromu8 {bits} {src}", tu(src,bits))
        src=random.choice([0,1]); add(f"frombool {bits} {src}", tu(src,bits))
        for name,tb,sg in [("tou64",64,0),("toi64",64,1),("tou8",8,0),("toi8",8,1),("tou16",16,0),("toi32",32,1),("tou128",128,0),("toi128",128,1)]:
            add(f"{name} {bits} {hx(a)}", fu(a,tb,sg))
        add(f"tobool {bits} {hx(a)}", f"ok {'true' if a else 'false'}" if a<2 else f"ovf {'true' if a&1 else 'false'} true")
        n=random.randrange(0,L+3); ls=[random.choice([0,0,random.getrandbits(64),(1<<64)-1,1]) for _ in range(n)]
        v=sum(x<<(64*i) for i,x in enumerate(ls))
        add(f"fromlimbs {bits} {','.join(hx(x) for x in ls) or '-'}", f"{hx(v&M)} {int(v>M)}")
        for name,tb in [("to256",256),("to12",12),("to65",65)]:
            TM=(1<<tb)-1; add(f"{name} {bits} {hx(a)}", f"ok {hx(a)}" if a<=TM else f"big {hx(a&TM)}")
        add(f"tole {bits} {hx(a)}", hb(a.to_bytes(BY,'little'))); add(f"tobe {bits} {hx(a)}", hb(a.to_bytes(BY,'big')))
        add(f"letrim {bits} {hx(a)}", hb(a.to_bytes((a.bit_length()+7)//8,'little'))); add(f"betrim {bits} {hx(a)}", hb(be(a)))
        AA=bytes([0xaa,0xaa]); add(f"copybe {bits} {hx(a)}", str(BY)+" "+hb(a.to_bytes(BY,'big')+AA)); add(f"copyle {bits} {hx(a)}", str(BY)+" "+hb(a.to_bytes(BY,'little')+AA))
        ln=random.choice([BY,BY,BY+1,max(BY-1,0),random.randrange(0,BY+3)])
        bs=bytes(random.choice([0,0xff,random.getrandbits(8)]) for _ in range(ln))
        if random.random()<0.3 and BY>0: bs=a.to_bytes(BY,'big')
        vb=int.from_bytes(bs,'big'); vl=int.from_bytes(bs,'little')
        add(f"frombe {bits} {hb(bs)}", hx(vb) if len(bs)<=BY and vb<=M else "none")
        add(f"fromle {bits} {hb(bs)}", hx(vl) if len(bs)<=BY and vl<=M else "none")
        i=random.choice([0,1,63,64,65,bits-1,bits,bits+1,random.randrange(0,bits+70)]); i=max(i,0)
        add(f"bit {bits} {hx(a)} {i}", str((a>>i)&1 if i<bits else 0))
        sv=random.choice([0,1]); add(f"setbit {bits} {hx(a)} {i} {sv}", hx(((a|(1<<i)) if sv else (a&~(1<<i))) if i<bits else a))
        j=random.randrange(0,BY+3)
        add(f"byte {bits} {hx(a)} {j}", str((a>>(8*j))&255) if j<BY else "PANIC"); add(f"cbyte {bits} {hx(a)} {j}", str((a>>(8*j))&255) if j<BY else "none")
        add(f"not {bits} {hx(a)}", hx(~a&M)); add(f"and {bits} {hx(a)} {hx(b)}", hx(a&b)); add(f"or {bits} {hx(a)} {hx(b)}", hx(a|b)); add(f"xor {bits} {hx(a)} {hx(b)}", hx(a^b))
        r=rlp_enc(a)
        add(f"rlp {bits} {hx(a)}", f"{hb(r)} 1"); add(f"arlp {bits} {hx(a)}", f"{hb(r)} {len(r)} 1"); add(f"frlp4 {bits} {hx(a)}", f"{hb(r)} {len(r)} 1"); add(f"frlp3 {bits} {hx(a)}", f"{hb(r)} {len(r)} 1")
        le=a.to_bytes(BY,'little')
        add(f"scale {bits} {hx(a)}", lambda o,le=le,BY=BY: (lambda p: len(p)==3 and p[0]==hb(scale_compact(len(le))+le) and p[2]=='1' and int(p[1])>=len(scale_compact(len(le))+le))(o.split(' ')))
        if bits<536:
            sc=scale_compact(a)
            add(f"scalec {bits} {hx(a)}", lambda o,sc=sc: (lambda p: len(p)==3 and p[0]==hb(sc) and p[2]=='1' and p[1]!='PANIC' and int(p[1])>=len(sc) and int(p[1])<10**6)(o.split(' ')))
        add(f"ssz {bits} {hx(a)}", f"{hb(le)} {BY} 1"); add(f"borsh {bits} {hx(a)}", f"{hb(le)} 1")
        d,vl_=der_enc(a); add(f"der {bits} {hx(a)}", f"{hb(d)} {vl_} 1")
        add(f"json {bits} {hx(a)}", f"\"0x{hx(a)}\" 1")
        add(f"bincode {bits} {hx(a)}", f"{hb(BY.to_bytes(8,'little')+a.to_bytes(BY,'big'))} 1")
        add(f"bigint {bits} {hx(a)}", f"{hx(a)} 1")
        def pgchk(o,a=a,bits=bits):
            ok=True; msgs=[]
            for item in o.split(' '):
                parts=item.split(':')
                ty=parts[0]
                if 'PANIC' in item or 'DPANIC' in item: return False
                if len(parts)==2: # err
                    fits={'bool':a<2,'int2':a<1<<15,'int4':a<1<<31,'oid':a<1<<32,'int8':a<1<<63,'money':a*100<1<<63,'bit':bits>0}.get(ty,True)
                    if fits: return False
                else:
                    if parts[2]!='1': return False
            return True
        add(f"pg {bits} {hx(a)}", pgchk)
inp="\n".join(l for l,_ in cases)+"\n"
out=subprocess.run(["/tmp/probe/target/debug/scan2"],input=inp,capture_output=True,text=True).stdout.split("\n")
bad={}
for (line,exp),o in zip(cases,out):
    ok = exp(o) if callable(exp) else (o==exp)
    if not ok:
        op=line.split(' ')[0]; bad.setdefault(op,[]).append((line,exp if not callable(exp) else 'pred',o))
print("cases",len(cases))
for op,l in bad.items():
    print("==",op,len(l))
    for x in l[:5]: print("   ",x[0][:120],"| exp",str(x[1])[:80],"| got",x[2][:160])
