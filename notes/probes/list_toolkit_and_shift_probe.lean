import Mathlib.Tactic.Ring
import Mathlib.Tactic.Linarith
import Mathlib.Tactic.NormNum
import Mathlib.Tactic.Positivity
import Mathlib.Tactic.Push

/-! Probe for C05/C15: list toolkit (`take = %`, `drop = /`) and the left-shift kernels, generic base
    `W = T * U` (`T = 2^bits`). -/
namespace Sh
variable (W : ℕ)

def val : List ℕ → ℕ
  | [] => 0
  | x :: xs => x + W * val xs
@[simp] theorem val_nil : val W [] = 0 := rfl
@[simp] theorem val_cons (x xs) : val W (x :: xs) = x + W * val W xs := rfl
def AllLt (l : List ℕ) : Prop := ∀ x ∈ l, x < W

theorem AllLt.tail {W x xs} (h : AllLt W (x :: xs)) : AllLt W xs := fun y hy => h y (by simp [hy])
theorem AllLt.head {W x xs} (h : AllLt W (x :: xs)) : x < W := h x (by simp)

theorem val_lt_pow (l : List ℕ) (h : AllLt W l) : val W l < W ^ l.length := by
  induction l with
  | nil => simp
  | cons x xs ih =>
    have hx := h.head
    have hxs := ih h.tail
    simp only [val_cons, List.length_cons, pow_succ]
    nlinarith [Nat.zero_le (val W xs)]

theorem val_append (l1 l2 : List ℕ) : val W (l1 ++ l2) = val W l1 + W ^ l1.length * val W l2 := by
  induction l1 with
  | nil => simp
  | cons x xs ih => simp only [List.cons_append, val_cons, ih, List.length_cons, pow_succ]; ring

theorem val_replicate_zero (k : ℕ) : val W (List.replicate k 0) = 0 := by
  induction k with
  | zero => rfl
  | succ k ih => simp [List.replicate_succ, ih]

theorem val_take_drop (l : List ℕ) (m : ℕ) (h : AllLt W l) (hm : m ≤ l.length) :
    val W (l.take m) = val W l % W ^ m ∧ val W (l.drop m) = val W l / W ^ m := by
  have hW : 0 < W ∨ W = 0 := (Nat.eq_zero_or_pos W).symm
  have e : val W l = val W (l.take m) + W ^ m * val W (l.drop m) := by
    conv_lhs => rw [← List.take_append_drop m l]
    rw [val_append, List.length_take, Nat.min_eq_left hm]
  have hlt : val W (l.take m) < W ^ m := by
    have := val_lt_pow W (l.take m) (fun x hx => h x (List.mem_of_mem_take hx))
    rwa [List.length_take, Nat.min_eq_left hm] at this
  constructor
  · rw [e, Nat.add_mul_mod_self_left, Nat.mod_eq_of_lt hlt]
  · rw [e]
    have hp : 0 < W ^ m := by
      rcases Nat.eq_zero_or_pos (W ^ m) with h0 | h0
      · rw [h0] at hlt; omega
      · exact h0
    rw [Nat.add_mul_div_left _ _ hp, Nat.div_eq_of_lt hlt, Nat.zero_add]

/-- `shift_left_small` with `W = T*U`: out limb `(x*T) % W + carry`, next carry `x / U`. -/
def shlSmall (T U : ℕ) : List ℕ → ℕ → List ℕ × ℕ
  | [], c => ([], c)
  | x :: xs, c =>
      let r := shlSmall T U xs (x / U)
      (((x * T) % (T * U) + c) :: r.1, r.2)

theorem shlSmall_spec (T U : ℕ) (hT : 0 < T) (hU : 0 < U) (xs : List ℕ) (c : ℕ)
    (hx : AllLt (T * U) xs) (hc : c < T) :
    val (T * U) (shlSmall T U xs c).1 + (T * U) ^ xs.length * (shlSmall T U xs c).2 = val (T * U) xs * T + c
    ∧ AllLt (T * U) (shlSmall T U xs c).1 ∧ (shlSmall T U xs c).1.length = xs.length
    ∧ (shlSmall T U xs c).2 < T := by
  induction xs generalizing c with
  | nil => simp [shlSmall, AllLt, hc]
  | cons x xs ih =>
    have hxW := hx.head
    have hq : x / U < T := by
      apply Nat.div_lt_of_lt_mul; rw [Nat.mul_comm]; exact hxW
    obtain ⟨i1, i2, i3, i4⟩ := ih (x / U) hx.tail hq
    simp only [shlSmall, val_cons, List.length_cons, pow_succ]
    -- x*T = (x/U)*(T*U) + (x%U)*T
    have hdm := Nat.div_add_mod x U
    have hmod : (x * T) % (T * U) = (x % U) * T := by
      have : x * T = (x % U) * T + (T * U) * (x / U) := by
        have : x * T = (U * (x / U) + x % U) * T := by rw [hdm]
        rw [this]; ring
      rw [this, Nat.add_mul_mod_self_left, Nat.mod_eq_of_lt]
      have := Nat.mod_lt x hU
      nlinarith
    have hlimb : (x % U) * T + c < T * U := by
      have := Nat.mod_lt x hU
      nlinarith
    refine ⟨?_, ?_, by simp [i3], i4⟩
    · rw [hmod]
      set r := shlSmall T U xs (x / U)
      have hx' : x * T = (x % U) * T + (T * U) * (x / U) := by
        have : x * T = (U * (x / U) + x % U) * T := by rw [hdm]
        rw [this]; ring
      nlinarith [i1]
    · intro y hy
      simp only [List.mem_cons] at hy
      rcases hy with rfl | hy
      · rw [hmod]; exact hlimb
      · exact i2 y hy

#print axioms val_take_drop
#print axioms shlSmall_spec
end Sh
