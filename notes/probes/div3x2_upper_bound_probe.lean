import Mathlib.Tactic.Ring
import Mathlib.Tactic.Linarith
import Mathlib.Tactic.NormNum
import Mathlib.Tactic.Positivity
import Mathlib.Tactic.Push

/-- Upper-bound core of MG10 Thm 3, case `d ≤ W·P` (uses only `k ≤ d`). `x = u2·W`, `P = W² − d`. -/
theorem ub_case1 (W P d u1 u0 k x r' q0 : ℤ)
    (hW : 0 < W) (hd : d = W * W - P) (hP : 0 < P) (hd0 : 0 < d)
    (hu1 : 0 ≤ u1) (hu1' : u1 ≤ W - 1) (hu0' : u0 ≤ W - 1)
    (hx0 : 0 ≤ x) (hx : x ≤ d - 1 - u1) (hkd : k ≤ d)
    (key : W * (W * r') = W * u1 * P + u0 * (W * W) + k * x + q0 * W * d - W * W * d)
    (hb : q0 * W ≤ r') (ha : P ≤ r') (hc : d ≤ W * P) : False := by
  have a : q0 * W * d ≤ r' * d := mul_le_mul_of_nonneg_right hb hd0.le
  have b : u0 * (W * W) ≤ (W - 1) * (W * W) := mul_le_mul_of_nonneg_right hu0' (by positivity)
  have c1 : k * x ≤ d * x := mul_le_mul_of_nonneg_right hkd hx0
  have c2 : d * x ≤ d * (d - 1 - u1) := mul_le_mul_of_nonneg_left hx hd0.le
  have dd : u1 * (W * P - d) ≤ (W - 1) * (W * P - d) := mul_le_mul_of_nonneg_right hu1' (by linarith)
  have e : P * P ≤ r' * P := mul_le_mul_of_nonneg_right ha hP.le
  have id0 : r' * P = W * (W * r') - r' * d := by rw [hd]; ring
  have idS : W * u1 * P + (W - 1) * (W * W) + d * (d - 1 - u1) - W * W * d
      = u1 * (W * P - d) + W * W * W - W * W + d * d - d - W * W * d := by ring
  have id1 : (W - 1) * (W * P - d) + W * W * W - W * W + d * d - d - W * W * d = P * P - W * W := by
    rw [hd]; ring
  have hWW : 0 < W * W := by positivity
  linarith

/-- Upper-bound core, case `W·P < d` where integrality gives `k = W·P`. -/
theorem ub_case2 (W P d u1 u0 k x r' q0 : ℤ)
    (hW : 0 < W) (hd : d = W * W - P) (hP : 0 < P) (hd0 : 0 < d)
    (hu1 : 0 ≤ u1) (hu0' : u0 ≤ W - 1)
    (hx0 : 0 ≤ x) (hx : x ≤ d - 1 - u1) (hk : k = W * P)
    (key : W * (W * r') = W * u1 * P + u0 * (W * W) + k * x + q0 * W * d - W * W * d)
    (hb : q0 * W ≤ r') (ha : P ≤ r') (hc : W * P < d) : False := by
  have a : q0 * W * d ≤ r' * d := mul_le_mul_of_nonneg_right hb hd0.le
  have b : u0 * (W * W) ≤ (W - 1) * (W * W) := mul_le_mul_of_nonneg_right hu0' (by positivity)
  have c : (W * P) * x ≤ (W * P) * (d - 1 - u1) := mul_le_mul_of_nonneg_left hx (by positivity)
  have e : P * P ≤ r' * P := mul_le_mul_of_nonneg_right ha hP.le
  have id0 : r' * P = W * (W * r') - r' * d := by rw [hd]; ring
  -- P ≤ W - 1
  have hPW : P ≤ W - 1 := by
    by_contra h
    push Not at h
    have h1 : W * W ≤ W * P := by nlinarith
    have : W * W - P < W * W := by linarith
    linarith
  have id1 : W * u1 * P + (W - 1) * (W * W) + (W * P) * (d - 1 - u1) - W * W * d
      = W * d * (1 + P - W) - W * W := by rw [hd]; ring
  have h2 : W * d * (1 + P - W) ≤ 0 := by
    have : 0 ≤ W * d := by positivity
    nlinarith
  have hPP : 0 < P * P := by positivity
  rw [hk] at key
  nlinarith

#print axioms ub_case1
#print axioms ub_case2
