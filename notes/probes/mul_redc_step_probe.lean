import Mathlib.Tactic.Ring
import Mathlib.Tactic.Linarith
import Mathlib.Tactic.NormNum
import Mathlib.Tactic.Positivity

/-! CIOS inner loop of `mul_redc`: value lemma (generic base `B`). -/
namespace Redc

def val (B : ℕ) : List ℕ → ℕ
  | [] => 0
  | x :: xs => x + B * val B xs
@[simp] theorem val_nil (B) : val B [] = 0 := rfl
@[simp] theorem val_cons (B x xs) : val B (x :: xs) = x + B * val B xs := rfl

/-- tail of the inner loop (indices `i ≥ 1`): returns shifted outputs and the two carries. -/
def inner (B b m : ℕ) : List ℕ → List ℕ → List ℕ → ℕ → ℕ → List ℕ × ℕ × ℕ
  | a :: as, mo :: ms, r :: rs, c1, c2 =>
      let t1 := a * b + r + c1
      let t2 := mo * m + t1 % B + c2
      let rest := inner B b m as ms rs (t1 / B) (t2 / B)
      (t2 % B :: rest.1, rest.2.1, rest.2.2)
  | _, _, _, c1, c2 => ([], c1, c2)

theorem inner_spec (B b m : ℕ) (as ms rs : List ℕ) (c1 c2 : ℕ)
    (h1 : as.length = rs.length) (h2 : ms.length = rs.length) :
    val B (inner B b m as ms rs c1 c2).1
        + B ^ rs.length * ((inner B b m as ms rs c1 c2).2.1 + (inner B b m as ms rs c1 c2).2.2)
      = val B rs + val B as * b + val B ms * m + c1 + c2
    ∧ (inner B b m as ms rs c1 c2).1.length = rs.length := by
  induction rs generalizing as ms c1 c2 with
  | nil =>
    cases as <;> cases ms <;> simp_all [inner]
  | cons r rs ih =>
    cases as with
    | nil => simp at h1
    | cons a as =>
      cases ms with
      | nil => simp at h2
      | cons mo ms =>
        simp only [List.length_cons, Nat.add_right_cancel_iff] at h1 h2
        simp only [inner, val_cons, List.length_cons, pow_succ]
        obtain ⟨ih1, ih2⟩ := ih as ms ((a * b + r + c1) / B) ((mo * m + (a * b + r + c1) % B + c2) / B) h1 h2
        refine ⟨?_, by simp [ih2]⟩
        have e1 := Nat.div_add_mod (a * b + r + c1) B
        have e2 := Nat.div_add_mod (mo * m + (a * b + r + c1) % B + c2) B
        set rest := inner B b m as ms rs ((a * b + r + c1) / B) ((mo * m + (a * b + r + c1) % B + c2) / B)
        nlinarith [ih1, e1, e2]

/-- one outer iteration: accumulator `(res, carry)` ↦ `(res', carry')` for multiplier limb `b`. -/
def outer (B inv b : ℕ) (a md res : List ℕ) (carry : ℕ) : List ℕ × ℕ :=
  match a, md, res with
  | a0 :: as, m0 :: ms, r0 :: rs =>
      let t1 := a0 * b + r0
      let m := (t1 % B * inv) % B
      let t2 := m0 * m + t1 % B
      let rest := inner B b m as ms rs (t1 / B) (t2 / B)
      let top := rest.2.1 + rest.2.2 + carry
      (rest.1 ++ [top % B], top / B)
  | _, _, _ => (res, carry)

theorem val_append_single (B : ℕ) (l : List ℕ) (x : ℕ) : val B (l ++ [x]) = val B l + B ^ l.length * x := by
  induction l with
  | nil => simp
  | cons y ys ih => simp only [List.cons_append, val_cons, ih, List.length_cons, pow_succ]; ring

set_option maxHeartbeats 2000000 in
/-- Exactness of one CIOS step: `B * A' = A + a*b + m*Mod` where `A = val res + B^N * carry`,
    provided the reduction factor kills the lowest limb. -/
theorem outer_spec (B inv b : ℕ) (a0 m0 r0 : ℕ) (as ms rs : List ℕ) (carry : ℕ) (hB : 0 < B)
    (h1 : as.length = rs.length) (h2 : ms.length = rs.length)
    (hm : (m0 * (((a0 * b + r0) % B * inv) % B) + (a0 * b + r0) % B) % B = 0) :
    let r := outer B inv b (a0 :: as) (m0 :: ms) (r0 :: rs) carry
    B * (val B r.1 + B ^ (rs.length + 1) * r.2)
      = (val B (r0 :: rs) + B ^ (rs.length + 1) * carry) + val B (a0 :: as) * b
        + val B (m0 :: ms) * (((a0 * b + r0) % B * inv) % B) := by
  intro r
  simp only [r, outer]
  set t1 := a0 * b + r0 with ht1
  set m := (t1 % B * inv) % B with hmdef
  set t2 := m0 * m + t1 % B with ht2
  obtain ⟨s1, s2⟩ := inner_spec B b m as ms rs (t1 / B) (t2 / B) h1 h2
  set rest := inner B b m as ms rs (t1 / B) (t2 / B)
  rw [val_append_single, s2]
  have e1 := Nat.div_add_mod t1 B
  have e2 := Nat.div_add_mod t2 B
  have e3 := Nat.div_add_mod (rest.2.1 + rest.2.2 + carry) B
  rw [hm] at e2
  simp only [val_cons, pow_succ]
  set P := B ^ rs.length with hP
  set T := rest.2.1 + rest.2.2 + carry with hT
  have k1 : P * (T % B) + P * B * (T / B) = P * T := by
    have : P * T = P * (B * (T / B) + T % B) := by rw [e3]
    rw [this]; ring
  have k2 : P * T = P * (rest.2.1 + rest.2.2) + P * carry := by rw [hT]; ring
  have k3 : B * (val B rest.1 + P * (rest.2.1 + rest.2.2))
      = B * (val B rs + val B as * b + val B ms * m + t1 / B + t2 / B) := by rw [s1]
  have k4 : B * (t1 / B) = t1 - t1 % B := by omega
  have k5 : t1 % B ≤ t1 := Nat.mod_le _ _
  have k6 : B * (val B rs + val B as * b + val B ms * m + t1 / B + t2 / B)
      = B * val B rs + B * (val B as * b) + B * (val B ms * m) + B * (t1 / B) + B * (t2 / B) := by ring
  clear_value P T rest
  have goal_lhs : B * (val B rest.1 + P * (T % B) + P * B * (T / B))
      = B * (val B rest.1 + P * (rest.2.1 + rest.2.2)) + B * (P * carry) := by
    have : val B rest.1 + P * (T % B) + P * B * (T / B) = val B rest.1 + (P * (T % B) + P * B * (T / B)) := by ring
    rw [this, k1, k2]; ring
  rw [goal_lhs, k3, k6]
  have e2' : B * (t2 / B) = t2 := by omega
  rw [e2', ht2]
  have : B * (t1 / B) + t1 % B = a0 * b + r0 := by rw [e1]
  nlinarith [this]

end Redc
#print axioms Redc.inner_spec
#print axioms Redc.outer_spec
