import Mathlib.Tactic.Ring
import Mathlib.Tactic.Linarith
import Mathlib.Tactic.NormNum
import Mathlib.Tactic.Zify
import Mathlib.Tactic.Positivity

def B : Nat := 2^64

/-- Facts about the MG10 2-by-1 candidate remainder, stated over ℤ. -/
theorem mg10_bounds (B d u1 u0 V q0 q1' : ℤ)
    (hB : 0 < B) (hdB : d < B) (hd2 : B ≤ 2 * d)
    (hu1 : 0 ≤ u1) (hu1d : u1 < d) (hu0 : 0 ≤ u0) (hu0B : u0 < B)
    (hk1 : 1 ≤ B * B - V * d) (hkd : B * B - V * d ≤ d)
    (hq : u1 * V + u0 = q1' * B + q0) (hq0 : 0 ≤ q0) (hq0B : q0 < B) :
    let r' := u1 * B + u0 - (q1' + 1) * d
    (-d ≤ r') ∧ (q0 - B + 1 ≤ r') ∧ (r' < B - d ∨ r' < q0) := by
  intro r'
  have hd0 : 0 < d := by linarith
  -- key identity
  have key : B * r' = u0 * (B - d) + (B * B - V * d) * u1 + q0 * d - B * d := by
    have : q1' * B = u1 * V + u0 - q0 := by linarith
    simp only [r']
    have e : B * (u1 * B + u0 - (q1' + 1) * d) = B * B * u1 + B * u0 - (q1' * B) * d - B * d := by ring
    rw [e, this]; ring
  set k := B * B - V * d with hk
  have h1 : 0 ≤ u0 * (B - d) := mul_nonneg hu0 (by linarith)
  have h2 : 0 ≤ k * u1 := mul_nonneg (by linarith) hu1
  refine ⟨?_, ?_, ?_⟩
  · -- B r' ≥ q0 d - B d ≥ -B d
    have : B * r' ≥ B * (-d) := by nlinarith
    exact le_of_mul_le_mul_left this hB
  · -- B r' ≥ (q0 - B) d > (q0 - B) B
    by_contra hcon
    push_neg at hcon
    have : r' ≤ q0 - B := by linarith
    have h3 : B * r' ≤ B * (q0 - B) := mul_le_mul_of_nonneg_left this hB.le
    have h4 : (q0 - B) * d > (q0 - B) * B := by nlinarith
    nlinarith
  · by_contra hcon
    push_neg at hcon
    obtain ⟨ha, hb⟩ := hcon
    have h3 : u0 * (B - d) ≤ (B - 1) * (B - d) := by nlinarith
    have h4 : k * u1 ≤ d * (d - 1) := by nlinarith
    have h5 : q0 * d ≤ r' * d := by nlinarith
    nlinarith

#print axioms mg10_bounds
