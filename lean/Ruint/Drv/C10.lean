import Ruint.Model.Modular
import Ruint.Gen.WordsValue
import Ruint.Model.ModularLimbs
import Ruint.Gen.WordsUintMod
import Ruint.Gen.WordsGcd
/-! Driver for C10: evaluates the model (`Ruint.Modular.*`) and the spec (ℕ arithmetic: `%`, square-and-multiply
    most-significant-bit first, `Nat.gcd` + extended Euclid on ℤ). -/
open Ruint Ruint.Modular

namespace Ruint.DrvC10

/-- `a^e % m` on ℕ, left-to-right binary exponentiation (the model's loop is right-to-left). -/
partial def powNat (a e m : Nat) : Nat :=
  if e = 0 then 1 % m
  else
    let h := powNat a (e / 2) m
    let h2 := h * h % m
    if e % 2 = 1 then h2 * (a % m) % m else h2

partial def egcd (a b : Int) : Int × Int × Int :=
  if b = 0 then (a, 1, 0)
  else
    let (g, x, y) := egcd b (a % b)
    (g, y, x - (a / b) * y)

/-- spec of `inv_mod`: `some x` with `x < m`, `a·x ≡ 1` iff `m ≥ 2 ∧ gcd a m = 1`. -/
def invSpec (a m : Nat) : Option Nat :=
  if m ≥ 2 ∧ Nat.gcd a m = 1 then
    let (_, u, _) := egcd (Int.ofNat (a % m)) (Int.ofNat m)
    some ((u % Int.ofNat m).toNat)
  else none

def outO : Option Nat → String
  | some v => "some " ++ toHex v
  | none => "none"

def matStr (m : Ruint.Lehmer.Mat) : String :=
  toHex m.1 ++ ":" ++ toHex m.2.1 ++ ":" ++ toHex m.2.2.1 ++ ":" ++ toHex m.2.2.2.1 ++ ":" ++ boolStr m.2.2.2.2

def traceStr (l : List Ruint.Lehmer.Mat) : String :=
  if l.isEmpty then "-" else ",".intercalate (l.map matStr)

/-- the `LehmerMatrix::from` answers of the model along `inv_mod(num, modulus)`. -/
def traceOf (bits num modulus : Nat) : List Ruint.Lehmer.Mat :=
  if bits = 0 ∨ modulus = 0 then []
  else
    let b := if num ≥ modulus then num % modulus else num
    if b = 0 then []
    else invTrace bits (b + 1) { a := modulus, b := b, t0 := 0, t1 := 1, even := true }

/-- a `Uint<bits>` as a limb list -/
def u (bits v : Nat) : List Nat := toLimbs (nlimbs bits) v

def outL : Option (List Nat) → String
  | some l => toHex (val l)
  | none => "panic"

def outOO : Option (Option Nat) → String
  | some r => outO r
  | none => "panic"

def handle (args : List String) (impl : String) : String × String :=
  match args with
  | [op, bs, xs, ys, zs] =>
    let bits := parseDec bs
    let x := parseHex xs; let y := parseHex ys; let m := parseHex zs
    match op with
    | "add" =>
        -- limb-level model (cmp, div, overflowing_add, wrapping_sub on limb lists); must agree with the value level
        let l := ModularL.addMod bits (u bits x) (u bits y) (u bits m)
        -- value level: the wrapper GENERATED from src/modular.rs in value mode (`Props/C10.gen_add_mod_eq`)
        (if l = some (u bits (Ruint.Gen.val_add_mod bits (nlimbs bits) x y m)) then outL l else "model-levels-disagree " ++ outL l,
         toHex (if m = 0 then 0 else (x + y) % m))
    | "mul" =>
        -- limb-level model: addmul into nlimbs(2*bits) limbs, then the full `div` model (2N-by-N shape)
        -- … as GENERATED from src/modular.rs over the generated addmul and algorithms::div (`Props/C10.gen_mul_mod_limbs_eq`)
        let l := if x < 2 ^ bits ∧ y < 2 ^ bits ∧ m < 2 ^ bits
          then Ruint.Gen.uint_mul_mod (4 * nlimbs bits + 3) bits (nlimbs bits) (u bits x) (u bits y) (u bits m)
          else ModularL.mulMod bits (u bits x) (u bits y) (u bits m)
        (if l = some (u bits (mulMod bits x y m)) ∧ !mulModOverflow bits x y then outL l
         else "model-levels-disagree " ++ outL l,
         toHex (if m = 0 then 0 else (x * y) % m))
    | "pow" => (toHex (Ruint.Gen.val_pow_mod bits bits (nlimbs bits) x y m), toHex (if m = 0 then 0 else powNat x y m))
    | _ => ("bad-op", "bad-op")
  | [op, bs, xs, zs] =>
    let bits := parseDec bs
    let x := parseHex xs; let m := parseHex zs
    match op with
    | "reduce" =>
        let l := ModularL.reduceMod bits (u bits x) (u bits m)
        (if l = some (u bits (Ruint.Gen.val_reduce_mod bits (nlimbs bits) x m)) then outL l else "model-levels-disagree " ++ outL l,
         toHex (if m = 0 then 0 else x % m))
    -- `Uint::inv_mod` GENERATED from src/modular.rs + algorithms/gcd/mod.rs in value mode (`Props/C10.gen_inv_mod_eq`)
    | "inv" => (outOO (if x < 2 ^ bits ∧ m < 2 ^ bits then Ruint.Gen.val_uint_inv_mod (m + 2) bits (nlimbs bits) x m
                       else invMod bits x m), outO (if bits = 0 then none else invSpec x m))
    | "invtr" =>
        -- impl = `<result> | <answers of the real LehmerMatrix::from along the loop>`; the model prints its own
        -- matrices (model of `Matrix::from`, C12); the spec column judges the result part
        let want := outO (if bits = 0 then none else invSpec x m)
        let res := (impl.splitOn " | ").headD ""
        (outOO (invMod bits x m) ++ " | " ++ traceStr (traceOf bits x m),
         if res = want then "pred:true" else "pred:false want " ++ want)
    | _ => ("bad-op", "bad-op")
  | _ => ("bad-op", "bad-op")

end Ruint.DrvC10

def main : IO Unit := Ruint.driverMain Ruint.DrvC10.handle
