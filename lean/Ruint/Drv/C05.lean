import Ruint.Model.Shift
import Ruint.Gen.WordsUint
import Ruint.Gen.WordsShiftOps
import Ruint.Gen.WordsIntShift
/-! Driver for C05: evaluates the model (`Ruint.Shift.*` on limb lists) and the spec (ℕ arithmetic).

Case lines: `op bits value amount` — `value` hex `< 2^bits`; `amount` hex: a `usize` (methods), the
non-negative value of the integer type (operator ops `shl_<ty>_<form>` / `shr_<ty>_<form>`), or a
`Uint<bits>` value (ops `shlU_<form>` / `shrU_<form>`).

The spec column never builds `2^s` for `s ≥ bits` (amounts go up to `2^64 - 1`): for `x < 2^bits`
and `s ≥ bits`, `x * 2^s % 2^bits = 0`, `x / 2^s = 0`, `2^bits ≤ x * 2^s ↔ x ≠ 0`,
`2^s ∣ x ↔ x = 0`. -/
open Ruint Ruint.Shift

namespace Ruint.DrvC05

def u (bits : Nat) (s : String) : List Nat := toLimbs (nlimbs bits) (parseHex s)
def out (l : List Nat) : String := toHex (val l)
def outF (p : List Nat × Bool) : String := out p.1 ++ " " ++ boolStr p.2
def outO : Option (List Nat) → String
  | some v => "some " ++ out v
  | none => "none"
def sOpt (ok : Bool) (v : Nat) : String := if ok then "some " ++ toHex v else "none"

/-- spec: `x * 2^s % 2^bits` -/
def sShl (bits x s : Nat) : Nat := if s ≥ bits then 0 else x * 2 ^ s % 2 ^ bits
/-- spec: `2^bits ≤ x * 2^s` -/
def sShlF (bits x s : Nat) : Bool := if s ≥ bits then decide (x ≠ 0) else decide (2 ^ bits ≤ x * 2 ^ s)
/-- spec: `x / 2^s` -/
def sShr (bits x s : Nat) : Nat := if s ≥ bits then 0 else x / 2 ^ s
/-- spec: `¬ 2^s ∣ x` -/
def sShrF (bits x s : Nat) : Bool := if s ≥ bits then decide (x ≠ 0) else decide (x % 2 ^ s ≠ 0)
/-- spec: rotate left by `s` of the `bits`-wide word. -/
def sRotl (bits x s : Nat) : Nat :=
  if bits = 0 then 0 else
    let k := s % bits
    (x * 2 ^ k + x / 2 ^ (bits - k)) % 2 ^ bits
/-- spec: rotate right by `s` of the `bits`-wide word. -/
def sRotr (bits x s : Nat) : Nat :=
  if bits = 0 then 0 else
    let k := s % bits
    (x / 2 ^ k + x * 2 ^ (bits - k)) % 2 ^ bits
/-- spec: arithmetic shift right: bit `i` of the result is bit `min (i+s) (bits-1)` of `x`. -/
def sAshr (bits x s : Nat) : Nat :=
  if bits = 0 then 0 else
    let s' := min s bits
    let sign := x / 2 ^ (bits - 1) % 2
    x / 2 ^ s' + sign * (2 ^ bits - 2 ^ (bits - s'))

def startsWith (s p : String) : Bool := p.toList.isPrefixOf s.toList

/-- the integer-typed operator impls GENERATED from `impl_shift!` (`Gen/WordsIntShift`; `Props/C05.gen_int_shift_shapes`):
    the `@main` arm for the by-value / by-reference forms, the `@assign` arm for the assign forms. -/
def genShlInt (ty : String) (assign : Bool) (f bits L : Nat) (a : List Nat) (s : Nat) : Option (List Nat) :=
  match ty, assign with
  | "usize", false => some (Ruint.Gen.uint_shl_usize f bits L a s)
  | "usize", true => some (Ruint.Gen.uint_shl_assign_usize f bits L a s)
  | "u8", false => some (Ruint.Gen.uint_shl_u8 f bits L a s)
  | "u8", true => some (Ruint.Gen.uint_shl_assign_u8 f bits L a s)
  | "u16", false => some (Ruint.Gen.uint_shl_u16 f bits L a s)
  | "u16", true => some (Ruint.Gen.uint_shl_assign_u16 f bits L a s)
  | "u32", false => some (Ruint.Gen.uint_shl_u32 f bits L a s)
  | "u32", true => some (Ruint.Gen.uint_shl_assign_u32 f bits L a s)
  | "isize", false => some (Ruint.Gen.uint_shl_isize f bits L a s)
  | "isize", true => some (Ruint.Gen.uint_shl_assign_isize f bits L a s)
  | "i8", false => some (Ruint.Gen.uint_shl_i8 f bits L a s)
  | "i8", true => some (Ruint.Gen.uint_shl_assign_i8 f bits L a s)
  | "i16", false => some (Ruint.Gen.uint_shl_i16 f bits L a s)
  | "i16", true => some (Ruint.Gen.uint_shl_assign_i16 f bits L a s)
  | "i32", false => some (Ruint.Gen.uint_shl_i32 f bits L a s)
  | "i32", true => some (Ruint.Gen.uint_shl_assign_i32 f bits L a s)
  | "u64", false => some (Ruint.Gen.uint_shl_u64 f bits L a s)
  | "u64", true => some (Ruint.Gen.uint_shl_assign_u64 f bits L a s)
  | "i64", false => some (Ruint.Gen.uint_shl_i64 f bits L a s)
  | "i64", true => some (Ruint.Gen.uint_shl_assign_i64 f bits L a s)
  | _, _ => none

def genShrInt (ty : String) (assign : Bool) (f bits L : Nat) (a : List Nat) (s : Nat) : Option (List Nat) :=
  match ty, assign with
  | "usize", false => some (Ruint.Gen.uint_shr_usize f bits L a s)
  | "usize", true => some (Ruint.Gen.uint_shr_assign_usize f bits L a s)
  | "u8", false => some (Ruint.Gen.uint_shr_u8 f bits L a s)
  | "u8", true => some (Ruint.Gen.uint_shr_assign_u8 f bits L a s)
  | "u16", false => some (Ruint.Gen.uint_shr_u16 f bits L a s)
  | "u16", true => some (Ruint.Gen.uint_shr_assign_u16 f bits L a s)
  | "u32", false => some (Ruint.Gen.uint_shr_u32 f bits L a s)
  | "u32", true => some (Ruint.Gen.uint_shr_assign_u32 f bits L a s)
  | "isize", false => some (Ruint.Gen.uint_shr_isize f bits L a s)
  | "isize", true => some (Ruint.Gen.uint_shr_assign_isize f bits L a s)
  | "i8", false => some (Ruint.Gen.uint_shr_i8 f bits L a s)
  | "i8", true => some (Ruint.Gen.uint_shr_assign_i8 f bits L a s)
  | "i16", false => some (Ruint.Gen.uint_shr_i16 f bits L a s)
  | "i16", true => some (Ruint.Gen.uint_shr_assign_i16 f bits L a s)
  | "i32", false => some (Ruint.Gen.uint_shr_i32 f bits L a s)
  | "i32", true => some (Ruint.Gen.uint_shr_assign_i32 f bits L a s)
  | "u64", false => some (Ruint.Gen.uint_shr_u64 f bits L a s)
  | "u64", true => some (Ruint.Gen.uint_shr_assign_u64 f bits L a s)
  | "i64", false => some (Ruint.Gen.uint_shr_i64 f bits L a s)
  | "i64", true => some (Ruint.Gen.uint_shr_assign_i64 f bits L a s)
  | _, _ => none

def handle (args : List String) (_impl : String) : String × String :=
  match args with
  | [op, bs, as, ss] =>
    let bits := parseDec bs
    let a := u bits as
    let x := parseHex as
    let s := parseHex ss
    if startsWith op "shlU_" then
      -- `Shl<Uint>` GENERATED from src/bits.rs (`Props/C05.gen_shift_by_uint_eq`)
      (out (Ruint.Gen.uint_shl_uint (nlimbs bits + 1) bits (nlimbs bits) a (u bits ss)), toHex (sShl bits x s))
    else if startsWith op "shrU_" then
      (out (Ruint.Gen.uint_shr_uint (nlimbs bits + 1) bits (nlimbs bits) a (u bits ss)), toHex (sShr bits x s))
    else if startsWith op "shl_" then
      let (ty, form) := match op.splitOn "_" with | [_, t, fm] => (t, fm) | _ => ("", "")
      ((match genShlInt ty (form == "a" || form == "ar") (nlimbs bits + 1) bits (nlimbs bits) a s with
        | some r => out r
        | none => out (shlInt bits a s)), toHex (sShl bits x s))
    else if startsWith op "shr_" then
      let (ty, form) := match op.splitOn "_" with | [_, t, fm] => (t, fm) | _ => ("", "")
      ((match genShrInt ty (form == "a" || form == "ar") (nlimbs bits + 1) bits (nlimbs bits) a s with
        | some r => out r
        | none => out (shrInt bits a s)), toHex (sShr bits x s))
    else match op with
    -- `oshl` / `oshr`: the methods GENERATED from the source (`Props/C05.gen_overflowing_shl_eq`, `…_shr_eq`)
    | "oshl" => (outF (Ruint.Gen.uint_overflowing_shl (nlimbs bits + 1) bits (nlimbs bits) a s), toHex (sShl bits x s) ++ " " ++ boolStr (sShlF bits x s))
    | "oshr" => (outF (Ruint.Gen.uint_overflowing_shr (nlimbs bits + 1) bits (nlimbs bits) a s), toHex (sShr bits x s) ++ " " ++ boolStr (sShrF bits x s))
    | "cshl" => (outO (Ruint.Gen.uint_checked_shl (nlimbs bits + 1) bits (nlimbs bits) a s), sOpt (!sShlF bits x s) (sShl bits x s))
    | "cshr" => (outO (Ruint.Gen.uint_checked_shr (nlimbs bits + 1) bits (nlimbs bits) a s), sOpt (!sShrF bits x s) (sShr bits x s))
    | "sshl" => (out (Ruint.Gen.uint_saturating_shl (nlimbs bits + 1) bits (nlimbs bits) a s), toHex (if sShlF bits x s then 2 ^ bits - 1 else sShl bits x s))
    | "wshl" => (out (Ruint.Gen.uint_wrapping_shl (nlimbs bits + 1) bits (nlimbs bits) a s), toHex (sShl bits x s))
    | "wshr" => (out (Ruint.Gen.uint_wrapping_shr (nlimbs bits + 1) bits (nlimbs bits) a s), toHex (sShr bits x s))
    | "ashr" => (out (Ruint.Gen.uint_arithmetic_shr (nlimbs bits + 1) bits (nlimbs bits) a s), toHex (sAshr bits x s))
    | "rotl" => (out (Ruint.Gen.uint_rotate_left (nlimbs bits + 1) bits (nlimbs bits) a s), toHex (sRotl bits x s))
    | "rotr" => (out (Ruint.Gen.uint_rotate_right (nlimbs bits + 1) bits (nlimbs bits) a s), toHex (sRotr bits x s))
    | _ => ("bad-op", "bad-op")
  | _ => ("bad-op", "bad-op")

end Ruint.DrvC05

def main : IO Unit := Ruint.driverMain Ruint.DrvC05.handle
