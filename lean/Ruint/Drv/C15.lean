import Ruint.Gen.WordsKernels
import Ruint.Model.MulKernels
import Ruint.Model.ShiftKernels
import Ruint.Model.Add
/-! Driver for C15: limb-slice kernels. Model = `Ruint.Limb.*` at base `W`, `Ruint.ShiftK.*`;
    spec = the mathematical answer computed on `Nat` from the slice values. -/
open Ruint Ruint.Limb Ruint.ShiftK

namespace Ruint.DrvC15

/-- little-endian digits of `v` in base `B`, exactly `n` of them -/
def digitsB (B : Nat) : Nat → Nat → List Nat
  | 0, _ => []
  | n + 1, v => v % B :: digitsB B n (v / B)

def outLC (p : List Nat × Nat) : String := limbsStr p.1 ++ " " ++ toHex p.2
def outLF (p : List Nat × Bool) : String := limbsStr p.1 ++ " " ++ boolStr p.2
def outOLC : Option (List Nat × Nat) → String
  | some p => outLC p
  | none => "panic"
def ordStr : Ordering → String
  | .lt => "lt" | .eq => "eq" | .gt => "gt"

/-! ### specs (base-generic so that the self-check can run them at a tiny base) -/

def specAddmul (B : Nat) (lhs a b : List Nat) : List Nat × Bool :=
  let n := lhs.length
  let total := valB B lhs + valB B a * valB B b
  (digitsB B n (total % B ^ n), decide (B ^ n ≤ total))

/-- `lhs' + B^n * carry = total` -/
def specCarry (B n total : Nat) : List Nat × Nat := (digitsB B n (total % B ^ n), total / B ^ n)

/-- `lhs' + sub = lhs + B^n * ret`, `lhs' < B^n` -/
def specBorrow (B n lhs sub : Nat) : List Nat × Nat :=
  let ret := (sub + B ^ n - 1 - lhs) / B ^ n
  (digitsB B n (lhs + B ^ n * ret - sub), ret)

/-! ### model-vs-spec self check at a tiny base (no implementation involved) -/

def allLists (B : Nat) : Nat → List (List Nat)
  | 0 => [[]]
  | n + 1 => (allLists B n).flatMap fun l => (List.range B).map fun d => d :: l

def listsUpTo (B n : Nat) : List (List Nat) := (List.range (n + 1)).flatMap (allLists B)

def selfCheck (B n : Nat) : String := Id.run do
  let ls := listsUpTo B n
  let mut bad : Option String := none
  let mut cnt := 0
  for lhs in ls do
    for a in ls do
      for b in ls do
        cnt := cnt + 1
        if addmul B lhs a b != specAddmul B lhs a b then
          bad := some s!"addmul {lhs} {a} {b}"
        if lhs.length = a.length ∧ a.length = b.length then
          if addmulN B lhs a b != some (specAddmul B lhs a b).1 then
            bad := some s!"addmul_n {lhs} {a} {b}"
      if lhs.length = a.length then
        for w in List.range B do
          if addmulNx1 B lhs a w != specCarry B lhs.length (valB B lhs + valB B a * w) then
            bad := some s!"addmul_nx1 {lhs} {a} {w}"
          if submulNx1 B lhs a w != specBorrow B lhs.length (valB B lhs) (valB B a * w) then
            bad := some s!"submul_nx1 {lhs} {a} {w}"
          if adcN B lhs a w != some (specCarry B lhs.length (valB B lhs + valB B a + w)) then
            bad := some s!"adc_n {lhs} {a} {w}"
          if sbbN B lhs a w != some (specBorrow B lhs.length (valB B lhs) (valB B a + w)) then
            bad := some s!"sbb_n {lhs} {a} {w}"
    for w in List.range B do
      if mulNx1 B lhs w != specCarry B lhs.length (valB B lhs * w) then
        bad := some s!"mul_nx1 {lhs} {w}"
      if addNx1 B lhs w != specCarry B lhs.length (valB B lhs + w) then
        bad := some s!"add_nx1 {lhs} {w}"
  match bad with
  | some s => "selfcheck-failed " ++ s
  | none => "ok"

/-! ### cases -/

def specCmp (l r : List Nat) : Ordering :=
  let m := min l.length r.length
  match compare (val (l.take m)) (val (r.take m)) with
  | .eq => compare l.length r.length
  | o => o

/-! The model column of the slice kernels `adc_n`, `sbb_n`, `add_nx1`, `mul_nx1`, `addmul_nx1`, `submul_nx1`,
`shift_left_small`, `shift_right_small` is the function GENERATED from the Rust source (`Ruint/Gen/WordsKernels.lean`) on
its domain (`Props/C15: gen_*_eq` prove it equal to the hand model there), the hand model elsewhere. -/
def handle (args : List String) (_impl : String) : String × String :=
  match args with
  | ["selfcheck", bs, ns] => (selfCheck (parseDec bs) (parseDec ns), "ok")
  | [op, _, x1, x2, x3] =>
    let lhs := parseLimbs x1
    let n := lhs.length
    match op with
    | "addmul" =>
        let a := parseLimbs x2; let b := parseLimbs x3
        -- `algorithms::addmul` GENERATED from the source (`Props/C15.gen_addmul_eq`)
        (outLF (Ruint.Gen.addmul (lhs.length + a.length + b.length + 1) lhs a b), outLF (specAddmul W lhs a b))
    | "addmuln" =>
        let a := parseLimbs x2; let b := parseLimbs x3
        ((match addmulN W lhs a b with | some r => limbsStr r | none => "panic"),
         if n = a.length ∧ n = b.length then limbsStr (specAddmul W lhs a b).1 else "panic")
    | "addmulnx1" =>
        let a := parseLimbs x2; let b := parseHex x3
        (outLC (if n = a.length then Ruint.Gen.addmul_nx1 (a.length + 1) lhs a b else addmulNx1 W lhs a b), outLC (specCarry W n (val lhs + val a * b)))
    | "submulnx1" =>
        let a := parseLimbs x2; let b := parseHex x3
        (outLC (if n = a.length then Ruint.Gen.submul_nx1 (a.length + 1) lhs a b else submulNx1 W lhs a b), outLC (specBorrow W n (val lhs) (val a * b)))
    | "adcn" =>
        let r := parseLimbs x2; let c := parseHex x3
        -- model column: the function GENERATED from src/algorithms/add.rs on its domain (Props/C15: gen_adc_n_eq)
        (outOLC (if n ≤ r.length then some (Ruint.Gen.adc_n (n + 1) lhs r c) else adcN W lhs r c),
         if r.length < n then "panic" else outLC (specCarry W n (val lhs + val (r.take n) + c)))
    | "sbbn" =>
        let r := parseLimbs x2; let c := parseHex x3
        (outOLC (if n ≤ r.length then some (Ruint.Gen.sbb_n (n + 1) lhs r c) else sbbN W lhs r c),
         if r.length < n then "panic" else outLC (specBorrow W n (val lhs) (val (r.take n) + c)))
    | "adc" =>
        let l := parseHex x1; let r := parseHex x2; let c := parseHex x3
        let m := adc W l r c
        (toHex m.1 ++ " " ++ toHex m.2, toHex ((l + r + c) % W) ++ " " ++ toHex ((l + r + c) / W))
    | "sbb" =>
        let l := parseHex x1; let r := parseHex x2; let c := parseHex x3
        let m := sbb W l r c
        let s := specBorrow W 1 l (r + c)
        (toHex m.1 ++ " " ++ toHex m.2, toHex (val s.1) ++ " " ++ toHex s.2)
    | "cadd" =>
        let l := parseHex x1; let r := parseHex x2; let c : Bool := x3 == "t"
        let m := Ruint.Add.carryingAdd l r c
        (toHex m.1 ++ " " ++ boolStr m.2,
         toHex ((l + r + c.toNat) % W) ++ " " ++ boolStr (decide (W ≤ l + r + c.toNat)))
    | "bsub" =>
        let l := parseHex x1; let r := parseHex x2; let c : Bool := x3 == "t"
        let m := Ruint.Add.borrowingSub l r c
        (toHex m.1 ++ " " ++ boolStr m.2,
         toHex ((l + W - r - c.toNat) % W) ++ " " ++ boolStr (decide (l < r + c.toNat)))
    | _ => ("bad-op", "bad-op")
  | [op, _, x1, x2] =>
    let lhs := parseLimbs x1
    let n := lhs.length
    match op with
    | "mulnx1" => let a := parseHex x2
        (outLC (Ruint.Gen.mul_nx1 (n + 1) lhs a), outLC (specCarry W n (val lhs * a)))
    | "addnx1" => let a := parseHex x2
        (outLC (Ruint.Gen.add_nx1 (n + 1) lhs a), outLC (specCarry W n (val lhs + a)))
    | "shl" => let k := parseDec x2
        (outLC (if k ≤ 64 then Ruint.Gen.shift_left_small (n + 1) lhs k else shlSmall lhs k), outLC (specCarry W n (val lhs * 2 ^ k)))
    | "shr" => let k := parseDec x2
        (outLC (if k ≤ 64 then Ruint.Gen.shift_right_small (n + 1) lhs k else shrSmall lhs k),
         outLC (toLimbs n (val lhs / 2 ^ k), (val lhs % 2 ^ k) * 2 ^ (64 - k)))
    | "cmp" => let r := parseLimbs x2
        -- `algorithms::cmp` GENERATED from the source (`Props/C15.gen_cmp_eq`)
        (ordStr (Ruint.Gen.limb_cmp (min lhs.length r.length + 1) lhs r), ordStr (specCmp lhs r))
    | _ => ("bad-op", "bad-op")
  | _ => ("bad-op", "bad-op")

end Ruint.DrvC15

def main : IO Unit := Ruint.driverMain Ruint.DrvC15.handle
