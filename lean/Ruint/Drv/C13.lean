import Ruint.Model.Pow
import Ruint.Gen.WordsValue
import Ruint.Model.Log
import Ruint.Model.Root
import Ruint.Gen.WordsLog
import Ruint.Gen.WordsRoot
/-! Driver for C13: evaluates the models (`Ruint.Pow.*`, `Ruint.Log.*`, `Ruint.Root.*`) and the spec
    (independent ℕ arithmetic). The float-derived first guesses of `log`/`root` are read from the
    implementation's output line (`e<hex>` / `g<hex>`), the models run **from that estimate**, and the
    hypotheses of `log_spec_partial` / `root_spec_partial` are evaluated on it (`pred:false hyp …` when they fail). -/
open Ruint Ruint.Pow Ruint.Log Ruint.Root

namespace Ruint.DrvC13

def resNat : Res Nat → String → String
  | .ok r, tag => toHex r ++ " " ++ tag
  | .panic, _ => "panic"
  | .fuel, _ => "timeout"

def resOpt : Res (Option Nat) → String → String
  | .ok (some r), tag => "some " ++ toHex r ++ " " ++ tag
  | .ok none, _ => "none"
  | .panic, _ => "panic"
  | .fuel, _ => "timeout"

/-- the generated functions (`Gen/WordsLog`, `Gen/WordsRoot`) are the model column; `none` = panic. A run on which the
    hand model runs out of fuel is reported as `timeout` (the ties `gen_log_eq` / `gen_root_eq` are stated off that case). -/
def genNat {α : Type} (hand : Res α) (g : Option Nat) (tag : String) : String :=
  match hand with
  | .fuel => "timeout"
  | _ => match g with
    | some r => toHex r ++ " " ++ tag
    | none => "panic"

def genOpt {α : Type} (hand : Res α) (g : Option (Option Nat)) (tag : String) : String :=
  match hand with
  | .fuel => "timeout"
  | _ => match g with
    | some (some r) => "some " ++ toHex r ++ " " ++ tag
    | some none => "none"
    | none => "panic"

/-- the `e<hex>` / `g<hex>` token of the implementation's output, if any (`-` = not reached). -/
def tapOf (impl : String) (c : Char) : Option (Option Nat) :=
  match ((impl.splitOn " ").reverse.take 1).filter (fun t => t.length ≥ 2 && t.front == c) with
  | t :: _ =>
    let body := (t.drop 1).toString
    if body = "-" then some none
    else if body = "!" then none
    else some (some (parseHex body))
  | [] => none

/-- value part of the implementation's output (`some <hex> e..`, `<hex> e..`, `none`, `panic`). -/
def implVal (impl : String) : Option (Option Nat) :=
  match impl.splitOn " " with
  | ["none"] => some none
  | "some" :: v :: _ => some (some (parseHex v))
  | v :: _ :: _ => some (some (parseHex v))
  | _ => none

/-- does `log x base` reach the float estimate? -/
def logNeedsEst (bits x base : Nat) : Bool :=
  x != 0 && decide (2 < 2 ^ bits) && decide (2 < base) && decide (base ≤ x)

/-- judge a log-family output. `checked`: the checked form; `want`: `none` when the property demands
    `None` (checked) / does not pin the outcome (unchecked), else the floor log. -/
def judgeLog (bits x base : Nat) (checked : Bool) (impl : String) (est : Option Nat) : String :=
  if x = 0 || base < 2 then
    if checked then (if impl = "none" then "pred:true" else "pred:false want none") else "any"
  else
    let L := ilog base x
    let isSome := impl.startsWith "some "
    match implVal impl with
    | some (some r) =>
      if checked != isSome then "pred:false want " ++ (if checked then "some " else "") ++ toHex L
      else if r != L then "pred:false want " ++ toHex L
      else match est with
        | some e => if estOk bits base e L then "pred:true"
                    else "pred:false hyp est=" ++ toHex e ++ " floor_log=" ++ toHex L
        | none => "pred:true"
    | _ => "pred:false want " ++ (if checked then "some " else "") ++ toHex L

def handleLog (op : String) (bits x base : Nat) (impl : String) : String × String :=
  let checked := op.startsWith "c"
  let cst : Option Nat := if op.endsWith "log2" then some 2 else if op.endsWith "log10" then some 10 else none
  -- does the model reach the estimate?
  let reach : Bool := match cst with
    | some c => decide (c < 2 ^ bits) && logNeedsEst bits x c && (!checked || decide (2 ≤ bitLen c))
    | none => logNeedsEst bits x base && (!checked || decide (2 ≤ bitLen base))
  let tap := tapOf impl 'e'
  let spec := judgeLog bits x base checked impl (match tap with | some (some e) => some e | _ => none)
  if reach then
    match tap with
    | some (some e) =>
      let tag := "e" ++ toHex e
      let f := e + bits + 3
      let m := match op with
        | "log" => genNat (Log.log bits x base e) (Ruint.Gen.val_log f bits 0 x base e) tag
        | "clog" => genOpt (checkedLog bits x base e) (Ruint.Gen.val_checked_log f bits 0 x base e) tag
        | "log2" => genNat (Log.log2 bits x e) (Ruint.Gen.val_log2 f bits 0 x e) tag
        | "log10" => genNat (Log.log10 bits x e) (Ruint.Gen.val_log10 f bits 0 x e) tag
        | "clog2" => genOpt (checkedLog2 bits x e) (Ruint.Gen.val_checked_log2 f bits 0 x e) tag
        | _ => genOpt (checkedLog10 bits x e) (Ruint.Gen.val_checked_log10 f bits 0 x e) tag
      (m, spec)
    | _ =>
      -- the model reaches the float estimate but the implementation reported none: if it panicked / timed
      -- out the spec column already says so; a correct value without an estimate is a broken correspondence
      (if spec.startsWith "pred:false" then "skip" else "needs-estimate", spec)
  else
    let f := bits + 3
    let m := match op with
      | "log" => genNat (Log.log bits x base 0) (Ruint.Gen.val_log f bits 0 x base 0) "e-"
      | "clog" => genOpt (checkedLog bits x base 0) (Ruint.Gen.val_checked_log f bits 0 x base 0) "e-"
      | "log2" => genNat (Log.log2 bits x 0) (Ruint.Gen.val_log2 f bits 0 x 0) "e-"
      | "log10" => genNat (Log.log10 bits x 0) (Ruint.Gen.val_log10 f bits 0 x 0) "e-"
      | "clog2" => genOpt (checkedLog2 bits x 0) (Ruint.Gen.val_checked_log2 f bits 0 x 0) "e-"
      | _ => genOpt (checkedLog10 bits x 0) (Ruint.Gen.val_checked_log10 f bits 0 x 0) "e-"
    (m, spec)

def handleRoot (bits x k : Nat) (impl : String) : String × String :=
  let reach : Bool := k != 0 && x != 0 && decide (k < bits) && k != 1
  let s := iroot x k
  let valOk : Bool := match implVal impl with
    | some (some r) => r == s
    | _ => false
  if !reach then
    let m := genNat (root bits x k 0) (Ruint.Gen.val_root (rootFuel x 0 + bits + 3) bits 0 x k 0) "g-"
    (m, if k = 0 then "any" else if valOk then "pred:true" else "pred:false want " ++ toHex s)
  else
    match tapOf impl 'g' with
    | some (some g) =>
      let m := genNat (root bits x k g) (Ruint.Gen.val_root (rootFuel x g + bits + 3) bits 0 x k g) ("g" ++ toHex g)
      let spec :=
        if !valOk then "pred:false want " ++ toHex s
        else if guessOk bits x k g s then "pred:true"
        else "pred:false hyp guess=" ++ toHex g ++ " floor_root=" ++ toHex s
      (m, spec)
    | _ =>
      -- the model reaches the Newton loop but the implementation reported no first guess
      if valOk then ("needs-guess", "pred:true") else ("skip", "pred:false want " ++ toHex s)

/-- signed decimal -/
def parseInt (s : String) : Int :=
  if s.startsWith "-" then - (parseDec (s.drop 1).toString : Int) else (parseDec s : Int)

def optStr : Option Nat → String
  | some v => "some " ++ toHex v
  | none => "none"

/-- `approx_log2` is a libm result: no model. The spec column checks the bracket
    `bit_len − 1 ≤ result ≤ bit_len` (exact rational comparison on the decoded binary64), `-inf` for 0. -/
def judgeAlog2 (x : Nat) (impl : String) : String :=
  if x = 0 then (if impl = "fff0000000000000" then "pred:true" else "pred:false want -inf")
  else
    let b := parseHex impl
    let sign := b / 2 ^ 63
    let E := (b / 2 ^ 52) % 2048
    let frac := b % 2 ^ 52
    let n := Nat.log2 x
    if sign != 0 || E == 2047 then "pred:false negative-or-nonfinite"
    else
      -- value = M * 2^(E-1075)  (M = 2^52 + frac for normal numbers; 0.0 has E = 0, frac = 0)
      let M := if E = 0 then frac else 2 ^ 52 + frac
      let ex := if E = 0 then 1 else E
      -- compare M * 2^ex with n * 2^1075 and (n+1) * 2^1075
      let v := M * 2 ^ ex
      if n * 2 ^ 1075 ≤ v && v ≤ (n + 1) * 2 ^ 1075 then "pred:true"
      else "pred:false want floor_log2=" ++ toHex n

def handle (args : List String) (impl : String) : String × String :=
  match args with
  | [op, bs, as, es] =>
    let bits := parseDec bs
    let a := parseHex as
    let e := parseHex es
    let m := 2 ^ bits
    match op with
    | "opow" | "cpow" | "spow" | "wpow" | "pow" =>
      let sp := specPow m a e
      -- `BITS == 0`: the documented result is `(0, false)`
      let ov : Bool := bits != 0 && decide (m ≤ sp.2)
      match op with
      | "opow" =>
        -- the wrapper GENERATED from src/pow.rs in value mode (`Props/C13.gen_overflowing_pow_eq`)
        let r := Ruint.Gen.val_overflowing_pow (e + 1) bits (nlimbs bits) a e
        (toHex r.1 ++ " " ++ boolStr r.2, toHex sp.1 ++ " " ++ boolStr ov)
      | "cpow" =>
        ((match Ruint.Gen.val_checked_pow (e + 1) bits (nlimbs bits) a e with | some v => "some " ++ toHex v | none => "none"),
         if ov then "none" else "some " ++ toHex sp.1)
      | "spow" => (toHex (Ruint.Gen.val_saturating_pow (e + 1) bits (nlimbs bits) a e), toHex (if ov then m - 1 else sp.1))
      | "wpow" => (toHex (Ruint.Gen.val_wrapping_pow (e + 1) bits (nlimbs bits) a e), toHex sp.1)
      | _ => (toHex (Ruint.Gen.val_pow (e + 1) bits (nlimbs bits) a e), toHex sp.1)
    | "log" | "clog" => handleLog op bits a e impl
    | "root" => handleRoot bits a e impl
    -- L1 operations used by the loop bodies: model = the value-level function the L2 models call
    | "l1mul" =>
      let r := omul m a e
      (toHex r.1 ++ " " ++ boolStr r.2, toHex (a * e % m) ++ " " ++ boolStr (decide (m ≤ a * e)))
    | "l1wmul" => (toHex ((a * e) % m), toHex (a * e % m))
    | "l1wadd" => (toHex ((a + e) % m), toHex ((a + e) % m))
    | "l1div" => if e = 0 then ("panic", "any") else (toHex (a / e), toHex (a / e))
    | _ => ("bad-op", "bad-op")
  | [op, bs, as] =>
    let bits := parseDec bs
    let x := parseHex as
    match op with
    | "log2" | "clog2" => handleLog op bits x 2 impl
    | "log10" | "clog10" => handleLog op bits x 10 impl
    | "l1sshl1" => (toHex (sshl1 bits x), toHex (min (2 * x) (2 ^ bits - 1)))
    | "l1cadd1" =>
      -- `checked_add(Self::ONE)`; `ONE` is `0` at `BITS = 0`
      let one := if bits = 0 then 0 else 1
      ((if x + one < 2 ^ bits then "some " ++ toHex (x + one) else "none"),
       (if x + one ≥ 2 ^ bits then "none" else "some " ++ toHex (x + one)))
    | "l1bitlen" => (toHex (bitLen x), toHex (if x = 0 then 0 else Nat.log2 x + 1))
    | "alog2" => ("skip", judgeAlog2 x impl)
    | "apow2" =>
      -- `impl` = `<result> <class>`; the class (float pre-processing) is an input of the integer model
      let toks := impl.splitOn " "
      let res := if toks.head? = some "some" then " ".intercalate (toks.take 2) else (toks.head?.getD "")
      let cls := if toks.head? = some "some" then toks.drop 2 else toks.drop 1
      match cls with
      | ["neg"] => ("some 0 neg", if res = "some 0" then "pred:true" else "pred:false want some 0")
      | ["one"] =>
        let w := if bits = 0 then "none" else "some 1"
        (w ++ " one", if res = w then "pred:true" else "pred:false want " ++ w)
      | ["big"] => ("none big", if res = "none" then "pred:true" else "pred:false want none")
      | [mt, st] =>
        let mant := parseHex (mt.drop 1).toString
        let shift := parseHex (st.drop 1).toString
        -- independent formula: exact product, or round-half-up quotient
        let v := if shift ≥ 63 then mant * 2 ^ (shift - 63) else (2 * mant + 2 ^ (63 - shift)) / 2 ^ (64 - shift)
        let w := if v < 2 ^ bits then "some " ++ toHex v else "none"
        (optStr (approxPow2Post bits mant shift) ++ " " ++ mt ++ " " ++ st,
         if res = w then "pred:true" else "pred:false want " ++ w)
      | _ => ("skip", "any")
    | "apow2i" =>
      let n := parseInt as
      let spec : Option Nat :=
        if n ≤ -2 then some 0
        else if n ≤ 0 then (if bits = 0 then none else some 1)
        else if n < (bits : Int) then some (2 ^ n.toNat) else none
      (optStr (approxPow2Int bits n), optStr spec)
    | _ => ("bad-op", "bad-op")
  | _ => ("bad-op", "bad-op")

end Ruint.DrvC13

def main : IO Unit := Ruint.driverMain Ruint.DrvC13.handle
