import Ruint.Model.Facade
/-!
Driver for C20 (facade parity).

The harness (`harness/src/bin/c20.rs`) prints `F|I` per case: F = facade result, I = result of the
corresponding inherent method / plain comparison, both computed in the same process, each side in its
own `catch_unwind`.

* **spec column** — the PARITY PREDICATE on `F|I`. `pred:true` iff
  (a) `F = I`, or
  (b) the op is an "unwrap" op — the facade's signature cannot express the failure that the inherent
      method reports as `None` — and (`I = some X ∧ F = X`) or (`I = none ∧ F = panic`), or
  (c) op = `ct.bit` with index ≥ bits, `F = panic`, `I = f`
      (documented: `bit_ct` panics for index ≥ BITS while `bit` returns false), or
  (d) op = `ni.next_multiple_of` (trait-provided default of num-integer, wraps on overflow) and
      `I = panic` (the inherent method panics on overflow) — and in that case F must still be the
      value of the default's model (`Facade.nextMultipleOf`), or
  (e) op = `nt.PrimInt.pow` with a `u32` exponent that is not representable at the width (the inherent
      `pow` takes a `Uint` exponent; the harness prints `unrepresentable-exponent` for I): F must be
      `a^e mod 2^bits` (`Facade.powU32`).
  Nothing else is excused.
* **model column** — for the facades with logic of their own (`Ruint.Facade.*`, the functions the
  theorems of `Props/C20.lean` are about) and for the operator / shift / arithmetic families, the
  expected `F|I` computed from the models resp. from plain `Nat` arithmetic; `skip` for the remaining
  pure forwards (their check is the parity predicate alone).
-/
open Ruint Ruint.Facade

namespace Ruint.DrvC20

/-- Ops whose facade returns a bare value where the inherent counterpart returns an `Option`
    (the facade unwraps): `Integer::lcm` / the default `Integer::gcd_lcm` (calls `lcm`);
    `FromBytes::from_{le,be}_bytes` and the default `from_ne_bytes`; `PrimInt::swap_bytes` and
    `to_be` / `from_be` (= `swap_bytes` on a little-endian host). -/
def unwrapOps : List String :=
  ["ni.lcm", "ni.gcd_lcm",
   "nt.FromBytes.from_le_bytes", "nt.FromBytes.from_be_bytes", "nt.FromBytes.from_ne_bytes",
   "nt.PrimInt.swap_bytes", "nt.PrimInt.to_be", "nt.PrimInt.from_be"]

/-- split the harness output `F|I`. -/
def splitFI (s : String) : Option (String × String) :=
  match s.splitOn "|" with
  | [f, i] => some (f, i)
  | _ => none

/-- the parity predicate. -/
def parity (op : String) (bits : Nat) (rest : List String) (f i : String) : Bool :=
  f == i
  || (unwrapOps.contains op && (i == "some " ++ f || (i == "none" && f == "panic")))
  || (op == "ct.bit" && f == "panic" && i == "f" &&
        (match rest with
         | [_, n] => decide (bits ≤ parseHex n)
         | _ => false))
  || (op == "nt.PrimInt.pow" && i == "unrepresentable-exponent" &&
        (match rest with
         | [a, n] => f == toHex (powU32 bits (parseHex a) (parseHex n % 2 ^ 32))
         | _ => false))
  || (op == "ni.next_multiple_of" && i == "panic" &&
        (match rest with
         | [a, b] => f == (match nextMultipleOf bits (parseHex a) (parseHex b) with
                           | some v => toHex v | none => "panic")
         | _ => false))

/-! ## expected outputs -/

def same (s : String) : String := s ++ "|" ++ s
def v2 (x : Nat) : String := same (toHex x)
def pp : String := "panic|panic"
def ov (o : Option Nat) : String := match o with | some x => v2 x | none => pp
def so (o : Option Nat) : String := match o with | some x => same ("some " ++ toHex x) | none => same "none"
/-- facade unwraps, inherent returns the Option -/
def uw (o : Option Nat) : String := match o with
  | some x => toHex x ++ "|some " ++ toHex x
  | none => "panic|none"
def fl (x : Nat) (b : Bool) : String := same (toHex x ++ " " ++ boolStr b)
def bs (b : Bool) : String := same (boolStr b)

/-- `n as T` then `as usize`, for the primitive integer type named `t` (`n` is a u64/u128 pattern). -/
def castAmt (t : String) (n : Nat) : Nat :=
  let w := match t with
    | "u8" | "i8" => 8 | "u16" | "i16" => 16 | "u32" | "i32" => 32 | _ => 64
  let v := n % 2 ^ w
  if t.startsWith "i" && v ≥ 2 ^ (w - 1) then 2 ^ 64 - (2 ^ w - v) else v

/-- `k as T` as a mathematical integer (`k` is a u128 pattern). -/
def castInt (t : String) (k : Nat) : Int :=
  let w := match t with
    | "u8" | "i8" => 8 | "u16" | "i16" => 16 | "u32" | "i32" => 32 | "u128" | "i128" => 128 | _ => 64
  let v := k % 2 ^ w
  if t.startsWith "i" && v ≥ 2 ^ (w - 1) then Int.ofNat v - Int.ofNat (2 ^ w) else Int.ofNat v

/-- value bits of the primitive target type. -/
def capOf (t : String) : Nat :=
  match t with
  | "u8" => 8 | "i8" => 7 | "u16" => 16 | "i16" => 15 | "u32" => 32 | "i32" => 31
  | "u128" => 128 | "i128" => 127 | "u64" | "usize" => 64 | _ => 63

def shl (bits a k : Nat) : Nat := if k ≥ bits then 0 else (a * 2 ^ k) % 2 ^ bits
def shr (bits a k : Nat) : Nat := if k ≥ bits then 0 else a / 2 ^ k
def shlLost (bits a k : Nat) : Bool := if k ≥ bits then a != 0 else decide (2 ^ bits ≤ a * 2 ^ k)
def shrLost (bits a k : Nat) : Bool := if k ≥ bits then a != 0 else decide (a % 2 ^ k ≠ 0)
def rotl (bits a n : Nat) : Nat :=
  if bits = 0 then 0 else
    let r := n % bits
    (shl bits a r ||| shr bits a (bits - r)) % 2 ^ bits
def rotr (bits a n : Nat) : Nat :=
  if bits = 0 then 0 else rotl bits a (bits - n % bits)
def ashr (bits a k : Nat) : Nat :=
  if bits = 0 then 0 else
    let r := shr bits a k
    if a.testBit (bits - 1) then r ||| shl bits (2 ^ bits - 1) (bits - min k bits) else r

def popcount (bits a : Nat) : Nat := (List.range bits).foldl (fun c i => if a.testBit i then c + 1 else c) 0
def bitLenN (a : Nat) : Nat := if a = 0 then 0 else Nat.log2 a + 1
def ctz (bits a : Nat) : Nat :=
  if a = 0 then bits else ((List.range bits).find? (fun i => a.testBit i)).getD bits
def revBits (bits a : Nat) : Nat :=
  (List.range bits).foldl (fun r i => if a.testBit i then r + 2 ^ (bits - 1 - i) else r) 0

def hexByte (b : Nat) : String := String.ofList [hexChar (b / 16), hexChar (b % 16)]
def bytesStr (l : List Nat) : String := if l.isEmpty then "-" else String.join (l.map hexByte)
def parseBytes (s : String) : List Nat :=
  if s = "-" then [] else
    let cs := s.toList
    (List.range (cs.length / 2)).map fun i => hexVal (cs.getD (2 * i) '0') * 16 + hexVal (cs.getD (2 * i + 1) '0')

def parseList (s : String) : List Nat := if s = "-" then [] else (s.splitOn ",").map parseHex

/-- ops without operands -/
def e0 (op : String) (bits : Nat) : String :=
  match op with
  | "nt.Zero.zero" | "nt.Bounded.min_value" | "nt.LowerBounded.min_value" | "bits.default" => v2 0
  | "nt.One.one" => v2 (one bits)
  | "nt.Bounded.max_value" | "nt.UpperBounded.max_value" => v2 (2 ^ bits - 1)
  | _ => "skip"

/-- ops with one operand token -/
def e1 (op : String) (parts : List String) (bits : Nat) (a : String) : String :=
  let m := 2 ^ bits
  let x := parseHex a
  match parts with
  | ["neg", _] => v2 (wsub bits 0 x)
  | ["not", _] | ["bits", "not", _] => v2 (m - 1 - x)
  | ["sum", _] => v2 (sum bits (parseList a))
  | ["prod", _] => v2 (product bits (parseList a))
  | ["nt", "NumCast", "from", t] => so (fromPrim bits (castInt t x))
  | ["nt", "ToPrimitive", t] => so (toPrim (capOf (t.drop 3).toString) x)
  | ["nt", "FromPrimitive", t] => so (fromPrim bits (castInt (t.drop 5).toString x))
  | _ =>
    match op with
    | "ni.is_even" => bs (isEven bits x)
    | "ni.is_odd" => bs (isOdd bits x)
    | "ni.inc" => v2 (inc bits x)
    | "ni.dec" => v2 (dec bits x)
    | "zeroize.uint" | "zeroize.bits" | "nt.Zero.set_zero" => v2 0
    | "bits.leading_zeros" | "nt.PrimInt.leading_zeros" => v2 (bits - bitLenN x)
    | "bits.trailing_zeros" | "nt.PrimInt.trailing_zeros" => v2 (ctz bits x)
    | "bits.leading_ones" | "nt.PrimInt.leading_ones" => v2 (bits - bitLenN (m - 1 - x))
    | "bits.trailing_ones" | "nt.PrimInt.trailing_ones" => v2 (ctz bits (m - 1 - x))
    | "bits.reverse_bits" | "nt.PrimInt.reverse_bits" => v2 (revBits bits x)
    | "bits.into_inner" | "bits.as_uint" | "bits.from_uint" | "nt.PrimInt.to_le" | "nt.PrimInt.from_le" => v2 x
    | "bits.to_be_bytes_vec" | "bits.to_be_bytes" | "nt.ToBytes.to_be_bytes" =>
      same (bytesStr (beBytes (nbytes bits) x))
    | "bits.as_le_bytes" | "bits.to_le_bytes" | "nt.ToBytes.to_le_bytes" | "nt.ToBytes.to_ne_bytes" =>
      same (bytesStr (leBytes (nbytes bits) x))
    | "bits.try_from_be_slice" => so (tryFromBe bits (parseBytes a))
    | "bits.try_from_le_slice" => so (tryFromBe bits (parseBytes a).reverse)
    | "nt.FromBytes.from_be_bytes" => uw (tryFromBe bits (parseBytes a))
    | "nt.FromBytes.from_le_bytes" | "nt.FromBytes.from_ne_bytes" => uw (tryFromBe bits (parseBytes a).reverse)
    | "nt.CheckedNeg.checked_neg" => so (if x = 0 then some 0 else none)
    | "nt.WrappingNeg.wrapping_neg" => v2 (wsub bits 0 x)
    | "nt.Zero.is_zero" => bs (decide (x = 0))
    | "nt.One.is_one" => bs (decide (x = one bits))
    | "nt.One.set_one" => v2 (one bits)
    | "nt.PrimInt.count_ones" => v2 (popcount bits x)
    | "nt.PrimInt.count_zeros" => v2 (bits - popcount bits x)
    | "nt.PrimInt.swap_bytes" | "nt.PrimInt.to_be" | "nt.PrimInt.from_be" => uw (swapBytes bits x)
    | _ => "skip"

def binop (bits : Nat) (o : String) (a b : Nat) : String :=
  match o with
  | "add" => v2 (wadd bits a b)
  | "sub" => v2 (wsub bits a b)
  | "mul" => v2 (wmul bits a b)
  | "div" => ov (wdiv a b)
  | "rem" => ov (wrem a b)
  | "and" => v2 (a &&& b)
  | "or" => v2 (a ||| b)
  | "xor" => v2 (a ^^^ b)
  | "shl" => v2 (shl bits a b)
  | "shr" => v2 (shr bits a b)
  | _ => "skip"

/-- ops with two operand tokens -/
def e2 (op : String) (parts : List String) (bits : Nat) (a b : String) : String :=
  let m := 2 ^ bits
  let x := parseHex a
  let y := parseHex b
  let limbs := fun (v : Nat) => toLimbs (nlimbs bits) v
  match parts with
  | ["shl", t, _] => v2 (shl bits x (castAmt t y))
  | ["shr", t, _] => v2 (shr bits x (castAmt t y))
  | ["shlU", _] | ["shlU", "big", _] => toHex (shlUint bits x (limbs y)) ++ "|" ++ toHex (shl bits x y)
  | ["shrU", _] | ["shrU", "big", _] => toHex (shrUint bits x (limbs y)) ++ "|" ++ toHex (shr bits x y)
  | ["bits", o, _] => binop bits o x y
  | [o, _] =>
    if ["add", "sub", "mul", "div", "rem", "and", "or", "xor"].contains o then binop bits o x y
    else match op with
      | "ct.eq" => bs (ctEq (limbs x) (limbs y))
      | "ct.ne" => bs (!ctEq (limbs x) (limbs y))
      | "ct.gt" => bs (ctGt (limbs x) (limbs y))
      | "ct.lt" => bs (ctLt (limbs x) (limbs y))
      | "ct.negate" => v2 (if y != 0 then wsub bits 0 x else x)
      | "ct.bit" =>
        (match bitCt bits (limbs x) y with
         | some r => boolStr r | none => "panic") ++ "|" ++ boolStr (bit bits (limbs x) y)
      | "ni.div_floor" => ov (wdiv x y)
      | "ni.mod_floor" => ov (wrem x y)
      | "ni.gcd" => v2 (Nat.gcd x y)
      | "ni.lcm" => uw (lcmInh bits x y)
      | "ni.gcd_lcm" =>
        (match lcmInh bits x y with
         | some l => let s := toHex (Nat.gcd x y) ++ " " ++ toHex l; s ++ "|some " ++ s
         | none => "panic|none")
      | "ni.is_multiple_of" | "ni.divides" => bs (isMultipleOf x y)
      | "ni.div_rem" | "ni.div_mod_floor" => if y = 0 then pp else same (toHex (x / y) ++ " " ++ toHex (x % y))
      | "ni.div_ceil" => if y = 0 then pp else v2 (wadd bits (x / y) (if x % y = 0 then 0 else one bits))
      | "ni.prev_multiple_of" => ov (prevMultipleOf bits x y)
      | "bits.wrapping_shl" => v2 (shl bits x y)
      | "bits.wrapping_shr" => v2 (shr bits x y)
      | "bits.overflowing_shl" => fl (shl bits x y) (shlLost bits x y)
      | "bits.overflowing_shr" => fl (shr bits x y) (shrLost bits x y)
      | "bits.checked_shl" => so (if shlLost bits x y then none else some (shl bits x y))
      | "bits.checked_shr" => so (if shrLost bits x y then none else some (shr bits x y))
      | "bits.rotate_left" => v2 (rotl bits x y)
      | "bits.rotate_right" => v2 (rotr bits x y)
      | "bits.index" => bs (decide (y < bits) && x.testBit y)
      | "bits.eq" => bs (decide (x = y))
      | "bits.as_uint_mut" => v2 y
      | _ => "skip"
  | _ =>
    match op with
    | "nt.CheckedAdd.checked_add" => so (if x + y < m then some (x + y) else none)
    | "nt.CheckedSub.checked_sub" => so (if y ≤ x then some (x - y) else none)
    | "nt.CheckedMul.checked_mul" => so (if x * y < m then some (x * y) else none)
    | "nt.CheckedDiv.checked_div" | "nt.CheckedEuclid.checked_div_euclid" => so (wdiv x y)
    | "nt.CheckedRem.checked_rem" | "nt.CheckedEuclid.checked_rem_euclid" => so (wrem x y)
    | "nt.CheckedEuclid.checked_div_rem_euclid" =>
      if y = 0 then same "none" else same ("some " ++ toHex (x / y) ++ " " ++ toHex (x % y))
    | "nt.Euclid.div_euclid" => ov (wdiv x y)
    | "nt.Euclid.rem_euclid" => ov (wrem x y)
    | "nt.Euclid.div_rem_euclid" => if y = 0 then pp else same (toHex (x / y) ++ " " ++ toHex (x % y))
    | "nt.Saturating.saturating_add" | "nt.SaturatingAdd.saturating_add" => v2 (min (x + y) (m - 1))
    | "nt.Saturating.saturating_sub" | "nt.SaturatingSub.saturating_sub" => v2 (x - y)
    | "nt.SaturatingMul.saturating_mul" => v2 (min (x * y) (m - 1))
    | "nt.WrappingAdd.wrapping_add" => v2 (wadd bits x y)
    | "nt.WrappingSub.wrapping_sub" => v2 (wsub bits x y)
    | "nt.WrappingMul.wrapping_mul" => v2 (wmul bits x y)
    | "nt.OverflowingAdd.overflowing_add" => fl (wadd bits x y) (decide (m ≤ x + y))
    | "nt.OverflowingSub.overflowing_sub" => fl (wsub bits x y) (decide (x < y))
    | "nt.OverflowingMul.overflowing_mul" => fl (wmul bits x y) (decide (m ≤ x * y))
    | "nt.Pow.pow" => v2 (wpow bits x y)
    | "nt.CheckedShl.checked_shl" =>
      let k := y % 2 ^ 32; so (if shlLost bits x k then none else some (shl bits x k))
    | "nt.CheckedShr.checked_shr" =>
      let k := y % 2 ^ 32; so (if shrLost bits x k then none else some (shr bits x k))
    | "nt.WrappingShl.wrapping_shl" | "nt.PrimInt.signed_shl" | "nt.PrimInt.unsigned_shl" => v2 (shl bits x (y % 2 ^ 32))
    | "nt.WrappingShr.wrapping_shr" | "nt.PrimInt.unsigned_shr" => v2 (shr bits x (y % 2 ^ 32))
    | "nt.PrimInt.signed_shr" => v2 (ashr bits x (y % 2 ^ 32))
    | "nt.PrimInt.rotate_left" => v2 (rotl bits x (y % 2 ^ 32))
    | "nt.PrimInt.rotate_right" => v2 (rotr bits x (y % 2 ^ 32))
    | "nt.PrimInt.pow" =>
      let e := y % 2 ^ 32
      toHex (powU32 bits x e) ++ "|" ++ (if e < m then toHex (wpow bits x e) else "unrepresentable-exponent")
    | _ => "skip"

/-- ops with three operand tokens -/
def e3 (op : String) (bits : Nat) (a b c : String) : String :=
  let limbs := fun (v : Nat) => toLimbs (nlimbs bits) v
  let x := limbs (parseHex a); let y := limbs (parseHex b); let ch := parseHex c != 0
  match op with
  | "nt.MulAdd.mul_add" | "nt.MulAddAssign.mul_add_assign" => v2 (mulAdd bits (parseHex a) (parseHex b) (parseHex c))
  | "ct.select" | "ct.assign" => v2 (val (conditionalSelect x y ch))
  | "ct.swap" => same (toHex (val (conditionalSelect x y ch)) ++ " " ++ toHex (val (conditionalSelect y x ch)))
  | _ => "skip"

/-- expected `F|I`, or `skip`. -/
def expect (op : String) (bits : Nat) (rest : List String) : String :=
  let parts := op.splitOn "."
  match rest with
  | [] => e0 op bits
  | [a] => e1 op parts bits a
  | [a, b] => e2 op parts bits a b
  | [a, b, c] => e3 op bits a b c
  | _ => "skip"

def handle (args : List String) (impl : String) : String × String :=
  match args, splitFI impl with
  | op :: bs :: rest, some (f, i) =>
    let bits := parseDec bs
    let spec := if parity op bits rest f i then "pred:true"
      else "pred:false facade=" ++ f ++ " inherent=" ++ i
    (expect op bits rest, spec)
  | _, _ => ("bad-op", "bad-op")

end Ruint.DrvC20

def main : IO Unit := Ruint.driverMain Ruint.DrvC20.handle
