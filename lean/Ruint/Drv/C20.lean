import Ruint.Base
/-!
Driver for C20 (facade parity), first version: no model yet (`model = "skip"`); the spec column is the
PARITY PREDICATE evaluated on the harness output `F|I`
(F = facade result, I = result of the corresponding inherent method / plain comparison, both computed
in the same process by `harness/src/bin/c20.rs`, each side in its own `catch_unwind`).

`pred:true` iff
 (a) `F = I`, or
 (b) the op is an "unwrap" op — the facade's signature cannot express the failure that the inherent
     method reports as `None` — and (`I = some X ∧ F = X`) or (`I = none ∧ F = panic`), or
 (c) op = `ct.bit` with index ≥ bits, `F = panic`, `I = f`
     (documented: `bit_ct` panics for index ≥ BITS while `bit` returns false), or
 (d) op = `ni.next_multiple_of` (trait-provided default of num-integer, wraps on overflow) and
     `I = panic` (the inherent method panics on overflow / is `todo!()` on the pinned tree).
Nothing else is excused.
-/
open Ruint

namespace Ruint.DrvC20

/-- Ops whose facade returns a bare value where the inherent counterpart returns an `Option`
    (the facade unwraps): `Integer::lcm` / the default `Integer::gcd_lcm` (calls `lcm`);
    `FromBytes::from_{le,be}_bytes` and the default `from_ne_bytes`; `PrimInt::swap_bytes` and
    `to_be` / `from_be` (= `swap_bytes` on a little-endian host). -/
def unwrapOps : List String :=
  ["ni.lcm", "ni.gcd_lcm",
   "nt.FromBytes.from_le_bytes", "nt.FromBytes.from_be_bytes", "nt.FromBytes.from_ne_bytes",
   "nt.PrimInt.swap_bytes", "nt.PrimInt.to_be", "nt.PrimInt.from_be"]

/-- split the harness output `F|I`. -/
def splitFI (s : String) : Option (String × String) :=
  match s.splitOn "|" with
  | [f, i] => some (f, i)
  | _ => none

/-- the parity predicate. -/
def parity (op : String) (bits : Nat) (rest : List String) (f i : String) : Bool :=
  f == i
  || (unwrapOps.contains op && (i == "some " ++ f || (i == "none" && f == "panic")))
  || (op == "ct.bit" && f == "panic" && i == "f" &&
        (match rest with
         | [_, n] => decide (bits ≤ parseHex n)
         | _ => false))
  || (op == "ni.next_multiple_of" && i == "panic")

def handle (args : List String) (impl : String) : String × String :=
  match args, splitFI impl with
  | op :: bs :: rest, some (f, i) =>
    if parity op (parseDec bs) rest f i then ("skip", "pred:true")
    else ("skip", "pred:false facade=" ++ f ++ " inherent=" ++ i)
  | _, _ => ("bad-op", "bad-op")

end Ruint.DrvC20

def main : IO Unit := Ruint.driverMain Ruint.DrvC20.handle
