import Ruint.Drv.Codec
/-! Driver for C16 (codec round trips, advertised lengths, reference encodings). -/
def main : IO Unit := Ruint.driverMain Ruint.DrvCodec.handle
