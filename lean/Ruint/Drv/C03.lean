import Ruint.Model.DivUint
/-! Driver for C03: model = `Ruint.DivU.*` (over the C14 `div` model), spec = `Nat` `/`, `%`.

Case lines `op bits n d` (hex values):
`divrem` → `q r` | `panic`; `wdiv|div0..5`, `wrem|rem0..5`, `divceil`, `nmo` → value | `panic`;
`cdiv`, `crem`, `cnmo` → `some v` | `none` (| `panic`). -/
open Ruint Ruint.DivU

namespace Ruint.DrvC03

def u (bits : Nat) (s : String) : List Nat := toLimbs (nlimbs bits) (parseHex s)
def out (l : List Nat) : String := toHex (val l)
def outP : Option (List Nat) → String
  | some v => out v
  | none => "panic"
def outPO : Option (Option (List Nat)) → String
  | some (some v) => "some " ++ out v
  | some none => "none"
  | none => "panic"

def handle (args : List String) (_impl : String) : String × String :=
  match args with
  | [op, bs, as, ds] =>
    let bits := parseDec bs
    let a := u bits as; let b := u bits ds
    let x := parseHex as; let y := parseHex ds
    let m := 2 ^ bits
    -- least multiple of y that is >= x
    let nm := (x + y - 1) / y * y
    match op with
    | "divrem" =>
      (match divRem bits a b with
        | some (q, r) => out q ++ " " ++ out r
        | none => "panic",
       if y = 0 then "panic" else toHex (x / y) ++ " " ++ toHex (x % y))
    | "wdiv" | "div0" | "div1" | "div2" | "div3" | "div4" | "div5" =>
      (outP (wrappingDiv bits a b), if y = 0 then "panic" else toHex (x / y))
    | "wrem" | "rem0" | "rem1" | "rem2" | "rem3" | "rem4" | "rem5" =>
      (outP (wrappingRem bits a b), if y = 0 then "panic" else toHex (x % y))
    | "cdiv" => (outPO (checkedDiv bits a b), if y = 0 then "none" else "some " ++ toHex (x / y))
    | "crem" => (outPO (checkedRem bits a b), if y = 0 then "none" else "some " ++ toHex (x % y))
    | "divceil" => (outP (divCeil bits a b), if y = 0 then "panic" else toHex ((x + y - 1) / y))
    | "cnmo" => (outPO (checkedNextMultipleOf bits a b),
        if y = 0 then "none" else if nm < m then "some " ++ toHex nm else "none")
    | "nmo" => (outP (nextMultipleOf bits a b),
        if y = 0 then "panic" else if nm < m then toHex nm else "panic")
    | _ => ("bad-op", "bad-op")
  | _ => ("bad-op", "bad-op")

end Ruint.DrvC03

def main : IO Unit := Ruint.driverMain Ruint.DrvC03.handle
