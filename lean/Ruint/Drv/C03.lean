import Ruint.Model.DivUint
import Ruint.Gen.WordsUintDiv
/-! Driver for C03: model = the `Uint` division surface GENERATED from `src/div.rs` / `src/special.rs` / `src/cmp.rs`
(`Ruint.Gen.uint_*`, over the generated `algorithms::div`, Knuth D and the small divisions; `Props/C03.gen_*_eq` prove
them equal to the hand models `Ruint.DivU.*` on canonical operands, which is where the driver uses them), spec = `Nat` `/`, `%`.

Case lines `op bits n d` (hex values):
`divrem` → `q r` | `panic`; `wdiv|div0..5`, `wrem|rem0..5`, `divceil`, `nmo` → value | `panic`;
`cdiv`, `crem`, `cnmo` → `some v` | `none` (| `panic`). -/
open Ruint Ruint.DivU

namespace Ruint.DrvC03

def u (bits : Nat) (s : String) : List Nat := toLimbs (nlimbs bits) (parseHex s)
def out (l : List Nat) : String := toHex (val l)
def outP : Option (List Nat) → String
  | some v => out v
  | none => "panic"
def outPO : Option (Option (List Nat)) → String
  | some (some v) => "some " ++ out v
  | some none => "none"
  | none => "panic"

def handle (args : List String) (_impl : String) : String × String :=
  match args with
  | [op, bs, as, ds] =>
    let bits := parseDec bs
    let a := u bits as; let b := u bits ds
    let x := parseHex as; let y := parseHex ds
    let m := 2 ^ bits
    -- least multiple of y that is >= x
    let nm := (x + y - 1) / y * y
    let L := nlimbs bits
    let f := 3 * L + 2
    -- canonical operands (always, for generated cases): the generated functions; otherwise the hand models
    let g := decide (x < m ∧ y < m ∧ L < 2 ^ 62)
    let divRem := fun (bits : Nat) (a b : List Nat) => if g then Ruint.Gen.uint_div_rem f bits L a b else divRem bits a b
    let wrappingDiv := fun (bits : Nat) (a b : List Nat) => if g then Ruint.Gen.uint_wrapping_div f bits L a b else wrappingDiv bits a b
    let wrappingRem := fun (bits : Nat) (a b : List Nat) => if g then Ruint.Gen.uint_wrapping_rem f bits L a b else wrappingRem bits a b
    let checkedDiv := fun (bits : Nat) (a b : List Nat) => if g then Ruint.Gen.uint_checked_div f bits L a b else checkedDiv bits a b
    let checkedRem := fun (bits : Nat) (a b : List Nat) => if g then Ruint.Gen.uint_checked_rem f bits L a b else checkedRem bits a b
    let divCeil := fun (bits : Nat) (a b : List Nat) => if g then Ruint.Gen.uint_div_ceil f bits L a b else divCeil bits a b
    let checkedNextMultipleOf := fun (bits : Nat) (a b : List Nat) =>
      if g then Ruint.Gen.uint_checked_next_multiple_of f bits L a b else checkedNextMultipleOf bits a b
    let nextMultipleOf := fun (bits : Nat) (a b : List Nat) => if g then Ruint.Gen.uint_next_multiple_of f bits L a b else nextMultipleOf bits a b
    match op with
    | "divrem" =>
      (match divRem bits a b with
        | some (q, r) => out q ++ " " ++ out r
        | none => "panic",
       if y = 0 then "panic" else toHex (x / y) ++ " " ++ toHex (x % y))
    | "wdiv" | "div0" | "div1" | "div2" | "div3" | "div4" | "div5" =>
      (outP (wrappingDiv bits a b), if y = 0 then "panic" else toHex (x / y))
    | "wrem" | "rem0" | "rem1" | "rem2" | "rem3" | "rem4" | "rem5" =>
      (outP (wrappingRem bits a b), if y = 0 then "panic" else toHex (x % y))
    | "cdiv" => (outPO (checkedDiv bits a b), if y = 0 then "none" else "some " ++ toHex (x / y))
    | "crem" => (outPO (checkedRem bits a b), if y = 0 then "none" else "some " ++ toHex (x % y))
    | "divceil" => (outP (divCeil bits a b), if y = 0 then "panic" else toHex ((x + y - 1) / y))
    | "cnmo" => (outPO (checkedNextMultipleOf bits a b),
        if y = 0 then "none" else if nm < m then "some " ++ toHex nm else "none")
    | "nmo" => (outP (nextMultipleOf bits a b),
        if y = 0 then "panic" else if nm < m then toHex nm else "panic")
    | _ => ("bad-op", "bad-op")
  | _ => ("bad-op", "bad-op")

end Ruint.DrvC03

def main : IO Unit := Ruint.driverMain Ruint.DrvC03.handle
