import Ruint.Model.Radix
import Ruint.Model.Fmt
import Ruint.Spec.Radix
import Ruint.Spec.Fmt
import Ruint.Gen.WordsRadix
import Ruint.Gen.WordsStr
/-! Driver for C09: model column = `Ruint.Radix.*` / `Ruint.Fmt.*` — for `from_base_le`, `from_base_be` and the digit
spigot the functions GENERATED from `src/base_convert.rs` (`Ruint.Gen.uint_from_base_le`, `uint_from_base_be`,
`spigot_next`; `Props/C09.gen_*_eq` prove them equal to the hand models on word digits, where the driver uses them); spec column = positional notation on `Nat`
(predicates judging the implementation's actual output where the output is pinned by a characterisation,
e.g. "the digits are `< base`, have no leading zero and denote the value"). -/
open Ruint Ruint.Radix Ruint.Fmt

namespace Ruint.DrvC09
open Ruint.Spec.Radix Ruint.Spec.Fmt

/-! text I/O: hex of the UTF-8 bytes, `-` for empty -/

def hexByte (b : UInt8) : String :=
  String.ofList [hexChar (b.toNat / 16), hexChar (b.toNat % 16)]

def bytesHex (b : ByteArray) : String :=
  if b.size = 0 then "-" else b.foldl (fun s x => s ++ hexByte x) ""

def parseHexBytes (s : String) : ByteArray :=
  if s = "-" then ByteArray.empty
  else
    let rec go : List Char → ByteArray → ByteArray
      | a :: b :: rest, acc => go rest (acc.push (UInt8.ofNat (hexVal a * 16 + hexVal b)))
      | _, acc => acc
    go s.toList ByteArray.empty

def textIn (s : String) : Option (List Char) := (String.fromUTF8? (parseHexBytes s)).map String.toList
def textOut (cs : List Char) : String := bytesHex (String.ofList cs).toUTF8

/-! outputs -/

def baseErrStr : BaseErr → String
  | .overflow => "Overflow"
  | .invalidBase b => "InvalidBase " ++ toHex b
  | .invalidDigit d b => "InvalidDigit " ++ toHex d ++ " " ++ toHex b

def outBaseNat : Except BaseErr Nat → String
  | .ok v => "ok " ++ toHex v
  | .error e => "err " ++ baseErrStr e

def outBaseLimbs : Except BaseErr (List Nat) → String
  | .ok l => "ok " ++ toHex (val l)
  | .error e => "err " ++ baseErrStr e

/-- error value of a generated function: (variant index of `BaseConvertError`, fields) -/
def genErrStr : Nat × Nat × Nat → String
  | (0, _, _) => "Overflow"
  | (1, b, _) => "InvalidBase " ++ toHex b
  | (_, d, b) => "InvalidDigit " ++ toHex d ++ " " ++ toHex b

def outGen : Except (Nat × Nat × Nat) (List Nat) → String
  | .ok l => "ok " ++ toHex (val l)
  | .error e => "err " ++ genErrStr e

/-- `.collect()` of the generated `SpigotLittle::next` -/
def collectGen (base : Nat) : Nat → List Nat → List Nat
  | 0, _ => []
  | f + 1, l =>
    match Ruint.Gen.spigot_next (l.length + 1) base l with
    | (_, none) => []
    | (l', some d) => d :: collectGen base f l'

def outParse : Except ParseErr (List Nat) → String
  | .ok l => "ok " ++ toHex (val l)
  | .error (.invalidChar c) => "err InvalidChar " ++ toHex c.toNat
  | .error (.invalidRadix r) => "err InvalidRadix " ++ toHex r
  | .error (.base e) => "err Base " ++ baseErrStr e

/-- outcome of the parsers GENERATED from `src/string.rs` (`Gen/WordsStr`: `from_str_radix`, `from_str`), in the format of
    `outParse`; error tuples are (variant, fields…) with `BaseConvertError` flattened behind variant 2. -/
def outGenParse : Except (Nat × Nat × Nat × Nat) (List Nat) → String
  | .ok l => "ok " ++ toHex (val l)
  | .error (0, c, _, _) => "err InvalidChar " ++ toHex c
  | .error (1, r, _, _) => "err InvalidRadix " ++ toHex r
  | .error (_, 0, _, _) => "err Base Overflow"
  | .error (_, 1, b, _) => "err Base InvalidBase " ++ toHex b
  | .error (_, _, d, b) => "err Base InvalidDigit " ++ toHex d ++ " " ++ toHex b

def pred (b : Bool) (why : String) : String := if b then "pred:true" else "pred:false " ++ why

/-! spec predicates -/

/-- judge the implementation's digit list: all `< base`, no leading zero, denotes `v`. -/
def digitsPred (le : Bool) (base v : Nat) (impl : String) : String :=
  if base < 2 then (if impl = "panic" then "pred:true" else "pred:false base<2 must panic")
  else if impl = "panic" then "pred:false unexpected panic"
  else
    let ds := parseLimbs impl
    let dsLE := if le then ds else ds.reverse
    pred (dsLE.all (· < base) && (dsLE.getLast?.getD 1 != 0) && valueLE base dsLE == v)
      "digits must be < base, without leading zero, and denote the value"

/-- `from_base_{le,be}`: exact answer when the input is wrong in at most one way; when a valid prefix already
    overflows *and* an invalid digit is present, either error is allowed (DESIGN §4.2). -/
def fromBasePred (le : Bool) (bits base : Nat) (ds : List Nat) (impl : String) : String :=
  if base < 2 then pred (impl = "err InvalidBase " ++ toHex base) "InvalidBase expected"
  else if ds.all (· < base) then
    let v := if le then valueLE base ds else horner base ds
    if v < 2 ^ bits then pred (impl = "ok " ++ toHex v) "value expected"
    else pred (impl = "err Overflow") "Overflow expected"
  else
    -- the digits before the first invalid one
    let pre := ds.takeWhile (· < base)
    let pv := if le then valueLE base pre else horner base pre
    let bad := ds.filter (· ≥ base)
    let okInvalid := bad.any (fun d => impl = "err InvalidDigit " ++ toHex d ++ " " ++ toHex base)
    pred (okInvalid || (pv ≥ 2 ^ bits && impl = "err Overflow")) "InvalidDigit (or Overflow of the valid prefix) expected"

/-- `from_str_radix`, judged against the documented alphabets. -/
def strPred (bits radix : Nat) (src : List Char) (impl : String) : String :=
  if radix > 64 then pred (impl = "err InvalidRadix " ++ toHex radix) "InvalidRadix expected"
  else if radix < 2 then pred (impl = "err Base InvalidBase " ++ toHex radix) "InvalidBase expected"
  else
    match docDigits radix src with
    | some ds =>
      if ds.all (· < radix) then
        let v := horner radix ds
        if v < 2 ^ bits then pred (impl = "ok " ++ toHex v) "denoted value expected"
        else pred (impl = "err Base Overflow") "Overflow expected"
      else
        let pre := ds.takeWhile (· < radix)
        let okInvalid := (ds.filter (· ≥ radix)).any
          (fun d => impl = "err Base InvalidDigit " ++ toHex d ++ " " ++ toHex radix)
        pred (okInvalid || (horner radix pre ≥ 2 ^ bits && impl = "err Base Overflow")) "InvalidDigit (digit >= radix) expected"
    | none =>
      -- some character is outside the alphabet: an error must be reported; which one when the text is wrong in
      -- several ways is not pinned, but it must be a true statement about the input
      let badChars := src.filter (fun c => docClass radix c == .bad)
      let okChar := badChars.any (fun c => impl = "err InvalidChar " ++ toHex c.toNat)
      let goodDigits := src.filterMap (fun c => match docClass radix c with | .digit d => some d | _ => none)
      let okDigit := (goodDigits.filter (· ≥ radix)).any
        (fun d => impl = "err Base InvalidDigit " ++ toHex d ++ " " ++ toHex radix)
      -- overflow of the digits before the first bad character
      let preChars := src.takeWhile (fun c => docClass radix c != .bad)
      let pre := (preChars.filterMap (fun c => match docClass radix c with | .digit d => some d | _ => none)).takeWhile (· < radix)
      pred (okChar || okDigit || (horner radix pre ≥ 2 ^ bits && impl = "err Base Overflow")) "an error naming an invalid character/digit expected"

/-! format specs -/

def isAlign (c : Char) : Bool := c = '<' || c = '^' || c = '>'
def toAlign (c : Char) : Align := if c = '<' then .left else if c = '^' then .center else .right

def takeDigits : List Char → List Char × List Char
  | c :: cs => if c.isDigit then let (a, b) := takeDigits cs; (c :: a, b) else ([], c :: cs)
  | [] => ([], [])

/-- parse `[[fill]align][+][#][0][width][type]` -/
def parseSpec (cs : List Char) : Option (Trait × Spec) :=
  let (fill, align, cs) :=
    match cs with
    | f :: a :: rest => if isAlign a then (f, some (toAlign a), rest)
                        else if isAlign f then (' ', some (toAlign f), a :: rest) else (' ', none, cs)
    | [a] => if isAlign a then (' ', some (toAlign a), []) else (' ', none, cs)
    | [] => (' ', none, cs)
  let (plus, cs) := match cs with
    | '+' :: r => (true, r)
    | _ => (false, cs)
  let (alt, cs) := match cs with
    | '#' :: r => (true, r)
    | _ => (false, cs)
  let (zero, cs) := match cs with
    | '0' :: r => (true, r)
    | _ => (false, cs)
  let (w, cs) := takeDigits cs
  let width := if w.isEmpty then none else some (parseDec (String.ofList w))
  let t : Option Trait := match cs with
    | [] => some .display
    | ['?'] => some .debug
    | ['b'] => some .binary
    | ['o'] => some .octal
    | ['x'] => some .lowerHex
    | ['X'] => some .upperHex
    | _ => none
  t.map fun t => (t, { fill := fill, align := align, plus := plus, alt := alt, zero := zero, width := width })

def handle (args : List String) (impl : String) : String × String :=
  match args with
  | [op, bs, b, x] =>
    let bits := parseDec bs
    match op with
    | "tole" | "tobe" =>
      let base := parseHex b; let v := parseHex x
      let le := op = "tole"
      let m := match (if le then toBaseLE bits base v else toBaseBE bits base v) with
        | none => "panic"
        | some ds =>
          -- cross-check the limb-level spigot against the value-level one
          let dl := collectLimbs base (bits + 1) (toLimbs (nlimbs bits) v)
          -- … and the spigot GENERATED from the source (word bases only: `base` is a `u64`)
          -- (list-based limb arrays make one generated `next()` quadratic in LIMBS: widths up to 320 bits here)
          let dg := if base < 2 ^ 64 ∧ bits ≤ 320 then collectGen base (bits + 1) (toLimbs (nlimbs bits) v) else dl
          if dl = (if le then ds else ds.reverse) ∧ dg = dl then limbsStr ds else "MODEL-LEVELS-DIFFER"
      (m, digitsPred le base v impl)
    | "fromle" =>
      let base := parseHex b; let ds := parseLimbs x
      let wordy := decide (base < 2 ^ 64) && ds.all (· < 2 ^ 64) && decide (nlimbs bits * nlimbs bits * ds.length ≤ 40000)
      (if wordy then outGen (Ruint.Gen.uint_from_base_le (nlimbs bits + ds.length + 2) bits (nlimbs bits) base ds)
       else outBaseNat (fromBaseLE bits base ds), fromBasePred true bits base ds impl)
    | "frombe" =>
      let base := parseHex b; let ds := parseLimbs x
      let wordy := decide (base < 2 ^ 64) && ds.all (· < 2 ^ 64) && decide (nlimbs bits * nlimbs bits * ds.length ≤ 40000)
      (if wordy then outGen (Ruint.Gen.uint_from_base_be (nlimbs bits + ds.length + 1) bits (nlimbs bits) base ds)
       else outBaseLimbs (fromBaseBE bits base ds), fromBasePred false bits base ds impl)
    | "fsr" =>
      let radix := parseHex b
      match textIn x with
      | none => ("bad-op", "bad-op")
      | some src =>
        -- model column: the GENERATED `from_str_radix` (radices are `u64`; `Props/C09.gen_from_str_radix_eq`)
        -- (list-based limb arrays and the appended digit list make long inputs at wide types quadratic: capped)
        ((if radix < 2 ^ 64 ∧ src.length * (nlimbs bits + src.length) ≤ 20000 then
            outGenParse (Ruint.Gen.uint_from_str_radix (src.length + nlimbs bits + 2) bits (nlimbs bits) (src.map Char.toNat) radix)
          else outParse (fromStrRadix bits radix src)), strPred bits radix src impl)
    | "sweep" =>
      -- every Unicode scalar value in [lo, hi] as the second character of "1<c>" ("B<c>" above radix 36: the digit 1 of
      -- that alphabet) — exhaustive over `char` for the radix. The model is evaluated on the characters `classify` does
      -- not reject; for the others its outcome is `Props/C09.sweep_default_outcome`.
      let radix := parseHex b
      match x.splitOn "-" with
      | [los, his] =>
        if radix < 2 ∨ radix > 64 ∨ bits ≠ 64 then ("bad-op", "bad-op") else
        let lo := parseHex los; let hi := parseHex his
        let lead : Char := if radix ≤ 36 then '1' else 'B'
        let implMap : List (Nat × String) := if impl = "-" then [] else
          (impl.splitOn ";").filterMap fun t => match t.splitOn "=" with
            | [k, v] => some (parseHex k, v.replace "_" " ")
            | _ => none
        let cps := (List.range (hi + 1 - lo)).map (· + lo) |>.filter Nat.isValidChar
        let toks := cps.filterMap fun cp =>
          let c := Char.ofNat cp
          if classify radix c = .bad then none else
          let r := outParse (fromStrRadix bits radix [lead, c])
          if r = "err InvalidChar " ++ toHex cp then none else some (toHex cp ++ "=" ++ r.replace " " "_")
        let m := if toks.isEmpty then "-" else ";".intercalate toks
        -- spec: the documented alphabet decides every character of the range (a character outside it whose outcome is
        -- the default `InvalidChar` satisfies `strPred` by its definition: not re-evaluated)
        let bad := cps.filter fun cp =>
          let c := Char.ofNat cp
          match implMap.find? (·.1 == cp) with
          | some (_, v) => strPred bits radix [lead, c] v != "pred:true"
          | none => docClass radix c != .bad && strPred bits radix [lead, c] ("err InvalidChar " ++ toHex cp) != "pred:true"
        (m, match bad with
            | [] => "pred:true"
            | cp :: _ => "pred:false character " ++ toHex cp ++ " is not classified as documented")
      | _ => ("bad-op", "bad-op")
    | "fmt" =>
      let v := parseHex x
      match (textIn b).bind parseSpec with
      | none => ("bad-op", "bad-op")
      | some (t, s) =>
        let m := match fmtUint t s bits v with
          | none => "panic"
          | some cs => textOut cs
        (m, textOut (specFmt t s v))
    | _ => ("bad-op", "bad-op")
  | [op, bs, x] =>
    let bits := parseDec bs
    match op with
    | "fs" =>
      match textIn x with
      | none => ("bad-op", "bad-op")
      | some src =>
        let (rest, radix) := sniff src
        ((if src.length * (nlimbs bits + src.length) ≤ 20000 then
            outGenParse (Ruint.Gen.uint_from_str (src.length + nlimbs bits + 2) bits (nlimbs bits) (src.map Char.toNat))
          else outParse (fromStr bits src)), strPred bits radix rest impl)
    | _ => ("bad-op", "bad-op")
  | _ => ("bad-op", "bad-op")

end Ruint.DrvC09

def main : IO Unit := Ruint.driverMain Ruint.DrvC09.handle
