import Ruint.Model.Div
import Ruint.Gen.WordsDivLoops
import Ruint.Gen.WordsKnuth
import Ruint.Gen.WordsDiv
/-! Driver for C14: evaluates the model (`Ruint.Div.*` on limb lists) and the spec (`Nat` `/`, `%`).

Case lines (`op len args…`; the second token is only a histogram key):
* `recip 1 d` · `recip2 2 d`                      → `v`
* `d2x1 1 u d` · `d3x2 2 u21 u0 d`                → `q r`   (the reciprocal argument is the library's own)
* `nx1n|nx1 n limbs d` · `nx2n|nx2 n limbs d`     → `limbs' r`
* `nxm n num ds` · `div n num ds`                 → `num' ds'` | `panic`
* `nxmn n num ds`                                 → `num'` | `panic`
* `r_recip 1 d`, `r_d2x1 1 u d`: the reference kernels `reciprocal_ref` / `div_2x1_ref`; model column = their GENERATED
  definitions (`Props/C14.gen_reciprocal_ref_spec`, `gen_div_2x1_ref_spec`)
* `g_recip`, `g_recip2`, `g_d2x1`, `g_d3x2`: same inputs; the model column is the definition GENERATED from the
  Rust source by tools/rs2lean.py (`Ruint.Gen.reciprocal_mg10` …), which validates the translator and its prelude.
-/
open Ruint Ruint.Div

namespace Ruint.DrvC14

def ll (l : List Nat) : String := limbsStr l
def pairStr (p : Nat × Nat) : String := toHex p.1 ++ " " ++ toHex p.2

/-- `n` little-endian limbs of `v`, or `none` if `v` does not fit -/
def fit (n v : Nat) : Option (List Nat) := if v < W ^ n then some (toLimbs n v) else none

def handle (args : List String) (_impl : String) : String × String :=
  match args with
  | [op, _, a] =>
    let d := parseHex a
    match op with
    | "recip" => (toHex (reciprocal d), toHex ((2 ^ 128 - 1) / d - 2 ^ 64))
    | "recip2" => (toHex (reciprocal2 d), toHex ((2 ^ 192 - 1) / d - 2 ^ 64))
    | "g_recip" => (toHex (Ruint.Gen.reciprocal_mg10 d), toHex ((2 ^ 128 - 1) / d - 2 ^ 64))
    | "g_recip2" => (toHex (Ruint.Gen.reciprocal_2_mg10 d), toHex ((2 ^ 192 - 1) / d - 2 ^ 64))
    | "r_recip" => (toHex (Ruint.Gen.reciprocal_ref d), toHex ((2 ^ 128 - 1) / d - 2 ^ 64))
    | _ => ("bad-op", "bad-op")
  | [op, _, a, b] =>
    match op with
    | "d2x1" =>
      let u := parseHex a; let d := parseHex b
      (pairStr (div2x1w u d (reciprocal d)), pairStr (u / d, u % d))
    | "g_d2x1" =>
      let u := parseHex a; let d := parseHex b
      (pairStr (Ruint.Gen.div_2x1_mg10 u d (Ruint.Gen.reciprocal_mg10 d)), pairStr (u / d, u % d))
    | "r_d2x1" =>
      let u := parseHex a; let d := parseHex b
      (pairStr (Ruint.Gen.div_2x1_ref u d), pairStr (u / d, u % d))
    | "nx1n" | "nx1" | "nx2n" | "nx2" =>
      let l := parseLimbs a; let d := parseHex b
      let n := Ruint.val l
      let m := match op with
        -- normalised divisors: the loops GENERATED from the source (`Props/C14.gen_div_nx1_normalized_eq`, `…nx2…`)
        | "nx1n" => if 2 ^ 63 ≤ d ∧ d < 2 ^ 64 then Ruint.Gen.div_nx1_normalized (l.length + 1) l d
                    else divNx1Normalized l d
        -- un-normalised divisors: the whole functions GENERATED from small.rs (`Props/C14.gen_div_nx1_eq`, `gen_div_nx2_eq`)
        | "nx1" => if 0 < d ∧ d < 2 ^ 64 ∧ l ≠ [] then Ruint.Gen.div_nx1 (l.length + 1) l d else divNx1 l d
        | "nx2n" => if 2 ^ 127 ≤ d ∧ d < 2 ^ 128 then Ruint.Gen.div_nx2_normalized (l.length + 1) l d
                    else divNx2Normalized l d
        | _ => if 2 ^ 64 ≤ d ∧ d < 2 ^ 128 ∧ l ≠ [] then Ruint.Gen.div_nx2 (l.length + 1) l d else divNx2 l d
      (ll m.1 ++ " " ++ toHex m.2, ll (toLimbs l.length (n / d)) ++ " " ++ toHex (n % d))
    | "nxm" =>
      let num := parseLimbs a; let ds := parseLimbs b
      let n := Ruint.val num; let d := Ruint.val ds
      -- Knuth D GENERATED from knuth.rs on its documented domain (`Props/C14.gen_div_nxm_eq`)
      let m := if 3 ≤ ds.length ∧ ds.length ≤ num.length ∧ 0 < ds.getD (ds.length - 1) 0
        then Ruint.Gen.div_nxm (num.length + 2) num ds else divNxm num ds
      (ll m.1 ++ " " ++ ll m.2, ll (toLimbs num.length (n / d)) ++ " " ++ ll (toLimbs ds.length (n % d)))
    | "nxmn" =>
      let num := parseLimbs a; let ds := parseLimbs b
      let n := Ruint.val num; let d := Ruint.val ds
      -- when the model does not panic: the function GENERATED from knuth.rs (`Props/C14.gen_div_nxm_normalized_eq`)
      let m := match divNxmNormalized num ds with
        | some r => if 2 ≤ ds.length ∧ 2 ^ 63 ≤ ds.getD (ds.length - 1) 0
            then ll (Ruint.Gen.div_nxm_normalized (num.length + 2) num ds) else ll r
        | none => "panic"
      -- the layout has room for `|num| - |ds|` quotient limbs above the `|ds|` remainder limbs
      let s := if num.length < ds.length then "pred:false numerator shorter than divisor (outside the documented domain)"
        else match fit (num.length - ds.length) (n / d) with
          | some q => ll (toLimbs ds.length (n % d) ++ q)
          | none => "pred:false the quotient needs more than |num|-|div| limbs: no correct output exists in this layout (documented preconditions are insufficient)"
      -- |num| = |div| with num < div: the unchanged numerator would be the correct output
      (m, s)
    | "div" =>
      let num := parseLimbs a; let ds := parseLimbs b
      let n := Ruint.val num; let d := Ruint.val ds
      -- `algorithms::div` GENERATED from div/mod.rs, total (`Props/C14.gen_div_eq`): `none` = the `expect` panic
      let m := match Ruint.Gen.div (num.length + 2) num ds with
        | some r => ll r.1 ++ " " ++ ll r.2
        | none => "panic"
      let s := if d = 0 then "panic"
        else ll (toLimbs num.length (n / d)) ++ " " ++ ll (toLimbs ds.length (n % d))
      (m, s)
    | _ => ("bad-op", "bad-op")
  | [op, _, a, b, c] =>
    match op with
    | "d3x2" =>
      let u21 := parseHex a; let u0 := parseHex b; let d := parseHex c
      (pairStr (div3x2w u21 u0 d (reciprocal2 d)), pairStr ((u21 * 2 ^ 64 + u0) / d, (u21 * 2 ^ 64 + u0) % d))
    | "g_d3x2" =>
      let u21 := parseHex a; let u0 := parseHex b; let d := parseHex c
      (pairStr (Ruint.Gen.div_3x2_mg10 u21 u0 d (Ruint.Gen.reciprocal_2_mg10 d)),
       pairStr ((u21 * 2 ^ 64 + u0) / d, (u21 * 2 ^ 64 + u0) % d))
    | _ => ("bad-op", "bad-op")
  | _ => ("bad-op", "bad-op")

end Ruint.DrvC14

def main : IO Unit := Ruint.driverMain Ruint.DrvC14.handle
