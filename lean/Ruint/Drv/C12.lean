import Ruint.Gen.WordsLehmer
import Ruint.Model.Gcd
import Ruint.Gen.WordsGcd
/-! Driver for C12: evaluates the models (`Ruint.Lehmer.*`, `Ruint.Gcd.*`) and the spec column.
    For matrices and cofactors the spec is a predicate on the implementation's actual output. -/
open Ruint Ruint.Lehmer Ruint.Gcd

namespace Ruint.DrvC12

def matStr (m : Mat) : String :=
  toHex m.1 ++ " " ++ toHex m.2.1 ++ " " ++ toHex m.2.2.1 ++ " " ++ toHex m.2.2.2.1 ++ " " ++ boolStr m.2.2.2.2

def matStrC (m : Mat) : String :=
  toHex m.1 ++ "," ++ toHex m.2.1 ++ "," ++ toHex m.2.2.1 ++ "," ++ toHex m.2.2.2.1 ++ "," ++ boolStr m.2.2.2.2

def outMat : Option Mat → String
  | some m => matStr m
  | none => "panic"

def parseMat (ws : List String) : Option Mat :=
  match ws with
  | [a, b, c, d, s] => if s = "t" ∨ s = "f" then some (parseHex a, parseHex b, parseHex c, parseHex d, s = "t") else none
  | _ => none

def pairStr (p : Nat × Nat) : String := toHex p.1 ++ " " ++ toHex p.2

/-- the literal clause of the property for a non-identity matrix, over ℤ (a wrapped remainder shows as negative):
    `c ≥ d ≥ 0`, `d < b`, `gcd c d = gcd a b`. -/
def propClause (a b : Nat) (m : Mat) : Bool :=
  let c := (applyZ m a b).1
  let d := (applyZ m a b).2
  decide (0 ≤ d) && decide (d ≤ c) && decide (d < (b : Int)) && (Nat.gcd c.toNat d.toNat == Nat.gcd a b)

/-- judge one matrix produced for `a ≥ b` -/
def judge (a b : Nat) (m : Mat) : Option String :=
  if m == ident then none
  else if !(propClause a b m) then some "property-clause"
  else if !(good a b m) then some "hyp contract"
  else none

def pred (r : Option String) : String :=
  match r with
  | none => "pred:true"
  | some w => "pred:false " ++ w

/-- validity of a prefix matrix for *every* completion `(a0·K+α, a1·K+β)`, `0 ≤ α, β < K`, `K ≤ 2^4096`:
    the conditions are linear in `α`, `β`, and (at each corner) linear in `K`, so the corners at `K = 1` and
    `K = 2^4096` decide all of them. -/
def validAll (a0 a1 : Nat) (m : Mat) : Bool :=
  let chk := fun (K al be : Nat) => good (a0 * K + al) (a1 * K + be) m
  let big := 2 ^ 4096
  chk 1 0 0 && chk big 0 0 && chk big (big - 1) 0 && chk big 0 (big - 1) && chk big (big - 1) (big - 1)
  && chk (2 ^ 64) 0 (2 ^ 64 - 1) && chk (2 ^ 64) (2 ^ 64 - 1) 0

/-- walk a gcd run: model matrices along the way (the loop control is `Gcd.gcdLoop`'s). -/
partial def traceModel (bits a b : Nat) (acc : List String) : String × List String :=
  if b = 0 then (toHex a, acc.reverse)
  else match matFrom a b with
    | none => ("panic", acc.reverse)
    | some m =>
      if m = ident then traceModel bits b (a % b) (matStrC m :: acc)
      else match Lehmer.apply bits m a b with
        | none => ("panic", acc.reverse)
        | some (c, d) => traceModel bits c d (matStrC m :: acc)

/-- judge the implementation's matrices along a gcd run: each must meet the contract for the current
    `(a, b)`; the pair is advanced with exact integer arithmetic; the run must end in `b = 0`, `a = gcd`. -/
def judgeTrace (a b : Nat) (ms : List Mat) (g : Nat) (g0 : Nat) : Option String :=
  match ms with
  | [] => if b ≠ 0 then some "trace ends with b != 0" else if a ≠ g ∨ g ≠ g0 then some "gcd value" else none
  | m :: rest =>
    if b = 0 then some "trace continues after b = 0"
    else if m == ident then judgeTrace b (a % b) rest g g0
    else match judge a b m with
      | some w => some w
      | none => judgeTrace (applyZ m a b).1.toNat (applyZ m a b).2.toNat rest g g0

def traceOut (r : String × List String) : String :=
  r.1 ++ " " ++ (if r.2.isEmpty then "-" else ";".intercalate r.2)

def parseTrace (s : String) : Option (List Mat) :=
  if s = "-" then some []
  else (s.splitOn ";").mapM (fun t => parseMat (t.splitOn ","))

/-- the partial theorems' hypothesis, monitored on the model's own run: every matrix `matFrom` produces
    along the gcd iteration meets the contract. -/
partial def hypOnRun (bits a b : Nat) : Bool :=
  if b = 0 then true
  else match matFrom a b with
    | none => false
    | some m =>
      if m = ident then hypOnRun bits b (a % b)
      else contract a b m && (match Lehmer.apply bits m a b with
        | none => false
        | some (c, d) => hypOnRun bits c d)

def hypStr (bits a b : Nat) : Option String :=
  let (x, y) := if b > a then (b, a) else (a, b)
  if hypOnRun bits x y then none else some "hyp contract on model run"

def orElse' (a b : Option String) : Option String := match a with | some x => some x | none => b

/-! model column of the matrix constructors: on their documented domains the definitions GENERATED from
`src/algorithms/gcd/matrix.rs` (`Ruint/Gen/WordsLehmer.lean`; `Props/C12` proves them equal to the hand model,
`gen_*_eq`), elsewhere the hand model (which panics there). -/
def gPre (a b : Nat) : Option Mat :=
  if a < 2 ^ 63 ∨ a < b then fromU64Prefix a b else some (Ruint.Gen.lehmer_from_u64_prefix (b + 1) a b)
def gU64 (a b : Nat) : Option Mat :=
  if a < b ∨ ¬ a < W then fromU64 a b else some (Ruint.Gen.lehmer_from_u64 (b + 1) a b)
def g128 (a b : Nat) : Option Mat :=
  if a < b ∨ bitLen a < 64 ∨ 128 < bitLen a then fromU128Prefix a b
  else some (Ruint.Gen.lehmer_from_u128_prefix (b / 2 ^ (bitLen a - 64) + 1) a b)

def handle (args : List String) (impl : String) : String × String :=
  let iw := (impl.splitOn " ").filter (· ≠ "")
  match args with
  | [op, bs, as, bs'] =>
    let bits := parseDec bs
    let a := parseHex as; let b := parseHex bs'
    let M := 2 ^ bits
    match op with
    | "gcd" =>
      -- `Uint::gcd` GENERATED from src/gcd.rs + algorithms/gcd/mod.rs in value mode (`Props/C12.gen_gcd_eq`) on canonical operands
      let m := match (if a < M ∧ b < M then Ruint.Gen.val_uint_gcd (min a b + 2) bits (nlimbs bits) a b else gcd bits a b) with
        | some g => toHex g | none => "panic"
      (m, match hypStr bits a b with | none => toHex (Nat.gcd a b) | some w => "pred:false " ++ w)
    | "lcm" =>
      let m := match (if a < M ∧ b < M then Ruint.Gen.val_uint_lcm (min a b + 2) bits (nlimbs bits) a b else lcm bits a b) with
        | some (some v) => "some " ++ toHex v
        | some none => "none"
        | none => "panic"
      let spec := if a = 0 ∨ b = 0 then "some 0"
        else if a * b / Nat.gcd a b < M then "some " ++ toHex (a * b / Nat.gcd a b) else "none"
      (m, spec)
    | "gcdext" =>
      let m := match (if a < M ∧ b < M then Ruint.Gen.val_uint_gcd_extended (min a b + 2) bits (nlimbs bits) a b
                      else gcdExtended bits a b) with
        | some (g, x, y, s) => toHex g ++ " " ++ toHex x ++ " " ++ toHex y ++ " " ++ boolStr s
        | none => "panic"
      let spec := match iw with
        | [g, x, y, s] =>
          let g := parseHex g; let x := parseHex x; let y := parseHex y
          if g ≠ Nat.gcd a b then some "gcd value"
          else if x ≥ M ∨ y ≥ M then (if bits = 0 ∧ x = 0 ∧ y = 0 then none else some "cofactor not canonical")
          else if s = "t" then (if (a * x + M * b - b * y) % M = g % M then none else some "bezout sign=true")
          else if s = "f" then (if (b * y + M * a - a * x) % M = g % M then none else some "bezout sign=false")
          else some "format"
        | _ => some "format"
      (m, pred (orElse' spec (hypStr bits a b)))
    | "mfrom" =>
      let m := outMat (matFrom a b)
      if a < b then (m, "panic")
      else
        let spec := match parseMat iw with
          | some mi => judge a b mi
          | none => some "no matrix"
        (m, pred spec)
    | "mu64" =>
      let m := outMat (gU64 a b)
      if a < b then (m, "panic")
      else
        -- plain extended Euclid: the matrix maps (a, b) to (gcd, 0)
        let spec := match parseMat iw with
          | some mi =>
            if b = 0 then (if mi == ident then none else some "identity expected")
            else if applyZ mi a b ≠ ((Nat.gcd a b : Int), 0) then some "not (gcd, 0)"
            else judge a b mi
          | none => some "no matrix"
        (m, pred spec)
    | "mpre" =>
      let m := outMat (gPre a b)
      if a < 2 ^ 63 ∨ a < b then (m, "panic")
      else
        let spec := match parseMat iw with
          | some mi => if mi == ident then none else if validAll a b mi then none else some "not valid for every completion"
          | none => some "no matrix"
        (m, pred spec)
    | "m128" =>
      let m := outMat (g128 a b)
      if a < b ∨ a = 0 then (m, "panic")
      else
        let spec := match parseMat iw with
          | some mi => judge a b mi
          | none => some "no matrix"
        (m, pred spec)
    | "gcdtrace" =>
      let (x, y) := if b > a then (b, a) else (a, b)
      let m := traceOut (traceModel bits x y [])
      let spec := match iw with
        | [g, g2, t] =>
          match parseTrace t with
          | some ms => if g ≠ g2 then some "gcd() and the replayed loop disagree"
                       else judgeTrace x y ms (parseHex g) (Nat.gcd a b)
          | none => some "format"
        | _ => some "format"
      -- the model trace prints the gcd twice (once from `Gcd.gcd`, once from the traced loop)
      let g1 := match gcd bits a b with | some g => toHex g | none => "panic"
      (g1 ++ " " ++ m, pred spec)
    | _ => ("bad-op", "bad-op")
  | [op, bs, m0, m1, m2, m3, s, as, bs'] =>
    let bits := parseDec bs
    let a := parseHex as; let b := parseHex bs'
    match parseMat [m0, m1, m2, m3, s] with
    | none => ("bad-op", "bad-op")
    | some m =>
      match op with
      | "apply" =>
        let M := 2 ^ bits
        let md := match Lehmer.apply bits m a b with | some p => pairStr p | none => "panic"
        let spec :=
          if bits = 0 then pairStr (a, b)
          else if m.1 ≥ M ∨ m.2.1 ≥ M ∨ m.2.2.1 ≥ M ∨ m.2.2.2.1 ≥ M then "panic"
          else
            let z := applyZ m a b
            pairStr ((z.1 % (M : Int)).toNat, (z.2 % (M : Int)).toNat)
        (md, spec)
      | "applyu128" =>
        let M : Int := 2 ^ 128
        let z := applyZ m a b
        (pairStr (Ruint.Gen.lehmer_apply_u128 m a b), pairStr ((z.1 % M).toNat, (z.2 % M).toNat))
      | _ => ("bad-op", "bad-op")
  | [op, _bs, m0, m1, m2, m3, s, n0, n1, n2, n3, t] =>
    match parseMat [m0, m1, m2, m3, s], parseMat [n0, n1, n2, n3, t] with
    | some m, some n =>
      match op with
      | "compose" =>
        -- no contract in the property: the spec column is the unsigned product mod 2^64 and the xor rule
        let p : Mat := ((m.1 * n.1 + m.2.1 * n.2.2.1) % W, (m.1 * n.2.1 + m.2.1 * n.2.2.2.1) % W,
                        (m.2.2.1 * n.1 + m.2.2.2.1 * n.2.2.1) % W, (m.2.2.1 * n.2.1 + m.2.2.2.1 * n.2.2.2.1) % W,
                        m.2.2.2.2 == n.2.2.2.2)
        (matStr (Ruint.Gen.lehmer_compose m n), matStr p)
      | _ => ("bad-op", "bad-op")
    | _, _ => ("bad-op", "bad-op")
  | [op, _bs, m0, m1, m2, m3, s, n0, n1, n2, n3, t, as, bs'] =>
    let a := parseHex as; let b := parseHex bs'
    match parseMat [m0, m1, m2, m3, s], parseMat [n0, n1, n2, n3, t] with
    | some m, some n =>
      match op with
      | "capply" =>
        -- evidence only: apply (compose m n) = apply m ∘ apply n on small entries
        let p := applyU128 (compose m n) a b
        let q := applyU128 n a b
        let r := applyU128 m q.1 q.2
        let M : Int := 2 ^ 128
        let z1 := applyZ n a b
        let z := applyZ m z1.1 z1.2
        (pairStr p ++ " " ++ pairStr r,
         pairStr ((z.1 % M).toNat, (z.2 % M).toNat) ++ " " ++ pairStr ((z.1 % M).toNat, (z.2 % M).toNat))
      | _ => ("bad-op", "bad-op")
    | _, _ => ("bad-op", "bad-op")
  | _ => ("bad-op", "bad-op")

end Ruint.DrvC12

def main : IO Unit := Ruint.driverMain Ruint.DrvC12.handle
