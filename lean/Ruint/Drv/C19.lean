import Ruint.Model.Macro
import Ruint.Spec.Macro
/-! Driver for C19. `fast`/`lit`: model = `Macro.transformLiteral` on the literal text, spec = predicate over the
implementation's outcome from the documented shape of the literal. `rt`: the macro model on `⟨prefix⟩text_U⟨bits⟩`
against the real run-time parser and positional notation. -/
open Ruint Ruint.Macro

namespace Ruint.DrvC19
open Ruint.Spec.Macro

def hexByte (b : UInt8) : String := String.ofList [hexChar (b.toNat / 16), hexChar (b.toNat % 16)]
def parseHexBytes (s : String) : ByteArray :=
  if s = "-" then ByteArray.empty
  else
    let rec go : List Char → ByteArray → ByteArray
      | a :: b :: rest, acc => go rest (acc.push (UInt8.ofNat (hexVal a * 16 + hexVal b)))
      | _, acc => acc
    go s.toList ByteArray.empty
def textIn (s : String) : Option (List Char) := (String.fromUTF8? (parseHexBytes s)).map String.toList

def tyStr : BaseType → String
  | .uint => "U"
  | .bits => "B"

def outExp : Expansion → String
  | .pass => "pass"
  | .ok ty bits l => "ok " ++ tyStr ty ++ " " ++ toString bits ++ " " ++ limbsStr l
  | .errChar c => "err char " ++ toHex c.toNat
  | .errDigit c b => "err digit " ++ toHex c.toNat ++ " " ++ toString b
  | .errLarge => "err large"
  | .panic => "panic"

def pred (b : Bool) (why : String) : String := if b then "pred:true" else "pred:false " ++ why

def litPred (src : List Char) (impl : String) : String :=
  match shape src with
  | .ordinary => pred (impl = "pass") "an ordinary token must pass through"
  | .hexB => pred (impl = "pass") "a hexadecimal literal ending in B<digits> without `_` must pass through"
  | .outside => "any"
  | .ours u n base ds =>
    if ds.all (· < base) then
      let v := horner base ds
      if v < 2 ^ n then
        pred (impl = "ok " ++ (if u then "U " else "B ") ++ toString n ++ " " ++ limbsStr (toLimbs (nlimbs n) v))
          "the constant of that width with the denoted value expected"
      else pred (impl.startsWith "err") "value >= 2^bits must be a compile-time error"
    else pred (impl.startsWith "err") "a digit not valid in the base must be a compile-time error"

def handle (args : List String) (impl : String) : String × String :=
  match args with
  | [op, x] =>
    if op = "fast" ∨ op = "lit" then
      match textIn x with
      | none => ("bad-op", "bad-op")
      | some src =>
        if impl = "unavailable" then ("unavailable", "any")
        -- rustc's own lexer rejected the token (e.g. `0o8`): the macro's outcome is not observable; the property
        -- (compile-time error / pass-through) is still judged
        else if impl.startsWith "err rustc" then
          -- (a passed-through token that is not valid Rust on its own is rejected by rustc afterwards: not judged)
          match shape src with
          | .ordinary | .hexB => ("skip", "any")
          | _ => ("skip", litPred src impl)
        -- an error whose message is not one of the three known texts (reworded): the kind is not compared
        else if impl.startsWith "err other" then ("skip", litPred src impl)
        else (outExp (transformLiteral src), litPred src impl)
    else ("bad-op", "bad-op")
  | ["rt", bs, rs, x] =>
    let bits := parseDec bs
    let radix := parseHex rs
    match textIn x with
    | none => ("bad-op", "bad-op")
    | some digs =>
      let pfx := if radix = 16 then "0x" else if radix = 8 then "0o" else if radix = 2 then "0b" else ""
      let src := pfx.toList ++ digs ++ "_U".toList ++ (toString bits).toList
      let m := match transformLiteral src with
        | .ok _ _ l => "ok " ++ limbsStr l
        | .pass => "pass"
        | _ => "err"
      let ds := digs.filterMap hexVal?
      let v := horner radix ds
      let s := if ds.all (· < radix) ∧ v < 2 ^ bits then "ok " ++ limbsStr (toLimbs (nlimbs bits) v) else "err"
      (m, s)
  | _ => ("bad-op", "bad-op")

end Ruint.DrvC19

def main : IO Unit := Ruint.driverMain Ruint.DrvC19.handle
