import Ruint.Model.Bytes
import Ruint.Gen.WordsBytes
/-! Driver for C08: model = `Ruint.Bytes.*` on limb lists / byte lists (the decoders `try_from_le_slice` / `try_from_be_slice`
are the functions GENERATED from `src/bytes.rs`, `Props/C08.gen_try_from_*_slice_eq`); spec = base-256 arithmetic on `Nat`. -/
open Ruint Ruint.Bytes Ruint.Canon

namespace Ruint.DrvC08

def u (bits : Nat) (s : String) : List Nat := toLimbs (nlimbs bits) (parseHex s)
def out (l : List Nat) : String := toHex (val l)

def hex2 (b : Nat) : String := String.ofList [hexChar (b / 16 % 16), hexChar (b % 16)]
def bytesStr (l : List Nat) : String := if l.isEmpty then "-" else String.join (l.map hex2)

def parseBytesAux : List Char → List Nat
  | a :: b :: rest => (hexVal a * 16 + hexVal b) :: parseBytesAux rest
  | _ => []
def parseBytes (s : String) : List Nat := if s = "-" then [] else parseBytesAux s.toList

/-- independent spec: byte `i` of `x` is `x / 256^i % 256` -/
def specLE (n x : Nat) : List Nat := (List.range n).map fun i => x / 256 ^ i % 256
/-- number of base-256 digits of `x` (0 for 0) -/
def ndigits (x : Nat) : Nat := (Nat.log2 x + 8) / 8 * (if x = 0 then 0 else 1)
def ofLE (bs : List Nat) : Nat := bs.foldr (fun b a => b + 256 * a) 0
def ofBE (bs : List Nat) : Nat := bs.foldl (fun a b => a * 256 + b) 0

def genRes : Option (Option (List Nat)) → Res
  | some (some l) => .ok l
  | some none => .none
  | none => .panic

def resStr : Res → String
  | .ok l => "some " ++ out l
  | .none => "none"
  | .panic => "panic"
/-- panicking constructors print the bare value -/
def resStrP : Res → String
  | .ok l => out l
  | .none => "none"
  | .panic => "panic"

def optBytes : Option (List Nat) → String
  | some l => bytesStr l
  | none => "panic"

def copyStr : Option (Nat × List Nat) → String
  | some (n, b) => toString n ++ " " ++ bytesStr b
  | none => "panic"
def ccopyStr : Option (Option Nat × List Nat) → String
  | some (some n, b) => "some " ++ toString n ++ " " ++ bytesStr b
  | some (none, b) => "none " ++ bytesStr b
  | none => "panic"

/-- all decode∘encode round trips of the model give back the limbs -/
def roundTrips (bits : Nat) (a : List Nat) : Bool :=
  let nb := nbytes bits
  tryFromLeSlice bits (asLeSlice bits a) == .ok a
  && tryFromBeSlice bits (toBeBytesVec bits a) == .ok a
  && tryFromLeSlice bits (toLeBytesTrimmedVec bits a) == .ok a
  && tryFromBeSlice bits (toBeBytesTrimmedVec bits a) == .ok a
  && (match toLeBytes bits nb a with | some b => fromLeBytes bits b == .ok a | none => false)
  && (match toBeBytes bits nb a with | some b => fromBeBytes bits b == .ok a | none => false)
  && fromLeSlice bits (toLeBytesVec bits a) == .ok a
  && fromBeSlice bits (toBeBytesVec bits a) == .ok a

def handle (args : List String) (_impl : String) : String × String :=
  match args with
  | [op, bs, as] =>
    let bits := parseDec bs
    let nb := (bits + 7) / 8
    let m := 2 ^ bits
    match op with
    | "as_le_slice" | "as_le_bytes" | "le_vec" | "le_arr" | "be_vec" | "be_arr"
    | "as_le_trim" | "le_trim" | "be_trim" | "le_arr_bad" | "be_arr_bad" | "rt" =>
      let a := u bits as; let x := parseHex as
      match op with
      | "as_le_slice" => (bytesStr (asLeSlice bits a), bytesStr (specLE nb x))
      | "as_le_bytes" => (bytesStr (asLeBytes bits a), bytesStr (specLE nb x))
      | "le_vec" => (bytesStr (toLeBytesVec bits a), bytesStr (specLE nb x))
      | "le_arr" => (optBytes (toLeBytes bits nb a), bytesStr (specLE nb x))
      | "be_vec" => (bytesStr (toBeBytesVec bits a), bytesStr (specLE nb x).reverse)
      | "be_arr" => (optBytes (toBeBytes bits nb a), bytesStr (specLE nb x).reverse)
      | "as_le_trim" => (bytesStr (asLeBytesTrimmed bits a), bytesStr (specLE (ndigits x) x))
      | "le_trim" => (bytesStr (toLeBytesTrimmedVec bits a), bytesStr (specLE (ndigits x) x))
      | "be_trim" => (bytesStr (toBeBytesTrimmedVec bits a), bytesStr (specLE (ndigits x) x).reverse)
      | "le_arr_bad" => (optBytes (toLeBytes bits (nb + 1) a), "panic")
      | "be_arr_bad" => (optBytes (toBeBytes bits (nb + 1) a), "panic")
      | _ => (if roundTrips bits a then out a else "mismatch", toHex x)
    | "try_le" | "try_be" | "from_le_slice" | "from_be_slice" | "from_le_bytes" | "from_be_bytes" =>
      let b := parseBytes as
      let le := op == "try_le" || op == "from_le_slice" || op == "from_le_bytes"
      let v := if le then ofLE b else ofBE b
      let fits := decide (b.length ≤ nb) && decide (v < m)
      match op with
      | "try_le" => (resStr (genRes (Ruint.Gen.uint_try_from_le_slice (nlimbs bits + b.length + 2) bits (nlimbs bits) b)),
                     if fits then "some " ++ toHex v else "none")
      | "try_be" => (resStr (genRes (Ruint.Gen.uint_try_from_be_slice (nlimbs bits + b.length + 2) bits (nlimbs bits) b)),
                     if fits then "some " ++ toHex v else "none")
      | "from_le_slice" => (resStrP (fromLeSlice bits b), if fits then toHex v else "panic")
      | "from_be_slice" => (resStrP (fromBeSlice bits b), if fits then toHex v else "panic")
      | "from_le_bytes" => (resStrP (fromLeBytes bits b),
            if fits && b.length == nb then toHex v else "panic")
      | _ => (resStrP (fromBeBytes bits b), if fits && b.length == nb then toHex v else "panic")
    | _ => ("bad-op", "bad-op")
  | [op, bs, as, bufs] =>
    let bits := parseDec bs
    let nb := (bits + 7) / 8
    let a := u bits as; let x := parseHex as
    let buf := parseBytes bufs
    let short := decide (buf.length < nb)
    let le := specLE nb x
    match op with
    | "copy_le" => (copyStr (copyLeBytesTo bits a buf),
        if short then "panic" else toString nb ++ " " ++ bytesStr (le ++ buf.drop nb))
    | "copy_be" => (copyStr (copyBeBytesTo bits a buf),
        if short then "panic" else toString nb ++ " " ++ bytesStr (le.reverse ++ buf.drop nb))
    | "ccopy_le" => (ccopyStr (checkedCopyLeBytesTo bits a buf),
        if short then "none " ++ bytesStr buf else "some " ++ toString nb ++ " " ++ bytesStr (le ++ buf.drop nb))
    | "ccopy_be" => (ccopyStr (checkedCopyBeBytesTo bits a buf),
        if short then "none " ++ bytesStr buf
        else "some " ++ toString nb ++ " " ++ bytesStr (le.reverse ++ buf.drop nb))
    | _ => ("bad-op", "bad-op")
  | _ => ("bad-op", "bad-op")

end Ruint.DrvC08

def main : IO Unit := Ruint.driverMain Ruint.DrvC08.handle
