import Ruint.Model.Conv
import Ruint.Gen.WordsConv
/-! Driver for C07: model = `Ruint.Conv.*`/`Ruint.Canon.*`; spec = range tests and `%` on `Int`/`Nat`. -/
open Ruint Ruint.Conv Ruint.Canon

namespace Ruint.DrvC07

def u (bits : Nat) (s : String) : List Nat := toLimbs (nlimbs bits) (parseHex s)
def out (l : List Nat) : String := toHex (val l)

def parseS (s : String) : Int :=
  match s.toList with
  | '-' :: rest => -((parseHex (String.ofList rest) : Nat) : Int)
  | _ => (parseHex s : Nat)
def showS (v : Int) : String := if v < 0 then "-" ++ toHex (-v).toNat else toHex v.toNat

/-- type name → (isBool, Prim) -/
def prim (s : String) : Option (Bool × Prim) :=
  match s with
  | "bool" => some (true, ⟨1, false⟩)
  | "u8" => some (false, ⟨8, false⟩) | "u16" => some (false, ⟨16, false⟩)
  | "u32" => some (false, ⟨32, false⟩) | "u64" => some (false, ⟨64, false⟩)
  | "u128" => some (false, ⟨128, false⟩) | "usize" => some (false, ⟨64, false⟩)
  | "i8" => some (false, ⟨8, true⟩) | "i16" => some (false, ⟨16, true⟩)
  | "i32" => some (false, ⟨32, true⟩) | "i64" => some (false, ⟨64, true⟩)
  | "i128" => some (false, ⟨128, true⟩) | "isize" => some (false, ⟨64, true⟩)
  | _ => none

def toResStr : ToRes → String
  | .ok l => "ok " ++ out l
  | .tooLarge b l => "err TooLarge " ++ toString b ++ " " ++ out l
  | .negative b l => "err Negative " ++ toString b ++ " " ++ out l
  | .panic => "panic"
def resStr : Res → String
  | .ok l => out l
  | .none => "none"
  | .panic => "panic"
def resStrO : Res → String
  | .ok l => "some " ++ out l
  | .none => "none"
  | .panic => "panic"
def fromResStr : FromRes → String
  | .ok v => "ok " ++ showS v
  | .overflow b w m => "err Overflow " ++ toString b ++ " " ++ showS w ++ " " ++ showS m
def uuResStr : UURes → String
  | .ok l => "ok " ++ out l
  | .overflow b w m => "err Overflow " ++ toString b ++ " " ++ out w ++ " " ++ out m
  | .panic => "panic"

/-- spec of `x as T` on the whole number -/
def wrapTo (t : Prim) (x : Nat) : Int :=
  let r := x % 2 ^ t.width
  if t.signed && decide (2 ^ (t.width - 1) ≤ r) then (r : Int) - (2 ^ t.width : Nat) else r

/-- last token of the implementation's output, as a number -/
def lastTok (impl : String) : Nat := parseHex ((impl.splitOn " ").getLast?.getD "0")

/-! results of the functions GENERATED from src/from.rs (`Gen/WordsConv.lean`; `Props/C07.gen_*_eq`), mapped back to the
    models' result types: primitive integers are bit patterns there -/
def genToRes : Option (Except (Nat × Nat × List Nat) (List Nat)) → ToRes
  | none => .panic
  | some (.ok l) => .ok l
  | some (.error (0, b, l)) => .tooLarge b l
  | some (.error (1, b, l)) => .negative b l
  | some (.error _) => .panic
def genFrom (t : Prim) : Except (Nat × Nat × Nat × Nat) Nat → FromRes
  | .ok p => .ok (castTo t p)
  | .error (_, b, w, m) => .overflow b (castTo t w) (castTo t m)
def genFromB : Except (Nat × Nat × Bool × Bool) Bool → FromRes
  | .ok p => .ok (if p then 1 else 0)
  | .error (_, b, w, m) => .overflow b (if w then 1 else 0) (if m then 1 else 0)

/-- `T::try_from(&uint)` through the generated function of the target type (canonical operand) -/
def genTryTo (isBool : Bool) (t : Prim) (bits : Nat) (a : List Nat) : FromRes :=
  let L := nlimbs bits
  let f := L + 1
  if isBool then genFromB (Ruint.Gen.bool_try_from_uint f bits L a)
  else genFrom t (match t.width, t.signed with
    | 8, true => Ruint.Gen.i8_try_from_uint f bits L a | 8, false => Ruint.Gen.u8_try_from_uint f bits L a
    | 16, true => Ruint.Gen.i16_try_from_uint f bits L a | 16, false => Ruint.Gen.u16_try_from_uint f bits L a
    | 32, true => Ruint.Gen.i32_try_from_uint f bits L a | 32, false => Ruint.Gen.u32_try_from_uint f bits L a
    | 64, true => Ruint.Gen.i64_try_from_uint f bits L a | 64, false => Ruint.Gen.u64_try_from_uint f bits L a
    | 128, true => Ruint.Gen.i128_try_from_uint f bits L a | _, _ => Ruint.Gen.u128_try_from_uint f bits L a)

def fromOps (op : String) (bits : Nat) (t : Prim) (v : Int) (impl : String) : String × String :=
  let m : Int := (2 ^ bits : Nat)
  let wrapped := toHex (v % m).toNat
  let bs := toString bits
  -- the property pins the negative payload only when BITS ≤ source width
  let pinned := decide (0 ≤ v) || decide (bits ≤ t.width)
  let canonPayload (pfx : String) : String :=
    if impl.startsWith pfx && decide (lastTok impl < 2 ^ bits) then "pred:true"
    else "pred:false expected " ++ pfx ++ "<canonical payload>"
  match op with
  | "try_from" =>
    -- unsigned sources: the generated `TryFrom<u64>` / `TryFrom<u128>` (`value as u64` is the value itself)
    (toResStr (if !t.signed && decide (0 ≤ v) && decide (v ≤ t.max) && decide (t.width ≥ 8) then
        genToRes (if t.width = 128 then Ruint.Gen.uint_try_from_u128 bits (nlimbs bits) v.toNat
                  else Ruint.Gen.uint_try_from_u64 bits (nlimbs bits) v.toNat)
      else tryFrom bits t v),
      if v < 0 then (if pinned then "err Negative " ++ bs ++ " " ++ wrapped else canonPayload ("err Negative " ++ bs ++ " "))
      else if v < m then "ok " ++ showS v else "err TooLarge " ++ bs ++ " " ++ wrapped)
  | "from" => (resStr («from» bits t v), if 0 ≤ v ∧ v < m then showS v else "panic")
  | "wfrom" => (resStr (wrappingFrom bits t v), if pinned then wrapped else canonPayload "")
  | "sfrom" => (resStr (saturatingFrom bits t v),
      if v < 0 then "0" else if v < m then showS v else toHex (2 ^ bits - 1))
  | _ => ("bad-op", "bad-op")

def toOps (op : String) (bits : Nat) (isBool : Bool) (t : Prim) (xs : String) : String × String :=
  let a := u bits xs
  let x := parseHex xs
  let fits := decide ((x : Int) ≤ t.max)
  let bs := toString bits
  match op with
  | "try_to" | "try_to_val" =>
    (fromResStr (if decide (x < 2 ^ bits) && (isBool || [8, 16, 32, 64, 128].contains t.width) then genTryTo isBool t bits a
                 else tryTo isBool t bits a),
      if fits then "ok " ++ toHex x else "err Overflow " ++ bs ++ " " ++ showS (wrapTo t x) ++ " " ++ showS t.max)
  | "to" => (match «to» isBool t bits a with | some v => showS v | none => "panic",
      if fits then toHex x else "panic")
  | "wto" => (showS (wrappingTo isBool t bits a), showS (wrapTo t x))
  | "sto" => (showS (saturatingTo isBool t bits a), if fits then toHex x else showS t.max)
  | _ => ("bad-op", "bad-op")

def limbOps (op : String) (bits : Nat) (ls : String) : String × String :=
  let sl := parseLimbs ls
  let v := val sl
  let m := 2 ^ bits
  let ov := decide (m ≤ v)
  match op with
  | "ofls" => (match overflowingFromLimbsSlice bits sl with
      | some (n, f) => out n ++ " " ++ boolStr f
      | none => "panic", toHex (v % m) ++ " " ++ boolStr ov)
  | "fls" => (resStr (fromLimbsSlice bits sl), if ov then "panic" else toHex v)
  | "cfls" => (resStrO (checkedFromLimbsSlice bits sl), if ov then "none" else "some " ++ toHex v)
  | "wfls" => (resStr (wrappingFromLimbsSlice bits sl), toHex (v % m))
  | "sfls" => (resStr (saturatingFromLimbsSlice bits sl), if ov then toHex (m - 1) else toHex v)
  | "from_limbs" => (match fromLimbs bits sl with | some l => out l | none => "panic",
      if ov then "panic" else toHex v)
  | _ => ("bad-op", "bad-op")

/-- `Uint<dst> ← Uint<src>` -/
def uuOps (op : String) (dst src : Nat) (xs : String) : String × String :=
  let a := u src xs
  let x := parseHex xs
  let m := 2 ^ dst
  let ov := decide (m ≤ x)
  let ds := toString dst
  let r := uintTryFrom dst a
  match op with
  | "uu_try" => (toResStr r, if ov then "err TooLarge " ++ ds ++ " " ++ toHex (x % m) else "ok " ++ toHex x)
  | "uu_from" | "uu_from_uint" => (match r with | .ok n => out n | _ => "panic", if ov then "panic" else toHex x)
  | "uu_cfrom_uint" => (match r with | .ok n => "some " ++ out n | .panic => "panic" | _ => "none",
      if ov then "none" else "some " ++ toHex x)
  | "uu_wfrom" | "uu_wto" =>
    (match r with | .ok n | .tooLarge _ n | .negative _ n => out n | .panic => "panic", toHex (x % m))
  | "uu_sfrom" | "uu_sto" =>
    (match r with | .ok n => out n | .tooLarge _ _ => out (max dst) | .negative _ _ => out (zero dst) | .panic => "panic",
      if ov then toHex (m - 1) else toHex x)
  | "uu_try_to" => (uuResStr (uintTryTo dst a),
      if ov then "err Overflow " ++ ds ++ " " ++ toHex (x % m) ++ " " ++ toHex (m - 1) else "ok " ++ toHex x)
  | "uu_to" => (match uintTryTo dst a with | .ok n => out n | _ => "panic", if ov then "panic" else toHex x)
  | _ => ("bad-op", "bad-op")

def handle (args : List String) (impl : String) : String × String :=
  match args with
  | [op, bs, a] => limbOps op (parseDec bs) a
  | [op, bs, ts, vs] =>
    let bits := parseDec bs
    if op.startsWith "uu_" then uuOps op bits (parseDec ts) vs
    else match prim ts with
      | none => ("bad-op", "bad-op")
      | some (isBool, t) =>
        match op with
        | "try_from" | "from" | "wfrom" | "sfrom" => fromOps op bits t (parseS vs) impl
        | _ => toOps op bits isBool t vs
  | _ => ("bad-op", "bad-op")

end Ruint.DrvC07

def main : IO Unit := Ruint.driverMain Ruint.DrvC07.handle
