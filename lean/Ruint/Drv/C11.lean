import Ruint.Model.Redc
import Ruint.Gen.RedcConsts
import Ruint.Gen.WordsRedcLoops
import Ruint.Gen.WordsUintMod
/-! Driver for C11: evaluates the model (`Ruint.Redc.*` on limb lists, base `W`, thresholds from the generated
    constants) and the spec (`a·b·R⁻¹ mod m` on ℕ, `R = 2^(64·N)`, inverse by extended Euclid on ℤ). -/
open Ruint Ruint.Redc Ruint.Gen.RedcConsts

namespace Ruint.DrvC11

/-- extended Euclid on ℤ: returns `(g, x)` with `a·x ≡ g (mod b)`. -/
partial def egcd (a b : Int) : Int × Int × Int :=
  if b = 0 then (a, 1, 0)
  else
    let (g, x, y) := egcd b (a % b)
    (g, y, x - (a / b) * y)

/-- `x⁻¹ mod m` for coprime `x`, `m ≥ 1`. -/
def invModNat (x m : Nat) : Option Nat :=
  let (g, u, _) := egcd (Int.ofNat x) (Int.ofNat m)
  if g = 1 then some ((u % Int.ofNat m).toNat) else none

def outO : Option (List Nat) → String
  | some v => toHex (val v)
  | none => "panic"

/-- the preconditions of the property: `N ≥ 1`, `m` odd, `inv·m₀ ≡ −1`, operands reduced. -/
def pre (n a b m inv : Nat) : Bool :=
  decide (1 ≤ n) && decide (m % 2 = 1) && decide (m < W ^ n) && decide (a < m) && decide (b < m)
    && decide ((inv * (m % W)) % W = W - 1) && decide (inv < W)

def spec (n a b m inv : Nat) : String :=
  if pre n a b m inv then
    match invModNat (W ^ n % m) m with
    | some ri => toHex ((a * b % m) * ri % m)
    | none => if m = 1 then "0" else "any"
  else "any"

def handle (args : List String) (_impl : String) : String × String :=
  match args with
  | [op, ns, as, bs, ms, is] =>
    let n := parseDec ns
    let a := parseHex as; let b := parseHex bs; let m := parseHex ms; let inv := parseHex is
    match op with
    | "mulredc" =>
        -- the result is computed by the function GENERATED from the source (`Props/C11.gen_mul_redc_eq`); the model
        -- supplies the `debug_assert!` outcome
        let la := toLimbs n a; let lb := toLimbs n b; let lm := toLimbs n m
        let r := if n = 0 then mulRedc W keepMul inv la lb lm
          else if (mulRedcCore W keepMul inv la lb lm).2 then some (Ruint.Gen.mul_redc (n + 1) n la lb lm inv) else none
        (outO r, spec n a b m inv)
    | "umulredc" =>
        let bits := n; let l := nlimbs bits
        let sp := if bits = 0 then "0" else if decide (m < 2 ^ bits) then spec l a b m inv else "any"
        -- when the model succeeds: the wrapper GENERATED from src/modular.rs (`Props/C11.gen_uint_mul_redc_eq`)
        let r := match uintMulRedc keepMul bits inv (toLimbs l a) (toLimbs l b) (toLimbs l m) with
          | some _ => Ruint.Gen.uint_mul_redc (l + 1) bits l (toLimbs l a) (toLimbs l b) (toLimbs l m) inv
          | none => none
        (outO r, sp)
    | _ => ("bad-op", "bad-op")
  | [op, ns, as, ms, is] =>
    let n := parseDec ns
    let a := parseHex as; let m := parseHex ms; let inv := parseHex is
    match op with
    | "sqredc" =>
        -- result from the function GENERATED from the source (`Props/C11.gen_square_redc_eq`)
        let la := toLimbs n a; let lm := toLimbs n m
        let r := if n = 0 then squareRedc W keepSq inv la lm
          else if (squareRedcCore W keepSq inv la lm).2 then some (Ruint.Gen.square_redc (n + 1) n la lm inv) else none
        (outO r, spec n a a m inv)
    | "usqredc" =>
        let bits := n; let l := nlimbs bits
        let sp := if bits = 0 then "0" else if decide (m < 2 ^ bits) then spec l a a m inv else "any"
        let r := match uintSquareRedc keepSq bits inv (toLimbs l a) (toLimbs l m) with
          | some _ => Ruint.Gen.uint_square_redc (l + 1) bits l (toLimbs l a) (toLimbs l m) inv
          | none => none
        (outO r, sp)
    | _ => ("bad-op", "bad-op")
  | _ => ("bad-op", "bad-op")

end Ruint.DrvC11

def main : IO Unit := Ruint.driverMain Ruint.DrvC11.handle
