import Ruint.Model.BitsRev
import Ruint.Gen.WordsUint
/-! Driver for C06: evaluates the model (`Ruint.Bits.*` on limb lists) and the spec (ℕ arithmetic:
`Nat.testBit`, `Nat.log2`, `&&&`/`|||`/`^^^` on GMP naturals — none of it shares code with the model). -/
open Ruint Ruint.Bits

/-! The model column of `not`, `lz`, `lo`, `cnt1`, `cnt0`, `bitlen`, `bytelen`, `bit`, `setbit` runs the methods GENERATED
    from `src/bits.rs` (`Props/C06.gen_*_eq` proves them equal to the model the theorems are about). -/
namespace Ruint.DrvC06

def u (bits : Nat) (s : String) : List Nat := toLimbs (nlimbs bits) (parseHex s)
def out (l : List Nat) : String := toHex (val l)
def outO : Option (List Nat) → String
  | some v => "some " ++ out v
  | none => "none"
def outON (panic : String) : Option Nat → String
  | some v => (if panic = "none" then "some " else "") ++ toHex v
  | none => panic

/-- number of significant bits -/
def size (x : Nat) : Nat := if x = 0 then 0 else Nat.log2 x + 1
/-- trailing zeros of a non-zero number: `x ^^^ (x-1)` is `tz+1` ones. -/
def tzNat (x : Nat) : Nat := Nat.log2 (x ^^^ (x - 1))
/-- Kernighan popcount. -/
def popNat : Nat → Nat → Nat
  | 0, _ => 0
  | f + 1, x => if x = 0 then 0 else popNat f (x &&& (x - 1)) + 1
/-- bit reversal inside `bits` bits. -/
def revNat (bits x : Nat) : Nat :=
  (List.range bits).foldl (fun acc i => if x.testBit i then acc + 2 ^ (bits - 1 - i) else acc) 0

def startsWith (s p : String) : Bool := p.toList.isPrefixOf s.toList

def handle (args : List String) (_impl : String) : String × String :=
  match args with
  | [op, bs, as] =>
    let bits := parseDec bs
    let a := u bits as
    let x := parseHex as
    let m := 2 ^ bits
    match op with
    | "not" | "notop" | "notref" => (out (Ruint.Gen.uint_not (nlimbs bits + 1) bits (nlimbs bits) a), toHex (m - 1 - x))
    | "rev" => (out (Ruint.Gen.uint_reverse_bits (nlimbs bits + 1) bits (nlimbs bits) a), toHex (revNat bits x))
    | "lz" => (toHex (Ruint.Gen.uint_leading_zeros (nlimbs bits + 1) bits (nlimbs bits) a), toHex (bits - size x))
    | "lo" => (toHex (Ruint.Gen.uint_leading_ones (nlimbs bits + 1) bits (nlimbs bits) a), toHex (bits - size (m - 1 - x)))
    | "tz" => (toHex (Ruint.Gen.uint_trailing_zeros bits (nlimbs bits) a), toHex (if x = 0 then bits else tzNat x))
    | "to" => (toHex (Ruint.Gen.uint_trailing_ones bits (nlimbs bits) a), toHex (tzNat (x + 1)))
    | "cnt1" => (toHex (Ruint.Gen.uint_count_ones (nlimbs bits + 1) bits (nlimbs bits) a), toHex (popNat (bits + 1) x))
    | "cnt0" => (toHex (Ruint.Gen.uint_count_zeros (nlimbs bits + 1) bits (nlimbs bits) a), toHex (bits - popNat (bits + 1) x))
    | "bitlen" => (toHex (Ruint.Gen.uint_bit_len (nlimbs bits + 1) bits (nlimbs bits) a), toHex (size x))
    | "bytelen" => (toHex (Ruint.Gen.uint_byte_len (nlimbs bits + 1) bits (nlimbs bits) a), toHex ((size x + 7) / 8))
    | "msb" =>
      let r := Ruint.Gen.uint_most_significant_bits bits (nlimbs bits) a
      let e := size x - 64
      (toHex r.1 ++ " " ++ toHex r.2, toHex (x / 2 ^ e) ++ " " ++ toHex e)
    | "ispow2" => (boolStr (Ruint.Gen.uint_is_power_of_two (nlimbs bits + 1) bits (nlimbs bits) a), boolStr (decide (x ≠ 0 ∧ x &&& (x - 1) = 0)))
    | "cnpow2" | "npow2" =>
      let k := if x ≤ 1 then 0 else Nat.log2 (x - 1) + 1
      let no := if op = "npow2" then "panic" else "none"
      let pre := if op = "npow2" then "" else "some "
      ((match Ruint.Gen.uint_checked_next_power_of_two (nlimbs bits + 1) bits (nlimbs bits) a with
        | some v => pre ++ out v
        | none => no),
       if k < bits then pre ++ toHex (2 ^ k) else no)
    | _ => ("bad-op", "bad-op")
  | [op, bs, as, cs] =>
    let bits := parseDec bs
    let a := u bits as
    let x := parseHex as
    if startsWith op "and" then (out (bitAnd a (u bits cs)), toHex (x &&& parseHex cs))
    else if startsWith op "or" then (out (bitOr a (u bits cs)), toHex (x ||| parseHex cs))
    else if startsWith op "xor" then (out (bitXor a (u bits cs)), toHex (x ^^^ parseHex cs))
    else
      let i := parseHex cs
      match op with
      | "bit" | "bitidx" => (boolStr (Ruint.Gen.uint_bit bits (nlimbs bits) a i), boolStr (decide (i < bits) && x.testBit i))
      | "byte" => (outON "panic" (byte bits a i),
          if i < (bits + 7) / 8 then toHex (x / 256 ^ i % 256) else "panic")
      | "cbyte" => (outON "none" (checkedByte bits a i),
          if i < (bits + 7) / 8 then "some " ++ toHex (x / 256 ^ i % 256) else "none")
      | _ => ("bad-op", "bad-op")
  | ["setbit", bs, as, is, vs] =>
    let bits := parseDec bs
    let a := u bits as
    let x := parseHex as
    let i := parseHex is
    let v := vs = "t"
    (out (Ruint.Gen.uint_set_bit bits (nlimbs bits) a i v),
     toHex (if i < bits then (if v then x ||| 2 ^ i else x - (if x.testBit i then 2 ^ i else 0)) else x))
  | _ => ("bad-op", "bad-op")

end Ruint.DrvC06

def main : IO Unit := Ruint.driverMain Ruint.DrvC06.handle
