import Ruint.Model.Codec.Rlp
import Ruint.Model.Codec.Scale
import Ruint.Model.Codec.Fixed
import Ruint.Model.Codec.Der
import Ruint.Model.Codec.Serde
import Ruint.Model.Codec.Postgres
/-!
Shared driver code of C16 and C17 (core only): evaluates the codec models (`model` column) and the format
definitions / decidable predicates (`spec` column) on one protocol line.

* C16 ops `op bits value`: exact spec (the format's definition, advertised length = actual length, the round
  trip returns the value); where the property only asks for an upper bound (SCALE fixed `size_hint`,
  `max_encoded_len`) the implementation's own number is accepted iff it is `≥` the encoded length.
* C17 ops `d_<decoder> bits bytes`: the spec is a predicate on the implementation's actual outcome
  (no panic; accepted ⇒ value `< 2^bits` that the consumed prefix denotes — for the canonical decoders the
  prefix must equal the reference encoding; rejected ⇒ the input is not a reference encoding of an in-range value).
* `exh bits decoder prefix depth`: digest over all extensions of `prefix` by at most `depth` bytes.
-/
namespace Ruint.DrvCodec
open Ruint Ruint.Codec

def hex2 (b : Nat) : String := String.ofList [hexChar (b / 16 % 16), hexChar (b % 16)]

def bytesHex (bs : List Nat) : String :=
  if bs.isEmpty then "-" else String.join (bs.map hex2)

def parseBytesAux : List Char → List Nat → List Nat
  | a :: b :: cs, acc => parseBytesAux cs ((hexVal a * 16 + hexVal b) :: acc)
  | _, acc => acc.reverse

def parseBytes (s : String) : List Nat := if s = "-" then [] else parseBytesAux s.toList []

/-- canonical outcome line of a decoder reporting consumed bytes. -/
def fmtN : DecResult → String
  | .ok (v, n) => "ok " ++ toHex v ++ " " ++ toString n
  | .error e => if e.name = "" then "err" else "err " ++ e.name

def fmtV : Except Err Nat → String
  | .ok v => "ok " ++ toHex v
  | .error e => if e.name = "" then "err" else "err " ++ e.name

def fmtO : Option Nat → String
  | some v => "ok " ++ toHex v
  | none => "err"

def colon (s : String) : String := s.replace " " ":"

/-- model outcome of decoder `name` on `bs` (`none` = no such decoder; `some "skip"` = outside the model). -/
def decModel (name : String) (bits : Nat) (bs : List Nat) : Option String :=
  match name with
  | "arlp" | "frlp3" | "frlp4" => some (fmtN (Rlp.dec bits bs))
  | "rlp" => some (fmtV (Rlp.decParity bits bs))
  | "rlpbits" => some (fmtV (Rlp.decParityBits bits bs))
  | "scale" => some (fmtN (Scale.decFixed bits bs))
  | "scalec" => some (if Scale.compactBitsLimit ≤ bits then "panic" else fmtN (Scale.decCompact bits bs))
  | "ssz" => some (fmtV (Fixed.decSsz bits bs))
  | "borsh" | "borshbits" => some (fmtV (Fixed.decBorsh bits bs))
  | "borshr" => some (fmtN (Fixed.decBorshReader bits bs))
  | "der" => some (fmtV (Der.dec bits bs))
  | "bincode" | "bincodebits" =>
    some (match Fixed.decBincode bits bs with
      | .ok v => "ok " ++ toHex v
      | .error .io => "err Io"
      | .error _ => "err Custom")
  | "json" | "jsonbits" =>
    some (fmtO (Serde.decJson bits bs))
  | "str" => some (if bs.any (fun b => 128 ≤ b) then "err" else fmtO (Serde.fromStr bits bs))
  | "be" => some (fmtO (tryFromBE bits bs))
  | "le" => some (fmtO (tryFromLE bits bs))
  | _ =>
    if name.startsWith "pg_" then
      match Pg.Ty.ofString ((name.drop 3).toString) with
      | some ty => some (fmtV (Pg.fromSql ty bits bs))
      | none => none
    else none

/-- the format's reference encoding for decoder `name` (where the property names one) and whether the decoder
    tolerates trailing bytes. -/
def refEnc (name : String) (bits v : Nat) : Option (List Nat × Bool) :=
  match name with
  | "arlp" | "frlp3" | "frlp4" => some (Rlp.enc v, true)
  | "rlp" => some (Rlp.enc v, true)
  | "rlpbits" => some (Rlp.encBits bits v, true)
  | "scale" => some (Scale.encFixed bits v, true)
  | "scalec" => some (Scale.encCompact v, true)
  | "ssz" => some (Fixed.encSsz bits v, false)
  | "borsh" | "borshbits" => some (Fixed.encBorsh bits v, false)
  | "borshr" => some (Fixed.encBorsh bits v, true)
  | "der" => some (Der.enc v, false)
  | "bincode" | "bincodebits" => some (Fixed.encBincode bits v, true)
  | "json" => some (Serde.encJson v, false)
  | "jsonbits" => some (Serde.encJsonBits bits v, false)
  | "str" => some (Serde.hexMinimal v, false)
  | "be" => some (toBE (nbytes bits) v, false)
  | "le" => some (toLE (nbytes bits) v, false)
  | _ => none

/-- decoders that must reject everything but the reference encoding. -/
def canonical (name : String) : Bool := name == "arlp" || name == "frlp3" || name == "frlp4" || name == "der"

def isPrefix (p bs : List Nat) : Bool := p.length ≤ bs.length && bs.take p.length == p

/-- the C17 predicate on the implementation's outcome `impl` for decoder `name` on `bs`. -/
def decPred (name : String) (bits : Nat) (bs : List Nat) (impl model : String) : String :=
  let toks := (impl.splitOn " ").filter (· ≠ "")
  match toks with
  | "ok" :: vs :: rest =>
    let v := parseHex vs
    if ¬ v < 2 ^ bits then "pred:false value out of range"
    else
      let consumed : Nat := match rest with
        | n :: _ => parseDec n
        | [] => bs.length
      if canonical name then
        match refEnc name bits v with
        | some (e, _) =>
          if e == bs.take consumed ∧ consumed ≤ bs.length then "pred:true"
          else "pred:false accepted input is not the reference encoding"
        | none => "pred:true"
      else if name = "scalec" ∨ name = "scale" then
        -- SCALE is not among the canonical decoders: judge by the format's lenient reading
        let d := if name = "scalec" then Scale.denoteCompact bs else Scale.denoteFixed bs
        if d == some (v, consumed) then "pred:true" else "pred:false accepted input does not denote this value"
      else
        -- other lenient decoders: the value must be the one the model (whose results are proved to denote) gives
        if model = "skip" then "pred:true"
        else if model = impl then "pred:true"
        else if (model.splitOn " ").take 2 == ["ok", vs] then "pred:true"
        else "pred:false accepted input does not denote this value"
  | "err" :: _ =>
    -- rejecting the reference encoding of an in-range value is a violation
    let mt := (model.splitOn " ").filter (· ≠ "")
    match mt with
    | "ok" :: vs :: _ =>
      let v := parseHex vs
      match refEnc name bits v with
      | some (e, trailing) =>
        if v < 2 ^ bits ∧ (if trailing then isPrefix e bs else e == bs) then
          "pred:false reference encoding of an in-range value rejected"
        else "pred:true"
      | none => "pred:true"
    | _ => "pred:true"
  | _ =>
    if impl = model ∧ model = "panic" then "pred:true"   -- documented type-level restriction (BITS ≥ 536 compact)
    else "pred:false " ++ impl

/-! ## exhaustive digest -/

def fnvStep (h : UInt64) (b : UInt8) : UInt64 := (h ^^^ b.toUInt64) * 0x100000001b3

def fnvStr (h : UInt64) (s : String) : UInt64 :=
  fnvStep (s.toUTF8.foldl fnvStep h) 0x0a

structure Tally where
  h : UInt64 := 0xcbf29ce484222325
  ok : Nat := 0
  err : Nat := 0
  other : Nat := 0

def Tally.add (t : Tally) (r : String) : Tally :=
  let t := { t with h := fnvStr t.h r }
  if r.startsWith "ok" then { t with ok := t.ok + 1 }
  else if r.startsWith "err" then { t with err := t.err + 1 }
  else { t with other := t.other + 1 }

/-- all `d`-byte suffixes in lexicographic order, accumulated into the tally. -/
partial def exhLevel (name : String) (bits : Nat) (pre : List Nat) (d : Nat) (t : Tally) : Tally :=
  let total := 256 ^ d
  let rec go (k : Nat) (t : Tally) : Tally :=
    if k ≥ total then t
    else
      let s := toBE d k
      let r := (decModel name bits (pre ++ s)).getD "bad-op"
      go (k + 1) (t.add r)
  go 0 t

def toHex64 (x : UInt64) : String := toHex x.toNat

def exh (name : String) (bits : Nat) (pre : List Nat) (depth : Nat) : String :=
  let t := (List.range (depth + 1)).foldl (fun t d => exhLevel name bits pre d t) {}
  toHex64 t.h ++ " ok=" ++ toString t.ok ++ " err=" ++ toString t.err ++ " other=" ++ toString t.other

/-! ## C16: encoders -/

def rtN (r : DecResult) : String := colon (fmtN r)
def rtV (r : Except Err Nat) : String := colon (fmtV r)
def okN (v n : Nat) : String := "ok:" ++ toHex v ++ ":" ++ toString n
def okV (v : Nat) : String := "ok:" ++ toHex v

/-- accept the implementation's `k`-th token as an upper bound `≥ lo`; otherwise demand `ge:lo`. -/
def boundTok (impl : String) (k lo : Nat) : String :=
  match ((impl.splitOn " ").filter (· ≠ ""))[k]? with
  | some t => if t.all Char.isDigit ∧ t ≠ "" ∧ lo ≤ parseDec t then t else "ge:" ++ toString lo
  | none => "ge:" ++ toString lo

def J (l : List String) : String := " ".intercalate l

/-- `(model, spec)` of an encoder op. -/
def encHandle (op : String) (bits v : Nat) (impl : String) : Option (String × String) :=
  let tail := [0x5a]
  match op with
  | "arlp" | "frlp3" | "frlp4" =>
    let e := Rlp.encImpl bits v
    let s := Rlp.enc v
    some (J [bytesHex e, toString (Rlp.lengthImpl v), rtN (Rlp.dec bits (e ++ tail))],
          J [bytesHex s, toString s.length, okN v s.length])
  | "rlp" =>
    let s := Rlp.enc v
    some (J [bytesHex s, rtV (Rlp.decParity bits s)], J [bytesHex s, okV v])
  | "rlpbits" =>
    let s := Rlp.encBits bits v
    some (J [bytesHex s, rtV (Rlp.decParityBits bits s)], J [bytesHex s, okV v])
  | "scale" =>
    let e := Scale.encFixed bits v
    some (J [bytesHex e, toString (Scale.sizeHintFixed bits), toString e.length, toString (Scale.maxEncodedLen bits),
             rtN (Scale.decFixed bits (e ++ tail))],
          J [bytesHex e, boundTok impl 1 e.length, toString e.length, boundTok impl 3 e.length, okN v e.length])
  | "scalec" =>
    if Scale.compactBitsLimit ≤ bits then some ("panic", "panic")
    else
      let e := Scale.encCompact v
      some (J [bytesHex e, toString (Scale.sizeHintCompact v), "same", rtN (Scale.decCompact bits (e ++ tail))],
            J [bytesHex e, toString e.length, "same", okN v e.length])
  | "ssz" =>
    let e := Fixed.encSsz bits v
    let n := toString (nbytes bits)
    some (J [bytesHex e, toString (Fixed.sszBytesLen bits), n, n, "t", rtV (Fixed.decSsz bits e)],
          J [bytesHex e, toString e.length, n, n, "t", okV v])
  | "borsh" =>
    let e := Fixed.encBorsh bits v
    some (J [bytesHex e, rtV (Fixed.decBorsh bits e), rtN (Fixed.decBorshReader bits (e ++ tail)),
             rtV (Fixed.decBorsh bits e)],
          J [bytesHex e, okV v, okN v e.length, okV v])
  | "der" =>
    let e := Der.encImpl v
    let s := Der.enc v
    some (J [bytesHex e, toString (Der.valueLen v), toString (1 + (Der.derLen (Der.valueLen v)).length + Der.valueLen v),
             rtV (Der.dec bits e), "t"],
          J [bytesHex s, toString (Der.content v).length, toString s.length, okV v, "t"])
  | "json" =>
    let e := Serde.encJson v
    let eb := Serde.encJsonBits bits v
    let r (x : Option Nat) : String := match x with
      | some v => okV v
      | none => "err"
    some (J [bytesHex e, r (Serde.decJson bits e), bytesHex eb, r (Serde.decJson bits eb)],
          J [bytesHex e, okV v, bytesHex eb, okV v])
  | "bincode" =>
    let e := Fixed.encBincode bits v
    let r := match Fixed.decBincode bits e with
      | .ok v => okV v
      | .error _ => "err"
    some (J [bytesHex e, r, r], J [bytesHex e, okV v, okV v])
  | "bigint" =>
    some (J [limbsStr (Fixed.bigUintDigits v), "t", "t"], J [limbsStr (Fixed.bigUintDigits v), "t", "t"])
  | "ark4" | "ark3" =>
    some (J [limbsStr (Fixed.limbs bits v), "t"], J [limbsStr (Fixed.limbs bits v), "t"])
  | "ptypes" =>
    some (J [limbsStr (Fixed.limbs bits v), "t", "t"], J [limbsStr (Fixed.limbs bits v), "t", "t"])
  | "hbits" =>
    some (J [bytesHex (toBE (nbytes bits) v), "t"], J [bytesHex (toBE (nbytes bits) v), "t"])
  | "pod" =>
    some (J [bytesHex (Fixed.podBytes bits v), "t", "t"], J [bytesHex (Fixed.podBytes bits v), "t", "t"])
  | _ =>
    if op.startsWith "pg_" then
      match Pg.Ty.ofString ((op.drop 3).toString) with
      | some ty =>
        match Pg.toSql ty bits v with
        | some e => some (J ["ok:" ++ bytesHex e, rtV (Pg.fromSql ty bits e)], J ["ok:" ++ bytesHex e, okV v])
        | none => some ("err", "err")
      | none => none
    else none

def handle (args : List String) (impl : String) : String × String :=
  match args with
  | ["exh", bs, name, pre, depth] =>
    let r := exh name (parseDec bs) (parseBytes pre) (parseDec depth)
    -- digest lines: same acceptance counts and no panic = the property-level predicate holds on every string as
    -- far as a digest can tell (a differing digest is then a broken correspondence, e.g. another error kind);
    -- differing counts = some string is accepted/rejected/panicking differently
    let counts (s : String) : List String := ((s.splitOn " ").filter (· ≠ "")).drop 1
    if impl = r then (r, r)
    else if counts impl == counts r ∧ (counts r).getLast? == some "other=0" then (r, "pred:true")
    else (r, "pred:false acceptance counts differ from the model: " ++ " ".intercalate (counts r))
  | ["sv", bs, hr, kind, pay] =>
    -- `Uint::deserialize` driven through ONE visitor entry point (harness `VisitProbe`): the model is what the impl defines
    -- (human-readable: `visit_u64` / `visit_u128` of a fitting value; binary: `visit_bytes` of exactly BYTES big-endian bytes
    -- of a fitting value; every other entry point is an error); the spec judges any accepted value against what the
    -- payload denotes for that entry point
    let bits := parseDec bs
    let p := parseBytes pay
    let be (n : Nat) : Nat := beVal (p.take n)
    let okStr (v : Nat) : String := "ok " ++ toHex v
    let defined : Option Nat :=
      if hr = "1" then (match kind with | "u64" => some (be 8) | "u128" => some (be 16) | _ => none)
      else (match kind with | "bytes" => (if p.length = nbytes bits then some (beVal p) else none) | _ => none)
    let m := match defined with
      | some v => if v < 2 ^ bits then okStr v else "err"
      | none => "err"
    let denotes : Option Nat := match kind with
      | "u64" => some (be 8)
      | "u128" => some (be 16)
      | "i64" => if be 8 < 2 ^ 63 then some (be 8) else none
      | "i128" => if be 16 < 2 ^ 127 then some (be 16) else none
      | "bytes" | "seq" => if p.length = nbytes bits then some (beVal p) else none
      | _ => none
    let spec :=
      if impl = "err" then
        (match defined with
         | some v => if v < 2 ^ bits then "pred:false a value the format defines was rejected" else "pred:true"
         | none => "pred:true")
      else match denotes with
        | some v => if v < 2 ^ bits ∧ impl = okStr v then "pred:true" else "pred:false accepted something the input does not denote"
        | none => "pred:false accepted an input that denotes no value through this entry point"
    (m, spec)
  | ["d_bigint", bs, sign, mag] =>
    let bits := parseDec bs
    let m := fmtV (Fixed.fromBigInt bits (sign = "-" && parseHex mag != 0) (parseHex mag))
    (m, decPred "bigint" bits [] impl m)
  | [op, bs, arg] =>
    let bits := parseDec bs
    if op.startsWith "d_" then
      let name := (op.drop 2).toString
      let inp := parseBytes arg
      match decModel name bits inp with
      | some m => (m, decPred name bits inp impl m)
      | none => ("bad-op", "bad-op")
    else
      match encHandle op bits (parseHex arg) impl with
      | some r => r
      | none => ("bad-op", "bad-op")
  | _ => ("bad-op", "bad-op")

end Ruint.DrvCodec
