import Ruint.Model.Add
import Ruint.Gen.WordsUint
/-! Driver for C01: evaluates the model (`Ruint.Add.*` on limb lists) and the spec (ℕ arithmetic). -/
open Ruint Ruint.Add

namespace Ruint.DrvC01

def u (bits : Nat) (s : String) : List Nat := toLimbs (nlimbs bits) (parseHex s)
def out (l : List Nat) : String := toHex (val l)
def outF (p : List Nat × Bool) : String := out p.1 ++ " " ++ boolStr p.2
def outO : Option (List Nat) → String
  | some v => "some " ++ out v
  | none => "none"
def sOpt (ok : Bool) (v : Nat) : String := if ok then "some " ++ toHex v else "none"

def handle (args : List String) (_impl : String) : String × String :=
  match args with
  | [op, bs, as, bs'] =>
    let bits := parseDec bs
    let a := u bits as; let b := u bits bs'
    let x := parseHex as; let y := parseHex bs'
    let m := 2 ^ bits
    match op with
    -- model column of oadd / osub: the WHOLE methods as generated from src/add.rs (Props/C01: gen_overflowing_*_eq)
    | "oadd" => (outF (Ruint.Gen.uint_overflowing_add (nlimbs bits + 1) bits (nlimbs bits) a b), toHex ((x + y) % m) ++ " " ++ boolStr (decide (m ≤ x + y)))
    | "osub" => (outF (Ruint.Gen.uint_overflowing_sub (nlimbs bits + 1) bits (nlimbs bits) a b), toHex ((x + m - y) % m) ++ " " ++ boolStr (decide (x < y)))
    | "cadd" => (outO (Ruint.Gen.uint_checked_add (nlimbs bits + 1) bits (nlimbs bits) a b), sOpt (decide (x + y < m)) (x + y))
    | "csub" => (outO (Ruint.Gen.uint_checked_sub (nlimbs bits + 1) bits (nlimbs bits) a b), sOpt (decide (y ≤ x)) (x - y))
    | "sadd" => (out (Ruint.Gen.uint_saturating_add (nlimbs bits + 1) bits (nlimbs bits) a b), toHex (min (x + y) (m - 1)))
    | "ssub" => (out (Ruint.Gen.uint_saturating_sub (nlimbs bits + 1) bits (nlimbs bits) a b), toHex (x - y))
    | "wadd" | "add0" | "add1" | "add2" | "add3" | "add4" | "add5" =>
        (out (Ruint.Gen.uint_wrapping_add (nlimbs bits + 1) bits (nlimbs bits) a b), toHex ((x + y) % m))
    | "wsub" | "sub0" | "sub1" | "sub2" | "sub3" | "sub4" | "sub5" =>
        (out (Ruint.Gen.uint_wrapping_sub (nlimbs bits + 1) bits (nlimbs bits) a b), toHex ((x + m - y) % m))
    | "absdiff" => (out (Ruint.Gen.uint_abs_diff (nlimbs bits + 1) bits (nlimbs bits) a b), toHex (if x < y then y - x else x - y))
    | _ => ("bad-op", "bad-op")
  | [op, _, as, bs', cs] =>
    -- word primitives generated from the source (`Ruint.Gen.carrying_add` / `borrowing_sub`)
    let x := parseHex as; let y := parseHex bs'; let c := cs == "t"
    match op with
    | "w_cadd" => let r := Ruint.Gen.carrying_add x y c
        (toHex r.1 ++ " " ++ boolStr r.2,
         toHex ((x + y + c.toNat) % W) ++ " " ++ boolStr (decide (W ≤ x + y + c.toNat)))
    | "w_bsub" => let r := Ruint.Gen.borrowing_sub x y c
        (toHex r.1 ++ " " ++ boolStr r.2,
         toHex ((x + 2 * W - y - c.toNat) % W) ++ " " ++ boolStr (decide (x < y + c.toNat)))
    | _ => ("bad-op", "bad-op")
  | [op, bs, as] =>
    let bits := parseDec bs
    let m := 2 ^ bits
    match op with
    | "oneg" => let a := u bits as; let x := parseHex as
        (outF (Ruint.Gen.uint_overflowing_neg (nlimbs bits + 1) bits (nlimbs bits) a), toHex ((m - x) % m) ++ " " ++ boolStr (decide (0 < x)))
    | "cneg" => let a := u bits as; let x := parseHex as
        (outO (Ruint.Gen.uint_checked_neg (nlimbs bits + 1) bits (nlimbs bits) a), sOpt (decide (x = 0)) 0)
    | "wneg" | "neg" | "negref" => let a := u bits as; let x := parseHex as
        (out (Ruint.Gen.uint_wrapping_neg (nlimbs bits + 1) bits (nlimbs bits) a), toHex ((m - x) % m))
    | "sum" | "sumref" =>
        -- `N` = a `None` of a non-fused iterator: the items before the first one count
        let xs := if as = "-" then [] else ((as.splitOn ",").takeWhile (· ≠ "N")).map parseHex
        (out (sum bits (xs.map (toLimbs (nlimbs bits)))), toHex (xs.foldl (· + ·) 0 % m))
    | _ => ("bad-op", "bad-op")
  | _ => ("bad-op", "bad-op")

end Ruint.DrvC01

def main : IO Unit := Ruint.driverMain Ruint.DrvC01.handle
