import Ruint.Model.Float
import Ruint.Gen.WordsFloat
import Ruint.Gen.WordsToFloat
/-! Driver for C18: evaluates the float-conversion models (`Ruint.Float.*`) and the spec column.

* `tryf64/tryf32`: model = full outcome incl. wrapped payloads; spec = predicate on the implementation's
  output: class (`NaN`, `Negative`, `TooLarge`, `ok`) and, for `ok`, the exact value `⌊f + 1/2⌋`
  (payloads of errors are not pinned by the property).
* `satf*`, `fromf*`: exact spec. `wrapf*`: exact where the property pins it (`ok`, NaN ↦ 0), else `any`.
* `tof64/tof32[v]`: spec = predicate "one of the two neighbours, exact when representable, `+∞` only at or
  above the rounding threshold"; `msb limbs = msbSpec (val limbs)` (now the theorem
  `C18.most_significant_bits_spec`, it started as a monitored hypothesis) is still evaluated per case.
* `mono64/mono32`: monotonicity on a pair.
* `hw_*`: the IEEE model against the host FPU; the spec column echoes the implementation so that a
  disagreement is a MODEL-ERROR (machinery), never a verdict about the crate.
-/
open Ruint Ruint.Float

namespace Ruint.DrvC18

def resStr : Res → String
  | .ok n => "ok " ++ toHex n
  | .tooLarge n => "err TooLarge " ++ toHex n
  | .negative n => "err Negative " ++ toHex n
  | .notANumber => "err NaN"
  | .panic => "panic"

def optStr : Option Nat → String
  | some n => toHex n
  | none => "panic"

/-- float bit pattern, NaNs collapsed (payloads are not modelled). -/
def fstr (f : Fmt) (x : Nat) : String := if isNaN f x then "nan" else toHex x

/-- expected class of `try_from(float)` from exact arithmetic on the decoded input. -/
inductive Cls where
  | nan | neg | big | ok (n : Nat)

def classify (bits : Nat) (d : Dec) : Cls :=
  match d with
  | .nan => .nan
  | .inf true => .neg
  | .inf false => .big
  | .fin neg m e =>
    if neg && m != 0 then .neg
    else
      let n := floorHalf m e
      if n < 2 ^ bits then .ok n else .big

def judgeTry (bits : Nat) (d : Dec) (impl : String) : String :=
  let t := (impl.splitOn " ").filter (· ≠ "")
  match classify bits d, t with
  | .nan, ["err", "NaN"] => "pred:true"
  | .nan, _ => "pred:false expected err NaN"
  | .neg, ["err", "Negative", _] => "pred:true"
  | .neg, _ => "pred:false expected err Negative"
  | .big, ["err", "TooLarge", _] => "pred:true"
  | .big, _ => "pred:false expected err TooLarge"
  | .ok n, ["ok", v] => if v = toHex n then "pred:true" else "pred:false expected ok " ++ toHex n
  | .ok n, _ => "pred:false expected ok " ++ toHex n

def specSat (bits : Nat) (d : Dec) : String :=
  match classify bits d with
  | .nan => "0" | .neg => "0" | .big => toHex (2 ^ bits - 1) | .ok n => toHex n

def specWrap (bits : Nat) (d : Dec) : String :=
  match classify bits d with
  | .nan => "0" | .ok n => toHex n | _ => "any"

def specFrom (bits : Nat) (d : Dec) : String :=
  match classify bits d with
  | .ok n => toHex n | _ => "panic"

/-- predicate of the to-float direction on the implementation's bit pattern `r`. -/
def judgeTo (f : Fmt) (v : Nat) (impl : String) : String :=
  if impl = "nan" || impl = "panic" then "pred:false result is " ++ impl
  else
    let r := parseHex impl
    let lo := roundDown f v
    let exact := representable f v
    if exact then (if r = lo then "pred:true" else "pred:false representable value must convert exactly: " ++ toHex lo)
    else if r ≠ lo ∧ r ≠ lo + 1 then "pred:false not a neighbour: lo=" ++ toHex lo
    else if r = f.infBits ∧ v < infThreshold f then "pred:false infinity below the rounding threshold"
    else "pred:true"

/-- `TryFrom<f64>` as GENERATED from `src/from.rs` (`Gen/WordsFloat`, value mode over the binary64 model), read back into the
    model's result type; `Props/C18.gen_try_from_f64_eq` proves it equal to `tryFromF64`. -/
def genRes : Option (Except (Nat × Nat × Nat) Nat) → Res
  | none => .panic
  | some (.ok v) => .ok v
  | some (.error (0, _, w)) => .tooLarge w
  | some (.error (1, _, w)) => .negative w
  | some (.error _) => .notANumber

def genTry (bits x : Nat) : Res := genRes (Ruint.Gen.val_try_from_f64 3 bits 0 x)
/-- `TryFrom<f32>` as generated: the widening cast, then `TryFrom<f64>`. -/
def genTry32 (bits x : Nat) : Res := genRes (Ruint.Gen.val_try_from_f32 3 bits 0 x)

/-- `f64::from(&Uint)` / `f32::from(&Uint)` as GENERATED from `src/from.rs` (`Gen/WordsToFloat`, over the generated
    `most_significant_bits`); `Props/C18.gen_to_float_eq` proves them equal to `toFloatV`. -/
def genToFloat (f : Fmt) (bits : Nat) (l : List Nat) : Nat :=
  if f.mb = 52 then Ruint.Gen.f64_from_uint bits (nlimbs bits) l else Ruint.Gen.f32_from_uint bits (nlimbs bits) l

def handle (args : List String) (impl : String) : String × String :=
  match args with
  | [op, bs, xs] =>
    let bits := parseDec bs
    let x := parseHex xs
    match op with
    | "tryf64" => (resStr (genTry bits x), judgeTry bits (decode b64 x) impl)
    | "tryf32" => (resStr (genTry32 bits x), judgeTry bits (decode b32 x) impl)
    | "satf64" => (optStr (saturating bits (genTry bits x)), specSat bits (decode b64 x))
    | "satf32" => (optStr (saturating bits (genTry32 bits x)), specSat bits (decode b32 x))
    | "wrapf64" => (optStr (wrapping (genTry bits x)), specWrap bits (decode b64 x))
    | "wrapf32" => (optStr (wrapping (genTry32 bits x)), specWrap bits (decode b32 x))
    | "fromf64" => (optStr (fromOrPanic (genTry bits x)), specFrom bits (decode b64 x))
    | "fromf32" => (optStr (fromOrPanic (genTry32 bits x)), specFrom bits (decode b32 x))
    | "tof64" | "tof64v" | "tof32" | "tof32v" =>
      let f := if op = "tof64" || op = "tof64v" then b64 else b32
      let l := toLimbs (nlimbs bits) x
      let hyp := decide (msb l = msbSpec x)
      (fstr f (genToFloat f bits l),
        if hyp then judgeTo f x impl else "pred:false hyp msb_eq_spec fails")
    | "msb" =>
      let l := toLimbs (nlimbs bits) x
      let p := msb l
      let q := msbSpec x
      (toHex p.1 ++ " " ++ toHex p.2, toHex q.1 ++ " " ++ toHex q.2)
    | "hw_addhalf" => (fstr b64 (add b64 x (half b64)), impl)
    | "hw_abs64" => (fstr b64 (abs b64 x), impl)
    | "hw_isnormal64" => (boolStr (isNormal b64 x), impl)
    | "hw_u64f64" => (fstr b64 (ofNat b64 x), impl)
    | "hw_u64f32" => (fstr b32 (ofNat b32 x), impl)
    | "hw_f32f64" => (fstr b64 (f32ToF64 x), impl)
    | "hw_exp2" => (fstr b64 (exp2Int b64 x), impl)
    | "hw_exp2f" => (fstr b32 (exp2Int b32 x), impl)
    | _ => ("bad-op", "bad-op")
  | [op, bs, xs, ys] =>
    let bits := parseDec bs
    let x := parseHex xs
    let y := parseHex ys
    match op with
    | "mono64" | "mono32" =>
      let f := if op = "mono64" then b64 else b32
      let l1 := toLimbs (nlimbs bits) x
      let l2 := toLimbs (nlimbs bits) y
      let m := fstr f (genToFloat f bits l1) ++ " " ++ fstr f (genToFloat f bits l2)
      let spec := match (impl.splitOn " ").filter (· ≠ "") with
        | [r1, r2] =>
          if r1 = "nan" || r2 = "nan" then "pred:false nan"
          else
            let a := parseHex r1; let b := parseHex r2
            if (x ≤ y → a ≤ b) ∧ (y ≤ x → b ≤ a) then "pred:true" else "pred:false not monotone"
        | _ => "pred:false malformed"
      (m, spec)
    | "hw_add64" => (fstr b64 (add b64 x y), impl)
    | "hw_add32" => (fstr b32 (add b32 x y), impl)
    | "hw_mul64" => (fstr b64 (mul b64 x y), impl)
    | "hw_mul32" => (fstr b32 (mul b32 x y), impl)
    | "hw_fmod64" => (fstr b64 (fmod b64 x y), impl)
    | "hw_lt64" => (boolStr (lt b64 x y), impl)
    | "hw_ge64" => (boolStr (ge b64 x y), impl)
    | _ => ("bad-op", "bad-op")
  | _ => ("bad-op", "bad-op")

end Ruint.DrvC18

def main : IO Unit := Ruint.driverMain Ruint.DrvC18.handle
