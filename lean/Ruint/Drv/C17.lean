import Ruint.Drv.Codec
/-! Driver for C17 (decoders on untrusted input). -/
def main : IO Unit := Ruint.driverMain Ruint.DrvCodec.handle
