import Ruint.Model.Mul
import Ruint.Gen.WordsUint
import Ruint.Gen.WordsUintMod
/-! Driver for C02: model = `Ruint.Mul.*` on limb lists, spec = ℕ arithmetic. -/
open Ruint Ruint.Mul

namespace Ruint.DrvC02

def u (bits : Nat) (s : String) : List Nat := toLimbs (nlimbs bits) (parseHex s)
def out (l : List Nat) : String := toHex (val l)
def outF (p : List Nat × Bool) : String := out p.1 ++ " " ++ boolStr p.2
def outO : Option (List Nat) → String
  | some v => "some " ++ out v
  | none => "none"
def sOpt (ok : Bool) (v : Nat) : String := if ok then "some " ++ toHex v else "none"

/-- the inverse of odd `x` modulo `2^bits`, found bit by bit (independent of Newton/Hensel):
    invariant `rem = (1 - x*inv) mod 2^bits` with its low `i` bits clear. -/
def invBits (bits x : Nat) : Nat := Id.run do
  let m := 2 ^ bits
  let mut inv := 0
  let mut rem := 1 % m
  for i in [0:bits] do
    if (rem >>> i) % 2 = 1 then
      inv := inv + 2 ^ i
      rem := (rem + m - (x <<< i) % m) % m
  return inv

def invSpec (bits x : Nat) : String :=
  if bits = 0 ∨ x % 2 = 0 then "none" else "some " ++ toHex (invBits bits x)

def handle (args : List String) (_impl : String) : String × String :=
  match args with
  | ["wide", bs, bs2, as, bs'] =>
    let bits := parseDec bs; let bits2 := parseDec bs2
    let a := u bits as; let b := u bits2 bs'
    let br := bits + bits2
    ((match Ruint.Gen.uint_widening_mul (nlimbs br + a.length + b.length + 1) bits2 (nlimbs bits2) br (nlimbs br) bits (nlimbs bits) a b with
        | some r => out r | none => "panic"), toHex (parseHex as * parseHex bs'))
  | ["widebad", bs, bs2, bres, as, bs'] =>
    let bits := parseDec bs; let bits2 := parseDec bs2; let br := parseDec bres
    let a := u bits as; let b := u bits2 bs'
    -- `widening_mul` GENERATED from src/mul.rs (`Props/C02.gen_widening_mul_eq`), any caller-chosen result width
    ((match Ruint.Gen.uint_widening_mul (nlimbs br + a.length + b.length + 1) bits2 (nlimbs bits2) br (nlimbs br) bits (nlimbs bits) a b with
        | some r => out r | none => "panic"),
     if br = bits + bits2 then toHex (parseHex as * parseHex bs') else "panic")
  | [op, bs, as, bs'] =>
    let bits := parseDec bs
    let a := u bits as; let b := u bits bs'
    let x := parseHex as; let y := parseHex bs'
    let m := 2 ^ bits
    match op with
    | "omul" => (outF (Ruint.Gen.uint_overflowing_mul (3 * nlimbs bits + 1) bits (nlimbs bits) a b), toHex ((x * y) % m) ++ " " ++ boolStr (decide (m ≤ x * y)))
    | "cmul" => (outO (Ruint.Gen.uint_checked_mul (3 * nlimbs bits + 1) bits (nlimbs bits) a b), sOpt (decide (x * y < m)) (x * y))
    | "smul" => (out (Ruint.Gen.uint_saturating_mul (3 * nlimbs bits + 1) bits (nlimbs bits) a b), toHex (min (x * y) (m - 1)))
    | "wmul" | "mul0" | "mul1" | "mul2" | "mul3" | "mul4" | "mul5" =>
        (out (Ruint.Gen.uint_wrapping_mul bits (nlimbs bits) a b), toHex ((x * y) % m))
    | _ => ("bad-op", "bad-op")
  | [op, bs, as] =>
    let bits := parseDec bs
    let m := 2 ^ bits
    match op with
    | "inv" => let a := u bits as; let x := parseHex as
        (outO (Ruint.Gen.uint_inv_ring (nlimbs bits + 1) bits (nlimbs bits) a), invSpec bits x)
    | "prod" | "prodref" =>
        -- `N` = a `None` of a non-fused iterator: the items before the first one count
        let xs := if as = "-" then [] else ((as.splitOn ",").takeWhile (· ≠ "N")).map parseHex
        (out (product bits (xs.map (toLimbs (nlimbs bits)))), toHex (xs.foldl (· * ·) 1 % m))
    | _ => ("bad-op", "bad-op")
  | _ => ("bad-op", "bad-op")

end Ruint.DrvC02

def main : IO Unit := Ruint.driverMain Ruint.DrvC02.handle
