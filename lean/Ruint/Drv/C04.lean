import Ruint.Model.History
import Ruint.Gen.WordsKernels
import Ruint.Gen.WordsUintMod
import Ruint.Gen.WordsFls
/-! Driver for C04.
* `hist`: model = `Ruint.History.step` (limb-level models) for the operations that have one, value-level
  arithmetic re-encoded into limbs for operations owned by other properties; spec = value-level arithmetic
  on `Nat` for every operation. Printed: the written register's raw limbs after every step, all registers
  at the end, and `==`/hash/`cmp`/`<`/`<=`/`>`/`>=` for every register pair.
* `cmp`, constructors (`from_limbs`, limb-slice family), generator draws (`gen`: predicate on the
  implementation's report). -/
open Ruint Ruint.History

namespace Ruint.DrvC04

def parseS (s : String) : Int :=
  match s.toList with
  | '-' :: rest => -((parseHex (String.ofList rest) : Nat) : Int)
  | _ => (parseHex s : Nat)

def parseBytesAux : List Char → List Nat
  | a :: b :: rest => (hexVal a * 16 + hexVal b) :: parseBytesAux rest
  | _ => []
def parseBytes (s : String) : List Nat := if s = "-" then [] else parseBytesAux s.toList

def prim (s : String) : Conv.Prim :=
  match s with
  | "bool" => ⟨1, false⟩
  | "u8" => ⟨8, false⟩ | "u16" => ⟨16, false⟩ | "u32" => ⟨32, false⟩ | "u64" => ⟨64, false⟩
  | "u128" => ⟨128, false⟩ | "usize" => ⟨64, false⟩
  | "i8" => ⟨8, true⟩ | "i16" => ⟨16, true⟩ | "i32" => ⟨32, true⟩ | "i64" => ⟨64, true⟩
  | "i128" => ⟨128, true⟩ | _ => ⟨64, true⟩

/-- modular exponentiation by squaring on `Nat` (spec of `wrapping_pow`) -/
partial def powMod (a e m : Nat) (acc : Nat) : Nat :=
  if e = 0 then acc % m
  else powMod (a * a % m) (e / 2) m (if e % 2 = 1 then acc * a % m else acc)

def revBits (bits a : Nat) : Nat :=
  (List.range bits).foldl (fun acc i => if a.testBit i then acc + 2 ^ (bits - 1 - i) else acc) 0

/-- an operation token parsed either to a modelled `History.Op` or handled at value level only -/
structure Tok where
  name : String
  args : List String

def tok (s : String) : Tok :=
  match s.splitOn ":" with
  | n :: rest => ⟨n, rest⟩
  | [] => ⟨"", []⟩

def argN (t : Tok) (i : Nat) : Nat := parseDec (t.args.getD i "0")
def argS (t : Tok) (i : Nat) : String := t.args.getD i "0"

/-- the modelled operations -/
def toOp (t : Tok) : Option Op :=
  let d := argN t 0; let a := argN t 1; let b := argN t 2
  match t.name with
  | "zero" => some (.zero d) | "one" => some (.one d) | "max" => some (.max d)
  | "wadd" => some (.wadd d a b) | "wsub" => some (.wsub d a b) | "wneg" => some (.wneg d a)
  | "sadd" => some (.sadd d a b) | "ssub" => some (.ssub d a b) | "absdiff" => some (.absdiff d a b)
  | "min" => some (.min d a b) | "maxof" => some (.maxOf d a b)
  | "wfrom" => some (.wfrom d (prim (argS t 1)) (parseS (argS t 2)))
  | "sfrom" => some (.sfrom d (prim (argS t 1)) (parseS (argS t 2)))
  | "wfls" => some (.wfls d (parseLimbs (argS t 1)))
  | "sfls" => some (.sfls d (parseLimbs (argS t 1)))
  | "via" => some (.via d a b)
  | "tryle" => some (.tryLe d (parseBytes (argS t 1)))
  | "trybe" => some (.tryBe d (parseBytes (argS t 1)))
  | "rtle" => some (.rtLe d a) | "rtbe" => some (.rtBe d a)
  | "rtlet" => some (.rtLeTrim d a) | "rtbet" => some (.rtBeTrim d a)
  | "fill08" | "fill09" | "fillmut" => some (.fill d (parseLimbs (argS t 1)))
  | "rtlimbs" => some (.rtLimbs d a)
  | "wmul" => some (.wmul d a b) | "smul" => some (.smul d a b)
  | "wshl" => some (.wshl d a b) | "wshr" => some (.wshr d a b)
  | "rotl" => some (.rotl d a b) | "rotr" => some (.rotr d a b) | "ashr" => some (.ashr d a b)
  | "not" => some (.not d a) | "and" => some (.and d a b) | "or" => some (.or d a b) | "xor" => some (.xor d a b)
  | "setbit" => some (.setbit d a b (argN t 3 == 1)) | "revbits" => some (.revbits d a)
  | "div" => some (.div d a b) | "rem" => some (.rem d a b) | "gcd" => some (.gcd d a b)
  | "addmod" => some (.addmod d a b (argN t 3)) | "mulmod" => some (.mulmod d a b (argN t 3))
  | "wpow" => some (.wpow d a b) | "npow2" => some (.npow2 d a)
  | _ => none

def ofBE (bs : List Nat) : Nat := bs.foldl (fun a b => a * 256 + b) 0
def ofLE (bs : List Nat) : Nat := bs.foldr (fun b a => b + 256 * a) 0

/-- value-level semantics of every operation: `(dst, new value)` or `none` (nothing written / unknown op).
    `r i` reads register `i`. -/
def specEval (bits : Nat) (r : Nat → Nat) (t : Tok) : Option (Option (Nat × Nat)) :=
  let m := 2 ^ bits
  let d := argN t 0; let a := r (argN t 1); let b := r (argN t 2)
  let imm := argN t 2
  let w (v : Nat) : Option (Option (Nat × Nat)) := some (some (d, v))
  match t.name with
  | "zero" => w 0 | "one" => w (1 % m) | "max" => w (m - 1)
  | "wadd" => w ((a + b) % m) | "wsub" => w ((a + m - b) % m) | "wneg" => w ((m - a) % m)
  | "sadd" => w (min (a + b) (m - 1)) | "ssub" => w (a - b)
  | "absdiff" => w (if a < b then b - a else a - b)
  | "min" => w (min a b) | "maxof" => w (max a b)
  -- `value as uN` first (the property pins the negative payload only for BITS ≤ N, where this is `v mod 2^BITS`)
  | "wfrom" => w ((parseS (argS t 2) % ((2 ^ (prim (argS t 1)).width : Nat) : Int)).toNat % m)
  | "sfrom" => let v := parseS (argS t 2); w (if v < 0 then 0 else if v < m then v.toNat else m - 1)
  | "wfls" => w (val (parseLimbs (argS t 1)) % m)
  | "sfls" => let v := val (parseLimbs (argS t 1)); w (if v < m then v else m - 1)
  | "via" => w (a % 2 ^ imm % m)
  | "tryle" => let bs := parseBytes (argS t 1); let v := ofLE bs
      some (if bs.length ≤ (bits + 7) / 8 ∧ v < m then some (d, v) else none)
  | "trybe" => let bs := parseBytes (argS t 1); let v := ofBE bs
      some (if bs.length ≤ (bits + 7) / 8 ∧ v < m then some (d, v) else none)
  | "rtle" | "rtbe" | "rtlet" | "rtbet" | "rtlimbs" | "copy" => w a
  | "fill08" | "fill09" | "fillmut" =>
      w (val ((parseLimbs (argS t 1) ++ List.replicate (nlimbs bits) 0).take (nlimbs bits)) % m)
  -- operations owned by other properties: value level only
  | "wmul" => w (a * b % m) | "smul" => w (min (a * b) (m - 1))
  | "and" => w (a &&& b) | "or" => w (a ||| b) | "xor" => w (a ^^^ b)
  | "not" => w (m - 1 - a)
  | "div" => w (if b = 0 then a else a / b) | "rem" => w (if b = 0 then a else a % b)
  | "gcd" => w (Nat.gcd a b)
  | "addmod" => let md := r (argN t 3); w (if md = 0 then 0 else (a + b) % md)
  | "mulmod" => let md := r (argN t 3); w (if md = 0 then 0 else a * b % md)
  | "wshl" => w (a * 2 ^ imm % m) | "wshr" => w (a / 2 ^ imm)
  | "rotl" => w (if bits = 0 then 0 else let k := imm % bits; (a * 2 ^ k % m) ||| (a / 2 ^ (bits - k)))
  | "rotr" => w (if bits = 0 then 0 else let k := (bits - imm % bits) % bits; (a * 2 ^ k % m) ||| (a / 2 ^ (bits - k)))
  | "ashr" => w (if bits = 0 then 0
      else if a.testBit (bits - 1) then (a / 2 ^ imm) ||| ((m - 1) * 2 ^ (bits - imm) % m) else a / 2 ^ imm)
  | "wpow" => w (if bits = 0 then 0 else powMod a b m 1)
  | "setbit" => let i := imm; let v := argN t 3
      w (if i < bits then (if v = 1 then a ||| 2 ^ i else a - (if a.testBit i then 2 ^ i else 0)) else a)
  | "revbits" => w (revBits bits a)
  | "npow2" =>
      let p := if a ≤ 1 then 1 else 2 ^ (Nat.log2 (a - 1) + 1)
      some (if p < m then some (d, p) else none)
  | _ => none

def cmpChar : Ordering → Char
  | .lt => 'l' | .eq => 'e' | .gt => 'g'
def bc (b : Bool) : Char := if b then 't' else 'f'

/-- pair code from the limb-level models: eq, hash-eq (a function of the limb array), cmp, <, <=, >, >= -/
def pairModel (a b : List Nat) : String :=
  -- `cmp`: `algorithms::cmp` GENERATED from the source (`Props/C04.gen_cmp_eq`)
  String.ofList [bc (Cmp.eq a b), bc (Cmp.eq a b),
    cmpChar (Ruint.Gen.limb_cmp (min a.length b.length + 1) a b), bc (Cmp.lt a b), bc (Cmp.le a b),
    bc (Cmp.gt a b), bc (Cmp.ge a b)]
def pairSpec (a b : Nat) : String :=
  String.ofList [bc (a == b), bc (a == b), cmpChar (compare a b), bc (decide (a < b)), bc (decide (a ≤ b)),
    bc (decide (a > b)), bc (decide (a ≥ b))]

def pairs {α} (l : List α) (f : α → α → String) : List String :=
  let idx := List.range l.length
  idx.flatMap fun i => idx.filterMap fun j =>
    if i < j then
      match l[i]?, l[j]? with
      | some a, some b => some (f a b)
      | _, _ => none
    else none

def hist (bits : Nat) (init : List Nat) (ops : List String) : String × String :=
  let n := nlimbs bits
  -- model run
  let (mregs, mouts, bad) := ops.foldl (fun (st : Regs × List String × Bool) s =>
      let (regs, outs, bad) := st
      let t := tok s
      match toOp t with
      | some op =>
        let regs' := step bits regs op
        (regs', limbsStr (rd bits regs' (argN t 0)) :: outs, bad)
      | none =>
        match specEval bits (fun i => val (rd bits regs i)) t with
        | some (some (d, v)) => (regs.set d (toLimbs n v), limbsStr (toLimbs n v) :: outs, bad)
        | some none => (regs, limbsStr (rd bits regs (argN t 0)) :: outs, bad)
        | none => (regs, outs, true))
    (init.map (toLimbs n), [], false)
  -- spec run
  let (sregs, souts) := ops.foldl (fun (st : List Nat × List String) s =>
      let (regs, outs) := st
      let t := tok s
      match specEval bits (fun i => regs.getD i 0) t with
      | some (some (d, v)) => (regs.set d v, limbsStr (toLimbs n v) :: outs)
      | _ => (regs, limbsStr (toLimbs n (regs.getD (argN t 0) 0)) :: outs))
    (init, [])
  if bad then ("bad-op", "bad-op")
  else
    (" ".intercalate (mouts.reverse ++ ["R"] ++ mregs.map limbsStr ++ ["P"] ++ pairs mregs pairModel),
     " ".intercalate (souts.reverse ++ ["R"] ++ sregs.map (fun v => limbsStr (toLimbs n v)) ++ ["P"]
        ++ pairs sregs pairSpec))

def resStr : Canon.Res → String
  | .ok l => toHex (val l)
  | .none => "none"
  | .panic => "panic"

def resStrO : Canon.Res → String
  | .ok l => "some " ++ toHex (val l)
  | .none => "none"
  | .panic => "panic"

/-- constructors of `src/lib.rs` (shared with C07) -/
def limbOps (op : String) (bits : Nat) (ls : String) : String × String :=
  let sl := parseLimbs ls
  let v := val sl
  let m := 2 ^ bits
  let ov := decide (m ≤ v)
  let out (l : List Nat) := toHex (val l)
  match op with
  | "ofls" => (match Canon.overflowingFromLimbsSlice bits sl with
      | some (n, f) => out n ++ " " ++ boolStr f
      | none => "panic", toHex (v % m) ++ " " ++ boolStr ov)
  -- the limb-slice constructors GENERATED from src/lib.rs (`Props/C04.gen_from_limbs_slice_family_eq`)
  | "fls" => (resStr (match Ruint.Gen.uint_from_limbs_slice bits (nlimbs bits) sl with | some l => .ok l | none => .panic),
              if ov then "panic" else toHex v)
  | "cfls" => (resStrO (match Ruint.Gen.uint_checked_from_limbs_slice bits (nlimbs bits) sl with
                 | some (some l) => .ok l | some none => .none | none => .panic), if ov then "none" else "some " ++ toHex v)
  | "wfls" => (resStr (match Ruint.Gen.uint_wrapping_from_limbs_slice bits (nlimbs bits) sl with | some l => .ok l | none => .panic),
               toHex (v % m))
  | "sfls" => (resStr (match Ruint.Gen.uint_saturating_from_limbs_slice bits (nlimbs bits) sl with | some l => .ok l | none => .panic),
               if ov then toHex (m - 1) else toHex v)
  -- `from_limbs` GENERATED from src/lib.rs (`Props/C04.gen_from_limbs_eq`) when the slice has LIMBS limbs
  | "from_limbs" => (match (if sl.length = nlimbs bits then Ruint.Gen.uint_from_limbs bits (nlimbs bits) sl
                            else Canon.fromLimbs bits sl) with | some l => out l | none => "panic",
      if ov then "panic" else toHex v)
  | "arkfrom" | "arkfromref" =>
      -- ark-ff 0.4 `From<BigInt<LIMBS>>`: `from_limbs` behind a conversion trait (raw limbs printed)
      (match Canon.fromLimbs bits sl with | some l => "value " ++ limbsStr l | none => "panic",
      if ov then "panic" else "value " ++ limbsStr (toLimbs (nlimbs bits) v))
  | _ => ("bad-op", "bad-op")

def handle (args : List String) (impl : String) : String × String :=
  match args with
  | "hist" :: bs :: init :: ops =>
    hist (parseDec bs) ((init.splitOn ";").map parseHex) ops
  | [op, bs, a] => limbOps op (parseDec bs) a
  -- `widening_mul` into a caller-chosen result width `br ≠ b1 + b2`: the asserts must fire (no value, hence no
  -- non-canonical value, is obtainable that way); C02's `widening_mul_generic` is the theorem
  | ["widebad", b1, b2, br, _, _] =>
    if parseDec br = parseDec b1 + parseDec b2 then ("bad-op", "bad-op") else ("panic", "panic")
  | ["cmp", bs, as, bs'] =>
    let bits := parseDec bs
    let n := nlimbs bits
    let x := parseHex as; let y := parseHex bs'
    let a := toLimbs n x; let b := toLimbs n y
    (pairModel a b ++ " " ++ toHex (val (Cmp.min a b)) ++ " " ++ toHex (val (Cmp.max a b)) ++ " "
        ++ String.ofList [bc (Cmp.isZero a)],
     pairSpec x y ++ " " ++ toHex (min x y) ++ " " ++ toHex (max x y) ++ " " ++ String.ofList [bc (x == 0)])
  -- `canon bits fn a b c`: further producers of the safe API (operations whose VALUES other properties decide); here only
  -- the C04 clause is judged, on the raw limbs the implementation printed: every value it yielded is canonical
  | ["canon", bs, _fn, _, _, _] =>
    let bits := parseDec bs
    let n := nlimbs bits
    let toks := (impl.splitOn " ").filter (· ≠ "")
    let bad := toks.filter (fun t =>
      if t = "none" ∨ t = "panic" then false
      else
        let l := parseLimbs t
        ¬ (l.length = n ∧ val l < 2 ^ bits ∧ l.all (· < W)))
    ("skip", if toks.isEmpty then "pred:false no output"
      else if bad.isEmpty then "pred:true" else "pred:false non-canonical value obtained: " ++ " ".intercalate bad)
  | ["gen", bs, _kind, _seed, ns] =>
    -- the implementation reports `noncanon=<k> n=<draws> or=<hex> and=<hex>`; the property: k = 0.
    -- (the OR over >= 64 draws of a generator that covers its range is MAX with overwhelming probability;
    --  a generator that clears too much would show up here)
    let bits := parseDec bs
    let want := "noncanon=0 n=" ++ ns ++ " "
    ("skip", if impl.startsWith want then
        (if parseDec ns ≥ 200 ∧ ¬ impl.endsWith (" or=" ++ toHex (2 ^ bits - 1) ++ " and=0")
         then "pred:false draws do not cover the range: " ++ impl else "pred:true")
      else "pred:false non-canonical draw or wrong count: expected prefix " ++ want)
  | _ => ("bad-op", "bad-op")

end Ruint.DrvC04

def main : IO Unit := Ruint.driverMain Ruint.DrvC04.handle
