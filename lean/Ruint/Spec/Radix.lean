import Ruint.Base
/-!
# Specification side of C09 (core Lean only; used by the driver's spec column and by `Props/C09.lean`)

The *documented* alphabets of `from_str_radix`, written as look-up strings (independent of the range
arithmetic in the code), and positional notation.
-/
namespace Ruint.Spec.Radix

/-- `0-9a-z`: the digit of a character is its index. -/
def alnum36 : List Char := "0123456789abcdefghijklmnopqrstuvwxyz".toList
/-- the standard base-64 alphabet (`A-Z a-z 0-9`), index = digit; `+`/`-` are 62 and `/`/`,`/`_` are 63. -/
def b64 : List Char := "ABCDEFGHIJKLMNOPQRSTUVWXYZabcdefghijklmnopqrstuvwxyz0123456789".toList

inductive Cls
  | digit (d : Nat)
  | ignored
  | bad
  deriving DecidableEq, Repr

/-- the documented meaning of a character for a radix: up to 36 the case-insensitive alphabet `0-9a-z` with `_`
    ignored; above 36 the base-64 alphabets (`=`, CR, LF ignored). -/
def docClass (radix : Nat) (c : Char) : Cls :=
  if radix ≤ 36 then
    if c = '_' then .ignored
    else
      let i := alnum36.idxOf c.toLower
      if i < 36 then .digit i else .bad
  else
    if c = '+' ∨ c = '-' then .digit 62
    else if c = '/' ∨ c = ',' ∨ c = '_' then .digit 63
    else if c = '=' ∨ c = '\r' ∨ c = '\n' then .ignored
    else
      let i := b64.idxOf c
      if i < 62 then .digit i else .bad

/-- big-endian positional value (Horner). -/
def horner (b : Nat) (ds : List Nat) : Nat := ds.foldl (fun a d => a * b + d) 0

/-- little-endian positional value. -/
def valueLE (b : Nat) : List Nat → Nat
  | [] => 0
  | d :: ds => d + b * valueLE b ds

/-- the digit values denoted by a string (`none` if some character is not in the alphabet). -/
def docDigits (radix : Nat) : List Char → Option (List Nat)
  | [] => some []
  | c :: cs =>
    match docClass radix c, docDigits radix cs with
    | .bad, _ => none
    | _, none => none
    | .ignored, some ds => some ds
    | .digit d, some ds => some (d :: ds)

/-- `FromStr`: the radix is taken from a leading `0x`/`0o`/`0b` (either case), which is then dropped; else decimal. -/
def sniff (src : List Char) : List Char × Nat :=
  match src with
  | c0 :: c1 :: r =>
    if c0 = '0' ∧ (c1 = 'x' ∨ c1 = 'X') then (r, 16)
    else if c0 = '0' ∧ (c1 = 'o' ∨ c1 = 'O') then (r, 8)
    else if c0 = '0' ∧ (c1 = 'b' ∨ c1 = 'B') then (r, 2)
    else (src, 10)
  | _ => (src, 10)

end Ruint.Spec.Radix
