import Ruint.Base
/-!
# Specification side of C19 (core Lean only): which literals the property speaks about.

Written independently of the macro's `rfind`-based parser: the suffix is recognised from the *right end*
(trailing decimal digits, then `U`/`B`), the body must have the shape of an integer literal.
-/
namespace Ruint.Spec.Macro

inductive Shape
  /-- no `U<digits>` / `B<digits>` at the end: an ordinary token, must pass through unchanged -/
  | ordinary
  /-- a hexadecimal literal that merely ends in `B<digits>` (no separating underscore): must pass through -/
  | hexB
  /-- `⟨prefix⟩⟨digits⟩[_]⟨U|B⟩⟨bits⟩`: big-endian digit values (underscores dropped) in `base` -/
  | ours (isUint : Bool) (bits : Nat) (base : Nat) (digits : List Nat)
  /-- not of the documented shape (float or string with such a suffix, width not a `usize`, …): not pinned -/
  | outside
  deriving DecidableEq, Repr

def hexAlphabet : List Char := "0123456789abcdef".toList

def hexVal? (c : Char) : Option Nat :=
  let i := hexAlphabet.idxOf c.toLower
  if i < 16 then some i else none

def isDec (c : Char) : Bool := c.isDigit

def shape (src : List Char) : Shape :=
  if src.contains '+' then .outside else
  let r := src.reverse
  let bitsR := r.takeWhile isDec
  match r.dropWhile isDec with
  | [] => .ordinary
  | t :: bodyR =>
    if bitsR ≠ [] ∧ (t = 'U' ∨ t = 'B') then
      let body := bodyR.reverse
      let n := bitsR.reverse.foldl (fun a c => a * 10 + (c.toNat - 48)) 0
      let (base, digs) : Nat × List Char := match body with
        | '0' :: 'x' :: d => (16, d)
        | '0' :: 'o' :: d => (8, d)
        | '0' :: 'b' :: d => (2, d)
        | _ => (10, body)
      if n + 63 ≥ 2 ^ 64 then .outside
      else if digs.all (fun c => c = '_' || (hexVal? c).isSome) then
        if t = 'B' ∧ base = 16 ∧ body.getLast? ≠ some '_' then .hexB
        else .ours (t = 'U') n base (digs.filterMap hexVal?)
      else .outside
    else .ordinary

/-- big-endian positional value. -/
def horner (b : Nat) (ds : List Nat) : Nat := ds.foldl (fun a d => a * b + d) 0

end Ruint.Spec.Macro
