import Ruint.Base
/-!
# Specification side of C19 (core Lean only): which literals the property speaks about.

Written independently of the macro's `rfind`-based parser: the suffix is recognised from the *right end*
(trailing decimal digits, then `U`/`B`), the body must have the shape of an integer literal.
-/
namespace Ruint.Spec.Macro

inductive Shape
  /-- no `U<digits>` / `B<digits>` at the end: an ordinary token, must pass through unchanged -/
  | ordinary
  /-- a hexadecimal literal that merely ends in `B<digits>` (no separating underscore): must pass through -/
  | hexB
  /-- `⟨prefix⟩⟨digits⟩[_]⟨U|B⟩⟨bits⟩`: big-endian digit values (underscores dropped) in `base` -/
  | ours (isUint : Bool) (bits : Nat) (base : Nat) (digits : List Nat)
  /-- not of the documented shape (float or string with such a suffix, width not a `usize`, …): not pinned -/
  | outside
  deriving DecidableEq, Repr

def hexAlphabet : List Char := "0123456789abcdef".toList

def hexVal? (c : Char) : Option Nat :=
  let i := hexAlphabet.idxOf c.toLower
  if i < 16 then some i else none

def isDec (c : Char) : Bool := c.isDigit

/-- base prefix of a literal body: `0x` / `0o` / `0b`, else decimal. -/
def splitPrefix (body : List Char) : Nat × List Char :=
  if body.take 2 = ['0', 'x'] then (16, body.drop 2)
  else if body.take 2 = ['0', 'o'] then (8, body.drop 2)
  else if body.take 2 = ['0', 'b'] then (2, body.drop 2)
  else (10, body)

def decimal (cs : List Char) : Nat := cs.foldl (fun a c => a * 10 + (c.toNat - 48)) 0

/-- a text `body ++ t :: bitsTxt` with `t ∈ {U, B}` and `bitsTxt` a non-empty run of decimal digits. -/
def classifyOurs (t : Char) (body bitsTxt : List Char) : Shape :=
  let n := decimal bitsTxt
  let base := (splitPrefix body).1
  let digs := (splitPrefix body).2
  if n + 63 ≥ 2 ^ 64 then .outside
  else if digs.all (fun c => c = '_' || (hexVal? c).isSome) then
    if t = 'B' ∧ base = 16 ∧ body.getLast? ≠ some '_' then .hexB
    else .ours (t = 'U') n base (digs.filterMap hexVal?)
  else .outside

def shape (src : List Char) : Shape :=
  if src.contains '+' then .outside else
  let r := src.reverse
  let bitsR := r.takeWhile isDec
  match r.dropWhile isDec with
  | [] => .ordinary
  | t :: bodyR =>
    if bitsR ≠ [] ∧ (t = 'U' ∨ t = 'B') then classifyOurs t bodyR.reverse bitsR.reverse
    else .ordinary

/-- big-endian positional value. -/
def horner (b : Nat) (ds : List Nat) : Nat := ds.foldl (fun a d => a * b + d) 0

end Ruint.Spec.Macro
