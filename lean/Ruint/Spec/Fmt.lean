import Ruint.Model.Fmt
/-!
# Specification side of the formatter (C09): the text a primitive integer prints.

Digits are core's `Nat.toDigits`; sign / prefix / padding is `Fmt.padIntegral` (the model of std's
`Formatter::pad_integral`, trusted base, validated against `u128` in the harness).
-/
namespace Ruint.Spec.Fmt
open Ruint.Fmt

/-- numeric base, prefix and letter case of each formatting trait, as documented by `core::fmt`. -/
def traitBase : Trait → Nat × String × Bool
  | .display | .debug => (10, "", false)
  | .binary => (2, "0b", false)
  | .octal => (8, "0o", false)
  | .lowerHex => (16, "0x", false)
  | .upperHex => (16, "0x", true)

/-- the digit text: positional notation of `v` in the trait's base (`"0"` for zero), upper-cased for `{:X}`. -/
def digitText (t : Trait) (v : Nat) : List Char :=
  let (b, _, up) := traitBase t
  let ds := Nat.toDigits b v
  if up then ds.map Char.toUpper else ds

/-- what `format!("{:spec}", v)` prints for a primitive unsigned integer `v`. -/
def specFmt (t : Trait) (s : Spec) (v : Nat) : List Char :=
  padIntegral s (traitBase t).2.1.toList (digitText t v)

end Ruint.Spec.Fmt
