def hello := "world"
