import Ruint.Lemmas.FloatTryC

/-! `floorHalf` (the specification `⌊f + 1/2⌋`) against the comparison conditions of the code. -/
namespace Ruint.Float

theorem floorHalf_zero (e : ℤ) : floorHalf 0 e = 0 := by
  unfold floorHalf
  split
  · simp
  · have hp : 0 < 2 ^ (-e).toNat := by positivity
    simp only [Nat.mul_zero, Nat.zero_add]
    apply Nat.div_eq_of_lt
    rw [pow_succ]; omega

theorem floorHalf_nonneg_exp (m : ℕ) (e : ℤ) (he : 0 ≤ e) : floorHalf m e = m * 2 ^ e.toNat := by
  unfold floorHalf; rw [if_pos he]

/-- `⌊m/2^s + 1/2⌋` written with the half added at scale `2^s`. -/
theorem floorHalf_neg_exp (m s : ℕ) (hs : 1 ≤ s) : floorHalf m (-(s : ℤ)) = (m + 2 ^ (s - 1)) / 2 ^ s := by
  unfold floorHalf
  rw [if_neg (by omega)]
  have h1 : (- -(s : ℤ)).toNat = s := by omega
  rw [h1]
  have h2s : 2 ^ s = 2 * 2 ^ (s - 1) := by rw [← pow_succ']; congr 1; omega
  have : 2 * m + 2 ^ s = 2 * (m + 2 ^ (s - 1)) := by rw [h2s]; ring
  rw [this, pow_succ, Nat.mul_comm (2 ^ s) 2, Nat.mul_div_mul_left _ _ (by norm_num)]

/-- a value at or above `2^K` rounds to at least `2^K`. -/
theorem floorHalf_ge (m K : ℕ) (e : ℤ) (h : 2 ^ ((K : ℤ) - e).toNat ≤ m * 2 ^ (e - (K : ℤ)).toNat) :
    2 ^ K ≤ floorHalf m e := by
  rcases le_or_gt 0 e with he | he
  · rw [floorHalf_nonneg_exp m e he]
    rcases le_or_gt (K : ℤ) e with hk | hk
    · have h1 : ((K : ℤ) - e).toNat = 0 := by omega
      rw [h1, pow_zero] at h
      have hm : 1 ≤ m := by
        rcases Nat.eq_zero_or_pos m with h0 | h0
        · subst h0; simp at h
        · exact h0
      calc 2 ^ K ≤ 2 ^ e.toNat := Nat.pow_le_pow_right (by norm_num) (by omega)
        _ ≤ m * 2 ^ e.toNat := Nat.le_mul_of_pos_left _ hm
    · have h1 : (e - (K : ℤ)).toNat = 0 := by omega
      rw [h1, pow_zero, Nat.mul_one] at h
      have h2 : K = ((K : ℤ) - e).toNat + e.toNat := by omega
      calc 2 ^ K = 2 ^ ((K : ℤ) - e).toNat * 2 ^ e.toNat := by rw [← pow_add, ← h2]
        _ ≤ m * 2 ^ e.toNat := Nat.mul_le_mul_right _ h
  · obtain ⟨s, hs⟩ : ∃ s : ℕ, e = -(s : ℤ) := ⟨(-e).toNat, by omega⟩
    subst hs
    have hs1 : 1 ≤ s := by omega
    rw [floorHalf_neg_exp m s hs1]
    have h1 : ((K : ℤ) - -(s : ℤ)).toNat = K + s := by omega
    have h2 : (-(s : ℤ) - (K : ℤ)).toNat = 0 := by omega
    rw [h1, h2, pow_zero, Nat.mul_one, pow_add] at h
    rw [Nat.le_div_iff_mul_le (by positivity)]
    exact le_trans h (Nat.le_add_right _ _)

/-- a value below one half rounds to zero. -/
theorem floorHalf_small (m : ℕ) (e : ℤ) (h : m * 2 ^ (e - (-1)).toNat < 2 ^ ((-1 : ℤ) - e).toNat) :
    floorHalf m e = 0 := by
  rcases le_or_gt (-1) e with he | he
  · have h1 : ((-1 : ℤ) - e).toNat = 0 := by omega
    rw [h1, pow_zero] at h
    have hp : 0 < 2 ^ (e - -1).toNat := by positivity
    have : m = 0 := by
      rcases Nat.eq_zero_or_pos m with h0 | h0
      · exact h0
      · have : 1 ≤ m * 2 ^ (e - -1).toNat := Nat.mul_pos h0 hp
        omega
    rw [this, floorHalf_zero]
  · obtain ⟨s, hs⟩ : ∃ s : ℕ, e = -(s : ℤ) := ⟨(-e).toNat, by omega⟩
    subst hs
    have hs2 : 2 ≤ s := by omega
    rw [floorHalf_neg_exp m s (by omega)]
    have h1 : (-(s : ℤ) - -1).toNat = 0 := by omega
    have h2 : ((-1 : ℤ) - -(s : ℤ)).toNat = s - 1 := by omega
    rw [h1, h2, pow_zero, Nat.mul_one] at h
    apply Nat.div_eq_of_lt
    have h2s : 2 ^ s = 2 * 2 ^ (s - 1) := by rw [← pow_succ']; congr 1; omega
    omega

end Ruint.Float
