import Ruint.Lemmas.GenShift
import Ruint.Lemmas.GenBits
import Ruint.Lemmas.GenUintWrap

/-! The shift / rotate wrappers of `src/bits.rs` as GENERATED from the source equal the C05 models. -/
namespace Ruint.GenShiftWrap
open Ruint Ruint.Shift Ruint.Bits Ruint.GenShift

theorem max_eq (bits : ℕ) (hN : nlimbs bits < 2 ^ 64) :
    Ruint.Gen.uint_masked bits (nlimbs bits) (List.replicate (nlimbs bits) (2 ^ 64 - 1)) = maxU bits :=
  Ruint.GenUintWrap.max_eq bits hN

theorem wrapping_shl_eq (bits : ℕ) (hN : nlimbs bits < 2 ^ 64) (a : List ℕ) (ha : Canon bits a) (s : ℕ) :
    Ruint.Gen.uint_wrapping_shl (nlimbs bits + 1) bits (nlimbs bits) a s = wrappingShl bits a s := by
  unfold Ruint.Gen.uint_wrapping_shl wrappingShl
  rw [overflowing_shl_eq bits hN a ha.1 ha.2.1 s _ (by omega)]

theorem wrapping_shr_eq (bits : ℕ) (hN : nlimbs bits < 2 ^ 64) (a : List ℕ) (ha : Canon bits a) (s : ℕ) :
    Ruint.Gen.uint_wrapping_shr (nlimbs bits + 1) bits (nlimbs bits) a s = wrappingShr bits a s := by
  unfold Ruint.Gen.uint_wrapping_shr wrappingShr
  rw [overflowing_shr_eq bits hN a ha.1 s _ (by omega)]

theorem checked_shl_eq (bits : ℕ) (hN : nlimbs bits < 2 ^ 64) (a : List ℕ) (ha : Canon bits a) (s : ℕ) :
    Ruint.Gen.uint_checked_shl (nlimbs bits + 1) bits (nlimbs bits) a s = checkedShl bits a s := by
  unfold Ruint.Gen.uint_checked_shl checkedShl
  rw [overflowing_shl_eq bits hN a ha.1 ha.2.1 s _ (by omega)]
  rcases overflowingShl bits a s with ⟨v, f⟩
  cases f <;> rfl

theorem checked_shr_eq (bits : ℕ) (hN : nlimbs bits < 2 ^ 64) (a : List ℕ) (ha : Canon bits a) (s : ℕ) :
    Ruint.Gen.uint_checked_shr (nlimbs bits + 1) bits (nlimbs bits) a s = checkedShr bits a s := by
  unfold Ruint.Gen.uint_checked_shr checkedShr
  rw [overflowing_shr_eq bits hN a ha.1 s _ (by omega)]
  rcases overflowingShr bits a s with ⟨v, f⟩
  cases f <;> rfl

theorem saturating_shl_eq (bits : ℕ) (hN : nlimbs bits < 2 ^ 64) (a : List ℕ) (ha : Canon bits a) (s : ℕ) :
    Ruint.Gen.uint_saturating_shl (nlimbs bits + 1) bits (nlimbs bits) a s = saturatingShl bits a s := by
  unfold Ruint.Gen.uint_saturating_shl saturatingShl
  rw [overflowing_shl_eq bits hN a ha.1 ha.2.1 s _ (by omega), max_eq bits hN]
  rcases overflowingShl bits a s with ⟨v, f⟩
  cases f <;> rfl

theorem arithmetic_shr_eq (bits : ℕ) (hN : nlimbs bits < 2 ^ 64) (hb64 : bits < 2 ^ 64) (a : List ℕ) (ha : Canon bits a)
    (s : ℕ) :
    Ruint.Gen.uint_arithmetic_shr (nlimbs bits + 1) bits (nlimbs bits) a s = arithmeticShr bits a s := by
  unfold Ruint.Gen.uint_arithmetic_shr arithmeticShr
  by_cases h0 : bits = 0
  · simp [h0, zero]
  · have hne : (bits == 0) = false := by simp [h0]
    have hb : 0 < bits := Nat.pos_of_ne_zero h0
    have h1 : Rs.wsub 64 bits 1 = bits - 1 := by unfold Rs.wsub; omega
    simp only [hne, Bool.false_eq_true, if_false, h0, h1, Ruint.GenBits.bit_eq, wrapping_shr_eq bits hN a ha s,
      max_eq bits hN, wrapping_shl_eq bits hN _ (maxU_canon bits).1, bitOr]

theorem rotate_left_eq (bits : ℕ) (hN : nlimbs bits < 2 ^ 64) (hb64 : bits < 2 ^ 64) (a : List ℕ) (ha : Canon bits a)
    (s : ℕ) :
    Ruint.Gen.uint_rotate_left (nlimbs bits + 1) bits (nlimbs bits) a s = rotateLeft bits a s := by
  unfold Ruint.Gen.uint_rotate_left rotateLeft
  by_cases h0 : bits = 0
  · simp [h0, zero]
  · have hne : (bits == 0) = false := by simp [h0]
    have hb : 0 < bits := Nat.pos_of_ne_zero h0
    have hlt : s % bits < bits := Nat.mod_lt _ hb
    have h1 : Rs.wsub 64 bits (s % bits) = bits - s % bits := by unfold Rs.wsub; omega
    simp only [hne, Bool.false_eq_true, if_false, h0, h1, wrapping_shr_eq bits hN a ha, wrapping_shl_eq bits hN a ha,
      bitOr]

theorem rotate_right_eq (bits : ℕ) (hN : nlimbs bits < 2 ^ 64) (hb64 : bits < 2 ^ 64) (a : List ℕ) (ha : Canon bits a)
    (s : ℕ) :
    Ruint.Gen.uint_rotate_right (nlimbs bits + 1) bits (nlimbs bits) a s = rotateRight bits a s := by
  unfold Ruint.Gen.uint_rotate_right rotateRight
  by_cases h0 : bits = 0
  · simp [h0, zero]
  · have hne : (bits == 0) = false := by simp [h0]
    have hb : 0 < bits := Nat.pos_of_ne_zero h0
    have hlt : s % bits < bits := Nat.mod_lt _ hb
    have h1 : Rs.wsub 64 bits (s % bits) = bits - s % bits := by unfold Rs.wsub; omega
    simp only [hne, Bool.false_eq_true, if_false, h0, h1, rotate_left_eq bits hN hb64 a ha]

end Ruint.GenShiftWrap
