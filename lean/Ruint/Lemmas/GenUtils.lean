import Ruint.Gen.WordsUtils
/-!
(G) `utils::last_idx` / `trim_end_slice` / `trim_end_vec` as GENERATED from `src/utils.rs` (element type read as a word):
the result is the input with exactly its trailing run of `value` removed. `idx` is `last_idx` without the `usize` wrap of
`i + 1`, which no slice (length < 2^64) can reach.
-/
set_option autoImplicit false
namespace Ruint.TrimEnd

/-- `last_idx` without the (unreachable) `usize` wrap -/
def idx (v : Nat) (l : List Nat) : Nat :=
  match Rs.rposition (fun x => x != v) l with | some i => i + 1 | none => 0

theorem idx_cons (v x : Nat) (xs : List Nat) :
    idx v (x :: xs) = if idx v xs = 0 then (if x != v then 1 else 0) else idx v xs + 1 := by
  unfold idx
  simp only [Rs.rposition]
  cases h : Rs.rposition (fun x => x != v) xs with
  | some i => simp
  | none => by_cases hx : (x != v) = true <;> simp [hx]

theorem idx_le (v : Nat) (l : List Nat) : idx v l ≤ l.length := by
  induction l with
  | nil => simp [idx, Rs.rposition]
  | cons x xs ih =>
    rw [idx_cons]; simp only [List.length_cons]
    split
    · split <;> omega
    · omega

/-- the kept prefix followed by copies of `v` is the input -/
theorem take_append (v : Nat) (l : List Nat) :
    l = l.take (idx v l) ++ List.replicate (l.length - idx v l) v := by
  induction l with
  | nil => simp [idx, Rs.rposition]
  | cons x xs ih =>
    rw [idx_cons]
    by_cases h0 : idx v xs = 0
    · rw [if_pos h0]
      rw [h0] at ih
      simp only [List.take_zero, List.nil_append, Nat.sub_zero] at ih
      by_cases hx : (x != v) = true
      · rw [if_pos hx]; simp only [List.take_succ_cons, List.take_zero, List.length_cons, Nat.add_sub_cancel]
        rw [← ih]; rfl
      · rw [if_neg hx]
        have : x = v := by simpa using hx
        subst this
        simp only [List.take_zero, List.nil_append, List.length_cons, Nat.sub_zero, List.replicate_succ]
        rw [← ih]
    · rw [if_neg h0]
      simp only [List.take_succ_cons, List.length_cons, Nat.add_sub_add_right, List.cons_append]
      rw [← ih]

/-- the kept prefix does not end in `v` -/
theorem take_last (v : Nat) (l : List Nat) : (l.take (idx v l)).getLast? ≠ some v := by
  induction l with
  | nil => simp [idx, Rs.rposition]
  | cons x xs ih =>
    rw [idx_cons]
    by_cases h0 : idx v xs = 0
    · rw [if_pos h0]
      by_cases hx : (x != v) = true
      · rw [if_pos hx]
        have : x ≠ v := by simpa using hx
        simpa using this
      · rw [if_neg hx]; simp
    · rw [if_neg h0]
      simp only [List.take_succ_cons]
      have hne : xs.take (idx v xs) ≠ [] := by
        intro h
        have := congrArg List.length h
        simp only [List.length_take, List.length_nil] at this
        have := idx_le v xs
        omega
      rw [List.getLast?_cons_of_ne_nil hne] 
      exact ih

theorem rposition_lt (p : Nat → Bool) (l : List Nat) (i : Nat) (h : Rs.rposition p l = some i) : i < l.length := by
  induction l generalizing i with
  | nil => simp [Rs.rposition] at h
  | cons x xs ih =>
    simp only [Rs.rposition] at h
    cases hr : Rs.rposition p xs with
    | some j =>
      rw [hr] at h; simp only [Option.some.injEq] at h
      have := ih j hr; simp only [List.length_cons]; omega
    | none =>
      rw [hr] at h
      by_cases hx : p x = true
      · simp only [hx, if_true, Option.some.injEq] at h; simp only [List.length_cons]; omega
      · simp [hx] at h

/-- the generated `last_idx` is `idx` for every list a slice can hold -/
theorem gen_last_idx_eq (l : List Nat) (v : Nat) (h : l.length < 2 ^ 64) : Ruint.Gen.utils_last_idx l v = idx v l := by
  unfold Ruint.Gen.utils_last_idx idx
  cases hr : Rs.rposition (fun b => b != v) l with
  | none => rfl
  | some i =>
    have := rposition_lt _ l i hr
    simp only [Rs.wadd]
    exact Nat.mod_eq_of_lt (by omega)

end Ruint.TrimEnd
