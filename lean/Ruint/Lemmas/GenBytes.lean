import Ruint.Gen.WordsBytes
import Ruint.Lemmas.Bytes
import Ruint.Lemmas.GenCore
import Ruint.Lemmas.RsTactic

/-! `Uint::try_from_le_slice` / `try_from_be_slice` as GENERATED from `src/bytes.rs`
(`Ruint/Gen/WordsBytes.lean`) equal the hand-written models `Ruint.Bytes.tryFromLeSlice` /
`tryFromBeSlice` (C08). -/
namespace Ruint.GenBytes
open Ruint Ruint.Canon Ruint.Bytes

/-- outcome of the generated decoders as the model's `Res`:
    outer `none` = panic (the `assert!` of `from_limbs`), inner `none` = the decoder's `None`. -/
def toRes : Option (Option (List ℕ)) → Ruint.Canon.Res
  | some (some l) => .ok l
  | some none => .none
  | none => .panic

theorem loop_zero {σ : Type} (step : σ → σ × Bool) (s : σ) : Rs.loop step 0 s = s := rfl
theorem loop_succ {σ : Type} (step : σ → σ × Bool) (f : ℕ) (s : σ) :
    Rs.loop step (f + 1) s = if (step s).2 then Rs.loop step f (step s).1 else (step s).1 := rfl

/-! ## constants -/

theorem nbytes_eq (bits : ℕ) (h : bits + 7 < 2 ^ 64) : Ruint.Gen.nbytes bits = nbytes bits := by
  unfold Ruint.Gen.nbytes nbytes Rs.wadd
  rw [Nat.mod_eq_of_lt h]

theorem wadd_one (i : ℕ) (h : i + 1 < 2 ^ 64) : Rs.wadd 64 i 1 = i + 1 := by
  unfold Rs.wadd; omega

theorem wmul_eight (i : ℕ) (h : i < 2 ^ 60) : Rs.wmul 64 i 8 = 8 * i := by
  unfold Rs.wmul; omega

/-! ## the common tail: range check of the top limb, then `from_limbs` -/

theorem getD_top (l : List ℕ) : l.getD (l.length - 1) 0 = top l := by
  simp [top, List.getD_eq_getElem?_getD, List.getLast?_eq_getElem?]

theorem tail_eq (bits : ℕ) (hN : nlimbs bits < 2 ^ 60) (l : List ℕ) (hl : l.length = nlimbs bits) :
    toRes (if (decide (nlimbs bits > 0)
          && decide (l.getD (Rs.wsub 64 (nlimbs bits) 1) 0 > Ruint.Gen.mask bits)) then some none
        else match Ruint.Gen.uint_from_limbs bits (nlimbs bits) l with
          | none => none
          | some pv => some (some pv))
      = checkTop bits l := by
  have hg : l.getD (Rs.wsub 64 (nlimbs bits) 1) 0 = top l := by
    by_cases h0 : nlimbs bits = 0
    · have : l = [] := List.length_eq_zero_iff.mp (by omega)
      subst this; simp [top]
    · have : Rs.wsub 64 (nlimbs bits) 1 = l.length - 1 := by unfold Rs.wsub; omega
      rw [this]; exact getD_top l
  unfold checkTop Ruint.Gen.uint_from_limbs fromLimbs shouldMask
  rw [hg, GenCore.mask_eq]
  have hW : W - 1 = 2 ^ 64 - 1 := rfl
  obtain ⟨M, hM⟩ : ∃ M, M = 2 ^ 64 - 1 := ⟨_, rfl⟩
  rw [hW, ← hM]
  by_cases c1 : (decide (nlimbs bits > 0) && decide (top l > mask bits)) = true
  · rw [if_pos c1, if_pos c1]; rfl
  · rw [if_neg c1, if_neg c1]
    by_cases hb : bits > 0
    · by_cases hm : mask bits = M
      · simp [hm, toRes]
      · by_cases ht : top l ≤ mask bits
        · simp [hb, hm, ht, Nat.not_lt.mpr ht, toRes]
        · simp [hb, hm, ht, Nat.not_le.mp ht, toRes]
    · simp [hb, toRes]

/-! ## the word reads of the fast paths -/

theorem exists_eight (d : List ℕ) (h : 8 ≤ d.length) :
    ∃ a0 a1 a2 a3 a4 a5 a6 a7 r, d = a0 :: a1 :: a2 :: a3 :: a4 :: a5 :: a6 :: a7 :: r := by
  rcases d with _ | ⟨a0, d⟩; · simp at h
  rcases d with _ | ⟨a1, d⟩; · simp at h
  rcases d with _ | ⟨a2, d⟩; · simp at h
  rcases d with _ | ⟨a3, d⟩; · simp at h
  rcases d with _ | ⟨a4, d⟩; · simp at h
  rcases d with _ | ⟨a5, d⟩; · simp at h
  rcases d with _ | ⟨a6, d⟩; · simp at h
  rcases d with _ | ⟨a7, d⟩; · simp at h
  exact ⟨a0, a1, a2, a3, a4, a5, a6, a7, d, rfl⟩

theorem range8 : List.range 8 = [0, 1, 2, 3, 4, 5, 6, 7] := by decide

theorem getD_add_drop (bs : List ℕ) (off i : ℕ) : bs.getD (off + i) 0 = (bs.drop off).getD i 0 := by
  simp [List.getD_eq_getElem?_getD, List.getElem?_drop]

theorem leWord_eq (bs : List ℕ) (off : ℕ) (h : off + 8 ≤ bs.length) :
    Rs.leWord bs off = wordOfLE ((bs.drop off).take 8) := by
  unfold Rs.leWord
  simp only [getD_add_drop]
  obtain ⟨d, hd⟩ : ∃ d, d = bs.drop off := ⟨_, rfl⟩
  have hdl : 8 ≤ d.length := by rw [hd, List.length_drop]; omega
  rw [← hd]
  obtain ⟨a0, a1, a2, a3, a4, a5, a6, a7, r, rfl⟩ := exists_eight d hdl
  simp [range8, wordOfLE]

theorem beWord_eq (bs : List ℕ) (off : ℕ) (h : off + 8 ≤ bs.length) :
    Rs.beWord bs off = wordOfBE ((bs.drop off).take 8) := by
  unfold Rs.beWord
  simp only [getD_add_drop]
  obtain ⟨d, hd⟩ : ∃ d, d = bs.drop off := ⟨_, rfl⟩
  have hdl : 8 ≤ d.length := by rw [hd, List.length_drop]; omega
  rw [← hd]
  obtain ⟨a0, a1, a2, a3, a4, a5, a6, a7, r, rfl⟩ := exists_eight d hdl
  simp [range8, wordOfBE]

/-! ## fast paths: the limbs after the loop are `chunksLE` / `chunksBE` -/

theorem chunksLE_length (n : ℕ) (bs : List ℕ) : (chunksLE n bs).length = n := by
  induction n generalizing bs with
  | zero => rfl
  | succ n ih => simp [chunksLE, ih]

theorem chunksBE_length (n : ℕ) (bs : List ℕ) : (chunksBE n bs).length = n := by
  induction n generalizing bs with
  | zero => rfl
  | succ n ih => simp [chunksBE, ih]

theorem chunksLE_succ (i : ℕ) (bs : List ℕ) :
    chunksLE (i + 1) bs = chunksLE i bs ++ [wordOfLE ((bs.drop (8 * i)).take 8)] := by
  induction i generalizing bs with
  | zero => simp [chunksLE]
  | succ i ih =>
    have e : chunksLE (i + 1 + 1) bs = wordOfLE (bs.take 8) :: chunksLE (i + 1) (bs.drop 8) := rfl
    rw [e, ih (bs.drop 8), List.drop_drop]
    have e2 : 8 + 8 * i = 8 * (i + 1) := by ring
    rw [e2]; rfl

theorem chunksBE_succ (i : ℕ) (bs : List ℕ) (h : 8 * (i + 1) ≤ bs.length) :
    chunksBE (i + 1) bs
      = chunksBE i bs ++ [wordOfBE ((bs.drop (bs.length - 8 * (i + 1))).take 8)] := by
  induction i generalizing bs with
  | zero =>
    simp only [chunksBE, List.nil_append]
    rw [List.take_of_length_le (by simp; omega)]
  | succ i ih =>
    have e : ∀ k, chunksBE (k + 1) bs
        = wordOfBE (bs.drop (bs.length - 8)) :: chunksBE k (bs.take (bs.length - 8)) := fun _ => rfl
    have hl : (bs.take (bs.length - 8)).length = bs.length - 8 := by simp
    rw [e (i + 1), ih (bs.take (bs.length - 8)) (by rw [hl]; omega), e i, hl, List.drop_take,
      List.take_take]
    have e1 : bs.length - 8 - 8 * (i + 1) = bs.length - 8 * (i + 1 + 1) := by omega
    have e2 : min 8 (bs.length - 8 - (bs.length - 8 * (i + 1 + 1))) = 8 := by omega
    rw [e1, e2]; rfl

theorem set_snoc (p : List ℕ) (k i w : ℕ) (hp : p.length = i) (hk : i < k) :
    (p ++ List.replicate (k - i) 0).set i w = (p ++ [w]) ++ List.replicate (k - (i + 1)) 0 := by
  have e : k - i = (k - (i + 1)) + 1 := by omega
  rw [e, List.replicate_succ, List.set_append_right _ _ (by omega), hp, Nat.sub_self, List.set_cons_zero,
    List.append_assoc]
  rfl

theorem le_step1_eq (bits n : ℕ) (bytes limbs : List ℕ) (i : ℕ) :
    Ruint.Gen.uint_try_from_le_slice_step1 bits n bytes (limbs, i)
      = if i < n then ((limbs.set i (Rs.leWord bytes (Rs.wmul 64 i 8)), Rs.wadd 64 i 1), true)
        else ((limbs, i), false) := by
  unfold Ruint.Gen.uint_try_from_le_slice_step1
  simp only [decide_eq_true_eq]

theorem le_fast_loop (bits n : ℕ) (hn : n < 2 ^ 60) (bytes : List ℕ) (hlen : bytes.length = 8 * n)
    (f i : ℕ) (hi : i ≤ n) (hf : n - i < f) :
    Rs.loop (Ruint.Gen.uint_try_from_le_slice_step1 bits n bytes) f
        (chunksLE i bytes ++ List.replicate (n - i) 0, i) = (chunksLE n bytes, n) := by
  induction f generalizing i with
  | zero => omega
  | succ f ih =>
    rw [loop_succ, le_step1_eq]
    by_cases h : i < n
    · simp only [h, if_true]
      rw [wadd_one i (by omega), wmul_eight i (by omega), leWord_eq bytes (8 * i) (by omega),
        set_snoc _ n i _ (chunksLE_length i bytes) h, ← chunksLE_succ]
      exact ih (i + 1) (by omega) (by omega)
    · have e : i = n := by omega
      subst e
      simp

theorem be_step1_eq (bits n : ℕ) (bytes limbs : List ℕ) (i : ℕ) :
    Ruint.Gen.uint_try_from_be_slice_step1 bits n bytes (limbs, i)
      = if i < n then
          ((limbs.set i (Rs.beWord bytes (Rs.wsub 64 bytes.length (Rs.wmul 64 (Rs.wadd 64 i 1) 8))),
            Rs.wadd 64 i 1), true)
        else ((limbs, i), false) := by
  unfold Ruint.Gen.uint_try_from_be_slice_step1
  simp only [decide_eq_true_eq]

theorem be_fast_loop (bits n : ℕ) (hn : n < 2 ^ 60) (bytes : List ℕ) (hlen : bytes.length = 8 * n)
    (f i : ℕ) (hi : i ≤ n) (hf : n - i < f) :
    Rs.loop (Ruint.Gen.uint_try_from_be_slice_step1 bits n bytes) f
        (chunksBE i bytes ++ List.replicate (n - i) 0, i) = (chunksBE n bytes, n) := by
  induction f generalizing i with
  | zero => omega
  | succ f ih =>
    rw [loop_succ, be_step1_eq]
    by_cases h : i < n
    · simp only [h, if_true]
      have e : Rs.wsub 64 bytes.length (Rs.wmul 64 (i + 1) 8) = bytes.length - 8 * (i + 1) := by
        rw [wmul_eight (i + 1) (by omega)]; unfold Rs.wsub; omega
      rw [wadd_one i (by omega), e, beWord_eq bytes _ (by omega),
        set_snoc _ n i _ (chunksBE_length i bytes) h, ← chunksBE_succ i bytes (by omega)]
      exact ih (i + 1) (by omega) (by omega)
    · have e : i = n := by omega
      subst e
      simp

/-! ## slow paths: the accumulation loop builds the limbs of the positional value -/

theorem addAt_eq_set (l : List ℕ) (k d : ℕ) : addAt l k d = l.set k (l.getD k 0 + d) := by
  induction l generalizing k with
  | nil => simp [addAt]
  | cons x xs ih =>
    cases k with
    | zero => simp [addAt]
    | succ k => simp [addAt, ih]

theorem wshl_byte (b j : ℕ) (hb : b < 256) (hj : j < 8) :
    Rs.wshl 64 b (Rs.wmul 64 j 8) = b * 256 ^ j := by
  have e : Rs.wmul 64 j 8 = 8 * j := wmul_eight j (by omega)
  rw [e]
  unfold Rs.wshl
  rw [pow_mul]
  have h1 : (256 : ℕ) ^ j * 256 ≤ 256 ^ 8 := by
    rw [← pow_succ]; exact Nat.pow_le_pow_right (by norm_num) (by omega)
  have h2 : b * 256 ^ j < 256 ^ j * 256 := by
    rw [Nat.mul_comm]; exact Nat.mul_lt_mul_of_pos_left hb (by positivity)
  have h3 : (256 : ℕ) ^ 8 = 2 ^ 64 := by norm_num
  have h4 : (2 : ℕ) ^ 8 = 256 := by norm_num
  rw [h4]
  exact Nat.mod_eq_of_lt (by omega)

/-- one step of the generated accumulation loops on the limbs of `x < 256^i`. -/
theorem set_toLimbs (n x b i : ℕ) (hx : x < 256 ^ i) (hb : b < 256) (hi : i < 8 * n) :
    (toLimbs n x).set (i / 8)
        (Rs.wadd 64 ((toLimbs n x).getD (i / 8) 0) (Rs.wshl 64 b (Rs.wmul 64 (i % 8) 8)))
      = toLimbs n (x + b * 256 ^ i) := by
  have e := addAt_toLimbs n x b i hx hb hi
  rw [addAt_eq_set] at e
  rw [wshl_byte b (i % 8) hb (Nat.mod_lt _ (by norm_num))]
  have hk : i / 8 < (toLimbs n x).length := by rw [toLimbs_length]; omega
  have hmem : (toLimbs n x).getD (i / 8) 0 + b * 256 ^ (i % 8) ∈ toLimbs n (x + b * 256 ^ i) := by
    rw [← e]; exact List.mem_set hk _
  have hlt := toLimbs_allLt _ _ _ hmem
  unfold Rs.wadd
  rw [Nat.mod_eq_of_lt (by unfold W at hlt; exact hlt)]
  exact e

theorem byte_getD (bs : List ℕ) (h : AllByte bs) (i : ℕ) : bs.getD i 0 < 256 := by
  by_cases hi : i < bs.length
  · simp only [List.getD, List.getElem?_eq_getElem hi, Option.getD_some]
    exact h _ (List.getElem_mem hi)
  · simp [List.getD_eq_getElem?_getD, List.getElem?_eq_none (Nat.le_of_not_lt hi)]

theorem take_lt (bs : List ℕ) (h : AllByte bs) (i : ℕ) (hi : i ≤ bs.length) :
    wordOfLE (bs.take i) < 256 ^ i := by
  have := wordOfLE_lt _ (h.take i)
  have e : (bs.take i).length = i := by simp; omega
  rwa [e] at this

theorem le_step2_eq (bits n : ℕ) (bytes limbs : List ℕ) (i : ℕ) :
    Ruint.Gen.uint_try_from_le_slice_step2 bits n bytes (limbs, i)
      = if i < bytes.length then
          ((limbs.set (i / 8) (Rs.wadd 64 (limbs.getD (i / 8) 0)
              (Rs.wshl 64 (bytes.getD i 0) (Rs.wmul 64 (i % 8) 8))), Rs.wadd 64 i 1), true)
        else ((limbs, i), false) := by
  unfold Ruint.Gen.uint_try_from_le_slice_step2
  simp only [decide_eq_true_eq]

theorem le_slow_loop (bits n : ℕ) (hn : n < 2 ^ 60) (bytes : List ℕ) (hb : AllByte bytes)
    (hlen : bytes.length ≤ 8 * n) (f i : ℕ) (hi : i ≤ bytes.length) (hf : bytes.length - i < f) :
    Rs.loop (Ruint.Gen.uint_try_from_le_slice_step2 bits n bytes) f
        (toLimbs n (wordOfLE (bytes.take i)), i) = (toLimbs n (wordOfLE bytes), bytes.length) := by
  induction f generalizing i with
  | zero => omega
  | succ f ih =>
    rw [loop_succ, le_step2_eq]
    by_cases h : i < bytes.length
    · simp only [h, if_true]
      rw [wadd_one i (by omega),
        set_toLimbs n _ _ i (take_lt bytes hb i hi) (byte_getD bytes hb i) (by omega),
        ← wordOfLE_take_succ bytes i h]
      exact ih (i + 1) (by omega) (by omega)
    · have e : i = bytes.length := by omega
      subst e
      simp

theorem be_step2_eq (bits n : ℕ) (bytes limbs : List ℕ) (c i : ℕ) :
    Ruint.Gen.uint_try_from_be_slice_step2 bits n bytes (c, limbs, i)
      = if i < bytes.length then
          ((Rs.wsub 64 c 1, limbs.set (i / 8) (Rs.wadd 64 (limbs.getD (i / 8) 0)
              (Rs.wshl 64 (bytes.getD (Rs.wsub 64 c 1) 0) (Rs.wmul 64 (i % 8) 8))), Rs.wadd 64 i 1), true)
        else ((c, limbs, i), false) := by
  unfold Ruint.Gen.uint_try_from_be_slice_step2
  simp only [decide_eq_true_eq]

theorem be_slow_loop (bits n : ℕ) (hn : n < 2 ^ 60) (bytes : List ℕ) (hb : AllByte bytes)
    (hlen : bytes.length ≤ 8 * n) (f i : ℕ) (hi : i ≤ bytes.length) (hf : bytes.length - i < f) :
    (Rs.loop (Ruint.Gen.uint_try_from_be_slice_step2 bits n bytes) f
        (bytes.length - i, toLimbs n (wordOfLE (bytes.reverse.take i)), i)).2.1
      = toLimbs n (wordOfBE bytes) := by
  induction f generalizing i with
  | zero => omega
  | succ f ih =>
    rw [loop_succ, be_step2_eq]
    by_cases h : i < bytes.length
    · simp only [h, if_true]
      have ec : Rs.wsub 64 (bytes.length - i) 1 = bytes.length - (i + 1) := by
        unfold Rs.wsub; omega
      have eg : bytes.getD (bytes.length - (i + 1)) 0 = bytes.reverse.getD i 0 := by
        simp only [List.getD]
        have e3 : bytes.length - 1 - i = bytes.length - (i + 1) := by omega
        rw [List.getElem?_reverse (by omega), e3]
      have hr : i < bytes.reverse.length := by simpa using h
      rw [wadd_one i (by omega), ec, eg,
        set_toLimbs n _ _ i (take_lt _ hb.reverse i (by omega)) (byte_getD _ hb.reverse i) (by omega),
        ← wordOfLE_take_succ bytes.reverse i hr]
      exact ih (i + 1) (by omega) (by omega)
    · have e : i = bytes.length := by omega
      subst e
      have : bytes.reverse.take bytes.length = bytes.reverse := by
        rw [← List.length_reverse]; exact List.take_length
      simp [this, wordOfBE_eq]

/-! ## the decoders -/

theorem fast_len (bits : ℕ) (bytes : List ℕ)
    (h2 : nbytes bits % 8 = 0 ∧ bytes.length = nbytes bits) : bytes.length = 8 * nlimbs bits := by
  have h8 := h2.1
  rw [h2.2]; unfold nbytes nlimbs at *; omega

/-- **`Uint::try_from_le_slice` as generated from `src/bytes.rs`** (both code paths, the range check of the
    top limb, `from_limbs` with its `assert!`) equals the C08 model. -/
theorem try_from_le_slice_eq (bits : ℕ) (hN : nlimbs bits < 2 ^ 60) (hB : bits + 7 < 2 ^ 64)
    (bytes : List ℕ) (hb : ∀ x ∈ bytes, x < 256)
    (f : ℕ) (hf : nlimbs bits + bytes.length + 1 < f) :
    toRes (Ruint.Gen.uint_try_from_le_slice f bits (nlimbs bits) bytes)
      = Ruint.Bytes.tryFromLeSlice bits bytes := by
  have hle := nbytes_le bits
  unfold Ruint.Gen.uint_try_from_le_slice tryFromLeSlice
  rw [nbytes_eq bits hB]
  by_cases h1 : bytes.length > nbytes bits
  · simp only [h1, decide_true, if_true]; rfl
  · simp only [h1, decide_false, if_false, Bool.false_eq_true]
    by_cases h2 : nbytes bits % 8 = 0 ∧ bytes.length = nbytes bits
    · have hc : ((nbytes bits % 8 == 0) && (bytes.length == nbytes bits)) = true := by
        simp [h2.1, h2.2]
      rw [if_pos hc, if_pos h2]
      have hlen := fast_len bits bytes h2
      have hl := le_fast_loop bits (nlimbs bits) hN bytes hlen f 0 (by omega) (by omega)
      simp only [chunksLE, List.nil_append, Nat.sub_zero] at hl
      simp only [hl]
      exact tail_eq bits hN _ (chunksLE_length _ _)
    · have hc : ¬ ((nbytes bits % 8 == 0) && (bytes.length == nbytes bits)) = true := by
        simpa using fun h => (h2 ⟨h, ·⟩)
      rw [if_neg hc, if_neg h2, accLoop_le (nlimbs bits) bytes hb (by omega)]
      have hl := le_slow_loop bits (nlimbs bits) hN bytes hb (by omega) f 0 (by omega) (by omega)
      simp only [List.take_zero, wordOfLE, toLimbs_zero] at hl
      simp only [hl]
      exact tail_eq bits hN _ (toLimbs_length _ _)

/-- **`Uint::try_from_be_slice` as generated from `src/bytes.rs`** equals the C08 model. -/
theorem try_from_be_slice_eq (bits : ℕ) (hN : nlimbs bits < 2 ^ 60) (hB : bits + 7 < 2 ^ 64)
    (bytes : List ℕ) (hb : ∀ x ∈ bytes, x < 256)
    (f : ℕ) (hf : nlimbs bits + bytes.length + 1 < f) :
    toRes (Ruint.Gen.uint_try_from_be_slice f bits (nlimbs bits) bytes)
      = Ruint.Bytes.tryFromBeSlice bits bytes := by
  have hle := nbytes_le bits
  unfold Ruint.Gen.uint_try_from_be_slice tryFromBeSlice
  rw [nbytes_eq bits hB]
  by_cases h1 : bytes.length > nbytes bits
  · simp only [h1, decide_true, if_true]; rfl
  · simp only [h1, decide_false, if_false, Bool.false_eq_true]
    by_cases h2 : nbytes bits % 8 = 0 ∧ bytes.length = nbytes bits
    · have hc : ((nbytes bits % 8 == 0) && (bytes.length == nbytes bits)) = true := by
        simp [h2.1, h2.2]
      rw [if_pos hc, if_pos h2]
      have hlen := fast_len bits bytes h2
      have hl := be_fast_loop bits (nlimbs bits) hN bytes hlen f 0 (by omega) (by omega)
      simp only [chunksBE, List.nil_append, Nat.sub_zero] at hl
      simp only [hl]
      exact tail_eq bits hN _ (chunksBE_length _ _)
    · have hc : ¬ ((nbytes bits % 8 == 0) && (bytes.length == nbytes bits)) = true := by
        simpa using fun h => (h2 ⟨h, ·⟩)
      rw [if_neg hc, if_neg h2, accLoop_be (nlimbs bits) bytes hb (by omega)]
      have hl := be_slow_loop bits (nlimbs bits) hN bytes hb (by omega) f 0 (by omega) (by omega)
      simp only [List.take_zero, wordOfLE, toLimbs_zero, Nat.sub_zero] at hl
      simp only [hl]
      exact tail_eq bits hN _ (toLimbs_length _ _)

end Ruint.GenBytes
