import Ruint.Lemmas.Float

/-! `From<&Uint> for f64/f32`: closed forms for `rneMag` of natural numbers and for the conversion. -/
namespace Ruint.Float

/-- formats for which the top-64-bits conversion is meaningful: the mantissa fits 64 bits and 2^64 is finite. -/
def Fmt.Wide (f : Fmt) : Prop := f.Ok ∧ f.mb + 1 ≤ 64 ∧ 64 ≤ f.bias

theorem b64_wide : b64.Wide := ⟨b64_ok, by decide, by decide⟩
theorem b32_wide : b32.Wide := ⟨b32_ok, by decide, by decide⟩

theorem Fmt.qmin_eq (f : Fmt) : f.qmin = 1 - (f.bias : ℤ) - (f.mb : ℤ) := rfl

theorem Fmt.infBits_eq (f : Fmt) (h : f.Ok) : f.infBits = (2 * f.bias + 1) * 2 ^ f.mb := by
  unfold Fmt.infBits; rw [f.emaxB_eq h]

/-- the rounded mantissa of a number with `L = bitLen m` bits kept to `p = mb+1` bits. -/
def mant (f : Fmt) (m : ℕ) : ℕ :=
  if bitLen m ≤ f.mb + 1 then m * 2 ^ (f.mb + 1 - bitLen m) else rneShift m (bitLen m - (f.mb + 1))

theorem mant_bounds (f : Fmt) (m : ℕ) (hm : 0 < m) : 2 ^ f.mb ≤ mant f m ∧ mant f m ≤ 2 ^ (f.mb + 1) := by
  obtain ⟨b1, b2⟩ := bitLen_bounds hm
  have hL := bitLen_pos hm
  unfold mant
  split
  · next h =>
    constructor
    · have : f.mb = (bitLen m - 1) + (f.mb + 1 - bitLen m) := by omega
      calc 2 ^ f.mb = 2 ^ (bitLen m - 1) * 2 ^ (f.mb + 1 - bitLen m) := by rw [← pow_add, ← this]
        _ ≤ m * 2 ^ (f.mb + 1 - bitLen m) := Nat.mul_le_mul_right _ b1
    · have : f.mb + 1 = bitLen m + (f.mb + 1 - bitLen m) := by omega
      calc m * 2 ^ (f.mb + 1 - bitLen m) ≤ 2 ^ bitLen m * 2 ^ (f.mb + 1 - bitLen m) :=
            Nat.mul_le_mul_right _ (le_of_lt b2)
        _ = 2 ^ (f.mb + 1) := by rw [← pow_add, ← this]
  · next h =>
    constructor
    · apply rneShift_ge_pow
      have : f.mb + (bitLen m - (f.mb + 1)) = bitLen m - 1 := by omega
      rw [this]; exact b1
    · apply rneShift_le_pow
      have : f.mb + 1 + (bitLen m - (f.mb + 1)) = bitLen m := by omega
      rw [this]; exact b2

/-- `rneMag` of a natural number `m·2^E` in closed form (anywhere in or above the normal range). -/
theorem rneMag_nat (f : Fmt) (hf : f.Ok) (m E : ℕ) (hm : 0 < m) :
    rneMag f m (E : ℤ) =
      min f.infBits ((bitLen m + E + f.bias - 2) * 2 ^ f.mb + mant f m) := by
  have hL := bitLen_pos hm
  have hb1 := (f.two_bias hf).2
  have hq : f.qmin ≤ (E : ℤ) + (bitLen m : ℤ) - ((f.mb + 1 : ℕ) : ℤ) := by
    rw [f.qmin_eq]; push_cast; omega
  rw [rneMag_normal f m E hm hq]
  simp only
  have e1 : ((E : ℤ) + (bitLen m : ℤ) - ((f.mb + 1 : ℕ) : ℤ) - f.qmin).toNat = bitLen m + E + f.bias - 2 := by
    rw [f.qmin_eq]
    have : (E : ℤ) + (bitLen m : ℤ) - ((f.mb + 1 : ℕ) : ℤ) - (1 - (f.bias : ℤ) - (f.mb : ℤ))
        = ((bitLen m + E + f.bias - 2 : ℕ) : ℤ) := by push_cast; omega
    rw [this, Int.toNat_natCast]
  rw [e1]
  unfold mant
  rw [Nat.min_def]

end Ruint.Float
