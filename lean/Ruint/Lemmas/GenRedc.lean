import Ruint.Lemmas.Basic
import Ruint.Lemmas.RsTactic
import Ruint.Gen.WordsRedc

/-! Contracts of the Montgomery word helpers GENERATED from `src/algorithms/mul_redc.rs`. -/
namespace Ruint.GenRedc
open Ruint

theorem mul_word_bound (l r : ℕ) (hl : l < W) (hr : r < W) : l * r ≤ (W - 1) * (W - 1) :=
  Nat.mul_le_mul (by omega) (by omega)

/-- `carrying_mul_add`: `lhs·rhs + add + carry` as (low, high); cannot overflow. -/
theorem carrying_mul_add_spec (l r a c : ℕ) (hl : l < W) (hr : r < W) (ha : a < W) (hc : c < W) :
    (Ruint.Gen.carrying_mul_add l r a c).1 + W * (Ruint.Gen.carrying_mul_add l r a c).2 = l * r + a + c
    ∧ (Ruint.Gen.carrying_mul_add l r a c).1 < W ∧ (Ruint.Gen.carrying_mul_add l r a c).2 < W := by
  have hp := mul_word_bound l r hl hr
  unfold Ruint.Gen.carrying_mul_add
  rs_norm
  generalize l * r = p at *
  unfold W at *
  omega

/-- `carrying_double_mul_add`: `2·lhs·rhs + add + carry_lo + 2^64·carry_hi` as (low, mid, top bit). -/
theorem carrying_double_mul_add_spec (l r a clo : ℕ) (chi : Bool)
    (hl : l < W) (hr : r < W) (ha : a < W) (hc : clo < W) :
    (Ruint.Gen.carrying_double_mul_add l r a clo chi).1
      + W * (Ruint.Gen.carrying_double_mul_add l r a clo chi).2.1
      + W * W * (Ruint.Gen.carrying_double_mul_add l r a clo chi).2.2.toNat
      = 2 * (l * r) + a + clo + W * chi.toNat
    ∧ (Ruint.Gen.carrying_double_mul_add l r a clo chi).1 < W
    ∧ (Ruint.Gen.carrying_double_mul_add l r a clo chi).2.1 < W := by
  have hp := mul_word_bound l r hl hr
  have hk : chi.toNat ≤ 1 := Bool.toNat_le chi
  unfold Ruint.Gen.carrying_double_mul_add
  rs_norm
  generalize l * r = p at *
  generalize chi.toNat = k at *
  unfold W at *
  refine ⟨?_, by omega, by omega⟩
  by_cases h1 : 2 ^ 128 ≤ p % 2 ^ 128 + p % 2 ^ 128 <;>
  by_cases h2 : 2 ^ 128 ≤ (p % 2 ^ 128 + p % 2 ^ 128) % 2 ^ 128 + ((a + clo) % 2 ^ 128 + k * 2 ^ 64 % 2 ^ 128) % 2 ^ 128 <;>
  simp only [h1, h2, true_or, or_true, or_self, if_true, if_false, decide_true, decide_false,
    Bool.or_true, Bool.true_or, Bool.or_false, Bool.toNat_true, Bool.toNat_false] <;> omega

end Ruint.GenRedc
