import Ruint.Lemmas.LehmerPrefix
import Ruint.Lemmas.LehmerU64
import Mathlib.Tactic.Ring
import Mathlib.Tactic.Linarith
import Mathlib.Tactic.NormNum
import Mathlib.Tactic.Push

/-! # Refinement: the packed, twice-unrolled `from_u64_prefix` model equals the half-step model `Lh.prefixM`

`Ruint.Lehmer.fromU64Prefix` (the function the driver executes) keeps the cofactors packed as
`k = u·2^32 + v` in one word, wraps like `u64`, and runs the loop body twice per iteration.
Under the loop invariant `Lh.Inv` every cofactor is `< 2^32` (`Lh.inv_bounds`), so no word operation wraps,
the packed words unpack to the cofactors of the half-step loop, and `fromU64Prefix a0 a1 = some (prefixM 2^32 fuel a0 a1)`. -/
namespace Ruint.Lh
open Ruint Ruint.Lehmer

/-- the packed state represents the unpacked one (the parity flag is tracked separately). -/
structure Rel (p : PSt) (s : St) : Prop where
  a1 : p.a1 = s.a1
  a2 : p.a2 = s.a2
  a3 : p.a3 = s.a3
  k0 : p.k0 = s.u0 * LIMIT + s.v0
  k1 : p.k1 = s.u1 * LIMIT + s.v1
  k2 : p.k2 = s.u2 * LIMIT + s.v2
  k3 : p.k3 = s.u3 * LIMIT + s.v3

theorem W_eq_LL : W = LIMIT * LIMIT := by norm_num [W, LIMIT]

theorem div_facts (n k : ℕ) (hk : 0 < k) : n / k * k ≤ n ∧ n < n / k * k + k := by
  constructor
  · exact Nat.div_mul_le_self n k
  · have := Nat.lt_div_mul_add (a := n) hk; linarith

theorem LIMIT_pos : 0 < LIMIT := by norm_num [LIMIT]

/-- unpacking a SWAR word -/
theorem unpack (u v : ℕ) (hv : v < LIMIT) : (u * LIMIT + v) / LIMIT = u ∧ (u * LIMIT + v) % LIMIT = v := by
  constructor
  · rw [Nat.add_comm, Nat.add_mul_div_right _ _ LIMIT_pos, Nat.div_eq_of_lt hv, Nat.zero_add]
  · rw [Nat.add_comm, Nat.add_mul_mod_self_right, Nat.mod_eq_of_lt hv]

/-- a packed word with both halves below `LIMIT` is a `u64`. -/
theorem pack_lt (u v : ℕ) (hu : u < LIMIT) (hv : v < LIMIT) : u * LIMIT + v < W := by
  rw [W_eq_LL]
  have : u * LIMIT ≤ (LIMIT - 1) * LIMIT := Nat.mul_le_mul_right _ (by omega)
  have e : (LIMIT - 1) * LIMIT + LIMIT = LIMIT * LIMIT := by
    have := LIMIT_pos
    obtain ⟨k, hk⟩ : ∃ k, LIMIT = k + 1 := ⟨LIMIT - 1, by omega⟩
    rw [hk]; simp only [Nat.add_sub_cancel]; ring
  omega

/-- one half step of the packed loop is one half step of the unpacked loop. -/
theorem pHalf_rel (A0 A1 : ℕ) (p : PSt) (s : St) (ag : ℤ) (hr : Rel p s) (h : Inv A0 A1 LIMIT s ag)
    (hA : A0 < W) (hAle : A1 ≤ A0) (hc : LIMIT ≤ s.a3) :
    Rel (pHalf p) (halfStep s) ∧ (pHalf p).even = p.even := by
  have hL := LIMIT_pos
  have h' := inv_step A0 A1 LIMIT hL s ag h hc
  have hA' : A0 < LIMIT * LIMIT := by rw [← W_eq_LL]; exact hA
  obtain ⟨b1, b2, -, -, -, -, -, -, -⟩ := inv_bounds A0 A1 LIMIT _ _ h' hA' hAle
  obtain ⟨-, -, -, -, -, -, -, -, ba1⟩ := inv_bounds A0 A1 LIMIT _ _ h hA' hAle
  have o1 := h.o1
  have o2 := h.o2
  obtain ⟨ra1, ra2, ra3, rk0, rk1, rk2, rk3⟩ := hr
  obtain ⟨a1, a2, a3, u0, v0, u1, v1, u2, v2, u3, v3, even⟩ := s
  simp only at ra1 ra2 ra3 rk0 rk1 rk2 rk3 o1 o2 ba1 hc
  simp only [halfStep] at b1 b2
  have ha3 : 0 < a3 := by omega
  obtain ⟨q, hq⟩ : ∃ q, q = a2 / a3 := ⟨_, rfl⟩
  obtain ⟨dq1, dq2⟩ := div_facts a2 a3 ha3
  rw [← hq] at dq1 dq2 b1 b2
  have e1 : wmul q a3 = q * a3 := wmul_eq (by omega)
  have e2 : wsub a2 (q * a3) = a2 - q * a3 := wsub_eq dq1 (by omega)
  have e3 : (u2 * LIMIT + v2) + q * (u3 * LIMIT + v3) = (u2 + q * u3) * LIMIT + (v2 + q * v3) := by ring
  have hlt := pack_lt _ _ b1 b2
  have e4 : wmul q (u3 * LIMIT + v3) = q * (u3 * LIMIT + v3) := wmul_eq (by omega)
  have e5 : wadd (u2 * LIMIT + v2) (q * (u3 * LIMIT + v3)) = (u2 + q * u3) * LIMIT + (v2 + q * v3) := by
    rw [wadd_eq (by omega), e3]
  refine ⟨⟨?_, ?_, ?_, ?_, ?_, ?_, ?_⟩, rfl⟩
  · simp only [pHalf, halfStep, ra2]
  · simp only [pHalf, halfStep, ra3]
  · simp only [pHalf, halfStep, ra2, ra3, ← hq, e1, e2]
  · simp only [pHalf, halfStep, rk1]
  · simp only [pHalf, halfStep, rk2]
  · simp only [pHalf, halfStep, rk3]
  · simp only [pHalf, halfStep, ra2, ra3, rk2, rk3, ← hq, e4, e5]

/-- the packed loop with fuel `f` is the half-step loop with fuel `2 f`; the packed `even` flag is the parity. -/
theorem pLoop_rel (A0 A1 : ℕ) (hA : A0 < W) (hAle : A1 ≤ A0) (f : ℕ) (p : PSt) (s : St) (ag : ℤ)
    (hr : Rel p s) (he : p.even = true) (hse : s.even = true) (h : Inv A0 A1 LIMIT s ag) :
    Rel (pLoop f p) (loop LIMIT (2 * f) s) ∧ (pLoop f p).even = (loop LIMIT (2 * f) s).even := by
  have hL : 0 < LIMIT := by norm_num [LIMIT]
  induction f generalizing p s ag with
  | zero => exact ⟨hr, by simp only [pLoop, loop, he, hse]⟩
  | succ f ih =>
    have e2f : 2 * (f + 1) = (2 * f + 1) + 1 := by ring
    rw [e2f]
    simp only [pLoop, loop]
    by_cases hc : LIMIT ≤ s.a3
    · rw [if_pos (by rw [hr.a3]; exact hc), if_pos hc]
      obtain ⟨r1, ev1⟩ := pHalf_rel A0 A1 p s ag hr h hA hAle hc
      have h1 := inv_step A0 A1 LIMIT hL s ag h hc
      by_cases hlt : (halfStep s).a3 < LIMIT
      · rw [if_pos (by rw [r1.a3]; exact hlt), if_neg (by omega)]
        refine ⟨⟨r1.a1, r1.a2, r1.a3, r1.k0, r1.k1, r1.k2, r1.k3⟩, ?_⟩
        simp only [halfStep, hse, Bool.not_true]
      · have hge : LIMIT ≤ (halfStep s).a3 := by omega
        rw [if_neg (by rw [r1.a3]; exact hlt), if_pos hge]
        obtain ⟨r2, ev2⟩ := pHalf_rel A0 A1 (pHalf p) (halfStep s) _ r1 h1 hA hAle hge
        have h2 := inv_step A0 A1 LIMIT hL (halfStep s) _ h1 hge
        exact ih (pHalf (pHalf p)) (halfStep (halfStep s)) _ r2 (by rw [ev2, ev1, he])
          (by simp only [halfStep, hse, Bool.not_true, Bool.not_false]) h2
    · rw [if_neg (by rw [hr.a3]; exact hc), if_neg hc]
      exact ⟨hr, by rw [he, hse]⟩

/-- unpacking and Jebelean's tests on the packed state are `select` on the unpacked one. -/
theorem pSelect_eq (A0 A1 : ℕ) (p : PSt) (s : St) (ag : ℤ) (hr : Rel p s) (he : p.even = s.even)
    (h : Inv A0 A1 LIMIT s ag) (hA : A0 < W) (hAle : A1 ≤ A0) : pSelect p = select s := by
  have hA' : A0 < LIMIT * LIMIT := by rw [← W_eq_LL]; exact hA
  obtain ⟨b1, b2, b3, b4, b5, b6, b7, b8, ba1⟩ := inv_bounds A0 A1 LIMIT _ _ h hA' hAle
  have o1 := h.o1
  have o2 := h.o2
  obtain ⟨ra1, ra2, ra3, rk0, rk1, rk2, rk3⟩ := hr
  obtain ⟨a1, a2, a3, u0, v0, u1, v1, u2, v2, u3, v3, even⟩ := s
  simp only at ra1 ra2 ra3 rk0 rk1 rk2 rk3 o1 o2 ba1 he b1 b2 b3 b4 b5 b6 b7 b8
  have x0 := unpack u0 v0 (by omega)
  have x1 := unpack u1 v1 (by omega)
  have x2 := unpack u2 v2 (by omega)
  have x3 := unpack u3 v3 (by omega)
  have hLW : LIMIT + LIMIT ≤ W := by norm_num [W, LIMIT]
  have w1 : wadd u2 u1 = u2 + u1 := wadd_eq (by omega)
  have w2 : wadd v3 v2 = v3 + v2 := wadd_eq (by omega)
  have w3 : wadd v2 v1 = v2 + v1 := wadd_eq (by omega)
  have w4 : wadd u3 u2 = u3 + u2 := wadd_eq (by omega)
  have s1 : wsub a1 a2 = a1 - a2 := wsub_eq (by omega) (by omega)
  have s2 : wsub a2 a3 = a2 - a3 := wsub_eq (by omega) (by omega)
  simp only [pSelect, select, ra1, ra2, ra3, rk0, rk1, rk2, rk3, he, x0.1, x0.2, x1.1, x1.2, x2.1, x2.2, x3.1, x3.2,
    w1, w2, w3, w4, s1, s2]

/-- the half-step loop stops because `a3 < L`, not because the fuel ran out, as soon as `fuel > a3`. -/
theorem loop_exit (L : ℕ) (hL : 0 < L) (f : ℕ) (s : St) (h : s.a3 < s.a2) (hf : s.a3 < f) :
    (loop L f s).a3 < L := by
  induction f generalizing s with
  | zero => omega
  | succ f ih =>
    simp only [loop]
    split
    · next hc =>
      have ha3 : 0 < s.a3 := by omega
      obtain ⟨d1, d2⟩ := div_facts s.a2 s.a3 ha3
      apply ih
      · simp only [halfStep]; omega
      · simp only [halfStep]; omega
    · next hc => omega

/-- **refinement**: on its documented domain the packed model is total and equals the half-step model; when the loop
    is entered it is left through its own exit test `a3 < LIMIT` (the fuel of the model never runs out). -/
theorem fromU64Prefix_eq' (a0 a1 : ℕ) (h63 : 2 ^ 63 ≤ a0) (hW : a0 < W) (hle : a1 ≤ a0) :
    ∃ fuel, fromU64Prefix a0 a1 = some (prefixM LIMIT fuel a0 a1)
      ∧ (LIMIT ≤ a1 → LIMIT ≤ a0 - a0 / a1 * a1 → (loop LIMIT fuel (initSt a0 a1)).a3 < LIMIT) := by
  have hL := LIMIT_pos
  unfold fromU64Prefix prefixM
  rw [if_neg (by omega)]
  by_cases h1 : a1 < LIMIT
  · exact ⟨0, by simp only [h1, if_true], fun h => absurd h (by omega)⟩
  · simp only [h1, if_false]
    push Not at h1
    have ha1 : 0 < a1 := by omega
    obtain ⟨q, hq⟩ : ∃ q, q = a0 / a1 := ⟨_, rfl⟩
    obtain ⟨dq1, dq2⟩ := div_facts a0 a1 ha1
    rw [← hq] at dq1 dq2 ⊢
    have hqL : q < LIMIT := by
      by_contra hc; push Not at hc
      have : LIMIT * LIMIT ≤ q * a1 := Nat.mul_le_mul hc h1
      rw [← W_eq_LL] at this; omega
    have hLW : LIMIT + LIMIT ≤ W := by norm_num [W, LIMIT]
    have e1 : wmul q a1 = q * a1 := wmul_eq (by omega)
    have e2 : wsub a0 (q * a1) = a0 - q * a1 := wsub_eq dq1 hW
    have e3 : wadd (2 ^ 32) (wmul q 1) = 1 * LIMIT + q := by
      rw [wmul_eq (by omega), Nat.mul_one, wadd_eq (by unfold LIMIT at *; omega)]
      unfold LIMIT; omega
    have x2 := unpack 1 q hqL
    rw [e1, e2, e3]
    obtain ⟨a2, ha2⟩ : ∃ a2, a2 = a0 - q * a1 := ⟨_, rfl⟩
    rw [← ha2]
    by_cases h2 : a2 < LIMIT
    · have s1 : wsub a1 a2 = a1 - a2 := wsub_eq (by omega) (by omega)
      refine ⟨0, ?_, fun _ h => absurd h (by omega)⟩
      simp only [h2, if_true, x2.1, x2.2, s1]
      split <;> rfl
    · simp only [h2, if_false]
      push Not at h2
      have hinv := init_inv LIMIT a0 a1 hL hle h1 (by rw [← hq, ← ha2]; exact h2)
      have hA' : a0 < LIMIT * LIMIT := by rw [← W_eq_LL]; exact hW
      obtain ⟨b1, b2, -, -, -, -, -, -, -⟩ := inv_bounds a0 a1 LIMIT _ _ hinv hA' hle
      have ha2pos : 0 < a2 := by omega
      obtain ⟨q', hq'⟩ : ∃ q', q' = a1 / a2 := ⟨_, rfl⟩
      obtain ⟨dr1, dr2⟩ := div_facts a1 a2 ha2pos
      simp only [initSt, ← hq, ← ha2, ← hq'] at b1 b2 hinv ⊢
      rw [← hq'] at dr1 dr2
      have f1 : wmul q' a2 = q' * a2 := wmul_eq (by omega)
      have f2 : wsub a1 (q' * a2) = a1 - q' * a2 := wsub_eq dr1 (by omega)
      have f3 : 1 + q' * (1 * LIMIT + q) = q' * LIMIT + (1 + q' * q) := by ring
      have hlt := pack_lt _ _ b1 b2
      have f4 : wmul q' (1 * LIMIT + q) = q' * (1 * LIMIT + q) := wmul_eq (by omega)
      have f5 : wadd 1 (q' * (1 * LIMIT + q)) = q' * LIMIT + (1 + q' * q) := by
        rw [wadd_eq (by omega), f3]
      rw [f1, f2, f4, f5]
      obtain ⟨a3, ha3⟩ : ∃ a3, a3 = a1 - q' * a2 := ⟨_, rfl⟩
      rw [← ha3] at hinv ⊢
      refine ⟨2 * (a1 + 1), ?_, fun _ _ => ?_⟩
      rotate_left
      · exact loop_exit LIMIT hL _ _ hinv.o2 (by simp only; omega)
      have hrel : Rel (PSt.mk a1 a2 a3 (2 ^ 32) 1 (1 * LIMIT + q) (q' * LIMIT + (1 + q' * q)) true)
          (St.mk a1 a2 a3 1 0 0 1 1 q q' (1 + q' * q) true) :=
        ⟨rfl, rfl, rfl, by norm_num [LIMIT], by norm_num, rfl, rfl⟩
      obtain ⟨rl, evl⟩ := pLoop_rel a0 a1 hW hle (a1 + 1) _ _ _ hrel rfl rfl hinv
      obtain ⟨agf, hfin⟩ := inv_loop a0 a1 LIMIT hL (2 * (a1 + 1)) _ _ hinv
      rw [pSelect_eq a0 a1 _ _ agf rl evl hfin hW hle]

theorem fromU64Prefix_eq (a0 a1 : ℕ) (h63 : 2 ^ 63 ≤ a0) (hW : a0 < W) (hle : a1 ≤ a0) :
    ∃ fuel, fromU64Prefix a0 a1 = some (prefixM LIMIT fuel a0 a1) := by
  obtain ⟨fuel, h, _⟩ := fromU64Prefix_eq' a0 a1 h63 hW hle
  exact ⟨fuel, h⟩

end Ruint.Lh
