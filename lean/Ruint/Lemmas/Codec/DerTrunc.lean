import Ruint.Lemmas.Codec.Der
/-! DER: every proper prefix of a canonical encoding is rejected (truncated input is an error). -/
namespace Ruint.Codec.Der
open Ruint Ruint.Codec

theorem decLen_append (bs t : List ℕ) (n k : ℕ) (h : decLen bs = .ok (n, k)) : decLen (bs ++ t) = .ok (n, k) := by
  match bs with
  | [] => simp [decLen_nil] at h
  | l :: rest =>
    rw [decLen_cons] at h
    rw [List.cons_append, decLen_cons]
    split at h
    · next h1 => rw [if_pos h1]; exact h
    · next h1 =>
      rw [if_neg h1]
      split at h
      · simp at h
      · next h2 =>
        rw [if_neg h2]
        split at h
        · next h3 =>
          rw [if_pos h3]
          split at h
          · simp at h
          · next c1 =>
            have tk : (rest ++ t).take (l - 0x80) = rest.take (l - 0x80) := List.take_append_of_le_length (by omega)
            rw [if_neg (by simp only [List.length_append]; omega), tk]
            exact h
        · simp at h

theorem enc_isBytes (v : ℕ) : IsBytes (enc v) := by
  unfold enc
  apply IsBytes.cons (by norm_num)
  apply IsBytes.append
  · rw [derLen_eq]
    split
    · next h => exact IsBytes.cons (by omega) IsBytes.nil
    · exact IsBytes.cons (by have := minOctets_range (content v).length; omega) (toBE_isBytes _ _)
  · rw [content_eq]
    split
    · exact IsBytes.cons (by norm_num) IsBytes.nil
    · split
      · exact IsBytes.cons (by norm_num) (beTrim_isBytes v)
      · exact beTrim_isBytes v

/-- C17: truncated input is an error — every proper prefix of a canonical DER INTEGER is rejected. -/
theorem dec_truncated (bits v k : ℕ) (hL : (content v).length ≤ 0xfffffff) (hk : k < (enc v).length) :
    ∃ e, dec bits ((enc v).take k) = .error e := by
  match hd : dec bits ((enc v).take k) with
  | .error e => exact ⟨e, rfl⟩
  | .ok v' =>
    exfalso
    obtain ⟨_, h2, hL'⟩ := dec_canonical' bits _ ((enc_isBytes v).take k) v' hd
    -- `enc v'` is a prefix of `enc v`
    have hpre : enc v = enc v' ++ (enc v).drop k := by
      conv_lhs => rw [← List.take_append_drop k (enc v)]
      rw [h2]
    have hlen' : (enc v').length = min k (enc v).length := by rw [← h2, List.length_take]
    unfold enc at hpre hlen'
    simp only [List.cons_append, List.cons.injEq, true_and, List.length_cons] at hpre hlen'
    have d1 := decLen_derLen (content v).length (content v) hL
    have d2 := decLen_derLen (content v').length (content v' ++ (0x02 :: (derLen (content v).length ++ content v)).drop k) hL'
    rw [← List.append_assoc, ← hpre, d1] at d2
    simp only [Except.ok.injEq, Prod.mk.injEq] at d2
    simp only [List.length_append] at hlen'
    simp only [enc, List.length_cons, List.length_append] at hk
    omega

end Ruint.Codec.Der
