import Ruint.Model.Codec.Der
import Ruint.Lemmas.Codec.Bytes
/-! DER INTEGER: `value_len`, round trip, canonicity. -/
namespace Ruint.Codec.Der
open Ruint Ruint.Codec

/-- the content octets by cases. -/
theorem content_eq (v : ℕ) :
    content v = if v = 0 then [0] else if bitLen v % 8 = 0 then 0 :: beTrim v else beTrim v := by
  unfold content
  simp only
  by_cases h0 : v = 0
  · subst h0; simp [beTrim_zero]
  · rw [if_neg h0]
    obtain ⟨hc, h1, h2⟩ := beTrim_cons v h0
    have hiff := top_byte_high_iff v h0
    have hle : bitLen v ≤ 8 * byteLen v := by unfold byteLen; omega
    have hgt : 8 * byteLen v < bitLen v + 8 := by unfold byteLen; omega
    have hhd : (beTrim v).headD 0x80 = v / 256 ^ (byteLen v - 1) := by rw [hc]; rfl
    rw [hhd]
    by_cases hb : bitLen v % 8 = 0
    · rw [if_pos hb, if_pos (hiff.mpr (by omega))]
    · rw [if_neg hb, if_neg (fun h => hb (by have := hiff.mp h; omega))]

/-- C16: `value_len()` is the number of content octets written. -/
theorem valueLen_eq (v : ℕ) : valueLen v = (content v).length := by
  rw [content_eq]
  unfold valueLen
  by_cases h0 : v = 0
  · subst h0; simp [bitLen]
  · rw [if_neg h0]
    have h1 : bitLen v ≠ 0 := fun e => h0 ((bitLen_eq_zero_iff v).mp e)
    by_cases hb : bitLen v % 8 = 0
    · rw [if_pos hb]; simp only [List.length_cons, beTrim_length]; unfold byteLen; omega
    · rw [if_neg hb]; simp only [beTrim_length]; unfold byteLen; omega

/-- C16: what `to_der` writes (header from `value_len()`) is the canonical DER INTEGER. -/
theorem encImpl_eq (v : ℕ) : encImpl v = enc v := by
  unfold encImpl enc; rw [valueLen_eq]

theorem content_length_le (bits v : ℕ) (hv : v < 2 ^ bits) : (content v).length ≤ nbytes bits + 1 := by
  have := byteLen_le_nbytes bits v hv
  rw [content_eq]
  split
  · simp
  · split
    · simp only [List.length_cons, beTrim_length]; omega
    · simp only [beTrim_length]; omega

/-- `from_der_slice` on the content octets. -/
theorem fromDerSlice_content (bits v : ℕ) (hv : v < 2 ^ bits) : fromDerSlice bits (content v) = .ok v := by
  rw [content_eq]
  by_cases h0 : v = 0
  · subst h0
    simp [fromDerSlice, tryFromBE, beVal, leVal]
  · rw [if_neg h0]
    obtain ⟨hc, h1, h2⟩ := beTrim_cons v h0
    have hiff := top_byte_high_iff v h0
    have hle : bitLen v ≤ 8 * byteLen v := by unfold byteLen; omega
    have hgt : 8 * byteLen v < bitLen v + 8 := by unfold byteLen; omega
    by_cases hb : bitLen v % 8 = 0
    · rw [if_pos hb]
      have hhigh : 0x80 ≤ v / 256 ^ (byteLen v - 1) := hiff.mpr (by omega)
      unfold fromDerSlice
      simp only [if_true]
      rw [hc]
      simp only
      rw [if_neg (by omega), ← hc]
      simp only [tryFromBE_beTrim bits v hv]
    · rw [if_neg hb]
      have hlow : ¬ 0x80 ≤ v / 256 ^ (byteLen v - 1) := fun h => hb (by have := hiff.mp h; omega)
      rw [hc]
      unfold fromDerSlice
      simp only
      rw [if_neg (by omega), if_neg hlow, ← hc]
      simp only [tryFromBE_beTrim bits v hv]

/-! ## length octets -/

/-- minimal number of length octets after the initial one (0 = short form). -/
def minOctets (n : ℕ) : ℕ :=
  if n < 0x80 then 0 else if n < 0x100 then 1 else if n < 0x10000 then 2 else if n < 0x1000000 then 3 else 4

theorem decLen_nil : decLen [] = .error .incomplete := rfl

theorem decLen_cons (l : ℕ) (rest : List ℕ) : decLen (l :: rest) =
    if l < 0x80 then .ok (l, 1)
    else if l = 0x80 then .error .indefiniteLength
    else if l ≤ 0x84 then
      if rest.length < l - 0x80 then .error .incomplete
      else
        if 0xfffffff < beVal (rest.take (l - 0x80)) then .error .derOverflow
        else
          if minOctets (beVal (rest.take (l - 0x80))) = l - 0x80 then .ok (beVal (rest.take (l - 0x80)), 1 + (l - 0x80))
          else .error .length
    else .error .length := rfl

theorem derLen_eq (n : ℕ) :
    derLen n = if n < 0x80 then [n] else (0x80 + minOctets n) :: toBE (minOctets n) n := by
  unfold derLen minOctets
  by_cases h1 : n < 0x80
  · simp [h1]
  · rw [if_neg h1, if_neg h1, if_neg h1]
    by_cases h2 : n < 0x100
    · simp [h2, toBE_one n h2]
    · rw [if_neg h2, if_neg h2]
      by_cases h3 : n < 0x10000
      · simp [h3]
      · rw [if_neg h3, if_neg h3]
        by_cases h4 : n < 0x1000000
        · simp [h4]
        · simp [h4]

theorem minOctets_range (n : ℕ) : minOctets n ≤ 4 := by
  unfold minOctets; split <;> [omega; (split <;> [omega; (split <;> [omega; (split <;> omega)])])]

theorem lt_pow_minOctets (n : ℕ) (h80 : ¬ n < 0x80) (hn : n ≤ 0xfffffff) : n < 256 ^ minOctets n := by
  unfold minOctets
  rw [if_neg h80]
  split
  · norm_num; omega
  · split
    · norm_num; omega
    · split
      · norm_num; omega
      · norm_num; omega

/-- decoding the minimal length octets. -/
theorem decLen_derLen (n : ℕ) (rest : List ℕ) (hn : n ≤ 0xfffffff) :
    decLen (derLen n ++ rest) = .ok (n, (derLen n).length) := by
  rw [derLen_eq]
  by_cases h1 : n < 0x80
  · rw [if_pos h1, List.singleton_append, decLen_cons, if_pos h1]; rfl
  · rw [if_neg h1, List.cons_append, decLen_cons]
    have hm := minOctets_range n
    have hm1 : 1 ≤ minOctets n := by unfold minOctets; rw [if_neg h1]; split <;> [omega; (split <;> [omega; (split <;> omega)])]
    have e1 : ¬ (0x80 + minOctets n < 0x80) := by omega
    have e2 : ¬ (0x80 + minOctets n = 0x80) := by omega
    have e3 : 0x80 + minOctets n ≤ 0x84 := by omega
    have e4 : 0x80 + minOctets n - 0x80 = minOctets n := by omega
    rw [if_neg e1, if_neg e2, if_pos e3, e4]
    have t1 : (toBE (minOctets n) n ++ rest).take (minOctets n) = toBE (minOctets n) n := by
      rw [List.take_append_of_le_length (by simp), List.take_of_length_le (by simp)]
    have c1 : ¬ ((toBE (minOctets n) n ++ rest).length < minOctets n) := by simp
    rw [if_neg c1, t1, beVal_toBE_of_lt _ _ (lt_pow_minOctets n h1 hn), if_neg (by omega), if_pos rfl]
    simp only [List.length_cons, toBE_length]
    rw [Nat.add_comm 1]

/-- accepted length octets are the minimal ones. -/
theorem decLen_canonical (bs : List ℕ) (hbs : IsBytes bs) (n k : ℕ) (h : decLen bs = .ok (n, k)) :
    k ≤ bs.length ∧ bs.take k = derLen n ∧ n ≤ 0xfffffff := by
  match bs, hbs with
  | [], _ => simp [decLen_nil] at h
  | l :: rest, hbs =>
    rw [decLen_cons] at h
    split at h
    · next h1 =>
      simp only [Except.ok.injEq, Prod.mk.injEq] at h
      obtain ⟨e1, e2⟩ := h
      subst e1; subst e2
      refine ⟨by simp, ?_, by omega⟩
      rw [derLen_eq, if_pos h1]; simp
    · next h1 =>
      split at h
      · simp at h
      · next h2 =>
        split at h
        · next h3 =>
          split at h
          · simp at h
          · next c1 =>
            split at h
            · simp at h
            · next c2 =>
              split at h
              · next c3 =>
                simp only [Except.ok.injEq, Prod.mk.injEq] at h
                obtain ⟨e1, e2⟩ := h
                obtain ⟨j, hj⟩ : ∃ j, j = l - 0x80 := ⟨_, rfl⟩
                rw [← hj] at c1 c2 c3 e1 e2
                obtain ⟨lb, hlb⟩ : ∃ lb, lb = rest.take j := ⟨_, rfl⟩
                rw [← hlb] at c2 c3 e1
                have hlbl : lb.length = j := by rw [hlb, List.length_take]; omega
                have hlbB : IsBytes lb := by rw [hlb]; exact hbs.tail.take j
                subst e1
                refine ⟨by rw [← e2]; simp only [List.length_cons]; omega, ?_, by omega⟩
                have hn80 : ¬ beVal lb < 0x80 := by
                  intro hc
                  have : minOctets (beVal lb) = 0 := by unfold minOctets; rw [if_pos hc]
                  omega
                rw [derLen_eq, if_neg hn80, c3, ← e2, show 1 + j = j + 1 by omega, List.take_succ_cons,
                  ← hlb, ← hlbl, toBE_beVal lb hlbB]
                congr 1
                omega
              · simp at h
        · simp at h

/-! ## `from_der_slice` accepts only the minimal two's complement content -/

theorem fromDerSlice_canonical (bits : ℕ) (p : List ℕ) (hp : IsBytes p) (v : ℕ)
    (h : fromDerSlice bits p = .ok v) : v < 2 ^ bits ∧ p = content v := by
  match p, hp with
  | [], _ => simp [fromDerSlice] at h
  | b0 :: rest, hp =>
    unfold fromDerSlice at h
    simp only at h
    by_cases hb0 : b0 = 0
    · subst hb0
      simp only [if_true] at h
      match rest, hp with
      | [], _ =>
        simp only at h
        split at h
        · simp at h
        · next v' hv' =>
          simp only [Except.ok.injEq] at h
          subst h
          obtain ⟨t1, t2, t3⟩ := (tryFromBE_eq_some _ _ _).mp hv'
          have : v' = 0 := by rw [← t2]; rfl
          subst this
          refine ⟨t3, ?_⟩
          rw [content_eq]; simp
      | b1 :: rs, hp =>
        simp only at h
        by_cases hb1 : b1 < 0x80
        · rw [if_pos hb1] at h; simp at h
        · rw [if_neg hb1] at h
          simp only at h
          split at h
          · simp at h
          · next v' hv' =>
            simp only [Except.ok.injEq] at h
            subst h
            obtain ⟨t1, t2, t3⟩ := (tryFromBE_eq_some _ _ _).mp hv'
            refine ⟨t3, ?_⟩
            have hne : (b1 :: rs).headD 1 ≠ 0 := by simp; omega
            have hbt := beTrim_beVal (b1 :: rs) hp.tail hne
            rw [t2] at hbt
            unfold content
            simp only
            rw [hbt, if_pos (show 0x80 ≤ (b1 :: rs).headD 0x80 from by simpa using Nat.not_lt.mp hb1)]
    · rw [if_neg hb0] at h
      by_cases hb8 : 0x80 ≤ b0
      · rw [if_pos hb8] at h; simp at h
      · rw [if_neg hb8] at h
        simp only at h
        split at h
        · simp at h
        · next v' hv' =>
          simp only [Except.ok.injEq] at h
          subst h
          obtain ⟨t1, t2, t3⟩ := (tryFromBE_eq_some _ _ _).mp hv'
          refine ⟨t3, ?_⟩
          have hne : (b0 :: rest).headD 1 ≠ 0 := by simpa using hb0
          have hbt := beTrim_beVal (b0 :: rest) hp hne
          rw [t2] at hbt
          unfold content
          simp only
          rw [hbt, if_neg (show ¬ 0x80 ≤ (b0 :: rest).headD 0x80 from by simpa using hb8)]

/-! ## the decoder -/

theorem tagOk_two : tagOk 2 = true := by decide

/-- C16: `from_der(to_der(v)) = v` (no trailing bytes are tolerated, none are produced). -/
theorem dec_enc (bits v : ℕ) (hv : v < 2 ^ bits) (hB : nbytes bits + 1 ≤ 0xfffffff) : dec bits (enc v) = .ok v := by
  have hcl := content_length_le bits v hv
  unfold dec enc
  simp only [tagOk_two, Bool.not_true, Bool.false_eq_true, if_false]
  rw [decLen_derLen _ _ (by omega)]
  simp only [ne_eq, not_true_eq_false, if_false]
  rw [if_neg (by omega), List.drop_left, if_neg (by omega), List.take_length, fromDerSlice_content bits v hv]
  simp

/-- C17: the DER decoder accepts ONLY the canonical encoding (`from_der` also rejects trailing data):
    an accepted input IS `enc v`, and `v` is in range. -/
theorem dec_canonical' (bits : ℕ) (bs : List ℕ) (hbs : IsBytes bs) (v : ℕ) (h : dec bits bs = .ok v) :
    v < 2 ^ bits ∧ bs = enc v ∧ (content v).length ≤ 0xfffffff := by
  match bs, hbs with
  | [], _ => simp [dec] at h
  | t :: r1, hbs =>
    unfold dec at h
    simp only at h
    split at h
    · simp at h
    · split at h
      · simp at h
      · next len k hlen =>
        split at h
        · simp at h
        · next ht =>
          split at h
          · simp at h
          · split at h
            · simp at h
            · next hbl =>
              split at h
              · simp at h
              · next v' hv' =>
                split at h
                · simp at h
                · next htr =>
                  simp only [Except.ok.injEq] at h
                  subst h
                  have ht2 : t = 2 := by simpa using ht
                  subst ht2
                  obtain ⟨c1, c2, c3⟩ := decLen_canonical r1 hbs.tail len k hlen
                  have hbody : (r1.drop k).length = len := by omega
                  rw [← hbody, List.take_length] at hv'
                  obtain ⟨f1, f2⟩ := fromDerSlice_canonical bits _ (hbs.tail.drop k) _ hv'
                  refine ⟨f1, ?_, by rw [← f2, hbody]; exact c3⟩
                  unfold enc
                  rw [← f2, hbody, ← c2, List.take_append_drop]

theorem dec_canonical (bits : ℕ) (bs : List ℕ) (hbs : IsBytes bs) (v : ℕ) (h : dec bits bs = .ok v) :
    v < 2 ^ bits ∧ bs = enc v :=
  ⟨(dec_canonical' bits bs hbs v h).1, (dec_canonical' bits bs hbs v h).2.1⟩

end Ruint.Codec.Der
