import Ruint.Lemmas.Codec.Rlp
/-! RLP: accepting is stable under appending bytes; hence every proper prefix of a reference encoding is rejected. -/
namespace Ruint.Codec.Rlp
open Ruint Ruint.Codec

/-- an accepted STRING header only looked at bytes that are there: appending bytes changes nothing. -/
theorem decodeHeader_append (bs t : List ℕ) (len hl : ℕ) (h : decodeHeader bs = .ok (false, len, hl)) :
    decodeHeader (bs ++ t) = .ok (false, len, hl) := by
  match bs with
  | [] => simp [hdr_nil] at h
  | b :: rest =>
    rw [hdr_cons] at h
    rw [List.cons_append, hdr_cons]
    split at h
    · next hb80 => rw [if_pos hb80]; exact h
    · next hb80 =>
      rw [if_neg hb80]
      split at h
      · next hb8 =>
        rw [if_pos hb8]
        simp only at h ⊢
        split at h
        · simp at h
        · next c1 =>
          split at h
          · simp at h
          · next c2 =>
            split at h
            · simp at h
            · next c3 =>
              have d1 : ¬ (b - 0x80 = 1 ∧ rest ++ t = []) := by
                rintro ⟨e1, e2⟩
                have := congrArg List.length e2
                simp only [List.length_append, List.length_nil] at this
                omega
              have d2 : ¬ (b - 0x80 = 1 ∧ (rest ++ t).headD 0 < 0x80) := by
                rintro ⟨e1, e2⟩
                apply c2
                refine ⟨e1, ?_⟩
                match rest, c3 with
                | [], c3 => simp at c3; omega
                | r :: rs, _ => simpa using e2
              have d3 : ¬ ((rest ++ t).length < b - 0x80) := by simp only [List.length_append]; omega
              rw [if_neg d1, if_neg d2, if_neg d3]
              exact h
      · next hb8 =>
        rw [if_neg hb8]
        split at h
        · next hlong =>
          rw [if_pos hlong]
          by_cases hf : 0xf8 ≤ b
          · exfalso
            simp only [hf, decide_true, if_true] at h
            split at h
            · simp at h
            · split at h
              · simp at h
              · split at h
                · simp at h
                · split at h
                  · simp at h
                  · simp at h
          · simp only [hf, decide_false, Bool.false_eq_true, if_false] at h ⊢
            split at h
            · simp at h
            · next c1 =>
              have tk : (rest ++ t).take (b - 0xb7) = rest.take (b - 0xb7) :=
                List.take_append_of_le_length (by omega)
              rw [if_neg (by simp only [List.length_append]; omega), tk]
              split at h
              · simp at h
              · next c2 =>
                rw [if_neg c2]
                split at h
                · simp at h
                · next c3 =>
                  rw [if_neg c3]
                  split at h
                  · simp at h
                  · next c4 =>
                    rw [if_neg (by simp only [List.length_append]; omega)]
                    exact h
        · next hlist =>
          rw [if_neg hlist]
          simp only at h
          split at h
          · simp at h
          · simp at h

/-- accepting is stable under appending bytes (value and consumed count unchanged). -/
theorem dec_append (bits : ℕ) (bs t : List ℕ) (hbs : IsBytes bs) (v n : ℕ) (h : dec bits bs = .ok (v, n)) :
    dec bits (bs ++ t) = .ok (v, n) := by
  have hcan := dec_canonical bits bs hbs v n h
  unfold dec at h ⊢
  split at h
  · simp at h
  · next list len hl hh =>
    split at h
    · simp at h
    · next hlist =>
      have hl' : list = false := by simpa using hlist
      subst hl'
      obtain ⟨c1, _⟩ := decodeHeader_canonical bs hbs len hl hh
      rw [decodeHeader_append bs t len hl hh]
      simp only [Bool.false_eq_true, if_false] at h ⊢
      have hp : ((bs ++ t).drop hl).take len = (bs.drop hl).take len := by
        rw [List.drop_append_of_le_length (by omega), List.take_append_of_le_length (by rw [List.length_drop]; omega)]
      rw [hp]
      exact h

/-- C17: truncated input is an error — every proper prefix of a reference encoding is rejected. -/
theorem dec_truncated (bits v k : ℕ) (hv : v < 2 ^ bits) (hB : byteLen (nbytes bits) ≤ 8) (hk : k < (enc v).length) :
    ∃ e, dec bits ((enc v).take k) = .error e := by
  match hd : dec bits ((enc v).take k) with
  | .error e => exact ⟨e, rfl⟩
  | .ok (v', n) =>
    exfalso
    have hb : IsBytes (enc v) := by
      rw [enc_eq]
      split
      · exact IsBytes.cons (by norm_num) IsBytes.nil
      · split
        · next h => exact IsBytes.cons (by omega) IsBytes.nil
        · apply IsBytes.append _ (beTrim_isBytes v)
          have hbl : byteLen v ≤ nbytes bits := byteLen_le_nbytes bits v hv
          have h8 := le_trans (byteLen_mono hbl) hB
          unfold strHeader
          split
          · exact IsBytes.cons (by omega) IsBytes.nil
          · exact IsBytes.cons (by omega) (beTrim_isBytes _)
    obtain ⟨_, hn, _⟩ := dec_canonical bits _ (hb.take k) v' n hd
    have happ := dec_append bits _ ((enc v).drop k) (hb.take k) v' n hd
    rw [List.take_append_drop] at happ
    have hfull := dec_enc bits v [] hv hB
    rw [List.append_nil, happ] at hfull
    simp only [Except.ok.injEq, Prod.mk.injEq] at hfull
    rw [List.length_take] at hn
    omega

end Ruint.Codec.Rlp
