import Ruint.Gen.WordsDer
import Ruint.Model.Codec.Der
import Ruint.Props.C08

/-! The two DER content decoders of `src/support/der.rs` as GENERATED (`Ruint/Gen/WordsDer.lean`:
`der_from_der_slice`, `der_from_der_uint_slice`) equal the hand-written value-level models
`Ruint.Codec.Der.fromDerSlice` / `fromDerUintSlice`, and their `Ok` results are canonical. -/
namespace Ruint.GenDer
open Ruint Ruint.Codec

/-- outcome of the generated decoders at value level: outer `none` = panic; error codes
    0 = length, 1 = non-canonical, 2 = value. -/
def toRes : Option (Except Nat (List Nat)) → Option (Except Ruint.Codec.Err Nat)
  | none => none
  | some (.ok l) => some (.ok (Ruint.val l))
  | some (.error 0) => some (.error .length)
  | some (.error 1) => some (.error .noncanonical)
  | some (.error 2) => some (.error .value)
  | some (.error _) => some (.error .opaque)

/-! ## bridges between the two byte vocabularies -/

theorem leVal_eq (bs : List ℕ) : leVal bs = Ruint.Bytes.wordOfLE bs := by
  induction bs with
  | nil => rfl
  | cons b bs ih => simp only [leVal, Ruint.Bytes.wordOfLE, ih]

theorem ofBE_eq_beVal (bs : List ℕ) : Ruint.C08.ofBE bs = beVal bs := by
  rw [Ruint.C08.ofBE_eq, beVal, leVal_eq]

theorem nbytes_eq (bits : ℕ) : Ruint.Bytes.nbytes bits = Ruint.Codec.nbytes bits := rfl

/-- the zero result of `from_der_uint_slice` is canonical with value 0. -/
theorem val_replicate_zero (n : ℕ) : Ruint.val (List.replicate n 0) = 0 := by
  induction n with
  | zero => rfl
  | succ n ih => simp only [List.replicate_succ, Ruint.val, ih]; omega

theorem canon_zero (bits : ℕ) : Ruint.Canon bits (List.replicate (nlimbs bits) 0) := by
  refine ⟨by simp, ?_, ?_⟩
  · intro x hx
    rw [List.eq_of_mem_replicate hx]
    unfold W; norm_num
  · rw [val_replicate_zero]; exact Nat.two_pow_pos bits

/-! ## the common tail: `try_from_be_slice` as generated, against `tryFromBE` -/

theorem be_tail (bits : ℕ) (hN : nlimbs bits < 2 ^ 60) (hB : bits + 7 < 2 ^ 64) (p : List ℕ)
    (hp : ∀ x ∈ p, x < 256) (f : ℕ) (hf : nlimbs bits + p.length + 1 < f) :
    ∃ r, Ruint.Gen.uint_try_from_be_slice f bits (nlimbs bits) p = some r ∧
      ((tryFromBE bits p = none ∧ r = none)
        ∨ (∃ l, r = some l ∧ Ruint.Canon bits l ∧ tryFromBE bits p = some (Ruint.val l))) := by
  have h1 := Ruint.GenBytes.try_from_be_slice_eq bits hN hB p hp f hf
  have h2 := Ruint.C08.try_from_be_slice_spec bits p hp
  rw [ofBE_eq_beVal, nbytes_eq] at h2
  by_cases hc : p.length ≤ nbytes bits ∧ beVal p < 2 ^ bits
  · obtain ⟨l, e, c, v⟩ := h2.1 hc
    rw [e] at h1
    have hx : Ruint.Gen.uint_try_from_be_slice f bits (nlimbs bits) p = some (some l) := by
      generalize Ruint.Gen.uint_try_from_be_slice f bits (nlimbs bits) p = x at h1
      match x, h1 with
      | some (some l'), h1 => simp only [Ruint.GenBytes.toRes, Ruint.Canon.Res.ok.injEq] at h1; rw [h1]
      | some none, h1 => simp [Ruint.GenBytes.toRes] at h1
      | none, h1 => simp [Ruint.GenBytes.toRes] at h1
    refine ⟨some l, hx, Or.inr ⟨l, rfl, c, ?_⟩⟩
    unfold tryFromBE
    rw [if_neg (by omega), if_pos hc.2, v]
  · have e := h2.2 hc
    rw [e] at h1
    have hx : Ruint.Gen.uint_try_from_be_slice f bits (nlimbs bits) p = some none := by
      generalize Ruint.Gen.uint_try_from_be_slice f bits (nlimbs bits) p = x at h1
      match x, h1 with
      | some (some l'), h1 => simp [Ruint.GenBytes.toRes] at h1
      | some none, h1 => rfl
      | none, h1 => simp [Ruint.GenBytes.toRes] at h1
    refine ⟨none, hx, Or.inl ⟨?_, rfl⟩⟩
    unfold tryFromBE
    by_cases hl : nbytes bits < p.length
    · rw [if_pos hl]
    · rw [if_neg hl, if_neg (fun h => hc ⟨by omega, h⟩)]

/-- the final `match` of both generated decoders. -/
def fin (x : Option (Option (List ℕ))) : Option (Except ℕ (List ℕ)) :=
  match x with
  | none => none
  | some pv2 => some (match pv2 with
    | some v_ => Except.ok v_
    | none => Except.error 1)

/-- the final `match` of both models. -/
def finM (x : Option ℕ) : Except Err ℕ :=
  match x with
  | none => .error .noncanonical
  | some v => .ok v

theorem fin_tail (bits : ℕ) (hN : nlimbs bits < 2 ^ 60) (hB : bits + 7 < 2 ^ 64) (p : List ℕ)
    (hp : ∀ x ∈ p, x < 256) (f : ℕ) (hf : nlimbs bits + p.length + 1 < f) :
    toRes (fin (Ruint.Gen.uint_try_from_be_slice f bits (nlimbs bits) p)) = some (finM (tryFromBE bits p))
    ∧ (∀ l, fin (Ruint.Gen.uint_try_from_be_slice f bits (nlimbs bits) p) = some (.ok l) → Ruint.Canon bits l) := by
  obtain ⟨r, hr, h⟩ := be_tail bits hN hB p hp f hf
  rw [hr]
  rcases h with ⟨hm, rfl⟩ | ⟨l, rfl, c, hm⟩
  · rw [hm]
    refine ⟨rfl, ?_⟩
    intro l hl
    simp [fin] at hl
  · rw [hm]
    refine ⟨rfl, ?_⟩
    intro l' hl
    simp only [fin, Option.some.injEq, Except.ok.injEq] at hl
    rw [← hl]; exact c

/-! ## the generated decoders, by shape of the input -/

theorem gen_slice_nil (f bits n : ℕ) : Ruint.Gen.der_from_der_slice f bits n [] = some (.error 0) := by
  simp [Ruint.Gen.der_from_der_slice]

theorem gen_slice_cons (f bits n b0 : ℕ) (rest : List ℕ) :
    Ruint.Gen.der_from_der_slice f bits n (b0 :: rest) =
      if b0 = 0 then
        (match rest with
         | b1 :: _ => if b1 < 128 then some (.error 1) else fin (Ruint.Gen.uint_try_from_be_slice f bits n rest)
         | [] => fin (Ruint.Gen.uint_try_from_be_slice f bits n rest))
      else if 128 ≤ b0 then some (.error 2)
      else fin (Ruint.Gen.uint_try_from_be_slice f bits n (b0 :: rest)) := by
  by_cases h0 : b0 = 0
  · subst h0
    cases rest with
    | nil => simp [Ruint.Gen.der_from_der_slice, fin]; rfl
    | cons b1 t =>
      by_cases h1 : b1 < 128
      · simp [Ruint.Gen.der_from_der_slice, h1]
      · simp [Ruint.Gen.der_from_der_slice, h1, fin]; rfl
  · by_cases h2 : 128 ≤ b0
    · simp [Ruint.Gen.der_from_der_slice, h0, h2]
    · simp [Ruint.Gen.der_from_der_slice, h0, h2, fin]; rfl

theorem gen_uint_nil (f bits n : ℕ) : Ruint.Gen.der_from_der_uint_slice f bits n [] = some (.error 0) := by
  simp [Ruint.Gen.der_from_der_uint_slice]

theorem gen_uint_cons (f bits n b0 : ℕ) (rest : List ℕ) :
    Ruint.Gen.der_from_der_uint_slice f bits n (b0 :: rest) =
      if b0 = 0 then (if rest = [] then some (.ok (List.replicate n 0)) else some (.error 1))
      else fin (Ruint.Gen.uint_try_from_be_slice f bits n (b0 :: rest)) := by
  by_cases h0 : b0 = 0
  · subst h0
    cases rest with
    | nil => simp [Ruint.Gen.der_from_der_uint_slice]
    | cons b1 t => simp [Ruint.Gen.der_from_der_uint_slice]
  · simp [Ruint.Gen.der_from_der_uint_slice, h0, fin]; rfl

theorem model_slice_cons (bits b0 : ℕ) (rest : List ℕ) :
    Der.fromDerSlice bits (b0 :: rest) =
      if b0 = 0 then
        (match rest with
         | b1 :: _ => if b1 < 128 then .error .noncanonical else finM (tryFromBE bits rest)
         | [] => finM (tryFromBE bits rest))
      else if 128 ≤ b0 then .error .value
      else finM (tryFromBE bits (b0 :: rest)) := by
  by_cases h0 : b0 = 0
  · subst h0
    cases rest with
    | nil => simp [Der.fromDerSlice, finM]; rfl
    | cons b1 t =>
      by_cases h1 : b1 < 128
      · simp [Der.fromDerSlice, h1]
      · simp [Der.fromDerSlice, h1, finM]; rfl
  · by_cases h2 : 128 ≤ b0
    · simp [Der.fromDerSlice, h0, h2]
    · simp [Der.fromDerSlice, h0, h2, finM]; rfl

theorem model_uint_cons (bits b0 : ℕ) (rest : List ℕ) :
    Der.fromDerUintSlice bits (b0 :: rest) =
      if b0 = 0 then (if rest = [] then .ok 0 else .error .noncanonical)
      else finM (tryFromBE bits (b0 :: rest)) := by
  by_cases h0 : b0 = 0
  · subst h0
    cases rest with
    | nil => simp [Der.fromDerUintSlice]
    | cons b1 t => simp [Der.fromDerUintSlice]
  · cases b0 with
    | zero => exact absurd rfl h0
    | succ k => simp [Der.fromDerUintSlice, finM]; rfl

/-! ## the ties -/

/-- `from_der_slice` as generated from `src/support/der.rs` equals the model, never panics, and its
    `Ok` results are canonical. -/
theorem from_der_slice_eq (bits : ℕ) (hN : nlimbs bits < 2 ^ 60) (hB : bits + 7 < 2 ^ 64) (bs : List ℕ)
    (hb : ∀ x ∈ bs, x < 256) (f : ℕ) (hf : nlimbs bits + bs.length + 1 < f) :
    toRes (Ruint.Gen.der_from_der_slice f bits (nlimbs bits) bs) = some (Ruint.Codec.Der.fromDerSlice bits bs)
    ∧ (∀ l, Ruint.Gen.der_from_der_slice f bits (nlimbs bits) bs = some (.ok l) → Ruint.Canon bits l) := by
  cases bs with
  | nil =>
    rw [gen_slice_nil]
    exact ⟨rfl, fun l hl => by simp at hl⟩
  | cons b0 rest =>
    have hrest : ∀ x ∈ rest, x < 256 := fun x hx => hb x (List.mem_cons_of_mem _ hx)
    have hfr : nlimbs bits + rest.length + 1 < f := by simp only [List.length_cons] at hf; omega
    have tr := fin_tail bits hN hB rest hrest f hfr
    have tb := fin_tail bits hN hB (b0 :: rest) hb f hf
    rw [gen_slice_cons, model_slice_cons]
    by_cases h0 : b0 = 0
    · rw [if_pos h0, if_pos h0]
      cases rest with
      | nil => exact tr
      | cons b1 t =>
        by_cases h1 : b1 < 128
        · simp only [h1, if_true]
          exact ⟨rfl, fun l hl => by simp at hl⟩
        · simp only [h1, if_false]
          exact tr
    · rw [if_neg h0, if_neg h0]
      by_cases h2 : 128 ≤ b0
      · rw [if_pos h2, if_pos h2]
        exact ⟨rfl, fun l hl => by simp at hl⟩
      · rw [if_neg h2, if_neg h2]
        exact tb

/-- `from_der_uint_slice` as generated from `src/support/der.rs` equals the model, never panics, and its
    `Ok` results are canonical. -/
theorem from_der_uint_slice_eq (bits : ℕ) (hN : nlimbs bits < 2 ^ 60) (hB : bits + 7 < 2 ^ 64) (bs : List ℕ)
    (hb : ∀ x ∈ bs, x < 256) (f : ℕ) (hf : nlimbs bits + bs.length + 1 < f) :
    toRes (Ruint.Gen.der_from_der_uint_slice f bits (nlimbs bits) bs)
      = some (Ruint.Codec.Der.fromDerUintSlice bits bs)
    ∧ (∀ l, Ruint.Gen.der_from_der_uint_slice f bits (nlimbs bits) bs = some (.ok l) → Ruint.Canon bits l) := by
  cases bs with
  | nil =>
    rw [gen_uint_nil]
    exact ⟨rfl, fun l hl => by simp at hl⟩
  | cons b0 rest =>
    have tb := fin_tail bits hN hB (b0 :: rest) hb f hf
    rw [gen_uint_cons, model_uint_cons]
    by_cases h0 : b0 = 0
    · rw [if_pos h0, if_pos h0]
      by_cases hr : rest = []
      · rw [if_pos hr, if_pos hr]
        refine ⟨?_, fun l hl => ?_⟩
        · simp only [toRes, val_replicate_zero]
        · simp only [Option.some.injEq, Except.ok.injEq] at hl
          rw [← hl]; exact canon_zero bits
      · rw [if_neg hr, if_neg hr]
        exact ⟨rfl, fun l hl => by simp at hl⟩
    · rw [if_neg h0, if_neg h0]
      exact tb

end Ruint.GenDer

#print axioms Ruint.GenDer.from_der_slice_eq
#print axioms Ruint.GenDer.from_der_uint_slice_eq
