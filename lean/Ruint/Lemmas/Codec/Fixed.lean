import Ruint.Model.Codec.Fixed
import Ruint.Lemmas.Codec.Bytes
import Ruint.Lemmas.Basic
/-! Fixed-width codecs (SSZ, borsh, bincode / binary serde) and the limb-array identities. -/
namespace Ruint.Codec.Fixed
open Ruint Ruint.Codec

/-! ## SSZ -/
theorem encSsz_length (bits v : ℕ) : (encSsz bits v).length = sszBytesLen bits := by simp [encSsz, sszBytesLen]

theorem decSsz_enc (bits v : ℕ) (hv : v < 2 ^ bits) : decSsz bits (encSsz bits v) = .ok v := by
  unfold decSsz encSsz
  rw [if_neg (by simp), tryFromLE_toLE bits v hv]

/-- accepted ⇒ exactly `BYTES` bytes denoting a value in range; in particular the input is the encoding. -/
theorem decSsz_sound (bits : ℕ) (bs : List ℕ) (hbs : IsBytes bs) (v : ℕ) (h : decSsz bits bs = .ok v) :
    v < 2 ^ bits ∧ bs = encSsz bits v := by
  unfold decSsz at h
  split at h
  · simp at h
  · next hl =>
    split at h
    · simp at h
    · next v' hv' =>
      simp only [Except.ok.injEq] at h
      subst h
      obtain ⟨t1, t2, t3⟩ := (tryFromLE_eq_some _ _ _).mp hv'
      refine ⟨t3, ?_⟩
      unfold encSsz
      have hl' : bs.length = nbytes bits := by simpa using hl
      rw [← hl', ← t2, toLE_leVal bs hbs]

theorem decSsz_wrong_length (bits : ℕ) (bs : List ℕ) (h : bs.length ≠ nbytes bits) :
    decSsz bits bs = .error .invalidByteLength := by
  unfold decSsz; rw [if_pos h]

/-! ## borsh -/
theorem decBorshReader_enc (bits v : ℕ) (tail : List ℕ) (hv : v < 2 ^ bits) :
    decBorshReader bits (encBorsh bits v ++ tail) = .ok (v, (encBorsh bits v).length) := by
  unfold decBorshReader encBorsh
  rw [if_neg (by simp)]
  rw [List.take_append_of_le_length (by simp), List.take_of_length_le (by simp), tryFromLE_toLE bits v hv]
  simp

theorem decBorsh_enc (bits v : ℕ) (hv : v < 2 ^ bits) : decBorsh bits (encBorsh bits v) = .ok v := by
  unfold decBorsh
  have := decBorshReader_enc bits v [] hv
  rw [List.append_nil] at this
  rw [this]
  simp [encBorsh]

theorem decBorshReader_sound (bits : ℕ) (bs : List ℕ) (hbs : IsBytes bs) (v n : ℕ)
    (h : decBorshReader bits bs = .ok (v, n)) :
    v < 2 ^ bits ∧ n = nbytes bits ∧ n ≤ bs.length ∧ bs.take n = encBorsh bits v := by
  unfold decBorshReader at h
  split at h
  · simp at h
  · next hl =>
    split at h
    · simp at h
    · next v' hv' =>
      simp only [Except.ok.injEq, Prod.mk.injEq] at h
      obtain ⟨e1, e2⟩ := h
      subst e1; subst e2
      obtain ⟨t1, t2, t3⟩ := (tryFromLE_eq_some _ _ _).mp hv'
      refine ⟨t3, rfl, by omega, ?_⟩
      unfold encBorsh
      have hl' : (bs.take (nbytes bits)).length = nbytes bits := by rw [List.length_take]; omega
      rw [← t2]
      have := toLE_leVal _ (hbs.take (nbytes bits))
      rw [hl'] at this
      exact this.symm

theorem decBorsh_sound (bits : ℕ) (bs : List ℕ) (hbs : IsBytes bs) (v : ℕ) (h : decBorsh bits bs = .ok v) :
    v < 2 ^ bits ∧ bs = encBorsh bits v := by
  unfold decBorsh at h
  split at h
  · simp at h
  · next v' n hr =>
    split at h
    · simp at h
    · next hn =>
      simp only [Except.ok.injEq] at h
      subst h
      obtain ⟨s1, s2, s3, s4⟩ := decBorshReader_sound bits bs hbs _ _ hr
      refine ⟨s1, ?_⟩
      rw [← s4, List.take_of_length_le (by omega)]

/-! ## bincode / binary serde -/
theorem visitBytes_enc (bits v : ℕ) (hv : v < 2 ^ bits) : visitBytes bits (encSerdeBinary bits v) = .ok v := by
  unfold visitBytes encSerdeBinary
  rw [if_neg (by simp), tryFromBE_toBE bits v hv]

theorem decBincode_enc (bits v : ℕ) (tail : List ℕ) (hv : v < 2 ^ bits) (hB : nbytes bits < 2 ^ 64) :
    decBincode bits (encBincode bits v ++ tail) = .ok v := by
  unfold decBincode encBincode
  have h8 : (toLE 8 (nbytes bits) ++ encSerdeBinary bits v ++ tail).take 8 = toLE 8 (nbytes bits) := by
    rw [List.append_assoc, List.take_append_of_le_length (by simp), List.take_of_length_le (by simp)]
  have hd : (toLE 8 (nbytes bits) ++ encSerdeBinary bits v ++ tail).drop 8 = encSerdeBinary bits v ++ tail := by
    rw [List.append_assoc]
    have := List.drop_left (l₁ := toLE 8 (nbytes bits)) (l₂ := encSerdeBinary bits v ++ tail)
    rwa [toLE_length] at this
  rw [if_neg (by simp only [List.length_append, toLE_length]; omega), h8, hd,
    leVal_toLE_of_lt _ _ (by rw [pow256]; exact hB)]
  simp only
  have hlen : (encSerdeBinary bits v).length = nbytes bits := by simp [encSerdeBinary]
  rw [if_neg (by simp only [List.length_append, hlen]; omega)]
  rw [List.take_append_of_le_length (by omega), List.take_of_length_le (by omega)]
  exact visitBytes_enc bits v hv

theorem visitBytes_sound (bits : ℕ) (bs : List ℕ) (hbs : IsBytes bs) (v : ℕ) (h : visitBytes bits bs = .ok v) :
    v < 2 ^ bits ∧ bs = encSerdeBinary bits v := by
  unfold visitBytes at h
  split at h
  · simp at h
  · next hl =>
    split at h
    · simp at h
    · next v' hv' =>
      simp only [Except.ok.injEq] at h
      subst h
      obtain ⟨t1, t2, t3⟩ := (tryFromBE_eq_some _ _ _).mp hv'
      refine ⟨t3, ?_⟩
      unfold encSerdeBinary
      have hl' : bs.length = nbytes bits := by simpa using hl
      rw [← hl', ← t2, toBE_beVal bs hbs]

theorem decBincode_sound (bits : ℕ) (bs : List ℕ) (hbs : IsBytes bs) (v : ℕ) (h : decBincode bits bs = .ok v) :
    v < 2 ^ bits ∧ 8 + nbytes bits ≤ bs.length ∧ leVal (bs.take 8) = nbytes bits
      ∧ (bs.drop 8).take (nbytes bits) = encSerdeBinary bits v := by
  unfold decBincode at h
  split at h
  · simp at h
  · next h8 =>
    simp only at h
    split at h
    · simp at h
    · next hlen =>
      have hvb := h
      unfold visitBytes at hvb
      split at hvb
      · simp at hvb
      · next hl =>
        obtain ⟨s1, s2⟩ := visitBytes_sound bits _ ((hbs.drop 8).take _) v h
        have hl' : ((bs.drop 8).take (leVal (bs.take 8))).length = nbytes bits := by simpa using hl
        have hll : leVal (bs.take 8) = nbytes bits := by
          rw [List.length_take] at hl'
          omega
        rw [hll] at s2
        refine ⟨s1, ?_, hll, s2⟩
        rw [List.length_drop] at hlen
        omega

/-! ## limb-array identities (num-bigint, primitive-types, ark-ff, bytemuck) -/

/-- `into_limbs` / `from_limbs`: the limb array denotes the value and is canonical. -/
theorem limbs_roundtrip (bits v : ℕ) (hv : v < 2 ^ bits) :
    val (limbs bits v) = v ∧ Canon bits (limbs bits v) :=
  ⟨val_toLimbs_of_lt bits v hv, canon_toLimbs bits v hv⟩

theorem fromBigInt_roundtrip (bits v : ℕ) (hv : v < 2 ^ bits) : fromBigInt bits false v = .ok v := by
  unfold fromBigInt; simp [hv]

theorem fromBigInt_sound (bits : ℕ) (neg : Bool) (mag v : ℕ) (h : fromBigInt bits neg mag = .ok v) :
    v < 2 ^ bits ∧ neg = false ∧ v = mag := by
  unfold fromBigInt at h
  split at h
  · simp at h
  · next hn =>
    split at h
    · next hm => simp only [Except.ok.injEq] at h; subst h; exact ⟨hm, by simpa using hn, rfl⟩
    · simp at h

end Ruint.Codec.Fixed
