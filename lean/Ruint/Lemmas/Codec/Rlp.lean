import Ruint.Model.Codec.Rlp
import Ruint.Lemmas.Codec.Bytes
/-! RLP string items: header decode of an encoded string, canonicity of accepted headers,
    ruint's encoder = the format definition, `length()`. -/
namespace Ruint.Codec.Rlp
open Ruint Ruint.Codec
theorem hdr_cons (b : ℕ) (rest : List ℕ) : decodeHeader (b :: rest) =
    if b < 0x80 then .ok (false, 1, 0)
    else if b < 0xb8 then
      let len := b - 0x80
      if len = 1 ∧ rest = [] then .error .inputTooShort
      else if len = 1 ∧ rest.headD 0 < 0x80 then .error .nonCanonicalSingleByte
      else if rest.length < len then .error .inputTooShort
      else .ok (false, len, 1)
    else if b < 0xc0 ∨ 0xf8 ≤ b then
      let list := decide (0xf8 ≤ b)
      let lol := if list then b - 0xf7 else b - 0xb7
      if rest.length < lol then .error .inputTooShort
      else
        let lb := rest.take lol
        if lb.headD 1 = 0 then .error .leadingZero
        else
          let len := beVal lb
          if len < 56 then .error .nonCanonicalSize
          else if rest.length - lol < len then .error .inputTooShort
          else .ok (list, len, 1 + lol)
    else
      let len := b - 0xc0
      if rest.length < len then .error .inputTooShort else .ok (true, len, 1) := rfl

/-- short string header. -/
theorem hdr_short (n : ℕ) (rest : List ℕ) (hn : n < 56) (hlen : n ≤ rest.length)
    (h1 : n = 1 → 0x80 ≤ rest.headD 0) :
    decodeHeader ((0x80 + n) :: rest) = .ok (false, n, 1) := by
  rw [hdr_cons]
  have e1 : ¬ (0x80 + n < 0x80) := by omega
  have e2 : 0x80 + n < 0xb8 := by omega
  have e3 : 0x80 + n - 0x80 = n := by omega
  rw [if_neg e1, if_pos e2]
  simp only [e3]
  have c1 : ¬ (n = 1 ∧ rest = []) := by
    rintro ⟨h, e⟩; subst e; simp at hlen; omega
  have c2 : ¬ (n = 1 ∧ rest.headD 0 < 0x80) := by
    rintro ⟨h, e⟩; have := h1 h; omega
  rw [if_neg c1, if_neg c2, if_neg (by omega)]

theorem hdr_nil : decodeHeader [] = .error .inputTooShort := rfl

theorem hdr_single (b : ℕ) (rest : List ℕ) (hb : b < 0x80) : decodeHeader (b :: rest) = .ok (false, 1, 0) := by
  rw [hdr_cons, if_pos hb]

/-- long string header: `0xb7 + L`, the `L` minimal length bytes, then at least `n` bytes. -/
theorem hdr_long (n : ℕ) (rest : List ℕ) (hn : 56 ≤ n) (hL : byteLen n ≤ 8) (hlen : n ≤ rest.length) :
    decodeHeader ((0xb7 + byteLen n) :: (beTrim n ++ rest)) = .ok (false, n, 1 + byteLen n) := by
  have hL1 : 1 ≤ byteLen n := by
    by_contra hc
    have : byteLen n = 0 := by omega
    have := (byteLen_eq_zero_iff _).mp this
    omega
  rw [hdr_cons]
  have e1 : ¬ (0xb7 + byteLen n < 0x80) := by omega
  have e2 : ¬ (0xb7 + byteLen n < 0xb8) := by omega
  have e3 : 0xb7 + byteLen n < 0xc0 ∨ 0xf8 ≤ 0xb7 + byteLen n := by left; omega
  have e4 : ¬ (0xf8 ≤ 0xb7 + byteLen n) := by omega
  rw [if_neg e1, if_neg e2, if_pos e3]
  simp only [e4, decide_false, Bool.false_eq_true, if_false]
  have e5 : 0xb7 + byteLen n - 0xb7 = byteLen n := by omega
  simp only [e5]
  have c1 : ¬ ((beTrim n ++ rest).length < byteLen n) := by
    simp only [List.length_append, beTrim_length]; omega
  have t1 : (beTrim n ++ rest).take (byteLen n) = beTrim n := by
    rw [List.take_append_of_le_length (by simp)]
    rw [List.take_of_length_le (by simp)]
  rw [if_neg c1, t1, if_neg (beTrim_head_ne_zero _), beVal_beTrim, if_neg (by omega)]
  have c2 : ¬ ((beTrim n ++ rest).length - byteLen n < n) := by
    simp only [List.length_append, beTrim_length]; omega
  rw [if_neg c2]

theorem strHeader_length (n : ℕ) : (strHeader n).length = lengthOfLength n := by
  unfold strHeader lengthOfLength
  split
  · simp
  · simp; omega

theorem encStr_length (p : List ℕ) :
    (encStr p).length = if p.length = 1 ∧ p.headD 0 < 0x80 then 1 else lengthOfLength p.length + p.length := by
  unfold encStr
  split
  · next h => exact h.1
  · rw [List.length_append, strHeader_length]

/-- `Header::decode` on an encoded string (any tail): not a list, payload length, header length. -/
theorem decodeHeader_encStr (p tail : List ℕ) (hlen : byteLen p.length ≤ 8) :
    ∃ hl, decodeHeader (encStr p ++ tail) = .ok (false, p.length, hl)
      ∧ hl + p.length = (encStr p).length
      ∧ ((encStr p ++ tail).drop hl).take p.length = p := by
  unfold encStr
  by_cases h1 : p.length = 1 ∧ p.headD 0 < 0x80
  · rw [if_pos h1]
    obtain ⟨hl1, hb⟩ := h1
    match p, hl1, hb with
    | [b], _, hb =>
      simp only [List.headD_cons] at hb
      exact ⟨0, by rw [List.singleton_append, hdr_single b tail hb]; rfl, by simp, by simp⟩
  · rw [if_neg h1]
    unfold strHeader
    by_cases h56 : p.length < 56
    · rw [if_pos h56]
      refine ⟨1, ?_, ?_, ?_⟩
      · have : [0x80 + p.length] ++ p ++ tail = (0x80 + p.length) :: (p ++ tail) := by simp
        rw [this]
        apply hdr_short _ _ h56 (by simp)
        intro hp1
        match p, hp1 with
        | [b], _ =>
          have hb : ¬ b < 0x80 := fun hb => h1 ⟨rfl, by simpa using hb⟩
          simp only [List.cons_append, List.headD_cons]
          omega
      · simp only [List.length_append, List.length_cons, List.length_nil]; try omega
      · simp
    · rw [if_neg h56]
      refine ⟨1 + byteLen p.length, ?_, ?_, ?_⟩
      · have : (0xb7 + byteLen p.length) :: beTrim p.length ++ p ++ tail
            = (0xb7 + byteLen p.length) :: (beTrim p.length ++ (p ++ tail)) := by simp
        rw [this]
        exact hdr_long _ _ (by omega) hlen (by simp)
      · simp only [List.length_append, List.length_cons, beTrim_length]; omega
      · have : (0xb7 + byteLen p.length) :: beTrim p.length ++ p ++ tail
            = ((0xb7 + byteLen p.length) :: beTrim p.length) ++ (p ++ tail) := by simp
        rw [this]
        have hl : 1 + byteLen p.length = ((0xb7 + byteLen p.length) :: beTrim p.length).length := by
          simp only [List.length_cons, beTrim_length]; omega
        rw [hl, List.drop_left]
        simp

theorem byteLen_mono {a b : ℕ} (h : a ≤ b) : byteLen a ≤ byteLen b :=
  (byteLen_le_iff a _).mpr (lt_of_le_of_lt h (lt_pow_byteLen b))

/-- C16: decoding the reference encoding (followed by arbitrary bytes) returns the value and consumes exactly
    the encoding. -/
theorem dec_enc (bits v : ℕ) (tail : List ℕ) (hv : v < 2 ^ bits) (hB : byteLen (nbytes bits) ≤ 8) :
    dec bits (enc v ++ tail) = .ok (v, (enc v).length) := by
  have hl8 : byteLen (beTrim v).length ≤ 8 := by
    rw [beTrim_length]; exact le_trans (byteLen_mono (byteLen_le_nbytes bits v hv)) hB
  obtain ⟨hl, h1, h2, h3⟩ := decodeHeader_encStr (beTrim v) tail hl8
  unfold dec enc
  rw [h1]
  simp only [Bool.false_eq_true, if_false]
  rw [h3, if_neg (beTrim_head_ne_zero v), tryFromBE_beTrim bits v hv, h2]

/-- an accepted string header is the canonical header of the payload it delimits. -/
theorem decodeHeader_canonical (bs : List ℕ) (hbs : IsBytes bs) (len hl : ℕ)
    (h : decodeHeader bs = .ok (false, len, hl)) :
    hl + len ≤ bs.length ∧ bs.take (hl + len) = encStr ((bs.drop hl).take len) := by
  match bs, hbs with
  | [], _ => simp [hdr_nil] at h
  | b :: rest, hbs =>
    have hb := hbs.head
    rw [hdr_cons] at h
    split at h
    · next hb80 =>
      simp only [Except.ok.injEq, Prod.mk.injEq, true_and] at h
      obtain ⟨rfl, rfl⟩ := h
      refine ⟨by simp, ?_⟩
      simp [encStr, hb80]
    · next hb80 =>
      split at h
      · next hb8 =>
        simp only at h
        split at h
        · simp at h
        · next c1 =>
          split at h
          · simp at h
          · next c2 =>
            split at h
            · simp at h
            · next c3 =>
              simp only [Except.ok.injEq, Prod.mk.injEq, true_and] at h
              obtain ⟨rfl, rfl⟩ := h
              obtain ⟨n, hn⟩ : ∃ n, n = b - 0x80 := ⟨_, rfl⟩
              rw [← hn] at c1 c2 c3 ⊢
              have hbn : b = 0x80 + n := by omega
              have hpl : (rest.take n).length = n := by rw [List.length_take]; omega
              refine ⟨by simp only [List.length_cons]; omega, ?_⟩
              rw [show 1 + n = n + 1 by omega, List.take_succ_cons, List.drop_one, List.tail_cons]
              unfold encStr
              rw [hpl]
              have hns : ¬ (n = 1 ∧ (rest.take n).headD 0 < 0x80) := by
                rintro ⟨h1, h2⟩
                apply c2
                refine ⟨h1, ?_⟩
                subst h1
                match rest, c1 with
                | [], c1 => simp at c1
                | r :: rs, _ => simpa using h2
              rw [if_neg hns]
              unfold strHeader
              rw [if_pos (by omega), hbn]
              rfl
      · next hb8 =>
        split at h
        · next hlong =>
          by_cases hf : 0xf8 ≤ b
          · exfalso
            simp only [hf, decide_true, if_true] at h
            split at h
            · simp at h
            · split at h
              · simp at h
              · split at h
                · simp at h
                · split at h
                  · simp at h
                  · simp at h
          · simp only [hf, decide_false, Bool.false_eq_true, if_false] at h
            split at h
            · simp at h
            · next c1 =>
              split at h
              · simp at h
              · next c2 =>
                split at h
                · simp at h
                · next c3 =>
                  split at h
                  · simp at h
                  · next c4 =>
                    simp only [Except.ok.injEq, Prod.mk.injEq, true_and] at h
                    obtain ⟨rfl, rfl⟩ := h
                    obtain ⟨k, hk⟩ : ∃ k, k = b - 0xb7 := ⟨_, rfl⟩
                    rw [← hk] at c1 c2 c3 c4 ⊢
                    have hbk : b = 0xb7 + k := by omega
                    obtain ⟨lb, hlb⟩ : ∃ lb, lb = rest.take k := ⟨_, rfl⟩
                    rw [← hlb] at c2 c3 c4 ⊢
                    have hlbl : lb.length = k := by rw [hlb, List.length_take]; omega
                    have hlbB : IsBytes lb := by rw [hlb]; exact hbs.tail.take k
                    have hbl := byteLen_beVal lb hlbB c2
                    have hbt := beTrim_beVal lb hlbB c2
                    obtain ⟨n, hn⟩ : ∃ n, n = beVal lb := ⟨_, rfl⟩
                    rw [← hn] at c3 c4 hbl hbt ⊢
                    refine ⟨by simp only [List.length_cons]; omega, ?_⟩
                    have hpl : ((rest.drop k).take n).length = n := by
                      rw [List.length_take, List.length_drop]; omega
                    rw [show 1 + k + n = (k + n) + 1 by omega, List.take_succ_cons]
                    rw [show 1 + k = k + 1 by omega, List.drop_succ_cons]
                    unfold encStr
                    rw [hpl, if_neg (by omega)]
                    unfold strHeader
                    rw [if_neg c3, hbl, hbt, hlbl, List.take_add, ← hlb, hbk]
                    simp
        · next hlist =>
          simp only at h
          split at h
          · simp at h
          · simp at h

/-- C17: alloy-rlp / fastrlp accept ONLY the reference encoding: an accepted input starts with `enc v`,
    exactly those bytes are consumed, and the value is in range. -/
theorem dec_canonical (bits : ℕ) (bs : List ℕ) (hbs : IsBytes bs) (v n : ℕ) (h : dec bits bs = .ok (v, n)) :
    v < 2 ^ bits ∧ n ≤ bs.length ∧ bs.take n = enc v := by
  unfold dec at h
  split at h
  · simp at h
  · next list len hl hh =>
    split at h
    · simp at h
    · next hlist =>
      simp only at h
      split at h
      · simp at h
      · next hz =>
        split at h
        · simp at h
        · next v' hv' =>
          simp only [Except.ok.injEq, Prod.mk.injEq] at h
          obtain ⟨rfl, rfl⟩ := h
          have hl' : list = false := by simpa using hlist
          subst hl'
          obtain ⟨c1, c2⟩ := decodeHeader_canonical bs hbs len hl hh
          obtain ⟨t1, t2, t3⟩ := (tryFromBE_eq_some _ _ _).mp hv'
          refine ⟨t3, c1, ?_⟩
          rw [c2]
          unfold enc
          rw [← t2, beTrim_beVal _ ((hbs.drop hl).take len) hz]

/-! ## ruint's encoder is the format definition -/

theorem beTrim_single (v : ℕ) (h0 : v ≠ 0) (h : v < 256) : beTrim v = [v] := by
  have hb : byteLen v = 1 := byteLen_eq v 0 (by simp; omega) (by simpa using h)
  unfold beTrim toBE
  rw [hb]
  simp [toLE, Nat.mod_eq_of_lt h]

/-- the reference encoding, by cases: `0x80` for zero, the byte itself below `0x80`, else header + minimal bytes. -/
theorem enc_eq (v : ℕ) :
    enc v = if v = 0 then [0x80] else if v < 0x80 then [v] else strHeader (byteLen v) ++ beTrim v := by
  unfold enc encStr
  by_cases h0 : v = 0
  · subst h0; simp [beTrim_zero, strHeader]
  · rw [if_neg h0]
    by_cases h80 : v < 0x80
    · rw [if_pos h80, beTrim_single v h0 (by omega)]
      simp [h80]
    · rw [if_neg h80]
      have : ¬ ((beTrim v).length = 1 ∧ (beTrim v).headD 0 < 0x80) := by
        rintro ⟨h1, h2⟩
        rw [beTrim_length] at h1
        have hv := lt_pow_byteLen v
        rw [h1] at hv
        rw [beTrim_single v h0 (by simpa using hv)] at h2
        simp at h2; omega
      rw [if_neg this, beTrim_length]

/-- C16: where the codec crate implements the format for `u64`/`u128`, its bytes are the reference encoding. -/
theorem encPrim_eq (v : ℕ) (h : v < 256 ^ 55) : encPrim v = enc v := by
  rw [enc_eq]
  unfold encPrim
  by_cases h0 : v = 0
  · simp [h0]
  · rw [if_neg h0, if_neg h0]
    by_cases h80 : v < 0x80
    · simp [h80]
    · rw [if_neg h80, if_neg h80]
      have : byteLen v ≤ 55 := (byteLen_le_iff v 55).mpr h
      unfold strHeader
      rw [if_pos (by omega)]
      rfl

/-- C16: ruint's `encode` (fast paths for 0, 1, 2 limbs, `bit_len` match, 55-byte switch) emits the
    reference encoding, for every width and every value. -/
theorem encImpl_eq (bits v : ℕ) (hv : v < 2 ^ bits) : encImpl bits v = enc v := by
  unfold encImpl
  simp only
  by_cases hl0 : nlimbs bits = 0
  · rw [if_pos hl0]
    have : bits = 0 := by unfold nlimbs at hl0; omega
    subst this
    have : v = 0 := by simpa using hv
    subst this
    rw [enc_eq]; simp
  · rw [if_neg hl0]
    by_cases hl2 : nlimbs bits ≤ 2
    · rw [if_pos hl2]
      apply encPrim_eq
      have hb : bits ≤ 128 := by unfold nlimbs at hl2; omega
      calc v < 2 ^ bits := hv
        _ ≤ 2 ^ 128 := Nat.pow_le_pow_right (by norm_num) hb
        _ ≤ 256 ^ 55 := by norm_num
    · rw [if_neg hl2, enc_eq]
      by_cases hb0 : bitLen v = 0
      · rw [if_pos hb0, if_pos ((bitLen_eq_zero_iff v).mp hb0)]
      · have h0 : v ≠ 0 := fun e => hb0 ((bitLen_eq_zero_iff v).mpr e)
        rw [if_neg hb0, if_neg h0]
        by_cases hb7 : bitLen v ≤ 7
        · have h128 : v < 0x80 := by simpa using (bitLen_le_iff v 7).mp hb7
          rw [if_pos hb7, if_pos h128, Nat.mod_eq_of_lt (by omega)]
        · have h128 : ¬ v < 0x80 := fun h => hb7 ((bitLen_le_iff v 7).mpr (by simpa using h))
          rw [if_neg hb7, if_neg h128]
          have hfit : v < 256 ^ nbytes bits := lt_of_lt_of_le hv (two_pow_le_pow_nbytes bits)
          have htr : (toBE (nbytes bits) v).drop (nbytes bits - (bitLen v + 7) / 8) = beTrim v :=
            toBE_drop _ _ hfit
          rw [htr, beTrim_length]
          by_cases hbig : bitLen v > 55 * 8
          · rw [if_pos hbig]
            unfold encStr
            have : ¬ ((beTrim v).length = 1 ∧ (beTrim v).headD 0 < 0x80) := by
              rintro ⟨h1, _⟩
              rw [beTrim_length] at h1
              unfold byteLen at h1; omega
            rw [if_neg this, beTrim_length]
          · rw [if_neg hbig]
            unfold strHeader
            have : byteLen v < 56 := by unfold byteLen; omega
            rw [if_pos this]
            rfl

/-- C16: the advertised `length()` is the length of the bytes produced. -/
theorem lengthImpl_eq (v : ℕ) : lengthImpl v = (enc v).length := by
  rw [enc_eq]
  unfold lengthImpl
  simp only
  by_cases hb7 : bitLen v ≤ 7
  · have h128 : v < 0x80 := by simpa using (bitLen_le_iff v 7).mp hb7
    rw [if_pos hb7]
    by_cases h0 : v = 0
    · simp [h0]
    · simp [h0, h128]
  · have h128 : ¬ v < 0x80 := fun h => hb7 ((bitLen_le_iff v 7).mpr (by simpa using h))
    have h0 : v ≠ 0 := by omega
    rw [if_neg hb7, if_neg h0, if_neg h128, List.length_append, strHeader_length, beTrim_length]
    unfold byteLen
    omega

end Ruint.Codec.Rlp
