import Ruint.Model.Codec.Serde
import Ruint.Lemmas.Codec.Bytes
/-! Human-readable serde: the quantity `0x` + minimal hex, its parse by `FromStr`, the JSON round trip, range. -/
namespace Ruint.Codec.Serde
open Ruint Ruint.Codec

theorem hexDigit_lt (k : ℕ) (hk : k < 16) : 48 ≤ hexDigit k ∧ hexDigit k ≤ 102 ∧ hexDigit k ≠ 92 := by
  unfold hexDigit; split <;> omega

theorem digitOf_hexDigit (k : ℕ) (hk : k < 16) : digitOf (hexDigit k) = some (some k) := by
  unfold hexDigit digitOf
  by_cases h : k < 10
  · rw [if_pos h, if_pos (by omega)]; congr 2; omega
  · rw [if_neg h, if_neg (by omega), if_pos (by omega)]; congr 2; omega

theorem hexDigits_length (n x : ℕ) : (hexDigits n x).length = n := by
  induction n generalizing x with
  | zero => rfl
  | succ n ih => simp [hexDigits, ih]

/-- range invariant of the digit loop: the accumulator never reaches `2^bits`. -/
theorem fromStrRadix_range (bits radix : ℕ) (cs : List ℕ) (acc v : ℕ) (hacc : acc < 2 ^ bits)
    (h : fromStrRadix bits radix cs acc = some v) : v < 2 ^ bits := by
  induction cs generalizing acc with
  | nil => simp only [fromStrRadix, Option.some.injEq] at h; omega
  | cons c cs ih =>
    unfold fromStrRadix at h
    split at h
    · simp at h
    · exact ih acc hacc h
    · split at h
      · simp at h
      · simp only at h
        split at h
        · next hlt => exact ih _ hlt h
        · simp at h

/-- parsing `n` hex digits of `x` continues with the accumulator shifted by `n` digits. -/
theorem fromStrRadix_hexDigits (bits n x : ℕ) (rest : List ℕ) (acc : ℕ)
    (hfit : acc * 16 ^ n + x % 16 ^ n < 2 ^ bits) :
    fromStrRadix bits 16 (hexDigits n x ++ rest) acc = fromStrRadix bits 16 rest (acc * 16 ^ n + x % 16 ^ n) := by
  induction n generalizing x rest with
  | zero => simp [hexDigits, Nat.mod_one]
  | succ n ih =>
    have hmod : x % 16 ^ (n + 1) = (x / 16) % 16 ^ n * 16 + x % 16 := by
      rw [pow_succ', Nat.mod_mul]; ring
    have hfit' : acc * 16 ^ n + (x / 16) % 16 ^ n < 2 ^ bits := by
      rw [hmod, pow_succ] at hfit
      have : (acc * 16 ^ n + (x / 16) % 16 ^ n) * 16 ≤ acc * (16 ^ n * 16) + ((x / 16) % 16 ^ n * 16 + x % 16) := by
        ring_nf; omega
      omega
    rw [hexDigits, List.append_assoc, ih (x / 16) _ hfit']
    rw [List.singleton_append, fromStrRadix, digitOf_hexDigit _ (Nat.mod_lt _ (by norm_num))]
    simp only
    have hr : ¬ (16 ≤ x % 16) := by omega
    rw [if_neg hr]
    have hval : (acc * 16 ^ n + (x / 16) % 16 ^ n) * 16 + x % 16 = acc * 16 ^ (n + 1) + x % 16 ^ (n + 1) := by
      rw [hmod, pow_succ]; ring
    rw [hval, if_pos hfit]

theorem pow16 (n : ℕ) : 16 ^ n = 2 ^ (4 * n) := by rw [pow_mul]; norm_num

theorem lt_pow_hexLen (v : ℕ) : v < 16 ^ hexLen v := by
  rw [pow16, ← bitLen_le_iff]; unfold hexLen; omega

/-- `FromStr` on the quantity. -/
theorem fromStr_hexMinimal (bits v : ℕ) (hv : v < 2 ^ bits) : fromStr bits (hexMinimal v) = some v := by
  unfold hexMinimal
  by_cases h0 : v = 0
  · subst h0
    simp only [if_true, fromStr]
    simp [fromStrRadix, digitOf, hv]
  · rw [if_neg h0]
    simp only [fromStr, true_or, if_true]
    have := fromStrRadix_hexDigits bits (hexLen v) v [] 0
      (by rw [Nat.zero_mul, Nat.zero_add, Nat.mod_eq_of_lt (lt_pow_hexLen v)]; exact hv)
    rw [List.append_nil] at this
    rw [this, Nat.zero_mul, Nat.zero_add, Nat.mod_eq_of_lt (lt_pow_hexLen v)]
    rfl

/-- `HrVisitor::visit_str` on the quantity (at `BITS = 0` only `0x0` exists and it is accepted). -/
theorem visitStr_hexMinimal (bits v : ℕ) (hv : v < 2 ^ bits) : visitStr bits (hexMinimal v) = some v := by
  unfold visitStr
  by_cases h0 : v = 0
  · subst h0; simp [hexMinimal]
  · have hne : hexMinimal v ≠ [48, 120, 48] := by
      unfold hexMinimal
      rw [if_neg h0]
      intro e
      have hl : hexLen v = 1 := by
        have := congrArg List.length e
        simpa [hexDigits_length] using this
      rw [hl] at e
      simp only [hexDigits, List.nil_append, List.cons.injEq, true_and, and_true] at e
      have hv16 : v < 16 := by have := lt_pow_hexLen v; rw [hl] at this; simpa using this
      unfold hexDigit at e
      split at e <;> omega
    have hb : bits ≠ 0 := by
      rintro rfl
      simp at hv; exact h0 hv
    rw [if_neg hne, if_neg hb]
    exact fromStr_hexMinimal bits v hv

theorem fromStr_range (bits : ℕ) (s : List ℕ) (v : ℕ) (h : fromStr bits s = some v) : v < 2 ^ bits := by
  have h0 : 0 < 2 ^ bits := by positivity
  unfold fromStr at h
  split at h
  · split at h
    · exact fromStrRadix_range _ _ _ _ _ h0 h
    · split at h
      · exact fromStrRadix_range _ _ _ _ _ h0 h
      · split at h
        · exact fromStrRadix_range _ _ _ _ _ h0 h
        · exact fromStrRadix_range _ _ _ _ _ h0 h
  · exact fromStrRadix_range _ _ _ _ _ h0 h

theorem visitStr_range (bits : ℕ) (s : List ℕ) (v : ℕ) (h : visitStr bits s = some v) : v < 2 ^ bits := by
  unfold visitStr at h
  split at h
  · simp only [Option.some.injEq] at h; subst h; positivity
  · split at h
    · simp at h
    · exact fromStr_range bits s v h

/-- C17 (serde_json): whatever text is accepted, the value is in range. -/
theorem decJson_range (bits : ℕ) (inp : List ℕ) (v : ℕ) (h : decJson bits inp = some v) : v < 2 ^ bits := by
  unfold decJson at h
  split at h
  · simp at h
  · next c cs _ =>
    split at h
    · split at h
      · simp at h
      · next content rest _ =>
        split at h
        · simp at h
        · split at h
          · simp at h
          · exact visitStr_range bits content v h
    · split at h
      · simp only at h
        split at h
        · simp at h
        · split at h
          · simp at h
          · split at h
            · simp at h
            · split at h
              · next hfit => simp only [Option.some.injEq] at h; subst h; exact hfit.2
              · simp at h
      · simp at h

/-! ## the JSON round trip -/

/-- characters that `serde_json` copies verbatim inside a string. -/
def Plain (c : ℕ) : Prop := c ≠ 34 ∧ c ≠ 92 ∧ 32 ≤ c ∧ c < 128

theorem scanStr_plain (s rest acc : List ℕ) (hs : ∀ c ∈ s, Plain c) :
    scanStr (s ++ 34 :: rest) acc = some (acc.reverse ++ s, rest) := by
  induction s generalizing acc with
  | nil => rw [List.nil_append, scanStr.eq_def]; simp
  | cons c s ih =>
    obtain ⟨h1, h2, h3, _⟩ := hs c (by simp)
    rw [List.cons_append, scanStr.eq_def]
    simp only
    rw [if_neg h1, if_neg h2, if_neg (by omega), ih _ (fun x hx => hs x (by simp [hx]))]
    simp

theorem hexDigits_plain (n x : ℕ) : ∀ c ∈ hexDigits n x, Plain c := by
  induction n generalizing x with
  | zero => intro c hc; simp [hexDigits] at hc
  | succ n ih =>
    intro c hc
    rw [hexDigits, List.mem_append] at hc
    rcases hc with hc | hc
    · exact ih _ c hc
    · simp only [List.mem_singleton] at hc
      subst hc
      obtain ⟨a, b, d⟩ := hexDigit_lt (x % 16) (Nat.mod_lt _ (by norm_num))
      exact ⟨by omega, d, by omega, by omega⟩

theorem hexMinimal_plain (v : ℕ) : ∀ c ∈ hexMinimal v, Plain c := by
  unfold hexMinimal
  intro c hc
  split at hc
  · simp only [List.mem_cons, List.not_mem_nil, or_false] at hc
    rcases hc with rfl | rfl | rfl <;> exact ⟨by omega, by omega, by omega, by omega⟩
  · simp only [List.mem_cons] at hc
    rcases hc with rfl | rfl | hc
    · exact ⟨by omega, by omega, by omega, by omega⟩
    · exact ⟨by omega, by omega, by omega, by omega⟩
    · exact hexDigits_plain _ _ c hc

/-- C16 (JSON): the text is `"` + `0x` + minimal lower-case hex (`0x0` for zero) + `"`, and
    `serde_json::from_str` of it returns the value — every width (incl. 0), every value. -/
theorem decJson_encJson (bits v : ℕ) (hv : v < 2 ^ bits) : decJson bits (encJson v) = some v := by
  unfold decJson encJson
  have hws : skipWs (34 :: (hexMinimal v ++ [34])) = 34 :: (hexMinimal v ++ [34]) := by
    simp [skipWs, isWs]
  rw [hws]
  simp only [if_true]
  have hscan := scanStr_plain (hexMinimal v) [] [] (hexMinimal_plain v)
  simp only [List.reverse_nil, List.nil_append] at hscan
  rw [hscan]
  simp only
  have hany : (hexMinimal v).any (fun b => decide (128 ≤ b)) = false := by
    rw [List.any_eq_false]
    intro c hc
    have := (hexMinimal_plain v c hc).2.2.2
    simp; omega
  rw [hany]
  simp only [Bool.false_eq_true, if_false]
  have : skipWs [] = [] := rfl
  rw [this]
  simp only [ne_eq, not_true_eq_false, if_false]
  exact visitStr_hexMinimal bits v hv

/-- the head hex digit of a non-zero quantity is not `0` (minimality). -/
theorem hexMinimal_minimal (v : ℕ) (hv : v ≠ 0) :
    ∃ d ds, hexDigits (hexLen v) v = hexDigit d :: ds ∧ 1 ≤ d ∧ d < 16 := by
  have hb : bitLen v ≠ 0 := fun e => hv ((bitLen_eq_zero_iff v).mp e)
  obtain ⟨n, hn⟩ : ∃ n, hexLen v = n + 1 := ⟨hexLen v - 1, by unfold hexLen; omega⟩
  have hhi := lt_pow_hexLen v
  have hlo : 16 ^ n ≤ v := by
    by_contra hc
    push Not at hc
    rw [pow16, ← bitLen_le_iff] at hc
    unfold hexLen at hn; omega
  rw [hn] at hhi ⊢
  -- the first digit produced is `v / 16^n % 16`
  have key : ∀ (m x : ℕ), hexDigits (m + 1) x = hexDigit (x / 16 ^ m % 16) :: hexDigits m x := by
    intro m
    induction m with
    | zero => intro x; simp [hexDigits]
    | succ m ih =>
      intro x
      rw [hexDigits, ih (x / 16), hexDigits, Nat.div_div_eq_div_mul, ← pow_succ']
      simp
  refine ⟨v / 16 ^ n % 16, hexDigits n v, key n v, ?_, Nat.mod_lt _ (by norm_num)⟩
  have h1 : 1 ≤ v / 16 ^ n := (Nat.one_le_div_iff (by positivity)).mpr hlo
  have h2 : v / 16 ^ n < 16 := by
    rw [Nat.div_lt_iff_lt_mul (by positivity)]
    rw [pow_succ] at hhi; linarith
  rw [Nat.mod_eq_of_lt h2]; exact h1

end Ruint.Codec.Serde
