import Ruint.Lemmas.Codec.Postgres
/-! postgres NUMERIC: `from_sql (to_sql v) = v` — base-10000 digits, trailing-zero trimming, weight. -/
namespace Ruint.Codec.Pg
open Ruint Ruint.Codec

/-- Horner value of big-endian base-10000 digits on top of `x`. -/
def horner (x : ℕ) (ds : List ℕ) : ℕ := ds.foldl (fun a d => a * 10000 + d) x

theorem horner_nil (x : ℕ) : horner x [] = x := rfl
theorem horner_cons (x d : ℕ) (ds : List ℕ) : horner x (d :: ds) = horner (x * 10000 + d) ds := rfl
theorem horner_append (x : ℕ) (l m : List ℕ) : horner x (l ++ m) = horner (horner x l) m := by
  unfold horner; rw [List.foldl_append]
theorem horner_zeros (x k : ℕ) : horner x (List.replicate k 0) = x * 10000 ^ k := by
  induction k generalizing x with
  | zero => simp [horner]
  | succ k ih => rw [List.replicate_succ, horner_cons, ih, pow_succ]; ring
theorem horner_mono (x : ℕ) (ds : List ℕ) : x ≤ horner x ds := by
  induction ds generalizing x with
  | nil => exact le_rfl
  | cons d ds ih => rw [horner_cons]; exact le_trans (by omega) (ih _)

/-- `to_base_be(10000)`: the digits denote `v` and are `< 10000`. -/
theorem digits10k_spec (fuel v : ℕ) (acc : List ℕ) (hf : v < 10000 ^ fuel) (hacc : ∀ d ∈ acc, d < 10000) :
    horner 0 (digits10k fuel v acc) = horner v acc ∧ ∀ d ∈ digits10k fuel v acc, d < 10000 := by
  induction fuel generalizing v acc with
  | zero =>
    have : v = 0 := by simpa using hf
    subst this
    exact ⟨rfl, hacc⟩
  | succ f ih =>
    unfold digits10k
    by_cases h0 : v = 0
    · subst h0; rw [if_pos rfl]; exact ⟨rfl, hacc⟩
    · rw [if_neg h0]
      have hlt : v / 10000 < 10000 ^ f := by
        rw [Nat.div_lt_iff_lt_mul (by norm_num)]; rw [pow_succ] at hf; exact hf
      obtain ⟨i1, i2⟩ := ih (v / 10000) (v % 10000 :: acc) hlt (by
        intro d hd
        rcases List.mem_cons.mp hd with rfl | hd
        · exact Nat.mod_lt _ (by norm_num)
        · exact hacc d hd)
      refine ⟨?_, i2⟩
      rw [i1, horner_cons, Nat.div_add_mod' v 10000]

theorem fuel_ok (v : ℕ) : v < 10000 ^ (bitLen v + 1) := by
  have h1 := lt_two_pow_bitLen v
  have h2 : (2:ℕ) ^ bitLen v ≤ 10000 ^ bitLen v := Nat.pow_le_pow_left (by norm_num) _
  have h3 : (10000:ℕ) ^ bitLen v ≤ 10000 ^ (bitLen v + 1) := Nat.pow_le_pow_right (by norm_num) (by omega)
  omega

/-- trimming trailing zeros: the list is the trimmed list followed by zeros. -/
theorem trimEndZeros_spec (l : List ℕ) : ∃ k, l = trimEndZeros l ++ List.replicate k 0 := by
  unfold trimEndZeros
  have h := List.takeWhile_append_dropWhile (p := (· == 0)) (l := l.reverse)
  have hall : (l.reverse.takeWhile (· == 0)).all (· == 0) = true := List.all_takeWhile
  obtain ⟨tw, htw⟩ : ∃ tw, tw = l.reverse.takeWhile (· == 0) := ⟨_, rfl⟩
  obtain ⟨dw, hdw⟩ : ∃ dw, dw = l.reverse.dropWhile (· == 0) := ⟨_, rfl⟩
  rw [← htw, ← hdw] at h
  rw [← htw] at hall
  rw [← hdw]
  have hz : ∀ x ∈ tw, x = 0 := by
    intro x hx
    have := List.all_eq_true.mp hall x hx
    simpa using this
  have hrep : tw = List.replicate tw.length 0 := List.eq_replicate_iff.mpr ⟨rfl, hz⟩
  refine ⟨tw.length, ?_⟩
  have h2 := congrArg List.reverse h
  rw [List.reverse_reverse, List.reverse_append] at h2
  rw [← h2]
  congr 1
  conv_lhs => rw [hrep]
  rw [List.reverse_replicate]

theorem pad_ok (bits z a : ℕ) (h : a * 10000 ^ z < 2 ^ bits) :
    numericDigits.pad bits false z a = .ok (a * 10000 ^ z) := by
  induction z generalizing a with
  | zero => unfold numericDigits.pad; simp
  | succ z ih =>
    unfold numericDigits.pad
    by_cases h0 : a = 0
    · subst h0; rw [if_pos rfl]; unfold numericDigits.pad; simp
    · rw [if_neg h0]
      simp only
      have hle : a * 10000 ≤ a * 10000 ^ (z + 1) := by
        rw [pow_succ]
        have : 1 ≤ 10000 ^ z := Nat.one_le_pow _ _ (by norm_num)
        nlinarith
      rw [if_pos (by omega), ih (a * 10000) (by rw [pow_succ] at h; nlinarith)]
      congr 1
      rw [pow_succ]; ring

theorem toBE_two (d : ℕ) : toBE 2 d = [d / 256 % 256, d % 256] := by simp [toBE, toLE]

theorem flat_length (ds : List ℕ) : ((ds.map (toBE 2)).flatten).length = 2 * ds.length := by
  induction ds with
  | nil => rfl
  | cons d ds ih => simp only [List.map_cons, List.flatten_cons, List.length_append, toBE_length, ih, List.length_cons]; omega

/-- the digit loop on encoded in-range digits is Horner's rule followed by the zero padding. -/
theorem numericDigits_encoded (bits z : ℕ) (ds : List ℕ) (acc : ℕ) (hd : ∀ d ∈ ds, d < 10000)
    (hfit : horner acc ds < 2 ^ bits) :
    numericDigits bits ((ds.map (toBE 2)).flatten) acc false z = numericDigits.pad bits false z (horner acc ds) := by
  induction ds generalizing acc with
  | nil => simp only [List.map_nil, List.flatten_nil, horner_nil]; unfold numericDigits; rfl
  | cons d ds ih =>
    have hd1 : d < 10000 := hd d (by simp)
    rw [List.map_cons, List.flatten_cons, toBE_two, horner_cons]
    simp only [List.cons_append, List.nil_append]
    unfold numericDigits
    simp only [Bool.false_eq_true, if_false]
    have hs : signedBE [d / 256 % 256, d % 256] = (d : ℤ) := by
      rw [← toBE_two]; exact signedBE_toBE 2 d (by omega) (by norm_num; omega)
    rw [hs]
    have hstep : acc * 10000 + d < 2 ^ bits := by
      rw [horner_cons] at hfit
      exact lt_of_le_of_lt (horner_mono _ _) hfit
    rw [if_neg (by omega)]
    simp only [Int.toNat_natCast]
    rw [if_pos hstep]
    exact ih (acc * 10000 + d) (fun x hx => hd x (by simp [hx])) (by rw [horner_cons] at hfit; exact hfit)

theorem split8 (a b f : List ℕ) (ha : a.length = 2) (hb : b.length = 2) :
    let raw := a ++ b ++ [0, 0, 0, 0] ++ f
    ¬ raw.length < 8 ∧ raw.take 2 = a ∧ (raw.drop 2).take 2 = b ∧ (raw.drop 4).take 2 = [0, 0]
      ∧ (raw.drop 6).take 2 = [0, 0] ∧ raw.drop 8 = f := by
  match a, ha, b, hb with
  | [a0, a1], _, [b0, b1], _ => simp

theorem signedBE_zero : signedBE [0, 0] = 0 := by decide

/-- C16 (postgres NUMERIC): `from_sql (to_sql v) = v`. -/
theorem numeric_roundtrip (bits v : ℕ) (e : List ℕ) (hv : v < 2 ^ bits) (h : toSql .numeric bits v = some e) :
    fromSql .numeric bits e = .ok v := by
  unfold toSql at h
  simp only at h
  obtain ⟨ds, hds⟩ : ∃ ds, ds = digits10k (bitLen v + 1) v [] := ⟨_, rfl⟩
  rw [← hds] at h
  obtain ⟨hval, hdig⟩ := digits10k_spec (bitLen v + 1) v [] (fuel_ok v) (by simp)
  rw [← hds, horner_nil] at hval
  rw [← hds] at hdig
  obtain ⟨k, hk⟩ := trimEndZeros_spec ds
  obtain ⟨ds', hds'⟩ : ∃ ds', ds' = trimEndZeros ds := ⟨_, rfl⟩
  rw [← hds'] at h hk
  split at h
  · simp at h
  · next hlen15 =>
    simp only [Option.some.injEq] at h
    subst h
    have hlen : ds.length = ds'.length + k := by rw [hk]; simp
    have hl1 : ds'.length < 2 ^ 15 := by omega
    obtain ⟨s1, s2, s3, s4, s5, s6⟩ := split8 (toBE 2 ds'.length) (toBE 2 (ds.length - 1)) ((ds'.map (toBE 2)).flatten)
      (by simp) (by simp)
    unfold fromSql
    simp only at s1 s2 s3 s4 s5 s6 ⊢
    rw [if_neg s1, s2, s3, s4, s5, s6, signedBE_zero,
      signedBE_toBE 2 ds'.length (by omega) (by norm_num at hl1 ⊢; omega),
      signedBE_toBE 2 (ds.length - 1) (by omega) (by norm_num at hlen15 ⊢; omega), flat_length]
    have hcond : ¬ (((ds'.length : ℕ) : ℤ) < 0 ∨ (((ds.length - 1 : ℕ) : ℤ)) < 0 ∨ (0:ℤ) ≠ 0 ∨ (0:ℤ) ≠ 0
        ∨ ((ds'.length : ℕ) : ℤ) > ((ds.length - 1 : ℕ) : ℤ) + 1
        ∨ 2 * ds'.length ≠ (((ds'.length : ℕ) : ℤ)).toNat * 2) := by
      simp only [Int.toNat_natCast]
      omega
    rw [if_neg hcond]
    have hfit' : horner 0 ds' < 2 ^ bits := by
      have : horner 0 ds' ≤ horner (horner 0 ds') (List.replicate k 0) := horner_mono _ _
      rw [← horner_append, ← hk, hval] at this
      omega
    rw [numericDigits_encoded bits _ ds' 0 (fun d hd => hdig d (by rw [hk]; simp [hd])) hfit']
    have hvk : horner 0 ds' * 10000 ^ k = v := by
      rw [← horner_zeros, ← horner_append, ← hk, hval]
    by_cases hemp : ds = []
    · -- v = 0: no digits, weight 0, one padding zero
      subst hemp
      have hv0 : v = 0 := by rw [← hval]; rfl
      have : ds' = [] := by rw [hds']; rfl
      subst this
      subst hv0
      simp only [List.length_nil, horner_nil]
      unfold numericDigits.pad
      simp only [if_true]
      unfold numericDigits.pad
      simp
    · have hpos : 1 ≤ ds.length := by
        rcases ds with _ | ⟨x, xs⟩
        · exact absurd rfl hemp
        · simp
      have hz : ((((ds.length - 1 : ℕ) : ℤ)) + 1 - ((ds'.length : ℕ) : ℤ)).toNat = k := by omega
      rw [hz, pad_ok bits k _ (by rw [hvk]; exact hv), hvk]

end Ruint.Codec.Pg
