import Ruint.Gen.CodecTableFacts
import Ruint.Model.Codec.Scale
import Ruint.Model.Codec.Rlp
import Ruint.Lemmas.Codec.Bytes
/-!
# C16 / C17: the GENERATED codec tables are the models

`Gen/CodecTable.lean` is regenerated on every run from `src/support/scale.rs` and `src/support/alloy_rlp.rs`: the
bit-length ranges of `CompactRefUint::size_hint` / `encode_to` with their sizes, integer widths, shifts and mode tags,
the big-integer prefix constants, `COMPACT_BITS_LIMIT`, the range tests of the compact decoder, and the thresholds of
alloy-rlp `length()` / `encode()` with `MAX_BITS`.

Here small table interpreters are defined (`findMode`, `hintT`, `encT`, `decT`, `rlpLengthT`, `rlpEncT`) and,
instantiated with the generated constants, proved to be the hand-written models `Scale.sizeHintCompact`,
`Scale.encCompact`, `Scale.decCompact`, `Rlp.lengthImpl`, `Rlp.encImpl` for EVERY input: a changed mode boundary,
size, integer width, shift, tag or prefix constant in the Rust source breaks these proofs.
-/
namespace Ruint.Codec.TableTie
open Ruint Ruint.Codec Ruint.Gen.CodecTable

/-! ## interpreters -/

/-- first row whose bit-length range contains `b` (a Rust `match` over `lo..=hi` arms). -/
def findMode {α : Type} (b : ℕ) : List (ℕ × ℕ × α) → Option α
  | [] => none
  | (lo, hi, x) :: rs => if lo ≤ b ∧ b ≤ hi then some x else findMode b rs

/-- `size_hint` by the table; default arm `byte_len() + 1`. -/
def hintT (modes : List (ℕ × ℕ × ℕ)) (v : ℕ) : ℕ :=
  match findMode (bitLen v) modes with
  | some n => n
  | none => byteLen v + 1

/-- `encode_to` by the tables. Small modes: `((v as uN) << sh) | tag` (as `uN`; `tag < 2^sh`, so the OR is an
    addition) written little-endian in `N/8` bytes. Big-integer mode: the prefix byte
    `prefix + ((byte_len - off) << sh)` followed by the trimmed little-endian bytes. -/
def encT (modes : List (ℕ × ℕ × ℕ × ℕ × ℕ)) (big : ℕ × ℕ × ℕ × ℕ) (v : ℕ) : List ℕ :=
  match findMode (bitLen v) modes with
  | some (w, sh, tag) => toLE (w / 8) ((v % 2 ^ w * 2 ^ sh) % 2 ^ w + tag)
  | none => (big.2.1 + (byteLen v - big.2.2.1) * 2 ^ big.2.2.2) :: leTrim v

/-- `CompactUint::decode` with the range tests of modes 1, 2 and of the 4-byte big-integer case taken from the table
    `d = (lo1, hi1, lo2, k2, k4)`: mode 1 accepts `lo1..=hi1`, mode 2 accepts `lo2..=(u32::MAX >> k2)`, the 4-byte
    big-integer case accepts `x > u32::MAX >> k4`. Everything else is literally `Scale.decCompact`. -/
def decT (d : ℕ × ℕ × ℕ × ℕ × ℕ) (bits : ℕ) (bs : List ℕ) : DecResult :=
  let fit (x n : Nat) : DecResult := if x < 2 ^ bits then .ok (x, n) else .error .opaque
  match bs with
  | [] => .error .opaque
  | p :: rest =>
    if p % 4 = 0 then fit (p / 4) 1
    else if p % 4 = 1 then
      match rest with
      | [] => .error .opaque
      | b1 :: _ =>
        let x := (p + 256 * b1) / 4
        if d.1 ≤ x ∧ x ≤ d.2.1 then fit x 2 else .error .opaque
    else if p % 4 = 2 then
      if rest.length < 3 then .error .opaque
      else
        let x := leVal (p :: rest.take 3) / 4
        if d.2.2.1 ≤ x ∧ x ≤ (2 ^ 32 - 1) / 2 ^ d.2.2.2.1 then fit x 4 else .error .opaque
    else
      let n := p / 4 + 4
      if rest.length < n then .error .opaque
      else
        let x := leVal (rest.take n)
        if n = 4 then (if (2 ^ 32 - 1) / 2 ^ d.2.2.2.2 < x then fit x 5 else .error .opaque)
        else if n = 8 then (if 2 ^ 56 - 1 < x then fit x 9 else .error .opaque)
        else if n = 16 then (if 2 ^ 120 - 1 < x then fit x 17 else .error .opaque)
        else
          match tryFromLE bits (rest.take n) with
          | none => .error .opaque
          | some x => if (2 ^ (8 * n) - 1) / 2 ^ ((69 - n) * 8) < x then .ok (x, 1 + n) else .error .opaque

/-- alloy-rlp `length()` by the table `(thr, add, div)`. -/
def rlpLengthT (t : ℕ × ℕ × ℕ) (v : ℕ) : ℕ :=
  if bitLen v ≤ t.1 then 1
  else
    let bytes := (bitLen v + t.2.1) / t.2.2
    bytes + Rlp.lengthOfLength bytes

/-- the comparison operator code of the generator: 0 `>`, 1 `>=`, 2 `<`, 3 `<=`. -/
def cmpT (c a b : ℕ) : Bool :=
  if c = 0 then decide (a > b) else if c = 1 then decide (a ≥ b) else if c = 2 then decide (a < b) else decide (a ≤ b)

/-- the `match self.bit_len()` of alloy-rlp `encode()` (after the `LIMBS` fast paths) by the tables: `0` is the
    empty-string code, the arm `single.1..=single.2` is the byte itself, otherwise the trimmed big-endian bytes in
    long form (`<[u8]>::encode`) when `bits <cmp> MAX_BITS`, else in short form. -/
def rlpEncT (single : ℕ × ℕ) (maxBits cmp : ℕ) (bits v : ℕ) : List ℕ :=
  let b := bitLen v
  if b = 0 then [0x80]
  else if single.1 ≤ b ∧ b ≤ single.2 then [v % 256]
  else
    let trimmed := (toBE (nbytes bits) v).drop (nbytes bits - (b + 7) / 8)
    if cmpT cmp b maxBits = true then Rlp.encStr trimmed else (0x80 + trimmed.length) :: trimmed

/-! ## SCALE compact -/

/-- C16: `CompactRefUint::size_hint` as tabulated from the source = the model, for every value. -/
theorem scale_hint_eq (v : ℕ) : hintT Ruint.Gen.CodecTable.scaleHintModes v = Ruint.Codec.Scale.sizeHintCompact v := by
  obtain ⟨h1, -⟩ := Ruint.Gen.CodecTable.tables_expected
  rw [h1]
  unfold hintT Scale.sizeHintCompact
  simp only [findMode]
  by_cases h6 : bitLen v ≤ 6
  · rw [if_pos ⟨Nat.zero_le _, h6⟩, if_pos h6]
  · rw [if_neg (fun h => h6 h.2), if_neg h6]
    by_cases h14 : bitLen v ≤ 14
    · rw [if_pos ⟨by omega, h14⟩, if_pos h14]
    · rw [if_neg (fun h => h14 h.2), if_neg h14]
      by_cases h30 : bitLen v ≤ 30
      · rw [if_pos ⟨by omega, h30⟩, if_pos h30]
      · rw [if_neg (fun h => h30 h.2), if_neg h30]

/-- C16: `CompactRefUint::encode_to` as tabulated from the source (ranges, `uN` widths, shifts, mode tags, big-integer
    prefix constants) = the model, for every value. -/
theorem scale_enc_eq (v : ℕ) :
    encT Ruint.Gen.CodecTable.scaleEncModes Ruint.Gen.CodecTable.scaleBig v = Ruint.Codec.Scale.encCompact v := by
  obtain ⟨-, h2, h3, -⟩ := Ruint.Gen.CodecTable.tables_expected
  rw [h2, h3]
  unfold encT Scale.encCompact
  simp only [findMode]
  by_cases h6 : bitLen v ≤ 6
  · have hv : v < 64 := (bitLen_le_iff v 6).mp h6
    rw [if_pos ⟨Nat.zero_le _, h6⟩, if_pos h6]
    show toLE 1 _ = _
    simp only [toLE]
    have e : (v % 2 ^ 8 * 2 ^ 2 % 2 ^ 8 + 0) % 256 = v * 4 := by omega
    rw [e]
  · rw [if_neg (fun h => h6 h.2), if_neg h6]
    by_cases h14 : bitLen v ≤ 14
    · have hv : v < 16384 := (bitLen_le_iff v 14).mp h14
      rw [if_pos ⟨by omega, h14⟩, if_pos h14]
      show toLE 2 _ = _
      have e : v % 2 ^ 16 * 2 ^ 2 % 2 ^ 16 + 1 = v * 4 + 1 := by omega
      rw [e]
    · rw [if_neg (fun h => h14 h.2), if_neg h14]
      by_cases h30 : bitLen v ≤ 30
      · have hv : v < 1073741824 := (bitLen_le_iff v 30).mp h30
        rw [if_pos ⟨by omega, h30⟩, if_pos h30]
        show toLE 4 _ = _
        have e : v % 2 ^ 32 * 2 ^ 2 % 2 ^ 32 + 2 = v * 4 + 2 := by omega
        rw [e]
      · rw [if_neg (fun h => h30 h.2), if_neg h30]
        rfl

/-- the assertion `bytes_needed >= scaleBig.1` of the big-integer arm never fires: a value that reaches the default
    arm (no row of the generated table matches) needs at least that many bytes. -/
theorem scale_big_assert (v : ℕ) (h : findMode (bitLen v) Ruint.Gen.CodecTable.scaleEncModes = none) :
    Ruint.Gen.CodecTable.scaleBig.1 ≤ byteLen v := by
  obtain ⟨-, h2, h3, -⟩ := Ruint.Gen.CodecTable.tables_expected
  rw [h2] at h
  rw [h3]
  simp only [findMode] at h
  show 4 ≤ byteLen v
  unfold byteLen
  by_cases h6 : bitLen v ≤ 6
  · rw [if_pos ⟨Nat.zero_le _, h6⟩] at h; cases h
  · rw [if_neg (fun h => h6 h.2)] at h
    by_cases h14 : bitLen v ≤ 14
    · rw [if_pos ⟨by omega, h14⟩] at h; cases h
    · rw [if_neg (fun h => h14 h.2)] at h
      by_cases h30 : bitLen v ≤ 30
      · rw [if_pos ⟨by omega, h30⟩] at h; cases h
      · omega

/-- C16: `COMPACT_BITS_LIMIT` of the source = the model's. -/
theorem scale_limit_eq : Ruint.Gen.CodecTable.scaleBitsLimit = Ruint.Codec.Scale.compactBitsLimit := by
  obtain ⟨-, -, -, h4, -⟩ := Ruint.Gen.CodecTable.tables_expected
  rw [h4]; rfl

/-- C17: `CompactUint::decode` with the range tests of modes 1, 2 and of the 4-byte big-integer case as extracted
    from the source = the model, for every width and input. -/
theorem scale_dec_eq (bits : ℕ) (bs : List ℕ) :
    decT Ruint.Gen.CodecTable.scaleDec bits bs = Ruint.Codec.Scale.decCompact bits bs := by
  obtain ⟨-, -, -, -, h5, -⟩ := Ruint.Gen.CodecTable.tables_expected
  rw [h5]
  have e : (2 ^ 32 - 1) / 2 ^ 2 = 2 ^ 30 - 1 := by norm_num
  unfold decT Scale.decCompact
  simp only [e]
  rfl

/-- the decoder constants as numbers: mode 1 accepts `2^6 - 1 ..= 2^14 - 1`, mode 2 accepts
    `2^14 - 1 ..= 2^30 - 1` (`u32::MAX >> 2`), the 4-byte big-integer case accepts `x > 2^30 - 1`. -/
theorem scale_dec_consts :
    Ruint.Gen.CodecTable.scaleDec.1 = 2 ^ 6 - 1 ∧ Ruint.Gen.CodecTable.scaleDec.2.1 = 2 ^ 14 - 1
    ∧ Ruint.Gen.CodecTable.scaleDec.2.2.1 = 2 ^ 14 - 1
    ∧ (2 ^ 32 - 1) / 2 ^ Ruint.Gen.CodecTable.scaleDec.2.2.2.1 = 2 ^ 30 - 1
    ∧ (2 ^ 32 - 1) / 2 ^ Ruint.Gen.CodecTable.scaleDec.2.2.2.2 = 2 ^ 30 - 1 := by
  obtain ⟨-, -, -, -, h5, -⟩ := Ruint.Gen.CodecTable.tables_expected
  rw [h5]
  norm_num

/-! ## alloy-rlp -/

/-- C16: alloy-rlp `length()` as tabulated from the source = the model, for every value. -/
theorem rlp_length_eq (v : ℕ) : (if bitLen v ≤ Ruint.Gen.CodecTable.rlpLen.1 then 1 else
      let bytes := (bitLen v + Ruint.Gen.CodecTable.rlpLen.2.1) / Ruint.Gen.CodecTable.rlpLen.2.2; bytes + Ruint.Codec.Rlp.lengthOfLength bytes)
    = Ruint.Codec.Rlp.lengthImpl v := by
  obtain ⟨-, -, -, -, -, h6, -⟩ := Ruint.Gen.CodecTable.tables_expected
  rw [h6]
  rfl

/-- the same through the interpreter `rlpLengthT`. -/
theorem rlp_lengthT_eq (v : ℕ) : rlpLengthT Ruint.Gen.CodecTable.rlpLen v = Ruint.Codec.Rlp.lengthImpl v := by
  unfold rlpLengthT
  exact rlp_length_eq v

/-- `MAX_BITS` is 55 bytes. -/
theorem rlp_maxBits_eq : Ruint.Gen.CodecTable.rlpMaxBits = 55 * 8 := by
  obtain ⟨-, -, -, -, -, -, -, h8, -⟩ := Ruint.Gen.CodecTable.tables_expected
  rw [h8]

/-- the source's test `bits <cmp> MAX_BITS` selects the long form exactly when the payload has more than 55 bytes
    (the `n < 56` of `Rlp.strHeader` / `Rlp.lengthOfLength`). -/
theorem rlp_long_iff (v : ℕ) :
    cmpT Ruint.Gen.CodecTable.rlpLongCmp (bitLen v) Ruint.Gen.CodecTable.rlpMaxBits = true ↔ ¬ byteLen v < 56 := by
  obtain ⟨-, -, -, -, -, -, -, h8, h9⟩ := Ruint.Gen.CodecTable.tables_expected
  rw [h8, h9]
  unfold cmpT byteLen
  simp only [if_true, decide_eq_true_eq]
  omega

/-- C16: alloy-rlp `encode()` — `LIMBS` fast paths of the model, then the `bit_len` match with the single-byte arm,
    `MAX_BITS` and the comparison extracted from the source — is the model, for every width and value. -/
theorem rlp_enc_eq' (bits v : ℕ) :
    Ruint.Codec.Rlp.encImpl bits v =
      if nlimbs bits = 0 then [0x80]
      else if nlimbs bits ≤ 2 then Ruint.Codec.Rlp.encPrim v
      else rlpEncT Ruint.Gen.CodecTable.rlpSingle Ruint.Gen.CodecTable.rlpMaxBits Ruint.Gen.CodecTable.rlpLongCmp bits v := by
  obtain ⟨-, -, -, -, -, -, h7, h8, h9⟩ := Ruint.Gen.CodecTable.tables_expected
  rw [h7, h8, h9]
  unfold Rlp.encImpl rlpEncT cmpT
  simp only [if_true, decide_eq_true_eq]
  by_cases h0 : nlimbs bits = 0
  · rw [if_pos h0, if_pos h0]
  · rw [if_neg h0, if_neg h0]
    by_cases h2 : nlimbs bits ≤ 2
    · rw [if_pos h2, if_pos h2]
    · rw [if_neg h2, if_neg h2]
      by_cases hb : bitLen v = 0
      · rw [if_pos hb, if_pos hb]
      · rw [if_neg hb, if_neg hb]
        by_cases h7 : bitLen v ≤ 7
        · rw [if_pos h7, if_pos ⟨by omega, h7⟩]
        · rw [if_neg h7, if_neg (fun (h : 1 ≤ bitLen v ∧ bitLen v ≤ 7) => h7 h.2)]

/-- the `bit_len` match of alloy-rlp `encode()` by the generated tables = the model on the general path
    (`LIMBS > 2`). -/
theorem rlp_enc_eq (bits v : ℕ) (h : 2 < nlimbs bits) :
    rlpEncT Ruint.Gen.CodecTable.rlpSingle Ruint.Gen.CodecTable.rlpMaxBits Ruint.Gen.CodecTable.rlpLongCmp bits v
      = Ruint.Codec.Rlp.encImpl bits v := by
  rw [rlp_enc_eq', if_neg (by omega), if_neg (by omega)]

end Ruint.Codec.TableTie
