import Ruint.Model.Codec.Postgres
import Ruint.Lemmas.Codec.Serde
/-! postgres: range of everything `from_sql` accepts; `from_sql (to_sql v) = v` for the non-float column types. -/
namespace Ruint.Codec.Pg
open Ruint Ruint.Codec Ruint.Codec.Serde

theorem fitOther_range (bits : ℕ) (x : ℤ) (v : ℕ) (h : fitOther bits x = .ok v) : v < 2 ^ bits := by
  unfold fitOther at h
  split at h
  · next hc => simp only [Except.ok.injEq] at h; subst h; exact hc.2
  · simp at h

theorem ofOpt_ok (e : Err) (o : Option ℕ) (v : ℕ) (h : ofOpt e o = .ok v) : o = some v := by
  unfold ofOpt at h
  split at h
  · simp only [Except.ok.injEq] at h; subst h; rfl
  · simp at h

theorem pad_range (bits : ℕ) (bad : Bool) (z a v : ℕ) (ha : a < 2 ^ bits)
    (h : numericDigits.pad bits bad z a = .ok v) : v < 2 ^ bits := by
  induction z generalizing a with
  | zero =>
    unfold numericDigits.pad at h
    split at h
    · simp at h
    · simp only [Except.ok.injEq] at h; subst h; exact ha
  | succ z ih =>
    unfold numericDigits.pad at h
    split at h
    · next h0 =>
      unfold numericDigits.pad at h
      split at h
      · simp at h
      · simp only [Except.ok.injEq] at h; subst h; positivity
    · simp only at h
      split at h
      · next hlt => exact ih _ hlt h
      · simp at h

theorem numericDigits_range_aux (bits zeros v : ℕ) (l : List ℕ) : ∀ (acc : ℕ) (bad : Bool), acc < 2 ^ bits →
      (numericDigits bits l acc bad zeros = .ok v → v < 2 ^ bits)
      ∧ ∀ x, (numericDigits bits (x :: l) acc bad zeros = .ok v → v < 2 ^ bits) := by
  induction l with
  | nil =>
    intro acc bad hacc
    refine ⟨?_, ?_⟩
    · intro h; unfold numericDigits at h; exact pad_range bits bad zeros acc v hacc h
    · intro x h
      unfold numericDigits at h
      unfold numericDigits at h
      exact pad_range bits bad zeros acc v hacc h
  | cons y l ih =>
    intro acc bad hacc
    refine ⟨(ih acc bad hacc).2 y, ?_⟩
    intro x h
    unfold numericDigits at h
    split at h
    · exact (ih acc bad hacc).1 h
    · simp only at h
      split at h
      · exact (ih acc true hacc).1 h
      · split at h
        · next hlt => exact (ih _ false hlt).1 h
        · simp at h

theorem numericDigits_range (bits : ℕ) (l : List ℕ) (acc : ℕ) (bad : Bool) (zeros v : ℕ) (hacc : acc < 2 ^ bits)
    (h : numericDigits bits l acc bad zeros = .ok v) : v < 2 ^ bits :=
  (numericDigits_range_aux bits zeros v l acc bad hacc).1 h

/-- C17 (postgres): whatever `from_sql` accepts, for every column type, is in range. -/
theorem fromSql_range (ty : Ty) (bits : ℕ) (raw : List ℕ) (v : ℕ) (h : fromSql ty bits raw = .ok v) : v < 2 ^ bits := by
  have h0 : 0 < 2 ^ bits := by positivity
  cases ty <;> unfold fromSql at h <;> simp only at h
  case bool =>
    split at h
    · simp only [Except.ok.injEq] at h; subst h; exact h0
    · split at h
      · split at h
        · simp at h
        · next hb => simp only [Except.ok.injEq] at h; subst h; exact Nat.one_lt_two_pow hb
      · simp at h
  case int2 => split at h <;> [simp at h; exact fitOther_range _ _ _ h]
  case int4 => split at h <;> [simp at h; exact fitOther_range _ _ _ h]
  case oid => split at h <;> [simp at h; exact fitOther_range _ _ _ h]
  case int8 => split at h <;> [simp at h; exact fitOther_range _ _ _ h]
  case money => split at h <;> [simp at h; exact fitOther_range _ _ _ h]
  case bytea => exact ((tryFromBE_eq_some _ _ _).mp (ofOpt_ok _ _ _ h)).2.2
  case bit =>
    split at h
    · simp at h
    · split at h
      · simp at h
      · split at h
        · simp at h
        · exact ((tryFromBE_eq_some _ _ _).mp (ofOpt_ok _ _ _ h)).2.2
  case varbit =>
    split at h
    · simp at h
    · split at h
      · simp at h
      · split at h
        · simp at h
        · exact ((tryFromBE_eq_some _ _ _).mp (ofOpt_ok _ _ _ h)).2.2
  case char => split at h <;> [simp at h; exact fromStr_range _ _ _ (ofOpt_ok _ _ _ h)]
  case text => split at h <;> [simp at h; exact fromStr_range _ _ _ (ofOpt_ok _ _ _ h)]
  case varchar => split at h <;> [simp at h; exact fromStr_range _ _ _ (ofOpt_ok _ _ _ h)]
  case json =>
    split at h
    · simp at h
    · split at h <;> [simp at h; exact fromStr_range _ _ _ (ofOpt_ok _ _ _ h)]
  case jsonb =>
    split at h
    · simp at h
    · split at h <;> [simp at h; exact fromStr_range _ _ _ (ofOpt_ok _ _ _ h)]
  case numeric =>
    split at h
    · simp at h
    · split at h
      · simp at h
      · exact numericDigits_range _ _ _ _ _ _ h0 h
  case unsupported => simp at h

/-! ## `from_sql (to_sql v) = v` -/

theorem signedBE_toBE (n v : ℕ) (hn : 1 ≤ n) (hv : v < 2 ^ (8 * n - 1)) : signedBE (toBE n v) = (v : ℤ) := by
  unfold signedBE
  have hfit : v < 256 ^ n := by
    rw [pow256]; exact lt_of_lt_of_le hv (Nat.pow_le_pow_right (by norm_num) (by omega))
  simp only [toBE_length, beVal_toBE_of_lt n v hfit]
  rw [if_neg (by omega)]

theorem fitOther_cast (bits v : ℕ) (hv : v < 2 ^ bits) : fitOther bits (v : ℤ) = .ok v := by
  unfold fitOther
  rw [if_pos ⟨by positivity, by simpa using hv⟩]
  simp

theorem roundtrip_int (n bits v : ℕ) (hn : 1 ≤ n) (hv : v < 2 ^ bits) (hfit : v < 2 ^ (8 * n - 1)) :
    (if (toBE n v).length ≠ n then (.error .pgOther : R) else fitOther bits (signedBE (toBE n v))) = .ok v := by
  rw [if_neg (by simp), signedBE_toBE n v hn hfit, fitOther_cast bits v hv]

theorem hexMinimal_ascii (v : ℕ) : (hexMinimal v).any (fun b => decide (128 ≤ b)) = false := by
  rw [List.any_eq_false]
  intro c hc
  have := (hexMinimal_plain v c hc).2.2.2
  simp; omega

theorem hexMinimal_ne_nil (v : ℕ) : hexMinimal v ≠ [] := by
  unfold hexMinimal; split <;> simp

theorem quoted_inner (m : List ℕ) :
    (if 2 ≤ (34 :: (m ++ [34])).length ∧ (34 :: (m ++ [34])).head? = some 34 ∧ (34 :: (m ++ [34])).getLast? = some 34
      then ((34 :: (m ++ [34])).drop 1).dropLast else 34 :: (m ++ [34])) = m := by
  have h1 : 2 ≤ (34 :: (m ++ [34])).length := by simp
  have h3 : (34 :: (m ++ [34])).getLast? = some 34 := by
    rw [show (34 :: (m ++ [34])) = (34 :: m) ++ [34] by simp, List.getLast?_append]; simp
  rw [if_pos ⟨h1, rfl, h3⟩]
  simp

theorem quoted_ascii (m : List ℕ) (hm : m.any (fun b => decide (128 ≤ b)) = false) :
    (34 :: (m ++ [34])).any (fun b => decide (128 ≤ b)) = false := by
  simp only [List.any_cons, List.any_append, hm, List.any_nil]
  decide

theorem bit_roundtrip (bits v : ℕ) (hv : v < 2 ^ bits) (hb0 : bits ≠ 0) (hb31 : ¬ 2 ^ 31 ≤ bits) :
    (let raw := toBE 4 bits ++ toBE (nbytes bits) (v * 2 ^ (8 - remUp8 bits))
     if raw.length < 4 then (.error .pgParseError : R)
     else
      let len := signedBE (raw.take 4)
      if len < 0 then .error .pgOther
      else
        let len := len.toNat
        let payload := raw.drop 4
        if payload.length ≠ (len + 7) / 8 then .error .pgParseError
        else
          let padding := 8 - remUp8 len
          let shifted := toBE payload.length (beVal payload / 2 ^ padding)
          ofOpt .pgOverflow (tryFromBE bits shifted)) = .ok v := by
  simp only
  have ht : (toBE 4 bits ++ toBE (nbytes bits) (v * 2 ^ (8 - remUp8 bits))).take 4 = toBE 4 bits := by
    rw [List.take_append_of_le_length (by simp), List.take_of_length_le (by simp)]
  have hd : (toBE 4 bits ++ toBE (nbytes bits) (v * 2 ^ (8 - remUp8 bits))).drop 4
      = toBE (nbytes bits) (v * 2 ^ (8 - remUp8 bits)) := by
    have := List.drop_left (l₁ := toBE 4 bits) (l₂ := toBE (nbytes bits) (v * 2 ^ (8 - remUp8 bits)))
    rwa [toBE_length] at this
  have hs : signedBE (toBE 4 bits) = (bits : ℤ) := signedBE_toBE 4 bits (by omega) (by norm_num at hb31 ⊢; omega)
  rw [if_neg (by simp), ht, hd, hs, if_neg (by omega)]
  simp only [Int.toNat_natCast, toBE_length]
  rw [if_neg (by unfold nbytes; simp)]
  have hpad : bits + (8 - remUp8 bits) = 8 * nbytes bits := by unfold remUp8 nbytes; split <;> omega
  have hfit : v * 2 ^ (8 - remUp8 bits) < 256 ^ nbytes bits := by
    rw [pow256, ← hpad, pow_add]
    exact Nat.mul_lt_mul_of_pos_right hv (by positivity)
  rw [beVal_toBE_of_lt _ _ hfit, Nat.mul_div_cancel _ (by positivity), tryFromBE_toBE bits v hv]
  rfl

/-- C16 (postgres): for every non-float column type whose `to_sql` of the value succeeds, `from_sql` of the
    bytes returns the value. (NUMERIC is stated separately.) -/
theorem roundtrip (ty : Ty) (bits v : ℕ) (e : List ℕ) (hv : v < 2 ^ bits) (hty : ty ≠ .numeric)
    (h : toSql ty bits v = some e) : fromSql ty bits e = .ok v := by
  cases ty <;> unfold toSql at h <;> simp only at h
  case bool =>
    split at h
    · next h1 =>
      simp only [Option.some.injEq] at h; subst h
      unfold fromSql; simp only
      have : v = 0 ∨ v = 1 := by omega
      rcases this with rfl | rfl
      · simp
      · have hb : bits ≠ 0 := by rintro rfl; simp at hv
        simp [hb]
    · simp at h
  case int2 =>
    split at h
    · next h1 => simp only [Option.some.injEq] at h; subst h; unfold fromSql; exact roundtrip_int 2 bits v (by omega) hv h1
    · simp at h
  case int4 =>
    split at h
    · next h1 => simp only [Option.some.injEq] at h; subst h; unfold fromSql; exact roundtrip_int 4 bits v (by omega) hv h1
    · simp at h
  case oid =>
    split at h
    · next h1 =>
      simp only [Option.some.injEq] at h; subst h
      unfold fromSql; simp only
      rw [if_neg (by simp), beVal_toBE_of_lt 4 v (by norm_num at h1 ⊢; omega), fitOther_cast bits v hv]
    · simp at h
  case int8 =>
    split at h
    · next h1 => simp only [Option.some.injEq] at h; subst h; unfold fromSql; exact roundtrip_int 8 bits v (by omega) hv h1
    · simp at h
  case money =>
    split at h
    · next h1 =>
      simp only [Option.some.injEq] at h; subst h
      unfold fromSql; simp only
      rw [if_neg (by simp), signedBE_toBE 8 (v * 100) (by omega) h1]
      have : Int.tdiv ((v * 100 : ℕ) : ℤ) 100 = (v : ℤ) := by
        rw [Int.tdiv_eq_ediv_of_nonneg (by positivity)]
        push_cast
        exact Int.mul_ediv_cancel _ (by norm_num)
      rw [this, fitOther_cast bits v hv]
    · simp at h
  case bytea =>
    simp only [Option.some.injEq] at h; subst h
    unfold fromSql; simp only
    rw [tryFromBE_toBE bits v hv]; rfl
  case char =>
    simp only [Option.some.injEq] at h; subst h
    unfold fromSql; simp only
    rw [hexMinimal_ascii, fromStr_hexMinimal bits v hv]; rfl
  case text =>
    simp only [Option.some.injEq] at h; subst h
    unfold fromSql; simp only
    rw [hexMinimal_ascii, fromStr_hexMinimal bits v hv]; rfl
  case varchar =>
    simp only [Option.some.injEq] at h; subst h
    unfold fromSql; simp only
    rw [hexMinimal_ascii, fromStr_hexMinimal bits v hv]; rfl
  case numeric => exact absurd rfl hty
  case unsupported => simp at h
  case bit =>
    split at h
    · simp at h
    · next hb0 =>
      split at h
      · simp at h
      · next hb31 =>
        simp only [Option.some.injEq] at h; subst h
        unfold fromSql
        exact bit_roundtrip bits v hv hb0 hb31
  case varbit =>
    split at h
    · next hb0 =>
      subst hb0
      simp only [reduceCtorEq, if_false, Option.some.injEq] at h; subst h
      have : v = 0 := by simpa using hv
      subst this
      decide
    · next hb0 =>
      split at h
      · simp at h
      · next hb31 =>
        simp only [Option.some.injEq] at h; subst h
        unfold fromSql
        exact bit_roundtrip bits v hv hb0 hb31
  case json =>
    simp only [Option.some.injEq] at h; subst h
    unfold fromSql; simp only [reduceCtorEq, if_false]
    rw [quoted_ascii _ (hexMinimal_ascii v)]
    simp only [Bool.false_eq_true, if_false]
    rw [quoted_inner, fromStr_hexMinimal bits v hv]; rfl
  case jsonb =>
    simp only [Option.some.injEq] at h; subst h
    unfold fromSql; simp only [if_true]
    rw [quoted_ascii _ (hexMinimal_ascii v)]
    simp only [Bool.false_eq_true, if_false]
    rw [quoted_inner, fromStr_hexMinimal bits v hv]; rfl

end Ruint.Codec.Pg
