import Ruint.Lemmas.Codec.Rlp
import Ruint.Lemmas.Codec.Der
/-! inputs denoting a value `≥ 2^bits` are errors. -/
namespace Ruint.Codec

theorem tryFromBE_none_of_ge (bits : ℕ) (bs : List ℕ) (h : 2 ^ bits ≤ beVal bs) : tryFromBE bits bs = none := by
  unfold tryFromBE
  split
  · rfl
  · rw [if_neg (by omega)]

namespace Rlp
/-- C17: the reference encoding of a value that does not fit the type is rejected with `Overflow`. -/
theorem dec_too_large (bits v : ℕ) (tail : List ℕ) (hv : 2 ^ bits ≤ v) (hB : byteLen (byteLen v) ≤ 8) :
    dec bits (enc v ++ tail) = .error .overflow := by
  obtain ⟨hl, h1, h2, h3⟩ := decodeHeader_encStr (beTrim v) tail (by rw [beTrim_length]; exact hB)
  unfold dec enc
  rw [h1]
  simp only [Bool.false_eq_true, if_false]
  rw [h3, if_neg (beTrim_head_ne_zero v), tryFromBE_none_of_ge bits _ (by rw [beVal_beTrim]; exact hv)]
end Rlp

namespace Der
theorem fromDerSlice_too_large (bits v : ℕ) (hv : 2 ^ bits ≤ v) : fromDerSlice bits (content v) = .error .noncanonical := by
  have h0 : v ≠ 0 := by
    rintro rfl
    have : 0 < 2 ^ bits := by positivity
    omega
  have hnone : tryFromBE bits (beTrim v) = none := tryFromBE_none_of_ge bits _ (by rw [beVal_beTrim]; exact hv)
  rw [content_eq, if_neg h0]
  obtain ⟨hc, h1, h2⟩ := beTrim_cons v h0
  have hiff := top_byte_high_iff v h0
  have hle : bitLen v ≤ 8 * byteLen v := by unfold byteLen; omega
  have hgt : 8 * byteLen v < bitLen v + 8 := by unfold byteLen; omega
  by_cases hb : bitLen v % 8 = 0
  · rw [if_pos hb]
    have hhigh : 0x80 ≤ v / 256 ^ (byteLen v - 1) := hiff.mpr (by omega)
    unfold fromDerSlice
    simp only [if_true]
    rw [hc]
    simp only
    rw [if_neg (by omega), ← hc]
    simp only [hnone]
  · rw [if_neg hb]
    have hlow : ¬ 0x80 ≤ v / 256 ^ (byteLen v - 1) := fun h => hb (by have := hiff.mp h; omega)
    rw [hc]
    unfold fromDerSlice
    simp only
    rw [if_neg (by omega), if_neg hlow, ← hc]
    simp only [hnone]

/-- C17: the canonical DER encoding of a value that does not fit the type is rejected. -/
theorem dec_too_large (bits v : ℕ) (hv : 2 ^ bits ≤ v) (hL : (content v).length ≤ 0xfffffff) :
    dec bits (enc v) = .error .noncanonical := by
  unfold dec enc
  simp only [tagOk_two, Bool.not_true, Bool.false_eq_true, if_false]
  rw [decLen_derLen _ _ hL]
  simp only [ne_eq, not_true_eq_false, if_false]
  by_cases hlen : nbytes bits + 1 < (content v).length
  · rw [if_pos hlen]
  · rw [if_neg hlen, List.drop_left, if_neg (by omega), List.take_length, fromDerSlice_too_large bits v hv]
end Der
end Ruint.Codec
