import Ruint.Lemmas.Codec.Rlp
/-! parity `rlp` for `Bits`: full-width string, `decoder().decode_value`. -/
namespace Ruint.Codec.Rlp
open Ruint Ruint.Codec

theorem bits_cons (bits l : ℕ) (rest : List ℕ) : decParityBits bits (l :: rest) =
    if l ≤ 0x7f then bitsBody bits [l]
    else if l ≤ 0xb7 then
      if rest.length < l - 0x80 then .error .rlpInconsistentLengthAndData
      else if l = 0x81 ∧ rest.headD 0 < 0x80 then .error .rlpInvalidIndirection
      else bitsBody bits (rest.take (l - 0x80))
    else if l ≤ 0xbf then
      if rest.length < l - 0xb7 then .error .rlpInconsistentLengthAndData
      else if rest.headD 1 = 0 then .error .rlpInvalidIndirection
      else
        if rest.length - (l - 0xb7) < beVal (rest.take (l - 0xb7)) then .error .rlpInconsistentLengthAndData
        else bitsBody bits ((rest.drop (l - 0xb7)).take (beVal (rest.take (l - 0xb7))))
    else .error .rlpExpectedToBeData := rfl

theorem bitsBody_sound (bits : ℕ) (d : List ℕ) (v : ℕ) (h : bitsBody bits d = .ok v) :
    v < 2 ^ bits ∧ d.length = nbytes bits ∧ beVal d = v := by
  unfold bitsBody at h
  split at h
  · simp at h
  · split at h
    · simp at h
    · split at h
      · simp at h
      · next v' hv' =>
        simp only [Except.ok.injEq] at h; subst h
        obtain ⟨t1, t2, t3⟩ := (tryFromBE_eq_some _ _ _).mp hv'
        exact ⟨t3, by omega, t2⟩

/-- C17 (`Bits` through parity rlp): accepted ⇒ a `BYTES`-long payload denoting a value in range. -/
theorem decParityBits_sound (bits : ℕ) (bs : List ℕ) (v : ℕ) (h : decParityBits bits bs = .ok v) :
    v < 2 ^ bits ∧ ∃ d, d.length = nbytes bits ∧ beVal d = v := by
  match bs with
  | [] => simp [decParityBits] at h
  | l :: rest =>
    rw [bits_cons] at h
    split at h
    · obtain ⟨a, b, c⟩ := bitsBody_sound _ _ _ h; exact ⟨a, _, b, c⟩
    · split at h
      · split at h
        · simp at h
        · split at h
          · simp at h
          · obtain ⟨a, b, c⟩ := bitsBody_sound _ _ _ h; exact ⟨a, _, b, c⟩
      · split at h
        · split at h
          · simp at h
          · split at h
            · simp at h
            · split at h
              · simp at h
              · obtain ⟨a, b, c⟩ := bitsBody_sound _ _ _ h; exact ⟨a, _, b, c⟩
        · simp at h

theorem bitsBody_toBE (bits v : ℕ) (hv : v < 2 ^ bits) : bitsBody bits (toBE (nbytes bits) v) = .ok v := by
  unfold bitsBody
  rw [if_neg (by simp), if_neg (by simp), tryFromBE_toBE bits v hv]

/-- C16 (`Bits` through parity rlp): the full-width string round-trips. -/
theorem decParityBits_enc (bits v : ℕ) (tail : List ℕ) (hv : v < 2 ^ bits) (hB : byteLen (nbytes bits) ≤ 8) :
    decParityBits bits (encBits bits v ++ tail) = .ok v := by
  obtain ⟨p, hp⟩ : ∃ p, p = toBE (nbytes bits) v := ⟨_, rfl⟩
  have hpl : p.length = nbytes bits := by rw [hp]; simp
  have hbody : bitsBody bits p = .ok v := by rw [hp]; exact bitsBody_toBE bits v hv
  unfold encBits encStr
  rw [← hp]
  by_cases h1 : p.length = 1 ∧ p.headD 0 < 0x80
  · rw [if_pos h1]
    obtain ⟨hl1, hb⟩ := h1
    match p, hl1, hb, hbody with
    | [b], _, hb, hbody =>
      simp only [List.headD_cons] at hb
      rw [List.singleton_append, bits_cons, if_pos (by omega)]
      exact hbody
  · rw [if_neg h1]
    unfold strHeader
    by_cases h56 : p.length < 56
    · rw [if_pos h56]
      have : [0x80 + p.length] ++ p ++ tail = (0x80 + p.length) :: (p ++ tail) := by simp
      rw [this, bits_cons]
      have e1 : ¬ (0x80 + p.length ≤ 0x7f) := by omega
      have e2 : 0x80 + p.length ≤ 0xb7 := by omega
      have e3 : 0x80 + p.length - 0x80 = p.length := by omega
      rw [if_neg e1, if_pos e2, e3]
      have c1 : ¬ ((p ++ tail).length < p.length) := by simp
      have c2 : ¬ (0x80 + p.length = 0x81 ∧ (p ++ tail).headD 0 < 0x80) := by
        rintro ⟨ha, hb⟩
        apply h1
        have hl : p.length = 1 := by omega
        refine ⟨hl, ?_⟩
        obtain ⟨b, hb'⟩ := List.length_eq_one_iff.mp hl
        rw [hb'] at hb ⊢
        simpa using hb
      rw [if_neg c1, if_neg c2, List.take_append_of_le_length (by omega), List.take_of_length_le (by omega)]
      exact hbody
    · rw [if_neg h56]
      have hL8 : byteLen p.length ≤ 8 := by rw [hpl]; exact hB
      have hL1 : 1 ≤ byteLen p.length := by
        by_contra hc
        have : byteLen p.length = 0 := by omega
        have := (byteLen_eq_zero_iff _).mp this
        omega
      have hcons : (0xb7 + byteLen p.length) :: beTrim p.length ++ p ++ tail
            = (0xb7 + byteLen p.length) :: (beTrim p.length ++ (p ++ tail)) := by simp
      rw [hcons, bits_cons]
      have e1 : ¬ (0xb7 + byteLen p.length ≤ 0x7f) := by omega
      have e2 : ¬ (0xb7 + byteLen p.length ≤ 0xb7) := by omega
      have e3 : 0xb7 + byteLen p.length ≤ 0xbf := by omega
      have e5 : 0xb7 + byteLen p.length - 0xb7 = byteLen p.length := by omega
      rw [if_neg e1, if_neg e2, if_pos e3, e5]
      have hhd : (beTrim p.length ++ (p ++ tail)).headD 1 = (beTrim p.length).headD 1 := by
        match hbt : beTrim p.length with
        | [] => have := congrArg List.length hbt; simp at this; omega
        | x :: xs => simp
      have t1 : (beTrim p.length ++ (p ++ tail)).take (byteLen p.length) = beTrim p.length := by
        rw [List.take_append_of_le_length (by simp), List.take_of_length_le (by simp)]
      have d1 : (beTrim p.length ++ (p ++ tail)).drop (byteLen p.length) = p ++ tail := by
        have := List.drop_left (l₁ := beTrim p.length) (l₂ := p ++ tail)
        rwa [beTrim_length] at this
      have c1 : ¬ ((beTrim p.length ++ (p ++ tail)).length < byteLen p.length) := by
        simp only [List.length_append, beTrim_length]; omega
      have c3 : ¬ ((beTrim p.length ++ (p ++ tail)).length - byteLen p.length < p.length) := by
        simp only [List.length_append, beTrim_length]; omega
      rw [if_neg c1, hhd, if_neg (beTrim_head_ne_zero _), t1, beVal_beTrim, if_neg c3, d1,
        List.take_append_of_le_length (by omega), List.take_of_length_le (by omega)]
      exact hbody

end Ruint.Codec.Rlp
