import Ruint.Model.Codec.Bytes
import Mathlib.Tactic.Ring
import Mathlib.Tactic.Linarith
import Mathlib.Tactic.NormNum
import Mathlib.Tactic.Push
/-! Byte-string toolkit for the codec theorems: `toLE`/`leVal`/`beVal` bijection, `bitLen`/`byteLen`
    characterisations, minimal encodings, `try_from_*_slice`. -/
namespace Ruint.Codec

theorem IsBytes.nil : IsBytes [] := fun _ h => by simp at h
theorem IsBytes.cons {b : ℕ} {bs : List ℕ} (hb : b < 256) (h : IsBytes bs) : IsBytes (b :: bs) := by
  intro x hx
  rcases List.mem_cons.mp hx with rfl | hx
  · exact hb
  · exact h x hx
theorem IsBytes.head {b : ℕ} {bs : List ℕ} (h : IsBytes (b :: bs)) : b < 256 := h b (by simp)
theorem IsBytes.tail {b : ℕ} {bs : List ℕ} (h : IsBytes (b :: bs)) : IsBytes bs :=
  fun x hx => h x (List.mem_cons_of_mem _ hx)
theorem IsBytes.append {l m : List ℕ} (hl : IsBytes l) (hm : IsBytes m) : IsBytes (l ++ m) := by
  intro x hx
  rcases List.mem_append.mp hx with h | h
  · exact hl x h
  · exact hm x h
theorem IsBytes.left {l m : List ℕ} (h : IsBytes (l ++ m)) : IsBytes l :=
  fun x hx => h x (List.mem_append_left _ hx)
theorem IsBytes.right {l m : List ℕ} (h : IsBytes (l ++ m)) : IsBytes m :=
  fun x hx => h x (List.mem_append_right _ hx)
theorem IsBytes.reverse {l : List ℕ} (h : IsBytes l) : IsBytes l.reverse :=
  fun x hx => h x (List.mem_reverse.mp hx)
theorem IsBytes.take {l : List ℕ} (h : IsBytes l) (n : ℕ) : IsBytes (l.take n) :=
  fun x hx => h x (List.mem_of_mem_take hx)
theorem IsBytes.drop {l : List ℕ} (h : IsBytes l) (n : ℕ) : IsBytes (l.drop n) :=
  fun x hx => h x (List.mem_of_mem_drop hx)

@[simp] theorem toLE_length (n x : ℕ) : (toLE n x).length = n := by
  induction n generalizing x with
  | zero => rfl
  | succ n ih => simp [toLE, ih]

theorem toLE_isBytes (n x : ℕ) : IsBytes (toLE n x) := by
  induction n generalizing x with
  | zero => exact IsBytes.nil
  | succ n ih => exact IsBytes.cons (Nat.mod_lt _ (by norm_num)) (ih _)

theorem leVal_toLE (n x : ℕ) : leVal (toLE n x) = x % 256 ^ n := by
  induction n generalizing x with
  | zero => simp [toLE, leVal, Nat.mod_one]
  | succ n ih =>
    simp only [toLE, leVal, ih]
    rw [pow_succ', Nat.mod_mul]

theorem toLE_leVal (bs : List ℕ) (h : IsBytes bs) : toLE bs.length (leVal bs) = bs := by
  induction bs with
  | nil => rfl
  | cons b bs ih =>
    have hb := h.head
    simp only [List.length_cons, toLE, leVal]
    have h1 : (b + 256 * leVal bs) % 256 = b := by omega
    have h2 : (b + 256 * leVal bs) / 256 = leVal bs := by omega
    rw [h1, h2, ih h.tail]

theorem leVal_lt (bs : List ℕ) (h : IsBytes bs) : leVal bs < 256 ^ bs.length := by
  induction bs with
  | nil => simp [leVal]
  | cons b bs ih =>
    have hb := h.head
    have := ih h.tail
    simp only [List.length_cons, leVal, pow_succ']
    omega

theorem leVal_append (l m : List ℕ) : leVal (l ++ m) = leVal l + 256 ^ l.length * leVal m := by
  induction l with
  | nil => simp [leVal]
  | cons b l ih => simp only [List.cons_append, leVal, ih, List.length_cons, pow_succ']; ring

theorem toLE_succ_last (n x : ℕ) : toLE (n + 1) x = toLE n x ++ [x / 256 ^ n % 256] := by
  induction n generalizing x with
  | zero => simp [toLE]
  | succ n ih =>
    rw [toLE, ih (x / 256)]
    simp only [toLE, List.cons_append]
    rw [Nat.div_div_eq_div_mul, ← pow_succ']

theorem toLE_add (n m x : ℕ) : toLE (n + m) x = toLE n x ++ toLE m (x / 256 ^ n) := by
  induction n generalizing x with
  | zero => simp [toLE]
  | succ n ih =>
    rw [Nat.add_right_comm, toLE, ih (x / 256), toLE, List.cons_append, Nat.div_div_eq_div_mul, ← pow_succ']

theorem toLE_zero (n : ℕ) : toLE n 0 = List.replicate n 0 := by
  induction n with
  | zero => rfl
  | succ n ih => simp [toLE, ih, List.replicate_succ]

/-- a value that fits `m` bytes written with `n ≥ m` bytes is zero-padded at the top. -/
theorem toLE_pad (n m x : ℕ) (hx : x < 256 ^ m) : toLE (m + n) x = toLE m x ++ List.replicate n 0 := by
  rw [toLE_add, Nat.div_eq_of_lt hx, toLE_zero]

/-! ## bit and byte lengths -/

theorem bitLen_le_iff (x k : ℕ) : bitLen x ≤ k ↔ x < 2 ^ k := by
  unfold bitLen
  by_cases h : x = 0
  · simp [h]
  · simp only [h, if_false]
    rw [Nat.succ_le_iff, Nat.log2_lt h]

theorem lt_two_pow_bitLen (x : ℕ) : x < 2 ^ bitLen x := (bitLen_le_iff x _).mp le_rfl

theorem bitLen_eq_zero_iff (x : ℕ) : bitLen x = 0 ↔ x = 0 := by
  unfold bitLen
  by_cases h : x = 0 <;> simp [h]

theorem two_pow_bitLen_pred_le (x : ℕ) (h : x ≠ 0) : 2 ^ (bitLen x - 1) ≤ x := by
  by_contra hc
  push Not at hc
  have := (bitLen_le_iff x _).mpr hc
  have h0 : bitLen x ≠ 0 := fun e => h ((bitLen_eq_zero_iff x).mp e)
  omega

theorem pow256 (n : ℕ) : 256 ^ n = 2 ^ (8 * n) := by
  rw [pow_mul]; norm_num

theorem byteLen_le_iff (x n : ℕ) : byteLen x ≤ n ↔ x < 256 ^ n := by
  unfold byteLen
  rw [pow256, ← bitLen_le_iff]
  omega

theorem lt_pow_byteLen (x : ℕ) : x < 256 ^ byteLen x := (byteLen_le_iff x _).mp le_rfl

theorem byteLen_eq_zero_iff (x : ℕ) : byteLen x = 0 ↔ x = 0 := by
  unfold byteLen
  have := bitLen_eq_zero_iff x
  omega

theorem pow_byteLen_pred_le (x : ℕ) (h : x ≠ 0) : 256 ^ (byteLen x - 1) ≤ x := by
  by_contra hc
  push Not at hc
  have := (byteLen_le_iff x _).mpr hc
  have h0 : byteLen x ≠ 0 := fun e => h ((byteLen_eq_zero_iff x).mp e)
  omega

theorem byteLen_eq (x n : ℕ) (hlo : 256 ^ n ≤ x) (hhi : x < 256 ^ (n + 1)) : byteLen x = n + 1 := by
  have h1 := (byteLen_le_iff x (n + 1)).mpr hhi
  have h2 : ¬ byteLen x ≤ n := fun h => by have := (byteLen_le_iff x n).mp h; omega
  omega

/-! ## minimal encodings -/

@[simp] theorem toBE_length (n x : ℕ) : (toBE n x).length = n := by simp [toBE]
theorem toBE_isBytes (n x : ℕ) : IsBytes (toBE n x) := (toLE_isBytes n x).reverse
@[simp] theorem beTrim_length (x : ℕ) : (beTrim x).length = byteLen x := by simp [beTrim]
@[simp] theorem leTrim_length (x : ℕ) : (leTrim x).length = byteLen x := by simp [leTrim]
theorem beTrim_isBytes (x : ℕ) : IsBytes (beTrim x) := toBE_isBytes _ _
theorem leTrim_isBytes (x : ℕ) : IsBytes (leTrim x) := toLE_isBytes _ _

theorem beVal_toBE (n x : ℕ) : beVal (toBE n x) = x % 256 ^ n := by
  simp [beVal, toBE, leVal_toLE]

theorem beVal_toBE_of_lt (n x : ℕ) (h : x < 256 ^ n) : beVal (toBE n x) = x := by
  rw [beVal_toBE, Nat.mod_eq_of_lt h]

theorem leVal_toLE_of_lt (n x : ℕ) (h : x < 256 ^ n) : leVal (toLE n x) = x := by
  rw [leVal_toLE, Nat.mod_eq_of_lt h]

@[simp] theorem beVal_beTrim (x : ℕ) : beVal (beTrim x) = x := beVal_toBE_of_lt _ _ (lt_pow_byteLen x)
@[simp] theorem leVal_leTrim (x : ℕ) : leVal (leTrim x) = x := leVal_toLE_of_lt _ _ (lt_pow_byteLen x)

theorem beTrim_zero : beTrim 0 = [] := by
  have : byteLen 0 = 0 := (byteLen_eq_zero_iff 0).mpr rfl
  simp [beTrim, this, toBE, toLE]

theorem beVal_lt (bs : List ℕ) (h : IsBytes bs) : beVal bs < 256 ^ bs.length := by
  have := leVal_lt bs.reverse h.reverse
  simpa [beVal] using this

/-- the top byte of the minimal form is non-zero (`headD 1`: the empty string passes). -/
theorem beTrim_head_ne_zero (x : ℕ) : (beTrim x).headD 1 ≠ 0 := by
  by_cases hx : x = 0
  · subst hx; simp [beTrim_zero]
  · have hn : byteLen x ≠ 0 := fun e => hx ((byteLen_eq_zero_iff x).mp e)
    obtain ⟨n, hn'⟩ : ∃ n, byteLen x = n + 1 := ⟨byteLen x - 1, by omega⟩
    have hlo := pow_byteLen_pred_le x hx
    have hhi := lt_pow_byteLen x
    rw [hn'] at hlo hhi
    simp only [Nat.add_sub_cancel] at hlo
    unfold beTrim toBE
    rw [hn', toLE_succ_last, List.reverse_append]
    simp only [List.reverse_cons, List.reverse_nil, List.nil_append, List.cons_append, List.headD_cons]
    have h1 : 1 ≤ x / 256 ^ n := (Nat.one_le_div_iff (by positivity)).mpr hlo
    have h2 : x / 256 ^ n < 256 := by
      rw [Nat.div_lt_iff_lt_mul (by positivity)]
      rw [pow_succ] at hhi; linarith
    rw [Nat.mod_eq_of_lt h2]; omega

/-- a byte string without a leading zero byte is the minimal form of its value. -/
theorem byteLen_beVal (bs : List ℕ) (h : IsBytes bs) (hh : bs.headD 1 ≠ 0) : byteLen (beVal bs) = bs.length := by
  match bs, h, hh with
  | [], _, _ => simp [beVal, leVal, (byteLen_eq_zero_iff 0).mpr rfl]
  | b :: rest, h, hh =>
    have hb : b ≠ 0 := by simpa using hh
    have hhi := beVal_lt (b :: rest) h
    have hlo : 256 ^ rest.length ≤ beVal (b :: rest) := by
      unfold beVal
      rw [List.reverse_cons, leVal_append]
      simp only [List.length_reverse, leVal, Nat.mul_zero, Nat.add_zero]
      have : 256 ^ rest.length * 1 ≤ 256 ^ rest.length * b := Nat.mul_le_mul_left _ (by omega)
      omega
    simpa using byteLen_eq _ rest.length hlo (by simpa using hhi)

theorem beTrim_beVal (bs : List ℕ) (h : IsBytes bs) (hh : bs.headD 1 ≠ 0) : beTrim (beVal bs) = bs := by
  unfold beTrim toBE
  rw [byteLen_beVal bs h hh]
  have := toLE_leVal bs.reverse h.reverse
  rw [List.length_reverse] at this
  unfold beVal
  rw [this, List.reverse_reverse]

/-- little-endian mirror: no trailing zero byte. -/
theorem leTrim_leVal (bs : List ℕ) (h : IsBytes bs) (hh : bs.reverse.headD 1 ≠ 0) : leTrim (leVal bs) = bs := by
  have := beTrim_beVal bs.reverse h.reverse hh
  unfold beTrim toBE beVal at this
  rw [List.reverse_reverse] at this
  unfold leTrim
  have h2 := congrArg List.reverse this
  simpa using h2

theorem leTrim_last_ne_zero (x : ℕ) : (leTrim x).reverse.headD 1 ≠ 0 := beTrim_head_ne_zero x

/-- `(to_be_bytes).drop (BYTES - byte_len)` is the minimal form. -/
theorem toBE_drop (n x : ℕ) (hx : x < 256 ^ n) : (toBE n x).drop (n - byteLen x) = beTrim x := by
  have hle : byteLen x ≤ n := (byteLen_le_iff x n).mpr hx
  obtain ⟨k, rfl⟩ : ∃ k, n = byteLen x + k := ⟨n - byteLen x, by omega⟩
  unfold beTrim toBE
  rw [toLE_pad _ _ _ (lt_pow_byteLen x), List.reverse_append, List.reverse_replicate, Nat.add_sub_cancel_left]
  rw [List.drop_append_of_le_length (by simp)]
  simp

/-! ## `try_from_{be,le}_slice` -/

theorem tryFromBE_eq_some (bits : ℕ) (bs : List ℕ) (v : ℕ) :
    tryFromBE bits bs = some v ↔ bs.length ≤ nbytes bits ∧ beVal bs = v ∧ v < 2 ^ bits := by
  unfold tryFromBE
  constructor
  · intro h
    split at h
    · simp at h
    · split at h
      · simp only [Option.some.injEq] at h; subst h; exact ⟨by omega, rfl, by assumption⟩
      · simp at h
  · rintro ⟨h1, rfl, h3⟩
    rw [if_neg (by omega), if_pos h3]

theorem tryFromLE_eq_some (bits : ℕ) (bs : List ℕ) (v : ℕ) :
    tryFromLE bits bs = some v ↔ bs.length ≤ nbytes bits ∧ leVal bs = v ∧ v < 2 ^ bits := by
  unfold tryFromLE
  constructor
  · intro h
    split at h
    · simp at h
    · split at h
      · simp only [Option.some.injEq] at h; subst h; exact ⟨by omega, rfl, by assumption⟩
      · simp at h
  · rintro ⟨h1, rfl, h3⟩
    rw [if_neg (by omega), if_pos h3]

theorem two_pow_le_pow_nbytes (bits : ℕ) : 2 ^ bits ≤ 256 ^ nbytes bits := by
  rw [pow256]; apply Nat.pow_le_pow_right (by norm_num); unfold nbytes; omega

theorem byteLen_le_nbytes (bits v : ℕ) (h : v < 2 ^ bits) : byteLen v ≤ nbytes bits :=
  (byteLen_le_iff v _).mpr (lt_of_lt_of_le h (two_pow_le_pow_nbytes bits))

theorem tryFromBE_beTrim (bits v : ℕ) (h : v < 2 ^ bits) : tryFromBE bits (beTrim v) = some v :=
  (tryFromBE_eq_some _ _ _).mpr ⟨by simpa using byteLen_le_nbytes bits v h, beVal_beTrim v, h⟩

theorem tryFromBE_toBE (bits v : ℕ) (h : v < 2 ^ bits) : tryFromBE bits (toBE (nbytes bits) v) = some v :=
  (tryFromBE_eq_some _ _ _).mpr ⟨by simp, beVal_toBE_of_lt _ _ (lt_of_lt_of_le h (two_pow_le_pow_nbytes bits)), h⟩

theorem tryFromLE_toLE (bits v : ℕ) (h : v < 2 ^ bits) : tryFromLE bits (toLE (nbytes bits) v) = some v :=
  (tryFromLE_eq_some _ _ _).mpr ⟨by simp, leVal_toLE_of_lt _ _ (lt_of_lt_of_le h (two_pow_le_pow_nbytes bits)), h⟩

theorem tryFromLE_leTrim (bits v : ℕ) (h : v < 2 ^ bits) : tryFromLE bits (leTrim v) = some v :=
  (tryFromLE_eq_some _ _ _).mpr ⟨by simpa using byteLen_le_nbytes bits v h, leVal_leTrim v, h⟩

/-! ## more on the minimal form -/

theorem toBE_beVal (bs : List ℕ) (h : IsBytes bs) : toBE bs.length (beVal bs) = bs := by
  unfold toBE beVal
  have := toLE_leVal bs.reverse h.reverse
  rw [List.length_reverse] at this
  rw [this, List.reverse_reverse]

theorem toLE_one (x : ℕ) (h : x < 256) : toLE 1 x = [x] := by simp [toLE, Nat.mod_eq_of_lt h]
theorem toBE_one (x : ℕ) (h : x < 256) : toBE 1 x = [x] := by simp [toBE, toLE_one x h]

/-- the minimal big-endian form of a non-zero value: its top byte (in `[1, 255]`), then the rest. -/
theorem beTrim_cons (x : ℕ) (hx : x ≠ 0) :
    beTrim x = (x / 256 ^ (byteLen x - 1)) :: toBE (byteLen x - 1) x
      ∧ 1 ≤ x / 256 ^ (byteLen x - 1) ∧ x / 256 ^ (byteLen x - 1) < 256 := by
  have hn : byteLen x ≠ 0 := fun e => hx ((byteLen_eq_zero_iff x).mp e)
  obtain ⟨n, hn'⟩ : ∃ n, byteLen x = n + 1 := ⟨byteLen x - 1, by omega⟩
  have hlo := pow_byteLen_pred_le x hx
  have hhi := lt_pow_byteLen x
  rw [hn'] at hlo hhi ⊢
  simp only [Nat.add_sub_cancel] at hlo ⊢
  have h1 : 1 ≤ x / 256 ^ n := (Nat.one_le_div_iff (by positivity)).mpr hlo
  have h2 : x / 256 ^ n < 256 := by
    rw [Nat.div_lt_iff_lt_mul (by positivity)]
    rw [pow_succ] at hhi; linarith
  refine ⟨?_, h1, h2⟩
  unfold beTrim toBE
  rw [hn', toLE_succ_last, List.reverse_append, Nat.mod_eq_of_lt h2]
  simp

/-- the top byte of the minimal form has its high bit set exactly when `bit_len` is a multiple of 8. -/
theorem top_byte_high_iff (x : ℕ) (hx : x ≠ 0) :
    0x80 ≤ x / 256 ^ (byteLen x - 1) ↔ bitLen x = 8 * byteLen x := by
  have hn : byteLen x ≠ 0 := fun e => hx ((byteLen_eq_zero_iff x).mp e)
  obtain ⟨n, hn'⟩ : ∃ n, byteLen x = n + 1 := ⟨byteLen x - 1, by omega⟩
  rw [hn']
  simp only [Nat.add_sub_cancel]
  have hle : bitLen x ≤ 8 * (n + 1) := by unfold byteLen at hn'; omega
  have key : bitLen x ≤ 8 * n + 7 ↔ x < 2 ^ (8 * n + 7) := bitLen_le_iff x _
  have hp : (2:ℕ) ^ (8 * n + 7) = 128 * 256 ^ n := by rw [pow256, pow_add]; ring
  rw [hp] at key
  have hdiv : 128 ≤ x / 256 ^ n ↔ 128 * 256 ^ n ≤ x := Nat.le_div_iff_mul_le (by positivity)
  constructor
  · intro h
    have := hdiv.mp h
    have : ¬ bitLen x ≤ 8 * n + 7 := fun hc => by have := key.mp hc; omega
    omega
  · intro h
    apply hdiv.mpr
    by_contra hc
    push Not at hc
    have := key.mpr hc
    omega

end Ruint.Codec
