import Ruint.Lemmas.Codec.Rlp
/-! parity `rlp`: `Rlp::data()` on the reference encoding; soundness of the (lenient) decoder. -/
namespace Ruint.Codec.Rlp
open Ruint Ruint.Codec

theorem pi_cons (l : ℕ) (rest : List ℕ) : payloadInfo (l :: rest) =
    if l ≤ 0x7f then piFin (rest.length + 1) 0 1
    else if l ≤ 0xb7 then piFin (rest.length + 1) 1 (l - 0x80)
    else if 0xc0 ≤ l ∧ l ≤ 0xf7 then piFin (rest.length + 1) 1 (l - 0xc0)
    else
      if rest = [] then .error .rlpIsTooShort
      else if rest.headD 1 = 0 then .error .rlpDataLenWithZeroPrefix
      else if rest.length + 1 < 1 + (if l ≤ 0xbf then l - 0xb7 else l - 0xf7) then .error .rlpIsTooShort
      else
        if beVal (rest.take (if l ≤ 0xbf then l - 0xb7 else l - 0xf7)) ≤ 55 then .error .rlpInvalidIndirection
        else piFin (rest.length + 1) (1 + (if l ≤ 0xbf then l - 0xb7 else l - 0xf7))
          (beVal (rest.take (if l ≤ 0xbf then l - 0xb7 else l - 0xf7))) := rfl

theorem piFin_ok (total hl vl : ℕ) (h : hl + vl ≤ total) : piFin total hl vl = .ok (hl, vl) := by
  unfold piFin; rw [if_pos h]

theorem piFin_eq_ok (total hl vl a b : ℕ) (h : piFin total hl vl = .ok (a, b)) :
    a = hl ∧ b = vl ∧ hl + vl ≤ total := by
  unfold piFin at h
  split at h
  · simp only [Except.ok.injEq, Prod.mk.injEq] at h; exact ⟨h.1.symm, h.2.symm, by assumption⟩
  · simp at h

/-- `Rlp::data()` locates the payload of an encoded string. -/
theorem payloadInfo_encStr (p tail : List ℕ) (hlen : byteLen p.length ≤ 8) :
    ∃ hl, payloadInfo (encStr p ++ tail) = .ok (hl, p.length)
      ∧ ((encStr p ++ tail).drop hl).take p.length = p
      ∧ (encStr p ++ tail).headD 0 < 0xc0 := by
  unfold encStr
  by_cases h1 : p.length = 1 ∧ p.headD 0 < 0x80
  · rw [if_pos h1]
    obtain ⟨hl1, hb⟩ := h1
    match p, hl1, hb with
    | [b], _, hb =>
      simp only [List.headD_cons] at hb
      refine ⟨0, ?_, by simp, by simp; omega⟩
      rw [List.singleton_append, pi_cons]
      have e1 : b ≤ 0x7f := by omega
      rw [if_pos e1, piFin_ok _ _ _ (by omega)]
      rfl
  · rw [if_neg h1]
    unfold strHeader
    by_cases h56 : p.length < 56
    · rw [if_pos h56]
      refine ⟨1, ?_, by simp, by simp; omega⟩
      have : [0x80 + p.length] ++ p ++ tail = (0x80 + p.length) :: (p ++ tail) := by simp
      rw [this, pi_cons]
      have e1 : ¬ (0x80 + p.length ≤ 0x7f) := by omega
      have e2 : 0x80 + p.length ≤ 0xb7 := by omega
      have e3 : 0x80 + p.length - 0x80 = p.length := by omega
      rw [if_neg e1, if_pos e2, e3, piFin_ok _ _ _ (by simp only [List.length_append]; omega)]
    · rw [if_neg h56]
      have hL1 : 1 ≤ byteLen p.length := by
        by_contra hc
        have : byteLen p.length = 0 := by omega
        have := (byteLen_eq_zero_iff _).mp this
        omega
      have hcons : (0xb7 + byteLen p.length) :: beTrim p.length ++ p ++ tail
            = (0xb7 + byteLen p.length) :: (beTrim p.length ++ (p ++ tail)) := by simp
      refine ⟨1 + byteLen p.length, ?_, ?_, by simp; omega⟩
      · rw [hcons, pi_cons]
        have e1 : ¬ (0xb7 + byteLen p.length ≤ 0x7f) := by omega
        have e2 : ¬ (0xb7 + byteLen p.length ≤ 0xb7) := by omega
        have e3 : ¬ (0xc0 ≤ 0xb7 + byteLen p.length ∧ 0xb7 + byteLen p.length ≤ 0xf7) := by omega
        have e4 : 0xb7 + byteLen p.length ≤ 0xbf := by omega
        have e5 : 0xb7 + byteLen p.length - 0xb7 = byteLen p.length := by omega
        rw [if_neg e1, if_neg e2, if_neg e3]
        simp only [if_pos e4, e5]
        have hne : ¬ (beTrim p.length ++ (p ++ tail) = []) := by
          intro e
          have := congrArg List.length e
          simp only [List.length_append, beTrim_length, List.length_nil] at this
          omega
        have hhd : (beTrim p.length ++ (p ++ tail)).headD 1 = (beTrim p.length).headD 1 := by
          match hbt : beTrim p.length with
          | [] => have := congrArg List.length hbt; simp at this; omega
          | x :: xs => simp
        have t1 : (beTrim p.length ++ (p ++ tail)).take (byteLen p.length) = beTrim p.length := by
          rw [List.take_append_of_le_length (by simp)]
          rw [List.take_of_length_le (by simp)]
        have c3 : ¬ ((beTrim p.length ++ (p ++ tail)).length + 1 < 1 + byteLen p.length) := by
          simp only [List.length_append, beTrim_length]; omega
        have c4 : ¬ (p.length ≤ 55) := by omega
        rw [if_neg hne, hhd, if_neg (beTrim_head_ne_zero _), if_neg c3, t1, beVal_beTrim, if_neg c4,
          piFin_ok _ _ _ (by simp only [List.length_append, beTrim_length]; omega)]
      · have : (0xb7 + byteLen p.length) :: beTrim p.length ++ p ++ tail
            = ((0xb7 + byteLen p.length) :: beTrim p.length) ++ (p ++ tail) := by simp
        rw [this]
        have hl : 1 + byteLen p.length = ((0xb7 + byteLen p.length) :: beTrim p.length).length := by
          simp only [List.length_cons, beTrim_length]; omega
        rw [hl, List.drop_left]
        simp

/-- the total-length check: an accepted header delimits bytes that are present. -/
theorem payloadInfo_le (bs : List ℕ) (hl vl : ℕ) (h : payloadInfo bs = .ok (hl, vl)) : hl + vl ≤ bs.length := by
  match bs, h with
  | [], h => simp [payloadInfo] at h
  | l :: rest, h =>
    rw [pi_cons] at h
    simp only [List.length_cons]
    split at h
    · obtain ⟨e1, e2, h3⟩ := piFin_eq_ok (rest.length + 1) 0 1 hl vl h; omega
    · split at h
      · obtain ⟨e1, e2, h3⟩ := piFin_eq_ok (rest.length + 1) 1 (l - 0x80) hl vl h; omega
      · split at h
        · obtain ⟨e1, e2, h3⟩ := piFin_eq_ok (rest.length + 1) 1 (l - 0xc0) hl vl h; omega
        · obtain ⟨lol, hlol⟩ : ∃ lol, lol = (if l ≤ 0xbf then l - 0xb7 else l - 0xf7) := ⟨_, rfl⟩
          rw [← hlol] at h
          split at h
          · simp at h
          · split at h
            · simp at h
            · split at h
              · simp at h
              · split at h
                · simp at h
                · obtain ⟨e1, e2, h3⟩ := piFin_eq_ok (rest.length + 1) (1 + lol) _ hl vl h; omega

/-- C16 (parity rlp): decoding the reference encoding returns the value (trailing bytes are ignored). -/
theorem decParity_enc (bits v : ℕ) (tail : List ℕ) (hv : v < 2 ^ bits) (hB : byteLen (nbytes bits) ≤ 8) :
    decParity bits (enc v ++ tail) = .ok v := by
  have hl8 : byteLen (beTrim v).length ≤ 8 := by
    rw [beTrim_length]; exact le_trans (byteLen_mono (byteLen_le_nbytes bits v hv)) hB
  obtain ⟨hl, h1, h2, h3⟩ := payloadInfo_encStr (beTrim v) tail hl8
  unfold decParity enc
  have e1 : ¬ (0xc0 ≤ (encStr (beTrim v) ++ tail).headD 0) := by omega
  rw [if_neg e1, h1]
  simp only
  rw [h2, tryFromBE_beTrim bits v hv]

/-- C17 (parity rlp, lenient by design): an accepted input is a STRING item (lists are rejected) whose
    payload, as delimited by `Rlp::data()`, is a big-endian number below `2^bits` — the returned value. -/
theorem decParity_sound (bits : ℕ) (bs : List ℕ) (v : ℕ) (h : decParity bits bs = .ok v) :
    v < 2 ^ bits ∧ bs.headD 0 < 0xc0 ∧
      ∃ hl vl, payloadInfo bs = .ok (hl, vl) ∧ hl + vl ≤ bs.length ∧ vl ≤ nbytes bits
        ∧ beVal ((bs.drop hl).take vl) = v := by
  unfold decParity at h
  split at h
  · simp at h
  · next hlist =>
    split at h
    · simp at h
    · next hl vl hpi =>
      split at h
      · simp at h
      · next v' hv' =>
        simp only [Except.ok.injEq] at h
        subst h
        obtain ⟨t1, t2, t3⟩ := (tryFromBE_eq_some _ _ _).mp hv'
        refine ⟨t3, by omega, hl, vl, hpi, payloadInfo_le bs hl vl hpi, ?_, t2⟩
        have hle := payloadInfo_le bs hl vl hpi
        rw [List.length_take, List.length_drop] at t1
        omega

end Ruint.Codec.Rlp
