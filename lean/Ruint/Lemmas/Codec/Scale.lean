import Ruint.Model.Codec.Scale
import Ruint.Lemmas.Codec.Bytes
/-! SCALE: compact form (four modes, size hint, round trip, soundness) and the fixed (byte vector) form. -/
namespace Ruint.Codec.Scale
open Ruint Ruint.Codec

/-! ## compact form: the encoder -/

theorem bitLen_le_6 (v : ℕ) : bitLen v ≤ 6 ↔ v < 2 ^ 6 := bitLen_le_iff v 6
theorem bitLen_le_14 (v : ℕ) : bitLen v ≤ 14 ↔ v < 2 ^ 14 := bitLen_le_iff v 14
theorem bitLen_le_30 (v : ℕ) : bitLen v ≤ 30 ↔ v < 2 ^ 30 := bitLen_le_iff v 30

/-- C16: the four modes of the compact encoding with their boundaries `2^6`, `2^14`, `2^30`; in big-integer
    mode the prefix is `(n − 4)·4 + 3` for the `n = byte_len` little-endian bytes, the last of which is non-zero. -/
theorem encCompact_modes (v : ℕ) :
    (v < 2 ^ 6 → encCompact v = [4 * v]) ∧
    (2 ^ 6 ≤ v → v < 2 ^ 14 → encCompact v = toLE 2 (4 * v + 1)) ∧
    (2 ^ 14 ≤ v → v < 2 ^ 30 → encCompact v = toLE 4 (4 * v + 2)) ∧
    (2 ^ 30 ≤ v → encCompact v = ((byteLen v - 4) * 4 + 3) :: leTrim v ∧ 4 ≤ byteLen v
        ∧ (leTrim v).length = byteLen v ∧ leVal (leTrim v) = v ∧ (leTrim v).reverse.headD 1 ≠ 0) := by
  unfold encCompact
  simp only
  refine ⟨?_, ?_, ?_, ?_⟩
  · intro h
    rw [if_pos ((bitLen_le_6 v).mpr h), Nat.mul_comm]
  · intro h1 h2
    rw [if_neg (fun h => by have := (bitLen_le_6 v).mp h; omega), if_pos ((bitLen_le_14 v).mpr h2), Nat.mul_comm]
  · intro h1 h2
    rw [if_neg (fun h => by have := (bitLen_le_6 v).mp h; omega),
      if_neg (fun h => by have := (bitLen_le_14 v).mp h; omega), if_pos ((bitLen_le_30 v).mpr h2), Nat.mul_comm]
  · intro h1
    rw [if_neg (fun h => by have := (bitLen_le_6 v).mp h; omega),
      if_neg (fun h => by have := (bitLen_le_14 v).mp h; omega),
      if_neg (fun h => by have := (bitLen_le_30 v).mp h; omega)]
    refine ⟨by rw [Nat.add_comm], ?_, leTrim_length v, leVal_leTrim v, leTrim_last_ne_zero v⟩
    by_contra hc
    have : byteLen v ≤ 3 := by omega
    have := (byteLen_le_iff v 3).mp this
    norm_num at this h1
    omega

/-- C16: the compact `size_hint` (after the fix) is exactly the number of bytes written. -/
theorem sizeHintCompact_eq (v : ℕ) : sizeHintCompact v = (encCompact v).length := by
  unfold sizeHintCompact encCompact
  simp only
  split
  · simp
  · split
    · simp
    · split
      · simp
      · simp

/-- the defect of the pinned tree as a theorem: the hint was wrong for a 64-bit type and undefined
    (`usize` underflow panic) for a 512-bit type. -/
theorem sizeHintCompactPinned_defect :
    sizeHintCompactPinned 64 (2 ^ 40) = some 31 ∧ (encCompact (2 ^ 40)).length = 7
    ∧ sizeHintCompactPinned 512 (2 ^ 31) = none := by decide

/-! ## compact form: the decoder -/

theorem decCompact_nil (bits : ℕ) : decCompact bits [] = .error .opaque := rfl

theorem decCompact_cons (bits p : ℕ) (rest : List ℕ) : decCompact bits (p :: rest) =
    if p % 4 = 0 then (if p / 4 < 2 ^ bits then .ok (p / 4, 1) else .error .opaque)
    else if p % 4 = 1 then
      match rest with
      | [] => .error .opaque
      | b1 :: _ =>
        if 0x3f ≤ (p + 256 * b1) / 4 ∧ (p + 256 * b1) / 4 ≤ 0x3fff then
          (if (p + 256 * b1) / 4 < 2 ^ bits then .ok ((p + 256 * b1) / 4, 2) else .error .opaque)
        else .error .opaque
    else if p % 4 = 2 then
      if rest.length < 3 then .error .opaque
      else
        if 0x3fff ≤ leVal (p :: rest.take 3) / 4 ∧ leVal (p :: rest.take 3) / 4 ≤ 2 ^ 30 - 1 then
          (if leVal (p :: rest.take 3) / 4 < 2 ^ bits then .ok (leVal (p :: rest.take 3) / 4, 4) else .error .opaque)
        else .error .opaque
    else
      if rest.length < p / 4 + 4 then .error .opaque
      else
        if p / 4 + 4 = 4 then
          (if 2 ^ 30 - 1 < leVal (rest.take (p / 4 + 4)) then
            (if leVal (rest.take (p / 4 + 4)) < 2 ^ bits then .ok (leVal (rest.take (p / 4 + 4)), 5) else .error .opaque)
           else .error .opaque)
        else if p / 4 + 4 = 8 then
          (if 2 ^ 56 - 1 < leVal (rest.take (p / 4 + 4)) then
            (if leVal (rest.take (p / 4 + 4)) < 2 ^ bits then .ok (leVal (rest.take (p / 4 + 4)), 9) else .error .opaque)
           else .error .opaque)
        else if p / 4 + 4 = 16 then
          (if 2 ^ 120 - 1 < leVal (rest.take (p / 4 + 4)) then
            (if leVal (rest.take (p / 4 + 4)) < 2 ^ bits then .ok (leVal (rest.take (p / 4 + 4)), 17) else .error .opaque)
           else .error .opaque)
        else
          match tryFromLE bits (rest.take (p / 4 + 4)) with
          | none => .error .opaque
          | some x =>
            if (2 ^ (8 * (p / 4 + 4)) - 1) / 2 ^ ((69 - (p / 4 + 4)) * 8) < x then .ok (x, 1 + (p / 4 + 4))
            else .error .opaque := rfl

/-- the big-integer canonicity threshold of the decoder is below every `n`-byte number with a non-zero top byte. -/
theorem threshold_lt (n v : ℕ) (hn : n ≤ 67) (hn1 : 1 ≤ n) (hv : 256 ^ (n - 1) ≤ v) :
    (2 ^ (8 * n) - 1) / 2 ^ ((69 - n) * 8) < v := by
  apply lt_of_lt_of_le _ hv
  rw [Nat.div_lt_iff_lt_mul (by positivity), pow256, ← pow_add]
  have h1 : 8 * n ≤ 8 * (n - 1) + (69 - n) * 8 := by omega
  have h2 : (2:ℕ) ^ (8 * n) ≤ 2 ^ (8 * (n - 1) + (69 - n) * 8) := Nat.pow_le_pow_right (by norm_num) h1
  have h3 : 0 < (2:ℕ) ^ (8 * n) := by positivity
  omega

/-- C16: decoding the compact encoding (followed by arbitrary bytes) returns the value and consumes exactly
    the encoding — every width below the 536-bit compact bound, every value. -/
theorem decCompact_enc (bits v : ℕ) (tail : List ℕ) (hv : v < 2 ^ bits) (hb : bits ≤ 536) :
    decCompact bits (encCompact v ++ tail) = .ok (v, (encCompact v).length) := by
  obtain ⟨m0, m1, m2, m3⟩ := encCompact_modes v
  by_cases h6 : v < 2 ^ 6
  · rw [m0 h6, List.singleton_append, decCompact_cons]
    norm_num at h6
    have e1 : 4 * v % 4 = 0 := by omega
    have e2 : 4 * v / 4 = v := by omega
    rw [if_pos e1, e2, if_pos hv]; rfl
  · by_cases h14 : v < 2 ^ 14
    · rw [m1 (by omega) h14]
      norm_num at h6 h14
      have hb1 : (4 * v + 1) / 256 % 256 = (4 * v + 1) / 256 := by omega
      simp only [toLE, List.cons_append, List.nil_append, hb1]
      rw [decCompact_cons]
      have e1 : ¬ ((4 * v + 1) % 256 % 4 = 0) := by omega
      have e2 : (4 * v + 1) % 256 % 4 = 1 := by omega
      have e3 : ((4 * v + 1) % 256 + 256 * ((4 * v + 1) / 256)) / 4 = v := by omega
      rw [if_neg e1, if_pos e2]
      simp only [e3]
      rw [if_pos (by omega), if_pos hv]; rfl
    · by_cases h30 : v < 2 ^ 30
      · rw [m2 (by omega) h30]
        norm_num at h6 h14 h30
        have hlen : (toLE 4 (4 * v + 2)).length = 4 := by simp
        obtain ⟨p, r3, hpr⟩ : ∃ p r3, toLE 4 (4 * v + 2) = p :: r3 := ⟨_, _, rfl⟩
        have hp : p = (4 * v + 2) % 256 := by simp [toLE] at hpr; exact hpr.1.symm
        have hr3 : r3.length = 3 := by rw [hpr] at hlen; simpa using hlen
        rw [hpr, List.cons_append, decCompact_cons]
        have e1 : ¬ (p % 4 = 0) := by omega
        have e2 : ¬ (p % 4 = 1) := by omega
        have e3 : p % 4 = 2 := by omega
        have t3 : (r3 ++ tail).take 3 = r3 := by
          rw [List.take_append_of_le_length (by omega), List.take_of_length_le (by omega)]
        have hval : leVal (p :: r3) = 4 * v + 2 := by
          rw [← hpr]; exact leVal_toLE_of_lt _ _ (by norm_num; omega)
        rw [if_neg e1, if_neg e2, if_pos e3, if_neg (by simp only [List.length_append]; omega), t3, hval]
        have e4 : (4 * v + 2) / 4 = v := by omega
        rw [e4, if_pos (by omega), if_pos hv]
        simp only [List.length_cons, hr3]
      · obtain ⟨menc, hn4, hlen, hval, hlast⟩ := m3 (by omega)
        rw [menc, List.cons_append, decCompact_cons]
        have hv536 : v < 256 ^ 67 := by
          rw [pow256]; exact lt_of_lt_of_le hv (Nat.pow_le_pow_right (by norm_num) (by omega))
        have hn67 : byteLen v ≤ 67 := (byteLen_le_iff v 67).mpr hv536
        obtain ⟨n, hn⟩ : ∃ n, n = byteLen v := ⟨_, rfl⟩
        rw [← hn] at hn4 hlen hn67 ⊢
        have e1 : ¬ (((n - 4) * 4 + 3) % 4 = 0) := by omega
        have e2 : ¬ (((n - 4) * 4 + 3) % 4 = 1) := by omega
        have e3 : ¬ (((n - 4) * 4 + 3) % 4 = 2) := by omega
        have e4 : ((n - 4) * 4 + 3) / 4 + 4 = n := by omega
        rw [if_neg e1, if_neg e2, if_neg e3, e4]
        have tn : (leTrim v ++ tail).take n = leTrim v := by
          rw [List.take_append_of_le_length (by omega), List.take_of_length_le (by omega)]
        rw [if_neg (by simp only [List.length_append]; omega), tn, hval]
        have hv0 : v ≠ 0 := by norm_num at h30; omega
        have hlo := pow_byteLen_pred_le v hv0
        rw [← hn] at hlo
        simp only [List.length_cons, hlen]
        by_cases c4 : n = 4
        · rw [if_pos c4, if_pos (by norm_num at h30 ⊢; omega), if_pos hv]; subst c4; rfl
        · rw [if_neg c4]
          by_cases c8 : n = 8
          · rw [if_pos c8]
            subst c8
            norm_num at hlo
            rw [if_pos (by norm_num; omega), if_pos hv]
          · rw [if_neg c8]
            by_cases c16 : n = 16
            · rw [if_pos c16]
              subst c16
              norm_num at hlo
              rw [if_pos (by norm_num; omega), if_pos hv]
            · rw [if_neg c16]
              have htf : tryFromLE bits (leTrim v) = some v := tryFromLE_leTrim bits v hv
              simp only [htf]
              rw [if_pos (threshold_lt n v hn67 (by omega) hlo), Nat.add_comm]

/-- what a compact item denotes, mode by mode (the format's reading, without its canonicity conditions):
    `v` is the value and `n` the number of bytes of the item. -/
def CompactDenotes (bs : List ℕ) (v n : ℕ) : Prop :=
  match bs with
  | [] => False
  | p :: rest =>
    n ≤ (p :: rest).length ∧
    (p % 4 = 0 → v = p / 4 ∧ n = 1) ∧
    (p % 4 = 1 → v = leVal ((p :: rest).take 2) / 4 ∧ n = 2) ∧
    (p % 4 = 2 → v = leVal ((p :: rest).take 4) / 4 ∧ n = 4) ∧
    (p % 4 = 3 → v = leVal (rest.take (p / 4 + 4)) ∧ n = 1 + (p / 4 + 4))

/-- C17 (SCALE compact): an accepted input denotes the returned value, which is in range, and exactly the
    item is consumed. -/
theorem decCompact_sound (bits : ℕ) (bs : List ℕ) (v n : ℕ) (h : decCompact bits bs = .ok (v, n)) :
    v < 2 ^ bits ∧ CompactDenotes bs v n := by
  match bs with
  | [] => simp [decCompact_nil] at h
  | p :: rest =>
    rw [decCompact_cons] at h
    simp only [CompactDenotes]
    have hp4 : p % 4 < 4 := Nat.mod_lt _ (by norm_num)
    split at h
    · next m0 =>
      split at h
      · next hf =>
        simp only [Except.ok.injEq, Prod.mk.injEq] at h
        obtain ⟨e1, e2⟩ := h
        subst e1; subst e2
        exact ⟨hf, by simp, fun _ => ⟨rfl, rfl⟩, by omega, by omega, by omega⟩
      · simp at h
    · next m0 =>
      split at h
      · next m1 =>
        match rest with
        | [] => simp at h
        | b1 :: rs =>
          simp only at h
          split at h
          · split at h
            · next hf =>
              simp only [Except.ok.injEq, Prod.mk.injEq] at h
              obtain ⟨e1, e2⟩ := h
              subst e1; subst e2
              refine ⟨hf, by simp, by omega, fun _ => ⟨?_, rfl⟩, by omega, by omega⟩
              simp [leVal]
            · simp at h
          · simp at h
      · next m1 =>
        split at h
        · next m2 =>
          split at h
          · simp at h
          · next hl =>
            split at h
            · split at h
              · next hf =>
                simp only [Except.ok.injEq, Prod.mk.injEq] at h
                obtain ⟨e1, e2⟩ := h
                subst e1; subst e2
                refine ⟨hf, by simp only [List.length_cons]; omega, by omega, by omega, fun _ => ⟨?_, rfl⟩, by omega⟩
                rw [show (4:ℕ) = 3 + 1 by rfl, List.take_succ_cons]
              · simp at h
            · simp at h
        · next m2 =>
          have m3 : p % 4 = 3 := by omega
          obtain ⟨k, hk⟩ : ∃ k, k = p / 4 + 4 := ⟨_, rfl⟩
          rw [← hk] at h ⊢
          split at h
          · simp at h
          · next hl =>
            have hfin : ∀ (c : ℕ), (if leVal (rest.take k) < 2 ^ bits then
                (Except.ok (leVal (rest.take k), c) : DecResult) else .error .opaque) = .ok (v, n) →
                c = 1 + k → v < 2 ^ bits ∧ n ≤ (p :: rest).length ∧ (p % 4 = 0 → v = p / 4 ∧ n = 1) ∧
                  (p % 4 = 1 → v = leVal ((p :: rest).take 2) / 4 ∧ n = 2) ∧
                  (p % 4 = 2 → v = leVal ((p :: rest).take 4) / 4 ∧ n = 4) ∧
                  (p % 4 = 3 → v = leVal (rest.take k) ∧ n = 1 + k) := by
              intro c hc hck
              split at hc
              · next hf =>
                simp only [Except.ok.injEq, Prod.mk.injEq] at hc
                obtain ⟨e1, e2⟩ := hc
                subst e1; subst e2
                exact ⟨hf, by simp only [List.length_cons]; omega, by omega, by omega, by omega, fun _ => ⟨rfl, hck⟩⟩
              · simp at hc
            split at h
            · next c4 =>
              split at h
              · exact hfin 5 h (by omega)
              · simp at h
            · split at h
              · next c8 =>
                split at h
                · exact hfin 9 h (by omega)
                · simp at h
              · split at h
                · next c16 =>
                  split at h
                  · exact hfin 17 h (by omega)
                  · simp at h
                · split at h
                  · simp at h
                  · next x hx =>
                    split at h
                    · simp only [Except.ok.injEq, Prod.mk.injEq] at h
                      obtain ⟨e1, e2⟩ := h
                      subst e1; subst e2
                      obtain ⟨t1, t2, t3⟩ := (tryFromLE_eq_some _ _ _).mp hx
                      exact ⟨t3, by simp only [List.length_cons]; omega, by omega, by omega, by omega,
                        fun _ => ⟨t2.symm, rfl⟩⟩
                    · simp at h

/-! ## fixed form (byte vector) -/

theorem compactU32_length_le (n : ℕ) (h : n < 2 ^ 30) : (compactU32 n).length ≤ 4 := by
  unfold compactU32
  split
  · simp
  · split
    · simp
    · simp

/-- C16: the fixed form's `size_hint` (`4 + BYTES`) is an upper bound of the bytes written, and
    `max_encoded_len` (after the fix) is exactly their number. -/
theorem encFixed_length (bits v : ℕ) (hB : nbytes bits < 2 ^ 30) :
    (encFixed bits v).length ≤ sizeHintFixed bits ∧ (encFixed bits v).length = maxEncodedLen bits := by
  unfold encFixed sizeHintFixed maxEncodedLen
  have := compactU32_length_le (nbytes bits) hB
  rw [List.length_append, toLE_length]
  exact ⟨by omega, rfl⟩

theorem decCompactU32_nil : decCompactU32 [] = .error .opaque := rfl

theorem decCompactU32_cons (p : ℕ) (rest : List ℕ) : decCompactU32 (p :: rest) =
    if p % 4 = 0 then .ok (p / 4, 1)
    else if p % 4 = 1 then
      match rest with
      | [] => .error .opaque
      | b1 :: _ =>
        if 0x3f < (p + 256 * b1) / 4 ∧ (p + 256 * b1) / 4 ≤ 0x3fff then .ok ((p + 256 * b1) / 4, 2) else .error .opaque
    else if p % 4 = 2 then
      if rest.length < 3 then .error .opaque
      else
        if 0x3fff < leVal (p :: rest.take 3) / 4 ∧ leVal (p :: rest.take 3) / 4 ≤ 2 ^ 30 - 1 then
          .ok (leVal (p :: rest.take 3) / 4, 4) else .error .opaque
    else if p / 4 = 0 then
      if rest.length < 4 then .error .opaque
      else
        if 2 ^ 30 - 1 < leVal (rest.take 4) then .ok (leVal (rest.take 4), 5) else .error .opaque
    else .error .opaque := rfl

/-- `Compact<u32>::decode` on the encoding of a length. -/
theorem decCompactU32_enc (n : ℕ) (tail : List ℕ) (hn : n < 2 ^ 32) :
    decCompactU32 (compactU32 n ++ tail) = .ok (n, (compactU32 n).length) := by
  unfold compactU32
  by_cases h6 : n < 2 ^ 6
  · rw [if_pos h6, List.singleton_append, decCompactU32_cons]
    norm_num at h6
    have e1 : n * 4 % 4 = 0 := by omega
    have e2 : n * 4 / 4 = n := by omega
    rw [if_pos e1, e2]; rfl
  · rw [if_neg h6]
    by_cases h14 : n < 2 ^ 14
    · rw [if_pos h14]
      norm_num at h6 h14
      have hb1 : (n * 4 + 1) / 256 % 256 = (n * 4 + 1) / 256 := by omega
      simp only [toLE, List.cons_append, List.nil_append, hb1]
      rw [decCompactU32_cons]
      have e1 : ¬ ((n * 4 + 1) % 256 % 4 = 0) := by omega
      have e2 : (n * 4 + 1) % 256 % 4 = 1 := by omega
      have e3 : ((n * 4 + 1) % 256 + 256 * ((n * 4 + 1) / 256)) / 4 = n := by omega
      rw [if_neg e1, if_pos e2]
      simp only [e3]
      rw [if_pos (by omega)]; rfl
    · rw [if_neg h14]
      by_cases h30 : n < 2 ^ 30
      · rw [if_pos h30]
        norm_num at h6 h14 h30
        have hlen : (toLE 4 (n * 4 + 2)).length = 4 := by simp
        obtain ⟨p, r3, hpr⟩ : ∃ p r3, toLE 4 (n * 4 + 2) = p :: r3 := ⟨_, _, rfl⟩
        have hp : p = (n * 4 + 2) % 256 := by simp [toLE] at hpr; exact hpr.1.symm
        have hr3 : r3.length = 3 := by rw [hpr] at hlen; simpa using hlen
        rw [hpr, List.cons_append, decCompactU32_cons]
        have e1 : ¬ (p % 4 = 0) := by omega
        have e2 : ¬ (p % 4 = 1) := by omega
        have e3 : p % 4 = 2 := by omega
        have t3 : (r3 ++ tail).take 3 = r3 := by
          rw [List.take_append_of_le_length (by omega), List.take_of_length_le (by omega)]
        have hval : leVal (p :: r3) = n * 4 + 2 := by
          rw [← hpr]; exact leVal_toLE_of_lt _ _ (by norm_num; omega)
        rw [if_neg e1, if_neg e2, if_pos e3, if_neg (by simp only [List.length_append]; omega), t3, hval]
        have e4 : (n * 4 + 2) / 4 = n := by omega
        rw [e4, if_pos (by omega)]
        simp only [List.length_cons, hr3]
      · rw [if_neg h30, List.cons_append, decCompactU32_cons]
        have t4 : (toLE 4 n ++ tail).take 4 = toLE 4 n := by
          rw [List.take_append_of_le_length (by simp), List.take_of_length_le (by simp)]
        rw [if_neg (by norm_num), if_neg (by norm_num), if_neg (by norm_num), if_pos (by norm_num),
          if_neg (by simp), t4, leVal_toLE_of_lt _ _ (by norm_num at hn ⊢; omega)]
        norm_num at h30
        rw [if_pos (by norm_num; omega)]
        simp

theorem decCompactU32_le (bs : List ℕ) (len hl : ℕ) (hc : decCompactU32 bs = .ok (len, hl)) : hl ≤ bs.length := by
  match bs, hc with
  | [], hc => simp [decCompactU32_nil] at hc
  | p :: rest, hc =>
    rw [decCompactU32_cons] at hc
    simp only [List.length_cons]
    split at hc
    · simp only [Except.ok.injEq, Prod.mk.injEq] at hc; omega
    · split at hc
      · match rest, hc with
        | [], hc => simp at hc
        | b1 :: rs, hc =>
          simp only at hc
          split at hc
          · simp only [Except.ok.injEq, Prod.mk.injEq] at hc
            simp only [List.length_cons]; omega
          · simp at hc
      · split at hc
        · split at hc
          · simp at hc
          · split at hc
            · simp only [Except.ok.injEq, Prod.mk.injEq] at hc; omega
            · simp at hc
        · split at hc
          · split at hc
            · simp at hc
            · split at hc
              · simp only [Except.ok.injEq, Prod.mk.injEq] at hc; omega
              · simp at hc
          · simp at hc

/-- C16: the fixed form round-trips, consuming exactly the encoding. -/
theorem decFixed_enc (bits v : ℕ) (tail : List ℕ) (hv : v < 2 ^ bits) (hB : nbytes bits < 2 ^ 32) :
    decFixed bits (encFixed bits v ++ tail) = .ok (v, (encFixed bits v).length) := by
  unfold decFixed encFixed
  rw [List.append_assoc, decCompactU32_enc _ _ hB]
  simp only
  rw [List.drop_left, if_neg (by simp), List.take_append_of_le_length (by simp),
    List.take_of_length_le (by simp), tryFromLE_toLE bits v hv]
  simp

/-- C17 (SCALE fixed): an accepted input is a byte vector (compact length, then that many bytes, at most
    `BYTES`) whose little-endian value is the result, in range; exactly the vector is consumed. -/
theorem decFixed_sound (bits : ℕ) (bs : List ℕ) (v n : ℕ) (h : decFixed bits bs = .ok (v, n)) :
    v < 2 ^ bits ∧ n ≤ bs.length ∧
      ∃ len hl, decCompactU32 bs = .ok (len, hl) ∧ n = hl + len ∧ len ≤ nbytes bits
        ∧ leVal ((bs.drop hl).take len) = v := by
  unfold decFixed at h
  split at h
  · simp at h
  · next len hl hc =>
    simp only at h
    split at h
    · simp at h
    · next hlen =>
      split at h
      · simp at h
      · next v' hv' =>
        simp only [Except.ok.injEq, Prod.mk.injEq] at h
        obtain ⟨e1, e2⟩ := h
        subst e1; subst e2
        obtain ⟨t1, t2, t3⟩ := (tryFromLE_eq_some _ _ _).mp hv'
        rw [List.length_drop] at hlen
        have hhl : hl ≤ bs.length := decCompactU32_le bs len hl hc
        refine ⟨t3, by omega, len, hl, hc, rfl, ?_, t2⟩
        rw [List.length_take, List.length_drop] at t1
        omega

/-- the executable lenient reading used by the C17 predicate agrees with `CompactDenotes`. -/
theorem denoteCompact_of_denotes (bs : List ℕ) (v n : ℕ) (h : CompactDenotes bs v n) :
    denoteCompact bs = some (v, n) := by
  match bs, h with
  | [], h => simp [CompactDenotes] at h
  | p :: rest, h =>
    simp only [CompactDenotes] at h
    obtain ⟨hn, h0, h1, h2, h3⟩ := h
    simp only [List.length_cons] at hn
    have hp4 : p % 4 < 4 := Nat.mod_lt _ (by norm_num)
    simp only [denoteCompact]
    by_cases m0 : p % 4 = 0
    · obtain ⟨e1, e2⟩ := h0 m0; subst e1; subst e2; rw [if_pos m0]
    · rw [if_neg m0]
      by_cases m1 : p % 4 = 1
      · obtain ⟨e1, e2⟩ := h1 m1; subst e1; subst e2
        rw [if_pos m1, if_neg (by omega)]
      · rw [if_neg m1]
        by_cases m2 : p % 4 = 2
        · obtain ⟨e1, e2⟩ := h2 m2; subst e1; subst e2
          rw [if_pos m2, if_neg (by omega)]
        · rw [if_neg m2]
          obtain ⟨e1, e2⟩ := h3 (by omega); subst e1; subst e2
          rw [if_neg (by omega)]

/-- C17: an input accepted by `CompactUint::decode` denotes (lenient reading of the format) exactly the returned
    value and item length. -/
theorem decCompact_denote (bits : ℕ) (bs : List ℕ) (v n : ℕ) (h : decCompact bits bs = .ok (v, n)) :
    v < 2 ^ bits ∧ denoteCompact bs = some (v, n) :=
  ⟨(decCompact_sound bits bs v n h).1, denoteCompact_of_denotes bs v n (decCompact_sound bits bs v n h).2⟩


end Ruint.Codec.Scale
