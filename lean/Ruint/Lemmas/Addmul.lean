import Ruint.Lemmas.LimbChains
import Mathlib.Tactic.Push

/-! The complete `addmul` (generic base `B`): trimming loops that advance the accumulator window,
    both early exits, operand swap, row loop with `add_nx1` propagation, short-window arm.
    Value modulo `B^|lhs|` and exact overflow flag. Re-homed from `notes/probes/addmul_full_proof.lean`;
    the definitions are the executable model `Ruint.Limb.*` of `Model/MulKernels.lean`. -/
namespace Ruint.Limb
open Ruint
variable (B : ℕ)

/-- a full row: `val win' + B^|win| * carry = val win + val a * b`. -/
theorem row_spec (win a : List ℕ) (b : ℕ) (h : a.length ≤ win.length) :
    valB B (row B win a b).1 + B ^ win.length * (row B win a b).2 = valB B win + valB B a * b
    ∧ (row B win a b).1.length = win.length := by
  unfold row addmulNx1
  simp only []
  have ht : (win.take a.length).length = a.length := by rw [List.length_take]; omega
  obtain ⟨s1, s2⟩ := addmulNx1Go_spec B (win.take a.length) a b 0 ht
  obtain ⟨t1, t2⟩ := addNx1_spec B (win.drop a.length) (addmulNx1Go B (win.take a.length) a b 0).2
  have hsplit : valB B win = valB B (win.take a.length) + B ^ a.length * valB B (win.drop a.length) := by
    conv_lhs => rw [← List.take_append_drop a.length win]
    rw [valB_append B, ht]
  have hlen : win.length = a.length + (win.drop a.length).length := by rw [List.length_drop]; omega
  constructor
  · rw [valB_append B, s2, ht, hsplit]
    set r1 := addmulNx1Go B (win.take a.length) a b 0
    set r2 := addNx1 B (win.drop a.length) r1.2
    rw [ht] at s1
    have hp : B ^ win.length = B ^ a.length * B ^ (win.drop a.length).length := by
      rw [← pow_add, ← hlen]
    rw [hp]
    have t1' : B ^ a.length * (valB B r2.1 + B ^ (win.drop a.length).length * r2.2)
        = B ^ a.length * (valB B (win.drop a.length) + r1.2) := by rw [t1]
    have e1 : B ^ a.length * (valB B r2.1 + B ^ (win.drop a.length).length * r2.2)
        = B ^ a.length * valB B r2.1 + B ^ a.length * B ^ (win.drop a.length).length * r2.2 := by ring
    have e2 : B ^ a.length * (valB B (win.drop a.length) + r1.2)
        = B ^ a.length * valB B (win.drop a.length) + B ^ a.length * r1.2 := by ring
    omega
  · rw [List.length_append, s2, t2, ht]; omega


theorem row_lt (hW : 0 < B) (win a : List ℕ) (b : ℕ) (h : AllLtB B win) : AllLtB B (row B win a b).1 := by
  unfold row addmulNx1
  exact AllLtB.append (addmulNx1Go_lt B hW _ _ _ _ (h.take _)) (addNx1_lt B hW _ _ (h.drop _))

/-- top limb non-zero -/
def TopNZ (l : List ℕ) : Prop := l.getLast? ≠ some 0

theorem topnz_val (hW : 0 < B) (l : List ℕ) (hne : l ≠ []) (ht : TopNZ l) : B ^ (l.length - 1) ≤ valB B l := by
  induction l with
  | nil => exact absurd rfl hne
  | cons x xs ih =>
    by_cases hxs : xs = []
    · subst hxs
      simp only [TopNZ, List.getLast?_singleton, ne_eq, Option.some.injEq] at ht
      simp; omega
    · have ht' : TopNZ xs := by
        unfold TopNZ at ht ⊢
        obtain ⟨y, ys, rfl⟩ := List.exists_cons_of_ne_nil hxs
        rwa [List.getLast?_cons_cons] at ht
      have := ih hxs ht'
      simp only [valB_cons, List.length_cons, Nat.add_sub_cancel]
      have hl : xs.length = (xs.length - 1) + 1 := by
        have : 0 < xs.length := List.length_pos_of_ne_nil hxs
        omega
      rw [hl, pow_succ]
      nlinarith

theorem topnz_tail (b : ℕ) (bs : List ℕ) (hbs : bs ≠ []) (h : TopNZ (b :: bs)) : TopNZ bs := by
  unfold TopNZ at h ⊢
  obtain ⟨y, ys, rfl⟩ := List.exists_cons_of_ne_nil hbs
  rwa [List.getLast?_cons_cons] at h

/-- Exact accounting for the row loop: total = stored + B^|win| * k, flag = `ov ∨ k ≠ 0`. -/
theorem rows_spec (hW : 2 ≤ B) (a : List ℕ) (ha : a ≠ []) (hatop : TopNZ a) :
    ∀ (bs win : List ℕ) (ov : Bool), AllLtB B win → (bs = [] ∨ TopNZ bs) →
      ∃ k : ℕ, valB B (rows B win a bs ov).1 + B ^ win.length * k = valB B win + valB B a * valB B bs
        ∧ (rows B win a bs ov).1.length = win.length ∧ AllLtB B (rows B win a bs ov).1
        ∧ (rows B win a bs ov).2 = (ov || decide (k ≠ 0)) := by
  have hW0 : 0 < B := by omega
  have haval := topnz_val B hW0 a ha hatop
  have halen : 0 < a.length := List.length_pos_of_ne_nil ha
  intro bs
  induction bs with
  | nil => intro win ov hwin _; exact ⟨0, by simp [rows], by simp [rows], by simpa [rows] using hwin, by simp [rows]⟩
  | cons b bs ih =>
    intro win ov hwin hbtop
    have hbtop0 : TopNZ (b :: bs) := by
      rcases hbtop with h | h
      · simp at h
      · exact h
    have hbtop' : bs = [] ∨ TopNZ bs := by
      by_cases hbs : bs = []
      · left; exact hbs
      · right; exact topnz_tail b bs hbs hbtop0
    have hbval : 1 ≤ valB B (b :: bs) := by
      have := topnz_val B hW0 (b :: bs) (by simp) hbtop0
      have : 1 ≤ B ^ ((b :: bs).length - 1) := Nat.one_le_pow _ _ hW0
      omega
    unfold rows
    by_cases hlen : a.length ≤ win.length
    · -- full row
      simp only [hlen, if_true]
      obtain ⟨r1, r2⟩ := row_spec B win a b hlen
      have rlt := row_lt B hW0 win a b hwin
      set r := row B win a b with hr
      have hwlen : 0 < win.length := by omega
      match hm : r.1 with
      | [] => rw [hm] at r2; simp at r2; omega
      | w :: ws =>
        simp only []
        rw [hm] at r1 r2 rlt
        have hws : AllLtB B ws := fun y hy => rlt y (by simp [hy])
        obtain ⟨k, k1, k2, k3, k4⟩ := ih ws (ov || decide (r.2 ≠ 0)) hws hbtop'
        simp only [List.length_cons] at r2
        have hwl : win.length = ws.length + 1 := by omega
        refine ⟨r.2 + k, ?_, by rw [List.length_cons, k2, hwl], ?_, ?_⟩
        · simp only [valB_cons] at r1 ⊢
          rw [hwl, pow_succ] at r1 ⊢
          have : B * (valB B (rows B ws a bs (ov || decide (r.2 ≠ 0))).1 + B ^ ws.length * k)
              = B * (valB B ws + valB B a * valB B bs) := by rw [k1]
          nlinarith [r1, this]
        · intro y hy
          simp only [List.mem_cons] at hy
          rcases hy with rfl | hy
          · exact rlt y (by simp)
          · exact k3 y hy
        · rw [k4]
          by_cases h1 : r.2 = 0 <;> by_cases h2 : k = 0 <;> simp [h1, h2]
    · -- short window
      simp only [hlen, if_false]
      push Not at hlen
      match hwin_m : win with
      | [] =>
        -- empty window: everything is dropped; k = total ≥ 1
        refine ⟨valB B a * valB B (b :: bs), by simp, by simp, by intro y hy; simp at hy, ?_⟩
        have : valB B a * valB B (b :: bs) ≠ 0 := by
          have : 1 ≤ valB B a := le_trans (Nat.one_le_pow _ _ hW0) haval
          have : 1 ≤ valB B a * valB B (b :: bs) := Nat.mul_pos this hbval
          omega
        have hd : decide (valB B a * valB B (b :: bs) ≠ 0) = true := decide_eq_true this
        rw [hd, Bool.or_true]
      | l :: ls =>
        simp only []
        have hle : (l :: ls).length ≤ a.length := by omega
        obtain ⟨t1, t2⟩ := addmulNx1Go_trunc B (l :: ls) a b 0 hle
        have tlt := addmulNx1Go_lt B hW0 (l :: ls) a b 0 (hwin_m ▸ hwin)
        rw [show addmulNx1 B (l :: ls) (a.take (l :: ls).length) b = addmulNx1Go B (l :: ls) a b 0 from
          addmulNx1Go_take B (l :: ls) a b 0]
        set r := addmulNx1Go B (l :: ls) a b 0 with hr
        match hm : r.1 with
        | [] => rw [hm] at t2; simp at t2
        | w :: ws =>
          simp only []
          rw [hm] at t1 t2 tlt
          have hws : AllLtB B ws := fun y hy => tlt y (by simp [hy])
          obtain ⟨k, k1, k2, k3, k4⟩ := ih ws true hws hbtop'
          simp only [List.length_cons] at t2
          have hwl : ls.length = ws.length := by omega
          set dr := valB B (a.drop (l :: ls).length) with hdr
          have heq : valB B (w :: (rows B ws a bs true).1) + B ^ (l :: ls).length * (r.2 + dr * b + k)
              = valB B (l :: ls) + valB B a * valB B (b :: bs) := by
            simp only [valB_cons, List.length_cons] at t1 ⊢
            rw [hwl, pow_succ] at t1 ⊢
            have : B * (valB B (rows B ws a bs true).1 + B ^ ws.length * k)
                = B * (valB B ws + valB B a * valB B bs) := by rw [k1]
            nlinarith [t1, this]
          have hall : AllLtB B (w :: (rows B ws a bs true).1) := by
            intro y hy
            simp only [List.mem_cons] at hy
            rcases hy with rfl | hy
            · exact tlt y (by simp)
            · exact k3 y hy
          have hlen2 : (w :: (rows B ws a bs true).1).length = (l :: ls).length := by
            rw [List.length_cons, List.length_cons, k2, hwl]
          refine ⟨r.2 + dr * b + k, heq, hlen2, hall, ?_⟩
          rw [k4]
          have hstored := valB_lt_pow B _ hall
          rw [hlen2] at hstored
          have hK : r.2 + dr * b + k ≠ 0 := by
            intro h0
            rw [h0, Nat.mul_zero, Nat.add_zero] at heq
            -- total ≥ val a ≥ B^(|a|-1) ≥ B^|win|
            have h1 : B ^ (l :: ls).length ≤ B ^ (a.length - 1) := Nat.pow_le_pow_right hW0 (by omega)
            have h2 : valB B a ≤ valB B a * valB B (b :: bs) := Nat.le_mul_of_pos_right _ hbval
            omega
          have hd : decide (r.2 + dr * b + k ≠ 0) = true := decide_eq_true hK
          rw [hd]; simp


theorem stripFront_spec (win a : List ℕ) :
    let r := stripFront win a
    win = r.1 ++ r.2.1 ∧ (∃ k, valB B a = B ^ k * valB B r.2.2 ∧ (r.1.length = k ∨ (r.2.1 = [] ∧ r.1.length ≤ k)))
    ∧ (r.2.2 = [] ∨ r.2.2.head? ≠ some 0) := by
  induction a generalizing win with
  | nil => simp [stripFront]
  | cons x xs ih =>
    by_cases hx : x = 0
    · subst hx
      cases win with
      | nil =>
        obtain ⟨i1, ⟨k, i2, i3⟩, i4⟩ := ih []
        simp only [stripFront]
        refine ⟨by simpa using i1, ⟨k + 1, by simp [i2, pow_succ]; ring, ?_⟩, i4⟩
        right
        have h1 : (stripFront [] xs).1 = [] ∧ (stripFront [] xs).2.1 = [] := by
          have := i1; simp at this; exact ⟨this.1, this.2⟩
        exact ⟨h1.2, by rw [h1.1]; simp⟩
      | cons l ls =>
        obtain ⟨i1, ⟨k, i2, i3⟩, i4⟩ := ih ls
        simp only [stripFront]
        refine ⟨by simp [← i1], ⟨k + 1, by simp [i2, pow_succ]; ring, ?_⟩, i4⟩
        rcases i3 with h | ⟨h1, h2⟩
        · left; simp [h]
        · right; exact ⟨h1, by simp; omega⟩
    · have : stripFront win (x :: xs) = ([], win, x :: xs) := by
        cases x with
        | zero => exact absurd rfl hx
        | succ n => rfl
      rw [this]
      exact ⟨by simp, ⟨0, by simp, Or.inl rfl⟩, Or.inr (by simp; exact hx)⟩


theorem stripBack_spec (l : List ℕ) :
    valB B (stripBack l) = valB B l ∧ (stripBack l = [] ∨ TopNZ (stripBack l)) := by
  induction l with
  | nil => simp [stripBack]
  | cons x xs ih =>
    obtain ⟨i1, i2⟩ := ih
    simp only [stripBack]
    match hm : stripBack xs with
    | [] =>
      rw [hm] at i1
      simp only [valB_nil] at i1
      by_cases hx : x = 0
      · simp [hx, ← i1]
      · simp only [hx, if_false]
        refine ⟨by simp [← i1], Or.inr ?_⟩
        simp [TopNZ, hx]
    | y :: ys =>
      rw [hm] at i1 i2
      refine ⟨by simp only [valB_cons] at i1 ⊢; rw [i1], Or.inr ?_⟩
      rcases i2 with h | h
      · simp at h
      · unfold TopNZ at h ⊢; rwa [List.getLast?_cons_cons]

theorem tot_aux (p P vwin vr Q k xy : ℕ) (h : P * (vr + Q * k) = P * (vwin + xy)) :
    p + P * vwin + P * xy = (p + P * vr) + P * Q * k := by
  have h' : P * vr + P * Q * k = P * vwin + P * xy := by
    have := h; rw [Nat.mul_add, Nat.mul_add, ← Nat.mul_assoc] at this; exact this
  omega

theorem fit_aux (p P vr Q : ℕ) (hp : p < P) (hr : vr + 1 ≤ Q) : p + P * vr < P * Q := by
  have h1 := Nat.mul_le_mul_left P hr
  rw [Nat.mul_add, Nat.mul_one] at h1
  omega

set_option maxHeartbeats 1000000 in
/-- `addmul`: `lhs += a*b` modulo `B^|lhs|`, flag exactly when the true sum does not fit. -/
theorem addmul_spec (hW : 2 ≤ B) (lhs a b : List ℕ) (hl : AllLtB B lhs) :
    valB B (addmul B lhs a b).1 = (valB B lhs + valB B a * valB B b) % B ^ lhs.length
    ∧ (addmul B lhs a b).1.length = lhs.length
    ∧ ((addmul B lhs a b).2 = true ↔ B ^ lhs.length ≤ valB B lhs + valB B a * valB B b)
    ∧ AllLtB B (addmul B lhs a b).1 := by
  have hW0 : 0 < B := by omega
  have hlhs := valB_lt_pow B lhs hl
  unfold addmul
  simp only []
  obtain ⟨p1, ⟨k1, q1, r1⟩, _⟩ := stripFront_spec B lhs a
  obtain ⟨p2, ⟨k2, q2, r2⟩, _⟩ := stripFront_spec B (stripFront lhs a).2.1 b
  obtain ⟨va, ta⟩ := stripBack_spec B (stripFront lhs a).2.2
  obtain ⟨vb, tb⟩ := stripBack_spec B (stripFront (stripFront lhs a).2.1 b).2.2
  set s1 := stripFront lhs a
  set s2 := stripFront s1.2.1 b
  set a' := stripBack s1.2.2
  set b' := stripBack s2.2.2
  have hva : valB B a = B ^ k1 * valB B a' := by rw [q1, va]
  have hvb : valB B b = B ^ k2 * valB B b' := by rw [q2, vb]
  by_cases hz : a' = [] ∨ b' = []
  · -- product is zero
    simp only [hz, if_true]
    have hprod : valB B a * valB B b = 0 := by
      rcases hz with h | h
      · rw [hva, h]; simp
      · rw [hvb, h]; simp
    rw [hprod, Nat.add_zero, Nat.mod_eq_of_lt hlhs]
    refine ⟨rfl, trivial, ?_, hl⟩
    constructor
    · intro h; simp at h
    · intro h; omega
  · simp only [hz, if_false]
    push Not at hz
    obtain ⟨hane, hbne⟩ := hz
    have hta : TopNZ a' := by rcases ta with h | h; exact absurd h hane; exact h
    have htb : TopNZ b' := by rcases tb with h | h; exact absurd h hbne; exact h
    have hav := topnz_val B hW0 a' hane hta
    have hbv := topnz_val B hW0 b' hbne htb
    have hap : 1 ≤ valB B a' := le_trans (Nat.one_le_pow _ _ hW0) hav
    have hbp : 1 ≤ valB B b' := le_trans (Nat.one_le_pow _ _ hW0) hbv
    -- lhs = s1.1 ++ s2.1 ++ window
    have hsplit : lhs = s1.1 ++ s2.1 ++ s2.2.1 := by rw [List.append_assoc, ← p2, ← p1]
    have hlen : lhs.length = s1.1.length + s2.1.length + s2.2.1.length := by
      conv_lhs => rw [hsplit]
      simp [List.length_append]; omega
    have hprod : valB B a * valB B b = B ^ (k1 + k2) * (valB B a' * valB B b') := by
      rw [hva, hvb, pow_add]; ring
    by_cases hwe : s2.2.1 = []
    · -- window exhausted: product ≥ B^(k1+k2) ≥ B^|lhs|
      simp only [hwe, if_true]
      have hk : lhs.length ≤ k1 + k2 := by
        rw [hwe] at hlen
        simp at hlen
        have h1 : s1.1.length ≤ k1 := by rcases r1 with h | ⟨_, h⟩ <;> omega
        have h2 : s2.1.length ≤ k2 := by rcases r2 with h | ⟨_, h⟩ <;> omega
        omega
      have hbig : B ^ lhs.length ≤ valB B a * valB B b := by
        rw [hprod]
        have : B ^ lhs.length ≤ B ^ (k1 + k2) := Nat.pow_le_pow_right hW0 hk
        have : 1 ≤ valB B a' * valB B b' := Nat.mul_pos hap hbp
        nlinarith
      have hmod : (valB B lhs + valB B a * valB B b) % B ^ lhs.length = valB B lhs := by
        rw [hprod]
        have : B ^ (k1 + k2) = B ^ lhs.length * B ^ (k1 + k2 - lhs.length) := by
          rw [← pow_add]; congr 1; omega
        rw [this, Nat.mul_assoc, Nat.add_mul_mod_self_left, Nat.mod_eq_of_lt hlhs]
      rw [hmod]
      refine ⟨rfl, trivial, ?_, hl⟩
      constructor
      · intro _; omega
      · intro _; trivial
    · simp only [hwe, if_false]
      -- main case: rows on the window
      have hwin : AllLtB B s2.2.1 := by
        intro y hy; apply hl y; rw [hsplit]; simp [hy]
      have hk1 : s1.1.length = k1 := by
        rcases r1 with h | ⟨h, _⟩
        · exact h
        · exfalso
          -- window of s1 empty ⇒ s2 window empty
          have : s2.2.1 = [] := by
            have := p2; rw [h] at this
            simp at this; exact this.2
          exact hwe this
      have hk2 : s2.1.length = k2 := by
        rcases r2 with h | ⟨h, _⟩
        · exact h
        · exact absurd h hwe
      set pre := s1.1 ++ s2.1 with hpre
      have hprelen : pre.length = k1 + k2 := by rw [hpre, List.length_append, hk1, hk2]
      have hvl : valB B lhs = valB B pre + B ^ (k1 + k2) * valB B s2.2.1 := by
        conv_lhs => rw [hsplit]
        rw [valB_append B, hprelen]
      have hprelt : valB B pre < B ^ (k1 + k2) := by
        have := valB_lt_pow B pre (fun y hy => hl y (by rw [hsplit]; simp [hpre] at hy ⊢; tauto))
        rwa [hprelen] at this
      have hLw : lhs.length = (k1 + k2) + s2.2.1.length := by rw [hlen, hk1, hk2]
      have hWL : B ^ lhs.length = B ^ (k1 + k2) * B ^ s2.2.1.length := by rw [hLw, pow_add]
      -- apply rows_spec in the right orientation
      have main : ∀ (x y : List ℕ), x ≠ [] → TopNZ x → y ≠ [] → TopNZ y → valB B x * valB B y = valB B a' * valB B b' →
          valB B (pre ++ (rows B s2.2.1 x y false).1) = (valB B lhs + valB B a * valB B b) % B ^ lhs.length
          ∧ (pre ++ (rows B s2.2.1 x y false).1).length = lhs.length
          ∧ ((rows B s2.2.1 x y false).2 = true ↔ B ^ lhs.length ≤ valB B lhs + valB B a * valB B b)
          ∧ AllLtB B (pre ++ (rows B s2.2.1 x y false).1) := by
        intro x y hx htx hy hty hxy
        obtain ⟨k, e1, e2, e3, e4⟩ := rows_spec B hW x hx htx y s2.2.1 false hwin (Or.inr hty)
        set rr := rows B s2.2.1 x y false
        have hstored := valB_lt_pow B rr.1 e3
        rw [e2] at hstored
        have htot : valB B lhs + valB B a * valB B b
            = (valB B pre + B ^ (k1 + k2) * valB B rr.1) + B ^ lhs.length * k := by
          rw [hvl, hprod, ← hxy, hWL]
          have h0 : B ^ (k1 + k2) * (valB B rr.1 + B ^ s2.2.1.length * k)
              = B ^ (k1 + k2) * (valB B s2.2.1 + valB B x * valB B y) := by rw [e1]
          exact tot_aux _ _ _ _ _ _ _ h0
        have hfit : valB B pre + B ^ (k1 + k2) * valB B rr.1 < B ^ lhs.length := by
          rw [hWL]
          exact fit_aux _ _ _ _ hprelt hstored
        have hpreall : AllLtB B pre := fun y hy => hl y (by rw [hsplit]; simp [hpre] at hy ⊢; tauto)
        refine ⟨?_, by rw [List.length_append, e2, hprelen, hLw], ?_, AllLtB.append hpreall e3⟩
        · rw [valB_append B, hprelen, htot, Nat.add_mul_mod_self_left, Nat.mod_eq_of_lt hfit]
        · rw [e4, htot]
          simp only [Bool.false_or, decide_eq_true_eq]
          constructor
          · intro hk
            have : 1 ≤ k := Nat.one_le_iff_ne_zero.mpr hk
            nlinarith [Nat.zero_le (valB B pre + B ^ (k1 + k2) * valB B rr.1)]
          · intro hle hk0
            rw [hk0] at hle; omega
      by_cases hsw : b'.length > a'.length
      · simp only [hsw, if_true]
        have := main b' a' hbne htb hane hta (Nat.mul_comm _ _)
        simpa [hpre] using this
      · simp only [hsw, if_false]
        have := main a' b' hane hta hbne htb rfl
        simpa [hpre] using this



end Ruint.Limb
