import Ruint.Lemmas.FloatTryD

/-! `try_from(f64)`: everything after the NaN / sign / modulus checks. -/
namespace Ruint.Float

theorem isNaN_of_fin (x m : ℕ) (neg : Bool) (e : ℤ) (hx : decode b64 x = .fin neg m e) : isNaN b64 x = false := by
  unfold isNaN; rw [hx]

/-- everything after the NaN / sign / modulus checks, given that the value is below `2^bits`. -/
theorem tf_tail (bits x m : ℕ) (neg : Bool) (e : ℤ) (hx64 : x < 2 ^ 64)
    (hx : decode b64 x = .fin neg m e) (hnn : neg = false ∨ m = 0)
    (hval : m * 2 ^ (e - (bits : ℤ)).toNat < 2 ^ ((bits : ℤ) - e).toNat) :
    (if lt b64 x (half b64) = true then Res.ok 0 else tfMain true bits x) = tryFromU64 bits (floorHalf m e) := by
  by_cases hlt : lt b64 x (half b64) = true
  · rw [if_pos hlt]
    have hz : floorHalf m e = 0 := by
      rcases hnn with hn | hm0
      · subst hn
        rw [half_eq, lt_pow2_iff x m e (-1) hx (by norm_num) (by norm_num)] at hlt
        exact floorHalf_small m e hlt
      · subst hm0; exact floorHalf_zero e
    rw [hz]; simp [tryFromU64]
  · rw [if_neg hlt]
    -- the value is at least one half, so it is positive and normal
    have hm0 : m ≠ 0 := by
      intro h0; subst h0
      apply hlt
      cases neg
      · rw [half_eq, lt_pow2_iff x 0 e (-1) hx (by norm_num) (by norm_num)]
        simp
      · unfold lt; rw [hx, decode_half]
        simp only [Dec.lt, sInt, if_true, Bool.false_eq_true, if_false, decide_eq_true_eq]
        have : 0 < 2 ^ 52 * 2 ^ ((-53 : ℤ) - min e (-53)).toNat := by positivity
        simp only [Nat.zero_mul, Nat.cast_zero, neg_zero]
        exact_mod_cast this
    have hneg : neg = false := by
      rcases hnn with h | h
      · exact h
      · exact absurd h hm0
    subst hneg
    rw [half_eq, lt_pow2_iff x m e (-1) hx (by norm_num) (by norm_num), not_lt] at hlt
    obtain ⟨hB, _, hcase⟩ := decode_fin_fields x m false e hx
    have hF : x % 2 ^ 52 < 2 ^ 52 := Nat.mod_lt _ (by norm_num)
    have hm52 : 2 ^ 52 ≤ m := by
      rcases hcase with ⟨_, hm', he'⟩ | ⟨_, hm', _⟩
      · -- subnormal: below one half
        exfalso
        subst he'
        have h1 : ((-1 : ℤ) - -1074).toNat = 1073 := by omega
        have h2 : ((-1074 : ℤ) - -1).toNat = 0 := by omega
        rw [h1, h2, pow_zero, Nat.mul_one] at hlt
        have : (2 : ℕ) ^ 52 < 2 ^ 1073 := Nat.pow_lt_pow_right (by norm_num) (by norm_num)
        omega
      · omega
    have hm53 : m < 2 ^ 53 := by
      rcases hcase with ⟨_, hm', _⟩ | ⟨_, hm', _⟩ <;> omega
    rcases le_or_gt 0 e with he | he
    · -- integer
      have hlt' : m * 2 ^ e.toNat < 2 ^ bits := by
        rcases le_or_gt (bits : ℤ) e with hk | hk
        · exfalso
          have h1 : ((bits : ℤ) - e).toNat = 0 := by omega
          rw [h1, pow_zero] at hval
          have : 0 < m * 2 ^ (e - (bits : ℤ)).toNat := Nat.mul_pos (by omega) (by positivity)
          omega
        · have h1 : (e - (bits : ℤ)).toNat = 0 := by omega
          rw [h1, pow_zero, Nat.mul_one] at hval
          have h2 : bits = ((bits : ℤ) - e).toNat + e.toNat := by omega
          calc m * 2 ^ e.toNat < 2 ^ ((bits : ℤ) - e).toNat * 2 ^ e.toNat :=
                Nat.mul_lt_mul_of_pos_right hval (by positivity)
            _ = 2 ^ bits := by rw [← pow_add, ← h2]
      rw [tfMain_int bits x m e hx hx64 hm52 he hlt', floorHalf_nonneg_exp m e he]
      simp [tryFromU64, hlt']
    · -- fraction
      obtain ⟨s, hs⟩ : ∃ s : ℕ, e = -(s : ℤ) := ⟨(-e).toNat, by omega⟩
      subst hs
      have hs1 : 1 ≤ s := by omega
      have hs53 : s ≤ 53 := by
        by_contra hc
        have h1 : ((-1 : ℤ) - -(s : ℤ)).toNat = s - 1 := by omega
        have h2 : (-(s : ℤ) - -1).toNat = 0 := by omega
        rw [h1, h2, pow_zero, Nat.mul_one] at hlt
        have : 2 ^ 53 ≤ 2 ^ (s - 1) := Nat.pow_le_pow_right (by norm_num) (by omega)
        omega
      rw [tfMain_frac true bits x m s hx hm52 hs1 hs53, floorHalf_neg_exp m s hs1]

end Ruint.Float
