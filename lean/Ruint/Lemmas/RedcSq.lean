import Ruint.Lemmas.RedcMul

/-!
# Lemmas for `Model/Redc.lean`, part 3: `square_redc` — word primitive, the two limb chains
# (`carrying_double_mul_add` row, reduce-and-shift row), and the list-free arithmetic core of the invariant
# (re-homed from `notes/probes/square_redc_invariant_probe.lean`).

`3 ≤ B` is needed throughout: the code keeps `add + carry_lo + 2^64·carry_hi` and
`carry_outer + carry_lo + 2^64·carry_hi + carry` in a double word, which needs `3·B ≤ B²`.
-/
namespace Ruint.Redc
open Ruint

/-! ## arithmetic core of the invariant (list-free) -/
namespace Sq

/-- iteration `i` adds `X·(X + 2H')` with `X = a_i·B^i`: the square telescopes. -/
theorem telescope (X H' : ℕ) : X * (X + 2 * H') + H' ^ 2 = (X + H') ^ 2 := by ring

/-- one step preserves the invariant: from `T₀·P₀ + H₀² = a² + M₀·Mod` with `H₀ = X + H`,
    the step's exactness `T·B·P₀ = T₀·P₀ + X·(X+2H) + m·P₀·Mod` gives the invariant at `P = B·P₀`. -/
theorem inv_step (a Mod B P0 T0 M0 X H T m : ℕ)
    (hinv : T0 * P0 + (X + H) ^ 2 = a ^ 2 + M0 * Mod)
    (hstep : T * (B * P0) = T0 * P0 + X * (X + 2 * H) + m * P0 * Mod) :
    T * (B * P0) + H ^ 2 = a ^ 2 + (M0 + m * P0) * Mod := by
  have := telescope X H
  nlinarith [hinv, hstep, this]

/-- multiplier bound: `M₀ < P₀`, `m < B` ⇒ `M₀ + m·P₀ < B·P₀`. -/
theorem mult_bound (B P0 M0 m : ℕ) (hM : M0 < P0) (hm : m < B) : M0 + m * P0 < B * P0 := by
  have : (m + 1) * P0 ≤ B * P0 := Nat.mul_le_mul_right _ hm
  nlinarith

/-- the accumulator stays below `3·Mod`: hence `carry_outer ≤ 2`. -/
theorem acc_bound (a Mod P lo H T M : ℕ) (hP : 0 < P)
    (ha : a = lo + H) (hlo : lo < P) (haM : a < Mod) (hM : M < P)
    (hinv : T * P + H ^ 2 = a ^ 2 + M * Mod) : T < 3 * Mod := by
  have h1 : a ^ 2 = lo * (a + H) + H ^ 2 := by rw [ha]; ring
  have h2 : T * P = lo * (a + H) + M * Mod := by omega
  have hH : H ≤ a := by omega
  have h3 : lo * (a + H) ≤ (P - 1) * (2 * Mod) := Nat.mul_le_mul (by omega) (by omega)
  have h4 : M * Mod ≤ (P - 1) * Mod := Nat.mul_le_mul_right _ (by omega)
  by_contra hc; push Not at hc
  have h5 : 3 * Mod * P ≤ T * P := Nat.mul_le_mul_right _ hc
  have h6 : (P - 1) * (2 * Mod) + (P - 1) * Mod = 3 * Mod * (P - 1) := by ring
  have h7 : 3 * Mod * (P - 1) + 3 * Mod = 3 * Mod * P := by
    have : P - 1 + 1 = P := Nat.sub_add_cancel hP
    calc 3 * Mod * (P - 1) + 3 * Mod = 3 * Mod * (P - 1 + 1) := by ring
      _ = 3 * Mod * P := by rw [this]
  omega

/-- at the end (`H = 0`, `P = B^N > Mod`) the accumulator is below `2·Mod`: `carry_outer ≤ 1` and one
    conditional subtraction suffices. -/
theorem final_bound (a Mod P T M : ℕ) (haM : a < Mod) (hMP : Mod ≤ P) (hM : M < P)
    (hinv : T * P = a ^ 2 + M * Mod) : T < 2 * Mod := by
  by_contra hc; push Not at hc
  have h5 : 2 * Mod * P ≤ T * P := Nat.mul_le_mul_right _ hc
  have h1 : a ^ 2 < Mod * Mod := by
    have : a * a < Mod * Mod := Nat.mul_lt_mul'' haM haM
    rw [pow_two]; exact this
  have h2 : Mod * Mod ≤ Mod * P := Nat.mul_le_mul_left _ hMP
  have h3 : M * Mod ≤ (P - 1) * Mod := Nat.mul_le_mul_right _ (by omega)
  have h4 : (P - 1) * Mod + Mod = Mod * P := by
    have hP : 0 < P := by omega
    have : P - 1 + 1 = P := Nat.sub_add_cancel hP
    calc (P - 1) * Mod + Mod = (P - 1 + 1) * Mod := by ring
      _ = Mod * P := by rw [this]; ring
  have h6 : 2 * Mod * P = Mod * P + Mod * P := by ring
  have hMod : 0 < Mod := by omega
  omega

end Sq

/-! ## `carrying_double_mul_add` -/

/-- no bit is lost: `value + B·lo + B²·hi = 2·l·r + add + c_lo + B·c_hi`. -/
theorem carryingDoubleMulAdd_spec (B l r a clo : ℕ) (chi : Bool) (hB : 3 ≤ B)
    (hl : l < B) (hr : r < B) (ha : a < B) (hclo : clo < B) :
    (carryingDoubleMulAdd B l r a clo chi).1 + B * (carryingDoubleMulAdd B l r a clo chi).2.1
        + (B * B) * (carryingDoubleMulAdd B l r a clo chi).2.2.toNat
      = 2 * (l * r) + a + clo + B * chi.toNat
    ∧ (carryingDoubleMulAdd B l r a clo chi).1 < B ∧ (carryingDoubleMulAdd B l r a clo chi).2.1 < B := by
  have hB0 : 0 < B := by omega
  have hchi : chi.toNat ≤ 1 := Bool.toNat_le chi
  obtain ⟨Q, hQ⟩ : ∃ Q, Q = B * B := ⟨_, rfl⟩
  obtain ⟨K, hK⟩ : ∃ K, K = (B - 1) * (B - 1) := ⟨_, rfl⟩
  have hKQ : K + 2 * (B - 1) + 1 = Q := by
    rw [hK, hQ]
    obtain ⟨k, rfl⟩ : ∃ k, B = k + 1 := ⟨B - 1, by omega⟩
    simp only [Nat.add_sub_cancel]; ring
  have hQ3 : 3 * B ≤ Q := by rw [hQ]; exact Nat.mul_le_mul_right _ hB
  obtain ⟨p, hp⟩ : ∃ p, p = l * r := ⟨_, rfl⟩
  have hpK : p ≤ K := by rw [hp, hK]; exact Nat.mul_le_mul (by omega) (by omega)
  obtain ⟨cb, hcb⟩ : ∃ cb, cb = chi.toNat * B := ⟨_, rfl⟩
  have hcbB : cb ≤ B := by rw [hcb]; nlinarith
  have hcb' : B * chi.toNat = cb := by rw [hcb]; ring
  unfold carryingDoubleMulAdd
  simp only [← hQ, ← hp, ← hcb]
  rw [hcb']
  have e0 : p % Q = p := Nat.mod_eq_of_lt (by omega)
  have e1 : (a + clo + cb) % Q = a + clo + cb := Nat.mod_eq_of_lt (by omega)
  rw [e0, e1]
  have hQ0 : 0 < Q := by omega
  -- finishing step shared by the three cases: split the double word `x < Q`
  have fin : ∀ x c : ℕ, x < Q → x + Q * c = 2 * p + a + clo + cb →
      x % B + B * (x / B) + Q * c = 2 * p + a + clo + cb ∧ x % B < B ∧ x / B < B := by
    intro x c hx hxc
    have := Nat.div_add_mod x B
    refine ⟨by omega, Nat.mod_lt _ hB0, ?_⟩
    rw [hQ] at hx; exact Nat.div_lt_of_lt_mul hx
  by_cases h1 : Q ≤ p + p
  · have w1 : (p + p) % Q = p + p - Q := by
      rw [Nat.mod_eq_sub_mod h1, Nat.mod_eq_of_lt (by omega)]
    have h2 : ¬ Q ≤ (p + p) % Q + (a + clo + cb) := by rw [w1]; omega
    have w2 : ((p + p) % Q + (a + clo + cb)) % Q = p + p - Q + (a + clo + cb) := by
      rw [w1]; exact Nat.mod_eq_of_lt (by omega)
    simp only [h1, h2, decide_true, decide_false, Bool.true_or, Bool.toNat_true, w2]
    exact fin (p + p - Q + (a + clo + cb)) 1 (by omega) (by omega)
  · have w1 : (p + p) % Q = p + p := Nat.mod_eq_of_lt (by omega)
    rw [w1]
    simp only [h1, decide_false, Bool.false_or]
    by_cases h2 : Q ≤ p + p + (a + clo + cb)
    · have w2 : (p + p + (a + clo + cb)) % Q = p + p + (a + clo + cb) - Q := by
        rw [Nat.mod_eq_sub_mod h2, Nat.mod_eq_of_lt (by omega)]
      simp only [h2, decide_true, Bool.toNat_true, w2]
      exact fin (p + p + (a + clo + cb) - Q) 1 (by omega) (by omega)
    · have w2 : (p + p + (a + clo + cb)) % Q = p + p + (a + clo + cb) := Nat.mod_eq_of_lt (by omega)
      simp only [h2, decide_false, Bool.toNat_false, w2]
      exact fin (p + p + (a + clo + cb)) 0 (by omega) (by omega)

/-! ## the two limb chains -/

/-- the `carrying_double_mul_add` row: `for j in (i+1)..N`. -/
theorem sqRow_spec (B ai : ℕ) (hB : 3 ≤ B) (hai : ai < B) (as rs : List ℕ) (clo : ℕ) (chi : Bool)
    (h : as.length = rs.length) (has : AllLtB B as) (hrs : AllLtB B rs) (hclo : clo < B) :
    valB B (sqRow B ai as rs clo chi).1
        + B ^ rs.length * ((sqRow B ai as rs clo chi).2.1 + B * (sqRow B ai as rs clo chi).2.2.toNat)
      = valB B rs + 2 * (ai * valB B as) + clo + B * chi.toNat
    ∧ (sqRow B ai as rs clo chi).1.length = rs.length
    ∧ AllLtB B (sqRow B ai as rs clo chi).1
    ∧ (sqRow B ai as rs clo chi).2.1 < B := by
  induction rs generalizing as clo chi with
  | nil => cases as <;> simp_all [sqRow, AllLtB]
  | cons r rs ih =>
    cases as with
    | nil => simp at h
    | cons aj as =>
      simp only [List.length_cons, Nat.add_right_cancel_iff] at h
      obtain ⟨e1, vlt, lolt⟩ := carryingDoubleMulAdd_spec B ai aj r clo chi hB hai has.head hrs.head hclo
      obtain ⟨ih1, ih2, ih3, ih4⟩ := ih as (carryingDoubleMulAdd B ai aj r clo chi).2.1
        (carryingDoubleMulAdd B ai aj r clo chi).2.2 h has.tail hrs.tail lolt
      simp only [sqRow, valB_cons, List.length_cons, pow_succ]
      refine ⟨?_, by simp [ih2], AllLtB.cons vlt ih3, ih4⟩
      generalize sqRow B ai as rs (carryingDoubleMulAdd B ai aj r clo chi).2.1
        (carryingDoubleMulAdd B ai aj r clo chi).2.2 = rest at *
      generalize carryingDoubleMulAdd B ai aj r clo chi = p at *
      linear_combination B * ih1 + e1

/-- the reduce-and-shift row: `for j in 1..N`. -/
theorem redRow_spec (B m : ℕ) (hm : m < B) (ms rs : List ℕ) (c : ℕ)
    (h : ms.length = rs.length) (hms : AllLtB B ms) (hrs : AllLtB B rs) (hc : c < B) :
    valB B (redRow B m ms rs c).1 + B ^ rs.length * (redRow B m ms rs c).2
      = valB B rs + valB B ms * m + c
    ∧ (redRow B m ms rs c).1.length = rs.length
    ∧ AllLtB B (redRow B m ms rs c).1
    ∧ (redRow B m ms rs c).2 < B := by
  induction rs generalizing ms c with
  | nil => cases ms <;> simp_all [redRow, AllLtB]
  | cons r rs ih =>
    cases ms with
    | nil => simp at h
    | cons mo ms =>
      simp only [List.length_cons, Nat.add_right_cancel_iff] at h
      obtain ⟨e1, vlt, clt⟩ := carryingMulAdd_spec B mo m r c hms.head hm hrs.head hc
      obtain ⟨ih1, ih2, ih3, ih4⟩ := ih ms (carryingMulAdd B mo m r c).2 h hms.tail hrs.tail clt
      simp only [redRow, valB_cons, List.length_cons, pow_succ]
      refine ⟨?_, by simp [ih2], AllLtB.cons vlt ih3, ih4⟩
      generalize redRow B m ms rs (carryingMulAdd B mo m r c).2 = rest at *
      generalize carryingMulAdd B mo m r c = p at *
      linear_combination B * ih1 + e1

/-! ## one outer iteration -/

/-- the part of `sqOuter` before the threshold arms: shifted limbs, `carry_lo`, `carry_hi`, `carry`, and the
    `debug_assert_eq!(value, 0)` flag. -/
def sqOuterRaw (B inv i ai : ℕ) (as md res : List ℕ) : List ℕ × ℕ × Bool × ℕ × Bool :=
  match res.drop i, md with
  | ri :: rs, m0 :: ms =>
      let p := carryingMulAdd B ai ai ri 0
      let row := sqRow B ai as rs p.2 false
      let res1 := res.take i ++ p.1 :: row.1
      let r0 := res1.headD 0
      let m := (r0 * inv) % B
      let q := carryingMulAdd B m m0 r0 0
      let red := redRow B m ms res1.tail q.2
      (red.1, row.2.1, row.2.2, red.2, decide (q.1 = 0))
  | _, _ => (res, 0, false, 0, true)

theorem sqOuter_eq (B inv : ℕ) (keep : Bool) (i ai : ℕ) (as md : List ℕ) (s : SqSt)
    (rl rs : List ℕ) (ri : ℕ) (hres : s.res = rl ++ ri :: rs) (hi : rl.length = i) (hmd : md ≠ []) :
    sqOuter B inv keep i ai as md s =
      if keep then
        { res := (sqOuterRaw B inv i ai as md s.res).1
            ++ [(s.carryOuter + (sqOuterRaw B inv i ai as md s.res).2.1
              + (sqOuterRaw B inv i ai as md s.res).2.2.1.toNat * B
              + (sqOuterRaw B inv i ai as md s.res).2.2.2.1) % (B * B) % B],
          carryOuter := (s.carryOuter + (sqOuterRaw B inv i ai as md s.res).2.1
              + (sqOuterRaw B inv i ai as md s.res).2.2.1.toNat * B
              + (sqOuterRaw B inv i ai as md s.res).2.2.2.1) % (B * B) / B,
          ok := s.ok && (sqOuterRaw B inv i ai as md s.res).2.2.2.2
            && decide ((s.carryOuter + (sqOuterRaw B inv i ai as md s.res).2.1
              + (sqOuterRaw B inv i ai as md s.res).2.2.1.toNat * B
              + (sqOuterRaw B inv i ai as md s.res).2.2.2.1) % (B * B) / B ≤ 2) }
      else
        { res := (sqOuterRaw B inv i ai as md s.res).1
            ++ [((sqOuterRaw B inv i ai as md s.res).2.1 + (sqOuterRaw B inv i ai as md s.res).2.2.2.1) % B],
          carryOuter := s.carryOuter,
          ok := s.ok && (sqOuterRaw B inv i ai as md s.res).2.2.2.2
            && !(sqOuterRaw B inv i ai as md s.res).2.2.1 && decide (s.carryOuter = 0)
            && decide ((sqOuterRaw B inv i ai as md s.res).2.1
              + (sqOuterRaw B inv i ai as md s.res).2.2.2.1 < B) } := by
  obtain ⟨res, co, ok⟩ := s
  simp only at hres
  subst hres
  have hd : (rl ++ ri :: rs).drop i = ri :: rs := by rw [← hi]; simp
  cases md with
  | nil => exact absurd rfl hmd
  | cons m0 ms =>
    cases keep <;> simp only [sqOuter, sqOuterRaw, hd]

/-- exactness of the multiply-reduce-shift part of iteration `i` (without the incoming `carry_outer`):
    `B·(val red + B^(N−1)·(c_lo + B·c_hi + c)) = val res + B^i·a_i·(a_i + 2B·val a[i+1..]) + Mod·m`. -/
theorem sqOuterRaw_spec (B inv ai : ℕ) (hB : 3 ≤ B) (as md rl rs : List ℕ) (ri : ℕ)
    (hai : ai < B) (has : AllLtB B as) (hmd : AllLtB B md) (hres : AllLtB B (rl ++ ri :: rs))
    (hlas : as.length = rs.length) (hlmd : md.length = rl.length + rs.length + 1)
    (hinv : (inv * md.headD 0) % B = B - 1) :
    (∃ m, m < B ∧
      B * (valB B (sqOuterRaw B inv rl.length ai as md (rl ++ ri :: rs)).1
          + B ^ (rl.length + rs.length) * ((sqOuterRaw B inv rl.length ai as md (rl ++ ri :: rs)).2.1
            + B * (sqOuterRaw B inv rl.length ai as md (rl ++ ri :: rs)).2.2.1.toNat
            + (sqOuterRaw B inv rl.length ai as md (rl ++ ri :: rs)).2.2.2.1))
        = valB B (rl ++ ri :: rs) + B ^ rl.length * (ai * (ai + 2 * (B * valB B as))) + valB B md * m)
    ∧ (sqOuterRaw B inv rl.length ai as md (rl ++ ri :: rs)).1.length = rl.length + rs.length
    ∧ AllLtB B (sqOuterRaw B inv rl.length ai as md (rl ++ ri :: rs)).1
    ∧ (sqOuterRaw B inv rl.length ai as md (rl ++ ri :: rs)).2.1 < B
    ∧ (sqOuterRaw B inv rl.length ai as md (rl ++ ri :: rs)).2.2.2.1 < B
    ∧ (sqOuterRaw B inv rl.length ai as md (rl ++ ri :: rs)).2.2.2.2 = true := by
  have hB0 : 0 < B := by omega
  have hd : (rl ++ ri :: rs).drop rl.length = ri :: rs := by simp
  have ht : (rl ++ ri :: rs).take rl.length = rl := by simp
  cases md with
  | nil => simp at hlmd
  | cons m0 ms =>
    simp only [List.length_cons, Nat.add_right_cancel_iff] at hlmd
    simp only [List.headD_cons] at hinv
    have hri : ri < B := hres.right.head
    have hrs : AllLtB B rs := hres.right.tail
    have hrl : AllLtB B rl := hres.left
    obtain ⟨ep, p1lt, p2lt⟩ := carryingMulAdd_spec B ai ai ri 0 hai hai hri hB0
    obtain ⟨p, hp⟩ : ∃ p, p = carryingMulAdd B ai ai ri 0 := ⟨_, rfl⟩
    rw [← hp] at ep p1lt p2lt
    obtain ⟨erow, rowlen, rowlt, rowclo⟩ := sqRow_spec B ai hB hai as rs p.2 false hlas has hrs p2lt
    obtain ⟨row, hrow⟩ : ∃ row, row = sqRow B ai as rs p.2 false := ⟨_, rfl⟩
    rw [← hrow] at erow rowlen rowlt rowclo
    -- the array after the multiply phase
    obtain ⟨res1, hres1⟩ : ∃ res1, res1 = rl ++ p.1 :: row.1 := ⟨_, rfl⟩
    have hres1lt : AllLtB B res1 := by rw [hres1]; exact AllLtB.append hrl (AllLtB.cons p1lt rowlt)
    have hres1len : res1.length = rl.length + rs.length + 1 := by
      rw [hres1]; simp [rowlen]; omega
    have hres1v : valB B res1 = valB B rl + B ^ rl.length * (p.1 + B * valB B row.1) := by
      rw [hres1, valB_append, valB_cons]
    obtain ⟨r0, tl, hcons⟩ : ∃ r0 tl, res1 = r0 :: tl := by
      cases h : res1 with
      | nil => rw [h] at hres1len; simp at hres1len
      | cons x xs => exact ⟨x, xs, rfl⟩
    have hr0 : r0 < B := by rw [hcons] at hres1lt; exact hres1lt.head
    have htl : AllLtB B tl := by rw [hcons] at hres1lt; exact hres1lt.tail
    have htllen : tl.length = rl.length + rs.length := by
      rw [hcons] at hres1len; simpa using hres1len
    have hres1v' : valB B res1 = r0 + B * valB B tl := by rw [hcons, valB_cons]
    obtain ⟨m, hm⟩ : ∃ m, m = (r0 * inv) % B := ⟨_, rfl⟩
    have hmB : m < B := by rw [hm]; exact Nat.mod_lt _ hB0
    obtain ⟨eq, q1lt, q2lt⟩ := carryingMulAdd_spec B m m0 r0 0 hmB hmd.head hr0 hB0
    obtain ⟨q, hq⟩ : ∃ q, q = carryingMulAdd B m m0 r0 0 := ⟨_, rfl⟩
    rw [← hq] at eq q1lt q2lt
    have hz : q.1 = 0 := by
      have hk := m_kills B inv m0 r0 hB0 hinv
      rw [← hm] at hk
      have : q.1 = (m * m0 + r0 + 0) % B := by
        rw [← eq, Nat.add_mul_mod_self_left, Nat.mod_eq_of_lt q1lt]
      rw [this, Nat.add_zero, Nat.mul_comm]; exact hk
    obtain ⟨ered, redlen, redlt, redc⟩ := redRow_spec B m hmB ms tl q.2 (by omega) hmd.tail htl q2lt
    obtain ⟨red, hred⟩ : ∃ red, red = redRow B m ms tl q.2 := ⟨_, rfl⟩
    rw [← hred] at ered redlen redlt redc
    have hraw : sqOuterRaw B inv rl.length ai as (m0 :: ms) (rl ++ ri :: rs)
        = (red.1, row.2.1, row.2.2, red.2, decide (q.1 = 0)) := by
      simp only [sqOuterRaw, hd, ht, ← hp, ← hrow, ← hres1]
      simp only [hcons, List.headD_cons, List.tail_cons, ← hm, ← hq, ← hred]
    rw [hraw]
    simp only
    refine ⟨⟨m, hmB, ?_⟩, by rw [redlen, htllen], redlt, rowclo, redc, by simp [hz]⟩
    rw [valB_append, valB_cons, valB_cons]
    rw [hz] at eq
    rw [htllen] at ered
    have hjoin : r0 + B * valB B tl = valB B rl + B ^ rl.length * (p.1 + B * valB B row.1) := by
      rw [← hres1v', hres1v]
    simp only [Bool.toNat_false, Nat.mul_zero, Nat.add_zero] at erow ep eq
    linear_combination B * ered + eq + hjoin + (B ^ rl.length * B) * erow + B ^ rl.length * ep

/-! ## the invariant, one step, the loop -/

/-- Loop invariant before iteration `i = pre.length`, with `a = pre ++ suf`:
    `T·B^i + (B^i·val suf)² = a² + M·Mod`, `M < B^i`, `T < 3·Mod`, where `T = val res + B^N·carry_outer`. -/
structure SqInv (B : ℕ) (keep : Bool) (a md pre suf : List ℕ) (s : SqSt) (M : ℕ) : Prop where
  split : a = pre ++ suf
  len : s.res.length = md.length
  lt : AllLtB B s.res
  eq : (valB B s.res + B ^ md.length * s.carryOuter) * B ^ pre.length + (B ^ pre.length * valB B suf) ^ 2
        = valB B a ^ 2 + M * valB B md
  mult : M < B ^ pre.length
  bound : valB B s.res + B ^ md.length * s.carryOuter < 3 * valB B md
  small : keep = false → s.carryOuter = 0

set_option maxHeartbeats 800000 in
theorem sqOuter_step (B inv : ℕ) (keep : Bool) (hB : 3 ≤ B) (a md pre as : List ℕ) (ai : ℕ) (s : SqSt) (M : ℕ)
    (ha : AllLtB B a) (hmd : AllLtB B md) (hla : a.length = md.length)
    (hinv : (inv * md.headD 0) % B = B - 1) (haM : valB B a < valB B md)
    (hkeep : keep = false → 3 * valB B md ≤ B ^ md.length)
    (h : SqInv B keep a md pre (ai :: as) s M) :
    ∃ M', SqInv B keep a md (pre ++ [ai]) as (sqOuter B inv keep pre.length ai as md s) M'
      ∧ (sqOuter B inv keep pre.length ai as md s).ok = s.ok := by
  have hB0 : 0 < B := by omega
  obtain ⟨hsplit, hlen, hlt, heq, hmult, hbound, hsmall⟩ := h
  obtain ⟨res, co, ok⟩ := s
  simp only at hlen hlt heq hbound hsmall ⊢
  -- lengths
  have hlen_a : pre.length + as.length + 1 = md.length := by
    rw [← hla, hsplit]; simp; omega
  have hpre_lt : AllLtB B pre := by rw [hsplit] at ha; exact ha.left
  have hai : ai < B := by rw [hsplit] at ha; exact ha.right.head
  have has : AllLtB B as := by rw [hsplit] at ha; exact ha.right.tail
  -- split the result array at i
  obtain ⟨rl, hrl⟩ : ∃ rl, rl = res.take pre.length := ⟨_, rfl⟩
  have hrllen : rl.length = pre.length := by rw [hrl, List.length_take]; omega
  obtain ⟨ri, rs, hdrop⟩ : ∃ ri rs, res.drop pre.length = ri :: rs := by
    cases hd : res.drop pre.length with
    | nil =>
      have := congrArg List.length hd
      simp only [List.length_drop, List.length_nil] at this; omega
    | cons x xs => exact ⟨x, xs, rfl⟩
  have hres : res = rl ++ ri :: rs := by rw [hrl, ← hdrop, List.take_append_drop]
  have hrslen : rs.length = as.length := by
    have := congrArg List.length hdrop
    simp only [List.length_drop, List.length_cons] at this; omega
  have hmdne : md ≠ [] := by intro e; rw [e] at hlen_a; simp at hlen_a
  rw [sqOuter_eq B inv keep pre.length ai as md ⟨res, co, ok⟩ rl rs ri hres hrllen hmdne]
  simp only
  rw [hres] at hlt
  obtain ⟨⟨m, hmB, hex⟩, rawlen, rawlt, rawclo, rawc, rawok⟩ :=
    sqOuterRaw_spec B inv ai hB as md rl rs ri hai has hmd hlt hrslen.symm (by omega) hinv
  rw [hrllen, ← hres] at hex rawlen rawlt rawclo rawc rawok
  obtain ⟨raw, hraw⟩ : ∃ raw, raw = sqOuterRaw B inv pre.length ai as md res := ⟨_, rfl⟩
  rw [← hraw] at hex rawlen rawlt rawclo rawc rawok ⊢
  obtain ⟨red, clo, chi, c, ok1⟩ := raw
  simp only at hex rawlen rawlt rawclo rawc rawok ⊢
  subst rawok
  -- the true double word on top and the true new accumulator
  obtain ⟨Wd, hWd⟩ : ∃ Wd, Wd = co + clo + chi.toNat * B + c := ⟨_, rfl⟩
  obtain ⟨N, hN⟩ : ∃ N, N = md.length := ⟨_, rfl⟩
  have hN1 : pre.length + rs.length + 1 = N := by omega
  obtain ⟨T', hT'⟩ : ∃ T', T' = valB B red + B ^ (pre.length + rs.length) * Wd := ⟨_, rfl⟩
  obtain ⟨T, hT⟩ : ∃ T, T = valB B res + B ^ N * co := ⟨_, rfl⟩
  rw [← hN] at heq hbound hkeep
  rw [← hT] at heq hbound
  have hBN : B ^ N = B * B ^ (pre.length + rs.length) := by rw [← hN1, pow_succ]; ring
  have hstepB : B * T' = T + B ^ pre.length * (ai * (ai + 2 * (B * valB B as))) + valB B md * m := by
    rw [hT', hT, hWd, hBN]
    linear_combination hex
  obtain ⟨Md, hMd⟩ : ∃ Md, Md = valB B md := ⟨_, rfl⟩
  obtain ⟨Av, hAv⟩ : ∃ Av, Av = valB B a := ⟨_, rfl⟩
  rw [← hMd] at heq hbound hstepB haM hkeep
  rw [← hAv] at heq haM
  obtain ⟨P0, hP0⟩ : ∃ P0, P0 = B ^ pre.length := ⟨_, rfl⟩
  have hP0pos : 0 < P0 := by rw [hP0]; positivity
  rw [← hP0] at heq hmult hstepB
  obtain ⟨X, hX⟩ : ∃ X, X = P0 * ai := ⟨_, rfl⟩
  obtain ⟨H, hH⟩ : ∃ H, H = B * P0 * valB B as := ⟨_, rfl⟩
  have hsuf : P0 * valB B (ai :: as) = X + H := by rw [valB_cons, hX, hH]; ring
  rw [hsuf] at heq
  have hstep : T' * (B * P0) = T * P0 + X * (X + 2 * H) + m * P0 * Md := by
    rw [hX, hH]
    linear_combination P0 * hstepB
  have hinv' := Sq.inv_step Av Md B P0 T M X H T' m heq hstep
  have hmult' := Sq.mult_bound B P0 M m hmult hmB
  -- a = lo + H with lo = val (pre ++ [ai]) < B·P0
  have hlo : valB B (pre ++ [ai]) < B * P0 := by
    have := valB_lt_pow B (pre ++ [ai]) (AllLtB.append hpre_lt (AllLtB.cons hai AllLtB.nil))
    simpa [pow_succ, hP0, Nat.mul_comm] using this
  have hasplit : Av = valB B (pre ++ [ai]) + H := by
    rw [hAv, hsplit, valB_append, valB_append, valB_cons, valB_cons, hH, hP0]
    simp only [valB_nil, Nat.mul_zero, Nat.add_zero]; ring
  have hbound' : T' < 3 * Md :=
    Sq.acc_bound Av Md (B * P0) (valB B (pre ++ [ai])) H T' (M + m * P0) (by positivity) hasplit hlo haM hmult' hinv'
  -- representation of T' in the array
  have hMdN : Md < B ^ N := by rw [hMd, hN]; exact valB_lt_pow B md hmd
  have hredP := valB_lt_pow B red rawlt
  rw [rawlen] at hredP
  obtain ⟨Pn, hPn⟩ : ∃ Pn, Pn = B ^ (pre.length + rs.length) := ⟨_, rfl⟩
  rw [← hPn] at hT' hBN hredP
  have hPnpos : 0 < Pn := by rw [hPn]; positivity
  have hWd3 : Wd < 3 * B := by
    by_contra hc; push Not at hc
    have : Pn * (3 * B) ≤ Pn * Wd := Nat.mul_le_mul_left _ hc
    have e : Pn * (3 * B) = 3 * (B * Pn) := by ring
    omega
  have hBB : 3 * B ≤ B * B := Nat.mul_le_mul_right _ hB
  have hlen' : (pre ++ [ai]).length = pre.length + 1 := by simp
  have hpow' : B ^ (pre ++ [ai]).length = B * P0 := by rw [hlen', pow_succ, hP0]; ring
  have hsuf' : (B ^ (pre ++ [ai]).length * valB B as) ^ 2 = H ^ 2 := by rw [hpow', hH]
  have hsplit' : a = (pre ++ [ai]) ++ as := by rw [hsplit]; simp
  cases keep
  · -- narrow arm
    have hco : co = 0 := hsmall rfl
    have h4 := hkeep rfl
    have hT'N : T' < B ^ N := by omega
    have hWdB : Wd < B := by
      by_contra hc; push Not at hc
      have : Pn * B ≤ Pn * Wd := Nat.mul_le_mul_left _ hc
      have e : Pn * B = B * Pn := by ring
      omega
    have hchi : chi = false := by
      cases hh : chi
      · rfl
      · rw [hh] at hWd; simp only [Bool.toNat_true, Nat.one_mul] at hWd; omega
    subst hchi
    subst hco
    simp only [Bool.toNat_false, Nat.zero_mul, Nat.add_zero, Nat.zero_add] at hWd
    simp only [Bool.false_eq_true, if_false]
    have hsum : (clo + c) % B = Wd := by rw [← hWd]; exact Nat.mod_eq_of_lt hWdB
    rw [hsum]
    refine ⟨M + m * P0, ⟨hsplit', ?_, ?_, ?_, ?_, ?_, fun _ => rfl⟩, ?_⟩
    · simp [rawlen]; omega
    · exact AllLtB.append rawlt (AllLtB.cons hWdB AllLtB.nil)
    · simp only
      rw [valB_append_single, rawlen, ← hPn, ← hN, Nat.mul_zero, Nat.add_zero, ← hT', hpow', ← hH, ← hAv, ← hMd]
      exact hinv'
    · rw [hpow']; exact hmult'
    · simp only
      rw [valB_append_single, rawlen, ← hPn, Nat.mul_zero, Nat.add_zero, ← hT', ← hMd]; exact hbound'
    · simp only [Bool.not_false, Bool.and_true, decide_true]
      rw [hWd] at hWdB
      simp [hWdB]
  · -- wide arm
    simp only [if_true]
    have hwide : (co + clo + chi.toNat * B + c) % (B * B) = Wd := by
      rw [← hWd]; exact Nat.mod_eq_of_lt (by omega)
    rw [hwide]
    have hdm := Nat.div_add_mod Wd B
    have hco2 : Wd / B ≤ 2 := by
      have : Wd / B < 3 := Nat.div_lt_of_lt_mul (by omega)
      omega
    have hval : valB B (red ++ [Wd % B]) + B ^ N * (Wd / B) = T' := by
      rw [valB_append_single, rawlen, ← hPn, hBN, hT']
      have : Pn * Wd = Pn * (B * (Wd / B) + Wd % B) := by rw [hdm]
      rw [this]; ring
    refine ⟨M + m * P0, ⟨hsplit', ?_, ?_, ?_, ?_, ?_, fun hf => by simp at hf⟩, ?_⟩
    · simp [rawlen]; omega
    · exact AllLtB.append rawlt (AllLtB.cons (Nat.mod_lt _ hB0) AllLtB.nil)
    · simp only
      rw [← hN, hval, hpow', ← hH, ← hAv, ← hMd]
      exact hinv'
    · rw [hpow']; exact hmult'
    · simp only
      rw [← hN, hval, ← hMd]; exact hbound'
    · simp [hco2]

theorem sqLoop_spec (B inv : ℕ) (keep : Bool) (hB : 3 ≤ B) (a md : List ℕ)
    (ha : AllLtB B a) (hmd : AllLtB B md) (hla : a.length = md.length)
    (hinv : (inv * md.headD 0) % B = B - 1) (haM : valB B a < valB B md)
    (hkeep : keep = false → 3 * valB B md ≤ B ^ md.length)
    (suf pre : List ℕ) (s : SqSt) (M : ℕ) (h : SqInv B keep a md pre suf s M) :
    ∃ M', SqInv B keep a md a [] (sqLoop B inv keep md suf pre.length s) M'
      ∧ (sqLoop B inv keep md suf pre.length s).ok = s.ok := by
  induction suf generalizing pre s M with
  | nil =>
    have : a = pre := by rw [h.split]; simp
    subst this
    exact ⟨M, h, rfl⟩
  | cons ai as ih =>
    obtain ⟨M1, h1, ok1⟩ := sqOuter_step B inv keep hB a md pre as ai s M ha hmd hla hinv haM hkeep h
    obtain ⟨M2, h2, ok2⟩ := ih (pre ++ [ai]) _ M1 h1
    simp only [List.length_append, List.length_cons, List.length_nil, Nat.zero_add] at h2 ok2
    exact ⟨M2, h2, by rw [sqLoop, ok2, ok1]⟩

/-- **`square_redc` on limb lists, any base `B ≥ 3`, any `N ≥ 1`**: no `debug_assert` fires, the result has
    `N` words, is below the modulus, and `B^N · result ≡ a² (mod Mod)`. -/
theorem squareRedc_spec (B : ℕ) (keepSq : ℕ → Bool) (inv : ℕ) (a md : List ℕ) (hB : 3 ≤ B)
    (hN : 0 < md.length) (hla : a.length = md.length)
    (ha : AllLtB B a) (hmd : AllLtB B md)
    (hinv : (inv * md.headD 0) % B = B - 1) (haM : valB B a < valB B md)
    (hkeep : ∀ top, keepSq top = false → 3 * (top + 1) ≤ B) :
    ∃ r, squareRedc B keepSq inv a md = some r ∧ r.length = md.length ∧ AllLtB B r
      ∧ valB B r < valB B md
      ∧ (B ^ md.length * valB B r) % valB B md = (valB B a * valB B a) % valB B md := by
  have hne : md ≠ [] := by intro h; rw [h] at hN; simp at hN
  have hB0 : 0 < B := by omega
  have hmd0 : 0 < valB B md := by omega
  have hk : keepSq (md.getLastD 0) = false → 3 * valB B md ≤ B ^ md.length := by
    intro h
    have h1 := hkeep _ h
    have h2 := valB_lt_of_top B md hmd hne
    have h3 : B ^ md.length = B * B ^ (md.length - 1) := by
      rw [← pow_succ']; congr 1; omega
    rw [h3]
    have : 3 * ((md.getLastD 0 + 1) * B ^ (md.length - 1)) ≤ B * B ^ (md.length - 1) := by
      rw [← Nat.mul_assoc]; exact Nat.mul_le_mul_right _ h1
    omega
  obtain ⟨s0, hs0⟩ : ∃ s0 : SqSt, s0 = SqSt.mk (List.replicate md.length 0) 0 (preOk B inv a md) := ⟨_, rfl⟩
  have hs0o : s0.ok = true := by
    rw [hs0]; simp only [preOk, hinv, haM, decide_true, Bool.and_self]
  have h0 : SqInv B (keepSq (md.getLastD 0)) a md [] a s0 0 := by
    rw [hs0]
    exact { split := by simp
            len := by simp
            lt := allLtB_replicate_zero hB0 _
            eq := by simp [valB_replicate_zero]
            mult := by simp
            bound := by simp [valB_replicate_zero]; exact hmd0
            small := fun _ => rfl }
  obtain ⟨M, hI, hok⟩ := sqLoop_spec B inv (keepSq (md.getLastD 0)) hB a md ha hmd hla hinv haM hk a [] s0 0 h0
  simp only [List.length_nil] at hI hok
  obtain ⟨out, hout⟩ : ∃ out, out = sqLoop B inv (keepSq (md.getLastD 0)) md a 0 s0 := ⟨_, rfl⟩
  rw [← hout] at hI hok
  obtain ⟨_, ilen, ilt, ieq, imult, _, _⟩ := hI
  simp only [valB_nil, Nat.mul_zero, ne_eq, OfNat.ofNat_ne_zero, not_false_eq_true, zero_pow, Nat.add_zero] at ieq
  rw [hla] at ieq imult
  have hMdP : valB B md ≤ B ^ md.length := le_of_lt (valB_lt_pow B md hmd)
  have hfin := Sq.final_bound (valB B a) (valB B md) (B ^ md.length)
    (valB B out.res + B ^ md.length * out.carryOuter) M haM hMdP imult ieq
  -- carry_outer ≤ 1
  have hco : out.carryOuter ≤ 1 := by
    by_contra hc; push Not at hc
    have : B ^ md.length * 2 ≤ B ^ md.length * out.carryOuter := Nat.mul_le_mul_left _ hc
    omega
  have hcarry : (decide (out.carryOuter > 0)).toNat = out.carryOuter := by
    rcases Nat.eq_zero_or_pos out.carryOuter with h | h
    · rw [h]; simp
    · have : out.carryOuter = 1 := by omega
      rw [this]; simp
  obtain ⟨r1, r2, r3, r4⟩ := reduce1Carry_spec B out.res md (decide (out.carryOuter > 0)) ilen ilt hmd hmd0
    (by rw [hcarry]; exact hfin)
  rw [hcarry] at r1
  have hcore : squareRedcCore B keepSq inv a md
      = (reduce1Carry B out.res md (decide (out.carryOuter > 0)), out.ok && decide (out.carryOuter ≤ 1)) := by
    simp only [squareRedcCore, ← hs0, ← hout]
  refine ⟨_, ?_, r3, r4, r2, ?_⟩
  · simp only [squareRedc, hcore, hok, hs0o, hco, decide_true, Bool.and_self, if_true]
  · rw [r1, Nat.mul_mod, Nat.mod_mod, ← Nat.mul_mod, Nat.mul_comm, ieq, Nat.add_mul_mod_self_right, pow_two]

end Ruint.Redc
