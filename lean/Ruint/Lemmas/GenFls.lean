import Ruint.Gen.WordsFls
import Ruint.Model.Canon
import Ruint.Model.Conv
import Ruint.Lemmas.Canon
import Ruint.Lemmas.GenCore
import Ruint.Lemmas.GenUint
import Ruint.Lemmas.GenUintModCanon
import Ruint.Lemmas.GenConv

/-! The limb-slice constructors of `src/lib.rs` (`overflowing_from_limbs_slice` and its `from_` / `checked_` / `wrapping_` /
    `saturating_` variants) and the `Uint`←`Uint` conversions of `src/from.rs` as GENERATED (`Gen/WordsFls.lean`) equal the
    hand-written models of `Model/Canon.lean` and `Model/Conv.lean`, for every width and every slice of words (any length). -/
namespace Ruint.GenFls
open Ruint

/-! ## encodings -/

def toRes : Option (List ℕ) → Ruint.Canon.Res
  | some l => .ok l | none => .panic

def toResO : Option (Option (List ℕ)) → Ruint.Canon.Res
  | some (some l) => .ok l | some none => .none | none => .panic

def toToRes : Option (Except (ℕ × ℕ × List ℕ) (List ℕ)) → Ruint.Conv.ToRes
  | none => .panic
  | some (.ok l) => .ok l
  | some (.error (0, b, l)) => .tooLarge b l
  | some (.error (1, b, l)) => .negative b l
  | some (.error _) => .panic

/-! ## helpers -/

theorem any_bne (l : List ℕ) : l.any (fun limb => limb != 0) = l.any (· ≠ 0) := by
  congr 1
  funext x
  cases x <;> simp

theorem nlimbs_pos_bits (bits : ℕ) (hn : 0 < nlimbs bits) : 0 < bits := by
  unfold nlimbs at hn; omega

theorem take_length_of_le (sl : List ℕ) (n : ℕ) (h : ¬ sl.length < n) : (sl.take n).length = n := by
  rw [List.length_take]; omega

/-! ## `overflowing_from_limbs_slice` -/

/-- **`Uint::overflowing_from_limbs_slice` as generated from `src/lib.rs`** equals the C04 model, on every slice. -/
theorem overflowing_from_limbs_slice_eq (bits : ℕ) (hN : nlimbs bits < 2 ^ 64) (sl : List ℕ) (hw : Ruint.AllLt sl) :
    Ruint.Gen.uint_overflowing_from_limbs_slice bits (nlimbs bits) sl
      = Ruint.Canon.overflowingFromLimbsSlice bits sl := by
  have _ := hw
  unfold Ruint.Gen.uint_overflowing_from_limbs_slice Ruint.Canon.overflowingFromLimbsSlice
  simp only [decide_eq_true_eq, gt_iff_lt, List.drop_replicate, GenCore.mask_eq, any_bne]
  by_cases hlt : sl.length < nlimbs bits
  · rw [if_pos hlt, if_pos hlt, GenUintMod.from_limbs_eq bits hN _ (by simp; omega)]
    generalize Canon.fromLimbs bits _ = r
    cases r <;> rfl
  · rw [if_neg hlt, if_neg hlt]
    have htl := take_length_of_le sl (nlimbs bits) hlt
    by_cases hn : 0 < nlimbs bits
    · simp only [hn, if_true]
      have hb := nlimbs_pos_bits bits hn
      have hne : sl.take (nlimbs bits) ≠ [] := by
        intro e; rw [e] at htl; simp at htl; omega
      obtain ⟨init, t, hit⟩ := exists_init_last (sl.take (nlimbs bits)) hne
      rw [hit] at htl ⊢
      have hil : init.length = nlimbs bits - 1 := by simp at htl; omega
      rw [GenUint.wsub_one _ hn hN, ← hil]
      have g1 : (init ++ [t]).getD init.length 0 = t := by simp
      have g2 : ∀ x, (init ++ [t]).set init.length x = init ++ [x] := by intro x; simp
      simp only [g1, g2, GenUint.and_mask bits t hb, Canon.top_append, Canon.mapTop_eq_maskTop, maskTop_append]
      rw [GenUintMod.from_limbs_eq bits hN _ (by simp; omega)]
      generalize Canon.fromLimbs bits _ = r
      cases r <;> rfl
    · simp only [hn, if_false]
      rw [GenUintMod.from_limbs_eq bits hN _ htl]
      generalize Canon.fromLimbs bits _ = r
      cases r <;> rfl

/-! ## the variants -/

/-- **`Uint::from_limbs_slice`** (a `match` with a `panic!` arm). -/
theorem from_limbs_slice_eq (bits : ℕ) (hN : nlimbs bits < 2 ^ 64) (sl : List ℕ) (hw : Ruint.AllLt sl) :
    toRes (Ruint.Gen.uint_from_limbs_slice bits (nlimbs bits) sl) = Ruint.Canon.fromLimbsSlice bits sl := by
  unfold Ruint.Gen.uint_from_limbs_slice Ruint.Canon.fromLimbsSlice
  rw [overflowing_from_limbs_slice_eq bits hN sl hw]
  rcases Canon.overflowingFromLimbsSlice bits sl with _ | ⟨n, _ | _⟩ <;> rfl

/-- **`Uint::checked_from_limbs_slice`**. -/
theorem checked_from_limbs_slice_eq (bits : ℕ) (hN : nlimbs bits < 2 ^ 64) (sl : List ℕ) (hw : Ruint.AllLt sl) :
    toResO (Ruint.Gen.uint_checked_from_limbs_slice bits (nlimbs bits) sl)
      = Ruint.Canon.checkedFromLimbsSlice bits sl := by
  unfold Ruint.Gen.uint_checked_from_limbs_slice Ruint.Canon.checkedFromLimbsSlice
  rw [overflowing_from_limbs_slice_eq bits hN sl hw]
  rcases Canon.overflowingFromLimbsSlice bits sl with _ | ⟨n, _ | _⟩ <;> rfl

/-- **`Uint::wrapping_from_limbs_slice`**. -/
theorem wrapping_from_limbs_slice_eq (bits : ℕ) (hN : nlimbs bits < 2 ^ 64) (sl : List ℕ) (hw : Ruint.AllLt sl) :
    toRes (Ruint.Gen.uint_wrapping_from_limbs_slice bits (nlimbs bits) sl)
      = Ruint.Canon.wrappingFromLimbsSlice bits sl := by
  unfold Ruint.Gen.uint_wrapping_from_limbs_slice Ruint.Canon.wrappingFromLimbsSlice
  rw [overflowing_from_limbs_slice_eq bits hN sl hw]
  rcases Canon.overflowingFromLimbsSlice bits sl with _ | ⟨n, _ | _⟩ <;> rfl

/-- **`Uint::saturating_from_limbs_slice`** (`Self::MAX` on overflow). -/
theorem saturating_from_limbs_slice_eq (bits : ℕ) (hN : nlimbs bits < 2 ^ 64) (sl : List ℕ) (hw : Ruint.AllLt sl) :
    toRes (Ruint.Gen.uint_saturating_from_limbs_slice bits (nlimbs bits) sl)
      = Ruint.Canon.saturatingFromLimbsSlice bits sl := by
  unfold Ruint.Gen.uint_saturating_from_limbs_slice Ruint.Canon.saturatingFromLimbsSlice
  rw [overflowing_from_limbs_slice_eq bits hN sl hw, GenConv.gen_max_eq bits hN]
  rcases Canon.overflowingFromLimbsSlice bits sl with _ | ⟨n, _ | _⟩ <;> rfl

/-! ## `Uint` ← `Uint` (`src/from.rs`) -/

/-- **`UintTryFrom<Uint<BITS_SRC, LIMBS_SRC>> for Uint<BITS, LIMBS>`**. -/
theorem try_from_uint_eq (bits : ℕ) (hN : nlimbs bits < 2 ^ 64) (sl : List ℕ) (hw : Ruint.AllLt sl) :
    toToRes (Ruint.Gen.uint_try_from_uint bits (nlimbs bits) sl) = Ruint.Conv.uintTryFrom bits sl := by
  unfold Ruint.Gen.uint_try_from_uint Ruint.Conv.uintTryFrom
  rw [overflowing_from_limbs_slice_eq bits hN sl hw]
  rcases Canon.overflowingFromLimbsSlice bits sl with _ | ⟨n, _ | _⟩ <;> rfl

/-- **`Uint::from_uint`** (`from.rs`): `from_limbs_slice` of the source limbs. -/
theorem from_uint_eq (bs ls : ℕ) (bits : ℕ) (hN : nlimbs bits < 2 ^ 64) (sl : List ℕ) (hw : Ruint.AllLt sl) :
    toRes (Ruint.Gen.uint_from_uint bs ls bits (nlimbs bits) sl) = Ruint.Canon.fromLimbsSlice bits sl := by
  rw [← from_limbs_slice_eq bits hN sl hw]
  unfold Ruint.Gen.uint_from_uint
  cases Ruint.Gen.uint_from_limbs_slice bits (nlimbs bits) sl <;> rfl

/-- **`Uint::checked_from_uint`** (`from.rs`): `checked_from_limbs_slice` of the source limbs. -/
theorem checked_from_uint_eq (bs ls : ℕ) (bits : ℕ) (hN : nlimbs bits < 2 ^ 64) (sl : List ℕ) (hw : Ruint.AllLt sl) :
    toResO (Ruint.Gen.uint_checked_from_uint bs ls bits (nlimbs bits) sl)
      = Ruint.Canon.checkedFromLimbsSlice bits sl := by
  rw [← checked_from_limbs_slice_eq bits hN sl hw]
  unfold Ruint.Gen.uint_checked_from_uint
  cases Ruint.Gen.uint_checked_from_limbs_slice bits (nlimbs bits) sl <;> rfl

end Ruint.GenFls
