import Ruint.Gen.WordsConv2
import Ruint.Lemmas.GenConv

/-! The remaining conversions of `src/from.rs` as GENERATED (`Gen/WordsConv2.lean`) equal the C07 models
    (`Model/Conv.lean`): the six signed `TryFrom` impls (`impl_from_signed_int!`), and `from` /
    `saturating_from` / `wrapping_from` / `wrapping_to` / `saturating_to` as functions of the `Result` of the
    trait-dispatched `uint_try_from` / `uint_try_to` call. Encodings as in `Lemmas/GenConv.lean`. -/
namespace Ruint.GenConv2
open Ruint Ruint.Canon Ruint.Conv Ruint.GenConv

/-! ## error tags of the unsigned callees: only `ValueTooLarge` (tag 0) is ever produced -/

theorem tag_of_tooLarge (B : ℕ) (x : Option (List ℕ)) (e : ℕ × ℕ × List ℕ)
    (h : (match x with
      | none => none
      | some pv => some (Except.error (0, B, pv) : Except (ℕ × ℕ × List ℕ) (List ℕ))) = some (Except.error e)) :
    e.1 = 0 := by
  cases x with
  | none => cases h
  | some pv => cases h; rfl

theorem tag_of_ok (x : Option (List ℕ)) (e : ℕ × ℕ × List ℕ)
    (h : (match x with
      | none => none
      | some pv => some (Except.ok pv : Except (ℕ × ℕ × List ℕ) (List ℕ))) = some (Except.error e)) :
    e.1 = 0 := by
  cases x with
  | none => cases h
  | some pv => cases h

theorem try_from_u64_tag (B L value : ℕ) (e : ℕ × ℕ × List ℕ)
    (h : Ruint.Gen.uint_try_from_u64 B L value = some (Except.error e)) : e.1 = 0 := by
  unfold Ruint.Gen.uint_try_from_u64 at h
  simp only at h
  split_ifs at h
  · exact tag_of_tooLarge _ _ _ h
  · exact tag_of_tooLarge _ _ _ h
  · cases h
  · exact tag_of_ok _ _ h
  · exact tag_of_ok _ _ h

theorem try_from_u128_tag (B L value : ℕ) (e : ℕ × ℕ × List ℕ)
    (h : Ruint.Gen.uint_try_from_u128 B L value = some (Except.error e)) : e.1 = 0 := by
  unfold Ruint.Gen.uint_try_from_u128 at h
  simp only at h
  split_ifs at h
  · cases h64 : Ruint.Gen.uint_try_from_u64 B L (value % 2 ^ 64) with
    | none => rw [h64] at h; cases h
    | some pv =>
      rw [h64] at h
      have h' : pv = Except.error e := by cases h; rfl
      rw [h'] at h64
      exact try_from_u64_tag _ _ _ _ h64
  · cases h64 : Ruint.Gen.uint_try_from_u64 B L (value % 2 ^ 64) with
    | none => rw [h64] at h; cases h
    | some pv =>
      rw [h64] at h
      cases pv with
      | ok n => cases h; rfl
      | error e' =>
        have h' : e' = e := by cases h; rfl
        rw [h'] at h64
        exact try_from_u64_tag _ _ _ _ h64
  · exact tag_of_tooLarge _ _ _ h
  · exact tag_of_ok _ _ h

/-! ## `impl_from_signed_int!` -/

/-- the `value.is_negative()` arm: `Err(match Self::try_from(value as $uint) { Ok(n) | Err(ValueTooLarge(_, n)) =>
    ValueNegative(BITS, n), _ => unreachable!() })` (a callee panic `none` is propagated) -/
def negArm (bits : ℕ) (r : Option (Except (ℕ × ℕ × List ℕ) (List ℕ))) :
    Option (Except (ℕ × ℕ × List ℕ) (List ℕ)) :=
  match r with
  | none => none
  | some pv1 => (
  (some (Except.error (let sel2 := pv1
  (if ((((Rs.isOk sel2)) || ((!(Rs.isOk sel2)) && (((Rs.errD (0, 0, []) sel2)).1 == 0)))) then (let n := (if ((Rs.isOk sel2)) then (Rs.okD [] sel2) else ((Rs.errD (0, 0, []) sel2)).2.2)
  ((1, bits, n)))
  else ((0, 0, [])))))))

/-- the other arm: `Self::try_from(value as $uint)` -/
def posArm (r : Option (Except (ℕ × ℕ × List ℕ) (List ℕ))) : Option (Except (ℕ × ℕ × List ℕ) (List ℕ)) :=
  match r with
  | none => none
  | some pv3 => some pv3

theorem posArm_eq (r : Option (Except (ℕ × ℕ × List ℕ) (List ℕ))) : posArm r = r := by
  cases r <;> rfl

/-- with a callee that only produces tag 0, the `unreachable!()` default `(0, 0, [])` is never taken:
    the arm yields `ValueNegative(BITS, n)` for `Ok(n)` and for `Err(ValueTooLarge(_, n))`. -/
theorem negArm_eq (bits : ℕ) (r : Option (Except (ℕ × ℕ × List ℕ) (List ℕ)))
    (htag : ∀ e, r = some (Except.error e) → e.1 = 0) :
    negArm bits r = (match r with
      | none => none
      | some (Except.ok n) => some (Except.error (1, bits, n))
      | some (Except.error e) => some (Except.error (1, bits, e.2.2))) := by
  rcases r with _ | ⟨k, b, l⟩ | l
  · rfl
  · have hk : k = 0 := htag _ rfl
    subst hk
    rfl
  · rfl

/-- the common shape of the six instances of `impl_from_signed_int!` -/
theorem signed_generic (bits width sb : ℕ) (v : ℤ) (r : Option (Except (ℕ × ℕ × List ℕ) (List ℕ)))
    (hneg : v < 0 ↔ sb ≤ asUnsigned width v)
    (hR : toToRes r = tryFromUnsigned bits width (asUnsigned width v))
    (htag : ∀ e, r = some (Except.error e) → e.1 = 0) :
    toToRes (if decide (sb ≤ asUnsigned width v) = true then negArm bits r else posArm r) =
      tryFromSigned bits width v := by
  unfold tryFromSigned
  rw [← hR]
  by_cases hv : v < 0
  · rw [if_pos hv, if_pos (decide_eq_true (hneg.mp hv)), negArm_eq bits r htag]
    rcases r with _ | ⟨k, b, l⟩ | l
    · rfl
    · have hk : k = 0 := htag _ rfl
      subst hk
      rfl
    · rfl
  · have hd : ¬ decide (sb ≤ asUnsigned width v) = true := by
      rw [decide_eq_true_eq]; exact fun h => hv (hneg.mpr h)
    rw [if_neg hv, if_neg hd, posArm_eq]

/-- the error tags of the signed impls are `ValueTooLarge` (0) or `ValueNegative` (1) -/
theorem signed_tag (bits : ℕ) (c : Bool) (r : Option (Except (ℕ × ℕ × List ℕ) (List ℕ)))
    (htag : ∀ e, r = some (Except.error e) → e.1 = 0) (e : ℕ × ℕ × List ℕ)
    (h : (if c = true then negArm bits r else posArm r) = some (Except.error e)) : e.1 ≤ 1 := by
  cases c with
  | true =>
    rw [if_pos rfl, negArm_eq bits r htag] at h
    rcases r with _ | e' | l
    · cases h
    · cases h; exact Nat.le_refl 1
    · cases h; exact Nat.le_refl 1
  | false =>
    rw [if_neg (by decide), posArm_eq] at h
    rw [htag e h]; exact Nat.zero_le 1

theorem tfu_64 (bits width x : ℕ) (hw : width ≠ 128) : tryFromUnsigned bits width x = tryFromU64 bits x := by
  unfold tryFromUnsigned
  rw [if_neg hw]

theorem try_from_i8_eq (bits : ℕ) (hN : nlimbs bits < 2 ^ 64) (v : ℤ) (hlo : -(2 ^ 7 : ℤ) ≤ v) (hhi : v < 2 ^ 7) :
    Ruint.GenConv.toToRes (Ruint.Gen.uint_try_from_i8 bits (nlimbs bits) (Ruint.Conv.asUnsigned 8 v)) =
      Ruint.Conv.tryFromSigned bits 8 v := by
  have hneg : v < 0 ↔ 2 ^ 7 ≤ asUnsigned 8 v := by unfold asUnsigned; omega
  have hlt : asUnsigned 8 v < 2 ^ 64 := by unfold asUnsigned; omega
  unfold Ruint.Gen.uint_try_from_i8
  exact signed_generic bits 8 (2 ^ 7) v _ hneg
    (by rw [tfu_64 _ _ _ (by decide)]; exact try_from_u64_eq bits hN _ hlt)
    (fun e h => try_from_u64_tag _ _ _ e h)

theorem try_from_i16_eq (bits : ℕ) (hN : nlimbs bits < 2 ^ 64) (v : ℤ) (hlo : -(2 ^ 15 : ℤ) ≤ v)
    (hhi : v < 2 ^ 15) :
    Ruint.GenConv.toToRes (Ruint.Gen.uint_try_from_i16 bits (nlimbs bits) (Ruint.Conv.asUnsigned 16 v)) =
      Ruint.Conv.tryFromSigned bits 16 v := by
  have hneg : v < 0 ↔ 2 ^ 15 ≤ asUnsigned 16 v := by unfold asUnsigned; omega
  have hlt : asUnsigned 16 v < 2 ^ 64 := by unfold asUnsigned; omega
  unfold Ruint.Gen.uint_try_from_i16
  exact signed_generic bits 16 (2 ^ 15) v _ hneg
    (by rw [tfu_64 _ _ _ (by decide)]; exact try_from_u64_eq bits hN _ hlt)
    (fun e h => try_from_u64_tag _ _ _ e h)

theorem try_from_i32_eq (bits : ℕ) (hN : nlimbs bits < 2 ^ 64) (v : ℤ) (hlo : -(2 ^ 31 : ℤ) ≤ v)
    (hhi : v < 2 ^ 31) :
    Ruint.GenConv.toToRes (Ruint.Gen.uint_try_from_i32 bits (nlimbs bits) (Ruint.Conv.asUnsigned 32 v)) =
      Ruint.Conv.tryFromSigned bits 32 v := by
  have hneg : v < 0 ↔ 2 ^ 31 ≤ asUnsigned 32 v := by unfold asUnsigned; omega
  have hlt : asUnsigned 32 v < 2 ^ 64 := by unfold asUnsigned; omega
  unfold Ruint.Gen.uint_try_from_i32
  exact signed_generic bits 32 (2 ^ 31) v _ hneg
    (by rw [tfu_64 _ _ _ (by decide)]; exact try_from_u64_eq bits hN _ hlt)
    (fun e h => try_from_u64_tag _ _ _ e h)

theorem try_from_i64_eq (bits : ℕ) (hN : nlimbs bits < 2 ^ 64) (v : ℤ) (hlo : -(2 ^ 63 : ℤ) ≤ v)
    (hhi : v < 2 ^ 63) :
    Ruint.GenConv.toToRes (Ruint.Gen.uint_try_from_i64 bits (nlimbs bits) (Ruint.Conv.asUnsigned 64 v)) =
      Ruint.Conv.tryFromSigned bits 64 v := by
  have hneg : v < 0 ↔ 2 ^ 63 ≤ asUnsigned 64 v := by unfold asUnsigned; omega
  have hlt : asUnsigned 64 v < 2 ^ 64 := by unfold asUnsigned; omega
  unfold Ruint.Gen.uint_try_from_i64
  exact signed_generic bits 64 (2 ^ 63) v _ hneg
    (by rw [tfu_64 _ _ _ (by decide)]; exact try_from_u64_eq bits hN _ hlt)
    (fun e h => try_from_u64_tag _ _ _ e h)

theorem try_from_isize_eq (bits : ℕ) (hN : nlimbs bits < 2 ^ 64) (v : ℤ) (hlo : -(2 ^ 63 : ℤ) ≤ v)
    (hhi : v < 2 ^ 63) :
    Ruint.GenConv.toToRes (Ruint.Gen.uint_try_from_isize bits (nlimbs bits) (Ruint.Conv.asUnsigned 64 v)) =
      Ruint.Conv.tryFromSigned bits 64 v := by
  have hneg : v < 0 ↔ 2 ^ 63 ≤ asUnsigned 64 v := by unfold asUnsigned; omega
  have hlt : asUnsigned 64 v < 2 ^ 64 := by unfold asUnsigned; omega
  unfold Ruint.Gen.uint_try_from_isize
  exact signed_generic bits 64 (2 ^ 63) v _ hneg
    (by rw [tfu_64 _ _ _ (by decide)]; exact try_from_u64_eq bits hN _ hlt)
    (fun e h => try_from_u64_tag _ _ _ e h)

theorem try_from_i128_eq (bits : ℕ) (hN : nlimbs bits < 2 ^ 64) (v : ℤ) (hlo : -(2 ^ 127 : ℤ) ≤ v)
    (hhi : v < 2 ^ 127) :
    Ruint.GenConv.toToRes (Ruint.Gen.uint_try_from_i128 bits (nlimbs bits) (Ruint.Conv.asUnsigned 128 v)) =
      Ruint.Conv.tryFromSigned bits 128 v := by
  have hneg : v < 0 ↔ 2 ^ 127 ≤ asUnsigned 128 v := by unfold asUnsigned; omega
  have hlt : asUnsigned 128 v < 2 ^ 128 := by unfold asUnsigned; omega
  unfold Ruint.Gen.uint_try_from_i128
  exact signed_generic bits 128 (2 ^ 127) v _ hneg
    (by unfold tryFromUnsigned; rw [if_pos rfl]; exact try_from_u128_eq bits hN _ hlt)
    (fun e h => try_from_u128_tag _ _ _ e h)

/-! ### error tags of the six signed impls: `ValueTooLarge` (0) or `ValueNegative` (1), never `NotANumber` -/

theorem try_from_i8_tag (B L x : ℕ) (e : ℕ × ℕ × List ℕ)
    (h : Ruint.Gen.uint_try_from_i8 B L x = some (Except.error e)) : e.1 ≤ 1 := by
  unfold Ruint.Gen.uint_try_from_i8 at h
  exact signed_tag B _ _ (fun e h => try_from_u64_tag _ _ _ e h) e h

theorem try_from_i16_tag (B L x : ℕ) (e : ℕ × ℕ × List ℕ)
    (h : Ruint.Gen.uint_try_from_i16 B L x = some (Except.error e)) : e.1 ≤ 1 := by
  unfold Ruint.Gen.uint_try_from_i16 at h
  exact signed_tag B _ _ (fun e h => try_from_u64_tag _ _ _ e h) e h

theorem try_from_i32_tag (B L x : ℕ) (e : ℕ × ℕ × List ℕ)
    (h : Ruint.Gen.uint_try_from_i32 B L x = some (Except.error e)) : e.1 ≤ 1 := by
  unfold Ruint.Gen.uint_try_from_i32 at h
  exact signed_tag B _ _ (fun e h => try_from_u64_tag _ _ _ e h) e h

theorem try_from_i64_tag (B L x : ℕ) (e : ℕ × ℕ × List ℕ)
    (h : Ruint.Gen.uint_try_from_i64 B L x = some (Except.error e)) : e.1 ≤ 1 := by
  unfold Ruint.Gen.uint_try_from_i64 at h
  exact signed_tag B _ _ (fun e h => try_from_u64_tag _ _ _ e h) e h

theorem try_from_isize_tag (B L x : ℕ) (e : ℕ × ℕ × List ℕ)
    (h : Ruint.Gen.uint_try_from_isize B L x = some (Except.error e)) : e.1 ≤ 1 := by
  unfold Ruint.Gen.uint_try_from_isize at h
  exact signed_tag B _ _ (fun e h => try_from_u64_tag _ _ _ e h) e h

theorem try_from_i128_tag (B L x : ℕ) (e : ℕ × ℕ × List ℕ)
    (h : Ruint.Gen.uint_try_from_i128 B L x = some (Except.error e)) : e.1 ≤ 1 := by
  unfold Ruint.Gen.uint_try_from_i128 at h
  exact signed_tag B _ _ (fun e h => try_from_u128_tag _ _ _ e h) e h

/-! ## `from` / `saturating_from` / `wrapping_from` as functions of the `Result` of `Self::uint_try_from(value)` -/

/-- a conversion result whose error tag is `ValueTooLarge` / `ValueNegative` is not mapped to `.panic` -/
theorem toToRes_ne_panic (r : Except (ℕ × ℕ × List ℕ) (List ℕ)) (htag : ∀ e, r = .error e → e.1 ≤ 1) :
    toToRes (some r) ≠ .panic := by
  rcases r with ⟨k, b, l⟩ | l
  · have hk : k ≤ 1 := htag _ rfl
    rcases k with _ | _ | k
    · intro h; cases h
    · intro h; cases h
    · omega
  · intro h; cases h

theorem from_res_eq (bits : ℕ) (r : Except (ℕ × ℕ × List ℕ) (List ℕ)) :
    (match Ruint.Gen.uint_from_res bits (nlimbs bits) r with
      | some l => Ruint.Canon.Res.ok l
      | none => .panic) =
    (match toToRes (some r) with
      | .ok n => .ok n
      | _ => .panic) := by
  rcases r with ⟨k, b, l⟩ | l
  · rcases k with _ | _ | k <;> rfl
  · rfl

/-- holds for every error tag (`NotANumber`, tag 2, and anything above is `.panic` under `toToRes`, and the Rust
    code returns `ZERO` for it) -/
theorem saturating_from_res_eq' (bits : ℕ) (hN : nlimbs bits < 2 ^ 64) (r : Except (ℕ × ℕ × List ℕ) (List ℕ)) :
    Ruint.Canon.Res.ok (Ruint.Gen.uint_saturating_from_res bits (nlimbs bits) r) =
    (match toToRes (some r) with
      | .ok n => .ok n
      | .tooLarge _ _ => .ok (Ruint.Canon.max bits)
      | .negative _ _ => .ok (Ruint.Canon.zero bits)
      | .panic => .ok (Ruint.Canon.zero bits)) := by
  rcases r with ⟨k, b, l⟩ | l
  · rcases k with _ | _ | k
    · show Ruint.Canon.Res.ok (Ruint.Gen.uint_masked bits (nlimbs bits) (List.replicate (nlimbs bits) (2 ^ 64 - 1))) =
        Ruint.Canon.Res.ok (Ruint.Canon.max bits)
      rw [gen_max_eq bits hN]
    · rfl
    · rfl
  · rfl

theorem saturating_from_res_eq (bits : ℕ) (hN : nlimbs bits < 2 ^ 64) (r : Except (ℕ × ℕ × List ℕ) (List ℕ))
    (_htag : ∀ e, r = .error e → e.1 ≤ 2) :
    Ruint.Canon.Res.ok (Ruint.Gen.uint_saturating_from_res bits (nlimbs bits) r) =
    (match toToRes (some r) with
      | .ok n => .ok n
      | .tooLarge _ _ => .ok (Ruint.Canon.max bits)
      | .negative _ _ => .ok (Ruint.Canon.zero bits)
      | .panic => .ok (Ruint.Canon.zero bits)) :=
  saturating_from_res_eq' bits hN r

theorem wrapping_from_res_eq' (bits : ℕ) (r : Except (ℕ × ℕ × List ℕ) (List ℕ)) :
    Ruint.Canon.Res.ok (Ruint.Gen.uint_wrapping_from_res bits (nlimbs bits) r) =
    (match toToRes (some r) with
      | .ok n | .tooLarge _ n | .negative _ n => .ok n
      | .panic => .ok (Ruint.Canon.zero bits)) := by
  rcases r with ⟨k, b, l⟩ | l
  · rcases k with _ | _ | k <;> rfl
  · rfl

theorem wrapping_from_res_eq (bits : ℕ) (r : Except (ℕ × ℕ × List ℕ) (List ℕ))
    (_htag : ∀ e, r = .error e → e.1 ≤ 2) :
    Ruint.Canon.Res.ok (Ruint.Gen.uint_wrapping_from_res bits (nlimbs bits) r) =
    (match toToRes (some r) with
      | .ok n | .tooLarge _ n | .negative _ n => .ok n
      | .panic => .ok (Ruint.Canon.zero bits)) :=
  wrapping_from_res_eq' bits r

/-! ### against the model functions, for integer sources -/

/-- `Uint::from(v)`: `r` is the (non-panicking) result of `Self::uint_try_from(v)` -/
theorem from_eq (bits : ℕ) (t : Prim) (v : ℤ) (r : Except (ℕ × ℕ × List ℕ) (List ℕ))
    (hr : toToRes (some r) = Ruint.Conv.tryFrom bits t v) :
    Ruint.Conv.«from» bits t v =
      (match Ruint.Gen.uint_from_res bits (nlimbs bits) r with
        | some l => Ruint.Canon.Res.ok l
        | none => .panic) := by
  rw [from_res_eq, hr]
  rfl

theorem saturatingFrom_eq (bits : ℕ) (hN : nlimbs bits < 2 ^ 64) (t : Prim) (v : ℤ)
    (r : Except (ℕ × ℕ × List ℕ) (List ℕ)) (hr : toToRes (some r) = Ruint.Conv.tryFrom bits t v)
    (hnp : Ruint.Conv.tryFrom bits t v ≠ .panic) :
    Ruint.Conv.saturatingFrom bits t v =
      Ruint.Canon.Res.ok (Ruint.Gen.uint_saturating_from_res bits (nlimbs bits) r) := by
  rw [saturating_from_res_eq' bits hN, hr]
  unfold Ruint.Conv.saturatingFrom
  cases h : Ruint.Conv.tryFrom bits t v with
  | panic => exact absurd h hnp
  | ok n => rfl
  | tooLarge b n => rfl
  | negative b n => rfl

theorem wrappingFrom_eq (bits : ℕ) (t : Prim) (v : ℤ)
    (r : Except (ℕ × ℕ × List ℕ) (List ℕ)) (hr : toToRes (some r) = Ruint.Conv.tryFrom bits t v)
    (hnp : Ruint.Conv.tryFrom bits t v ≠ .panic) :
    Ruint.Conv.wrappingFrom bits t v =
      Ruint.Canon.Res.ok (Ruint.Gen.uint_wrapping_from_res bits (nlimbs bits) r) := by
  rw [wrapping_from_res_eq' bits, hr]
  unfold Ruint.Conv.wrappingFrom
  cases h : Ruint.Conv.tryFrom bits t v with
  | panic => exact absurd h hnp
  | ok n => rfl
  | tooLarge b n => rfl
  | negative b n => rfl

/-- the same with the side condition discharged from the error tag (integer sources only produce tags 0, 1:
    `try_from_u64_tag`, `try_from_u128_tag`, `try_from_i8_tag`, …) -/
theorem saturatingFrom_eq_of_tag (bits : ℕ) (hN : nlimbs bits < 2 ^ 64) (t : Prim) (v : ℤ)
    (r : Except (ℕ × ℕ × List ℕ) (List ℕ)) (hr : toToRes (some r) = Ruint.Conv.tryFrom bits t v)
    (htag : ∀ e, r = .error e → e.1 ≤ 1) :
    Ruint.Conv.saturatingFrom bits t v =
      Ruint.Canon.Res.ok (Ruint.Gen.uint_saturating_from_res bits (nlimbs bits) r) :=
  saturatingFrom_eq bits hN t v r hr (hr ▸ toToRes_ne_panic r htag)

theorem wrappingFrom_eq_of_tag (bits : ℕ) (t : Prim) (v : ℤ)
    (r : Except (ℕ × ℕ × List ℕ) (List ℕ)) (hr : toToRes (some r) = Ruint.Conv.tryFrom bits t v)
    (htag : ∀ e, r = .error e → e.1 ≤ 1) :
    Ruint.Conv.wrappingFrom bits t v =
      Ruint.Canon.Res.ok (Ruint.Gen.uint_wrapping_from_res bits (nlimbs bits) r) :=
  wrappingFrom_eq bits t v r hr (hr ▸ toToRes_ne_panic r htag)

/-! ## `wrapping_to` / `saturating_to` as functions of the `Result` of `self.uint_try_to()` -/

theorem wrapping_to_res_eq (bits L : ℕ) (r : Except (ℕ × ℕ × ℕ × ℕ) ℕ) :
    Ruint.Gen.uint_wrapping_to_res bits L r = (match r with | .ok n => n | .error e => e.2.2.1) := by
  cases r <;> rfl

theorem saturating_to_res_eq (bits L : ℕ) (r : Except (ℕ × ℕ × ℕ × ℕ) ℕ) :
    Ruint.Gen.uint_saturating_to_res bits L r = (match r with | .ok n => n | .error e => e.2.2.2) := by
  cases r <;> rfl

/-- every target (`isBool = true`: the `bool` impl read at `Prim` width 1) -/
theorem wrapping_to_eq (isBool : Bool) (t : Prim) (bits L : ℕ) (l : List ℕ) :
    Ruint.Gen.uint_wrapping_to_res bits L (toPat t (Ruint.Conv.tryTo isBool t bits l)) =
      Ruint.Conv.asUnsigned t.width (Ruint.Conv.wrappingTo isBool t bits l) := by
  unfold Ruint.Conv.wrappingTo
  cases Ruint.Conv.tryTo isBool t bits l <;> rfl

theorem saturating_to_eq (isBool : Bool) (t : Prim) (bits L : ℕ) (l : List ℕ) :
    Ruint.Gen.uint_saturating_to_res bits L (toPat t (Ruint.Conv.tryTo isBool t bits l)) =
      Ruint.Conv.asUnsigned t.width (Ruint.Conv.saturatingTo isBool t bits l) := by
  unfold Ruint.Conv.saturatingTo
  cases Ruint.Conv.tryTo isBool t bits l <;> rfl

theorem tryTo_int (t : Prim) (ht : t.width ≠ 128) (bits : ℕ) (l : List ℕ) :
    Ruint.Conv.tryTo false t bits l = Ruint.Conv.toInt t bits l := by
  unfold Ruint.Conv.tryTo
  rw [if_neg (by decide), if_neg ht]

theorem tryTo_int128 (t : Prim) (ht : t.width = 128) (bits : ℕ) (l : List ℕ) :
    Ruint.Conv.tryTo false t bits l = Ruint.Conv.toInt128 t bits l := by
  unfold Ruint.Conv.tryTo
  rw [if_neg (by decide), if_pos ht]

theorem tryTo_bool (t : Prim) (bits : ℕ) (l : List ℕ) :
    Ruint.Conv.tryTo true t bits l = Ruint.Conv.toBool bits l := by
  unfold Ruint.Conv.tryTo
  rw [if_pos rfl]

/-- the ten `to_int!` targets -/
theorem wrapping_to_int_eq (t : Prim) (ht : t.width ≠ 128) (bits L : ℕ) (l : List ℕ) :
    Ruint.Gen.uint_wrapping_to_res bits L (toPat t (Ruint.Conv.toInt t bits l)) =
      Ruint.Conv.asUnsigned t.width (Ruint.Conv.wrappingTo false t bits l) := by
  rw [← tryTo_int t ht]; exact wrapping_to_eq false t bits L l

theorem saturating_to_int_eq (t : Prim) (ht : t.width ≠ 128) (bits L : ℕ) (l : List ℕ) :
    Ruint.Gen.uint_saturating_to_res bits L (toPat t (Ruint.Conv.toInt t bits l)) =
      Ruint.Conv.asUnsigned t.width (Ruint.Conv.saturatingTo false t bits l) := by
  rw [← tryTo_int t ht]; exact saturating_to_eq false t bits L l

/-- `u128` / `i128` -/
theorem wrapping_to_int128_eq (t : Prim) (ht : t.width = 128) (bits L : ℕ) (l : List ℕ) :
    Ruint.Gen.uint_wrapping_to_res bits L (toPat t (Ruint.Conv.toInt128 t bits l)) =
      Ruint.Conv.asUnsigned t.width (Ruint.Conv.wrappingTo false t bits l) := by
  rw [← tryTo_int128 t ht]; exact wrapping_to_eq false t bits L l

theorem saturating_to_int128_eq (t : Prim) (ht : t.width = 128) (bits L : ℕ) (l : List ℕ) :
    Ruint.Gen.uint_saturating_to_res bits L (toPat t (Ruint.Conv.toInt128 t bits l)) =
      Ruint.Conv.asUnsigned t.width (Ruint.Conv.saturatingTo false t bits l) := by
  rw [← tryTo_int128 t ht]; exact saturating_to_eq false t bits L l

/-- `bool`, with `false` / `true` read as the patterns `0` / `1` (`Prim` width 1) -/
theorem wrapping_to_bool_eq (bits L : ℕ) (l : List ℕ) :
    Ruint.Gen.uint_wrapping_to_res bits L (toPat boolT (Ruint.Conv.toBool bits l)) =
      Ruint.Conv.asUnsigned 1 (Ruint.Conv.wrappingTo true boolT bits l) := by
  rw [← tryTo_bool boolT]; exact wrapping_to_eq true boolT bits L l

theorem saturating_to_bool_eq (bits L : ℕ) (l : List ℕ) :
    Ruint.Gen.uint_saturating_to_res bits L (toPat boolT (Ruint.Conv.toBool bits l)) =
      Ruint.Conv.asUnsigned 1 (Ruint.Conv.saturatingTo true boolT bits l) := by
  rw [← tryTo_bool boolT]; exact saturating_to_eq true boolT bits L l

/-! ### composed with the generated `TryFrom<&Uint>` impls (`Lemmas/GenConv.lean`), on canonical limbs -/

theorem wrapping_to_i8 (bits : ℕ) (hN : nlimbs bits < 2 ^ 57) (l : List ℕ) (hl : Canon bits l) (f : ℕ)
    (hf : nlimbs bits < f) :
    Ruint.Gen.uint_wrapping_to_res bits (nlimbs bits) (Ruint.Gen.i8_try_from_uint f bits (nlimbs bits) l) =
      Ruint.Conv.asUnsigned 8 (Ruint.Conv.wrappingTo false ⟨8, true⟩ bits l) := by
  rw [i8_try_from_uint_eq bits hN l hl f hf]
  exact wrapping_to_int_eq ⟨8, true⟩ (by decide) bits _ l

theorem saturating_to_i8 (bits : ℕ) (hN : nlimbs bits < 2 ^ 57) (l : List ℕ) (hl : Canon bits l) (f : ℕ)
    (hf : nlimbs bits < f) :
    Ruint.Gen.uint_saturating_to_res bits (nlimbs bits) (Ruint.Gen.i8_try_from_uint f bits (nlimbs bits) l) =
      Ruint.Conv.asUnsigned 8 (Ruint.Conv.saturatingTo false ⟨8, true⟩ bits l) := by
  rw [i8_try_from_uint_eq bits hN l hl f hf]
  exact saturating_to_int_eq ⟨8, true⟩ (by decide) bits _ l

theorem wrapping_to_u128 (bits : ℕ) (hN : nlimbs bits < 2 ^ 57) (l : List ℕ) (hl : Canon bits l) (f : ℕ)
    (hf : nlimbs bits < f) :
    Ruint.Gen.uint_wrapping_to_res bits (nlimbs bits) (Ruint.Gen.u128_try_from_uint f bits (nlimbs bits) l) =
      Ruint.Conv.asUnsigned 128 (Ruint.Conv.wrappingTo false ⟨128, false⟩ bits l) := by
  rw [u128_try_from_uint_eq bits hN l hl f hf]
  exact wrapping_to_int128_eq ⟨128, false⟩ rfl bits _ l

end Ruint.GenConv2
