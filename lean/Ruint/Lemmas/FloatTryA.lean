import Ruint.Lemmas.FloatCmp
namespace Ruint.Float

/-- fields of a binary64 pattern that decodes to a finite value. -/
theorem decode_fin_fields (x m : ℕ) (neg : Bool) (e : ℤ) (hx : decode b64 x = .fin neg m e) :
    (x / 2 ^ 52) % 2 ^ 11 < 2047 ∧ (neg = decide ((x / 2 ^ 63) % 2 = 1)) ∧
    (((x / 2 ^ 52) % 2 ^ 11 = 0 ∧ m = x % 2 ^ 52 ∧ e = -1074)
      ∨ (1 ≤ (x / 2 ^ 52) % 2 ^ 11 ∧ m = 2 ^ 52 + x % 2 ^ 52 ∧ e = (((x / 2 ^ 52) % 2 ^ 11 : ℕ) : ℤ) - 1075)) := by
  have hE : b64.emaxB = 2047 := by decide
  have hq : b64.qmin = -1074 := by decide
  have hmb : b64.mb = 52 := rfl
  have heb : b64.eb = 11 := rfl
  unfold decode at hx
  simp only [hE, hq, hmb, heb] at hx
  have hlt : (x / 2 ^ 52) % 2 ^ 11 < 2048 := Nat.mod_lt _ (by norm_num)
  split at hx
  · split at hx <;> simp at hx
  · next h1 =>
    split at hx
    · next h2 =>
      simp only [Dec.fin.injEq] at hx
      obtain ⟨a, b, c⟩ := hx
      exact ⟨by omega, a.symm, Or.inl ⟨h2, b.symm, c.symm⟩⟩
    · next h2 =>
      simp only [Dec.fin.injEq] at hx
      obtain ⟨a, b, c⟩ := hx
      refine ⟨by omega, a.symm, Or.inr ⟨by omega, b.symm, ?_⟩⟩
      rw [← c]; push_cast; omega

theorem isNormal_iff (x : ℕ) :
    isNormal b64 x = true ↔ ((x / 2 ^ 52) % 2 ^ 11 ≠ 0 ∧ (x / 2 ^ 52) % 2 ^ 11 ≠ 2047) := by
  have hE : b64.emaxB = 2047 := by decide
  have hmb : b64.mb = 52 := rfl
  have heb : b64.eb = 11 := rfl
  unfold isNormal
  simp only [hE, hmb, heb, Bool.and_eq_true, bne_iff_ne, ne_eq]

end Ruint.Float
