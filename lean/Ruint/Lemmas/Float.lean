import Ruint.Model.Float
import Mathlib.Tactic.Ring
import Mathlib.Tactic.Linarith
import Mathlib.Tactic.NormNum
import Mathlib.Tactic.Positivity
import Mathlib.Tactic.Push

/-! Lemmas about the bit-level IEEE-754 model: `bitLen`, `rneShift` (bounds, exactness, scaling,
    monotonicity), `rneMag` (scaling invariance, closed forms in the normal range), `decode` of assembled
    patterns. Re-homed from `notes/probes/uint_to_f64_rounding_probe.lean` (`TF.*`) and
    `f64_add_half_rounding_probe.lean` (`Fl.*`). -/
namespace Ruint.Float

/-! ## `bitLen` -/

theorem bitLen_zero : bitLen 0 = 0 := by simp [bitLen]

theorem bitLen_pos {m : ℕ} (hm : 0 < m) : 0 < bitLen m := by
  unfold bitLen; rw [if_neg (by omega)]; omega

theorem bitLen_bounds {m : ℕ} (hm : 0 < m) : 2 ^ (bitLen m - 1) ≤ m ∧ m < 2 ^ bitLen m := by
  unfold bitLen
  rw [if_neg (by omega)]
  exact ⟨by simpa using Nat.log2_self_le (by omega), Nat.lt_log2_self⟩

theorem lt_pow_bitLen (m : ℕ) : m < 2 ^ bitLen m := by
  rcases Nat.eq_zero_or_pos m with h | h
  · subst h; simp [bitLen]
  · exact (bitLen_bounds h).2

theorem bitLen_eq {m L : ℕ} (hL : 0 < L) (h1 : 2 ^ (L - 1) ≤ m) (h2 : m < 2 ^ L) : bitLen m = L := by
  have hm : 0 < m := lt_of_lt_of_le (by positivity) h1
  obtain ⟨b1, b2⟩ := bitLen_bounds hm
  have hp := bitLen_pos hm
  have a1 : bitLen m - 1 < L := (Nat.pow_lt_pow_iff_right (by norm_num : 1 < 2)).mp (lt_of_le_of_lt b1 h2)
  have a2 : L - 1 < bitLen m := (Nat.pow_lt_pow_iff_right (by norm_num : 1 < 2)).mp (lt_of_le_of_lt h1 b2)
  omega

theorem bitLen_mul_pow {m : ℕ} (hm : 0 < m) (j : ℕ) : bitLen (m * 2 ^ j) = bitLen m + j := by
  obtain ⟨b1, b2⟩ := bitLen_bounds hm
  have hp := bitLen_pos hm
  apply bitLen_eq (by omega)
  · have : bitLen m + j - 1 = (bitLen m - 1) + j := by omega
    rw [this, pow_add]; exact Nat.mul_le_mul_right _ b1
  · rw [pow_add]; exact Nat.mul_lt_mul_of_pos_right b2 (by positivity)

theorem bitLen_le_of_lt {m L : ℕ} (h : m < 2 ^ L) : bitLen m ≤ L := by
  rcases Nat.eq_zero_or_pos m with h0 | h0
  · subst h0; simp [bitLen]
  · obtain ⟨b1, _⟩ := bitLen_bounds h0
    have := bitLen_pos h0
    have : bitLen m - 1 < L := (Nat.pow_lt_pow_iff_right (by norm_num : 1 < 2)).mp (lt_of_le_of_lt b1 h)
    omega

theorem bitLen_mono {a b : ℕ} (h : a ≤ b) : bitLen a ≤ bitLen b :=
  bitLen_le_of_lt (lt_of_le_of_lt h (lt_pow_bitLen b))

/-! ## `rneShift` -/

theorem rneShift_cases (m k : ℕ) :
    rneShift m k = m / 2 ^ k ∨ (rneShift m k = m / 2 ^ k + 1 ∧ m % 2 ^ k ≠ 0) := by
  unfold rneShift
  have hp : 0 < 2 ^ k := by positivity
  simp only
  split
  · next h =>
    right; refine ⟨rfl, ?_⟩
    rcases h with h | ⟨h, _⟩ <;> omega
  · left; rfl

theorem rneShift_bounds (m k : ℕ) : m / 2 ^ k ≤ rneShift m k ∧ rneShift m k ≤ m / 2 ^ k + 1 := by
  rcases rneShift_cases m k with h | ⟨h, _⟩ <;> omega

theorem rneShift_exact (m k : ℕ) (h : m % 2 ^ k = 0) : rneShift m k = m / 2 ^ k := by
  rcases rneShift_cases m k with h' | ⟨_, h'⟩
  · exact h'
  · exact absurd h h'

theorem rneShift_zero (m : ℕ) : rneShift m 0 = m := by
  rw [rneShift_exact m 0 (by simp [Nat.mod_one])]; simp

/-- rounding does not see a common power-of-two scale. -/
theorem rneShift_scale (a j k : ℕ) : rneShift (a * 2 ^ j) (j + k) = rneShift a k := by
  have hj : 0 < 2 ^ j := by positivity
  have hk : 0 < 2 ^ k := by positivity
  have hq : a * 2 ^ j / 2 ^ (j + k) = a / 2 ^ k := by
    rw [pow_add, Nat.mul_comm a, Nat.mul_div_mul_left _ _ hj]
  have hr : a * 2 ^ j % 2 ^ (j + k) = a % 2 ^ k * 2 ^ j := by
    rw [pow_add, Nat.mul_comm a, Nat.mul_mod_mul_left, Nat.mul_comm]
  unfold rneShift
  simp only [hq, hr]
  have e1 : (2 ^ (j + k) < 2 * (a % 2 ^ k * 2 ^ j)) ↔ (2 ^ k < 2 * (a % 2 ^ k)) := by
    rw [pow_add]
    constructor
    · intro h; by_contra hc; push Not at hc
      have : 2 * (a % 2 ^ k) * 2 ^ j ≤ 2 ^ k * 2 ^ j := Nat.mul_le_mul_right _ hc
      nlinarith
    · intro h
      have : 2 ^ k * 2 ^ j < 2 * (a % 2 ^ k) * 2 ^ j := Nat.mul_lt_mul_of_pos_right h hj
      nlinarith
  have e2 : (2 * (a % 2 ^ k * 2 ^ j) = 2 ^ (j + k)) ↔ (2 * (a % 2 ^ k) = 2 ^ k) := by
    rw [pow_add]
    constructor
    · intro h
      have : 2 * (a % 2 ^ k) * 2 ^ j = 2 ^ k * 2 ^ j := by nlinarith
      exact Nat.eq_of_mul_eq_mul_right hj this
    · intro h
      have : 2 * (a % 2 ^ k) * 2 ^ j = 2 ^ k * 2 ^ j := by rw [h]
      nlinarith
  simp only [e1, e2]

/-- shifting out only zero bits is exact. -/
theorem rneShift_mul_pow (a j k : ℕ) (h : k ≤ j) : rneShift (a * 2 ^ j) k = a * 2 ^ (j - k) := by
  have hk : 0 < 2 ^ k := by positivity
  have e : a * 2 ^ j = a * 2 ^ (j - k) * 2 ^ k := by
    rw [Nat.mul_assoc, ← pow_add]; congr 2; omega
  rw [rneShift_exact _ _ (by rw [e]; exact Nat.mul_mod_left _ _), e, Nat.mul_div_cancel _ hk]

theorem rneShift_mono (x y k : ℕ) (h : x ≤ y) : rneShift x k ≤ rneShift y k := by
  have hp : 0 < 2 ^ k := by positivity
  have hq : x / 2 ^ k ≤ y / 2 ^ k := Nat.div_le_div_right h
  rcases Nat.lt_or_ge (x / 2 ^ k) (y / 2 ^ k) with hlt | hge
  · calc rneShift x k ≤ x / 2 ^ k + 1 := (rneShift_bounds x k).2
      _ ≤ y / 2 ^ k := hlt
      _ ≤ rneShift y k := (rneShift_bounds y k).1
  · have heq : x / 2 ^ k = y / 2 ^ k := le_antisymm hq hge
    have hr : x % 2 ^ k ≤ y % 2 ^ k := by
      have e1 := Nat.div_add_mod x (2 ^ k)
      have e2 := Nat.div_add_mod y (2 ^ k)
      rw [heq] at e1
      omega
    unfold rneShift
    simp only [heq]
    split
    · next hx =>
      have : 2 ^ k < 2 * (y % 2 ^ k) ∨ (2 * (y % 2 ^ k) = 2 ^ k ∧ (y / 2 ^ k) % 2 = 1) := by
        rcases hx with h1 | ⟨h1, h2⟩
        · left; omega
        · rcases Nat.lt_or_ge (2 ^ k) (2 * (y % 2 ^ k)) with h3 | h3
          · left; exact h3
          · right; exact ⟨by omega, h2⟩
      rw [if_pos this]
    · split <;> omega

/-- a `p`-bit-or-shorter prefix rounds to at most `2^p`. -/
theorem rneShift_le_pow (m k p : ℕ) (h : m < 2 ^ (p + k)) : rneShift m k ≤ 2 ^ p := by
  have hk : 0 < 2 ^ k := by positivity
  have : m / 2 ^ k < 2 ^ p := by
    rw [Nat.div_lt_iff_lt_mul hk, ← pow_add]; exact h
  have := (rneShift_bounds m k).2
  omega

theorem rneShift_ge_pow (m k p : ℕ) (h : 2 ^ (p + k) ≤ m) : 2 ^ p ≤ rneShift m k := by
  have hk : 0 < 2 ^ k := by positivity
  have : 2 ^ p ≤ m / 2 ^ k := by
    rw [Nat.le_div_iff_mul_le hk, ← pow_add]; exact h
  have := (rneShift_bounds m k).1
  omega

end Ruint.Float

namespace Ruint.Float

/-! ## formats -/

/-- well-formed format parameters (both IEEE formats used here satisfy this by `decide`). -/
def Fmt.Ok (f : Fmt) : Prop := 2 ≤ f.eb ∧ 1 ≤ f.mb

theorem b64_ok : b64.Ok := ⟨by decide, by decide⟩
theorem b32_ok : b32.Ok := ⟨by decide, by decide⟩

theorem Fmt.two_bias (f : Fmt) (h : f.Ok) : 2 ^ f.eb = 2 * f.bias + 2 ∧ 1 ≤ f.bias := by
  unfold Fmt.bias
  obtain ⟨h1, _⟩ := h
  obtain ⟨n, hn⟩ : ∃ n, f.eb = n + 2 := ⟨f.eb - 2, by omega⟩
  rw [hn]
  have : 0 < 2 ^ n := by positivity
  have e1 : 2 ^ (n + 2) = 4 * 2 ^ n := by ring
  have e2 : 2 ^ (n + 2 - 1) = 2 * 2 ^ n := by
    have : n + 2 - 1 = n + 1 := by omega
    rw [this]; ring
  rw [e1, e2]; omega

theorem Fmt.emaxB_eq (f : Fmt) (h : f.Ok) : f.emaxB = 2 * f.bias + 1 := by
  have := (f.two_bias h).1
  unfold Fmt.emaxB; omega

/-! ## `rneMag` in the normal range -/

/-- the definition with `max` and the branch resolved, for results at or above the smallest normal. -/
theorem rneMag_normal (f : Fmt) (m : ℕ) (e : ℤ) (hm : 0 < m)
    (hq : f.qmin ≤ e + (bitLen m : ℤ) - ((f.mb + 1 : ℕ) : ℤ)) :
    rneMag f m e =
      let Mr := if bitLen m ≤ f.mb + 1 then m * 2 ^ (f.mb + 1 - bitLen m) else rneShift m (bitLen m - (f.mb + 1))
      let r := (e + (bitLen m : ℤ) - ((f.mb + 1 : ℕ) : ℤ) - f.qmin).toNat * 2 ^ f.mb + Mr
      if f.infBits ≤ r then f.infBits else r := by
  unfold rneMag
  rw [if_neg (by omega)]
  simp only
  rw [max_eq_left hq]
  by_cases hL : bitLen m ≤ f.mb + 1
  · have c1 : e + (bitLen m : ℤ) - ((f.mb + 1 : ℕ) : ℤ) ≤ e := by omega
    have c2 : (e - (e + (bitLen m : ℤ) - ((f.mb + 1 : ℕ) : ℤ))).toNat = f.mb + 1 - bitLen m := by omega
    rw [if_pos c1, if_pos hL, c2]
  · have c1 : ¬ (e + (bitLen m : ℤ) - ((f.mb + 1 : ℕ) : ℤ) ≤ e) := by omega
    have c2 : (e + (bitLen m : ℤ) - ((f.mb + 1 : ℕ) : ℤ) - e).toNat = bitLen m - (f.mb + 1) := by omega
    rw [if_neg c1, if_neg hL, c2]

/-- a mantissa `a` of `p + k` bits carrying `j` further zero bits: round away `k` bits. -/
theorem rneMag_of_bits (f : Fmt) (a j k : ℕ) (e : ℤ) (ha : bitLen a = f.mb + 1 + k)
    (hq : f.qmin ≤ e + (k : ℤ)) :
    rneMag f (a * 2 ^ j) (e - (j : ℤ)) =
      if f.infBits ≤ (e + (k : ℤ) - f.qmin).toNat * 2 ^ f.mb + rneShift a k then f.infBits
      else (e + (k : ℤ) - f.qmin).toNat * 2 ^ f.mb + rneShift a k := by
  have ha0 : 0 < a := by
    rcases Nat.eq_zero_or_pos a with h | h
    · subst h; simp [bitLen] at ha; omega
    · exact h
  have hbl : bitLen (a * 2 ^ j) = f.mb + 1 + k + j := by rw [bitLen_mul_pow ha0, ha]
  have hm : 0 < a * 2 ^ j := Nat.mul_pos ha0 (by positivity)
  rw [rneMag_normal f _ _ hm (by rw [hbl]; push_cast; omega)]
  simp only [hbl]
  have e1 : (e - (j : ℤ) + ((f.mb + 1 + k + j : ℕ) : ℤ) - ((f.mb + 1 : ℕ) : ℤ) - f.qmin).toNat
      = (e + (k : ℤ) - f.qmin).toNat := by push_cast; congr 1; ring
  rw [e1]
  by_cases hkj : k + j = 0
  · have hk : k = 0 := by omega
    have hj : j = 0 := by omega
    subst hk; subst hj
    simp [rneShift_zero]
  · have c : ¬ (f.mb + 1 + k + j ≤ f.mb + 1) := by omega
    rw [if_neg c]
    have : f.mb + 1 + k + j - (f.mb + 1) = j + k := by omega
    rw [this, rneShift_scale]

/-! ## `decode` of assembled patterns -/

theorem decode_normal (f : Fmt) (hf : f.Ok) (B F : ℕ) (hB1 : 1 ≤ B) (hB2 : B < f.emaxB) (hF : F < 2 ^ f.mb) :
    decode f (B * 2 ^ f.mb + F) = .fin false (2 ^ f.mb + F) (f.qmin + ((B - 1 : ℕ) : ℤ)) := by
  have hp : 0 < 2 ^ f.mb := by positivity
  have hE := f.emaxB_eq hf
  have hT := (f.two_bias hf).1
  have h1 : (B * 2 ^ f.mb + F) % 2 ^ f.mb = F := by
    rw [Nat.mul_comm, Nat.mul_add_mod, Nat.mod_eq_of_lt hF]
  have h2 : (B * 2 ^ f.mb + F) / 2 ^ f.mb = B := by
    rw [Nat.mul_comm, Nat.mul_add_div hp, Nat.div_eq_of_lt hF, Nat.add_zero]
  have h3 : B % 2 ^ f.eb = B := Nat.mod_eq_of_lt (by omega)
  have h4 : (B * 2 ^ f.mb + F) / 2 ^ (f.mb + f.eb) = 0 := by
    rw [pow_add, ← Nat.div_div_eq_div_mul, h2]; exact Nat.div_eq_of_lt (by omega)
  unfold decode
  simp only [h1, h2, h3, h4]
  rw [if_neg (by omega), if_neg (by omega)]
  simp

/-- a rounded mantissa `2^mb ≤ M ≤ 2^(mb+1)` assembled at exponent slot `Q`: a carry (`M = 2^(mb+1)`)
    lands in the next binade. -/
theorem decode_assembled (f : Fmt) (hf : f.Ok) (Q M : ℕ) (hM1 : 2 ^ f.mb ≤ M) (hM2 : M ≤ 2 ^ (f.mb + 1))
    (hr : Q * 2 ^ f.mb + M < f.infBits) :
    (M < 2 ^ (f.mb + 1) ∧ decode f (Q * 2 ^ f.mb + M) = .fin false M (f.qmin + (Q : ℤ)))
    ∨ (M = 2 ^ (f.mb + 1) ∧ decode f (Q * 2 ^ f.mb + M) = .fin false (2 ^ f.mb) (f.qmin + (Q : ℤ) + 1)) := by
  have hp : 0 < 2 ^ f.mb := by positivity
  have hpp : 2 ^ (f.mb + 1) = 2 * 2 ^ f.mb := by ring
  unfold Fmt.infBits at hr
  rcases Nat.lt_or_ge M (2 ^ (f.mb + 1)) with h | h
  · left
    refine ⟨h, ?_⟩
    have e : Q * 2 ^ f.mb + M = (Q + 1) * 2 ^ f.mb + (M - 2 ^ f.mb) := by
      rw [Nat.add_mul]; omega
    have hQ : Q + 1 < f.emaxB := by
      by_contra hc; push Not at hc
      have : f.emaxB * 2 ^ f.mb ≤ (Q + 1) * 2 ^ f.mb := Nat.mul_le_mul_right _ hc
      rw [Nat.add_mul] at this; omega
    rw [e, decode_normal f hf (Q + 1) (M - 2 ^ f.mb) (by omega) hQ (by omega)]
    have : 2 ^ f.mb + (M - 2 ^ f.mb) = M := by omega
    rw [this]; simp
  · right
    have hMe : M = 2 ^ (f.mb + 1) := le_antisymm hM2 h
    refine ⟨hMe, ?_⟩
    have e : Q * 2 ^ f.mb + M = (Q + 2) * 2 ^ f.mb + 0 := by
      rw [hMe, hpp, Nat.add_mul]; omega
    have hQ : Q + 2 < f.emaxB := by
      by_contra hc; push Not at hc
      have : f.emaxB * 2 ^ f.mb ≤ (Q + 2) * 2 ^ f.mb := Nat.mul_le_mul_right _ hc
      rw [Nat.add_mul] at this; omega
    rw [e, decode_normal f hf (Q + 2) 0 (by omega) hQ hp]
    simp only [Nat.add_zero]
    congr 1
    push_cast; omega

end Ruint.Float
