import Ruint.Lemmas.Basic
import Ruint.Model.Cmp

/-! `algorithms::cmp` / `Ord for Uint` order limb arrays exactly as the numbers they denote. -/
namespace Ruint.Cmp
open Ruint

/-- most-significant-first scan of two equal-length word lists = comparison of the numbers
    (`l`, `r` little-endian; the scan sees them reversed). -/
theorem scan_reverse (l r : List ℕ) (h : l.length = r.length) (hl : AllLt l) (hr : AllLt r) :
    scan l.reverse r.reverse = compare (val l) (val r) := by
  induction l using List.reverseRecOn generalizing r with
  | nil =>
    have : r = [] := by cases r <;> simp_all
    subst this; simp [scan]
  | append_singleton init t ih =>
    have hrne : r ≠ [] := by intro e; subst e; simp at h
    obtain ⟨rinit, u, rfl⟩ := exists_init_last r hrne
    have hlen : init.length = rinit.length := by simpa using h
    have ht : t < W := hl.right.head
    have hu : u < W := hr.right.head
    have hi := val_lt_pow init hl.left
    have hri := val_lt_pow rinit hr.left
    rw [← hlen] at hri
    simp only [List.reverse_append, List.reverse_cons, List.reverse_nil, List.nil_append,
      List.cons_append, scan]
    rw [val_append_single, val_append_single, ← hlen]
    have hP : 0 < W ^ init.length := by have := W_pos; positivity
    generalize W ^ init.length = P at *
    by_cases h1 : t > u
    · rw [if_pos h1]; symm; apply Nat.compare_eq_gt.mpr
      have : P * (u + 1) ≤ P * t := Nat.mul_le_mul_left _ h1
      nlinarith
    · rw [if_neg h1]
      by_cases h2 : t < u
      · rw [if_pos h2]; symm; apply Nat.compare_eq_lt.mpr
        have : P * (t + 1) ≤ P * u := Nat.mul_le_mul_left _ h2
        nlinarith
      · rw [if_neg h2]
        have : t = u := by omega
        subst this
        rw [ih rinit hlen hl.left hr.left]
        rcases Nat.lt_trichotomy (val init) (val rinit) with hc | hc | hc
        · rw [Nat.compare_eq_lt.mpr hc]; symm; apply Nat.compare_eq_lt.mpr; omega
        · rw [hc]; simp
        · rw [Nat.compare_eq_gt.mpr hc]; symm; apply Nat.compare_eq_gt.mpr; omega

/-- `algorithms::cmp` on equal-length word slices = `compare` of the values. -/
theorem cmp_spec (a b : List ℕ) (h : a.length = b.length) (ha : AllLt a) (hb : AllLt b) :
    cmp a b = compare (val a) (val b) := by
  unfold cmp
  simp only [h, Nat.min_self, List.take_length]
  have : List.take b.length a = a := by rw [← h]; exact List.take_length
  rw [this, scan_reverse a b h ha hb]
  cases hc : compare (val a) (val b) <;> simp

theorem lt_spec (a b : List ℕ) (h : a.length = b.length) (ha : AllLt a) (hb : AllLt b) :
    lt a b = true ↔ val a < val b := by
  unfold lt; rw [cmp_spec a b h ha hb]
  simp [Nat.compare_eq_lt]

theorem gt_spec (a b : List ℕ) (h : a.length = b.length) (ha : AllLt a) (hb : AllLt b) :
    gt a b = true ↔ val b < val a := by
  unfold gt; rw [cmp_spec a b h ha hb]
  simp [Nat.compare_eq_gt]

theorem le_spec (a b : List ℕ) (h : a.length = b.length) (ha : AllLt a) (hb : AllLt b) :
    le a b = true ↔ val a ≤ val b := by
  unfold le; rw [cmp_spec a b h ha hb]
  rcases Nat.lt_trichotomy (val a) (val b) with hc | hc | hc
  · rw [Nat.compare_eq_lt.mpr hc]; simp; omega
  · rw [hc]; simp
  · rw [Nat.compare_eq_gt.mpr hc]; simp; omega

theorem ge_spec (a b : List ℕ) (h : a.length = b.length) (ha : AllLt a) (hb : AllLt b) :
    ge a b = true ↔ val b ≤ val a := by
  unfold ge; rw [cmp_spec a b h ha hb]
  rcases Nat.lt_trichotomy (val a) (val b) with hc | hc | hc
  · rw [Nat.compare_eq_lt.mpr hc]; simp; omega
  · rw [hc]; simp
  · rw [Nat.compare_eq_gt.mpr hc]; simp; omega

theorem min_spec (a b : List ℕ) (h : a.length = b.length) (ha : AllLt a) (hb : AllLt b) :
    (min a b = a ∨ min a b = b) ∧ val (min a b) = Nat.min (val a) (val b) := by
  unfold min; rw [cmp_spec a b h ha hb]
  rcases Nat.lt_trichotomy (val a) (val b) with hc | hc | hc
  · rw [Nat.compare_eq_lt.mpr hc]; simp; omega
  · rw [Nat.compare_eq_eq.mpr hc]; simp [hc]
  · rw [Nat.compare_eq_gt.mpr hc]; simp; omega

theorem max_spec (a b : List ℕ) (h : a.length = b.length) (ha : AllLt a) (hb : AllLt b) :
    (max a b = a ∨ max a b = b) ∧ val (max a b) = Nat.max (val a) (val b) := by
  unfold max; rw [cmp_spec a b h ha hb]
  rcases Nat.lt_trichotomy (val a) (val b) with hc | hc | hc
  · rw [Nat.compare_eq_lt.mpr hc]; simp; omega
  · rw [Nat.compare_eq_eq.mpr hc]; simp [hc]
  · rw [Nat.compare_eq_gt.mpr hc]; simp; omega

end Ruint.Cmp
