import Ruint.Lemmas.FloatTo5
import Ruint.Lemmas.Basic

/-! `most_significant_bits` (limb-level model `msb`) is the top-64-bits decomposition of the value (`msbSpec`). -/
namespace Ruint.Float
open Ruint

theorem val_zero_of_not_any (xs : List ℕ) (h : xs.any (· != 0) = false) : val xs = 0 := by
  induction xs with
  | nil => rfl
  | cons y ys ih =>
    simp only [List.any_cons, Bool.or_eq_false_iff, bne_eq_false_iff_eq] at h
    rw [val_cons, h.1, ih h.2]; simp

theorem val_pos_of_any (xs : List ℕ) (h : xs.any (· != 0) = true) : 0 < val xs := by
  induction xs with
  | nil => simp at h
  | cons y ys ih =>
    simp only [List.any_cons, Bool.or_eq_true, bne_iff_ne, ne_eq] at h
    rw [val_cons]
    rcases h with h | h
    · omega
    · have := ih h
      have : 0 < W * val ys := Nat.mul_pos W_pos this
      omega

theorem firstSetLimb_pos (xs : List ℕ) (h : 1 ≤ firstSetLimb xs) : W ≤ val xs := by
  cases xs with
  | nil => simp [firstSetLimb] at h
  | cons y ys =>
    unfold firstSetLimb at h
    by_cases ha : ys.any (· != 0) = true
    · have := val_pos_of_any ys ha
      rw [val_cons]
      have : W * 1 ≤ W * val ys := Nat.mul_le_mul_left _ this
      omega
    · rw [if_neg ha] at h; omega

theorem bitLen_add_mul_W (x y : ℕ) (hx : x < W) (hy : 0 < y) : bitLen (x + W * y) = bitLen y + 64 := by
  obtain ⟨b1, b2⟩ := bitLen_bounds hy
  have hL := bitLen_pos hy
  have hW : W = 2 ^ 64 := rfl
  apply bitLen_eq (by omega)
  · have : bitLen y + 64 - 1 = 64 + (bitLen y - 1) := by omega
    rw [this, pow_add, ← hW]
    calc W * 2 ^ (bitLen y - 1) ≤ W * y := Nat.mul_le_mul_left _ b1
      _ ≤ x + W * y := Nat.le_add_left _ _
  · have : bitLen y + 64 = 64 + bitLen y := by omega
    rw [this, pow_add, ← hW]
    have : y + 1 ≤ 2 ^ bitLen y := b2
    calc x + W * y < W + W * y := by omega
      _ = W * (y + 1) := by ring
      _ ≤ W * 2 ^ bitLen y := Nat.mul_le_mul_left _ this


theorem msbSpec_small (x : ℕ) (hx : x < W) : msbSpec x = (x, 0) := by
  have : bitLen x ≤ 64 := bitLen_le_of_lt hx
  unfold msbSpec
  have e : bitLen x - 64 = 0 := by omega
  simp [e]

/-- two limbs: `hi ≠ 0` on top of `lo`. -/
theorem msb_two (x h : ℕ) (hx : x < W) (hh : h < W) (hh0 : 0 < h) :
    msbSpec (x + W * h)
      = ((if lz64 h > 0 then ((h * 2 ^ lz64 h) % W) ||| (x / 2 ^ (64 - lz64 h)) else h), 64 - lz64 h) := by
  have hW : W = 2 ^ 64 := rfl
  obtain ⟨b1, b2⟩ := bitLen_bounds hh0
  have hL := bitLen_pos hh0
  have hL64 : bitLen h ≤ 64 := bitLen_le_of_lt hh
  have hbl := bitLen_add_mul_W x h hx hh0
  obtain ⟨z, hz⟩ : ∃ z, z = lz64 h := ⟨_, rfl⟩
  have hzdef : z = 64 - bitLen h := by rw [hz]; rfl
  rw [← hz]
  unfold msbSpec
  simp only [hbl]
  have hE : bitLen h + 64 - 64 = 64 - z := by omega
  rw [hE]
  congr 1
  -- (x + W h) / 2^(64 - z) = h * 2^z + x / 2^(64 - z)
  have hWs : W = 2 ^ (64 - z) * 2 ^ z := by rw [hW, ← pow_add]; congr 1; omega
  have hp : 0 < 2 ^ (64 - z) := by positivity
  have hdiv : (x + W * h) / 2 ^ (64 - z) = h * 2 ^ z + x / 2 ^ (64 - z) := by
    rw [hWs, Nat.mul_assoc, Nat.add_mul_div_left _ _ hp]; ring
  rw [hdiv]
  by_cases hz0 : z > 0
  · rw [if_pos hz0]
    have hlt : h * 2 ^ z < W := by
      have : bitLen h = 64 - z := by omega
      rw [this] at b2
      calc h * 2 ^ z < 2 ^ (64 - z) * 2 ^ z := Nat.mul_lt_mul_of_pos_right b2 (by positivity)
        _ = W := hWs.symm
    rw [Nat.mod_eq_of_lt hlt]
    have hr : x / 2 ^ (64 - z) < 2 ^ z := by
      rw [Nat.div_lt_iff_lt_mul hp, Nat.mul_comm, ← hWs]; exact hx
    rw [Nat.mul_comm h, Nat.two_pow_add_eq_or_of_lt hr]
  · rw [if_neg hz0]
    have : z = 0 := by omega
    subst this
    simp only [pow_zero, Nat.mul_one, Nat.sub_zero]
    rw [← hW, Nat.div_eq_of_lt hx, Nat.add_zero]


theorem msbSpec_shift (x y : ℕ) (hx : x < W) (hy : W ≤ y) :
    msbSpec (x + W * y) = ((msbSpec y).1, (msbSpec y).2 + 64) := by
  have hW : W = 2 ^ 64 := rfl
  have hy0 : 0 < y := lt_of_lt_of_le W_pos hy
  have hbl := bitLen_add_mul_W x y hx hy0
  have hL : 65 ≤ bitLen y := by
    by_contra hc
    have : y < 2 ^ 64 := lt_of_lt_of_le (lt_pow_bitLen y) (Nat.pow_le_pow_right (by norm_num) (by omega))
    omega
  unfold msbSpec
  simp only [hbl]
  have e1 : bitLen y + 64 - 64 = (bitLen y - 64) + 64 := by omega
  rw [e1]
  congr 1
  rw [Nat.add_comm (bitLen y - 64) 64, pow_add, ← Nat.div_div_eq_div_mul, ← hW,
    Nat.add_mul_div_left _ _ W_pos, Nat.div_eq_of_lt hx, Nat.zero_add]

/-- `most_significant_bits` on the limbs is the top-64-bits decomposition of the value. -/
theorem msb_eq_spec (l : List ℕ) (hl : AllLt l) : msb l = msbSpec (val l) := by
  induction l with
  | nil => simp [msb, firstSetLimb, msbSpec, bitLen]
  | cons x xs ih =>
    have hx := hl.head
    have hxs := hl.tail
    rw [val_cons]
    by_cases ha : xs.any (· != 0) = true
    · -- some higher limb is set
      have hfs : firstSetLimb (x :: xs) = firstSetLimb xs + 1 := by
        conv_lhs => unfold firstSetLimb
        rw [if_pos ha]
      by_cases hi0 : firstSetLimb xs = 0
      · -- exactly the second limb is the top one
        cases xs with
        | nil => simp at ha
        | cons h t =>
          have ht : t.any (· != 0) = false := by
            unfold firstSetLimb at hi0
            by_contra hc
            rw [if_pos (by simpa using hc)] at hi0; omega
          have hh0 : 0 < h := by
            simp only [List.any_cons, Bool.or_eq_true, bne_iff_ne, ne_eq] at ha
            rcases ha with h1 | h1
            · omega
            · rw [ht] at h1; simp at h1
          have hval : val (h :: t) = h := by rw [val_cons, val_zero_of_not_any t ht]; simp
          rw [hval, msb_two x h hx hxs.head hh0]
          unfold msb
          rw [hfs, hi0]
          simp
      · -- the top limb is further up: same bits, exponent + 64
        have hpos : 1 ≤ firstSetLimb xs := by omega
        have hW := firstSetLimb_pos xs hpos
        rw [msbSpec_shift x (val xs) hx hW, ← ih hxs]
        unfold msb
        rw [hfs]
        simp only [Nat.add_eq_zero_iff, one_ne_zero, and_false, if_false, hi0, Nat.add_sub_cancel]
        obtain ⟨i, hi⟩ : ∃ i, firstSetLimb xs = i + 1 := ⟨firstSetLimb xs - 1, by omega⟩
        rw [hi]
        simp only [List.getD_cons_succ, Nat.add_sub_cancel]
        congr 1
        have : lz64 (xs.getD (i + 1) 0) ≤ 64 := by unfold lz64; omega
        omega
    · -- all higher limbs are zero
      have ha' : xs.any (· != 0) = false := by simpa using ha
      rw [val_zero_of_not_any xs ha', Nat.mul_zero, Nat.add_zero, msbSpec_small x hx]
      unfold msb firstSetLimb
      rw [if_neg ha]
      simp

end Ruint.Float
