import Ruint.Model.Bits
import Ruint.Lemmas.GenLehmer
import Ruint.Gen.WordsBitOps

/-! The limb loops of `impl_bit_op!` (`BitOrAssign`, `BitAndAssign`, `BitXorAssign`) as GENERATED from `src/bits.rs`
equal the models `Ruint.Bits.bitOr`, `bitAnd`, `bitXor` (`List.zipWith` of the word operation). -/
namespace Ruint.GenBitOps
open Ruint Ruint.GenLehmer

/-- the common shape of the three generated step functions, over an arbitrary word operation `g` -/
def stepG (g : ℕ → ℕ → ℕ) (rhs : List ℕ) (bound : ℕ) (st : List ℕ × ℕ) : (List ℕ × ℕ) × Bool :=
  if st.2 < bound then ((st.1.set st.2 (g (st.1.getD st.2 0) (rhs.getD st.2 0)), Rs.wadd 64 st.2 1), true)
  else (st, false)

theorem stepG_eq (g : ℕ → ℕ → ℕ) (rhs : List ℕ) (bound : ℕ) (l : List ℕ) (i : ℕ) :
    stepG g rhs bound (l, i) =
      if i < bound then ((l.set i (g (l.getD i 0) (rhs.getD i 0)), Rs.wadd 64 i 1), true) else ((l, i), false) := rfl

/-- loop invariant: the processed prefix `p` is final, the rest `xs` is untouched; `rhs = q ++ ys` split at the same index -/
theorem loopG_eq (g : ℕ → ℕ → ℕ) (LIMBS : ℕ) (hL : LIMBS < 2 ^ 64) (rhs : List ℕ) :
    ∀ (xs ys p q : List ℕ) (f : ℕ), rhs = q ++ ys → q.length = p.length → xs.length = ys.length →
      p.length + xs.length = LIMBS → xs.length < f →
      Rs.loop (stepG g rhs LIMBS) f (p ++ xs, p.length) = (p ++ List.zipWith g xs ys, LIMBS) := by
  intro xs
  induction xs with
  | nil =>
    intro ys p q f _ _ _ h5 h6
    obtain ⟨f, rfl⟩ : ∃ k, f = k + 1 := ⟨f - 1, by simp at h6; omega⟩
    simp only [List.length_nil, Nat.add_zero] at h5
    rw [loop_succ, stepG_eq]
    simp [h5]
  | cons x xs ih =>
    intro ys p q f hR hq hxy h5 h6
    obtain ⟨f, rfl⟩ : ∃ k, f = k + 1 := ⟨f - 1, by simp at h6; omega⟩
    cases ys with
    | nil => simp at hxy
    | cons y ys =>
      simp only [List.length_cons] at h5 h6 hxy
      have hi : p.length < LIMBS := by omega
      have g1 : (p ++ x :: xs).getD p.length 0 = x := by simp
      have g2 : rhs.getD p.length 0 = y := by rw [hR, ← hq]; simp
      have g5 : ∀ z, (p ++ x :: xs).set p.length z = (p ++ [z]) ++ xs := by intro z; simp
      have g6 : ∀ z : ℕ, Rs.wadd 64 p.length 1 = (p ++ [z]).length := by
        intro z; unfold Rs.wadd; rw [Nat.mod_eq_of_lt (by omega)]; simp
      rw [loop_succ, stepG_eq]
      simp only [hi, if_true, g1, g2, g5]
      rw [g6 (g x y), ih ys (p ++ [g x y]) (q ++ [y]) f (by rw [hR]; simp) (by simp [hq]) (by omega)
        (by simp; omega) (by omega)]
      simp

theorem runG_eq (g : ℕ → ℕ → ℕ) (L : ℕ) (a b : List ℕ) (ha : a.length = L) (hb : b.length = L) (hL : L < 2 ^ 64)
    (f : ℕ) (hf : L < f) :
    (Rs.loop (stepG g b L) f (a, 0)).1 = List.zipWith g a b := by
  have h := loopG_eq g L hL b a b [] [] f (by simp) rfl (by rw [ha, hb]) (by simp [ha]) (by omega)
  simp only [List.nil_append, List.length_nil] at h
  rw [h]

theorem or_step_eq (BITS LIMBS : ℕ) (rhs : List ℕ) (bound : ℕ) :
    Ruint.Gen.uint_bitor_assign_step1 BITS LIMBS rhs bound = stepG (· ||| ·) rhs bound := by
  funext st
  unfold Ruint.Gen.uint_bitor_assign_step1 stepG
  simp only [decide_eq_true_eq]

theorem and_step_eq (BITS LIMBS : ℕ) (rhs : List ℕ) (bound : ℕ) :
    Ruint.Gen.uint_bitand_assign_step1 BITS LIMBS rhs bound = stepG (· &&& ·) rhs bound := by
  funext st
  unfold Ruint.Gen.uint_bitand_assign_step1 stepG
  simp only [decide_eq_true_eq]

theorem xor_step_eq (BITS LIMBS : ℕ) (rhs : List ℕ) (bound : ℕ) :
    Ruint.Gen.uint_bitxor_assign_step1 BITS LIMBS rhs bound = stepG (· ^^^ ·) rhs bound := by
  funext st
  unfold Ruint.Gen.uint_bitxor_assign_step1 stepG
  simp only [decide_eq_true_eq]

/-- `BitOrAssign::bitor_assign` limb loop -/
theorem bitor_assign_eq (bits L : ℕ) (a b : List ℕ) (ha : a.length = L) (hb : b.length = L) (hL : L < 2 ^ 64)
    (f : ℕ) (hf : L < f) :
    Ruint.Gen.uint_bitor_assign f bits L a b = Ruint.Bits.bitOr a b := by
  unfold Ruint.Gen.uint_bitor_assign Ruint.Bits.bitOr
  simp only [or_step_eq]
  exact runG_eq _ L a b ha hb hL f hf

/-- `BitAndAssign::bitand_assign` limb loop -/
theorem bitand_assign_eq (bits L : ℕ) (a b : List ℕ) (ha : a.length = L) (hb : b.length = L) (hL : L < 2 ^ 64)
    (f : ℕ) (hf : L < f) :
    Ruint.Gen.uint_bitand_assign f bits L a b = Ruint.Bits.bitAnd a b := by
  unfold Ruint.Gen.uint_bitand_assign Ruint.Bits.bitAnd
  simp only [and_step_eq]
  exact runG_eq _ L a b ha hb hL f hf

/-- `BitXorAssign::bitxor_assign` limb loop -/
theorem bitxor_assign_eq (bits L : ℕ) (a b : List ℕ) (ha : a.length = L) (hb : b.length = L) (hL : L < 2 ^ 64)
    (f : ℕ) (hf : L < f) :
    Ruint.Gen.uint_bitxor_assign f bits L a b = Ruint.Bits.bitXor a b := by
  unfold Ruint.Gen.uint_bitxor_assign Ruint.Bits.bitXor
  simp only [xor_step_eq]
  exact runG_eq _ L a b ha hb hL f hf

end Ruint.GenBitOps
