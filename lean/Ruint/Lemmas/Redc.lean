import Ruint.Model.Redc
import Ruint.Lemmas.Basic
import Mathlib.Tactic.LinearCombination

/-!
# Lemmas for `Model/Redc.lean`, part 1: generic-base toolkit, word primitives, `sub`/`reduce1_carry`,
# and the complete `mul_redc` (CIOS) loop.

Re-homed from `notes/probes/mul_redc_full_proof.lean` / `mul_redc_step_probe.lean`, now about the functions the
driver executes (with the `u128` wraps, the `carrying_add` on the top limb, limb-level `sub`, and the
`debug_assert` flags).
-/
namespace Ruint.Redc
open Ruint

/-! ## generic-base toolkit -/

def AllLtB (B : ℕ) (l : List ℕ) : Prop := ∀ x ∈ l, x < B

theorem AllLtB.nil {B : ℕ} : AllLtB B [] := fun _ h => by simp at h
theorem AllLtB.head {B x : ℕ} {xs : List ℕ} (h : AllLtB B (x :: xs)) : x < B := h x (by simp)
theorem AllLtB.tail {B x : ℕ} {xs : List ℕ} (h : AllLtB B (x :: xs)) : AllLtB B xs :=
  fun y hy => h y (by simp [hy])
theorem AllLtB.cons {B x : ℕ} {xs : List ℕ} (hx : x < B) (h : AllLtB B xs) : AllLtB B (x :: xs) := by
  intro y hy
  simp only [List.mem_cons] at hy
  rcases hy with rfl | hy
  · exact hx
  · exact h y hy
theorem AllLtB.append {B : ℕ} {l m : List ℕ} (hl : AllLtB B l) (hm : AllLtB B m) : AllLtB B (l ++ m) := by
  intro y hy
  simp only [List.mem_append] at hy
  rcases hy with h | h
  · exact hl y h
  · exact hm y h
theorem AllLtB.left {B : ℕ} {l m : List ℕ} (h : AllLtB B (l ++ m)) : AllLtB B l :=
  fun y hy => h y (by simp [hy])
theorem AllLtB.right {B : ℕ} {l m : List ℕ} (h : AllLtB B (l ++ m)) : AllLtB B m :=
  fun y hy => h y (by simp [hy])
theorem AllLtB.take {B : ℕ} {l : List ℕ} (h : AllLtB B l) (n : ℕ) : AllLtB B (l.take n) :=
  fun y hy => h y (List.mem_of_mem_take hy)
theorem AllLtB.drop {B : ℕ} {l : List ℕ} (h : AllLtB B l) (n : ℕ) : AllLtB B (l.drop n) :=
  fun y hy => h y (List.mem_of_mem_drop hy)
theorem allLtB_replicate_zero {B : ℕ} (hB : 0 < B) (n : ℕ) : AllLtB B (List.replicate n 0) := by
  intro x hx; rw [List.eq_of_mem_replicate hx]; exact hB
theorem allLtB_W {l : List ℕ} : AllLtB W l ↔ AllLt l := Iff.rfl

@[simp] theorem valB_nil (B : ℕ) : valB B [] = 0 := rfl
@[simp] theorem valB_cons (B x : ℕ) (xs : List ℕ) : valB B (x :: xs) = x + B * valB B xs := rfl

theorem valB_W (l : List ℕ) : valB W l = val l := by
  induction l with
  | nil => rfl
  | cons x xs ih => simp [ih]

theorem valB_append (B : ℕ) (l m : List ℕ) : valB B (l ++ m) = valB B l + B ^ l.length * valB B m := by
  induction l with
  | nil => simp
  | cons y ys ih => simp only [List.cons_append, valB_cons, ih, List.length_cons, pow_succ]; ring

theorem valB_append_single (B : ℕ) (l : List ℕ) (x : ℕ) :
    valB B (l ++ [x]) = valB B l + B ^ l.length * x := by
  rw [valB_append]; simp

theorem valB_lt_pow (B : ℕ) (l : List ℕ) (h : AllLtB B l) : valB B l < B ^ l.length := by
  induction l with
  | nil => simp
  | cons x xs ih =>
    have hx : x < B := h.head
    have hxs := ih h.tail
    simp only [valB_cons, List.length_cons, pow_succ]
    nlinarith [Nat.zero_le (valB B xs)]

theorem valB_replicate_zero (B n : ℕ) : valB B (List.replicate n 0) = 0 := by
  induction n with
  | zero => rfl
  | succ n ih => simp [List.replicate_succ, ih]

theorem valB_take_add_drop (B : ℕ) (l : List ℕ) (i : ℕ) :
    valB B (l.take i) + B ^ (l.take i).length * valB B (l.drop i) = valB B l := by
  rw [← valB_append, List.take_append_drop]

/-- top limb bound ⇒ value bound: `l = init ++ [top]`. -/
theorem valB_lt_of_top (B : ℕ) (l : List ℕ) (hl : AllLtB B l) (hne : l ≠ []) :
    valB B l < (l.getLastD 0 + 1) * B ^ (l.length - 1) := by
  obtain ⟨init, t, rfl⟩ : ∃ init t, l = init ++ [t] :=
    ⟨l.dropLast, l.getLast hne, (List.dropLast_append_getLast hne).symm⟩
  have h1 := valB_lt_pow B init hl.left
  rw [valB_append_single]
  simp only [List.getLastD_eq_getLast?, List.getLast?_append, List.getLast?_singleton, Option.some_or,
    Option.getD_some, List.length_append, List.length_cons, List.length_nil, Nat.add_sub_cancel]
  nlinarith

/-! ## word primitives -/

theorem carryingMulAdd_spec (B l r a c : ℕ) (hl : l < B) (hr : r < B) (ha : a < B) (hc : c < B) :
    (carryingMulAdd B l r a c).1 + B * (carryingMulAdd B l r a c).2 = l * r + a + c
    ∧ (carryingMulAdd B l r a c).1 < B ∧ (carryingMulAdd B l r a c).2 < B := by
  have hB : 0 < B := by omega
  have hlt : l * r + a + c < B * B := by
    have h1 : l * r ≤ (B - 1) * (B - 1) := Nat.mul_le_mul (by omega) (by omega)
    have h2 : (B - 1) * (B - 1) + (B - 1) + (B - 1) + 1 = B * B := by
      obtain ⟨k, rfl⟩ : ∃ k, B = k + 1 := ⟨B - 1, by omega⟩
      simp only [Nat.add_sub_cancel]; ring
    omega
  unfold carryingMulAdd
  simp only [Nat.mod_eq_of_lt hlt]
  refine ⟨?_, Nat.mod_lt _ hB, ?_⟩
  · have := Nat.div_add_mod (l * r + a + c) B; omega
  · exact Nat.div_lt_of_lt_mul hlt

/-- `carrying_mul_add` always returns words (whatever the inputs). -/
theorem carryingMulAdd_lt (B l r a c : ℕ) (hB : 0 < B) :
    (carryingMulAdd B l r a c).1 < B ∧ (carryingMulAdd B l r a c).2 < B := by
  unfold carryingMulAdd
  exact ⟨Nat.mod_lt _ hB, Nat.div_lt_of_lt_mul (Nat.mod_lt _ (Nat.mul_pos hB hB))⟩

theorem carryingAdd_spec (B x y : ℕ) (c : Bool) (hx : x < B) (hy : y < B) :
    (carryingAdd B x y c).1 + B * (carryingAdd B x y c).2.toNat = x + y + c.toNat
    ∧ (carryingAdd B x y c).1 < B := by
  have hB : 0 < B := by omega
  have hc : c.toNat ≤ 1 := Bool.toNat_le c
  unfold carryingAdd
  simp only []
  refine ⟨?_, Nat.mod_lt _ hB⟩
  generalize c.toNat = k at *
  by_cases h1 : B ≤ x + y
  · have e1 : (x + y) % B = x + y - B := by
      rw [Nat.mod_eq_sub_mod h1, Nat.mod_eq_of_lt (by omega)]
    have h2 : ¬ B ≤ (x + y) % B + k := by omega
    simp only [h1, h2, decide_true, decide_false, Bool.true_or, Bool.toNat_true]
    rw [Nat.mod_eq_of_lt (by omega)]; omega
  · have e1 : (x + y) % B = x + y := Nat.mod_eq_of_lt (by omega)
    simp only [h1, decide_false, Bool.false_or, e1]
    by_cases h2 : B ≤ x + y + k
    · have e2 : (x + y + k) % B = x + y + k - B := by
        rw [Nat.mod_eq_sub_mod h2, Nat.mod_eq_of_lt (by omega)]
      simp only [h2, decide_true, Bool.toNat_true, e2]; omega
    · simp only [h2, decide_false, Bool.toNat_false, Nat.mod_eq_of_lt (by omega : x + y + k < B)]; omega

theorem borrowingSub_spec (B x y : ℕ) (c : Bool) (hx : x < B) (hy : y < B) :
    (borrowingSub B x y c).1 + y + c.toNat = x + B * (borrowingSub B x y c).2.toNat
    ∧ (borrowingSub B x y c).1 < B := by
  have hB : 0 < B := by omega
  have hc : c.toNat ≤ 1 := Bool.toNat_le c
  unfold borrowingSub
  simp only []
  refine ⟨?_, Nat.mod_lt _ hB⟩
  generalize c.toNat = k at *
  by_cases h1 : x < y
  · have e1 : (x + B - y) % B = x + B - y := Nat.mod_eq_of_lt (by omega)
    have h2 : ¬ (x + B - y) % B < k := by omega
    simp only [h1, decide_true, Bool.true_or, Bool.toNat_true, e1]
    rw [Nat.mod_eq_sub_mod (by omega), Nat.mod_eq_of_lt (by omega)]; omega
  · have e1 : (x + B - y) % B = x - y := by
      have : x + B - y = (x - y) + B := by omega
      rw [this, Nat.add_mod_right, Nat.mod_eq_of_lt (by omega)]
    simp only [h1, decide_false, Bool.false_or, e1]
    by_cases h2 : x - y < k
    · simp only [h2, decide_true, Bool.toNat_true]
      rw [Nat.mod_eq_of_lt (by omega)]; omega
    · simp only [h2, decide_false, Bool.toNat_false]
      have : x - y + B - k = (x - y - k) + B := by omega
      rw [this, Nat.add_mod_right, Nat.mod_eq_of_lt (by omega)]; omega

/-! ## `sub`, `reduce1_carry` -/

theorem sub_spec (B : ℕ) (ls rs : List ℕ) (bw : Bool) (h : ls.length = rs.length)
    (hl : AllLtB B ls) (hr : AllLtB B rs) :
    valB B (sub B ls rs bw).1 + valB B rs + bw.toNat = valB B ls + B ^ ls.length * (sub B ls rs bw).2.toNat
    ∧ (sub B ls rs bw).1.length = ls.length ∧ AllLtB B (sub B ls rs bw).1 := by
  induction ls generalizing rs bw with
  | nil => cases rs <;> simp_all [sub, AllLtB]
  | cons a as ih =>
    cases rs with
    | nil => simp at h
    | cons b bs =>
      simp only [List.length_cons, Nat.add_right_cancel_iff] at h
      obtain ⟨e1, e2⟩ := borrowingSub_spec B a b bw hl.head hr.head
      obtain ⟨ih1, ih2, ih3⟩ := ih bs (borrowingSub B a b bw).2 h hl.tail hr.tail
      simp only [sub, valB_cons, List.length_cons, pow_succ]
      refine ⟨?_, by simp [ih2], AllLtB.cons e2 ih3⟩
      generalize (sub B as bs (borrowingSub B a b bw).2) = r at *
      generalize (borrowingSub B a b bw) = s at *
      nlinarith [ih1, e1]

/-- `reduce1_carry` on limb lists: when the (N+1)-limb accumulator `value + B^N·carry` is below `2·Mod`,
    the result is the accumulator reduced mod `Mod` — `N` words, `< Mod`. -/
theorem reduce1Carry_spec (B : ℕ) (v md : List ℕ) (carry : Bool) (h : v.length = md.length)
    (hv : AllLtB B v) (hmd : AllLtB B md) (hmd0 : 0 < valB B md)
    (hA : valB B v + B ^ md.length * carry.toNat < 2 * valB B md) :
    valB B (reduce1Carry B v md carry) = (valB B v + B ^ md.length * carry.toNat) % valB B md
    ∧ valB B (reduce1Carry B v md carry) < valB B md
    ∧ (reduce1Carry B v md carry).length = md.length ∧ AllLtB B (reduce1Carry B v md carry) := by
  obtain ⟨s1, s2, s3⟩ := sub_spec B v md false h hv hmd
  have hvP := valB_lt_pow B v hv
  have hmP := valB_lt_pow B md hmd
  have hrP := valB_lt_pow B (sub B v md false).1 s3
  rw [s2] at hrP
  rw [h] at s1 hvP hrP
  simp only [Bool.toNat_false, Nat.add_zero] at s1
  unfold reduce1Carry
  obtain ⟨red, bo, hsub⟩ : ∃ red bo, sub B v md false = (red, bo) := ⟨_, _, rfl⟩
  rw [hsub] at s1 s2 s3 hrP ⊢
  simp only at s1 s2 s3 hrP ⊢
  cases carry
  · simp only [Bool.toNat_false, Nat.mul_zero, Nat.add_zero, Bool.false_or] at hA ⊢
    cases bo
    · -- no borrow: V ≥ M, reduced = V − M
      simp only [Bool.toNat_false, Nat.mul_zero, Nat.add_zero] at s1
      simp only [Bool.not_false, if_true]
      refine ⟨?_, ?_, by omega, s3⟩
      · generalize valB B v = V at *
        generalize valB B md = M at *
        generalize valB B red = R at *
        have hVM : M ≤ V := by omega
        rw [Nat.mod_eq_sub_mod hVM, Nat.mod_eq_of_lt (by omega)]; omega
      · omega
    · simp only [Bool.toNat_true, Nat.mul_one] at s1
      simp only [Bool.not_true, Bool.false_eq_true, if_false]
      have hVM : valB B v < valB B md := by omega
      exact ⟨(Nat.mod_eq_of_lt hVM).symm, hVM, h, hv⟩
  · simp only [Bool.toNat_true, Nat.mul_one, Bool.true_or, if_true] at hA ⊢
    have hbo : bo = true := by
      cases bo
      · simp only [Bool.toNat_false, Nat.mul_zero, Nat.add_zero] at s1; omega
      · rfl
    subst hbo
    simp only [Bool.toNat_true, Nat.mul_one] at s1
    refine ⟨?_, by omega, by omega, s3⟩
    generalize valB B v = V at *
    generalize valB B md = M at *
    generalize valB B red = R at *
    generalize B ^ md.length = P at *
    rw [Nat.mod_eq_sub_mod (by omega), Nat.mod_eq_of_lt (by omega)]; omega

end Ruint.Redc
