import Ruint.Gen.WordsFloat
import Ruint.Lemmas.FloatTryG
import Ruint.Lemmas.FloatOld

/-!
# Tie: the generated `impl TryFrom<f64> for Uint` (`Ruint.Gen.val_try_from_f64`) = the model `Ruint.Float.tryFromF64F true`

The generated function propagates a panic (`none`) of a recursive call, the hand-written model swallows it
(`| _ => 0`); the two agree because a recursive call never panics: its argument is `|x|` (not NaN, not
negative) or `x % modulus` (NaN, or in `[0, modulus)`), so the recursion depth is at most 3 and the
`assert!`s of the tail never fire on it (`tryFromF64_fin`). Consequently the tie holds at fuel `0` and at every
fuel `≥ 3`; it is FALSE at fuel `1` (e.g. `x = -1.0`) and fuel `2` (e.g. `x = -2^70`, `bits = 64`).
-/
namespace Ruint.GenFloat
open Ruint Ruint.Float

/-- the outcome of the generated function as a model outcome (`FromUintError` variant tags: 0 `ValueTooLarge`,
    1 `ValueNegative`, 2 `NotANumber`). -/
def toRes : Option (Except (Nat × Nat × Nat) Nat) → Ruint.Float.Res
  | none => .panic
  | some (.ok v) => .ok v
  | some (.error (0, _, w)) => .tooLarge w
  | some (.error (1, _, w)) => .negative w
  | some (.error _) => .notANumber

/-! ## literals -/

theorem lit_half : (4602678819172646912 : ℕ) = half b64 := by decide
theorem lit_two52 : (4841369599423283200 : ℕ) = two52 := by decide
theorem and_2047 (v : ℕ) : v &&& 2047 = v % 2 ^ 11 := Nat.and_two_pow_sub_one_eq_mod v 11
theorem and_frac (v : ℕ) : v &&& 4503599627370495 = v % 2 ^ 52 := Nat.and_two_pow_sub_one_eq_mod v 52
theorem or_mant (r : ℕ) (h : r < 2 ^ 52) : 4503599627370496 ||| r = 2 ^ 52 + r := by
  have := Nat.two_pow_add_eq_or_of_lt h 1
  simp only [Nat.mul_one] at this
  exact this.symm

/-! ## the payload extraction `Ok(n) | Err(ValueTooLarge(_, n)) => n, _ => ZERO` -/

/-- the generated form of the `match` on the recursive result. -/
def payload (pv : Except (Nat × Nat × Nat) Nat) : ℕ :=
  (let sel2 := pv
  (if ((((Rs.isOk sel2)) || ((!(Rs.isOk sel2)) && (((Rs.errD (0, 0, 0) sel2)).1 == 0)))) then (let n := (if ((Rs.isOk sel2)) then (Rs.okD 0 sel2) else ((Rs.errD (0, 0, 0) sel2)).2.2)
  n)
  else (0)))

theorem payload_eq (pv : Except (Nat × Nat × Nat) Nat) :
    payload pv = (match toRes (some pv) with | .ok n => n | .tooLarge n => n | _ => 0) := by
  rcases pv with ⟨k, b, w⟩ | v
  · rcases k with _ | _ | k
    · simp [payload, Rs.isOk, Rs.errD, toRes]
    · simp [payload, Rs.isOk, Rs.errD, toRes]
    · simp [payload, Rs.isOk, Rs.errD, toRes]
  · simp [payload, Rs.isOk, Rs.okD, toRes]

/-! ## the tail after the range checks -/

/-- the generated code after the range checks (verbatim). -/
def genMain (BITS value : ℕ) : Option (Except (Nat × Nat × Nat) Nat) :=
  if (Ruint.Float.isNormal Ruint.Float.b64 value) then (
  let value := (if (Ruint.Float.ge Ruint.Float.b64 value 4841369599423283200) then (
  value)
  else (
  (Ruint.Float.add Ruint.Float.b64 value 4602678819172646912)))
  let bits := value
  let sign := (bits / 2 ^ 63)
  if (sign == 0) then (
  let biased_exponent := ((bits / 2 ^ 52) &&& 2047)
  if (decide (biased_exponent ≥ 1023)) then (
  let exponent := (Rs.wsub 64 biased_exponent 1023)
  let fraction := (bits &&& 4503599627370495)
  let mantissa := (4503599627370496 ||| fraction)
  if (decide (exponent > (Rs.wadd 64 BITS 52))) then (
  (some (Except.error (0, BITS, 0))))
  else (
  if (decide (exponent ≤ 52)) then (
  (some (let k_ := (mantissa / 2 ^ (Rs.wsub 64 52 exponent)); if decide (k_ < 2 ^ BITS) then (Except.ok k_ : Except (Nat × Nat × Nat) Nat) else Except.error (0, BITS, k_ % 2 ^ BITS))))
  else (
  let exponent := (Rs.wsub 64 exponent 52)
  match (let k_ := mantissa; if decide (k_ < 2 ^ BITS) then (Except.ok k_ : Except (Nat × Nat × Nat) Nat) else Except.error (0, BITS, k_ % 2 ^ BITS)) with
  | Except.error e_ => (some (Except.error e_))
  | Except.ok n => (
  let sel5 := (((n * 2 ^ exponent) % 2 ^ BITS, decide (2 ^ BITS ≤ n * 2 ^ exponent)))
  let n := sel5.1
  let overflow := sel5.2
  (if overflow then (
  (some (Except.error (0, BITS, n))))
  else (
  (some (Except.ok n))))))))
  else none)
  else none)
  else none

/-- one unfolding of the generated function. -/
theorem gen_unfold (f bits L x : ℕ) :
    Ruint.Gen.val_try_from_f64 (f + 1) bits L x =
      if isNaN b64 x = true then some (Except.error (2, bits, 0))
      else if lt b64 x zero = true then
        (match Ruint.Gen.val_try_from_f64 f bits L (Ruint.Float.abs b64 x) with
          | none => none
          | some pv => some (Except.error (1, bits, (2 ^ bits - payload pv) % 2 ^ bits)))
      else if ge b64 x (exp2Int b64 bits) = true then
        (match Ruint.Gen.val_try_from_f64 f bits L (fmod b64 x (exp2Int b64 bits)) with
          | none => none
          | some pv => some (Except.error (0, bits, payload pv)))
      else if lt b64 x (half b64) = true then some (Except.ok 0)
      else genMain bits x := by
  rw [Ruint.Gen.val_try_from_f64]; rfl

/-- `TryFrom<u64>` as generated. -/
theorem toRes_tryFromU64 (bits k : ℕ) :
    toRes (some (if decide (k < 2 ^ bits) then (Except.ok k : Except (Nat × Nat × Nat) Nat)
      else Except.error (0, bits, k % 2 ^ bits))) = tryFromU64 bits k := by
  unfold tryFromU64
  by_cases h : k < 2 ^ bits
  · simp [h, toRes]
  · simp [h, toRes]

/-- the integer part of the tail: from the biased exponent `be` and the mantissa on. -/
theorem core_eq (bits be mant : ℕ) (hbits : bits + 52 < 2 ^ 64) (h1 : 1023 ≤ be) (h2 : be < 2048) :
    toRes (
      let exponent := (Rs.wsub 64 be 1023)
      if (decide (exponent > (Rs.wadd 64 bits 52))) then (
      (some (Except.error (0, bits, 0))))
      else (
      if (decide (exponent ≤ 52)) then (
      (some (let k_ := (mant / 2 ^ (Rs.wsub 64 52 exponent)); if decide (k_ < 2 ^ bits) then (Except.ok k_ : Except (Nat × Nat × Nat) Nat) else Except.error (0, bits, k_ % 2 ^ bits))))
      else (
      let exponent := (Rs.wsub 64 exponent 52)
      match (let k_ := mant; if decide (k_ < 2 ^ bits) then (Except.ok k_ : Except (Nat × Nat × Nat) Nat) else Except.error (0, bits, k_ % 2 ^ bits)) with
      | Except.error e_ => (some (Except.error e_))
      | Except.ok n => (
      let sel5 := (((n * 2 ^ exponent) % 2 ^ bits, decide (2 ^ bits ≤ n * 2 ^ exponent)))
      let n := sel5.1
      let overflow := sel5.2
      (if overflow then (
      (some (Except.error (0, bits, n))))
      else (
      (some (Except.ok n)))))))) =
    (let exponent := be - 1023
     if exponent > bits + 52 then Res.tooLarge 0
     else if exponent ≤ 52 then tryFromU64 bits (mant / 2 ^ (52 - exponent))
     else
       match tryFromU64 bits mant with
       | .ok n =>
         let (n', ov) := oshl bits n (exponent - 52)
         if ov then .tooLarge n' else .ok n'
       | r => r) := by
  have e1 : Rs.wsub 64 be 1023 = be - 1023 := by unfold Rs.wsub; omega
  have e2 : Rs.wadd 64 bits 52 = bits + 52 := by unfold Rs.wadd; omega
  simp only [e1, e2, gt_iff_lt, decide_eq_true_eq]
  obtain ⟨ex, hex⟩ : ∃ ex, ex = be - 1023 := ⟨_, rfl⟩
  rw [← hex]
  have hex2 : ex < 1025 := by omega
  by_cases c1 : bits + 52 < ex
  · rw [if_pos c1, if_pos c1]; rfl
  · rw [if_neg c1, if_neg c1]
    by_cases c2 : ex ≤ 52
    · rw [if_pos c2, if_pos c2]
      have e3 : Rs.wsub 64 52 ex = 52 - ex := by unfold Rs.wsub; omega
      rw [e3]
      unfold tryFromU64
      by_cases c3 : mant / 2 ^ (52 - ex) < 2 ^ bits
      · simp [c3, toRes]
      · simp [c3, toRes]
    · rw [if_neg c2, if_neg c2]
      have e3 : Rs.wsub 64 ex 52 = ex - 52 := by unfold Rs.wsub; omega
      rw [e3]
      unfold tryFromU64 oshl
      by_cases c3 : mant < 2 ^ bits
      · simp only [c3, if_true]
        by_cases c4 : 2 ^ bits ≤ mant * 2 ^ (ex - 52)
        · simp [c4, toRes]
        · simp [c4, toRes]
      · simp [c3, toRes]

theorem genMain_eq (bits x : ℕ) (hbits : bits + 52 < 2 ^ 64) :
    toRes (genMain bits x) = tfMain true bits x := by
  unfold genMain tfMain
  by_cases hn : isNormal b64 x = true
  · rw [if_pos hn]
    simp only [hn, Bool.not_true, Bool.false_eq_true, if_false, Bool.true_and]
    rw [← lit_half, ← lit_two52]
    obtain ⟨v, hv⟩ : ∃ v, v = (if ge b64 x 4841369599423283200 = true then x
      else add b64 x 4602678819172646912) := ⟨_, rfl⟩
    rw [← hv]
    by_cases hs : v / 2 ^ 63 = 0
    · rw [if_pos (beq_iff_eq.mpr hs), if_neg (not_not.mpr hs)]
      rw [and_2047, and_frac, or_mant _ (Nat.mod_lt _ (by norm_num))]
      obtain ⟨be, hbe⟩ : ∃ be, be = v / 2 ^ 52 % 2 ^ 11 := ⟨_, rfl⟩
      have hbe2 : be < 2048 := by rw [hbe]; exact Nat.mod_lt _ (by norm_num)
      rw [← hbe]
      by_cases hb : 1023 ≤ be
      · rw [if_pos (decide_eq_true hb), if_neg (Nat.not_lt.mpr hb)]
        exact core_eq bits be _ hbits hb hbe2
      · rw [if_neg (by simpa using hb), if_pos (Nat.lt_of_not_le hb)]; rfl
    · rw [if_neg (by simpa using hs), if_pos hs]; rfl
  · rw [if_neg hn]
    simp only [Bool.not_eq_true] at hn
    simp [hn, toRes]

/-! ## one step of the recursion, given that the recursive calls agree and do not panic -/

theorem step_eq (f bits L x : ℕ) (hbits : bits + 52 < 2 ^ 64)
    (h1 : isNaN b64 x = false → lt b64 x zero = true →
      toRes (Ruint.Gen.val_try_from_f64 f bits L (Ruint.Float.abs b64 x)) = tryFromF64F true f bits (Ruint.Float.abs b64 x)
        ∧ tryFromF64F true f bits (Ruint.Float.abs b64 x) ≠ .panic)
    (h2 : isNaN b64 x = false → lt b64 x zero = false → ge b64 x (exp2Int b64 bits) = true →
      toRes (Ruint.Gen.val_try_from_f64 f bits L (fmod b64 x (exp2Int b64 bits)))
          = tryFromF64F true f bits (fmod b64 x (exp2Int b64 bits))
        ∧ tryFromF64F true f bits (fmod b64 x (exp2Int b64 bits)) ≠ .panic) :
    toRes (Ruint.Gen.val_try_from_f64 (f + 1) bits L x) = tryFromF64F true (f + 1) bits x := by
  rw [gen_unfold, unfold_tryF]
  by_cases c1 : isNaN b64 x = true
  · rw [if_pos c1, if_pos c1]; rfl
  · rw [if_neg c1, if_neg c1]
    have c1' : isNaN b64 x = false := by simpa using c1
    by_cases c2 : lt b64 x zero = true
    · rw [if_pos c2, if_pos c2]
      obtain ⟨e, np⟩ := h1 c1' c2
      cases hg : Ruint.Gen.val_try_from_f64 f bits L (Ruint.Float.abs b64 x) with
      | none => rw [hg] at e; exact absurd e.symm np
      | some pv =>
        rw [hg] at e
        rw [← e]
        show Res.negative ((2 ^ bits - payload pv) % 2 ^ bits) = Res.negative (wneg bits _)
        rw [payload_eq]
        rfl
    · rw [if_neg c2, if_neg c2]
      have c2' : lt b64 x zero = false := by simpa using c2
      by_cases c3 : ge b64 x (exp2Int b64 bits) = true
      · rw [if_pos c3, if_pos c3]
        obtain ⟨e, np⟩ := h2 c1' c2' c3
        cases hg : Ruint.Gen.val_try_from_f64 f bits L (fmod b64 x (exp2Int b64 bits)) with
        | none => rw [hg] at e; exact absurd e.symm np
        | some pv =>
          rw [hg] at e
          rw [← e]
          show Res.tooLarge (payload pv) = Res.tooLarge _
          rw [payload_eq]
          rfl
      · rw [if_neg c3, if_neg c3]
        by_cases c4 : lt b64 x (half b64) = true
        · rw [if_pos c4, if_pos c4]; rfl
        · rw [if_neg c4, if_neg c4]
          exact genMain_eq bits x hbits

/-! ## arguments of the recursive calls -/

/-- a `u64` pattern of a finite value that is not below zero. -/
def Good (y : ℕ) : Prop :=
  y < 2 ^ 64 ∧ ∃ neg m e, decode b64 y = .fin neg m e ∧ (neg = false ∨ m = 0)

theorem good_facts (bits y : ℕ) (h : Good y) :
    isNaN b64 y = false ∧ lt b64 y zero = false ∧ tryFromF64 bits y ≠ .panic := by
  obtain ⟨h64, neg, m, e, hd, hnn⟩ := h
  refine ⟨isNaN_of_fin y m neg e hd, ?_, ?_⟩
  · rw [← Bool.not_eq_true, lt_zero_iff y m neg e hd]
    rintro ⟨a, b⟩
    rcases hnn with h | h
    · rw [h] at a; exact absurd a (by simp)
    · exact b h
  · obtain ⟨a, b⟩ := tryFromF64_fin bits y m neg e h64 hd hnn
    rcases Nat.lt_or_ge (floorHalf m e) (2 ^ bits) with c | c
    · rw [a c]; simp
    · obtain ⟨w, hw⟩ := b c
      rw [hw]; simp

/-- the modulus `2^BITS` as an `f64` is a power of two or `+∞`. -/
theorem decode_modulus (bits : ℕ) :
    (bits ≤ 1023 ∧ exp2Int b64 bits = pow2 (bits : ℤ)
        ∧ decode b64 (exp2Int b64 bits) = .fin false (2 ^ 52) ((bits : ℤ) - 52))
      ∨ (1023 < bits ∧ decode b64 (exp2Int b64 bits) = .inf false) := by
  rcases Nat.lt_or_ge 1023 bits with hb | hb
  · right; rw [exp2Int_inf bits hb]; exact ⟨hb, decode_inf64⟩
  · left; rw [exp2Int_eq bits hb]; exact ⟨hb, rfl, decode_pow2 bits (by omega) (by omega)⟩

/-- a leaf of the recursion: NaN, or a finite non-negative value below the modulus. -/
theorem leaf_eq (f bits L y : ℕ) (hbits : bits + 52 < 2 ^ 64)
    (h : isNaN b64 y = true ∨ (Good y ∧ ge b64 y (exp2Int b64 bits) = false)) :
    toRes (Ruint.Gen.val_try_from_f64 (f + 1) bits L y) = tryFromF64F true (f + 1) bits y
      ∧ tryFromF64F true (f + 1) bits y ≠ .panic := by
  constructor
  · apply step_eq f bits L y hbits
    · intro a b
      rcases h with h | ⟨h, _⟩
      · rw [h] at a; exact absurd a (by simp)
      · rw [(good_facts bits y h).2.1] at b; exact absurd b (by simp)
    · intro a _ c
      rcases h with h | ⟨_, h⟩
      · rw [h] at a; exact absurd a (by simp)
      · rw [h] at c; exact absurd c (by simp)
  · rcases h with h | ⟨hg, hge⟩
    · rw [unfold_tryF, if_pos h]; simp
    · obtain ⟨a, b, c⟩ := good_facts bits y hg
      have e : tryFromF64F true (f + 1) bits y = tryFromF64 bits y := by
        unfold tryFromF64
        rw [unfold_tryF, unfold_tryF, a, b, hge]
        simp only [Bool.false_eq_true, if_false]
      rw [e]; exact c

/-! ### `|x|` -/

theorem decode_abs (x : ℕ) :
    decode b64 (Ruint.Float.abs b64 x) =
      (match decode b64 x with | .nan => .nan | .inf _ => .inf false | .fin _ m e => .fin false m e) := by
  have hs : b64.signBit = 2 ^ 63 := by decide
  have hE : b64.emaxB = 2047 := by decide
  have hq : b64.qmin = -1074 := by decide
  have hmb : b64.mb = 52 := rfl
  have heb : b64.eb = 11 := rfl
  unfold Ruint.Float.abs decode
  simp only [hs, hE, hq, hmb, heb]
  have f1 : (x % 2 ^ 63) % 2 ^ 52 = x % 2 ^ 52 := by omega
  have f2 : ((x % 2 ^ 63) / 2 ^ 52) % 2 ^ 11 = (x / 2 ^ 52) % 2 ^ 11 := by omega
  have f3 : ((x % 2 ^ 63) / 2 ^ (52 + 11)) % 2 = 0 := by omega
  rw [f1, f2, f3]
  split_ifs <;> simp

theorem abs_facts (x : ℕ) (hn : isNaN b64 x = false) :
    isNaN b64 (Ruint.Float.abs b64 x) = false ∧ lt b64 (Ruint.Float.abs b64 x) zero = false ∧ Ruint.Float.abs b64 x < 2 ^ 64 := by
  have hs : b64.signBit = 2 ^ 63 := by decide
  have hda := decode_abs x
  refine ⟨?_, ?_, ?_⟩
  · unfold isNaN at hn ⊢
    rw [hda]
    cases hd : decode b64 x with
    | nan => rw [hd] at hn; simp at hn
    | inf n => rfl
    | fin n m e => rfl
  · cases hd : decode b64 x with
    | nan => unfold isNaN at hn; rw [hd] at hn; simp at hn
    | inf n =>
      rw [hd] at hda
      unfold lt zero; rw [hda, decode_zero]; rfl
    | fin n m e =>
      rw [hd] at hda
      rw [← Bool.not_eq_true, lt_zero_iff _ m false e hda]
      simp
  · unfold Ruint.Float.abs; rw [hs]
    have : x % 2 ^ 63 < 2 ^ 63 := Nat.mod_lt _ (by norm_num)
    omega

/-! ### `x % modulus` -/

/-- an integer multiple `r·2^(K-52)`, `r < 2^52`, of the modulus' last place is exactly representable and
    below `2^K`. -/
theorem rne_small (r K : ℕ) (hK : K ≤ 1023) (hr : r < 2 ^ 52) :
    rne b64 false r ((K : ℤ) - 52) < 2 ^ 64 ∧
      ∃ m' e', decode b64 (rne b64 false r ((K : ℤ) - 52)) = .fin false m' e' ∧
        ge b64 (rne b64 false r ((K : ℤ) - 52)) (pow2 (K : ℤ)) = false := by
  have hs : sgn b64 false = 0 := by simp [sgn]
  unfold rne
  rw [hs, Nat.zero_add]
  rcases Nat.eq_zero_or_pos r with h0 | hpos
  · subst h0
    have : rneMag b64 0 ((K : ℤ) - 52) = 0 := by simp [rneMag]
    rw [this]
    refine ⟨by norm_num, 0, -1074, decode_zero, ?_⟩
    rw [← Bool.not_eq_true, ge_pow2_iff 0 0 (-1074) K decode_zero (by omega) (by omega)]
    have : 0 < 2 ^ ((K : ℤ) - -1074).toNat := by positivity
    omega
  · have hL1 := bitLen_pos hpos
    have hL2 : bitLen r ≤ 52 := bitLen_le_of_lt hr
    have hq : b64.qmin = -1074 := by decide
    have hmb : b64.mb = 52 := rfl
    have hinf : b64.infBits = 2047 * 2 ^ 52 := by decide
    have hn := rneMag_normal b64 r ((K : ℤ) - 52) hpos (by rw [hq, hmb]; omega)
    simp only [hmb, hq, hinf] at hn
    have cL : bitLen r ≤ 52 + 1 := by omega
    rw [if_pos cL] at hn
    obtain ⟨L, hL⟩ : ∃ L, L = bitLen r := ⟨_, rfl⟩
    rw [← hL] at hn hL1 hL2
    obtain ⟨b1, b2⟩ := bitLen_bounds hpos
    rw [← hL] at b1 b2
    have hMr1 : 2 ^ 52 ≤ r * 2 ^ (52 + 1 - L) := by
      have : 52 = (L - 1) + (52 + 1 - L) := by omega
      calc 2 ^ 52 = 2 ^ (L - 1) * 2 ^ (52 + 1 - L) := by rw [← pow_add, ← this]
        _ ≤ r * 2 ^ (52 + 1 - L) := Nat.mul_le_mul_right _ b1
    have hMr2 : r * 2 ^ (52 + 1 - L) < 2 ^ 53 := by
      have : 53 = L + (52 + 1 - L) := by omega
      calc r * 2 ^ (52 + 1 - L) < 2 ^ L * 2 ^ (52 + 1 - L) := Nat.mul_lt_mul_of_pos_right b2 (by positivity)
        _ = 2 ^ 53 := by rw [← pow_add, ← this]
    have hMr3 : r * 2 ^ (52 + 1 - L) < 2 ^ 52 * 2 ^ (52 + 1 - L) :=
      Nat.mul_lt_mul_of_pos_right hr (by positivity)
    obtain ⟨Q, hQ⟩ : ∃ Q, Q = ((K : ℤ) - 52 + (L : ℤ) - ((52 + 1 : ℕ) : ℤ) - -1074).toNat := ⟨_, rfl⟩
    rw [← hQ] at hn
    have hQ1 : Q ≤ 2044 := by omega
    obtain ⟨Mr, hMr⟩ : ∃ Mr, Mr = r * 2 ^ (52 + 1 - L) := ⟨_, rfl⟩
    rw [← hMr] at hn hMr1 hMr2 hMr3
    rw [if_neg (by omega)] at hn
    rw [hn]
    have hdec : decode b64 (Q * 2 ^ 52 + Mr) = .fin false Mr (-1074 + (Q : ℤ)) := by
      have := decode_assembled b64 b64_ok Q Mr (by rw [hmb]; exact hMr1) (by rw [hmb]; omega)
        (by rw [hinf, hmb]; omega)
      rw [hmb, hq] at this
      rcases this with ⟨_, h⟩ | ⟨h, _⟩
      · exact h
      · omega
    refine ⟨by omega, Mr, -1074 + (Q : ℤ), hdec, ?_⟩
    rw [← Bool.not_eq_true, ge_pow2_iff _ Mr _ K hdec (by omega) (by omega), not_le]
    have e1 : ((-1074 + (Q : ℤ)) - (K : ℤ)).toNat = 0 := by omega
    have e2 : ((K : ℤ) - (-1074 + (Q : ℤ))).toNat = 52 + (52 + 1 - L) := by omega
    rw [e1, e2, pow_zero, Nat.mul_one, pow_add]
    exact hMr3

/-- the argument `x % modulus` of the second recursive call is NaN (`x = +∞`) or lies in `[0, modulus)`. -/
theorem fmod_leaf (bits y : ℕ) (hn : isNaN b64 y = false) (hl : lt b64 y zero = false)
    (hg : ge b64 y (exp2Int b64 bits) = true) :
    isNaN b64 (fmod b64 y (exp2Int b64 bits)) = true ∨
      (Good (fmod b64 y (exp2Int b64 bits))
        ∧ ge b64 (fmod b64 y (exp2Int b64 bits)) (exp2Int b64 bits) = false) := by
  have hnan : isNaN b64 b64.nanBits = true := by decide +kernel
  cases hd : decode b64 y with
  | nan => unfold isNaN at hn; rw [hd] at hn; simp at hn
  | inf n =>
    left
    have : fmod b64 y (exp2Int b64 bits) = b64.nanBits := by
      unfold fmod; rw [hd]
      rcases decode_modulus bits with ⟨_, _, h⟩ | ⟨_, h⟩ <;> rw [h]
    rw [this]; exact hnan
  | fin n m e =>
    rcases decode_modulus bits with ⟨hb, hE, hm⟩ | ⟨hb, hm⟩
    · rw [hE] at hg hm ⊢
      by_cases hm0 : m = 0
      · exfalso
        subst hm0
        unfold ge at hg
        rw [hd, hm] at hg
        have hz : ∀ k : ℕ, sInt n (0 * k) = 0 := by intro k; cases n <;> simp [sInt]
        simp only [Dec.le, hz, decide_eq_true_eq] at hg
        have : (0 : ℤ) < sInt false (2 ^ 52 * 2 ^ ((bits : ℤ) - 52 - min ((bits : ℤ) - 52) e).toNat) := by
          simp only [sInt, Bool.false_eq_true, if_false]; positivity
        omega
      · have hnf : n = false := by
          cases n
          · rfl
          · have := (lt_zero_iff y m true e hd).mpr ⟨rfl, hm0⟩
            rw [hl] at this; simp at this
        subst hnf
        have hge := (ge_pow2_iff y m e bits hd (by omega) (by omega)).mp hg
        obtain ⟨h53, _⟩ := fin_lt_max y m false e hd
        have he : (bits : ℤ) - 52 ≤ e := by
          by_contra hc
          push Not at hc
          have a1 : (e - (bits : ℤ)).toNat = 0 := by omega
          rw [a1, pow_zero, Nat.mul_one] at hge
          have : 2 ^ 53 ≤ 2 ^ ((bits : ℤ) - e).toNat := Nat.pow_le_pow_right (by norm_num) (by omega)
          omega
        right
        have hf : fmod b64 y (pow2 (bits : ℤ)) =
            rne b64 false ((m * 2 ^ (e - ((bits : ℤ) - 52)).toNat) % 2 ^ 52) ((bits : ℤ) - 52) := by
          unfold fmod
          rw [hd, hm]
          simp only
          rw [if_neg (by positivity), min_eq_right he]
          simp
        rw [hf]
        obtain ⟨a, m', e', b, c⟩ := rne_small _ bits hb (Nat.mod_lt _ (by positivity))
        exact ⟨⟨a, false, m', e', b, Or.inl rfl⟩, c⟩
    · exfalso
      unfold ge at hg
      rw [hd, hm] at hg
      simp [Dec.le] at hg

/-! ## the recursion: depth at most 3 -/

/-- second level: an argument that is not NaN and not below zero. -/
theorem mid_eq (f bits L y : ℕ) (hbits : bits + 52 < 2 ^ 64) (hn : isNaN b64 y = false)
    (hl : lt b64 y zero = false) (h64 : y < 2 ^ 64) :
    toRes (Ruint.Gen.val_try_from_f64 (f + 2) bits L y) = tryFromF64F true (f + 2) bits y
      ∧ tryFromF64F true (f + 2) bits y ≠ .panic := by
  by_cases hg : ge b64 y (exp2Int b64 bits) = true
  · have hleaf := leaf_eq f bits L _ hbits (fmod_leaf bits y hn hl hg)
    constructor
    · exact step_eq (f + 1) bits L y hbits
        (fun _ b => by rw [hl] at b; exact absurd b (by simp)) (fun _ _ _ => hleaf)
    · rw [unfold_tryF, hn, hl, hg]; simp
  · have hg' : ge b64 y (exp2Int b64 bits) = false := by simpa using hg
    apply leaf_eq (f + 1) bits L y hbits
    right
    refine ⟨⟨h64, ?_⟩, hg'⟩
    cases hd : decode b64 y with
    | nan => unfold isNaN at hn; rw [hd] at hn; simp at hn
    | inf n =>
      exfalso
      cases n
      · apply hg
        unfold ge; rw [hd]
        rcases decode_modulus bits with ⟨_, _, h⟩ | ⟨_, h⟩ <;> rw [h] <;> rfl
      · have : lt b64 y zero = true := by unfold lt zero; rw [hd, decode_zero]; rfl
        rw [this] at hl; simp at hl
    | fin n m e =>
      refine ⟨n, m, e, rfl, ?_⟩
      by_contra hc
      push Not at hc
      have hnt : n = true := by cases n <;> simp_all
      have := (lt_zero_iff y m n e hd).mpr ⟨hnt, hc.2⟩
      rw [hl] at this; simp at this

/-- with fuel `≥ 3` the generated function and the model agree on every input. -/
theorem top_eq (f bits L x : ℕ) (hbits : bits + 52 < 2 ^ 64) :
    toRes (Ruint.Gen.val_try_from_f64 (f + 3) bits L x) = tryFromF64F true (f + 3) bits x := by
  apply step_eq (f + 2) bits L x hbits
  · intro a _
    obtain ⟨p, q, r⟩ := abs_facts x a
    exact mid_eq f bits L _ hbits p q r
  · intro a b c
    exact leaf_eq (f + 1) bits L _ hbits (fmod_leaf bits x a b c)

/-- **generated `try_from(f64)` = model**, at fuel `0` and at every fuel `≥ 3` (the source's recursion depth).
    The hypothesis on `f` cannot be dropped: at `f = 1` (`x = -1.0`) and `f = 2` (`x = -2^70`, `bits = 64`)
    the generated function runs out of fuel in a recursive call and propagates the failure, the model's
    `| _ => 0` swallows it. -/
theorem try_from_f64F_eq (bits L : ℕ) (hbits : bits + 52 < 2 ^ 64) (f x : ℕ) (hf : f = 0 ∨ 3 ≤ f) :
    toRes (Ruint.Gen.val_try_from_f64 f bits L x) = Ruint.Float.tryFromF64F true f bits x := by
  rcases hf with hf | hf
  · subst hf
    rw [Ruint.Gen.val_try_from_f64, tryFromF64F]; rfl
  · obtain ⟨g, rfl⟩ : ∃ g, f = g + 3 := ⟨f - 3, by omega⟩
    exact top_eq g bits L x hbits

theorem try_from_f64_eq (bits L x : ℕ) (hbits : bits + 52 < 2 ^ 64) :
    toRes (Ruint.Gen.val_try_from_f64 3 bits L x) = Ruint.Float.tryFromF64 bits x :=
  top_eq 0 bits L x hbits

/-- the original fuel-generic statement is false at fuel 1 and fuel 2 (kernel-checked witnesses). -/
theorem try_from_f64F_fuel1_witness :
    toRes (Ruint.Gen.val_try_from_f64 1 64 1 0xBFF0000000000000) = .panic
      ∧ tryFromF64F true 1 64 0xBFF0000000000000 = .negative 0 := by
  constructor <;> decide +kernel

theorem try_from_f64F_fuel2_witness :
    toRes (Ruint.Gen.val_try_from_f64 2 64 1 0xC450000000000000) = .panic
      ∧ tryFromF64F true 2 64 0xC450000000000000 = .negative 0 := by
  constructor <;> decide +kernel

end Ruint.GenFloat

#print axioms Ruint.GenFloat.try_from_f64F_eq
#print axioms Ruint.GenFloat.try_from_f64_eq
#print axioms Ruint.GenFloat.try_from_f64F_fuel1_witness
#print axioms Ruint.GenFloat.try_from_f64F_fuel2_witness
