import Ruint.Gen.WordsFloat
import Ruint.Lemmas.FloatTryG

/-!
# Tie: the generated `impl TryFrom<f64> for Uint` (`Ruint.Gen.val_try_from_f64`) = the model `Ruint.Float.tryFromF64F true`

The generated function propagates a panic (`none`) of a recursive call, the hand-written model swallows it
(`| _ => 0`); the two agree because a recursive call never panics: its argument is `|x|` (not NaN, not
negative) or `x % modulus` (NaN, or in `[0, modulus)`), so the recursion depth is at most 3 and the
`assert!`s of the tail never fire on it (`tryFromF64_fin`). Consequently the tie holds at fuel `0` and at every
fuel `≥ 3`; it is FALSE at fuel `1` (e.g. `x = -1.0`) and fuel `2` (e.g. `x = -2^70`, `bits = 64`).
-/
namespace Ruint.GenFloat
open Ruint Ruint.Float

/-- the outcome of the generated function as a model outcome (`FromUintError` variant tags: 0 `ValueTooLarge`,
    1 `ValueNegative`, 2 `NotANumber`). -/
def toRes : Option (Except (Nat × Nat × Nat) Nat) → Ruint.Float.Res
  | none => .panic
  | some (.ok v) => .ok v
  | some (.error (0, _, w)) => .tooLarge w
  | some (.error (1, _, w)) => .negative w
  | some (.error _) => .notANumber

/-! ## literals -/

theorem lit_half : (4602678819172646912 : ℕ) = half b64 := by decide
theorem lit_two52 : (4841369599423283200 : ℕ) = two52 := by decide
theorem and_2047 (v : ℕ) : v &&& 2047 = v % 2 ^ 11 := Nat.and_two_pow_sub_one_eq_mod v 11
theorem and_frac (v : ℕ) : v &&& 4503599627370495 = v % 2 ^ 52 := Nat.and_two_pow_sub_one_eq_mod v 52
theorem or_mant (r : ℕ) (h : r < 2 ^ 52) : 4503599627370496 ||| r = 2 ^ 52 + r := by
  have := Nat.two_pow_add_eq_or_of_lt h 1
  simp only [Nat.mul_one] at this
  exact this.symm

/-! ## the payload extraction `Ok(n) | Err(ValueTooLarge(_, n)) => n, _ => ZERO` -/

/-- the generated form of the `match` on the recursive result. -/
def payload (pv : Except (Nat × Nat × Nat) Nat) : ℕ :=
  (let sel2 := pv
  (if ((((Rs.isOk sel2)) || ((!(Rs.isOk sel2)) && (((Rs.errD (0, 0, 0) sel2)).1 == 0)))) then (let n := (if ((Rs.isOk sel2)) then (Rs.okD 0 sel2) else ((Rs.errD (0, 0, 0) sel2)).2.2)
  n)
  else (0)))

theorem payload_eq (pv : Except (Nat × Nat × Nat) Nat) :
    payload pv = (match toRes (some pv) with | .ok n => n | .tooLarge n => n | _ => 0) := by
  rcases pv with ⟨k, b, w⟩ | v
  · rcases k with _ | _ | k
    · simp [payload, Rs.isOk, Rs.errD, toRes]
    · simp [payload, Rs.isOk, Rs.errD, toRes]
    · simp [payload, Rs.isOk, Rs.errD, toRes]
  · simp [payload, Rs.isOk, Rs.okD, toRes]

/-! ## the tail after the range checks -/

/-- the generated code after the range checks (verbatim). -/
def genMain (BITS value : ℕ) : Option (Except (Nat × Nat × Nat) Nat) :=
  if (Ruint.Float.isNormal Ruint.Float.b64 value) then (
  let value := (if (Ruint.Float.ge Ruint.Float.b64 value 4841369599423283200) then (
  value)
  else (
  (Ruint.Float.add Ruint.Float.b64 value 4602678819172646912)))
  let bits := value
  let sign := (bits / 2 ^ 63)
  if (sign == 0) then (
  let biased_exponent := ((bits / 2 ^ 52) &&& 2047)
  if (decide (biased_exponent ≥ 1023)) then (
  let exponent := (Rs.wsub 64 biased_exponent 1023)
  let fraction := (bits &&& 4503599627370495)
  let mantissa := (4503599627370496 ||| fraction)
  if (decide (exponent > (Rs.wadd 64 BITS 52))) then (
  (some (Except.error (0, BITS, 0))))
  else (
  if (decide (exponent ≤ 52)) then (
  (some (let k_ := (mantissa / 2 ^ (Rs.wsub 64 52 exponent)); if decide (k_ < 2 ^ BITS) then (Except.ok k_ : Except (Nat × Nat × Nat) Nat) else Except.error (0, BITS, k_ % 2 ^ BITS))))
  else (
  let exponent := (Rs.wsub 64 exponent 52)
  match (let k_ := mantissa; if decide (k_ < 2 ^ BITS) then (Except.ok k_ : Except (Nat × Nat × Nat) Nat) else Except.error (0, BITS, k_ % 2 ^ BITS)) with
  | Except.error e_ => (some (Except.error e_))
  | Except.ok n => (
  let sel5 := (((n * 2 ^ exponent) % 2 ^ BITS, decide (2 ^ BITS ≤ n * 2 ^ exponent)))
  let n := sel5.1
  let overflow := sel5.2
  (if overflow then (
  (some (Except.error (0, BITS, n))))
  else (
  (some (Except.ok n))))))))
  else none)
  else none)
  else none

/-- one unfolding of the generated function. -/
theorem gen_unfold (f bits L x : ℕ) :
    Ruint.Gen.val_try_from_f64 (f + 1) bits L x =
      if isNaN b64 x = true then some (Except.error (2, bits, 0))
      else if lt b64 x 0 = true then
        (match Ruint.Gen.val_try_from_f64 f bits L (abs b64 x) with
          | none => none
          | some pv => some (Except.error (1, bits, (2 ^ bits - payload pv) % 2 ^ bits)))
      else if ge b64 x (exp2Int b64 bits) = true then
        (match Ruint.Gen.val_try_from_f64 f bits L (fmod b64 x (exp2Int b64 bits)) with
          | none => none
          | some pv => some (Except.error (0, bits, payload pv)))
      else if lt b64 x 4602678819172646912 = true then some (Except.ok 0)
      else genMain bits x := by
  rw [Ruint.Gen.val_try_from_f64]; rfl

/-- `TryFrom<u64>` as generated. -/
theorem toRes_tryFromU64 (bits k : ℕ) :
    toRes (some (if decide (k < 2 ^ bits) then (Except.ok k : Except (Nat × Nat × Nat) Nat)
      else Except.error (0, bits, k % 2 ^ bits))) = tryFromU64 bits k := by
  unfold tryFromU64
  by_cases h : k < 2 ^ bits
  · simp [h, toRes]
  · simp [h, toRes]

/-- the integer part of the tail: from the biased exponent `be` and the mantissa on. -/
theorem core_eq (bits be mant : ℕ) (hbits : bits + 52 < 2 ^ 64) (h1 : 1023 ≤ be) (h2 : be < 2048) :
    toRes (
      let exponent := (Rs.wsub 64 be 1023)
      if (decide (exponent > (Rs.wadd 64 bits 52))) then (
      (some (Except.error (0, bits, 0))))
      else (
      if (decide (exponent ≤ 52)) then (
      (some (let k_ := (mant / 2 ^ (Rs.wsub 64 52 exponent)); if decide (k_ < 2 ^ bits) then (Except.ok k_ : Except (Nat × Nat × Nat) Nat) else Except.error (0, bits, k_ % 2 ^ bits))))
      else (
      let exponent := (Rs.wsub 64 exponent 52)
      match (let k_ := mant; if decide (k_ < 2 ^ bits) then (Except.ok k_ : Except (Nat × Nat × Nat) Nat) else Except.error (0, bits, k_ % 2 ^ bits)) with
      | Except.error e_ => (some (Except.error e_))
      | Except.ok n => (
      let sel5 := (((n * 2 ^ exponent) % 2 ^ bits, decide (2 ^ bits ≤ n * 2 ^ exponent)))
      let n := sel5.1
      let overflow := sel5.2
      (if overflow then (
      (some (Except.error (0, bits, n))))
      else (
      (some (Except.ok n)))))))) =
    (let exponent := be - 1023
     if exponent > bits + 52 then Res.tooLarge 0
     else if exponent ≤ 52 then tryFromU64 bits (mant / 2 ^ (52 - exponent))
     else
       match tryFromU64 bits mant with
       | .ok n =>
         let (n', ov) := oshl bits n (exponent - 52)
         if ov then .tooLarge n' else .ok n'
       | r => r) := by
  have e1 : Rs.wsub 64 be 1023 = be - 1023 := by unfold Rs.wsub; omega
  have e2 : Rs.wadd 64 bits 52 = bits + 52 := by unfold Rs.wadd; omega
  simp only [e1, e2, gt_iff_lt, decide_eq_true_eq]
  obtain ⟨ex, hex⟩ : ∃ ex, ex = be - 1023 := ⟨_, rfl⟩
  rw [← hex]
  have hex2 : ex < 1025 := by omega
  by_cases c1 : bits + 52 < ex
  · rw [if_pos c1, if_pos c1]; rfl
  · rw [if_neg c1, if_neg c1]
    by_cases c2 : ex ≤ 52
    · rw [if_pos c2, if_pos c2]
      have e3 : Rs.wsub 64 52 ex = 52 - ex := by unfold Rs.wsub; omega
      rw [e3]
      unfold tryFromU64
      by_cases c3 : mant / 2 ^ (52 - ex) < 2 ^ bits
      · simp [c3, toRes]
      · simp [c3, toRes]
    · rw [if_neg c2, if_neg c2]
      have e3 : Rs.wsub 64 ex 52 = ex - 52 := by unfold Rs.wsub; omega
      rw [e3]
      unfold tryFromU64 oshl
      by_cases c3 : mant < 2 ^ bits
      · simp only [c3, decide_true, if_true]
        by_cases c4 : 2 ^ bits ≤ mant * 2 ^ (ex - 52)
        · simp [c4, toRes]
        · simp [c4, toRes]
      · simp [c3, toRes]

theorem genMain_eq (bits x : ℕ) (hbits : bits + 52 < 2 ^ 64) :
    toRes (genMain bits x) = tfMain true bits x := by
  unfold genMain tfMain
  by_cases hn : isNormal b64 x = true
  · rw [if_pos hn]
    simp only [hn, Bool.not_true, Bool.false_eq_true, if_false, Bool.true_and]
    rw [← lit_half, ← lit_two52]
    obtain ⟨v, hv⟩ : ∃ v, v = (if ge b64 x 4841369599423283200 = true then x
      else add b64 x 4602678819172646912) := ⟨_, rfl⟩
    rw [← hv]
    by_cases hs : v / 2 ^ 63 = 0
    · rw [if_pos (beq_iff_eq.mpr hs), if_neg (not_not.mpr hs)]
      rw [and_2047, and_frac, or_mant _ (Nat.mod_lt _ (by norm_num))]
      obtain ⟨be, hbe⟩ : ∃ be, be = v / 2 ^ 52 % 2 ^ 11 := ⟨_, rfl⟩
      have hbe2 : be < 2048 := by rw [hbe]; exact Nat.mod_lt _ (by norm_num)
      rw [← hbe]
      by_cases hb : 1023 ≤ be
      · rw [if_pos (decide_eq_true hb), if_neg (Nat.not_lt.mpr hb)]
        exact core_eq bits be _ hbits hb hbe2
      · rw [if_neg (by simpa using hb), if_pos (Nat.lt_of_not_le hb)]; rfl
    · rw [if_neg (by simpa using hs), if_pos hs]; rfl
  · rw [if_neg hn]
    simp only [Bool.not_eq_true] at hn
    simp [hn, toRes]

end Ruint.GenFloat
