import Ruint.Gen.WordsRadix
import Ruint.Model.Radix
import Ruint.Lemmas.Basic
import Ruint.Lemmas.GenCore
import Ruint.Lemmas.GenLehmer
import Ruint.Lemmas.GenKernels
import Ruint.Props.C15

/-! `Uint::from_base_le` as GENERATED from `src/base_convert.rs` (`Ruint.Gen.uint_from_base_le`, limb level, the
    iterator modelled as the digit list plus a position) refines the value-level (L2) model
    `Ruint.Radix.fromBaseLE`: same value on success, same error (variant index + fields) otherwise, and the
    returned limb array is canonical. -/
set_option autoImplicit false
namespace Ruint.GenRadixLE
open Ruint Ruint.Limb Ruint.GenLehmer Ruint.Radix

def errT : Ruint.Radix.BaseErr → ℕ × ℕ × ℕ
  | .overflow => (0, 0, 0)
  | .invalidBase b => (1, b, 0)
  | .invalidDigit d b => (2, d, b)

def mapErr {α : Type} : Except Ruint.Radix.BaseErr α → Except (ℕ × ℕ × ℕ) α
  | .ok a => .ok a
  | .error e => .error (errT e)

/-! ### callee ties with arbitrary (large enough) fuel -/

theorem gen_addmul_eq (f : ℕ) (lhs a : List ℕ) (b : ℕ) (hl : lhs.length = a.length) (hn : a.length < 2 ^ 64)
    (hf : a.length < f) (hwl : AllLt lhs) (hwa : AllLt a) (hb : b < W) :
    Ruint.Gen.addmul_nx1 f lhs a b = addmulNx1 W lhs a b := by
  have hloop := Ruint.GenKernels.addmul_loop_eq b hb lhs a [] [] 0 f a.length hl rfl (by simp) hn hf hwl hwa W_pos
  simp only [List.nil_append, List.length_nil] at hloop
  unfold Ruint.Gen.addmul_nx1 addmulNx1
  simp only [hloop]

theorem gen_mul_eq (f : ℕ) (lhs : List ℕ) (a : ℕ) (hn : lhs.length < 2 ^ 64) (hf : lhs.length < f)
    (hw : AllLt lhs) (ha : a < W) :
    Ruint.Gen.mul_nx1 f lhs a = mulNx1 W lhs a := by
  have hloop := Ruint.GenKernels.mul_loop_eq a ha lhs [] 0 f lhs.length (by simp) hn hf hw W_pos
  simp only [List.nil_append, List.length_nil] at hloop
  unfold Ruint.Gen.mul_nx1 mulNx1
  simp only [hloop]

/-! ### the overflow test `carry != 0 || top > MASK` -/

theorem wsub_one (n : ℕ) (h0 : 0 < n) (hN : n < 2 ^ 64) : Rs.wsub 64 n 1 = n - 1 := by
  unfold Rs.wsub
  have : n + 2 ^ 64 - 1 = (n - 1) + 2 ^ 64 := by omega
  rw [this, Nat.add_mod_right, Nat.mod_eq_of_lt (by omega)]

theorem wadd_one (i : ℕ) (h : i + 1 < 2 ^ 64) : Rs.wadd 64 i 1 = i + 1 := by
  unfold Rs.wadd
  exact Nat.mod_eq_of_lt h

theorem top_gt_iff (bits : ℕ) (hb : 0 < bits) (hN : nlimbs bits < 2 ^ 64) (l : List ℕ)
    (hlen : l.length = nlimbs bits) (hl : AllLt l) :
    l.getD (Rs.wsub 64 (nlimbs bits) 1) 0 > Ruint.Gen.mask bits ↔ 2 ^ bits ≤ val l := by
  have hn := nlimbs_pos bits hb
  obtain ⟨_, _, h3⟩ := maskTop_spec bits hb l hlen hl
  rw [GenCore.mask_eq, wsub_one _ hn hN, ← h3]
  have hne : l ≠ [] := by intro e; subst e; simp at hlen; omega
  obtain ⟨init, t, rfl⟩ := exists_init_last l hne
  have hil : init.length = nlimbs bits - 1 := by simp at hlen; omega
  have g1 : (init ++ [t]).getD (nlimbs bits - 1) 0 = t := by rw [← hil]; simp
  simp only [g1, List.getLast?_append, List.getLast?_singleton, Option.some_or, Option.getD_some, gt_iff_lt]

theorem ovf_iff (bits : ℕ) (hb : 0 < bits) (hN : nlimbs bits < 2 ^ 64) (l : List ℕ)
    (hlen : l.length = nlimbs bits) (hl : AllLt l) (c : ℕ) :
    ((c != 0) || decide (l.getD (Rs.wsub 64 (nlimbs bits) 1) 0 > Ruint.Gen.mask bits)) = true
      ↔ (c ≠ 0 ∨ val l ≥ 2 ^ bits) := by
  simp only [Bool.or_eq_true, bne_iff_ne, ne_eq, decide_eq_true_eq]
  rw [top_gt_iff bits hb hN l hlen hl]

/-! ### the zero-tail loops -/

theorem loop_stop {σ : Type} (step : σ → σ × Bool) (f : ℕ) (s t : σ) (h : step s = (t, false)) :
    Rs.loop step (f + 1) s = t := by
  rw [loop_succ, h]; rfl

theorem loop_cont {σ : Type} (step : σ → σ × Bool) (f : ℕ) (s t : σ) (h : step s = (t, true)) :
    Rs.loop step (f + 1) s = Rs.loop step f t := by
  rw [loop_succ, h]; rfl

/-- the result-slot encoding of the model's `zeroTail` -/
def tailRes (o : Option BaseErr) : Option (Except (ℕ × ℕ × ℕ) (List ℕ)) :=
  o.map (fun e => Except.error (errT e))

theorem drop_cons (digits : List ℕ) (pos : ℕ) (h : pos < digits.length) :
    digits.drop pos = digits.getD pos 0 :: digits.drop (pos + 1) := by
  rw [List.drop_eq_getElem_cons h]
  congr 1
  rw [List.getD_eq_getElem?_getD, List.getElem?_eq_getElem h]; rfl

theorem step3_eq (bits n base : ℕ) (digits : List ℕ) (pos : ℕ) :
    Ruint.Gen.uint_from_base_le_step3 bits n base digits (pos, none) =
      if pos < digits.length then
        if digits.getD pos 0 ≥ base then
          ((Rs.wadd 64 pos 1, some (Except.error (2, digits.getD pos 0, base))), false)
        else if digits.getD pos 0 ≠ 0 then ((Rs.wadd 64 pos 1, some (Except.error (0, 0, 0))), false)
        else ((Rs.wadd 64 pos 1, none), true)
      else ((pos, none), false) := by
  unfold Ruint.Gen.uint_from_base_le_step3
  simp only [decide_eq_true_eq, bne_iff_ne, ne_eq]

theorem tail3_eq (bits n base : ℕ) (digits : List ℕ) (hl : digits.length < 2 ^ 64) :
    ∀ (f pos : ℕ), pos ≤ digits.length → digits.length - pos < f →
      (Rs.loop (Ruint.Gen.uint_from_base_le_step3 bits n base digits) f (pos, none)).2
        = tailRes (zeroTail base (digits.drop pos)) := by
  intro f
  induction f with
  | zero => intro pos _ hf; omega
  | succ f ih =>
    intro pos hp hf
    by_cases h1 : pos < digits.length
    · rw [drop_cons digits pos h1]
      have hw := wadd_one pos (by omega)
      by_cases h2 : digits.getD pos 0 ≥ base
      · rw [loop_stop _ f _ _ (by rw [step3_eq, if_pos h1, if_pos h2])]
        simp only [zeroTail, h2, if_true, tailRes, Option.map_some, errT]
      · by_cases h3 : digits.getD pos 0 ≠ 0
        · rw [loop_stop _ f _ _ (by rw [step3_eq, if_pos h1, if_neg h2, if_pos h3])]
          simp only [zeroTail, h2, h3, if_true, if_false, tailRes, Option.map_some, errT, ne_eq, not_false_eq_true]
        · rw [loop_cont _ f _ _ (by rw [step3_eq, if_pos h1, if_neg h2, if_neg h3]), hw,
            ih (pos + 1) (by omega) (by omega)]
          simp only [zeroTail, h2, h3, if_false]
    · have e : pos = digits.length := by omega
      rw [loop_stop _ f _ _ (by rw [step3_eq, if_neg h1])]
      subst e
      simp [zeroTail, tailRes]

theorem step1_eq (bits n base : ℕ) (digits : List ℕ) (bound pos : ℕ) :
    Ruint.Gen.uint_from_base_le_step1 bits n base digits bound (pos, none) =
      if pos < bound then
        if digits.getD pos 0 ≥ base then
          ((pos, some (Except.error (2, digits.getD pos 0, base))), false)
        else if digits.getD pos 0 ≠ 0 then ((pos, some (Except.error (0, 0, 0))), false)
        else ((Rs.wadd 64 pos 1, none), true)
      else ((pos, none), false) := by
  unfold Ruint.Gen.uint_from_base_le_step1
  simp only [decide_eq_true_eq, bne_iff_ne, ne_eq]

theorem tail1_eq (bits n base : ℕ) (digits : List ℕ) (hl : digits.length < 2 ^ 64) :
    ∀ (f pos : ℕ), pos ≤ digits.length → digits.length - pos < f →
      (Rs.loop (Ruint.Gen.uint_from_base_le_step1 bits n base digits digits.length) f (pos, none)).2
        = tailRes (zeroTail base (digits.drop pos)) := by
  intro f
  induction f with
  | zero => intro pos _ hf; omega
  | succ f ih =>
    intro pos hp hf
    by_cases h1 : pos < digits.length
    · rw [drop_cons digits pos h1]
      have hw := wadd_one pos (by omega)
      by_cases h2 : digits.getD pos 0 ≥ base
      · rw [loop_stop _ f _ _ (by rw [step1_eq, if_pos h1, if_pos h2])]
        simp only [zeroTail, h2, if_true, tailRes, Option.map_some, errT]
      · by_cases h3 : digits.getD pos 0 ≠ 0
        · rw [loop_stop _ f _ _ (by rw [step1_eq, if_pos h1, if_neg h2, if_pos h3])]
          simp only [zeroTail, h2, h3, if_true, if_false, tailRes, Option.map_some, errT, ne_eq, not_false_eq_true]
        · rw [loop_cont _ f _ _ (by rw [step1_eq, if_pos h1, if_neg h2, if_neg h3]), hw,
            ih (pos + 1) (by omega) (by omega)]
          simp only [zeroTail, h2, h3, if_false]
    · have e : pos = digits.length := by omega
      rw [loop_stop _ f _ _ (by rw [step1_eq, if_neg h1])]
      subst e
      simp [zeroTail, tailRes]

/-! ### the main loop -/

theorem step2_eq (fc bits n base : ℕ) (digits : List ℕ) (pos : ℕ) (result power : List ℕ) :
    Ruint.Gen.uint_from_base_le_step2 fc bits n base digits ((pos, result, power), none) =
      if pos < digits.length then
        if digits.getD pos 0 ≥ base then
          (((Rs.wadd 64 pos 1, result, power), some (Except.error (2, digits.getD pos 0, base))), false)
        else if (((Ruint.Gen.addmul_nx1 fc result power (digits.getD pos 0)).2 != 0)
            || decide (((Ruint.Gen.addmul_nx1 fc result power (digits.getD pos 0)).1.getD (Rs.wsub 64 n 1) 0)
                > Ruint.Gen.mask bits)) = true then
          (((Rs.wadd 64 pos 1, (Ruint.Gen.addmul_nx1 fc result power (digits.getD pos 0)).1, power),
            some (Except.error (0, 0, 0))), false)
        else if (((Ruint.Gen.mul_nx1 fc power base).2 != 0)
            || decide (((Ruint.Gen.mul_nx1 fc power base).1.getD (Rs.wsub 64 n 1) 0) > Ruint.Gen.mask bits)) = true then
          (((Rs.wadd 64 pos 1, (Ruint.Gen.addmul_nx1 fc result power (digits.getD pos 0)).1,
            (Ruint.Gen.mul_nx1 fc power base).1), none), false)
        else
          (((Rs.wadd 64 pos 1, (Ruint.Gen.addmul_nx1 fc result power (digits.getD pos 0)).1,
            (Ruint.Gen.mul_nx1 fc power base).1), none), true)
      else (((pos, result, power), none), false) := by
  unfold Ruint.Gen.uint_from_base_le_step2
  simp only [decide_eq_true_eq]

/-- what `from_base_le` returns from the final state of its main loop: the latched early return, else the
    zero-tail loop over the remaining digits, else `Ok(result)`. -/
def finish (bits n base : ℕ) (digits : List ℕ) (f' : ℕ)
    (out : (ℕ × List ℕ × List ℕ) × Option (Except (ℕ × ℕ × ℕ) (List ℕ))) : Except (ℕ × ℕ × ℕ) (List ℕ) :=
  out.2.getD
    ((Rs.loop (Ruint.Gen.uint_from_base_le_step3 bits n base digits) f' (out.1.1, none)).2.getD
      (Except.ok out.1.2.1))

theorem map_ok {ε α β : Type} (g : α → β) (a : α) : Except.map g (Except.ok a : Except ε α) = Except.ok (g a) := rfl
theorem map_error {ε α β : Type} (g : α → β) (e : ε) :
    Except.map g (Except.error e : Except ε α) = Except.error e := rfl

theorem main_loop (bits base : ℕ) (digits : List ℕ) (hbits : 0 < bits) (hN : nlimbs bits < 2 ^ 64)
    (hb : base < 2 ^ 64) (hl : digits.length < 2 ^ 64) (fc f' : ℕ) (hfc : nlimbs bits < fc)
    (hf' : digits.length < f') :
    ∀ (f pos : ℕ) (result power : List ℕ), pos ≤ digits.length → digits.length - pos < f →
      Canon bits result → power.length = nlimbs bits → AllLt power →
      (∀ r, finish bits (nlimbs bits) base digits f'
          (Rs.loop (Ruint.Gen.uint_from_base_le_step2 fc bits (nlimbs bits) base digits) f
            ((pos, result, power), none)) = Except.ok r → Canon bits r)
      ∧ Except.map val (finish bits (nlimbs bits) base digits f'
          (Rs.loop (Ruint.Gen.uint_from_base_le_step2 fc bits (nlimbs bits) base digits) f
            ((pos, result, power), none)))
        = mapErr (fromBaseLELoop bits base (digits.drop pos) (val result) (val power)) := by
  intro f
  induction f with
  | zero => intro pos _ _ _ hf; omega
  | succ f ih =>
    intro pos result power hp hf hres hpl hpw
    obtain ⟨hrl, hrw, hrv⟩ := hres
    by_cases h1 : pos < digits.length
    · obtain ⟨d, hd⟩ : ∃ d, d = digits.getD pos 0 := ⟨_, rfl⟩
      rw [drop_cons digits pos h1, ← hd]
      have hw := wadd_one pos (by omega)
      by_cases h2 : d ≥ base
      · rw [loop_stop _ f _ _ (by rw [step2_eq, if_pos h1, ← hd, if_pos h2])]
        simp only [finish, Option.getD_some, map_error, fromBaseLELoop, h2, if_true, mapErr, errT]
        refine ⟨fun r hr => (by cases hr), trivial⟩
      · have hdW : d < W := by unfold W; omega
        have hbW : base < W := hb
        -- the two callees
        have ea := gen_addmul_eq fc result power d (by omega) (by omega) (by omega) hrw hpw hdW
        obtain ⟨-, a2, a3, -, a5, a6⟩ := C15.addmul_nx1_spec result power d (by omega) hrw hpw hdW
        have em := gen_mul_eq fc power base (by omega) (by omega) hpw hbW
        obtain ⟨-, m2, m3, -, m5, m6⟩ := C15.mul_nx1_spec power base hpw hbW
        rw [hrl] at a2 a5 a6
        rw [hpl] at m2 m5 m6
        have oa : (((addmulNx1 W result power d).2 != 0)
            || decide (((addmulNx1 W result power d).1.getD (Rs.wsub 64 (nlimbs bits) 1) 0) > Ruint.Gen.mask bits)) = true
            ↔ ((val result + val power * d) / W ^ nlimbs bits ≠ 0
                ∨ (val result + val power * d) % W ^ nlimbs bits ≥ 2 ^ bits) := by
          rw [ovf_iff bits hbits hN _ a2 a3 (addmulNx1 W result power d).2, a5, a6]
        have om : (((mulNx1 W power base).2 != 0)
            || decide (((mulNx1 W power base).1.getD (Rs.wsub 64 (nlimbs bits) 1) 0) > Ruint.Gen.mask bits)) = true
            ↔ ((val power * base) / W ^ nlimbs bits ≠ 0 ∨ (val power * base) % W ^ nlimbs bits ≥ 2 ^ bits) := by
          rw [ovf_iff bits hbits hN _ m2 m3 (mulNx1 W power base).2, m5, m6]
        by_cases h3 : (((Ruint.Gen.addmul_nx1 fc result power d).2 != 0)
            || decide (((Ruint.Gen.addmul_nx1 fc result power d).1.getD (Rs.wsub 64 (nlimbs bits) 1) 0)
                > Ruint.Gen.mask bits)) = true
        · rw [loop_stop _ f _ _ (by rw [step2_eq, if_pos h1, ← hd, if_neg h2, if_pos h3])]
          rw [ea] at h3
          have h3' := oa.mp h3
          simp only [finish, Option.getD_some, map_error, fromBaseLELoop, h2, if_false, h3', if_true, mapErr, errT]
          refine ⟨fun r hr => (by cases hr), trivial⟩
        · by_cases h4 : (((Ruint.Gen.mul_nx1 fc power base).2 != 0)
              || decide (((Ruint.Gen.mul_nx1 fc power base).1.getD (Rs.wsub 64 (nlimbs bits) 1) 0)
                  > Ruint.Gen.mask bits)) = true
          · rw [loop_stop _ f _ _ (by rw [step2_eq, if_pos h1, ← hd, if_neg h2, if_neg h3, if_pos h4])]
            rw [ea] at h3
            rw [em] at h4
            have h3' : ¬ ((val result + val power * d) / W ^ nlimbs bits ≠ 0
                ∨ (val result + val power * d) % W ^ nlimbs bits ≥ 2 ^ bits) := fun h => h3 (oa.mpr h)
            have h4' := om.mp h4
            rw [ea, hw]
            simp only [fromBaseLELoop]
            rw [if_neg h2, if_neg h3', if_pos h4']
            simp only [finish, Option.getD_none]
            rw [tail3_eq bits (nlimbs bits) base digits hl f' (pos + 1) (by omega) (by omega)]
            have hcan : Canon bits (addmulNx1 W result power d).1 := by
              refine ⟨a2, a3, ?_⟩
              rw [a5]
              by_contra hc
              exact h3' (Or.inr (by omega))
            cases hz : zeroTail base (digits.drop (pos + 1)) with
            | none =>
              simp only [tailRes, Option.map_none, Option.getD_none, map_ok, mapErr, a5]
              refine ⟨fun r hr => ?_, trivial⟩
              cases hr
              exact hcan
            | some e =>
              simp only [tailRes, Option.map_some, Option.getD_some, map_error, mapErr]
              refine ⟨fun r hr => (by cases hr), trivial⟩
          · rw [loop_cont _ f _ _ (by rw [step2_eq, if_pos h1, ← hd, if_neg h2, if_neg h3, if_neg h4])]
            rw [ea] at h3
            rw [em] at h4
            have h3' : ¬ ((val result + val power * d) / W ^ nlimbs bits ≠ 0
                ∨ (val result + val power * d) % W ^ nlimbs bits ≥ 2 ^ bits) := fun h => h3 (oa.mpr h)
            have h4' : ¬ ((val power * base) / W ^ nlimbs bits ≠ 0
                ∨ (val power * base) % W ^ nlimbs bits ≥ 2 ^ bits) := fun h => h4 (om.mpr h)
            rw [ea, em, hw]
            have hcan : Canon bits (addmulNx1 W result power d).1 := by
              refine ⟨a2, a3, ?_⟩
              rw [a5]
              by_contra hc
              exact h3' (Or.inr (by omega))
            have := ih (pos + 1) (addmulNx1 W result power d).1 (mulNx1 W power base).1 (by omega) (by omega)
              hcan m2 m3
            rw [a5, m5] at this
            simp only [fromBaseLELoop]
            rw [if_neg h2, if_neg h3', if_neg h4']
            exact this
    · have e : pos = digits.length := by omega
      rw [loop_stop _ f _ _ (by rw [step2_eq, if_neg h1])]
      subst e
      have ht := tail3_eq bits (nlimbs bits) base digits hl f' digits.length (by omega) (by omega)
      simp only [List.drop_length, zeroTail, tailRes, Option.map_none] at ht
      simp only [finish, Option.getD_none, ht, List.drop_length, fromBaseLELoop, map_ok, mapErr]
      refine ⟨fun r hr => ?_, trivial⟩
      cases hr
      exact ⟨hrl, hrw, hrv⟩

/-! ### `from_base_le` -/

theorem allLt_replicate (n x : ℕ) (hx : x < W) : AllLt (List.replicate n x) := by
  intro y hy
  rw [List.mem_replicate] at hy
  omega

theorem val_replicate_zero (n : ℕ) : val (List.replicate n 0) = 0 := by
  induction n with
  | zero => rfl
  | succ n ih => simp [List.replicate_succ, ih]

theorem from_base_le_both (bits base : ℕ) (digits : List ℕ) (hN : nlimbs bits < 2 ^ 64) (hb : base < 2 ^ 64)
    (hl : digits.length < 2 ^ 64) (f : ℕ) (hf : nlimbs bits + digits.length + 1 < f) :
    (∀ r, Ruint.Gen.uint_from_base_le f bits (nlimbs bits) base digits = Except.ok r → Canon bits r)
    ∧ Except.map Ruint.val (Ruint.Gen.uint_from_base_le f bits (nlimbs bits) base digits)
      = mapErr (Ruint.Radix.fromBaseLE bits base digits) := by
  unfold Ruint.Gen.uint_from_base_le Ruint.Radix.fromBaseLE
  by_cases hb2 : base < 2
  · simp only [hb2, decide_true, if_true, map_error, mapErr, errT]
    refine ⟨fun r hr => (by cases hr), trivial⟩
  · simp only [hb2, decide_false, Bool.false_eq_true, if_false]
    by_cases h0 : bits = 0
    · subst h0
      have ht := tail1_eq 0 (nlimbs 0) base digits hl f 0 (by omega) (by omega)
      simp only [List.drop_zero] at ht
      simp only [beq_self_eq_true, if_true, ht]
      cases hz : zeroTail base digits with
      | none =>
        simp only [tailRes, Option.map_none, Option.getD_none, map_ok, mapErr]
        refine ⟨fun r hr => ?_, by simp [nlimbs]⟩
        cases hr
        exact ⟨by simp, by simp [nlimbs, AllLt.nil], by simp [nlimbs]⟩
      | some e =>
        simp only [tailRes, Option.map_some, Option.getD_some, map_error, mapErr]
        refine ⟨fun r hr => (by cases hr), trivial⟩
    · have hbits : 0 < bits := Nat.pos_of_ne_zero h0
      have hbeq : (bits == 0) = false := by simp [h0]
      simp only [hbeq, Bool.false_eq_true, if_false, h0]
      have h1 : (1 : ℕ) < 2 ^ bits := Nat.one_lt_two_pow h0
      have hone : 1 % 2 ^ bits = 1 := Nat.mod_eq_of_lt h1
      have hzero : Canon bits (List.replicate (nlimbs bits) 0) :=
        ⟨by simp, allLt_replicate _ _ W_pos, by rw [val_replicate_zero]; positivity⟩
      have hpc := canon_toLimbs bits 1 h1
      have := main_loop bits base digits hbits hN hb hl f f (by omega) (by omega) f 0
        (List.replicate (nlimbs bits) 0) (toLimbs (nlimbs bits) 1) (by omega) (by omega) hzero hpc.1 hpc.2.1
      rw [val_replicate_zero, val_toLimbs_of_lt bits 1 h1, List.drop_zero] at this
      rw [hone]
      exact this

theorem from_base_le_eq (bits base : ℕ) (digits : List ℕ) (hN : nlimbs bits < 2 ^ 64) (hb : base < 2 ^ 64)
    (hd : Ruint.AllLt digits) (hl : digits.length < 2 ^ 64) (f : ℕ) (hf : nlimbs bits + digits.length + 1 < f) :
    Except.map Ruint.val (Ruint.Gen.uint_from_base_le f bits (nlimbs bits) base digits)
      = mapErr (Ruint.Radix.fromBaseLE bits base digits) :=
  (from_base_le_both bits base digits hN hb hl f hf).2

theorem from_base_le_canon (bits base : ℕ) (digits : List ℕ) (hN : nlimbs bits < 2 ^ 64) (hb : base < 2 ^ 64)
    (hd : Ruint.AllLt digits) (hl : digits.length < 2 ^ 64) (f : ℕ) (hf : nlimbs bits + digits.length + 1 < f)
    (r : List ℕ) (h : Ruint.Gen.uint_from_base_le f bits (nlimbs bits) base digits = .ok r) : Ruint.Canon bits r :=
  (from_base_le_both bits base digits hN hb hl f hf).1 r h

end Ruint.GenRadixLE
