import Ruint.Lemmas.GenValue
import Ruint.Gen.WordsLog
import Ruint.Model.Log

/-! The logarithm functions GENERATED from `src/log.rs` in the translator's *value mode* (`Gen/WordsLog.lean`: a `Uint` is its
    numeric value, the libm-derived first estimate is the parameter `est`, `none` = panic) equal the C13 models of
    `Model/Log.lean` whenever the model does not run out of its own fuel. -/
namespace Ruint.GenLog
open Ruint Ruint.GenLehmer Ruint.GenValue Ruint.Pow

/-- `Option` (generated: `none` = panic) to the model's three-valued result. -/
def toRes {α : Type} : Option α → Res α
  | some a => .ok a
  | none => .panic

/-! ### `checked_pow` with any sufficient fuel -/

theorem pow_loop_fuel (m : ℕ) : ∀ (f g base e r : ℕ) (ov bov : Bool), e < 2 ^ f → e < 2 ^ g →
    Pow.loop m f base e r ov bov = Pow.loop m g base e r ov bov := by
  intro f
  induction f with
  | zero =>
    intro g base e r ov bov h1 _
    have he : e = 0 := by simpa using h1
    subst he
    cases g <;> simp [Pow.loop]
  | succ f ih =>
    intro g base e r ov bov h1 h2
    cases g with
    | zero =>
      have he : e = 0 := by simpa using h2
      subst he
      simp [Pow.loop]
    | succ g =>
      unfold Pow.loop
      by_cases he : e = 0
      · simp [he]
      · simp only [he, if_false]
        apply ih
        · rw [pow_succ] at h1; omega
        · rw [pow_succ] at h2; omega

theorem overflowing_pow_any (bits L a e f : ℕ) (h : e < 2 ^ f) :
    Ruint.Gen.val_overflowing_pow f bits L a e = Pow.overflowingPow bits a e := by
  unfold Ruint.Gen.val_overflowing_pow Pow.overflowingPow
  by_cases h0 : bits = 0
  · simp [h0]
  · have hb : 0 < bits := Nat.pos_of_ne_zero h0
    have hne : (bits == 0) = false := by simp [h0]
    obtain ⟨h1, h2⟩ := opow_loop_eq bits L hb f a e 1 false false
    rw [pow_loop_fuel (2 ^ bits) f (e + 1) a e 1 false false h
      (lt_trans Nat.lt_two_pow_self (Nat.pow_lt_pow_right (by norm_num) (Nat.lt_succ_self e)))] at h1 h2
    simp only [hne, Bool.false_eq_true, if_false, h0, one_mod bits hb, h1, h2]

/-- the generated `checked_pow` with any fuel covering the exponent's bit length -/
theorem checked_pow_any (bits L a e f : ℕ) (h : e < 2 ^ f) :
    Ruint.Gen.val_checked_pow f bits L a e = Pow.checkedPow bits a e := by
  unfold Ruint.Gen.val_checked_pow Pow.checkedPow
  rw [overflowing_pow_any bits L a e f h]
  rcases Pow.overflowingPow bits a e with ⟨v, o⟩
  cases o <;> rfl

/-! ### first loop -/

theorem step1_eq (f bits L x base r : ℕ) (s : Option (Option ℕ)) (hb : 0 < bits) (hr : r < 2 ^ f) :
    Ruint.Gen.val_log_step1 f bits L x base (r, s) =
      match Pow.checkedPow bits base r with
      | some v =>
        if v > x then (if r = 0 then ((r, some none), false) else (((r + 2 ^ bits - 1) % 2 ^ bits, none), true))
        else ((r, none), false)
      | none => (((r + 2 ^ bits - 1) % 2 ^ bits, none), false) := by
  unfold Ruint.Gen.val_log_step1
  simp only [checked_pow_any bits L base r f hr, one_mod bits hb]
  cases Pow.checkedPow bits base r with
  | none => simp
  | some v => by_cases hv : v > x <;> by_cases h0 : r = 0 <;> simp [hv, h0]

theorem down_sim (f bits L x base : ℕ) (hb : 0 < bits) (hbf : bits ≤ f) :
    ∀ (g r F : ℕ), r < 2 ^ bits → g < F →
      (∀ r', Log.downLoop bits base x g r = .ok r' →
          Rs.loop (Ruint.Gen.val_log_step1 f bits L x base) F (r, none) = (r', none)) ∧
      (Log.downLoop bits base x g r = .panic →
          (Rs.loop (Ruint.Gen.val_log_step1 f bits L x base) F (r, none)).2 = some none) := by
  intro g
  induction g with
  | zero => intro r F _ _; simp [Log.downLoop]
  | succ g ih =>
    intro r F hr hF
    obtain ⟨F', rfl⟩ : ∃ F', F = F' + 1 := ⟨F - 1, by omega⟩
    have hrf : r < 2 ^ f := lt_of_lt_of_le hr (Nat.pow_le_pow_right (by norm_num) hbf)
    rw [loop_succ, step1_eq f bits L x base r none hb hrf]
    unfold Log.downLoop
    cases hc : Pow.checkedPow bits base r with
    | none => simp
    | some v =>
      by_cases hv : v > x
      · by_cases h0 : r = 0
        · simp [hv, h0]
        · have hw : (r + 2 ^ bits - 1) % 2 ^ bits = r - 1 := by
            have : r + 2 ^ bits - 1 = (r - 1) + 2 ^ bits := by omega
            rw [this, Nat.add_mod_right, Nat.mod_eq_of_lt (by omega)]
          simp only [hv, h0, if_true, if_false, hw]
          exact ih (r - 1) F' (by omega) (by omega)
      · simp [hv]

/-! ### second loop -/

theorem step2_eq (f bits L x base r : ℕ) (hb : 0 < bits) (hbf : bits ≤ f) :
    Ruint.Gen.val_log_step2 f bits L x base r =
      if r + 1 < 2 ^ bits then
        match Pow.checkedPow bits base (r + 1) with
        | some v => if v ≤ x then (r + 1, true) else (r, false)
        | none => (r, false)
      else (r, false) := by
  unfold Ruint.Gen.val_log_step2
  simp only [one_mod bits hb]
  by_cases h : r + 1 < 2 ^ bits
  · have hrf : r + 1 < 2 ^ f := lt_of_lt_of_le h (Nat.pow_le_pow_right (by norm_num) hbf)
    simp only [h, decide_true, if_true, Option.isSome_some, Option.getD_some,
      checked_pow_any bits L base (r + 1) f hrf]
    cases Pow.checkedPow bits base (r + 1) with
    | none => simp
    | some v => by_cases hv : v ≤ x <;> simp [hv]
  · simp [h]

theorem upLoop_ne_panic (bits base x : ℕ) : ∀ (g r : ℕ), Log.upLoop bits base x g r ≠ .panic := by
  intro g
  induction g with
  | zero => intro r; simp [Log.upLoop]
  | succ g ih =>
    intro r
    unfold Log.upLoop
    by_cases h1 : r + 1 < 2 ^ bits
    · simp only [h1, if_true]
      cases Pow.checkedPow bits base (r + 1) with
      | none => simp
      | some v =>
        by_cases hv : v ≤ x
        · simp only [hv, if_true]; exact ih _
        · simp [hv]
    · simp [h1]

theorem up_sim (f bits L x base : ℕ) (hb : 0 < bits) (hbf : bits ≤ f) :
    ∀ (g r F r' : ℕ), g < F → Log.upLoop bits base x g r = .ok r' →
      Rs.loop (Ruint.Gen.val_log_step2 f bits L x base) F r = r' := by
  intro g
  induction g with
  | zero => intro r F r' _ h; simp [Log.upLoop] at h
  | succ g ih =>
    intro r F r' hF h
    obtain ⟨F', rfl⟩ : ∃ F', F = F' + 1 := ⟨F - 1, by omega⟩
    rw [loop_succ, step2_eq f bits L x base r hb hbf]
    unfold Log.upLoop at h
    by_cases h1 : r + 1 < 2 ^ bits
    · simp only [h1, if_true] at h ⊢
      cases hc : Pow.checkedPow bits base (r + 1) with
      | none => rw [hc] at h; simpa using h
      | some v =>
        rw [hc] at h
        by_cases hv : v ≤ x
        · simp only [hv, if_true] at h ⊢
          exact ih (r + 1) F' r' (by omega) h
        · simp only [hv, if_false] at h ⊢
          simpa using h
    · simp only [h1, if_false] at h ⊢
      simpa using h

/-! ### `log` -/

theorem bit_len_sub_one (bits x : ℕ) (hbits : bits ≤ 2 ^ 64) (hx : x < 2 ^ bits) (h0 : x ≠ 0) :
    Rs.wsub 64 (if x == 0 then 0 else Nat.log2 x + 1) 1 = Log.bitLen x - 1 := by
  have hl : Nat.log2 x < bits := (Nat.log2_lt h0).2 hx
  have hne : (x == 0) = false := by simp [h0]
  unfold Log.bitLen
  rw [hne, if_neg h0]
  obtain ⟨l, hl'⟩ : ∃ l, l = Nat.log2 x := ⟨_, rfl⟩
  rw [← hl'] at hl ⊢
  unfold Rs.wsub
  simp only [Bool.false_eq_true, if_false]
  omega

/-- **`log` as generated (value mode)** = the C13 model, whenever the model does not run out of its own fuel.
    `hbits` (a `usize` width) is needed for the `base == 2` arm: `bit_len() - 1` is `usize` arithmetic. -/
theorem log_eq (bits L x base est : ℕ) (hbits : bits ≤ 2 ^ 64) (hx : x < 2 ^ bits) (hb : base < 2 ^ bits)
    (he : est < 2 ^ bits) (hm : Log.log bits x base est ≠ .fuel) (f : ℕ) (hf : est + bits + 2 < f) :
    toRes (Ruint.Gen.val_log f bits L x base est) = Log.log bits x base est := by
  unfold Log.log at hm ⊢
  unfold Ruint.Gen.val_log
  by_cases h0 : x = 0
  · simp [h0, toRes]
  have hne : (x == 0) = false := by simp [h0]
  by_cases h2 : 2 < 2 ^ bits
  swap
  · simp [h0, h2, toRes]
  have hpos : 0 < bits := by
    rcases Nat.eq_zero_or_pos bits with h | h
    · subst h; simp at h2
    · exact h
  by_cases hb2 : base < 2
  · have : ¬ (base ≥ 2) := by omega
    simp [h0, h2, hb2, this, toRes]
  have hge : base ≥ 2 := by omega
  by_cases hbe : base = 2
  · subst hbe
    have := bit_len_sub_one bits x hbits hx h0
    rw [hne] at this
    simp only [Bool.false_eq_true, if_false] at this
    simp only [hne, h0, h2, hb2, not_true_eq_false, if_true, if_false, decide_true, ge_iff_le,
      le_refl, beq_self_eq_true, Bool.not_false, Bool.false_eq_true, this, toRes]
  have hbne : (base == 2) = false := by simp [hbe]
  by_cases hxb : x < base
  · simp [h0, h2, hb2, hge, hbe, hxb, toRes]
  simp only [h0, h2, hb2, hbe, hxb, not_true_eq_false, if_false] at hm
  simp only [hne, h0, h2, hb2, hge, hbe, hbne, hxb, not_true_eq_false, if_true, if_false, decide_true, decide_false,
    Bool.not_false, Bool.false_eq_true]
  obtain ⟨hd1, hd2⟩ := down_sim f bits L x base hpos (by omega) (est + 1) est f he (by omega)
  cases hd : Log.downLoop bits base x (est + 1) est with
  | fuel => rw [hd] at hm; exact absurd rfl hm
  | panic =>
    have := hd2 hd
    simp only [this, Option.getD_some, toRes]
  | ok r =>
    rw [hd] at hm
    simp only at hm ⊢
    rw [hd1 r hd]
    simp only [Option.getD_none]
    cases hu : Log.upLoop bits base x (bits + 1) r with
    | fuel => exact absurd hu hm
    | panic => exact absurd hu (upLoop_ne_panic bits base x _ _)
    | ok r' =>
      rw [up_sim f bits L x base hpos (by omega) (bits + 1) r f r' (by omega) hu]
      rfl

/-- **`checked_log` as generated (value mode)** = the C13 model -/
theorem checked_log_eq (bits L x base est : ℕ) (hbits : bits ≤ 2 ^ 64) (hx : x < 2 ^ bits) (hb : base < 2 ^ bits)
    (he : est < 2 ^ bits) (hm : Log.checkedLog bits x base est ≠ .fuel) (f : ℕ) (hf : est + bits + 2 < f) :
    toRes (Ruint.Gen.val_checked_log f bits L x base est) = Log.checkedLog bits x base est := by
  unfold Log.checkedLog at hm ⊢
  unfold Ruint.Gen.val_checked_log
  have hbl : (if base == 0 then 0 else Nat.log2 base + 1) = Log.bitLen base := by
    unfold Log.bitLen
    by_cases h : base = 0
    · subst h; rfl
    · have : (base == 0) = false := by simp [h]
      rw [this, if_neg h]; rfl
  rw [hbl]
  obtain ⟨c, hc⟩ : ∃ c : Bool, c = (decide (Log.bitLen base < 2) || decide (x = 0)) := ⟨_, rfl⟩
  have hc' : (decide (Log.bitLen base < 2) || (x == 0)) = c := by
    rw [hc]; by_cases h : x = 0 <;> simp [h]
  rw [hc']
  rw [← hc] at hm ⊢
  cases c with
  | true => rfl
  | false =>
    simp only [Bool.false_eq_true, if_false] at hm ⊢
    have hm' : Log.log bits x base est ≠ .fuel := by
      intro h; rw [h] at hm; exact hm rfl
    have := log_eq bits L x base est hbits hx hb he hm' f hf
    rw [← this]
    cases Ruint.Gen.val_log f bits L x base est <;> rfl

/-- why `hbits` is there: at a width above `2^64` (not a `usize`) a value of bit length `2^64 + 1` (`x = 2^(2^64)`,
    `n = 2^64`) has `bit_len() - 1` wrapped to `0` in the generated `usize` arithmetic, while the model answers `2^64`. -/
theorem log_eq_needs_hbits (n x L est f : ℕ) (hn : n = 2 ^ 64) (hl : Nat.log2 x = n) (h0 : x ≠ 0) :
    toRes (Ruint.Gen.val_log f (n + 1) L x 2 est) = .ok 0 ∧ Log.log (n + 1) x 2 est = .ok n := by
  have h2 : 2 < 2 ^ (n + 1) := by
    have : 2 ^ 2 ≤ 2 ^ (n + 1) := Nat.pow_le_pow_right (by norm_num) (by omega)
    omega
  have hne : (x == 0) = false := by simp [h0]
  constructor
  · unfold Ruint.Gen.val_log
    simp only [hne, h2, hl, decide_true, if_true, ge_iff_le, le_refl, beq_self_eq_true, Bool.not_false,
      Bool.false_eq_true, if_false, toRes]
    have hw : Rs.wsub 64 (n + 1) 1 = 0 := by
      unfold Rs.wsub; clear h2; omega
    rw [hw]
  · unfold Log.log Log.bitLen
    simp [h0, h2, hl]

/-! ### the `log2` / `log10` entry points -/

theorem log_const_eq (c bits L x est : ℕ) (hbits : bits ≤ 2 ^ 64) (hx : x < 2 ^ bits) (he : est < 2 ^ bits)
    (hm : Log.logConst c bits x est ≠ .fuel) (f : ℕ) (hf : est + bits + 2 < f) :
    toRes (if Rs.isOk (if decide (c < 2 ^ bits) then (Except.ok c : Except (ℕ × ℕ × ℕ) ℕ)
              else Except.error (0, bits, c % 2 ^ bits)) then
            (match Ruint.Gen.val_log f bits L x
                (Rs.okD 0 (if decide (c < 2 ^ bits) then (Except.ok c : Except (ℕ × ℕ × ℕ) ℕ)
                  else Except.error (0, bits, c % 2 ^ bits))) est with
              | none => none
              | some pv1 => some pv1)
          else (if (!(x == 0)) then some 0 else none)) = Log.logConst c bits x est := by
  unfold Log.logConst at hm ⊢
  by_cases hc : c < 2 ^ bits
  · simp only [hc, decide_true, if_true, Rs.isOk, Rs.okD] at hm ⊢
    rw [← log_eq bits L x c est hbits hx hc he hm f hf]
    cases Ruint.Gen.val_log f bits L x c est <;> rfl
  · by_cases h0 : x = 0 <;> simp [hc, h0, Rs.isOk, toRes]

theorem checked_log_const_eq (c bits L x est : ℕ) (hbits : bits ≤ 2 ^ 64) (hx : x < 2 ^ bits) (he : est < 2 ^ bits)
    (hm : Log.checkedLogConst c bits x est ≠ .fuel) (f : ℕ) (hf : est + bits + 2 < f) :
    toRes (if Rs.isOk (if decide (c < 2 ^ bits) then (Except.ok c : Except (ℕ × ℕ × ℕ) ℕ)
              else Except.error (0, bits, c % 2 ^ bits)) then
            (match Ruint.Gen.val_checked_log f bits L x
                (Rs.okD 0 (if decide (c < 2 ^ bits) then (Except.ok c : Except (ℕ × ℕ × ℕ) ℕ)
                  else Except.error (0, bits, c % 2 ^ bits))) est with
              | none => none
              | some pv1 => some pv1)
          else (some (if (!(x == 0)) then some 0 else none))) = Log.checkedLogConst c bits x est := by
  unfold Log.checkedLogConst at hm ⊢
  by_cases hc : c < 2 ^ bits
  · simp only [hc, decide_true, if_true, Rs.isOk, Rs.okD] at hm ⊢
    rw [← checked_log_eq bits L x c est hbits hx hc he hm f hf]
    cases Ruint.Gen.val_checked_log f bits L x c est <;> rfl
  · by_cases h0 : x = 0 <;> simp [hc, h0, Rs.isOk, toRes]

/-- **`log2` as generated (value mode)** = the C13 model -/
theorem log2_eq (bits L x est : ℕ) (hbits : bits ≤ 2 ^ 64) (hx : x < 2 ^ bits) (he : est < 2 ^ bits)
    (hm : Log.log2 bits x est ≠ .fuel) (f : ℕ) (hf : est + bits + 2 < f) :
    toRes (Ruint.Gen.val_log2 f bits L x est) = Log.log2 bits x est :=
  log_const_eq 2 bits L x est hbits hx he hm f hf

/-- **`log10` as generated (value mode)** = the C13 model -/
theorem log10_eq (bits L x est : ℕ) (hbits : bits ≤ 2 ^ 64) (hx : x < 2 ^ bits) (he : est < 2 ^ bits)
    (hm : Log.log10 bits x est ≠ .fuel) (f : ℕ) (hf : est + bits + 2 < f) :
    toRes (Ruint.Gen.val_log10 f bits L x est) = Log.log10 bits x est :=
  log_const_eq 10 bits L x est hbits hx he hm f hf

/-- **`checked_log2` as generated (value mode)** = the C13 model -/
theorem checked_log2_eq (bits L x est : ℕ) (hbits : bits ≤ 2 ^ 64) (hx : x < 2 ^ bits) (he : est < 2 ^ bits)
    (hm : Log.checkedLog2 bits x est ≠ .fuel) (f : ℕ) (hf : est + bits + 2 < f) :
    toRes (Ruint.Gen.val_checked_log2 f bits L x est) = Log.checkedLog2 bits x est :=
  checked_log_const_eq 2 bits L x est hbits hx he hm f hf

/-- **`checked_log10` as generated (value mode)** = the C13 model -/
theorem checked_log10_eq (bits L x est : ℕ) (hbits : bits ≤ 2 ^ 64) (hx : x < 2 ^ bits) (he : est < 2 ^ bits)
    (hm : Log.checkedLog10 bits x est ≠ .fuel) (f : ℕ) (hf : est + bits + 2 < f) :
    toRes (Ruint.Gen.val_checked_log10 f bits L x est) = Log.checkedLog10 bits x est :=
  checked_log_const_eq 10 bits L x est hbits hx he hm f hf

end Ruint.GenLog
