import Ruint.Lemmas.FloatTryG

/-! The code before the C18 repair: `value + 0.5` on integers in `[2^52, 2^53)` is a tie (round to even). -/
namespace Ruint.Float

/-- a tie `(2m+1)/2` rounds to the even neighbour. -/
theorem tie_even (m : ℕ) : rneShift (2 * m + 1) 1 = m + m % 2 := by
  unfold rneShift
  have h1 : (2 * m + 1) % 2 ^ 1 = 1 := by omega
  have h2 : (2 * m + 1) / 2 ^ 1 = m := by omega
  simp only [h1, h2]
  by_cases hm : m % 2 = 1
  · rw [if_pos (Or.inr ⟨by norm_num, hm⟩)]; omega
  · rw [if_neg (by
      rintro (h | ⟨_, h⟩)
      · norm_num at h
      · exact hm h)]
    omega

/-- `x + 0.5` for an integer `x = m ∈ [2^52, 2^53 - 1)`: the sum `m + 1/2` is a tie and becomes `m + m % 2`. -/
theorem add_half_int (x m : ℕ) (hx : decode b64 x = .fin false m 0) (hm : 2 ^ 52 ≤ m) (hm' : m + 1 < 2 ^ 53) :
    add b64 x (half b64) = 1074 * 2 ^ 52 + (m + m % 2) := by
  have hsum : m * 2 ^ 53 + 2 ^ 52 = (2 * m + 1) * 2 ^ 52 := by ring
  have hinf : b64.infBits = 2047 * 2 ^ 52 := by decide
  have hq : b64.qmin = -1074 := by decide
  have hmb : b64.mb = 52 := rfl
  unfold add
  rw [hx, decode_half]
  have c1 : min (0 : ℤ) (-53) = -53 := by omega
  have c2 : ((0 : ℤ) - -53).toNat = 53 := by omega
  have c3 : ((-53 : ℤ) - -53).toNat = 0 := by omega
  simp only [c1, c2, c3, sInt, Bool.false_eq_true, if_false, pow_zero, Nat.mul_one]
  have hpos : (0 : ℤ) < ((m * 2 ^ 53 : ℕ) : ℤ) + ((2 ^ 52 : ℕ) : ℤ) := by positivity
  rw [if_neg (by omega)]
  have hna : (((m * 2 ^ 53 : ℕ) : ℤ) + ((2 ^ 52 : ℕ) : ℤ)).natAbs = (2 * m + 1) * 2 ^ 52 := by
    rw [← hsum]; omega
  rw [hna]
  have hd : decide ((((m * 2 ^ 53 : ℕ) : ℤ) + ((2 ^ 52 : ℕ) : ℤ)) < 0) = false := by
    simp only [decide_eq_false_iff_not, not_lt]; omega
  rw [hd]
  unfold rne sgn
  simp only [Bool.false_eq_true, if_false, Nat.zero_add]
  have hbl : bitLen (2 * m + 1) = b64.mb + 1 + 1 := by
    rw [hmb]; exact bitLen_eq (by norm_num) (by omega) (by omega)
  have key := rneMag_of_bits b64 (2 * m + 1) 52 1 (-1) hbl (by rw [hq]; omega)
  have e1 : ((-1 : ℤ) - ((52 : ℕ) : ℤ)) = -53 := by omega
  rw [e1, hq, hmb, hinf, tie_even] at key
  have e2 : ((-1 : ℤ) + ((1 : ℕ) : ℤ) - -1074).toNat = 1074 := by omega
  rw [e2] at key
  rw [key, if_neg (by omega)]

/-- **the defect, in general**: before the repair every odd integer `m ∈ [2^52, 2^53 - 1)` was converted to
    `m + 1` (even ones to themselves); at `bits = 53` the odd `m = 2^53 - 3`, … still fit but came back `+1`. -/
theorem tfMain_old_int (bits x m : ℕ) (hx : decode b64 x = .fin false m 0) (hm : 2 ^ 52 ≤ m)
    (hm' : m + 1 < 2 ^ 53) :
    tfMain false bits x = tryFromU64 bits (m + m % 2) := by
  obtain ⟨hB, _, hcase⟩ := decode_fin_fields x m false 0 hx
  have hF : x % 2 ^ 52 < 2 ^ 52 := Nat.mod_lt _ (by norm_num)
  have hnorm : isNormal b64 x = true := (isNormal_iff x).mpr (by
    rcases hcase with ⟨_, hm1, _⟩ | ⟨h1, _, _⟩ <;> omega)
  have hadd := add_half_int x m hx hm hm'
  obtain ⟨Mr, hMr⟩ : ∃ Mr, Mr = m + m % 2 := ⟨_, rfl⟩
  rw [← hMr] at hadd ⊢
  obtain ⟨hsign, hbe, hfr⟩ := fields_assembled 1074 Mr (by omega) (by omega) (by omega)
  unfold tfMain
  simp only [hnorm, Bool.not_true, Bool.false_eq_true, if_false, Bool.false_and, hadd, hsign,
    ne_eq, not_true_eq_false, hbe, hfr]
  rw [if_neg (by omega)]
  have e1 : 1074 + 1 - 1023 = 52 := by norm_num
  have e2 : 2 ^ 52 + (Mr - 2 ^ 52) = Mr := by omega
  rw [e1, e2, if_neg (by omega), if_pos (le_refl _)]
  simp


theorem unfold_tryF (fixed : Bool) (bits x : ℕ) (n : ℕ) :
    tryFromF64F fixed (n + 1) bits x =
      if isNaN b64 x = true then .notANumber
      else if lt b64 x zero = true then
        .negative (wneg bits (match tryFromF64F fixed n bits (abs b64 x) with
          | .ok n => n | .tooLarge n => n | _ => 0))
      else if ge b64 x (exp2Int b64 bits) = true then
        .tooLarge (match tryFromF64F fixed n bits (fmod b64 x (exp2Int b64 bits)) with
          | .ok n => n | .tooLarge n => n | _ => 0)
      else if lt b64 x (half b64) = true then .ok 0 else tfMain fixed bits x := by
  rw [tryFromF64F]; rfl

theorem tryFromF64Old_tie (bits x m : ℕ) (hx : decode b64 x = .fin false m 0) (hm : 2 ^ 52 ≤ m)
    (hm' : m + 1 < 2 ^ 53) (hfit : m + 1 < 2 ^ bits) :
    tryFromF64Old bits x = .ok (m + m % 2) := by
  unfold tryFromF64Old
  rw [unfold_tryF]
  have h1 := isNaN_of_fin x m false 0 hx
  have h2 : lt b64 x zero = false := by
    rw [← Bool.not_eq_true, lt_zero_iff x m false 0 hx]; simp
  have h3 : ge b64 x (exp2Int b64 bits) = false := by
    rw [← Bool.not_eq_true]
    rcases Nat.lt_or_ge 1023 bits with hb | hb
    · rw [exp2Int_inf bits hb]; unfold ge; rw [hx, decode_inf64]; simp [Dec.le]
    · rw [exp2Int_eq bits hb, ge_pow2_iff x m 0 bits hx (by omega) (by omega)]
      have e1 : ((bits : ℤ) - 0).toNat = bits := by omega
      have e2 : ((0 : ℤ) - (bits : ℤ)).toNat = 0 := by omega
      rw [e1, e2, pow_zero, Nat.mul_one]; omega
  have h4 : lt b64 x (half b64) = false := by
    rw [← Bool.not_eq_true, half_eq, lt_pow2_iff x m 0 (-1) hx (by norm_num) (by norm_num)]
    have e1 : ((0 : ℤ) - -1).toNat = 1 := by omega
    have e2 : ((-1 : ℤ) - 0).toNat = 0 := by omega
    rw [e1, e2]; omega
  rw [h1, h2, h3, h4]
  simp only [Bool.false_eq_true, if_false]
  rw [tfMain_old_int bits x m hx hm hm']
  unfold tryFromU64
  rw [if_pos (by omega)]

end Ruint.Float
