import Ruint.Lemmas.Basic
import Ruint.Model.Canon

/-! Lemmas about the constructors of `src/lib.rs` (`Model/Canon.lean`): `from_limbs`, `masked`,
`ZERO`/`MAX`/`ONE`, and the `*_from_limbs_slice` family. -/
namespace Ruint.Canon
open Ruint

theorem shouldMask_eq (bits : ℕ) : shouldMask bits = true ↔ 0 < bits ∧ bits % 64 ≠ 0 := by
  unfold shouldMask
  simp only [Bool.and_eq_true, decide_eq_true_eq, gt_iff_lt]
  constructor
  · rintro ⟨h0, h1⟩
    refine ⟨h0, fun h64 => h1 ?_⟩
    unfold mask; simp [h64]; omega
  · rintro ⟨h0, h1⟩
    refine ⟨h0, ?_⟩
    unfold mask
    have hb : bits ≠ 0 := by omega
    simp only [hb, h1, if_false]
    have : 2 ^ (bits % 64) < 2 ^ 64 := Nat.pow_lt_pow_right (by norm_num) (Nat.mod_lt _ (by norm_num))
    unfold W; omega

/-- when no mask is needed the width is a whole number of limbs -/
theorem bits_eq_of_not_shouldMask (bits : ℕ) (h : shouldMask bits = false) : bits = 64 * nlimbs bits := by
  have := (shouldMask_eq bits).not.mp (by simp [h])
  unfold nlimbs
  by_cases h0 : bits = 0
  · subst h0; rfl
  · have : bits % 64 = 0 := by
      by_contra hc; exact this ⟨by omega, hc⟩
    omega

theorem two_pow_eq_of_not_shouldMask (bits : ℕ) (h : shouldMask bits = false) :
    2 ^ bits = W ^ nlimbs bits := by
  conv_lhs => rw [bits_eq_of_not_shouldMask bits h]
  rw [pow_mul]; rfl

theorem top_append (init : List ℕ) (t : ℕ) : top (init ++ [t]) = t := by
  simp [top]

/-- a full-length word list is canonical iff its top limb is within the mask (all widths). -/
theorem canon_iff_top (bits : ℕ) (l : List ℕ) (hlen : l.length = nlimbs bits) (hl : AllLt l) :
    Canon bits l ↔ ¬ (shouldMask bits = true ∧ mask bits < top l) := by
  by_cases hs : shouldMask bits = true
  · have hpos := ((shouldMask_eq bits).mp hs).1
    obtain ⟨_, _, h3⟩ := maskTop_spec bits hpos l hlen hl
    simp only [hs, true_and, not_lt]
    constructor
    · intro hc
      by_contra hcon
      have := h3.mp (by unfold top at hcon; omega)
      have := hc.val_lt
      omega
    · intro hle
      refine ⟨hlen, hl, ?_⟩
      by_contra hcon
      have := h3.mpr (by omega)
      unfold top at hle; omega
  · have hs' : shouldMask bits = false := by simpa using hs
    simp only [hs', Bool.false_eq_true, false_and, not_false_eq_true, iff_true]
    refine ⟨hlen, hl, ?_⟩
    rw [two_pow_eq_of_not_shouldMask bits hs', ← hlen]
    exact val_lt_pow l hl

/-- `from_limbs` returns its argument exactly on canonical arrays and panics on every other
    full-length array. -/
theorem fromLimbs_spec (bits : ℕ) (l : List ℕ) (hlen : l.length = nlimbs bits) (hl : AllLt l) :
    (Canon bits l → fromLimbs bits l = some l) ∧ (¬ Canon bits l → fromLimbs bits l = none) := by
  have h := canon_iff_top bits l hlen hl
  unfold fromLimbs
  constructor
  · intro hc
    have := h.mp hc
    simp only [Bool.and_eq_true, decide_eq_true_eq, gt_iff_lt]
    rw [if_neg this]
  · intro hc
    have : shouldMask bits = true ∧ mask bits < top l := by
      by_contra hcon; exact hc (h.mpr hcon)
    simp only [Bool.and_eq_true, decide_eq_true_eq, gt_iff_lt]
    rw [if_pos this]

theorem fromLimbs_canon (bits : ℕ) (l : List ℕ) (hc : Canon bits l) : fromLimbs bits l = some l :=
  (fromLimbs_spec bits l hc.1 hc.2.1).1 hc

/-- whatever `from_limbs` returns is its argument -/
theorem fromLimbs_eq_some {bits : ℕ} {l r : List ℕ} (h : fromLimbs bits l = some r) : r = l := by
  unfold fromLimbs at h
  split at h
  · simp at h
  · simpa using h.symm

/-- on full-length word lists `masked` is `maskTop` (the unconditional model of `Base.lean`). -/
theorem masked_eq_maskTop (bits : ℕ) (l : List ℕ) (hlen : l.length = nlimbs bits) (hl : AllLt l) :
    masked bits l = maskTop bits l := by
  unfold masked
  by_cases hs : shouldMask bits = true
  · simp [hs]
  · have hs' : shouldMask bits = false := by simpa using hs
    simp only [hs', Bool.false_eq_true, if_false]
    by_cases h0 : bits = 0
    · subst h0
      have : l = [] := by simpa [nlimbs] using hlen
      subst this; rfl
    · have hpos : 0 < bits := by omega
      have hne : l ≠ [] := by
        intro e; subst e; have := nlimbs_pos bits hpos; simp at hlen; omega
      obtain ⟨init, t, rfl⟩ := exists_init_last l hne
      rw [maskTop_append]
      have h64 : bits % 64 = 0 := by
        by_contra hc; exact hs ((shouldMask_eq bits).mpr ⟨hpos, hc⟩)
      have hm : mask bits + 1 = W := by
        unfold mask; simp only [h0, h64, if_false, if_true]; unfold W; norm_num
      rw [hm, Nat.mod_eq_of_lt (hl.right.head)]

/-- `masked()` / `apply_mask()` on a full-length word list: canonical, value reduced mod `2^bits`
    (all widths, including 0 and whole-limb widths where no mask is applied). -/
theorem masked_spec (bits : ℕ) (l : List ℕ) (hlen : l.length = nlimbs bits) (hl : AllLt l) :
    Canon bits (masked bits l) ∧ val (masked bits l) = val l % 2 ^ bits := by
  rw [masked_eq_maskTop bits l hlen hl]
  by_cases h0 : bits = 0
  · subst h0
    have : l = [] := by simpa [nlimbs] using hlen
    subst this
    exact ⟨⟨rfl, AllLt.nil, by simp [maskTop]⟩, by simp [maskTop]⟩
  · obtain ⟨h1, h2, _⟩ := maskTop_spec bits (by omega) l hlen hl
    exact ⟨h1, h2⟩

theorem allLt_replicate (n x : ℕ) (hx : x < W) : AllLt (List.replicate n x) := by
  intro y hy
  rw [List.mem_replicate] at hy
  omega

theorem val_replicate_zero (n : ℕ) : val (List.replicate n 0) = 0 := by
  induction n with
  | zero => rfl
  | succ n ih => simp [List.replicate_succ, ih]

theorem val_replicate_max (n : ℕ) : val (List.replicate n (W - 1)) = W ^ n - 1 := by
  induction n with
  | zero => simp
  | succ n ih =>
    simp only [List.replicate_succ, val_cons, ih, pow_succ]
    have hW := W_pos
    have hp : 0 < W ^ n := by positivity
    have : W * (W ^ n - 1) = W * W ^ n - W := by rw [Nat.mul_sub, Nat.mul_one]
    rw [this]
    have : W ≤ W * W ^ n := by nlinarith
    rw [Nat.mul_comm (W ^ n) W]
    omega

/-- `ZERO` is canonical with value 0. -/
theorem zero_spec (bits : ℕ) : Canon bits (zero bits) ∧ val (zero bits) = 0 := by
  unfold zero
  refine ⟨⟨by simp, allLt_replicate _ _ W_pos, ?_⟩, val_replicate_zero _⟩
  rw [val_replicate_zero]; positivity

/-- `MAX` is canonical with value `2^bits − 1`. -/
theorem max_spec (bits : ℕ) : Canon bits (max bits) ∧ val (max bits) = 2 ^ bits - 1 := by
  unfold max fromLimbsUnmasked
  have hW := W_pos
  obtain ⟨h1, h2⟩ := masked_spec bits (List.replicate (nlimbs bits) (W - 1)) (by simp)
    (allLt_replicate _ _ (by omega))
  refine ⟨h1, ?_⟩
  rw [h2, val_replicate_max]
  obtain ⟨k, hk⟩ := pow_dvd_W bits
  have hp : 0 < 2 ^ bits := by positivity
  have hkpos : 0 < k := by
    rcases Nat.eq_zero_or_pos k with h | h
    · subst h; have : 0 < W ^ nlimbs bits := by positivity
      omega
    · exact h
  rw [hk]
  have : 2 ^ bits * k - 1 = (2 ^ bits - 1) + 2 ^ bits * (k - 1) := by
    have : 2 ^ bits * k = 2 ^ bits * (k - 1) + 2 ^ bits := by
      rw [← Nat.mul_succ]; congr 1; omega
    omega
  rw [this, Nat.add_mul_mod_self_left, Nat.mod_eq_of_lt (by omega)]

theorem mapTop_eq_maskTop (bits : ℕ) (l : List ℕ) :
    mapTop (· % (mask bits + 1)) l = maskTop bits l := by
  induction l with
  | nil => rfl
  | cons x xs ih =>
    cases xs with
    | nil => rfl
    | cons y ys => simp only [mapTop, maskTop]; rw [← ih]

theorem any_ne_zero_iff (l : List ℕ) : l.any (· ≠ 0) = true ↔ val l ≠ 0 := by
  induction l with
  | nil => simp
  | cons x xs ih =>
    simp only [List.any_cons, Bool.or_eq_true, decide_eq_true_eq, val_cons, ih]
    have hW := W_pos
    constructor
    · rintro (h | h)
      · omega
      · have : 0 < W * val xs := Nat.mul_pos hW (by omega)
        omega
    · intro h
      by_cases hx : x = 0
      · right; subst hx; intro h0; rw [h0] at h; simp at h
      · left; exact hx

theorem val_append_zeros (l : List ℕ) (k : ℕ) : val (l ++ List.replicate k 0) = val l := by
  rw [val_append, val_replicate_zero]; simp

theorem val_take_add_drop (l : List ℕ) (n : ℕ) :
    val l = val (l.take n) + W ^ (l.take n).length * val (l.drop n) := by
  conv_lhs => rw [← List.take_append_drop n l]
  rw [val_append]

/-- `overflowing_from_limbs_slice` on any slice of words: never panics, canonical result, value
    `slice mod 2^bits`, flag iff the slice denotes a number `≥ 2^bits`. All widths, all slice lengths. -/
theorem overflowingFromLimbsSlice_spec (bits : ℕ) (sl : List ℕ) (hsl : AllLt sl) :
    ∃ l o, overflowingFromLimbsSlice bits sl = some (l, o) ∧ Canon bits l
      ∧ val l = val sl % 2 ^ bits ∧ (o = true ↔ 2 ^ bits ≤ val sl) := by
  unfold overflowingFromLimbsSlice
  simp only
  have hW := W_pos
  by_cases hlt : sl.length < nlimbs bits
  · -- zero-extension
    simp only [hlt, if_true]
    have hbpos : 0 < bits := by
      by_contra h; have : bits = 0 := by omega
      subst this; simp [nlimbs] at hlt
    have hv := val_lt_pow sl hsl
    have hle : W ^ sl.length ≤ W ^ (nlimbs bits - 1) := Nat.pow_le_pow_right hW (by omega)
    have h2 : W ^ (nlimbs bits - 1) ≤ 2 ^ bits := by
      rw [two_pow_bits bits hbpos]
      have : 0 < 2 ^ topBits bits := by positivity
      nlinarith
    have hcanon : Canon bits (sl ++ List.replicate (nlimbs bits - sl.length) 0) := by
      refine ⟨by simp; omega, AllLt.append hsl (allLt_replicate _ _ hW), ?_⟩
      rw [val_append_zeros]; omega
    rw [fromLimbs_canon bits _ hcanon]
    refine ⟨_, false, rfl, hcanon, ?_, ?_⟩
    · rw [val_append_zeros, Nat.mod_eq_of_lt (by omega)]
    · simp; omega
  · simp only [hlt, if_false]
    have hge : nlimbs bits ≤ sl.length := by omega
    have htl : (sl.take (nlimbs bits)).length = nlimbs bits := by simp; omega
    have hhead : AllLt (sl.take (nlimbs bits)) := fun y hy => hsl y (List.mem_of_mem_take hy)
    have hsplit := val_take_add_drop sl (nlimbs bits)
    rw [htl] at hsplit
    by_cases hn : nlimbs bits > 0
    · simp only [hn, if_true]
      have hbpos : 0 < bits := by
        by_contra h; have : bits = 0 := by omega
        subst this; simp [nlimbs] at hn
      rw [mapTop_eq_maskTop]
      obtain ⟨m1, m2, m3⟩ := maskTop_spec bits hbpos _ htl hhead
      rw [fromLimbs_canon bits _ m1]
      refine ⟨_, _, rfl, m1, ?_, ?_⟩
      · rw [m2, hsplit]
        obtain ⟨k, hk⟩ := pow_dvd_W bits
        rw [hk, Nat.mul_assoc, Nat.add_mul_mod_self_left]
      · simp only [Bool.or_eq_true, decide_eq_true_eq, gt_iff_lt, any_ne_zero_iff]
        unfold top
        rw [m3, hsplit]
        have hh := val_lt_pow _ hhead
        rw [htl] at hh
        have h2 := two_pow_le_W bits
        constructor
        · rintro (h | h)
          · have : W ^ nlimbs bits ≤ W ^ nlimbs bits * val (sl.drop (nlimbs bits)) :=
              Nat.le_mul_of_pos_right _ (by omega)
            omega
          · omega
        · intro h
          by_cases ht : val (sl.drop (nlimbs bits)) = 0
          · right; rw [ht] at h; omega
          · left; exact ht
    · simp only [hn, if_false]
      have hn0 : nlimbs bits = 0 := by omega
      have hb0 : bits = 0 := by unfold nlimbs at hn0; omega
      subst hb0
      simp only [hn0, List.take_zero, List.drop_zero] at *
      have hc : Canon 0 [] := ⟨rfl, AllLt.nil, by simp⟩
      rw [fromLimbs_canon 0 [] hc]
      refine ⟨_, _, rfl, hc, by simp [Nat.mod_one], ?_⟩
      rw [any_ne_zero_iff]; simp; omega

theorem low1_length (n x : ℕ) : (low1 n x).length = n := by
  cases n <;> simp [low1]

theorem low1_allLt (n x : ℕ) (hx : x < W) : AllLt (low1 n x) := by
  cases n with
  | zero => exact AllLt.nil
  | succ n => exact AllLt.cons hx (allLt_replicate _ _ W_pos)

theorem val_low1 (n x : ℕ) (hn : 0 < n) : val (low1 n x) = x := by
  cases n with
  | zero => omega
  | succ n => simp [low1, val_replicate_zero]

/-- `const_from_u64` (saturating): never panics; `min x (2^bits − 1)`. -/
theorem constFromU64_spec (bits x : ℕ) (hx : x < W) :
    ∃ l, constFromU64 bits x = some l ∧ Canon bits l ∧ val l = min x (2 ^ bits - 1) := by
  unfold constFromU64
  by_cases h : bits = 0 ∨ (bits < 64 ∧ x ≥ 2 ^ bits)
  · rw [if_pos h]
    refine ⟨_, rfl, (max_spec bits).1, ?_⟩
    rw [(max_spec bits).2]
    rcases h with h | ⟨_, h⟩
    · subst h; simp
    · omega
  · rw [if_neg h]
    push Not at h
    obtain ⟨h0, h1⟩ := h
    have hpos : 0 < bits := by omega
    have hn := nlimbs_pos bits hpos
    have hfit : x < 2 ^ bits := by
      by_cases hb : bits < 64
      · exact h1 hb
      · have : 2 ^ 64 ≤ 2 ^ bits := Nat.pow_le_pow_right (by norm_num) (by omega)
        unfold W at hx; omega
    have hc : Canon bits (low1 (nlimbs bits) x) :=
      ⟨low1_length _ _, low1_allLt _ _ hx, by rw [val_low1 _ _ hn]; exact hfit⟩
    refine ⟨_, fromLimbs_canon bits _ hc, hc, ?_⟩
    rw [val_low1 _ _ hn]; omega

/-- `ONE`: canonical, value `1 mod 2^bits` (zero at width 0). -/
theorem one_spec (bits : ℕ) : ∃ l, one bits = some l ∧ Canon bits l ∧ val l = 1 % 2 ^ bits := by
  obtain ⟨l, h1, h2, h3⟩ := constFromU64_spec bits 1 (by unfold W; norm_num)
  refine ⟨l, h1, h2, ?_⟩
  rw [h3]
  rcases Nat.eq_zero_or_pos bits with h | h
  · subst h; simp
  · have : 2 ≤ 2 ^ bits := by
      calc 2 = 2 ^ 1 := by norm_num
        _ ≤ 2 ^ bits := Nat.pow_le_pow_right (by norm_num) h
    rw [Nat.mod_eq_of_lt (by omega)]; omega

end Ruint.Canon
