import Ruint.Model.MulKernels
import Ruint.Model.ShiftKernels
import Ruint.Gen.WordsKernels
import Ruint.Lemmas.Basic
import Ruint.Lemmas.GenCore
import Ruint.Lemmas.GenLehmer

/-! Tie of the limb-slice kernels `adc_n` / `sbb_n` (`src/algorithms/add.rs`) to the definitions GENERATED from the
source (`Ruint/Gen/WordsKernels.lean`, `for i in 0..lhs.len()` as an index loop over `Rs.loop`): on word slices with
`|lhs| ≤ |rhs|` the C15 models equal the generated functions. -/
namespace Ruint.GenKernels
open Ruint Ruint.Limb Ruint.GenLehmer

theorem adc_eq (l r c : ℕ) (hl : l < W) (hr : r < W) (hc : c < W) : Ruint.Gen.adc l r c = adc W l r c := by
  unfold Ruint.Gen.adc Ruint.Gen.dw_split Ruint.Gen.dw_low Ruint.Gen.dw_high adc
  rs_norm
  unfold W at *
  refine Prod.ext ?_ ?_ <;> simp only <;> omega

theorem sbb_eq (l r c : ℕ) (hl : l < W) (hr : r < W) (hc : c < W) : Ruint.Gen.sbb l r c = sbb W l r c := by
  unfold Ruint.Gen.sbb Ruint.Gen.dw_low Ruint.Gen.dw_high sbb
  rs_norm
  unfold W at *
  refine Prod.ext ?_ ?_ <;> simp only <;> omega

theorem adc_step_eq (n : ℕ) (rhs l : List ℕ) (c i : ℕ) :
    Ruint.Gen.adc_n_step1 rhs n (l, c, i) =
      if i < n then
        ((l.set i (Ruint.Gen.adc (l.getD i 0) (rhs.getD i 0) c).1,
          (Ruint.Gen.adc (l.getD i 0) (rhs.getD i 0) c).2, Rs.wadd 64 i 1), true)
      else ((l, c, i), false) := by
  unfold Ruint.Gen.adc_n_step1
  simp only [decide_eq_true_eq]

/-- the generated index loop of `adc_n` computes the model's chain, limb for limb. -/
theorem adc_loop_eq : ∀ (as bs p rhsP : List ℕ) (c f n : ℕ),
    as.length ≤ bs.length → p.length = rhsP.length → p.length + as.length = n → n < 2 ^ 64 → as.length < f →
    AllLt as → AllLt bs → c < W →
    ∃ r, adcN W as bs c = some r ∧
      Rs.loop (Ruint.Gen.adc_n_step1 (rhsP ++ bs) n) f (p ++ as, c, p.length) = (p ++ r.1, r.2, n) := by
  intro as
  induction as with
  | nil =>
    intro bs p rhsP c f n hl hp hn _ hf _ _ _
    obtain ⟨f, rfl⟩ : ∃ g, f = g + 1 := ⟨f - 1, by simp at hf; omega⟩
    simp only [List.length_nil, Nat.add_zero] at hn
    refine ⟨([], c), by cases bs <;> rfl, ?_⟩
    rw [loop_succ, adc_step_eq]
    simp [hn]
  | cons a as ih =>
    intro bs p rhsP c f n hl hp hn hn64 hf hwa hwb hc
    cases bs with
    | nil => simp at hl
    | cons b bs =>
      obtain ⟨f, rfl⟩ : ∃ g, f = g + 1 := ⟨f - 1, by simp at hf; omega⟩
      simp only [List.length_cons] at hl hn hf
      have hi : p.length < n := by omega
      have ha : a < W := hwa.head
      have hb : b < W := hwb.head
      have e := adc_eq a b c ha hb hc
      obtain ⟨_, _, hc'⟩ := GenCore.adc_spec a b c ha hb hc
      rw [e] at hc'
      obtain ⟨r, hr, hloop⟩ := ih bs (p ++ [(adc W a b c).1]) (rhsP ++ [b]) (adc W a b c).2 f n
        (by omega) (by simp [hp]) (by simp; omega) hn64 (by omega) hwa.tail hwb.tail hc'
      refine ⟨((adc W a b c).1 :: r.1, r.2), by simp only [adcN, hr], ?_⟩
      rw [loop_succ, adc_step_eq]
      have g1 : (p ++ a :: as).getD p.length 0 = a := by simp
      have g2 : (rhsP ++ b :: bs).getD p.length 0 = b := by rw [hp]; simp
      have g3 : ∀ x, (p ++ a :: as).set p.length x = (p ++ [x]) ++ as := by intro x; simp
      have g4 : ∀ x : ℕ, Rs.wadd 64 p.length 1 = (p ++ [x]).length := by
        intro x; unfold Rs.wadd; rw [Nat.mod_eq_of_lt (by omega)]; simp
      simp only [hi, if_true, g1, g2, g3, e, g4 (adc W a b c).1]
      simp only [List.append_assoc, List.singleton_append] at hloop ⊢
      rw [hloop]

/-- **`adc_n` as generated from the source** equals the C15 model on word slices with `|lhs| ≤ |rhs|`. -/
theorem adc_n_eq (lhs rhs : List ℕ) (c : ℕ) (hl : lhs.length ≤ rhs.length) (hn : lhs.length < 2 ^ 64)
    (hwl : AllLt lhs) (hwr : AllLt rhs) (hc : c < W) :
    adcN W lhs rhs c = some (Ruint.Gen.adc_n (lhs.length + 1) lhs rhs c) := by
  obtain ⟨r, hr, hloop⟩ := adc_loop_eq lhs rhs [] [] c (lhs.length + 1) lhs.length hl rfl (by simp) hn (by omega)
    hwl hwr hc
  simp only [List.nil_append, List.length_nil] at hloop
  unfold Ruint.Gen.adc_n
  simp only [hloop, hr]

theorem sbb_step_eq (n : ℕ) (rhs l : List ℕ) (c i : ℕ) :
    Ruint.Gen.sbb_n_step1 rhs n (l, c, i) =
      if i < n then
        ((l.set i (Ruint.Gen.sbb (l.getD i 0) (rhs.getD i 0) c).1,
          (Ruint.Gen.sbb (l.getD i 0) (rhs.getD i 0) c).2, Rs.wadd 64 i 1), true)
      else ((l, c, i), false) := by
  unfold Ruint.Gen.sbb_n_step1
  simp only [decide_eq_true_eq]

/-- the generated index loop of `sbb_n` computes the model's chain, limb for limb. -/
theorem sbb_loop_eq : ∀ (as bs p rhsP : List ℕ) (c f n : ℕ),
    as.length ≤ bs.length → p.length = rhsP.length → p.length + as.length = n → n < 2 ^ 64 → as.length < f →
    AllLt as → AllLt bs → c < W →
    ∃ r, sbbN W as bs c = some r ∧
      Rs.loop (Ruint.Gen.sbb_n_step1 (rhsP ++ bs) n) f (p ++ as, c, p.length) = (p ++ r.1, r.2, n) := by
  intro as
  induction as with
  | nil =>
    intro bs p rhsP c f n hl hp hn _ hf _ _ _
    obtain ⟨f, rfl⟩ : ∃ g, f = g + 1 := ⟨f - 1, by simp at hf; omega⟩
    simp only [List.length_nil, Nat.add_zero] at hn
    refine ⟨([], c), by cases bs <;> rfl, ?_⟩
    rw [loop_succ, sbb_step_eq]
    simp [hn]
  | cons a as ih =>
    intro bs p rhsP c f n hl hp hn hn64 hf hwa hwb hc
    cases bs with
    | nil => simp at hl
    | cons b bs =>
      obtain ⟨f, rfl⟩ : ∃ g, f = g + 1 := ⟨f - 1, by simp at hf; omega⟩
      simp only [List.length_cons] at hl hn hf
      have hi : p.length < n := by omega
      have ha : a < W := hwa.head
      have hb : b < W := hwb.head
      have e := sbb_eq a b c ha hb hc
      obtain ⟨_, _, hc'⟩ := GenCore.sbb_spec a b c ha hb hc
      rw [e] at hc'
      obtain ⟨r, hr, hloop⟩ := ih bs (p ++ [(sbb W a b c).1]) (rhsP ++ [b]) (sbb W a b c).2 f n
        (by omega) (by simp [hp]) (by simp; omega) hn64 (by omega) hwa.tail hwb.tail hc'
      refine ⟨((sbb W a b c).1 :: r.1, r.2), by simp only [sbbN, hr], ?_⟩
      rw [loop_succ, sbb_step_eq]
      have g1 : (p ++ a :: as).getD p.length 0 = a := by simp
      have g2 : (rhsP ++ b :: bs).getD p.length 0 = b := by rw [hp]; simp
      have g3 : ∀ x, (p ++ a :: as).set p.length x = (p ++ [x]) ++ as := by intro x; simp
      have g4 : ∀ x : ℕ, Rs.wadd 64 p.length 1 = (p ++ [x]).length := by
        intro x; unfold Rs.wadd; rw [Nat.mod_eq_of_lt (by omega)]; simp
      simp only [hi, if_true, g1, g2, g3, e, g4 (sbb W a b c).1]
      simp only [List.append_assoc, List.singleton_append] at hloop ⊢
      rw [hloop]

/-- **`sbb_n` as generated from the source** equals the C15 model on word slices with `|lhs| ≤ |rhs|`. -/
theorem sbb_n_eq (lhs rhs : List ℕ) (c : ℕ) (hl : lhs.length ≤ rhs.length) (hn : lhs.length < 2 ^ 64)
    (hwl : AllLt lhs) (hwr : AllLt rhs) (hc : c < W) :
    sbbN W lhs rhs c = some (Ruint.Gen.sbb_n (lhs.length + 1) lhs rhs c) := by
  obtain ⟨r, hr, hloop⟩ := sbb_loop_eq lhs rhs [] [] c (lhs.length + 1) lhs.length hl rfl (by simp) hn (by omega)
    hwl hwr hc
  simp only [List.nil_append, List.length_nil] at hloop
  unfold Ruint.Gen.sbb_n
  simp only [hloop, hr]

/-! ### `mul_nx1`, `addmul_nx1`, `submul_nx1` -/

theorem word_mul_bound (x a c l : ℕ) (hx : x < W) (ha : a < W) (hc : c < W) (hl : l < W) :
    x * a + c + l < W * W := by
  have h1 : x * a ≤ (W - 1) * (W - 1) := Nat.mul_le_mul (by omega) (by omega)
  have hW : 2 ≤ W := by unfold W; norm_num
  have e : W * W = (W - 1) * (W - 1) + (2 * W - 1) := by
    obtain ⟨k, hk⟩ : ∃ k, W = k + 1 := ⟨W - 1, by omega⟩
    rw [hk]; simp only [Nat.add_sub_cancel]; ring_nf; omega
  omega

theorem muladd_split (x a c : ℕ) (hx : x < W) (ha : a < W) (hc : c < W) :
    Ruint.Gen.dw_split (Ruint.Gen.dw_muladd x a c) = ((x * a + c) % W, (x * a + c) / W) := by
  have hb := word_mul_bound x a c 0 hx ha hc W_pos
  unfold Ruint.Gen.dw_split Ruint.Gen.dw_muladd Ruint.Gen.dw_low Ruint.Gen.dw_high
  rs_norm
  generalize x * a = p at *
  unfold W at *
  refine Prod.ext ?_ ?_ <;> simp only <;> omega

theorem muladd2_split (a b c l : ℕ) (ha : a < W) (hb : b < W) (hc : c < W) (hl : l < W) :
    Ruint.Gen.dw_split (Ruint.Gen.dw_muladd2 a b c l) = ((a * b + c + l) % W, (a * b + c + l) / W) := by
  have hbd := word_mul_bound a b c l ha hb hc hl
  unfold Ruint.Gen.dw_split Ruint.Gen.dw_muladd2 Ruint.Gen.dw_low Ruint.Gen.dw_high
  rs_norm
  generalize a * b = p at *
  unfold W at *
  refine Prod.ext ?_ ?_ <;> simp only <;> omega

theorem carry_lt (t : ℕ) (h : t < W * W) : t / W < W := (Nat.div_lt_iff_lt_mul W_pos).2 h

theorem mul_step_eq (a n : ℕ) (l : List ℕ) (c i : ℕ) :
    Ruint.Gen.mul_nx1_step1 a n (l, c, i) =
      if i < n then
        ((l.set i (Ruint.Gen.dw_split (Ruint.Gen.dw_muladd (l.getD i 0) a c)).1,
          (Ruint.Gen.dw_split (Ruint.Gen.dw_muladd (l.getD i 0) a c)).2, Rs.wadd 64 i 1), true)
      else ((l, c, i), false) := by
  unfold Ruint.Gen.mul_nx1_step1
  simp only [decide_eq_true_eq]

theorem mul_loop_eq (a : ℕ) (ha : a < W) : ∀ (xs p : List ℕ) (c f n : ℕ),
    p.length + xs.length = n → n < 2 ^ 64 → xs.length < f → AllLt xs → c < W →
    Rs.loop (Ruint.Gen.mul_nx1_step1 a n) f (p ++ xs, c, p.length)
      = (p ++ (mulNx1Go W xs a c).1, (mulNx1Go W xs a c).2, n) := by
  intro xs
  induction xs with
  | nil =>
    intro p c f n hn _ hf _ _
    obtain ⟨f, rfl⟩ : ∃ g, f = g + 1 := ⟨f - 1, by simp at hf; omega⟩
    simp only [List.length_nil, Nat.add_zero] at hn
    rw [loop_succ, mul_step_eq]
    simp [hn, mulNx1Go]
  | cons x xs ih =>
    intro p c f n hn hn64 hf hw hc
    obtain ⟨f, rfl⟩ : ∃ g, f = g + 1 := ⟨f - 1, by simp at hf; omega⟩
    simp only [List.length_cons] at hn hf
    have hi : p.length < n := by omega
    have hx : x < W := hw.head
    have e := muladd_split x a c hx ha hc
    have hc' : (x * a + c) / W < W := carry_lt _ (by simpa using word_mul_bound x a c 0 hx ha hc W_pos)
    rw [loop_succ, mul_step_eq]
    have g1 : (p ++ x :: xs).getD p.length 0 = x := by simp
    have g3 : ∀ y, (p ++ x :: xs).set p.length y = (p ++ [y]) ++ xs := by intro y; simp
    have g4 : ∀ y : ℕ, Rs.wadd 64 p.length 1 = (p ++ [y]).length := by
      intro y; unfold Rs.wadd; rw [Nat.mod_eq_of_lt (by omega)]; simp
    simp only [hi, if_true, g1, g3, e, g4 ((x * a + c) % W)]
    have := ih (p ++ [(x * a + c) % W]) ((x * a + c) / W) f n (by simp; omega) hn64 (by omega) hw.tail hc'
    simp only [List.append_assoc, List.singleton_append] at this ⊢
    rw [this]
    simp only [mulNx1Go]

/-- **`mul_nx1` as generated from the source** equals the C15 model on word slices. -/
theorem mul_nx1_eq (lhs : List ℕ) (a : ℕ) (hn : lhs.length < 2 ^ 64) (hw : AllLt lhs) (ha : a < W) :
    Ruint.Gen.mul_nx1 (lhs.length + 1) lhs a = mulNx1 W lhs a := by
  have hloop := mul_loop_eq a ha lhs [] 0 (lhs.length + 1) lhs.length (by simp) hn (by omega) hw W_pos
  simp only [List.nil_append, List.length_nil] at hloop
  unfold Ruint.Gen.mul_nx1 mulNx1
  simp only [hloop]

theorem addmul_step_eq (a : List ℕ) (b n : ℕ) (l : List ℕ) (c i : ℕ) :
    Ruint.Gen.addmul_nx1_step1 a b n (l, c, i) =
      if i < n then
        ((l.set i (Ruint.Gen.dw_split (Ruint.Gen.dw_muladd2 (a.getD i 0) b c (l.getD i 0))).1,
          (Ruint.Gen.dw_split (Ruint.Gen.dw_muladd2 (a.getD i 0) b c (l.getD i 0))).2, Rs.wadd 64 i 1), true)
      else ((l, c, i), false) := by
  unfold Ruint.Gen.addmul_nx1_step1
  simp only [decide_eq_true_eq]

theorem addmul_loop_eq (b : ℕ) (hb : b < W) : ∀ (ls as p aP : List ℕ) (c f n : ℕ),
    ls.length = as.length → p.length = aP.length → p.length + as.length = n → n < 2 ^ 64 → as.length < f →
    AllLt ls → AllLt as → c < W →
    Rs.loop (Ruint.Gen.addmul_nx1_step1 (aP ++ as) b n) f (p ++ ls, c, p.length)
      = (p ++ (addmulNx1Go W ls as b c).1, (addmulNx1Go W ls as b c).2, n) := by
  intro ls
  induction ls with
  | nil =>
    intro as p aP c f n hl hp hn _ hf _ _ _
    cases as with
    | cons _ _ => simp at hl
    | nil =>
      obtain ⟨f, rfl⟩ : ∃ g, f = g + 1 := ⟨f - 1, by simp at hf; omega⟩
      simp only [List.length_nil, Nat.add_zero] at hn
      rw [loop_succ, addmul_step_eq]
      simp [hn, addmulNx1Go]
  | cons l ls ih =>
    intro as p aP c f n hl hp hn hn64 hf hwl hwa hc
    cases as with
    | nil => simp at hl
    | cons a as =>
      obtain ⟨f, rfl⟩ : ∃ g, f = g + 1 := ⟨f - 1, by simp at hf; omega⟩
      simp only [List.length_cons] at hl hn hf
      have hi : p.length < n := by omega
      have hlw : l < W := hwl.head
      have haw : a < W := hwa.head
      have e := muladd2_split a b c l haw hb hc hlw
      have hc' : (a * b + c + l) / W < W := carry_lt _ (word_mul_bound a b c l haw hb hc hlw)
      rw [loop_succ, addmul_step_eq]
      have g1 : (p ++ l :: ls).getD p.length 0 = l := by simp
      have g2 : (aP ++ a :: as).getD p.length 0 = a := by rw [hp]; simp
      have g3 : ∀ y, (p ++ l :: ls).set p.length y = (p ++ [y]) ++ ls := by intro y; simp
      have g4 : ∀ y : ℕ, Rs.wadd 64 p.length 1 = (p ++ [y]).length := by
        intro y; unfold Rs.wadd; rw [Nat.mod_eq_of_lt (by omega)]; simp
      simp only [hi, if_true, g1, g2, g3, e, g4 ((a * b + c + l) % W)]
      have := ih as (p ++ [(a * b + c + l) % W]) (aP ++ [a]) ((a * b + c + l) / W) f n (by omega) (by simp [hp])
        (by simp; omega) hn64 (by omega) hwl.tail hwa.tail hc'
      simp only [List.append_assoc, List.singleton_append] at this ⊢
      rw [this]
      simp only [addmulNx1Go]

/-- **`addmul_nx1` as generated from the source** equals the C15 model on its `assume!`d domain `|lhs| = |a|`. -/
theorem addmul_nx1_eq (lhs a : List ℕ) (b : ℕ) (hl : lhs.length = a.length) (hn : a.length < 2 ^ 64)
    (hwl : AllLt lhs) (hwa : AllLt a) (hb : b < W) :
    Ruint.Gen.addmul_nx1 (a.length + 1) lhs a b = addmulNx1 W lhs a b := by
  have hloop := addmul_loop_eq b hb lhs a [] [] 0 (a.length + 1) a.length hl rfl (by simp) hn (by omega) hwl hwa W_pos
  simp only [List.nil_append, List.length_nil] at hloop
  unfold Ruint.Gen.addmul_nx1 addmulNx1
  simp only [hloop]

theorem submul_step_eq (a : List ℕ) (b n : ℕ) (l : List ℕ) (carry borrow i : ℕ) :
    Ruint.Gen.submul_nx1_step1 a b n (carry, l, borrow, i) =
      if i < n then
        (((Ruint.Gen.dw_split (Ruint.Gen.dw_muladd (a.getD i 0) b carry)).2,
          l.set i (Ruint.Gen.sbb (l.getD i 0) (Ruint.Gen.dw_split (Ruint.Gen.dw_muladd (a.getD i 0) b carry)).1 borrow).1,
          (Ruint.Gen.sbb (l.getD i 0) (Ruint.Gen.dw_split (Ruint.Gen.dw_muladd (a.getD i 0) b carry)).1 borrow).2,
          Rs.wadd 64 i 1), true)
      else ((carry, l, borrow, i), false) := by
  unfold Ruint.Gen.submul_nx1_step1
  simp only [decide_eq_true_eq]

/-- the `submul_nx1` loop with its two running words kept apart (the model adds them at the end) -/
def submulGo2 (B : ℕ) : List ℕ → List ℕ → ℕ → ℕ → ℕ → List ℕ × ℕ × ℕ
  | l :: ls, a :: as, b, carry, borrow =>
      let p := a * b + carry
      let s := sbb B l (p % B) borrow
      let r := submulGo2 B ls as b (p / B) s.2
      (s.1 :: r.1, r.2)
  | ls, _, _, carry, borrow => (ls, carry, borrow)

theorem submulGo2_model (B : ℕ) (ls as : List ℕ) (b carry borrow : ℕ) :
    submulNx1Go B ls as b carry borrow
      = ((submulGo2 B ls as b carry borrow).1,
          (submulGo2 B ls as b carry borrow).2.2 + (submulGo2 B ls as b carry borrow).2.1) := by
  induction ls generalizing as carry borrow with
  | nil => cases as <;> simp [submulNx1Go, submulGo2]
  | cons l ls ih =>
    cases as with
    | nil => simp [submulNx1Go, submulGo2]
    | cons a as => simp only [submulNx1Go, submulGo2, ih]

theorem submul_loop_eq (b : ℕ) (hb : b < W) : ∀ (ls as p aP : List ℕ) (carry borrow f n : ℕ),
    ls.length = as.length → p.length = aP.length → p.length + as.length = n → n < 2 ^ 64 → as.length < f →
    AllLt ls → AllLt as → carry < W → borrow < W →
    Rs.loop (Ruint.Gen.submul_nx1_step1 (aP ++ as) b n) f (carry, p ++ ls, borrow, p.length)
      = ((submulGo2 W ls as b carry borrow).2.1, p ++ (submulGo2 W ls as b carry borrow).1,
          (submulGo2 W ls as b carry borrow).2.2, n) := by
  intro ls
  induction ls with
  | nil =>
    intro as p aP carry borrow f n hl hp hn _ hf _ _ _ _
    cases as with
    | cons _ _ => simp at hl
    | nil =>
      obtain ⟨f, rfl⟩ : ∃ g, f = g + 1 := ⟨f - 1, by simp at hf; omega⟩
      simp only [List.length_nil, Nat.add_zero] at hn
      rw [loop_succ, submul_step_eq]
      simp [hn, submulGo2]
  | cons l ls ih =>
    intro as p aP carry borrow f n hl hp hn hn64 hf hwl hwa hc hbo
    cases as with
    | nil => simp at hl
    | cons a as =>
      obtain ⟨f, rfl⟩ : ∃ g, f = g + 1 := ⟨f - 1, by simp at hf; omega⟩
      simp only [List.length_cons] at hl hn hf
      have hi : p.length < n := by omega
      have hlw : l < W := hwl.head
      have haw : a < W := hwa.head
      have e := muladd_split a b carry haw hb hc
      have hpw : (a * b + carry) % W < W := Nat.mod_lt _ W_pos
      have hc' : (a * b + carry) / W < W := carry_lt _ (by simpa using word_mul_bound a b carry 0 haw hb hc W_pos)
      have es := sbb_eq l ((a * b + carry) % W) borrow hlw hpw hbo
      obtain ⟨_, _, hbo'⟩ := GenCore.sbb_spec l ((a * b + carry) % W) borrow hlw hpw hbo
      rw [es] at hbo'
      rw [loop_succ, submul_step_eq]
      have g1 : (p ++ l :: ls).getD p.length 0 = l := by simp
      have g2 : (aP ++ a :: as).getD p.length 0 = a := by rw [hp]; simp
      have g3 : ∀ y, (p ++ l :: ls).set p.length y = (p ++ [y]) ++ ls := by intro y; simp
      have g4 : ∀ y : ℕ, Rs.wadd 64 p.length 1 = (p ++ [y]).length := by
        intro y; unfold Rs.wadd; rw [Nat.mod_eq_of_lt (by omega)]; simp
      simp only [hi, if_true, g1, g2, g3, e, es, g4 (sbb W l ((a * b + carry) % W) borrow).1]
      have := ih as (p ++ [(sbb W l ((a * b + carry) % W) borrow).1]) (aP ++ [a]) ((a * b + carry) / W)
        (sbb W l ((a * b + carry) % W) borrow).2 f n (by omega) (by simp [hp]) (by simp; omega) hn64 (by omega)
        hwl.tail hwa.tail hc' hbo'
      simp only [List.append_assoc, List.singleton_append] at this ⊢
      rw [this, submulGo2]

/-- `submul_nx1` as generated from the source, against the model: same limbs; the returned word is the generated
    `borrow.wrapping… + carry` (u64 `+`) where the model has the plain sum — equal because the sum is a word
    (`Props/C15: submul_nx1_spec`, used there to conclude `gen_submul_nx1_eq`). -/
theorem submul_nx1_eq' (lhs a : List ℕ) (b : ℕ) (hl : lhs.length = a.length) (hn : a.length < 2 ^ 64)
    (hwl : AllLt lhs) (hwa : AllLt a) (hb : b < W) :
    Ruint.Gen.submul_nx1 (a.length + 1) lhs a b
      = ((submulNx1 W lhs a b).1, (submulNx1 W lhs a b).2 % 2 ^ 64) := by
  have hloop := submul_loop_eq b hb lhs a [] [] 0 0 (a.length + 1) a.length hl rfl (by simp) hn (by omega) hwl hwa
    W_pos W_pos
  simp only [List.nil_append, List.length_nil] at hloop
  unfold Ruint.Gen.submul_nx1 submulNx1
  simp only [hloop, submulGo2_model W]
  rfl

/-! ### `add_nx1` (two early exits) -/

theorem add_split (l a : ℕ) (hl : l < W) (ha : a < W) :
    Ruint.Gen.dw_split (Ruint.Gen.dw_add l a) = ((l + a) % W, (l + a) / W) := by
  unfold Ruint.Gen.dw_split Ruint.Gen.dw_add Ruint.Gen.dw_low Ruint.Gen.dw_high
  rs_norm
  unfold W at *
  refine Prod.ext ?_ ?_ <;> simp only <;> omega

theorem addNx1_zero (B : ℕ) (ls : List ℕ) : addNx1 B ls 0 = (ls, 0) := by
  cases ls <;> simp [addNx1]

theorem addnx1_step_eq (n : ℕ) (l : List ℕ) (a i : ℕ) :
    Ruint.Gen.add_nx1_step1 n ((l, a, i), none) =
      if i < n then
        (if (Ruint.Gen.dw_split (Ruint.Gen.dw_add (l.getD i 0) a)).2 = 0 then
          (((l.set i (Ruint.Gen.dw_split (Ruint.Gen.dw_add (l.getD i 0) a)).1,
              (Ruint.Gen.dw_split (Ruint.Gen.dw_add (l.getD i 0) a)).2, i),
            some (l.set i (Ruint.Gen.dw_split (Ruint.Gen.dw_add (l.getD i 0) a)).1, 0)), false)
        else
          (((l.set i (Ruint.Gen.dw_split (Ruint.Gen.dw_add (l.getD i 0) a)).1,
              (Ruint.Gen.dw_split (Ruint.Gen.dw_add (l.getD i 0) a)).2, Rs.wadd 64 i 1), none), true))
      else (((l, a, i), none), false) := by
  unfold Ruint.Gen.add_nx1_step1
  simp only [decide_eq_true_eq, beq_iff_eq]

theorem addnx1_loop_eq : ∀ (ls p : List ℕ) (a f n : ℕ),
    p.length + ls.length = n → n < 2 ^ 64 → ls.length < f → AllLt ls → a < W → a ≠ 0 →
    ((Rs.loop (Ruint.Gen.add_nx1_step1 n) f ((p ++ ls, a, p.length), none)).2).getD
        ((Rs.loop (Ruint.Gen.add_nx1_step1 n) f ((p ++ ls, a, p.length), none)).1.1,
          (Rs.loop (Ruint.Gen.add_nx1_step1 n) f ((p ++ ls, a, p.length), none)).1.2.1)
      = (p ++ (addNx1 W ls a).1, (addNx1 W ls a).2) := by
  intro ls
  induction ls with
  | nil =>
    intro p a f n hn _ hf _ _ _
    obtain ⟨f, rfl⟩ : ∃ g, f = g + 1 := ⟨f - 1, by simp at hf; omega⟩
    simp only [List.length_nil, Nat.add_zero] at hn
    rw [loop_succ, addnx1_step_eq]
    simp [hn, addNx1]
  | cons l ls ih =>
    intro p a f n hn hn64 hf hw ha ha0
    obtain ⟨f, rfl⟩ : ∃ g, f = g + 1 := ⟨f - 1, by simp at hf; omega⟩
    simp only [List.length_cons] at hn hf
    have hi : p.length < n := by omega
    have hlw : l < W := hw.head
    have e := add_split l a hlw ha
    have hc' : (l + a) / W < W := by
      have : (l + a) / W ≤ 1 := by
        have : l + a < 2 * W := by omega
        exact Nat.lt_succ_iff.mp ((Nat.div_lt_iff_lt_mul W_pos).2 (by omega))
      have := W_pos; unfold W at *; omega
    rw [loop_succ, addnx1_step_eq]
    have g1 : (p ++ l :: ls).getD p.length 0 = l := by simp
    have g3 : ∀ y, (p ++ l :: ls).set p.length y = (p ++ [y]) ++ ls := by intro y; simp
    have g4 : ∀ y : ℕ, Rs.wadd 64 p.length 1 = (p ++ [y]).length := by
      intro y; unfold Rs.wadd; rw [Nat.mod_eq_of_lt (by omega)]; simp
    simp only [hi, if_true, g1, g3, e]
    rw [addNx1, if_neg ha0]
    by_cases h0 : (l + a) / W = 0
    · simp only [h0, if_true, Bool.false_eq_true, if_false, Option.getD_some, addNx1_zero]
      simp
    · simp only [h0, if_false, if_true, g4 ((l + a) % W)]
      have := ih (p ++ [(l + a) % W]) ((l + a) / W) f n (by simp; omega) hn64 (by omega) hw.tail hc' h0
      simp only [List.append_assoc, List.singleton_append] at this ⊢
      rw [this]

/-- **`add_nx1` as generated from the source** (both early exits) equals the C15 model on word slices. -/
theorem add_nx1_eq (lhs : List ℕ) (a : ℕ) (hn : lhs.length < 2 ^ 64) (hw : AllLt lhs) (ha : a < W) :
    Ruint.Gen.add_nx1 (lhs.length + 1) lhs a = addNx1 W lhs a := by
  unfold Ruint.Gen.add_nx1
  by_cases h0 : a = 0
  · subst h0; simp [addNx1_zero]
  · have hb : (a == 0) = false := by simp [h0]
    simp only [hb, Bool.false_eq_true, if_false]
    have := addnx1_loop_eq lhs [] a (lhs.length + 1) lhs.length (by simp) hn (by omega) hw ha h0
    simp only [List.nil_append, List.length_nil] at this
    exact this

/-! ### `shift_left_small`, `shift_right_small` -/
open Ruint.ShiftK

theorem wsub64 (amount : ℕ) (h : amount ≤ 64) : Rs.wsub 64 64 amount = 64 - amount := by
  unfold Rs.wsub
  have : 64 + 2 ^ 64 - amount = (64 - amount) + 2 ^ 64 := by omega
  rw [this, Nat.add_mod_right, Nat.mod_eq_of_lt (by omega)]

theorem shl_step_eq (amount n : ℕ) (l : List ℕ) (ov i : ℕ) :
    Ruint.Gen.shift_left_small_step1 amount n (ov, l, i) =
      if i < n then
        (((l.getD i 0) / 2 ^ (Rs.wsub 64 64 amount), l.set i ((Rs.wshl 64 (l.getD i 0) amount) ||| ov), Rs.wadd 64 i 1), true)
      else ((ov, l, i), false) := by
  unfold Ruint.Gen.shift_left_small_step1
  simp only [decide_eq_true_eq]

theorem shl_loop_eq (amount : ℕ) (ham : amount ≤ 64) : ∀ (xs p : List ℕ) (ov f n : ℕ),
    p.length + xs.length = n → n < 2 ^ 64 → xs.length < f →
    Rs.loop (Ruint.Gen.shift_left_small_step1 amount n) f (ov, p ++ xs, p.length)
      = ((shlLoop amount xs ov).2, p ++ (shlLoop amount xs ov).1, n) := by
  intro xs
  induction xs with
  | nil =>
    intro p ov f n hn _ hf
    obtain ⟨f, rfl⟩ : ∃ g, f = g + 1 := ⟨f - 1, by simp at hf; omega⟩
    simp only [List.length_nil, Nat.add_zero] at hn
    rw [loop_succ, shl_step_eq]
    simp [hn, shlLoop]
  | cons x xs ih =>
    intro p ov f n hn hn64 hf
    obtain ⟨f, rfl⟩ : ∃ g, f = g + 1 := ⟨f - 1, by simp at hf; omega⟩
    simp only [List.length_cons] at hn hf
    have hi : p.length < n := by omega
    rw [loop_succ, shl_step_eq]
    have g1 : (p ++ x :: xs).getD p.length 0 = x := by simp
    have g3 : ∀ y, (p ++ x :: xs).set p.length y = (p ++ [y]) ++ xs := by intro y; simp
    have g4 : ∀ y : ℕ, Rs.wadd 64 p.length 1 = (p ++ [y]).length := by
      intro y; unfold Rs.wadd; rw [Nat.mod_eq_of_lt (by omega)]; simp
    simp only [hi, if_true, g1, g3, wsub64 amount ham, g4 ((Rs.wshl 64 x amount) ||| ov)]
    have := ih (p ++ [(Rs.wshl 64 x amount) ||| ov]) (x / 2 ^ (64 - amount)) f n (by simp; omega) hn64 (by omega)
    simp only [List.append_assoc, List.singleton_append] at this ⊢
    rw [this, shlLoop]
    rfl

/-- **`shift_left_small` as generated from the source** equals the C15 model for every amount ≤ 64. -/
theorem shift_left_small_eq (limbs : List ℕ) (amount : ℕ) (ham : amount ≤ 64) (hn : limbs.length < 2 ^ 64) :
    Ruint.Gen.shift_left_small (limbs.length + 1) limbs amount = shlSmall limbs amount := by
  unfold Ruint.Gen.shift_left_small shlSmall
  by_cases h0 : amount = 0
  · subst h0; simp
  · have hb : (amount == 0) = false := by simp [h0]
    simp only [hb, Bool.false_eq_true, if_false, h0]
    have := shl_loop_eq amount ham limbs [] 0 (limbs.length + 1) limbs.length (by simp) hn (by omega)
    simp only [List.nil_append, List.length_nil] at this
    rw [this]

theorem shr_step_eq (amount : ℕ) (l : List ℕ) (ov i : ℕ) :
    Ruint.Gen.shift_right_small_step1 amount 0 (i, ov, l) =
      if i > 0 then
        ((Rs.wsub 64 i 1, Rs.wshl 64 (l.getD (Rs.wsub 64 i 1) 0) (Rs.wsub 64 64 amount),
          l.set (Rs.wsub 64 i 1) (((l.getD (Rs.wsub 64 i 1) 0) / 2 ^ amount) ||| ov)), true)
      else ((i, ov, l), false) := by
  unfold Ruint.Gen.shift_right_small_step1
  simp only [decide_eq_true_eq]

theorem wsub_pred (i : ℕ) (h0 : 0 < i) (h : i < 2 ^ 64) : Rs.wsub 64 i 1 = i - 1 := by
  unfold Rs.wsub
  have : i + 2 ^ 64 - 1 = (i - 1) + 2 ^ 64 := by omega
  rw [this, Nat.add_mod_right, Nat.mod_eq_of_lt (by omega)]

theorem shr_loop_eq (amount : ℕ) (ham : amount ≤ 64) : ∀ (p q : List ℕ) (f : ℕ),
    p.length < 2 ^ 64 → p.length < f →
    Rs.loop (Ruint.Gen.shift_right_small_step1 amount 0) f
        (p.length, (shrLoop amount q).2, p ++ (shrLoop amount q).1)
      = (0, (shrLoop amount (p ++ q)).2, (shrLoop amount (p ++ q)).1) := by
  intro p
  induction p using List.reverseRecOn with
  | nil =>
    intro q f _ hf
    obtain ⟨f, rfl⟩ : ∃ g, f = g + 1 := ⟨f - 1, by simp at hf; omega⟩
    rw [loop_succ, shr_step_eq]
    simp
  | append_singleton p x ih =>
    intro q f hn hf
    obtain ⟨f, rfl⟩ : ∃ g, f = g + 1 := ⟨f - 1, by simp at hf; omega⟩
    simp only [List.length_append, List.length_singleton] at hn hf
    rw [loop_succ, shr_step_eq]
    have hpos : (p ++ [x]).length > 0 := by simp
    have hpred : Rs.wsub 64 (p ++ [x]).length 1 = p.length := by
      rw [wsub_pred _ hpos (by simp; omega)]; simp
    have g1 : (p ++ [x] ++ (shrLoop amount q).1).getD p.length 0 = x := by simp
    have g3 : ∀ y, (p ++ [x] ++ (shrLoop amount q).1).set p.length y = p ++ (y :: (shrLoop amount q).1) := by
      intro y; simp
    simp only [hpos, if_true, hpred, g1, g3, wsub64 amount ham]
    have e : shrLoop amount (x :: q)
        = (((x / 2 ^ amount) ||| (shrLoop amount q).2) :: (shrLoop amount q).1,
           Rs.wshl 64 x (64 - amount)) := by rw [shrLoop]; rfl
    have := ih (x :: q) f (by omega) (by omega)
    rw [e] at this
    simp only [List.append_assoc, List.singleton_append]
    exact this

/-- **`shift_right_small` as generated from the source** equals the C15 model for every amount ≤ 64. -/
theorem shift_right_small_eq (limbs : List ℕ) (amount : ℕ) (ham : amount ≤ 64) (hn : limbs.length < 2 ^ 64) :
    Ruint.Gen.shift_right_small (limbs.length + 1) limbs amount = shrSmall limbs amount := by
  unfold Ruint.Gen.shift_right_small shrSmall
  by_cases h0 : amount = 0
  · subst h0; simp
  · have hb : (amount == 0) = false := by simp [h0]
    simp only [hb, Bool.false_eq_true, if_false, h0]
    have := shr_loop_eq amount ham limbs [] (limbs.length + 1) hn (by omega)
    simp only [shrLoop, List.append_nil] at this
    rw [this]

end Ruint.GenKernels
