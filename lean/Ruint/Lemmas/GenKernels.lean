import Ruint.Model.MulKernels
import Ruint.Gen.WordsKernels
import Ruint.Lemmas.Basic
import Ruint.Lemmas.GenCore
import Ruint.Lemmas.GenLehmer

/-! Tie of the limb-slice kernels `adc_n` / `sbb_n` (`src/algorithms/add.rs`) to the definitions GENERATED from the
source (`Ruint/Gen/WordsKernels.lean`, `for i in 0..lhs.len()` as an index loop over `Rs.loop`): on word slices with
`|lhs| ≤ |rhs|` the C15 models equal the generated functions. -/
namespace Ruint.GenKernels
open Ruint Ruint.Limb Ruint.GenLehmer

theorem adc_eq (l r c : ℕ) (hl : l < W) (hr : r < W) (hc : c < W) : Ruint.Gen.adc l r c = adc W l r c := by
  unfold Ruint.Gen.adc Ruint.Gen.dw_split Ruint.Gen.dw_low Ruint.Gen.dw_high adc
  rs_norm
  unfold W at *
  refine Prod.ext ?_ ?_ <;> simp only <;> omega

theorem sbb_eq (l r c : ℕ) (hl : l < W) (hr : r < W) (hc : c < W) : Ruint.Gen.sbb l r c = sbb W l r c := by
  unfold Ruint.Gen.sbb Ruint.Gen.dw_low Ruint.Gen.dw_high sbb
  rs_norm
  unfold W at *
  refine Prod.ext ?_ ?_ <;> simp only <;> omega

theorem adc_step_eq (n : ℕ) (rhs l : List ℕ) (c i : ℕ) :
    Ruint.Gen.adc_n_step1 rhs n (l, c, i) =
      if i < n then
        ((l.set i (Ruint.Gen.adc (l.getD i 0) (rhs.getD i 0) c).1,
          (Ruint.Gen.adc (l.getD i 0) (rhs.getD i 0) c).2, Rs.wadd 64 i 1), true)
      else ((l, c, i), false) := by
  unfold Ruint.Gen.adc_n_step1
  simp only [decide_eq_true_eq]

/-- the generated index loop of `adc_n` computes the model's chain, limb for limb. -/
theorem adc_loop_eq : ∀ (as bs p rhsP : List ℕ) (c f n : ℕ),
    as.length ≤ bs.length → p.length = rhsP.length → p.length + as.length = n → n < 2 ^ 64 → as.length < f →
    AllLt as → AllLt bs → c < W →
    ∃ r, adcN W as bs c = some r ∧
      Rs.loop (Ruint.Gen.adc_n_step1 (rhsP ++ bs) n) f (p ++ as, c, p.length) = (p ++ r.1, r.2, n) := by
  intro as
  induction as with
  | nil =>
    intro bs p rhsP c f n hl hp hn _ hf _ _ _
    obtain ⟨f, rfl⟩ : ∃ g, f = g + 1 := ⟨f - 1, by simp at hf; omega⟩
    simp only [List.length_nil, Nat.add_zero] at hn
    refine ⟨([], c), by cases bs <;> rfl, ?_⟩
    rw [loop_succ, adc_step_eq]
    simp [hn]
  | cons a as ih =>
    intro bs p rhsP c f n hl hp hn hn64 hf hwa hwb hc
    cases bs with
    | nil => simp at hl
    | cons b bs =>
      obtain ⟨f, rfl⟩ : ∃ g, f = g + 1 := ⟨f - 1, by simp at hf; omega⟩
      simp only [List.length_cons] at hl hn hf
      have hi : p.length < n := by omega
      have ha : a < W := hwa.head
      have hb : b < W := hwb.head
      have e := adc_eq a b c ha hb hc
      obtain ⟨_, _, hc'⟩ := GenCore.adc_spec a b c ha hb hc
      rw [e] at hc'
      obtain ⟨r, hr, hloop⟩ := ih bs (p ++ [(adc W a b c).1]) (rhsP ++ [b]) (adc W a b c).2 f n
        (by omega) (by simp [hp]) (by simp; omega) hn64 (by omega) hwa.tail hwb.tail hc'
      refine ⟨((adc W a b c).1 :: r.1, r.2), by simp only [adcN, hr], ?_⟩
      rw [loop_succ, adc_step_eq]
      have g1 : (p ++ a :: as).getD p.length 0 = a := by simp
      have g2 : (rhsP ++ b :: bs).getD p.length 0 = b := by rw [hp]; simp
      have g3 : ∀ x, (p ++ a :: as).set p.length x = (p ++ [x]) ++ as := by intro x; simp
      have g4 : ∀ x : ℕ, Rs.wadd 64 p.length 1 = (p ++ [x]).length := by
        intro x; unfold Rs.wadd; rw [Nat.mod_eq_of_lt (by omega)]; simp
      simp only [hi, if_true, g1, g2, g3, e, g4 (adc W a b c).1]
      simp only [List.append_assoc, List.singleton_append] at hloop ⊢
      rw [hloop]

/-- **`adc_n` as generated from the source** equals the C15 model on word slices with `|lhs| ≤ |rhs|`. -/
theorem adc_n_eq (lhs rhs : List ℕ) (c : ℕ) (hl : lhs.length ≤ rhs.length) (hn : lhs.length < 2 ^ 64)
    (hwl : AllLt lhs) (hwr : AllLt rhs) (hc : c < W) :
    adcN W lhs rhs c = some (Ruint.Gen.adc_n (lhs.length + 1) lhs rhs c) := by
  obtain ⟨r, hr, hloop⟩ := adc_loop_eq lhs rhs [] [] c (lhs.length + 1) lhs.length hl rfl (by simp) hn (by omega)
    hwl hwr hc
  simp only [List.nil_append, List.length_nil] at hloop
  unfold Ruint.Gen.adc_n
  simp only [hloop, hr]

theorem sbb_step_eq (n : ℕ) (rhs l : List ℕ) (c i : ℕ) :
    Ruint.Gen.sbb_n_step1 rhs n (l, c, i) =
      if i < n then
        ((l.set i (Ruint.Gen.sbb (l.getD i 0) (rhs.getD i 0) c).1,
          (Ruint.Gen.sbb (l.getD i 0) (rhs.getD i 0) c).2, Rs.wadd 64 i 1), true)
      else ((l, c, i), false) := by
  unfold Ruint.Gen.sbb_n_step1
  simp only [decide_eq_true_eq]

/-- the generated index loop of `sbb_n` computes the model's chain, limb for limb. -/
theorem sbb_loop_eq : ∀ (as bs p rhsP : List ℕ) (c f n : ℕ),
    as.length ≤ bs.length → p.length = rhsP.length → p.length + as.length = n → n < 2 ^ 64 → as.length < f →
    AllLt as → AllLt bs → c < W →
    ∃ r, sbbN W as bs c = some r ∧
      Rs.loop (Ruint.Gen.sbb_n_step1 (rhsP ++ bs) n) f (p ++ as, c, p.length) = (p ++ r.1, r.2, n) := by
  intro as
  induction as with
  | nil =>
    intro bs p rhsP c f n hl hp hn _ hf _ _ _
    obtain ⟨f, rfl⟩ : ∃ g, f = g + 1 := ⟨f - 1, by simp at hf; omega⟩
    simp only [List.length_nil, Nat.add_zero] at hn
    refine ⟨([], c), by cases bs <;> rfl, ?_⟩
    rw [loop_succ, sbb_step_eq]
    simp [hn]
  | cons a as ih =>
    intro bs p rhsP c f n hl hp hn hn64 hf hwa hwb hc
    cases bs with
    | nil => simp at hl
    | cons b bs =>
      obtain ⟨f, rfl⟩ : ∃ g, f = g + 1 := ⟨f - 1, by simp at hf; omega⟩
      simp only [List.length_cons] at hl hn hf
      have hi : p.length < n := by omega
      have ha : a < W := hwa.head
      have hb : b < W := hwb.head
      have e := sbb_eq a b c ha hb hc
      obtain ⟨_, _, hc'⟩ := GenCore.sbb_spec a b c ha hb hc
      rw [e] at hc'
      obtain ⟨r, hr, hloop⟩ := ih bs (p ++ [(sbb W a b c).1]) (rhsP ++ [b]) (sbb W a b c).2 f n
        (by omega) (by simp [hp]) (by simp; omega) hn64 (by omega) hwa.tail hwb.tail hc'
      refine ⟨((sbb W a b c).1 :: r.1, r.2), by simp only [sbbN, hr], ?_⟩
      rw [loop_succ, sbb_step_eq]
      have g1 : (p ++ a :: as).getD p.length 0 = a := by simp
      have g2 : (rhsP ++ b :: bs).getD p.length 0 = b := by rw [hp]; simp
      have g3 : ∀ x, (p ++ a :: as).set p.length x = (p ++ [x]) ++ as := by intro x; simp
      have g4 : ∀ x : ℕ, Rs.wadd 64 p.length 1 = (p ++ [x]).length := by
        intro x; unfold Rs.wadd; rw [Nat.mod_eq_of_lt (by omega)]; simp
      simp only [hi, if_true, g1, g2, g3, e, g4 (sbb W a b c).1]
      simp only [List.append_assoc, List.singleton_append] at hloop ⊢
      rw [hloop]

/-- **`sbb_n` as generated from the source** equals the C15 model on word slices with `|lhs| ≤ |rhs|`. -/
theorem sbb_n_eq (lhs rhs : List ℕ) (c : ℕ) (hl : lhs.length ≤ rhs.length) (hn : lhs.length < 2 ^ 64)
    (hwl : AllLt lhs) (hwr : AllLt rhs) (hc : c < W) :
    sbbN W lhs rhs c = some (Ruint.Gen.sbb_n (lhs.length + 1) lhs rhs c) := by
  obtain ⟨r, hr, hloop⟩ := sbb_loop_eq lhs rhs [] [] c (lhs.length + 1) lhs.length hl rfl (by simp) hn (by omega)
    hwl hwr hc
  simp only [List.nil_append, List.length_nil] at hloop
  unfold Ruint.Gen.sbb_n
  simp only [hloop, hr]

end Ruint.GenKernels
