import Ruint.Model.Shift
import Ruint.Lemmas.Bits

/-! Lemmas for C05: the two limb loops of `overflowing_shl` / `overflowing_shr` (value equation +
    carry), the whole functions (value, exact lost-bit flag, canonical result). -/
namespace Ruint.Shift
open Ruint Ruint.Bits

/-! ## arithmetic helpers -/

theorem W_split (b : ℕ) (hb : b < 64) : W = 2 ^ b * 2 ^ (64 - b) := by
  rw [← pow_add]; unfold W; congr 1; omega

theorem pow_s_split (s : ℕ) : 2 ^ s = W ^ (s / 64) * 2 ^ (s % 64) := by
  unfold W; rw [← pow_mul, ← pow_add]; congr 1; omega

/-- `(x >> (64 - b - 1)) >> 1 = x / 2^(64-b)`. -/
theorem shl_carry_eq (x b : ℕ) (hb : b < 64) : x / 2 ^ (64 - b - 1) / 2 = x / 2 ^ (64 - b) := by
  rw [Nat.div_div_eq_div_mul, ← pow_succ]; congr 2; omega

/-- `(x << b)` on a word keeps the low `64-b` bits: `(x·2^b) mod W = 2^b · (x mod 2^(64-b))`. -/
theorem shl_word_eq (x b : ℕ) (hb : b < 64) : (x * 2 ^ b) % W = 2 ^ b * (x % 2 ^ (64 - b)) := by
  rw [W_split b hb, Nat.mul_comm x, Nat.mul_mod_mul_left]

/-- `(x << (64 - b - 1)) << 1` with both shifts wrapping `= (x mod 2^b) · 2^(64-b)`. -/
theorem shr_carry_eq (x b : ℕ) (hb : b < 64) :
    ((x * 2 ^ (64 - b - 1)) % W * 2) % W = 2 ^ (64 - b) * (x % 2 ^ b) := by
  have h1 : ((x * 2 ^ (64 - b - 1)) % W * 2) % W = (x * 2 ^ (64 - b - 1) * 2) % W := by
    rw [Nat.mul_mod, Nat.mod_mod, ← Nat.mul_mod]
  have h2 : x * 2 ^ (64 - b - 1) * 2 = 2 ^ (64 - b) * x := by
    rw [Nat.mul_assoc, ← pow_succ, Nat.mul_comm]; congr 2; omega
  rw [h1, h2, W_split b hb, Nat.mul_comm (2 ^ b), Nat.mul_mod_mul_left]

theorem isNonzero_iff (l : List ℕ) : isNonzero l = true ↔ val l ≠ 0 := by
  rw [Ne, val_eq_zero_iff]
  unfold isNonzero
  simp only [List.any_eq_true, bne_iff_ne, ne_eq]
  constructor
  · rintro ⟨x, hx, hne⟩ h
    exact hne (h x hx)
  · intro h
    push Not at h
    exact h

/-- the value-level core shared by both flags: stored part `r`, lost part `c` above `W^n`. -/
theorem flag_value (bits n X r c : ℕ) (hn : 2 ^ bits ∣ W ^ n) (h : X = r + W ^ n * c) :
    r % 2 ^ bits = X % 2 ^ bits ∧ ((c ≠ 0 ∨ 2 ^ bits ≤ r) ↔ 2 ^ bits ≤ X) := by
  obtain ⟨k, hk⟩ := hn
  have hpos : 0 < 2 ^ bits := by positivity
  have hle : 2 ^ bits ≤ W ^ n := Nat.le_of_dvd (by have := W_pos; positivity) ⟨k, hk⟩
  constructor
  · rw [h, hk, Nat.mul_assoc, Nat.add_mul_mod_self_left]
  · constructor
    · rintro (hc | hr)
      · have : 1 ≤ c := Nat.one_le_iff_ne_zero.mpr hc
        have : W ^ n * 1 ≤ W ^ n * c := Nat.mul_le_mul_left _ this
        omega
      · omega
    · intro hX
      by_cases hc : c = 0
      · right; subst hc; omega
      · left; exact hc

/-! ## the `overflowing_shl` loop -/

theorem shlLoop_spec (b : ℕ) (hb : b < 64) (xs : List ℕ) (c : ℕ) (hx : AllLt xs) (hc : c < 2 ^ b) :
    val (shlLoop b xs c).1 + W ^ xs.length * (shlLoop b xs c).2 = val xs * 2 ^ b + c
    ∧ AllLt (shlLoop b xs c).1 ∧ (shlLoop b xs c).1.length = xs.length
    ∧ (shlLoop b xs c).2 < 2 ^ b := by
  induction xs generalizing c with
  | nil => simp [shlLoop, AllLt, hc]
  | cons x xs ih =>
    have hxW : x < W := hx.head
    have hWs := W_split b hb
    have hTpos : 0 < 2 ^ b := by positivity
    have hUpos : 0 < 2 ^ (64 - b) := by positivity
    have hq : x / 2 ^ (64 - b) < 2 ^ b := by
      apply Nat.div_lt_of_lt_mul; rw [Nat.mul_comm, ← hWs]; exact hxW
    obtain ⟨i1, i2, i3, i4⟩ := ih (x / 2 ^ (64 - b)) hx.tail hq
    simp only [shlLoop, shl_carry_eq x b hb, shl_word_eq x b hb, lor_eq_add b _ c hc]
    have hdm := Nat.div_add_mod x (2 ^ (64 - b))
    have hm := Nat.mod_lt x hUpos
    refine ⟨?_, ?_, by simp [i3], i4⟩
    · simp only [val_cons, List.length_cons, pow_succ]
      generalize shlLoop b xs (x / 2 ^ (64 - b)) = r at *
      generalize x / 2 ^ (64 - b) = d at *
      generalize x % 2 ^ (64 - b) = m at *
      generalize 2 ^ (64 - b) = U at *
      generalize 2 ^ b = T at *
      generalize W ^ xs.length = P at *
      subst hdm
      rw [hWs]
      nlinarith [i1]
    · apply AllLt.cons _ i2
      rw [hWs]
      generalize x % 2 ^ (64 - b) = m at *
      generalize 2 ^ (64 - b) = U at *
      generalize 2 ^ b = T at *
      nlinarith

/-! ## the `overflowing_shr` loop (kept limbs most significant first) -/

theorem shrLoop_spec (b : ℕ) (hb : b < 64) (xs : List ℕ) (q : ℕ) (hx : AllLt xs) (hq : q < 2 ^ b) :
    val (shrLoop b xs (2 ^ (64 - b) * q)).1.reverse * W + (shrLoop b xs (2 ^ (64 - b) * q)).2
      = (q * W ^ xs.length + val xs.reverse) * 2 ^ (64 - b)
    ∧ AllLt (shrLoop b xs (2 ^ (64 - b) * q)).1
    ∧ (shrLoop b xs (2 ^ (64 - b) * q)).1.length = xs.length
    ∧ (shrLoop b xs (2 ^ (64 - b) * q)).2 < W := by
  induction xs generalizing q with
  | nil =>
    have hWs := W_split b hb
    refine ⟨by simp [shrLoop, Nat.mul_comm], AllLt.nil, rfl, ?_⟩
    simp only [shrLoop]
    rw [hWs, Nat.mul_comm]
    exact Nat.mul_lt_mul_of_pos_right hq (by positivity)
  | cons x xs ih =>
    have hxW : x < W := hx.head
    have hWs := W_split b hb
    have hTpos : 0 < 2 ^ b := by positivity
    have hUpos : 0 < 2 ^ (64 - b) := by positivity
    have hd : x / 2 ^ b < 2 ^ (64 - b) := by
      apply Nat.div_lt_of_lt_mul; rw [← hWs]; exact hxW
    have hm := Nat.mod_lt x hTpos
    obtain ⟨i1, i2, i3, i4⟩ := ih (x % 2 ^ b) hx.tail hm
    have hr : x / 2 ^ b ||| 2 ^ (64 - b) * q = 2 ^ (64 - b) * q + x / 2 ^ b := by
      rw [Nat.or_comm]; exact lor_eq_add _ _ _ hd
    simp only [shrLoop, shr_carry_eq x b hb, hr]
    have hdm := Nat.div_add_mod x (2 ^ b)
    refine ⟨?_, ?_, by simp [i3], i4⟩
    · simp only [List.reverse_cons, val_append_single, List.length_reverse, List.length_cons, i3,
        pow_succ]
      generalize shrLoop b xs (2 ^ (64 - b) * (x % 2 ^ b)) = r at *
      generalize val xs.reverse = N at *
      generalize val r.1.reverse = R at *
      generalize x / 2 ^ b = d at *
      generalize x % 2 ^ b = m at *
      generalize 2 ^ (64 - b) = U at *
      generalize 2 ^ b = T at *
      generalize W ^ xs.length = P at *
      subst hdm
      rw [hWs] at i1 ⊢
      nlinarith [i1]
    · apply AllLt.cons _ i2
      rw [hWs]
      generalize x / 2 ^ b = d at *
      generalize 2 ^ (64 - b) = U at *
      generalize 2 ^ b = T at *
      nlinarith


theorem add_mul_ne_zero (c T v : ℕ) (hT : 0 < T) : c + T * v ≠ 0 ↔ c ≠ 0 ∨ v ≠ 0 := by
  constructor
  · intro h
    by_contra hc
    push Not at hc
    rw [hc.1, hc.2] at h; simp at h
  · rintro (h | h)
    · omega
    · have : 0 < T * v := Nat.mul_pos hT (Nat.pos_of_ne_zero h)
      omega

theorem overflowingShl_spec (bits : ℕ) (a : List ℕ) (s : ℕ) (hlen : a.length = nlimbs bits)
    (ha : AllLt a) :
    Canon bits (overflowingShl bits a s).1
    ∧ val (overflowingShl bits a s).1 = val a * 2 ^ s % 2 ^ bits
    ∧ ((overflowingShl bits a s).2 = true ↔ 2 ^ bits ≤ val a * 2 ^ s) := by
  unfold overflowingShl
  by_cases hL : s / 64 ≥ nlimbs bits
  · simp only [hL, if_true]
    have hs : bits ≤ s := by unfold nlimbs at hL; omega
    obtain ⟨k, hk⟩ : 2 ^ bits ∣ 2 ^ s := pow_dvd_pow 2 hs
    have hle : 2 ^ bits ≤ 2 ^ s := Nat.pow_le_pow_right (by norm_num) hs
    refine ⟨(zero_canon bits).1, ?_, ?_⟩
    · rw [(zero_canon bits).2, hk, ← Nat.mul_assoc, Nat.mul_comm (val a), Nat.mul_assoc,
        Nat.mul_mod_right]
    · rw [isNonzero_iff]
      constructor
      · intro h
        have h1 : 1 ≤ val a := Nat.one_le_iff_ne_zero.mpr h
        calc 2 ^ bits ≤ 1 * 2 ^ s := by omega
          _ ≤ val a * 2 ^ s := Nat.mul_le_mul_right _ h1
      · intro h hz
        rw [hz, Nat.zero_mul] at h
        have : 0 < 2 ^ bits := by positivity
        omega
  · simp only [hL, if_false]
    have hLn : s / 64 < nlimbs bits := by omega
    have hpos : 0 < bits := by unfold nlimbs at hLn; omega
    have hb : s % 64 < 64 := Nat.mod_lt _ (by norm_num)
    have hm : nlimbs bits - s / 64 ≤ a.length := by omega
    obtain ⟨l1, l2, l3, l4⟩ := shlLoop_spec (s % 64) hb (a.take (nlimbs bits - s / 64)) 0
      (allLt_take ha _) (by positivity)
    rw [List.length_take, Nat.min_eq_left hm] at l1 l3
    generalize shlLoop (s % 64) (a.take (nlimbs bits - s / 64)) 0 = r at *
    obtain ⟨rl, rc⟩ := r
    simp only at l1 l2 l3 l4 ⊢
    have hPlen : (List.replicate (s / 64) 0 ++ rl).length = nlimbs bits := by
      simp only [List.length_append, List.length_replicate, l3]; omega
    have hPall : AllLt (List.replicate (s / 64) 0 ++ rl) :=
      AllLt.append (allLt_replicate_zero _) l2
    have hPval : val (List.replicate (s / 64) 0 ++ rl) = W ^ (s / 64) * val rl := by
      rw [val_append, val_replicate_zero, List.length_replicate, Nat.zero_add]
    obtain ⟨m1, m2, m3⟩ := maskTop_spec bits hpos _ hPlen hPall
    have hsplit := take_drop_val a (nlimbs bits - s / 64) hm
    have hWn : W ^ nlimbs bits = W ^ (s / 64) * W ^ (nlimbs bits - s / 64) := by
      rw [← pow_add]; congr 1; omega
    have key : val a * 2 ^ s = val (List.replicate (s / 64) 0 ++ rl)
        + W ^ nlimbs bits * (rc + 2 ^ (s % 64) * val (a.drop (nlimbs bits - s / 64))) := by
      rw [hPval, hWn, pow_s_split s, hsplit]
      generalize val (a.take (nlimbs bits - s / 64)) = lo at *
      generalize val (a.drop (nlimbs bits - s / 64)) = hi at *
      generalize W ^ (s / 64) = P1 at *
      generalize W ^ (nlimbs bits - s / 64) = P2 at *
      generalize 2 ^ (s % 64) = T at *
      generalize val rl = r at *
      have h : P1 * (r + P2 * rc) = P1 * (lo * T + 0) := by rw [l1]
      linarith [h]
    obtain ⟨f1, f2⟩ := flag_value bits (nlimbs bits) _ _ _ (pow_dvd_W bits) key
    refine ⟨m1, by rw [m2, f1], ?_⟩
    rw [← f2, add_mul_ne_zero _ _ _ (by positivity)]
    simp only [Bool.or_eq_true, bne_iff_ne, ne_eq, decide_eq_true_eq, gt_iff_lt, m3]
    rw [isNonzero_iff]

theorem overflowingShr_spec (bits : ℕ) (a : List ℕ) (s : ℕ) (hlen : a.length = nlimbs bits)
    (ha : AllLt a) :
    (overflowingShr bits a s).1.length = nlimbs bits ∧ AllLt (overflowingShr bits a s).1
    ∧ val (overflowingShr bits a s).1 = val a / 2 ^ s
    ∧ ((overflowingShr bits a s).2 = true ↔ val a % 2 ^ s ≠ 0) := by
  unfold overflowingShr
  have hA := val_lt_pow a ha
  rw [hlen] at hA
  by_cases hL : s / 64 ≥ nlimbs bits
  · simp only [hL, if_true]
    have hle : W ^ nlimbs bits ≤ 2 ^ s := by
      unfold W; rw [← pow_mul]; exact Nat.pow_le_pow_right (by norm_num) (by omega)
    have hlt : val a < 2 ^ s := lt_of_lt_of_le hA hle
    refine ⟨(zero_canon bits).1.1, (zero_canon bits).1.2.1, ?_, ?_⟩
    · rw [(zero_canon bits).2, Nat.div_eq_of_lt hlt]
    · rw [isNonzero_iff, Nat.mod_eq_of_lt hlt]
  · simp only [hL, if_false]
    have hLn : s / 64 < nlimbs bits := by omega
    have hb : s % 64 < 64 := Nat.mod_lt _ (by norm_num)
    have hm : s / 64 ≤ a.length := by omega
    have hWs := W_split (s % 64) hb
    obtain ⟨l1, l2, l3, l4⟩ := shrLoop_spec (s % 64) hb (a.drop (s / 64)).reverse 0
      (allLt_reverse (allLt_drop ha _)) (by positivity)
    rw [Nat.mul_zero, List.reverse_reverse, Nat.zero_mul, Nat.zero_add, List.length_reverse,
      List.length_drop] at *
    generalize shrLoop (s % 64) (a.drop (s / 64)).reverse 0 = r at *
    obtain ⟨rl, rc⟩ := r
    simp only at l1 l2 l3 l4 ⊢
    have hsplit := take_drop_val a (s / 64) hm
    have hlo := val_lt_pow _ (allLt_take ha (s / 64))
    rw [List.length_take, Nat.min_eq_left hm] at hlo
    have hRval : val (rl.reverse ++ List.replicate (s / 64) 0) = val rl.reverse := by
      rw [val_append, val_replicate_zero, Nat.mul_zero, Nat.add_zero]
    have hTpos : 0 < 2 ^ (s % 64) := by positivity
    have hUpos : 0 < 2 ^ (64 - s % 64) := by positivity
    have hPpos : 0 < W ^ (s / 64) := by have := W_pos; positivity
    -- value of the kept part
    have hq : val rl.reverse = val (a.drop (s / 64)) / 2 ^ (s % 64)
        ∧ rc = 2 ^ (64 - s % 64) * (val (a.drop (s / 64)) % 2 ^ (s % 64)) := by
      have e := Nat.div_add_mod (val (a.drop (s / 64))) (2 ^ (s % 64))
      have hmlt := Nat.mod_lt (val (a.drop (s / 64))) hTpos
      generalize val (a.drop (s / 64)) = hi at *
      generalize hi / 2 ^ (s % 64) = d at *
      generalize hi % 2 ^ (s % 64) = m at *
      generalize val rl.reverse = R at *
      generalize 2 ^ (64 - s % 64) = U at *
      generalize 2 ^ (s % 64) = T at *
      subst e
      rw [hWs] at l1 l4
      -- R*(T*U) + rc = (T*d+m)*U, rc < T*U, m < T  ⇒  R = d, rc = U*m
      have h1 : R * (T * U) + rc = d * (T * U) + U * m := by rw [l1]; ring
      have h2 : U * m < T * U := by nlinarith
      have hR : R = d := by
        rcases Nat.lt_trichotomy R d with h | h | h
        · exfalso
          have : (R + 1) * (T * U) ≤ d * (T * U) := Nat.mul_le_mul_right _ h
          nlinarith
        · exact h
        · exfalso
          have : (d + 1) * (T * U) ≤ R * (T * U) := Nat.mul_le_mul_right _ h
          nlinarith
      subst hR
      exact ⟨rfl, by omega⟩
    refine ⟨?_, AllLt.append (allLt_reverse l2) (allLt_replicate_zero _), ?_, ?_⟩
    · simp only [List.length_append, List.length_reverse, List.length_replicate, l3]; omega
    · rw [hRval, hq.1, pow_s_split s, ← Nat.div_div_eq_div_mul, hsplit,
        Nat.add_mul_div_left _ _ hPpos, Nat.div_eq_of_lt hlo, Nat.zero_add]
    · simp only [Bool.or_eq_true, bne_iff_ne, ne_eq]
      rw [isNonzero_iff, pow_s_split s, Nat.mod_mul, hq.2, hsplit,
        Nat.add_mul_mod_self_left, Nat.mod_eq_of_lt hlo, Nat.add_mul_div_left _ _ hPpos,
        Nat.div_eq_of_lt hlo, Nat.zero_add]
      generalize val (a.take (s / 64)) = lo at *
      generalize val (a.drop (s / 64)) % 2 ^ (s % 64) = m at *
      constructor
      · rintro (h | h)
        · have : m ≠ 0 := by intro hm0; rw [hm0] at h; simp at h
          have : 0 < W ^ (s / 64) * m := Nat.mul_pos hPpos (Nat.pos_of_ne_zero this)
          omega
        · omega
      · intro h
        by_cases hm0 : m = 0
        · right; rw [hm0] at h; simpa using h
        · left
          have : 0 < 2 ^ (64 - s % 64) * m := Nat.mul_pos hUpos (Nat.pos_of_ne_zero hm0)
          omega

/-! ## rotation at the value level -/

/-- rotate the `bits`-wide word `A` left by `r ≤ bits`: low `bits-r` bits move up, top `r` bits wrap. -/
def rotlNat (bits A r : ℕ) : ℕ := 2 ^ r * (A % 2 ^ (bits - r)) + A / 2 ^ (bits - r)

theorem rotl_or (bits A r : ℕ) (hr : r ≤ bits) (hA : A < 2 ^ bits) :
    (A * 2 ^ r % 2 ^ bits ||| A / 2 ^ (bits - r)) = rotlNat bits A r
    ∧ rotlNat bits A r = (A * 2 ^ r + A / 2 ^ (bits - r)) % 2 ^ bits
    ∧ rotlNat bits A r < 2 ^ bits := by
  have hM : 2 ^ bits = 2 ^ r * 2 ^ (bits - r) := by rw [← pow_add]; congr 1; omega
  have hleft : A * 2 ^ r % 2 ^ bits = 2 ^ r * (A % 2 ^ (bits - r)) := by
    rw [hM, Nat.mul_comm A, Nat.mul_mod_mul_left]
  have hright : A / 2 ^ (bits - r) < 2 ^ r := by
    apply Nat.div_lt_of_lt_mul; rw [Nat.mul_comm, ← hM]; exact hA
  have hlo : A % 2 ^ (bits - r) < 2 ^ (bits - r) := Nat.mod_lt _ (by positivity)
  have hlt : rotlNat bits A r < 2 ^ bits := by
    unfold rotlNat
    rw [hM]
    generalize A % 2 ^ (bits - r) = lo at *
    generalize A / 2 ^ (bits - r) = hi at *
    generalize 2 ^ (bits - r) = U at *
    generalize 2 ^ r = T at *
    nlinarith
  refine ⟨?_, ?_, hlt⟩
  · rw [hleft, lor_eq_add _ _ _ hright]; rfl
  · rw [← Nat.mod_add_mod, hleft]
    exact (Nat.mod_eq_of_lt hlt).symm

/-- rotating left by `k` and then by `bits - k` is the identity. -/
theorem rotl_rotl_inv (bits A k : ℕ) (hk : k ≤ bits) (hA : A < 2 ^ bits) :
    rotlNat bits (rotlNat bits A k) (bits - k) = A := by
  have hM : 2 ^ bits = 2 ^ k * 2 ^ (bits - k) := by rw [← pow_add]; congr 1; omega
  have hhi : A / 2 ^ (bits - k) < 2 ^ k := by
    apply Nat.div_lt_of_lt_mul; rw [Nat.mul_comm, ← hM]; exact hA
  have hkk : bits - (bits - k) = k := by omega
  unfold rotlNat
  rw [hkk, Nat.mul_add_mod, Nat.mod_eq_of_lt hhi, Nat.mul_add_div (by positivity),
    Nat.div_eq_of_lt hhi, Nat.add_zero]
  exact Nat.div_add_mod _ _

/-! ## arithmetic shift right at the value level -/

theorem max_shl_val (bits k : ℕ) (hk : k ≤ bits) :
    (2 ^ bits - 1) * 2 ^ k % 2 ^ bits = 2 ^ k * (2 ^ (bits - k) - 1) := by
  have hM : 2 ^ bits = 2 ^ k * 2 ^ (bits - k) := by rw [← pow_add]; congr 1; omega
  have hU : 0 < 2 ^ (bits - k) := by positivity
  have hT : 0 < 2 ^ k := by positivity
  have h1 : 2 ^ k * (2 ^ (bits - k) - 1) < 2 ^ bits := by
    rw [hM]; exact Nat.mul_lt_mul_of_pos_left (by omega) hT
  have h2 : (2 ^ bits - 1) * 2 ^ k = 2 ^ k * (2 ^ (bits - k) - 1) + 2 ^ bits * (2 ^ k - 1) := by
    rw [hM]
    generalize 2 ^ (bits - k) = U at *
    generalize 2 ^ k = T at *
    obtain ⟨u, rfl⟩ : ∃ u, U = u + 1 := ⟨U - 1, by omega⟩
    obtain ⟨t, rfl⟩ : ∃ t, T = t + 1 := ⟨T - 1, by omega⟩
    simp only [Nat.add_sub_cancel]
    have : (t + 1) * (u + 1) - 1 = t * u + t + u := by
      have : (t + 1) * (u + 1) = t * u + t + u + 1 := by ring
      omega
    rw [this]; ring
  rw [h2, Nat.add_mul_mod_self_left, Nat.mod_eq_of_lt h1]

/-- bits of `2^k·(2^j − 1) + lo` for `lo < 2^k`. -/
theorem testBit_ones_add (k j lo i : ℕ) (hlo : lo < 2 ^ k) :
    (2 ^ k * (2 ^ j - 1) + lo).testBit i = if i < k then lo.testBit i else decide (i - k < j) := by
  rw [Nat.testBit_two_pow_mul_add _ hlo, Nat.testBit_two_pow_sub_one]

/-- bit `i` of the rotated word is bit `i − r (mod bits)` of the original: a cyclic permutation. -/
theorem rotlNat_testBit (bits A r i : ℕ) (hr : r ≤ bits) (hA : A < 2 ^ bits) (hi : i < bits) :
    (rotlNat bits A r).testBit i = A.testBit ((i + bits - r) % bits) := by
  have hM : 2 ^ bits = 2 ^ r * 2 ^ (bits - r) := by rw [← pow_add]; congr 1; omega
  have hhi : A / 2 ^ (bits - r) < 2 ^ r := by
    apply Nat.div_lt_of_lt_mul; rw [Nat.mul_comm, ← hM]; exact hA
  unfold rotlNat
  rw [Nat.testBit_two_pow_mul_add _ hhi]
  by_cases h : i < r
  · simp only [h, if_true, Nat.testBit_div_two_pow]
    congr 1
    rw [Nat.mod_eq_of_lt (by omega)]; omega
  · simp only [h, if_false, Nat.testBit_mod_two_pow]
    have h1 : i - r < bits - r := by omega
    have h2 : (i + bits - r) % bits = i - r := by
      have : i + bits - r = (i - r) + bits := by omega
      rw [this, Nat.add_mod_right, Nat.mod_eq_of_lt (by omega)]
    simp [h1, h2]

/-- value-level `arithmetic_shr`: logical shift, then the top `min s bits` bits are filled with the
    sign bit. -/
theorem ashr_or (bits A s : ℕ) (hA : A < 2 ^ bits) :
    (A / 2 ^ s ||| (2 ^ bits - 1) * 2 ^ (bits - s) % 2 ^ bits)
      = A / 2 ^ s + (2 ^ bits - 2 ^ (bits - s))
    ∧ A / 2 ^ s + (2 ^ bits - 2 ^ (bits - s)) < 2 ^ bits
    ∧ ∀ i, i < bits → (A / 2 ^ s + (2 ^ bits - 2 ^ (bits - s))).testBit i
        = if i + s < bits then A.testBit (i + s) else true := by
  have hk : bits - s ≤ bits := by omega
  have hM : 2 ^ bits = 2 ^ (bits - s) * 2 ^ (bits - (bits - s)) := by
    rw [← pow_add]; congr 1; omega
  have hlo : A / 2 ^ s < 2 ^ (bits - s) := by
    by_cases hs : s ≤ bits
    · apply Nat.div_lt_of_lt_mul
      rw [← pow_add]
      have : s + (bits - s) = bits := by omega
      rw [this]; exact hA
    · have : bits - s = 0 := by omega
      rw [this, pow_zero]
      have : A < 2 ^ s := lt_of_lt_of_le hA (Nat.pow_le_pow_right (by norm_num) (by omega))
      rw [Nat.div_eq_of_lt this]; norm_num
  have hT : 0 < 2 ^ (bits - s) := by positivity
  have hU : 0 < 2 ^ (bits - (bits - s)) := by positivity
  have hones : 2 ^ (bits - s) * (2 ^ (bits - (bits - s)) - 1) = 2 ^ bits - 2 ^ (bits - s) := by
    rw [Nat.mul_sub, Nat.mul_one, ← hM]
  have hle : 2 ^ (bits - s) ≤ 2 ^ bits := Nat.pow_le_pow_right (by norm_num) hk
  refine ⟨?_, by omega, ?_⟩
  · rw [max_shl_val bits (bits - s) hk, Nat.or_comm, lor_eq_add _ _ _ hlo, hones, Nat.add_comm]
  · intro i hi
    rw [Nat.add_comm, ← hones, testBit_ones_add _ _ _ _ hlo]
    by_cases h : i + s < bits
    · have : i < bits - s := by omega
      simp only [this, h, if_true, Nat.testBit_div_two_pow]
    · have h1 : ¬ i < bits - s := by omega
      have h2 : i - (bits - s) < bits - (bits - s) := by omega
      simp [h1, h, h2]

end Ruint.Shift
