import Ruint.Lemmas.GenRadixBE
import Ruint.Gen.WordsStr
import Ruint.Model.Radix

/-! `Uint::from_str_radix` as GENERATED from `src/string.rs` (`Ruint/Gen/WordsStr.lean`) equals the model
    `Ruint.Radix.fromStrRadix` of `Model/Radix.lean` (a `&str` is the list of its code points). -/
open Ruint Ruint.Radix
namespace Ruint.GenStr

/-- result of one un-latched iteration, by character class -/
def adv (it : ℕ) (ds : List ℕ) (n : ℕ) : CharClass → ℕ × Option (ℕ × ℕ × ℕ × ℕ) × List ℕ
  | .digit d => (it + 1, none, ds ++ [d])
  | .ignored => (it + 1, none, ds)
  | .bad => (it + 1, some (0, n, 0, 0), ds)

theorem ceq (c d : Char) : c = d ↔ c.toNat = d.toNat := Char.toNat_inj.symm

theorem wsub_eq (n k : ℕ) (h : k ≤ n) (hn : n < 2 ^ 64) : Rs.wsub 64 n k = n - k := by
  unfold Rs.wsub; omega

theorem wadd_eq (n k : ℕ) (hn : n + k < 2 ^ 64) : Rs.wadd 64 n k = n + k := by
  unfold Rs.wadd; omega

theorem step_none (B L : ℕ) (src : List ℕ) (radix bound it : ℕ) (ds : List ℕ) (c : Char)
    (hit : it < bound) (h64 : it + 1 < 2 ^ 64) (hc : src.getD it 0 = c.toNat) :
    Ruint.Gen.uint_from_str_radix_step1 B L src radix bound (it, none, ds)
      = (adv it ds c.toNat (classify radix c), true) := by
  unfold Ruint.Gen.uint_from_str_radix_step1
  simp only [hc, wadd_eq it 1 h64, hit, decide_true, if_true, Option.isSome_none, Bool.false_eq_true, if_false]
  unfold classify inRange
  simp only [ceq, show '0'.toNat = 48 from rfl, show '9'.toNat = 57 from rfl, show 'a'.toNat = 97 from rfl,
    show 'z'.toNat = 122 from rfl, show 'A'.toNat = 65 from rfl, show 'Z'.toNat = 90 from rfl,
    show '_'.toNat = 95 from rfl, show '+'.toNat = 43 from rfl, show '-'.toNat = 45 from rfl,
    show '/'.toNat = 47 from rfl, show ','.toNat = 44 from rfl, show '='.toNat = 61 from rfl,
    show '\r'.toNat = 13 from rfl, show '\n'.toNat = 10 from rfl]
  generalize c.toNat = n
  simp only [Bool.and_eq_true, decide_eq_true_eq, Bool.or_eq_true, beq_iff_eq]
  split_ifs with h1 h2 h3 h4 h5 h6 h7 h8 h9 h10 h11 h12 <;>
    simp only [adv, Prod.mk.injEq, and_true, true_and, List.append_cancel_left_eq, List.cons.injEq] <;>
    first | omega | (simp only [Rs.wsub, Rs.wadd]; omega)

theorem step_some (B L : ℕ) (src : List ℕ) (radix bound it : ℕ) (e : ℕ × ℕ × ℕ × ℕ) (ds : List ℕ)
    (hit : it < bound) (h64 : it + 1 < 2 ^ 64) :
    Ruint.Gen.uint_from_str_radix_step1 B L src radix bound (it, some e, ds) = ((it + 1, some e, ds), true) := by
  unfold Ruint.Gen.uint_from_str_radix_step1
  simp only [wadd_eq it 1 h64, hit, decide_true, if_true, Option.isSome_some]

theorem step_end (B L : ℕ) (src : List ℕ) (radix bound : ℕ) (st : ℕ × Option (ℕ × ℕ × ℕ × ℕ) × List ℕ)
    (hit : ¬ st.1 < bound) :
    Ruint.Gen.uint_from_str_radix_step1 B L src radix bound st = (st, false) := by
  unfold Ruint.Gen.uint_from_str_radix_step1
  simp only [hit, decide_false, Bool.false_eq_true, if_false]

theorem getD_mid (pre l : List Char) (c : Char) :
    ((pre ++ c :: l).map Char.toNat).getD pre.length 0 = c.toNat := by
  simp [List.getD_eq_getElem?_getD]

/-- once the latch is set the loop only advances the index -/
theorem loop_latched (B L radix : ℕ) (cs : List Char) (h64 : cs.length < 2 ^ 64) :
    ∀ (l pre : List Char) (e : ℕ × ℕ × ℕ × ℕ) (ds : List ℕ) (f : ℕ), pre ++ l = cs → l.length < f →
      Rs.loop (Ruint.Gen.uint_from_str_radix_step1 B L (cs.map Char.toNat) radix cs.length) f
        (pre.length, some e, ds) = (cs.length, some e, ds) := by
  intro l
  induction l with
  | nil =>
    intro pre e ds f hcs hf
    obtain ⟨f, rfl⟩ : ∃ k, f = k + 1 := ⟨f - 1, by simp at hf; omega⟩
    have hn : ¬ pre.length < cs.length := by rw [← hcs]; simp
    rw [GenRadixBE.loop_succ, step_end _ _ _ _ _ _ hn]
    have : pre.length = cs.length := by rw [← hcs]; simp
    simp [this]
  | cons c l ih =>
    intro pre e ds f hcs hf
    obtain ⟨f, rfl⟩ : ∃ k, f = k + 1 := ⟨f - 1, by simp at hf; omega⟩
    have hlen : cs.length = pre.length + (l.length + 1) := by rw [← hcs]; simp
    rw [GenRadixBE.loop_succ, step_some _ _ _ _ _ _ _ _ (by omega) (by omega)]
    simp only [if_true]
    have := ih (pre ++ [c]) e ds f (by rw [← hcs]; simp) (by simp at hf; omega)
    simpa using this

def encE : Option Char → Option (ℕ × ℕ × ℕ × ℕ)
  | none => none
  | some c => some (0, c.toNat, 0, 0)

theorem loop_scan (B L radix : ℕ) (cs : List Char) (h64 : cs.length < 2 ^ 64) :
    ∀ (l pre : List Char) (ds : List ℕ) (f : ℕ), pre ++ l = cs → l.length < f →
      Rs.loop (Ruint.Gen.uint_from_str_radix_step1 B L (cs.map Char.toNat) radix cs.length) f
        (pre.length, none, ds) = (cs.length, encE (scan radix l).2, ds ++ (scan radix l).1) := by
  intro l
  induction l with
  | nil =>
    intro pre ds f hcs hf
    obtain ⟨f, rfl⟩ : ∃ k, f = k + 1 := ⟨f - 1, by simp at hf; omega⟩
    have hn : ¬ pre.length < cs.length := by rw [← hcs]; simp
    rw [GenRadixBE.loop_succ, step_end _ _ _ _ _ _ hn]
    have : pre.length = cs.length := by rw [← hcs]; simp
    simp [this, scan, encE]
  | cons c l ih =>
    intro pre ds f hcs hf
    obtain ⟨f, rfl⟩ : ∃ k, f = k + 1 := ⟨f - 1, by simp at hf; omega⟩
    have hlen : cs.length = pre.length + (l.length + 1) := by rw [← hcs]; simp
    have hg : (cs.map Char.toNat).getD pre.length 0 = c.toNat := by rw [← hcs]; exact getD_mid pre l c
    have hcs' : (pre ++ [c]) ++ l = cs := by rw [← hcs]; simp
    have hf' : l.length < f := by simp at hf; omega
    rw [GenRadixBE.loop_succ, step_none _ _ _ _ _ _ _ c (by omega) (by omega) hg]
    simp only [if_true]
    cases hk : classify radix c with
    | digit d =>
      have := ih (pre ++ [c]) (ds ++ [d]) f hcs' hf'
      simp only [List.length_append, List.length_singleton] at this
      simp only [adv, scan, hk, this, List.append_assoc, List.singleton_append]
    | ignored =>
      have := ih (pre ++ [c]) ds f hcs' hf'
      simp only [List.length_append, List.length_singleton] at this
      simp only [adv, scan, hk, this]
    | bad =>
      have := loop_latched B L radix cs h64 l (pre ++ [c]) (0, c.toNat, 0, 0) ds f hcs' hf'
      simp only [List.length_append, List.length_singleton] at this
      simp only [adv, scan, hk, this, encE, List.append_nil]

theorem classify_lt (radix : ℕ) (c : Char) (d : ℕ) (h : classify radix c = .digit d) : d < 64 := by
  unfold classify inRange at h
  simp only [show '0'.toNat = 48 from rfl, show '9'.toNat = 57 from rfl, show 'a'.toNat = 97 from rfl,
    show 'z'.toNat = 122 from rfl, show 'A'.toNat = 65 from rfl, show 'Z'.toNat = 90 from rfl,
    Bool.and_eq_true, decide_eq_true_eq] at h
  split_ifs at h <;> (injection h with h; omega)

theorem scan_facts (radix : ℕ) : ∀ cs : List Char,
    Ruint.AllLt (scan radix cs).1 ∧ (scan radix cs).1.length ≤ cs.length := by
  intro cs
  induction cs with
  | nil => simp [scan, Ruint.AllLt]
  | cons c cs ih =>
    cases hk : classify radix c with
    | digit d =>
      have hd := classify_lt radix c d hk
      simp only [scan, hk, List.length_cons]
      refine ⟨?_, by omega⟩
      intro x hx
      rcases List.mem_cons.mp hx with rfl | hx
      · unfold W; omega
      · exact ih.1 x hx
    | ignored =>
      simp only [scan, hk, List.length_cons]
      exact ⟨ih.1, by omega⟩
    | bad => simp [scan, hk, Ruint.AllLt]

def toRes : Except (ℕ × ℕ × ℕ × ℕ) (List ℕ) → Except Ruint.Radix.ParseErr (List ℕ)
  | .ok l => .ok l
  | .error (0, c, _, _) => .error (.invalidChar (Char.ofNat c))
  | .error (1, r, _, _) => .error (.invalidRadix r)
  | .error (_, 0, _, _) => .error (.base .overflow)
  | .error (_, 1, b, _) => .error (.base (.invalidBase b))
  | .error (_, _, d, b) => .error (.base (.invalidDigit d b))

theorem from_str_radix_eq (bits radix : ℕ) (hN : nlimbs bits < 2 ^ 64) (hr : radix < 2 ^ 64) (cs : List Char)
    (hl : cs.length < 2 ^ 64) (f : ℕ) (hf : nlimbs bits + cs.length + 1 < f) :
    toRes (Ruint.Gen.uint_from_str_radix f bits (nlimbs bits) (cs.map Char.toNat) radix)
      = Ruint.Radix.fromStrRadix bits radix cs := by
  unfold Ruint.Gen.uint_from_str_radix Ruint.Radix.fromStrRadix
  by_cases h64 : radix > 64
  · simp [h64, toRes]
  · have hloop := loop_scan bits (nlimbs bits) radix cs hl cs [] [] f rfl (by omega)
    obtain ⟨hA, hL⟩ := scan_facts radix cs
    simp only [List.length_nil, List.nil_append] at hloop
    simp only [h64, decide_false, Bool.false_eq_true, if_false, List.length_map, hloop]
    rw [GenRadixBE.from_base_be_eq bits radix _ hN hr hA (by omega) f (by omega)]
    cases hB : fromBaseBE bits radix (scan radix cs).1 with
    | error e => cases e <;> simp [GenRadixBE.mapErr, GenRadixBE.errT, toRes]
    | ok v =>
      cases hE : (scan radix cs).2 with
      | none => simp [GenRadixBE.mapErr, toRes, encE]
      | some c => simp [GenRadixBE.mapErr, toRes, encE, Char.ofNat_toNat]

/-! ## `FromStr::from_str` -/

theorem utf8Size_eq (c : Char) : Rs.utf8Size c.toNat = c.utf8Size := by
  unfold Rs.utf8Size Char.utf8Size
  simp only [Char.toNat, UInt32.le_iff_toNat_le, UInt32.toNat_ofNatLT]
  split_ifs <;> omega

theorem isCB_eq : ∀ (cs : List Char) (k : ℕ), Rs.isCharBoundary (cs.map Char.toNat) k = isCharBoundary cs k
  | _, 0 => by cases ‹List Char› <;> simp [Rs.isCharBoundary, isCharBoundary]
  | [], _ + 1 => by simp [Rs.isCharBoundary, isCharBoundary]
  | c :: cs, k + 1 => by
    simp only [List.map_cons, Rs.isCharBoundary, isCharBoundary, utf8Size_eq]
    rw [isCB_eq cs]

theorem split_eq : ∀ (cs : List Char) (k : ℕ), Rs.splitAtByte (cs.map Char.toNat) k
      = ((splitAtByte cs k).1.map Char.toNat, (splitAtByte cs k).2.map Char.toNat)
  | _, 0 => by cases ‹List Char› <;> simp [Rs.splitAtByte, splitAtByte]
  | [], _ + 1 => by simp [Rs.splitAtByte, splitAtByte]
  | c :: cs, k + 1 => by
    simp only [List.map_cons, Rs.splitAtByte, splitAtByte, utf8Size_eq]
    rw [split_eq cs]
    split_ifs <;> simp

theorem split_len : ∀ (cs : List Char) (k : ℕ), (splitAtByte cs k).2.length ≤ cs.length
  | _, 0 => by cases ‹List Char› <;> simp [splitAtByte]
  | [], _ + 1 => by simp [splitAtByte]
  | c :: cs, k + 1 => by
    simp only [splitAtByte]
    have := split_len cs (k + 1 - c.utf8Size)
    split_ifs <;> first | (simp; done) | (simp; omega)

theorem map_beq (l m : List Char) : (l.map Char.toNat == m.map Char.toNat) = decide (l = m) := by
  rw [Bool.eq_iff_iff]
  simp only [beq_iff_eq, decide_eq_true_eq]
  exact List.map_inj_right (fun x y h => Char.toNat_inj.mp h)

theorem from_str_eq (bits : ℕ) (hN : nlimbs bits < 2 ^ 64) (cs : List Char) (hl : cs.length < 2 ^ 64) (f : ℕ)
    (hf : nlimbs bits + cs.length + 1 < f) :
    toRes (Ruint.Gen.uint_from_str f bits (nlimbs bits) (cs.map Char.toNat)) = Ruint.Radix.fromStr bits cs := by
  unfold Ruint.Gen.uint_from_str Ruint.Radix.fromStr
  have hs := split_len cs 2
  have R : ∀ (r : ℕ) (l : List Char), r < 2 ^ 64 → l.length ≤ cs.length →
      toRes (Ruint.Gen.uint_from_str_radix f bits (nlimbs bits) (l.map Char.toNat) r) = fromStrRadix bits r l :=
    fun r l hr hll => from_str_radix_eq bits r hN hr l (by omega) f (by omega)
  simp only [isCB_eq, split_eq,
    show ([48, 120] : List ℕ) = ['0', 'x'].map Char.toNat from rfl,
    show ([48, 88] : List ℕ) = ['0', 'X'].map Char.toNat from rfl,
    show ([48, 111] : List ℕ) = ['0', 'o'].map Char.toNat from rfl,
    show ([48, 79] : List ℕ) = ['0', 'O'].map Char.toNat from rfl,
    show ([48, 98] : List ℕ) = ['0', 'b'].map Char.toNat from rfl,
    show ([48, 66] : List ℕ) = ['0', 'B'].map Char.toNat from rfl, map_beq,
    Bool.or_eq_true, decide_eq_true_eq]
  generalize splitAtByte cs 2 = p at hs ⊢
  obtain ⟨pfx, rest⟩ := p
  dsimp only at hs ⊢
  split_ifs <;> dsimp only <;> apply R <;> omega
end Ruint.GenStr
