import Ruint.Model.Pow
import Mathlib.Tactic.Ring
import Mathlib.Tactic.Linarith
import Mathlib.Tactic.NormNum
import Mathlib.Tactic.Positivity
import Mathlib.Tactic.Push

/-!
# Lemmas for `Model/Pow.lean` (C13): square-and-multiply with two overflow flags

Re-homed from the design probe `notes/probes/overflowing_pow_probe.lean`; the statements are about the
functions the driver executes (`Ruint.Pow.loop`, `wloop`, `overflowingPow`, …).

Invariant of `loop` (`A`, `R` = the *true*, unreduced running base and result, both `≥ 1`):
`base = A mod m`, `result = R mod m`, `overflow = (m ≤ R)`, `base_overflow = (m ≤ A)`.
-/
namespace Ruint.Pow

theorem flag_mul (m R A : ℕ) (hR : 1 ≤ R) (hA : 1 ≤ A) :
    (decide (m ≤ R) || decide (m ≤ R % m * (A % m)) || decide (m ≤ A)) = decide (m ≤ R * A) := by
  by_cases h1 : m ≤ R
  · have : m ≤ R * A := le_trans h1 (Nat.le_mul_of_pos_right _ hA)
    simp [h1, this]
  · by_cases h2 : m ≤ A
    · have : m ≤ R * A := le_trans h2 (Nat.le_mul_of_pos_left _ hR)
      simp [h2, this]
    · push Not at h1 h2
      rw [Nat.mod_eq_of_lt h1, Nat.mod_eq_of_lt h2]
      have e1 : decide (m ≤ R) = false := by simp [h1]
      have e2 : decide (m ≤ A) = false := by simp [h2]
      rw [e1, e2]; simp

theorem loop_spec (m : ℕ) (fuel : ℕ) :
    ∀ (A e R : ℕ), e < fuel → 1 ≤ R → 1 ≤ A →
      loop m fuel (A % m) e (R % m) (decide (m ≤ R)) (decide (m ≤ A))
        = ((R * A ^ e) % m, decide (m ≤ R * A ^ e)) := by
  induction fuel with
  | zero => intro A e R h; omega
  | succ fuel ih =>
    intro A e R hfuel hR hA
    unfold loop
    by_cases he : e = 0
    · simp [he]
    · simp only [he, if_false]
      have he2 : e / 2 < fuel := by omega
      have hAA : 1 ≤ A * A := Nat.mul_pos hA hA
      have hsq : (A % m) * (A % m) % m = (A * A) % m := by rw [← Nat.mul_mod]
      have hbov : (decide (m ≤ A) || decide (m ≤ A % m * (A % m))) = decide (m ≤ A * A) := by
        by_cases h2 : m ≤ A
        · have : m ≤ A * A := le_trans h2 (Nat.le_mul_of_pos_left _ hA)
          simp [h2, this]
        · push Not at h2
          rw [Nat.mod_eq_of_lt h2]; simp [h2]
      by_cases hodd : e % 2 = 1
      · simp only [hodd, if_true, omul]
        have hRA : (R % m) * (A % m) % m = (R * A) % m := by rw [← Nat.mul_mod]
        rw [hRA, hsq, flag_mul m R A hR hA, hbov]
        have := ih (A * A) (e / 2) (R * A) he2 (Nat.mul_pos hR hA) hAA
        rw [this]
        have hpow : R * A * (A * A) ^ (e / 2) = R * A ^ e := by
          have : e = 2 * (e / 2) + 1 := by omega
          conv_rhs => rw [this, pow_succ, pow_mul]
          ring
        rw [hpow]
      · have heven : e % 2 = 0 := by omega
        simp only [hodd, if_false, omul]
        rw [hsq, hbov]
        have := ih (A * A) (e / 2) R he2 hR hAA
        rw [this]
        have hpow : R * (A * A) ^ (e / 2) = R * A ^ e := by
          have : e = 2 * (e / 2) := by omega
          conv_rhs => rw [this, pow_mul]
          ring
        rw [hpow]

/-- base 0 -/
theorem loop_zero (m : ℕ) (hm : 2 ≤ m) (fuel : ℕ) :
    ∀ (e R : ℕ), e < fuel → R < m →
      loop m fuel 0 e R false false = (if e = 0 then R else 0, false) := by
  induction fuel with
  | zero => intro e R h; omega
  | succ fuel ih =>
    intro e R hfuel hR
    unfold loop
    by_cases he : e = 0
    · simp [he]
    · simp only [he, if_false]
      have he2 : e / 2 < fuel := by omega
      have hmpos : 0 < m := by omega
      by_cases hodd : e % 2 = 1
      · simp only [hodd, if_true, omul, Nat.mul_zero, Nat.zero_mod]
        have hnm : ¬ (m ≤ 0) := by omega
        simp only [hnm, decide_false, Bool.or_false]
        rw [ih (e / 2) 0 he2 hmpos]
        by_cases h0 : e / 2 = 0 <;> simp [h0]
      · simp only [hodd, if_false, omul, Nat.mul_zero, Nat.zero_mod]
        have hnm : ¬ (m ≤ 0) := by omega
        simp only [hnm, decide_false, Bool.or_false]
        rw [ih (e / 2) R he2 hR]
        have : e / 2 ≠ 0 := by omega
        simp [this]

/-- the loop started as `overflowing_pow` starts it: value `a^e mod m`, flag `m ≤ a^e` (incl. `0^0 = 1`). -/
theorem opow_loop_spec (m a e : ℕ) (hm : 2 ≤ m) (ha : a < m) :
    loop m (e + 1) a e 1 false false = (a ^ e % m, decide (m ≤ a ^ e)) := by
  rcases Nat.eq_zero_or_pos a with h0 | hpos
  · subst h0
    rw [loop_zero m hm (e + 1) e 1 (by omega) (by omega)]
    by_cases he : e = 0
    · subst he
      have h1 : (1:ℕ) % m = 1 := Nat.mod_eq_of_lt (by omega)
      have h2 : ¬ (m ≤ 1) := by omega
      simp [h1, h2]
    · have h0 : (0:ℕ) ^ e = 0 := Nat.zero_pow (by omega)
      have h2 : ¬ (m ≤ 0) := by omega
      simp [he, h0, h2]
  · have := loop_spec m (e + 1) a e 1 (by omega) (by omega) hpos
    have h1 : decide (m ≤ 1) = false := by simp; omega
    have h2 : decide (m ≤ a) = false := by simp; omega
    rw [h1, h2, Nat.mod_eq_of_lt ha, Nat.mod_eq_of_lt (by omega : 1 < m)] at this
    rw [this, Nat.one_mul]

theorem two_le_two_pow (bits : ℕ) (h : 0 < bits) : 2 ≤ 2 ^ bits := by
  calc 2 = 2 ^ 1 := rfl
    _ ≤ 2 ^ bits := Nat.pow_le_pow_right (by omega) h

/-- `overflowing_pow` at a non-empty width. -/
theorem overflowingPow_eq (bits a e : ℕ) (hb : 0 < bits) (ha : a < 2 ^ bits) :
    overflowingPow bits a e = (a ^ e % 2 ^ bits, decide (2 ^ bits ≤ a ^ e)) := by
  unfold overflowingPow
  rw [if_neg (by omega)]
  exact opow_loop_spec _ a e (two_le_two_pow bits hb) ha

/-- the `wrapping_pow` loop. -/
theorem wloop_spec (m : ℕ) (fuel : ℕ) :
    ∀ (A e R : ℕ), e < fuel → wloop m fuel (A % m) e (R % m) = (R * A ^ e) % m := by
  induction fuel with
  | zero => intro A e R h; omega
  | succ fuel ih =>
    intro A e R hfuel
    unfold wloop
    by_cases he : e = 0
    · simp [he]
    · simp only [he, if_false]
      have he2 : e / 2 < fuel := by omega
      have hsq : (A % m) * (A % m) % m = (A * A) % m := by rw [← Nat.mul_mod]
      by_cases hodd : e % 2 = 1
      · simp only [hodd, if_true]
        have hRA : (R % m) * (A % m) % m = (R * A) % m := by rw [← Nat.mul_mod]
        rw [hRA, hsq, ih (A * A) (e / 2) (R * A) he2]
        have hpow : R * A * (A * A) ^ (e / 2) = R * A ^ e := by
          have : e = 2 * (e / 2) + 1 := by omega
          conv_rhs => rw [this, pow_succ, pow_mul]
          ring
        rw [hpow]
      · have heven : e % 2 = 0 := by omega
        simp only [hodd, if_false]
        rw [hsq, ih (A * A) (e / 2) R he2]
        have hpow : R * (A * A) ^ (e / 2) = R * A ^ e := by
          have : e = 2 * (e / 2) := by omega
          conv_rhs => rw [this, pow_mul]
          ring
        rw [hpow]

/-- `wrapping_pow` at every width (at `bits = 0` the only value is `0 = a^e mod 1`). -/
theorem wrappingPow_eq (bits a e : ℕ) (ha : a < 2 ^ bits) :
    wrappingPow bits a e = a ^ e % 2 ^ bits := by
  unfold wrappingPow
  by_cases hb : bits = 0
  · subst hb
    simp at ha
    simp [ha, Nat.mod_one]
  · rw [if_neg hb]
    have hm := two_le_two_pow bits (by omega)
    have := wloop_spec (2 ^ bits) (e + 1) a e 1 (by omega)
    rw [Nat.mod_eq_of_lt ha, Nat.mod_eq_of_lt (by omega : 1 < 2 ^ bits), Nat.one_mul] at this
    exact this

/-- `checked_pow` at a non-empty width. -/
theorem checkedPow_eq (bits a e : ℕ) (hb : 0 < bits) (ha : a < 2 ^ bits) :
    checkedPow bits a e = if a ^ e < 2 ^ bits then some (a ^ e) else none := by
  unfold checkedPow
  rw [overflowingPow_eq bits a e hb ha]
  by_cases h : a ^ e < 2 ^ bits
  · have h' : ¬ (2 ^ bits ≤ a ^ e) := by omega
    simp [h, h', Nat.mod_eq_of_lt h]
  · have h' : 2 ^ bits ≤ a ^ e := by omega
    simp [h, h']

/-! ### `approx_pow2` on integer exponents -/

theorem pow_lt_pow_iff_two (a b : ℕ) : 2 ^ a < 2 ^ b ↔ a < b :=
  Nat.pow_lt_pow_iff_right (by omega)

/-- `approx_pow2` on a positive integer exponent `n`: exactly `2^n`, `None` iff it does not fit. -/
theorem approxPow2Post_pow (bits n : ℕ) (hn : 1 ≤ n) :
    approxPow2Post bits (2 ^ 63) n = if n < bits then some (2 ^ n) else none := by
  unfold approxPow2Post
  by_cases h63 : n ≥ 63
  · rw [if_pos h63]
    have hv : 2 ^ 63 * 2 ^ (n - 63) = 2 ^ n := by rw [← pow_add]; congr 1; omega
    simp only [hv, pow_lt_pow_iff_two]
    by_cases h : n < bits
    · simp [h, show 63 < bits by omega]
    · simp [h]
  · rw [if_neg h63]
    have h1 : 2 ^ 63 / 2 ^ (63 - n) = 2 ^ n := by
      rw [Nat.pow_div (by omega) (by omega)]; congr 1; omega
    have h2 : 2 ^ 63 / 2 ^ (63 - n - 1) = 2 ^ (n + 1) := by
      rw [Nat.pow_div (by omega) (by omega)]; congr 1; omega
    have h3 : 2 ^ (n + 1) % 2 = 0 := by rw [pow_succ]; omega
    simp only [h1, h2, h3, Nat.add_zero, pow_lt_pow_iff_two]

theorem approxPow2Int_eq (bits : ℕ) (n : ℤ) :
    approxPow2Int bits n =
      if n ≤ -2 then some 0
      else if n ≤ 0 then (if bits = 0 then none else some 1)
      else if n < (bits : ℤ) then some (2 ^ n.toNat) else none := by
  unfold approxPow2Int
  by_cases h0 : n ≤ 0
  · rw [if_pos h0]
    by_cases h2 : n ≤ -2
    · rw [if_pos (by omega), if_pos h2]
    · rw [if_neg (by omega), if_neg h2, if_pos h0]
      by_cases hb : bits = 0
      · subst hb; simp
      · have : 1 < 2 ^ bits := Nat.one_lt_two_pow hb
        rw [if_pos this, if_neg hb]
  · rw [if_neg h0]
    have hn2 : ¬ n ≤ -2 := by omega
    rw [if_neg hn2, if_neg h0]
    by_cases hgt : n > (bits : ℤ)
    · rw [if_pos hgt, if_neg (by omega)]
    · rw [if_neg hgt]
      obtain ⟨k, hk⟩ : ∃ k : ℕ, n = k := ⟨n.toNat, by omega⟩
      subst hk
      simp only [Int.toNat_natCast]
      rw [approxPow2Post_pow bits k (by omega)]
      simp only [Nat.cast_lt]

/-- the round-to-nearest right shift of `approx_pow2`: `(b >> s) + ((b >> (s-1)) & 1) = ⌊(b + 2^(s-1)) / 2^s⌋`
    (round half up), for `s ≥ 1`. -/
theorem round_shift (b s : ℕ) (hs : 1 ≤ s) :
    b / 2 ^ s + (b / 2 ^ (s - 1)) % 2 = (b + 2 ^ (s - 1)) / 2 ^ s := by
  obtain ⟨t, rfl⟩ : ∃ t, s = t + 1 := ⟨s - 1, by omega⟩
  simp only [Nat.add_sub_cancel]
  have hp : 2 ^ (t + 1) = 2 ^ t * 2 := pow_succ 2 t
  have hpos : 0 < 2 ^ t := by positivity
  obtain ⟨q, hq⟩ : ∃ q, q = b / 2 ^ t := ⟨_, rfl⟩
  have h1 : b / 2 ^ (t + 1) = q / 2 := by rw [hp, hq, Nat.div_div_eq_div_mul]
  have h2 : (b + 2 ^ t) / 2 ^ (t + 1) = (q + 1) / 2 := by
    rw [hp, ← Nat.div_div_eq_div_mul, Nat.add_div_right b hpos, ← hq]
  rw [h1, h2, ← hq]
  omega

/-- `approxPow2Post` is: exact `mant·2^(shift−63)` for `shift ≥ 63`, round-half-up of `mant / 2^(63−shift)`
    below, `None` iff the value does not fit. -/
theorem approxPow2Post_eq (bits mant shift : ℕ) :
    approxPow2Post bits mant shift =
      (let v := if shift ≥ 63 then mant * 2 ^ (shift - 63)
                else (mant + 2 ^ (63 - shift - 1)) / 2 ^ (63 - shift)
       if v < 2 ^ bits then some v else none) := by
  unfold approxPow2Post
  by_cases h : shift ≥ 63
  · simp only [h, if_true]
    by_cases hm : mant < 2 ^ bits
    · rw [if_pos hm]
    · rw [if_neg hm]
      have : ¬ (mant * 2 ^ (shift - 63) < 2 ^ bits) := by
        have : mant ≤ mant * 2 ^ (shift - 63) := Nat.le_mul_of_pos_right _ (by positivity)
        omega
      simp [this]
  · simp only [h, if_false]
    rw [round_shift mant (63 - shift) (by omega)]

end Ruint.Pow
