import Ruint.Model.BitsRev
import Ruint.Lemmas.Shift

/-! Lemmas for the C06 functions built on shifts: `reverse_bits`, `checked_next_power_of_two`. -/
namespace Ruint.Bits
open Ruint Ruint.Shift

/-- `reverse_bits`: canonical, and bit `i` of the result is bit `bits−1−i` of the argument. -/
theorem reverseBits_spec (bits : ℕ) (a : List ℕ) (ha : Canon bits a) :
    Canon bits (reverseBits bits a)
    ∧ ∀ i, (val (reverseBits bits a)).testBit i
        = (decide (i < bits) && (val a).testBit (bits - 1 - i)) := by
  obtain ⟨r1, r2⟩ := val_reverse_map_rev64 a ha.2.1
  have hlen : (a.reverse.map rev64).length = nlimbs bits := by simp [ha.1]
  rw [ha.1] at r2
  have hbits : ∀ i, (val (reverseBits bits a)).testBit i
      = (decide (i < bits) && (val a).testBit (bits - 1 - i)) := by
    intro i
    unfold reverseBits
    by_cases hm : bits % 64 ≠ 0
    · rw [if_pos hm]
      obtain ⟨_, _, s3, _⟩ := overflowingShr_spec bits _ (64 - bits % 64) hlen r1
      unfold shrInt wrappingShr
      rw [s3, Nat.testBit_div_two_pow, r2]
      have hn : 64 * nlimbs bits = bits + (64 - bits % 64) := by unfold nlimbs; omega
      by_cases hi : i < bits
      · have h1 : i + (64 - bits % 64) < 64 * nlimbs bits := by omega
        have h2 : 64 * nlimbs bits - 1 - (i + (64 - bits % 64)) = bits - 1 - i := by omega
        simp [h1, h2, hi]
      · have h1 : ¬ i + (64 - bits % 64) < 64 * nlimbs bits := by omega
        simp [h1, hi]
    · rw [if_neg hm]
      have hn : 64 * nlimbs bits = bits := by unfold nlimbs; omega
      rw [r2, hn]
  refine ⟨⟨?_, ?_, ?_⟩, hbits⟩
  · unfold reverseBits
    split
    · exact (overflowingShr_spec bits _ (64 - bits % 64) hlen r1).1
    · exact hlen
  · unfold reverseBits
    split
    · exact (overflowingShr_spec bits _ (64 - bits % 64) hlen r1).2.1
    · exact r1
  · apply lt_two_pow_of_testBit
    intro j hj
    rw [hbits j]
    have : ¬ j < bits := by omega
    simp [this]

theorem bitLen_spec (bits : ℕ) (a : List ℕ) (ha : Canon bits a) : bitLen bits a = size (val a) := by
  unfold bitLen
  rw [leadingZeros_spec bits a ha]
  have := size_le (val a) bits ha.val_lt
  omega

theorem one_canon (bits : ℕ) (hpos : 0 < bits) : Canon bits (one bits) ∧ val (one bits) = 1 := by
  have h2 : 1 < 2 ^ bits := Nat.one_lt_two_pow (by omega)
  unfold one
  rw [Nat.mod_eq_of_lt h2]
  exact ⟨canon_toLimbs bits 1 h2, val_toLimbs_of_lt bits 1 h2⟩

/-- `checked_next_power_of_two`: with `2^k` the least power of two `≥ a`, the result is
    `Some(2^k)` when it fits (`k < bits`) and `None` otherwise. -/
theorem checkedNextPowerOfTwo_spec (bits : ℕ) (a : List ℕ) (ha : Canon bits a) (k : ℕ)
    (hk1 : val a ≤ 2 ^ k) (hk2 : ∀ j, val a ≤ 2 ^ j → k ≤ j) :
    (k < bits → ∃ r, checkedNextPowerOfTwo bits a = some r ∧ Canon bits r ∧ val r = 2 ^ k)
    ∧ (bits ≤ k → checkedNextPowerOfTwo bits a = none) := by
  unfold checkedNextPowerOfTwo
  have hA := ha.val_lt
  by_cases hp : isPowerOfTwo a = true
  · simp only [hp, if_true]
    obtain ⟨k0, hk0⟩ := (isPowerOfTwo_spec a ha.2.1).mp hp
    have e1 : k ≤ k0 := hk2 k0 (by rw [hk0])
    have e2 : k0 ≤ k := by
      rw [hk0] at hk1
      exact (Nat.pow_le_pow_iff_right (by norm_num)).mp hk1
    have e : k0 = k := by omega
    subst e
    have hlt : k0 < bits := by
      rw [hk0] at hA
      exact (Nat.pow_lt_pow_iff_right (by norm_num)).mp hA
    exact ⟨fun _ => ⟨a, rfl, ha, hk0⟩, fun h => by omega⟩
  · simp only [hp, Bool.false_eq_true, if_false]
    rw [bitLen_spec bits a ha]
    have hnp : ¬ ∃ j, val a = 2 ^ j := fun h => hp ((isPowerOfTwo_spec a ha.2.1).mpr h)
    have hkL : k = size (val a) := by
      by_cases h0 : val a = 0
      · rw [h0, size_zero]
        have := hk2 0 (by rw [h0]; norm_num)
        omega
      · obtain ⟨b1, b2⟩ := size_bounds (val a)
        have b2 := b2 h0
        have c1 : k ≤ size (val a) := hk2 _ (Nat.le_of_lt b1)
        by_contra hne
        have hlt : k ≤ size (val a) - 1 := by omega
        have : 2 ^ k ≤ 2 ^ (size (val a) - 1) := Nat.pow_le_pow_right (by norm_num) hlt
        exact hnp ⟨k, by omega⟩
    rw [← hkL]
    by_cases hge : k ≥ bits
    · rw [if_pos hge]
      exact ⟨fun h => by omega, fun _ => rfl⟩
    · rw [if_neg hge]
      have hpos : 0 < bits := by omega
      obtain ⟨o1, o2⟩ := one_canon bits hpos
      obtain ⟨s1, s2, s3, _⟩ := overflowingShl_spec bits (one bits) k o1.1 o1.2.1
      refine ⟨fun _ => ⟨_, rfl, ?_, ?_⟩, fun h => absurd h (by omega)⟩
      · exact s1
      · unfold shlInt wrappingShl
        rw [s2, o2, Nat.one_mul]
        exact Nat.mod_eq_of_lt (Nat.pow_lt_pow_right (by norm_num) (by omega))

/-- the least power of two `≥ A` exists (so the hypotheses of the theorem above are satisfiable for
    every value). -/
theorem exists_least_pow (A : ℕ) : ∃ k, A ≤ 2 ^ k ∧ ∀ j, A ≤ 2 ^ j → k ≤ j := by
  have hex : ∃ k, A ≤ 2 ^ k := ⟨A, Nat.le_of_lt Nat.lt_two_pow_self⟩
  exact ⟨Nat.find hex, Nat.find_spec hex, fun j hj => Nat.find_min' hex hj⟩

end Ruint.Bits
