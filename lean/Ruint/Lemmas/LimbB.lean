import Ruint.Lemmas.Basic

/-! Generic-base list toolkit for the limb kernels (`valB B`, `AllLtB B`), and the bridge to
    `val`/`AllLt` at `B = W`. -/
namespace Ruint

/-- all digits below the base -/
def AllLtB (B : ℕ) (l : List ℕ) : Prop := ∀ x ∈ l, x < B

@[simp] theorem valB_nil (B : ℕ) : valB B [] = 0 := rfl
@[simp] theorem valB_cons (B x : ℕ) (xs : List ℕ) : valB B (x :: xs) = x + B * valB B xs := rfl

/-- bridge: at the limb base the generic value is `val`. -/
theorem valB_W (l : List ℕ) : valB W l = val l := by
  induction l with
  | nil => rfl
  | cons x xs ih => simp [ih]

theorem allLtB_W (l : List ℕ) : AllLtB W l ↔ AllLt l := Iff.rfl

theorem two_le_W : 2 ≤ W := by unfold W; norm_num

namespace AllLtB
variable {B : ℕ}
theorem nil : AllLtB B [] := fun _ h => by simp at h
theorem head {x : ℕ} {xs : List ℕ} (h : AllLtB B (x :: xs)) : x < B := h x (by simp)
theorem tail {x : ℕ} {xs : List ℕ} (h : AllLtB B (x :: xs)) : AllLtB B xs :=
  fun y hy => h y (by simp [hy])
theorem cons {x : ℕ} {xs : List ℕ} (hx : x < B) (h : AllLtB B xs) : AllLtB B (x :: xs) := by
  intro y hy
  simp only [List.mem_cons] at hy
  rcases hy with rfl | hy
  · exact hx
  · exact h y hy
theorem append {l m : List ℕ} (hl : AllLtB B l) (hm : AllLtB B m) : AllLtB B (l ++ m) := by
  intro y hy
  simp only [List.mem_append] at hy
  rcases hy with h | h
  · exact hl y h
  · exact hm y h
theorem left {l m : List ℕ} (h : AllLtB B (l ++ m)) : AllLtB B l := fun y hy => h y (by simp [hy])
theorem right {l m : List ℕ} (h : AllLtB B (l ++ m)) : AllLtB B m := fun y hy => h y (by simp [hy])
theorem take {l : List ℕ} (h : AllLtB B l) (m : ℕ) : AllLtB B (l.take m) :=
  fun y hy => h y (List.mem_of_mem_take hy)
theorem drop {l : List ℕ} (h : AllLtB B l) (m : ℕ) : AllLtB B (l.drop m) :=
  fun y hy => h y (List.mem_of_mem_drop hy)
end AllLtB

theorem valB_lt_pow (B : ℕ) (l : List ℕ) (h : AllLtB B l) : valB B l < B ^ l.length := by
  induction l with
  | nil => simp
  | cons x xs ih =>
    have hx : x < B := h.head
    have hxs := ih h.tail
    simp only [valB_cons, List.length_cons, pow_succ]
    nlinarith [Nat.zero_le (valB B xs)]

theorem valB_append (B : ℕ) (l1 l2 : List ℕ) :
    valB B (l1 ++ l2) = valB B l1 + B ^ l1.length * valB B l2 := by
  induction l1 with
  | nil => simp
  | cons x xs ih => simp only [List.cons_append, valB_cons, ih, List.length_cons, pow_succ]; ring

theorem valB_replicate_zero (B k : ℕ) : valB B (List.replicate k 0) = 0 := by
  induction k with
  | zero => rfl
  | succ k ih => simp [List.replicate_succ, ih]

/-- `take m` / `drop m` of a digit list are `% B^m` and `/ B^m` of its value. -/
theorem valB_take_drop (B : ℕ) (l : List ℕ) (m : ℕ) (h : AllLtB B l) (hm : m ≤ l.length) :
    valB B (l.take m) = valB B l % B ^ m ∧ valB B (l.drop m) = valB B l / B ^ m := by
  have e : valB B l = valB B (l.take m) + B ^ m * valB B (l.drop m) := by
    conv_lhs => rw [← List.take_append_drop m l]
    rw [valB_append, List.length_take, Nat.min_eq_left hm]
  have hlt : valB B (l.take m) < B ^ m := by
    have := valB_lt_pow B (l.take m) (h.take m)
    rwa [List.length_take, Nat.min_eq_left hm] at this
  constructor
  · rw [e, Nat.add_mul_mod_self_left, Nat.mod_eq_of_lt hlt]
  · rw [e]
    have hp : 0 < B ^ m := by
      rcases Nat.eq_zero_or_pos (B ^ m) with h0 | h0
      · rw [h0] at hlt; omega
      · exact h0
    rw [Nat.add_mul_div_left _ _ hp, Nat.div_eq_of_lt hlt, Nat.zero_add]

/-- equal-length digit lists with equal value are equal. -/
theorem valB_inj (B : ℕ) : ∀ (l m : List ℕ), l.length = m.length → AllLtB B l → AllLtB B m →
    valB B l = valB B m → l = m
  | [], [], _, _, _, _ => rfl
  | [], _ :: _, h, _, _, _ => by simp at h
  | _ :: _, [], h, _, _, _ => by simp at h
  | x :: xs, y :: ys, h, hl, hm, hv => by
    simp only [List.length_cons, Nat.add_right_cancel_iff] at h
    simp only [valB_cons] at hv
    have hx := hl.head
    have hy := hm.head
    have hB : 0 < B := by omega
    have h1 : x = y := by
      have := congrArg (· % B) hv
      simp only [Nat.add_mul_mod_self_left] at this
      rwa [Nat.mod_eq_of_lt hx, Nat.mod_eq_of_lt hy] at this
    subst h1
    have h2 : valB B xs = valB B ys := by
      have : B * valB B xs = B * valB B ys := by omega
      exact Nat.eq_of_mul_eq_mul_left hB this
    rw [valB_inj B xs ys h hl.tail hm.tail h2]

/-- the digits of a value pin the list: a digit list of length `n` with value `v % B^n`. -/
theorem valB_unique (B : ℕ) (l m : List ℕ) (hlen : l.length = m.length) (hl : AllLtB B l)
    (hm : AllLtB B m) (k k' : ℕ) (h : valB B l + B ^ l.length * k = valB B m + B ^ m.length * k') :
    l = m ∧ k = k' := by
  have h1 := valB_lt_pow B l hl
  have h2 := valB_lt_pow B m hm
  rw [← hlen] at h h2
  have hp : 0 < B ^ l.length := by omega
  have e1 : valB B l = valB B m := by
    have := congrArg (· % B ^ l.length) h
    simp only [Nat.add_mul_mod_self_left] at this
    rwa [Nat.mod_eq_of_lt h1, Nat.mod_eq_of_lt h2] at this
  refine ⟨valB_inj B l m hlen hl hm e1, ?_⟩
  rw [e1] at h
  have : B ^ l.length * k = B ^ l.length * k' := by omega
  exact Nat.eq_of_mul_eq_mul_left hp this

end Ruint
