import Ruint.Model.Modular
import Ruint.Lemmas.Basic

/-! Lemmas for `Model/Modular.lean`, part 1: `reduce_mod`, `add_mod`, `mul_mod`, `pow_mod`. -/
namespace Ruint.Modular
open Ruint

theorem reduceMod_spec (a m : ℕ) : reduceMod a m = if m = 0 then 0 else a % m := by
  unfold reduceMod
  by_cases hm : m = 0
  · simp [hm]
  · simp only [hm, if_false]
    by_cases h : a ≥ m
    · simp [h]
    · simp only [h, if_false]; exact (Nat.mod_eq_of_lt (by omega)).symm

theorem reduceMod_lt (a m : ℕ) (hm : 0 < m) : reduceMod a m < m := by
  rw [reduceMod_spec]; simp only [show m ≠ 0 by omega, if_false]; exact Nat.mod_lt _ hm

theorem wsub_of_le (bits x y : ℕ) (hx : x < 2 ^ bits) (hyx : y ≤ x) : wsub bits x y = x - y := by
  unfold wsub
  have hy : y < 2 ^ bits := by omega
  rw [Nat.mod_eq_of_lt hy]
  have : x + 2 ^ bits - y = (x - y) + 2 ^ bits := by omega
  rw [this, Nat.add_mod_right, Nat.mod_eq_of_lt (by omega)]

/-- `add_mod`: reduced operands, the carry out of `BITS`, one conditional subtraction. -/
theorem addMod_spec (bits a b m : ℕ) (hm : m < 2 ^ bits) :
    addMod bits a b m = if m = 0 then 0 else (a + b) % m := by
  have hP : 0 < 2 ^ bits := by positivity
  unfold addMod
  by_cases hm0 : m = 0
  · subst hm0
    simp [reduceMod, wsub, Nat.mod_eq_of_lt hP]
  · have hmpos : 0 < m := by omega
    simp only [hm0, if_false]
    have hl := reduceMod_lt a m hmpos
    have hr := reduceMod_lt b m hmpos
    have hsum : (reduceMod a m + reduceMod b m) % m = (a + b) % m := by
      rw [reduceMod_spec, reduceMod_spec]; simp only [hm0, if_false]; exact (Nat.add_mod a b m).symm
    generalize reduceMod a m = l at *
    generalize reduceMod b m = r at *
    by_cases hov : 2 ^ bits ≤ l + r
    · -- the sum carried out of BITS
      have e1 : (l + r) % 2 ^ bits = l + r - 2 ^ bits := by
        rw [Nat.mod_eq_sub_mod hov, Nat.mod_eq_of_lt (by omega)]
      simp only [hov, decide_true, Bool.true_or, if_true, e1]
      unfold wsub
      rw [Nat.mod_eq_of_lt hm]
      have : l + r - 2 ^ bits + 2 ^ bits - m = l + r - m := by omega
      rw [this, Nat.mod_eq_of_lt (by omega), ← hsum, Nat.mod_eq_sub_mod (by omega), Nat.mod_eq_of_lt (by omega)]
    · have e1 : (l + r) % 2 ^ bits = l + r := Nat.mod_eq_of_lt (by omega)
      simp only [hov, decide_false, Bool.false_or, e1]
      by_cases hge : l + r ≥ m
      · simp only [hge, decide_true, if_true]
        rw [wsub_of_le bits (l + r) m (by omega) hge, ← hsum, Nat.mod_eq_sub_mod hge,
          Nat.mod_eq_of_lt (by omega)]
      · simp only [hge, decide_false, Bool.false_eq_true, if_false]
        rw [← hsum, Nat.mod_eq_of_lt (by omega)]

theorem mul_fits (bits a b : ℕ) (ha : a < 2 ^ bits) (hb : b < 2 ^ bits) : a * b < W ^ nlimbs (2 * bits) := by
  have h1 : a * b < 2 ^ bits * 2 ^ bits := Nat.mul_lt_mul'' ha hb
  have h2 : 2 ^ bits * 2 ^ bits = 2 ^ (2 * bits) := by rw [← pow_add]; congr 1; omega
  have h3 := two_pow_le_W (2 * bits)
  omega

/-- `mul_mod`: the `nlimbs(2·BITS)`-limb product buffer holds the full product (`debug_assert!(!overflow)`
    holds) and the result is `(a·b) mod m`. -/
theorem mulMod_spec (bits a b m : ℕ) (ha : a < 2 ^ bits) (hb : b < 2 ^ bits) :
    mulMod bits a b m = (if m = 0 then 0 else (a * b) % m) ∧ mulModOverflow bits a b = false := by
  have hf := mul_fits bits a b ha hb
  unfold mulMod mulModOverflow
  refine ⟨?_, by simp; exact hf⟩
  by_cases hm0 : m = 0
  · simp [hm0]
  · simp only [hm0, if_false, Nat.mod_eq_of_lt hf]

theorem mulMod_lt (bits a b m : ℕ) (hm : 0 < m) : mulMod bits a b m < m := by
  unfold mulMod; simp only [show m ≠ 0 by omega, if_false]; exact Nat.mod_lt _ hm

/-- the square-and-multiply loop. -/
theorem powModLoop_spec (bits m : ℕ) (hm2 : 2 ≤ m) (hm : m < 2 ^ bits) (fuel base exp result : ℕ)
    (hbase : base < 2 ^ bits) (hres : result < m) (hexp : exp < 2 ^ fuel) :
    powModLoop bits m fuel base exp result = (result * base ^ exp) % m := by
  have hm0 : m ≠ 0 := by omega
  induction fuel generalizing base exp result with
  | zero =>
    have : exp = 0 := by simpa using hexp
    subst this
    simp [powModLoop, Nat.mod_eq_of_lt hres]
  | succ fuel ih =>
    unfold powModLoop
    by_cases he : exp > 0
    · simp only [he, if_true]
      have hb2 := (mulMod_spec bits base base m hbase hbase).1
      simp only [hm0, if_false] at hb2
      have hbase' : mulMod bits base base m < 2 ^ bits := lt_trans (mulMod_lt bits base base m (by omega)) hm
      have hexp' : exp / 2 < 2 ^ fuel := by
        rw [pow_succ] at hexp; omega
      have hdm := Nat.div_add_mod exp 2
      by_cases hodd : exp % 2 = 1
      · simp only [hodd, if_true]
        have hr2 := (mulMod_spec bits result base m (by omega) hbase).1
        simp only [hm0, if_false] at hr2
        rw [ih _ _ _ hbase' (mulMod_lt bits result base m (by omega)) hexp', hr2, hb2]
        have e : exp = 2 * (exp / 2) + 1 := by omega
        conv_rhs => rw [e, pow_succ, pow_mul]
        rw [Nat.mul_mod, Nat.mod_mod, Nat.pow_mod (base * base % m), Nat.mod_mod, ← Nat.pow_mod, ← Nat.mul_mod,
          pow_two]
        congr 1; ring
      · simp only [hodd, if_false]
        rw [ih _ _ _ hbase' hres hexp', hb2]
        have e : exp = 2 * (exp / 2) := by omega
        conv_rhs => rw [e, pow_mul]
        rw [Nat.mul_mod, Nat.pow_mod (base * base % m), Nat.mod_mod, ← Nat.pow_mod, ← Nat.mul_mod, pow_two]
    · have : exp = 0 := by omega
      subst this
      simp [Nat.mod_eq_of_lt hres]

/-- `pow_mod = a^e mod m` (and `0` for `m = 0`; `m = 1` gives `0 = a^e mod 1`). -/
theorem powMod_spec (bits a e m : ℕ) (ha : a < 2 ^ bits) (he : e < 2 ^ bits) (hm : m < 2 ^ bits) :
    powMod bits a e m = if m = 0 then 0 else a ^ e % m := by
  unfold powMod
  by_cases h : bits = 0 ∨ m ≤ 1
  · simp only [h, if_true]
    rcases h with h | h
    · subst h
      have : m = 0 := by simpa using hm
      simp [this]
    · rcases Nat.eq_zero_or_pos m with h0 | h0
      · simp [h0]
      · have : m = 1 := by omega
        subst this; simp [Nat.mod_one]
  · simp only [h, if_false]
    push Not at h
    have hm0 : m ≠ 0 := by omega
    simp only [hm0, if_false]
    rw [powModLoop_spec bits m (by omega) hm bits a e 1 ha (by omega) he, Nat.one_mul]

end Ruint.Modular
