import Ruint.Lemmas.Modular
import Ruint.Lemmas.GcdExt
import Ruint.Lemmas.LehmerFrom

/-!
# Lemmas for `Model/Modular.lean`, part 2: `inv_mod`

`inv_mod`'s loop is the `gcd_extended` loop of `Model/Gcd.lean` with the `s0, s1` cofactor pair dropped
(`xLoop_proj`), so the signed-cofactor invariant of `Lemmas/GcdExt.lean` (re-homed there from the design probes
`inv_mod_signed_cofactor_full_proof.lean` / `gcd_extended_signed_cofactor_full_proof.lean`: sign alternation =
`even` flag, `|t0|·b + |t1|·a = modulus`, exact Bezout identity, magnitudes bounded by the inputs) and the
refinement from the wrapped `Uint` arithmetic to ℤ (`loop_refine`) apply verbatim. The matrix oracle is the model of
`LehmerMatrix::from`, which meets its contract (`Ruint.Lehmer.matFrom_contract`, C12). What is added here is the
exit: `a = gcd`, the sign patch `if even { modulus + t0 } else { t0 }` is the canonical inverse in `[0, modulus)`.
-/
namespace Ruint.Modular
open Ruint Ruint.Lehmer Ruint.Gcd Ruint.GcdExt

/-- forget the `s` cofactors. -/
def proj (x : XSt) : InvSt := { a := x.a, b := x.b, t0 := x.t0, t1 := x.t1, even := x.even }

/-- whether `Matrix::apply` panics depends on the matrix and the width only. -/
theorem apply_none_indep (bits : ℕ) (m : Mat) (a b c d : ℕ) (h : Lehmer.apply bits m a b = none) :
    Lehmer.apply bits m c d = none := by
  unfold Lehmer.apply at h ⊢
  by_cases hb : bits = 0
  · simp [hb] at h
  · simp only [hb, if_false] at h ⊢
    by_cases hbig : 2 ^ bits ≤ m.1 ∨ 2 ^ bits ≤ m.2.1 ∨ 2 ^ bits ≤ m.2.2.1 ∨ 2 ^ bits ≤ m.2.2.2.1
    · simp only [hbig, if_true]
    · simp only [hbig, if_false] at h
      split at h <;> simp at h

theorem xStep_proj (bits : ℕ) (m : Mat) (x : XSt) :
    (xStep bits m x).map proj = invStep bits m (proj x) := by
  unfold xStep invStep proj
  by_cases hid : m = ident
  · simp only [hid, if_true, Option.map_some]
  · simp only [hid, if_false]
    cases h1 : Lehmer.apply bits m x.a x.b with
    | none =>
      simp only [apply_none_indep bits m _ _ x.t0 x.t1 h1, apply_none_indep bits m _ _ x.s0 x.s1 h1,
        Option.map_none]
    | some p1 =>
      cases h3 : Lehmer.apply bits m x.t0 x.t1 with
      | none =>
        have := apply_none_indep bits m _ _ x.a x.b h3
        rw [h1] at this; simp at this
      | some p3 =>
        cases h2 : Lehmer.apply bits m x.s0 x.s1 with
        | none =>
          have := apply_none_indep bits m _ _ x.a x.b h2
          rw [h1] at this; simp at this
        | some p2 =>
          obtain ⟨a', b'⟩ := p1
          obtain ⟨s0', s1'⟩ := p2
          obtain ⟨t0', t1'⟩ := p3
          simp only [Option.map_some]

theorem xLoop_proj (bits f : ℕ) (x : XSt) :
    (xLoop bits f x).map proj = invLoop bits f (proj x) := by
  induction f generalizing x with
  | zero => simp [xLoop, invLoop]
  | succ f ih =>
    simp only [xLoop, invLoop]
    have hb : (proj x).b = x.b := rfl
    have ha : (proj x).a = x.a := rfl
    rw [hb, ha]
    by_cases h0 : x.b = 0
    · simp only [h0, if_true, Option.map_some]
    · simp only [h0, if_false]
      cases hm : matFrom x.a x.b with
      | none => simp
      | some m =>
        simp only
        have hs := xStep_proj bits m x
        cases hx : xStep bits m x with
        | none => rw [hx] at hs; simp only [Option.map_none] at hs; simp [← hs]
        | some x' =>
          rw [hx] at hs; simp only [Option.map_some] at hs
          simp only [← hs]
          exact ih x'

/-- `x ≡ 1 (mod m)` over ℤ, back on ℕ. -/
theorem nat_mod_one_of_int (x m : ℕ) (k : ℤ) (hm : 1 < m) (h : (x : ℤ) = 1 + m * k) : x % m = 1 := by
  have h1 : (x : ℤ) % m = 1 := by
    rw [h, Int.add_mul_emod_self_left]
    exact Int.emod_eq_of_lt (by norm_num) (by exact_mod_cast hm)
  exact_mod_cast h1

set_option maxHeartbeats 1000000 in
/-- **`inv_mod`**: no panic; `Some(x)` exactly when `m ≥ 2 ∧ gcd(num, m) = 1`, and then `x < m`, `num·x ≡ 1 (mod m)`;
    `None` otherwise (incl. `m = 0`, `m = 1`, `num ≡ 0`). Operands need not be reduced. -/
theorem invMod_spec (bits num m : ℕ) (hnum : num < 2 ^ bits) (hm : m < 2 ^ bits) :
    ∃ r, invMod bits num m = some r
      ∧ (r = none ↔ ¬ (2 ≤ m ∧ Nat.gcd num m = 1))
      ∧ (∀ x, r = some x → x < m ∧ (num * x) % m = 1) := by
  unfold invMod
  by_cases h0 : bits = 0 ∨ m = 0
  · simp only [h0, if_true]
    refine ⟨none, rfl, ?_, by simp⟩
    have : m = 0 := by
      rcases h0 with h | h
      · subst h; simpa using hm
      · exact h
    simp [this]
  · simp only [h0, if_false]
    push Not at h0
    obtain ⟨hbits, hm0⟩ := h0
    have hbdef : (if num ≥ m then num % m else num) = num % m := by
      by_cases h : num ≥ m
      · simp [h]
      · simp only [h, if_false]; exact (Nat.mod_eq_of_lt (by omega)).symm
    rw [hbdef]
    obtain ⟨b, hb⟩ : ∃ b, b = num % m := ⟨_, rfl⟩
    rw [← hb]
    have hbm : b < m := by rw [hb]; exact Nat.mod_lt _ (by omega)
    have hgcd : Nat.gcd num m = Nat.gcd m b := by
      rw [hb, Nat.gcd_comm num m, Nat.gcd_rec m num, Nat.gcd_comm]
    by_cases hb0 : b = 0
    · simp only [hb0, if_true]
      refine ⟨none, rfl, ?_, by simp⟩
      simp only [true_iff, not_and]
      intro h2
      rw [hgcd, hb0, Nat.gcd_zero_right]; omega
    · simp only [hb0, if_false]
      have hm2 : 2 ≤ m := by omega
      obtain ⟨M, hM⟩ : ∃ M, M = 2 ^ bits := ⟨_, rfl⟩
      have hMpos : 0 < M := by rw [hM]; positivity
      have h1M : 1 < M := by rw [hM]; exact Nat.one_lt_two_pow hbits
      rw [← hM] at hm
      have hI := GcdExt.init (m : ℤ) (b : ℤ) (by positivity) (by exact_mod_cast le_of_lt hbm)
      have hR : Rel M { a := m, b := b, s0 := 1, s1 := 0, t0 := 0, t1 := 1, even := true }
          { a := m, b := b, s0 := 1, s1 := 0, t0 := 0, t1 := 1, even := true } :=
        ⟨rfl, rfl, rfl, by simp, by simp, by simp, by simp, hm, h1M, (by simp only; omega),
          (by simp only; omega), h1M⟩
      obtain ⟨s, z, S0, S1, T0, T1, hloop, hR', hI', hb'⟩ :=
        loop_refine (fun a b hle hb => matFrom_contract a b hle hb) bits M hM hbits m b (b + 1) _ _ 1 0 0 1
          hI hR (by simp only; omega)
      have hproj := xLoop_proj bits (b + 1) { a := m, b := b, s0 := 1, s1 := 0, t0 := 0, t1 := 1, even := true }
      rw [hloop] at hproj
      simp only [Option.map_some, proj] at hproj
      rw [← hproj]
      simp only
      have hzb : z.b = 0 := by rw [← hR'.eb, hb']; rfl
      obtain ⟨hbez, hdA, hdB, nS0, nT0, hT0A, _⟩ := GcdExt.final m b (by positivity) z S0 S1 T0 T1 hI' hzb
      -- the gcd
      have hg : s.a = Nat.gcd m b := by
        have hda : s.a ∣ m := Int.natCast_dvd_natCast.1 (by rw [hR'.ea]; exact hdA)
        have hdb : s.a ∣ b := Int.natCast_dvd_natCast.1 (by rw [hR'.ea]; exact hdB)
        have ga : (Nat.gcd m b : ℤ) ∣ m := Int.natCast_dvd_natCast.2 (Nat.gcd_dvd_left m b)
        have gb : (Nat.gcd m b : ℤ) ∣ b := Int.natCast_dvd_natCast.2 (Nat.gcd_dvd_right m b)
        have h2 : (Nat.gcd m b : ℤ) ∣ z.a := by
          cases hE : z.even
          · rw [hE] at hbez; simp only [Bool.false_eq_true, if_false] at hbez
            rw [hbez]; exact dvd_sub (Dvd.dvd.mul_left gb _) (Dvd.dvd.mul_left ga _)
          · rw [hE] at hbez; simp only [if_true] at hbez
            rw [hbez]; exact dvd_sub (Dvd.dvd.mul_left ga _) (Dvd.dvd.mul_left gb _)
        exact Nat.dvd_antisymm (Nat.dvd_gcd hda hdb)
          (Int.natCast_dvd_natCast.1 (by rw [hR'.ea]; exact h2))
      by_cases ha1 : s.a = 1
      · simp only [ha1, if_true]
        refine ⟨_, rfl, ?_, ?_⟩
        · simp only [reduceCtorEq, false_iff, not_not]
          exact ⟨hm2, by rw [hgcd, ← hg, ha1]⟩
        · intro x hx
          simp only [Option.some.injEq] at hx
          have hza : z.a = 1 := by rw [← hR'.ea, ha1]; rfl
          rw [hza] at hbez
          have et0 := hI'.et0
          have hmz : (m : ℤ) < M := by exact_mod_cast hm
          have hm2z : (2 : ℤ) ≤ m := by exact_mod_cast hm2
          -- `num·x ≡ b·x (mod m)`
          have hnumx : ∀ v : ℕ, (b * v) % m = 1 → (num * v) % m = 1 := by
            intro v hv
            rw [Nat.mul_mod, ← hb]
            rw [Nat.mul_mod, Nat.mod_eq_of_lt hbm] at hv
            exact hv
          cases hE : s.even
          · -- `t0 = +T0` is the inverse
            have hEz : z.even = false := by rw [← hR'.ee, hE]
            rw [hEz] at et0 hbez
            simp only [sgn, Bool.false_eq_true, if_false] at et0 hbez
            rw [hE] at hx
            simp only [Bool.false_eq_true, if_false] at hx
            have c : ((s.t0 : ℕ) : ℤ) ≡ T0 [ZMOD M] := by
              have := hR'.ct0; rw [et0] at this; simpa using this
            have hT0lt : T0 < m := by
              rcases lt_or_eq_of_le hT0A with h | h
              · exact h
              · exfalso
                rw [h] at hbez
                have : (m : ℤ) ∣ 1 := ⟨(b : ℤ) - S0, by linarith⟩
                have := Int.le_of_dvd (by norm_num) this
                omega
            have e := eq_of_modEq hR'.rt0 nT0 (by omega) c
            have hxT : (x : ℤ) = T0 := by rw [← hx]; exact e
            refine ⟨by exact_mod_cast (hxT ▸ hT0lt : (x : ℤ) < m), hnumx x ?_⟩
            apply nat_mod_one_of_int (b * x) m S0 (by omega)
            push_cast; rw [hxT]; linarith
          · -- `t0 = −T0`: `modulus + t0 = modulus − T0`
            have hEz : z.even = true := by rw [← hR'.ee, hE]
            rw [hEz] at et0 hbez
            simp only [sgn, if_true] at et0 hbez
            rw [hE] at hx
            simp only [if_true] at hx
            have hT0pos : 0 < T0 := by
              rcases lt_or_eq_of_le nT0 with h | h
              · exact h
              · exfalso
                rw [← h] at hbez
                have : (m : ℤ) ∣ 1 := ⟨S0, by linarith⟩
                have := Int.le_of_dvd (by norm_num) this
                omega
            have c : ((wadd bits m s.t0 : ℕ) : ℤ) ≡ m - T0 [ZMOD M] := by
              unfold wadd
              rw [← hM]
              have h1 : (((m + s.t0) % M : ℕ) : ℤ) ≡ ((m + s.t0 : ℕ) : ℤ) [ZMOD M] := by
                rw [Int.natCast_mod]; exact Int.mod_modEq _ _
              refine h1.trans ?_
              push_cast
              have := hR'.ct0; rw [et0] at this
              have h2 := Int.ModEq.add (Int.ModEq.refl (m : ℤ)) this
              have e : (m : ℤ) + -1 * T0 = m - T0 := by ring
              rw [e] at h2; exact h2
            have hwlt : wadd bits m s.t0 < M := by unfold wadd; rw [← hM]; exact Nat.mod_lt _ hMpos
            have e := eq_of_modEq hwlt (by omega) (by omega) c
            have hxT : (x : ℤ) = m - T0 := by rw [← hx]; exact e
            refine ⟨by have : (x : ℤ) < m := by rw [hxT]; omega
                       exact_mod_cast this, hnumx x ?_⟩
            apply nat_mod_one_of_int (b * x) m ((b : ℤ) - S0) (by omega)
            push_cast; rw [hxT]; linarith
      · simp only [ha1, if_false]
        refine ⟨none, rfl, ?_, by simp⟩
        simp only [true_iff, not_and]
        intro _
        rw [hgcd, ← hg]; exact ha1

end Ruint.Modular
