import Ruint.Model.ShiftKernels
import Ruint.Lemmas.Basic

/-! `shift_left_small` / `shift_right_small`: the limb loops compute `val · 2^amount` resp.
    `val / 2^amount` with the bits shifted out, for every `amount < 64` (after the `amount == 0` fix).
    `W = T·U` with `T = 2^amount`, `U = 2^(64−amount)`; `(x·T) % W = (x % U)·T` makes `|||` a sum. -/
namespace Ruint.ShiftK
open Ruint

theorem W_split (amount : ℕ) (h : amount ≤ 64) : W = 2 ^ amount * 2 ^ (64 - amount) := by
  rw [← pow_add]; unfold W; congr 1; omega

/-- `(x · T) % (T · U) = T · (x % U)` -/
theorem mul_mod_split (T U x : ℕ) (hT : 0 < T) (hU : 0 < U) : (x * T) % (T * U) = T * (x % U) := by
  have hdm := Nat.div_add_mod x U
  have : x * T = T * (x % U) + (T * U) * (x / U) := by
    have : x * T = (U * (x / U) + x % U) * T := by rw [hdm]
    rw [this]; ring
  rw [this, Nat.add_mul_mod_self_left, Nat.mod_eq_of_lt]
  have := Nat.mod_lt x hU
  exact Nat.mul_lt_mul_of_pos_left this hT

theorem shlLoop_spec (amount : ℕ) (h64 : amount ≤ 64) (xs : List ℕ) (c : ℕ)
    (hx : AllLt xs) (hc : c < 2 ^ amount) :
    val (shlLoop amount xs c).1 + W ^ xs.length * (shlLoop amount xs c).2 = val xs * 2 ^ amount + c
    ∧ AllLt (shlLoop amount xs c).1 ∧ (shlLoop amount xs c).1.length = xs.length
    ∧ (shlLoop amount xs c).2 < 2 ^ amount := by
  have hW := W_split amount h64
  have hU : 0 < 2 ^ (64 - amount) := by positivity
  have hT : 0 < 2 ^ amount := by positivity
  induction xs generalizing c with
  | nil => simp [shlLoop, AllLt, hc]
  | cons x xs ih =>
    have hxW := hx.head
    have hq : x / 2 ^ (64 - amount) < 2 ^ amount := by
      apply Nat.div_lt_of_lt_mul; rw [Nat.mul_comm, ← hW]; exact hxW
    obtain ⟨i1, i2, i3, i4⟩ := ih (x / 2 ^ (64 - amount)) hx.tail hq
    simp only [shlLoop, val_cons, List.length_cons, pow_succ]
    have hmod : (x * 2 ^ amount) % W = 2 ^ amount * (x % 2 ^ (64 - amount)) := by
      rw [hW]; exact mul_mod_split _ _ _ hT hU
    rw [hmod, ← Nat.two_pow_add_eq_or_of_lt hc]
    have hdm := Nat.div_add_mod x (2 ^ (64 - amount))
    have hml := Nat.mod_lt x hU
    generalize shlLoop amount xs (x / 2 ^ (64 - amount)) = r at *
    generalize 2 ^ (64 - amount) = U at *
    generalize 2 ^ amount = T at *
    have hlimb : T * (x % U) + c < W := by rw [hW]; nlinarith
    refine ⟨?_, AllLt.cons hlimb i2, by simp [i3], i4⟩
    have hx' : x * T = T * (x % U) + W * (x / U) := by
      have : x * T = (U * (x / U) + x % U) * T := by rw [hdm]
      rw [this, hW]; ring
    nlinarith [i1]

theorem shrLoop_spec (amount : ℕ) (h64 : amount ≤ 64) (xs : List ℕ) (hx : AllLt xs) :
    val (shrLoop amount xs).1 = val xs / 2 ^ amount
    ∧ (shrLoop amount xs).2 = (val xs % 2 ^ amount) * 2 ^ (64 - amount)
    ∧ AllLt (shrLoop amount xs).1 ∧ (shrLoop amount xs).1.length = xs.length := by
  have hW := W_split amount h64
  have hU : 0 < 2 ^ (64 - amount) := by positivity
  have hT : 0 < 2 ^ amount := by positivity
  induction xs with
  | nil => simp [shrLoop, AllLt]
  | cons x xs ih =>
    have hxW := hx.head
    obtain ⟨i1, i2, i3, i4⟩ := ih hx.tail
    have hq : x / 2 ^ amount < 2 ^ (64 - amount) := by
      apply Nat.div_lt_of_lt_mul; rw [← hW]; exact hxW
    simp only [shrLoop, val_cons, List.length_cons]
    have hmod : (x * 2 ^ (64 - amount)) % W = 2 ^ (64 - amount) * (x % 2 ^ amount) := by
      rw [hW, Nat.mul_comm (2 ^ amount)]; exact mul_mod_split _ _ _ hU hT
    have hor : (x / 2 ^ amount) ||| (shrLoop amount xs).2
        = 2 ^ (64 - amount) * (val xs % 2 ^ amount) + x / 2 ^ amount := by
      rw [i2, Nat.or_comm, Nat.mul_comm, ← Nat.two_pow_add_eq_or_of_lt hq]
    rw [hor, hmod, i1]
    have hdm := Nat.div_add_mod (val xs) (2 ^ amount)
    have hml := Nat.mod_lt (val xs) hT
    have e1 : (x + W * val xs) / 2 ^ amount = x / 2 ^ amount + 2 ^ (64 - amount) * val xs := by
      rw [hW, Nat.mul_assoc, Nat.add_mul_div_left _ _ hT]
    have e2 : (x + W * val xs) % 2 ^ amount = x % 2 ^ amount := by
      rw [hW, Nat.mul_assoc, Nat.add_mul_mod_self_left]
    rw [e1, e2]
    generalize 2 ^ (64 - amount) = U at *
    generalize 2 ^ amount = T at *
    generalize val xs / T = q at *
    generalize val xs % T = m at *
    refine ⟨?_, by ring, AllLt.cons ?_ i3, by simp [i4]⟩
    · rw [← hdm, hW]; ring
    · rw [hW]; nlinarith

/-- `shift_left_small`, every `amount < 64`: `val limbs' + W^n · out = val limbs · 2^amount`. -/
theorem shlSmall_spec (limbs : List ℕ) (amount : ℕ) (h : amount < 64) (hx : AllLt limbs) :
    val (shlSmall limbs amount).1 + W ^ limbs.length * (shlSmall limbs amount).2
      = val limbs * 2 ^ amount
    ∧ AllLt (shlSmall limbs amount).1 ∧ (shlSmall limbs amount).1.length = limbs.length
    ∧ (shlSmall limbs amount).2 < 2 ^ amount := by
  unfold shlSmall
  by_cases h0 : amount = 0
  · subst h0; simp [hx]
  · simp only [h0, if_false]
    have := shlLoop_spec amount (by omega) limbs 0 hx (by positivity)
    simpa using this

/-- `shift_right_small`, every `amount < 64`: quotient limbs and the remainder bits left-aligned. -/
theorem shrSmall_spec (limbs : List ℕ) (amount : ℕ) (h : amount < 64) (hx : AllLt limbs) :
    val (shrSmall limbs amount).1 = val limbs / 2 ^ amount
    ∧ (shrSmall limbs amount).2 = (val limbs % 2 ^ amount) * 2 ^ (64 - amount)
    ∧ AllLt (shrSmall limbs amount).1 ∧ (shrSmall limbs amount).1.length = limbs.length := by
  unfold shrSmall
  by_cases h0 : amount = 0
  · subst h0; simp [hx, Nat.mod_one]
  · simp only [h0, if_false]
    exact shrLoop_spec amount (by omega) limbs hx

end Ruint.ShiftK
