import Ruint.Lemmas.FloatTo3

/-! Faithfulness of `f64/f32::from(&Uint)` at the value level: the result decodes to one of the two
    multiples of the float spacing around the value; overflow to `+∞` only at or above the rounding
    threshold. -/
namespace Ruint.Float

/-- the decoded float `d` is finite, non-negative and its value is the natural number `n`. -/
def IsVal (d : Dec) (n : ℕ) : Prop :=
  ∃ M q, d = .fin false M q ∧ ((0 ≤ q ∧ n = M * 2 ^ q.toNat) ∨ (q < 0 ∧ M = n * 2 ^ (-q).toNat))

theorem closed_q (f : Fmt) (hf : f.Ok) (L : ℕ) (hL : 1 ≤ L) :
    f.qmin + ((L + f.bias - 2 : ℕ) : ℤ) = (L : ℤ) - ((f.mb + 1 : ℕ) : ℤ) := by
  have hb1 := (f.two_bias hf).2
  rw [f.qmin_eq]; push_cast; omega

/-- decoding the closed-form pattern of a long value: `Mr · 2^(L - p)`. -/
theorem decode_closed_top (f : Fmt) (hf : f.Ok) (L Mr : ℕ) (hL : f.mb + 1 ≤ L)
    (hM1 : 2 ^ f.mb ≤ Mr) (hM2 : Mr ≤ 2 ^ (f.mb + 1))
    (hr : (L + f.bias - 2) * 2 ^ f.mb + Mr < f.infBits) :
    IsVal (decode f ((L + f.bias - 2) * 2 ^ f.mb + Mr)) (Mr * 2 ^ (L - (f.mb + 1))) := by
  have hpp : 2 ^ (f.mb + 1) = 2 * 2 ^ f.mb := by ring
  have hq := closed_q f hf L (by omega)
  rcases decode_assembled f hf (L + f.bias - 2) Mr hM1 hM2 hr with ⟨hlt, hd⟩ | ⟨heq, hd⟩
  · rw [hd, hq]
    refine ⟨Mr, _, rfl, Or.inl ⟨by omega, ?_⟩⟩
    congr 2; omega
  · rw [hd, hq]
    refine ⟨2 ^ f.mb, _, rfl, Or.inl ⟨by omega, ?_⟩⟩
    have : ((L : ℤ) - ((f.mb + 1 : ℕ) : ℤ) + 1).toNat = (L - (f.mb + 1)) + 1 := by omega
    rw [this, heq, hpp, pow_succ]; ring

/-- decoding the closed-form pattern of a short value `n` (fewer than `p` bits): exactly `n`. -/
theorem decode_closed_short (f : Fmt) (hf : f.Ok) (L n : ℕ) (hL : 1 ≤ L) (hLp : L < f.mb + 1)
    (hM1 : 2 ^ f.mb ≤ n * 2 ^ (f.mb + 1 - L)) (hM2 : n * 2 ^ (f.mb + 1 - L) < 2 ^ (f.mb + 1))
    (hr : (L + f.bias - 2) * 2 ^ f.mb + n * 2 ^ (f.mb + 1 - L) < f.infBits) :
    IsVal (decode f ((L + f.bias - 2) * 2 ^ f.mb + n * 2 ^ (f.mb + 1 - L))) n := by
  have hq := closed_q f hf L hL
  rcases decode_assembled f hf (L + f.bias - 2) _ hM1 (le_of_lt hM2) hr with ⟨_, hd⟩ | ⟨heq, _⟩
  · rw [hd, hq]
    refine ⟨_, _, rfl, Or.inr ⟨by omega, ?_⟩⟩
    congr 2; omega
  · omega

/-- **faithfulness** of `fN::from(&Uint)` for a value with at least `p = mb+1` bits. -/
theorem toFloatV_top (f : Fmt) (hw : f.Wide) (v : ℕ) (hv : 0 < v) (hL : f.mb + 1 ≤ bitLen v) :
    ∃ R, (R = v / 2 ^ (bitLen v - (f.mb + 1)) ∨ R = v / 2 ^ (bitLen v - (f.mb + 1)) + 1)
      ∧ (v % 2 ^ (bitLen v - (f.mb + 1)) = 0 → R = v / 2 ^ (bitLen v - (f.mb + 1)))
      ∧ (R * 2 ^ (bitLen v - (f.mb + 1)) < 2 ^ (f.bias + 1) →
          IsVal (decode f (toFloatV f v)) (R * 2 ^ (bitLen v - (f.mb + 1))))
      ∧ (2 ^ (f.bias + 1) ≤ R * 2 ^ (bitLen v - (f.mb + 1)) →
          toFloatV f v = f.infBits ∧ infThreshold f ≤ v) := by
  obtain ⟨L, hLdef⟩ : ∃ L, L = bitLen v := ⟨_, rfl⟩
  have hcl := toFloatV_closed f hw v hv
  obtain ⟨r1, r2, r3⟩ := mant_top f hw v hv hL
  obtain ⟨hf, hp, hbias⟩ := hw
  have hb1 := (f.two_bias hf).2
  have hinf := f.infBits_eq hf
  have hpp : 2 ^ (f.mb + 1) = 2 * 2 ^ f.mb := by ring
  have hp0 : 0 < 2 ^ f.mb := by positivity
  obtain ⟨b1, b2⟩ := bitLen_bounds hv
  have hb0 : 0 < v / 2 ^ (bitLen v - 64) := (msbSpec_facts v hv).1
  obtain ⟨m1, m2⟩ := mant_bounds f (v / 2 ^ (bitLen v - 64)) hb0
  obtain ⟨R, hR⟩ : ∃ R, R = mant f (v / 2 ^ (bitLen v - 64)) := ⟨_, rfl⟩
  rw [← hR] at r1 r2 r3 m1 m2 hcl
  rw [← hLdef] at r1 r2 r3 hL b1 b2 hcl ⊢
  obtain ⟨k, hk⟩ : ∃ k, k = L - (f.mb + 1) := ⟨_, rfl⟩
  rw [← hk] at r1 r2 r3 ⊢
  have hk0 : 0 < 2 ^ k := by positivity
  -- overflow of the pattern ⇔ overflow of the value
  have hov : f.infBits ≤ (L + f.bias - 2) * 2 ^ f.mb + R ↔ 2 ^ (f.bias + 1) ≤ R * 2 ^ k := by
    rw [hinf]
    rcases Nat.lt_trichotomy L (f.bias + 1) with hlt | heq | hgt
    · -- L ≤ bias: neither overflows
      have n1 : (L + f.bias - 2) * 2 ^ f.mb + R < (2 * f.bias + 1) * 2 ^ f.mb := by
        calc (L + f.bias - 2) * 2 ^ f.mb + R ≤ (L + f.bias - 2) * 2 ^ f.mb + 2 * 2 ^ f.mb := by omega
          _ = (L + f.bias) * 2 ^ f.mb := by
              have : L + f.bias = (L + f.bias - 2) + 2 := by omega
              conv_rhs => rw [this, Nat.add_mul]
          _ < (2 * f.bias + 1) * 2 ^ f.mb := Nat.mul_lt_mul_of_pos_right (by omega) hp0
      have n2 : R * 2 ^ k < 2 ^ (f.bias + 1) := by
        have hLk : L = f.mb + 1 + k := by omega
        calc R * 2 ^ k ≤ 2 ^ (f.mb + 1) * 2 ^ k := Nat.mul_le_mul_right _ m2
          _ = 2 ^ L := by rw [← pow_add, ← hLk]
          _ < 2 ^ (f.bias + 1) := Nat.pow_lt_pow_right (by norm_num) hlt
      constructor <;> intro h <;> omega
    · -- L = bias + 1: overflow exactly when the mantissa carries
      have hkb : f.bias + 1 = f.mb + 1 + k := by omega
      have e1 : (L + f.bias - 2) * 2 ^ f.mb = (2 * f.bias - 1) * 2 ^ f.mb := by congr 1; omega
      have e2 : (2 * f.bias + 1) * 2 ^ f.mb = (2 * f.bias - 1) * 2 ^ f.mb + 2 ^ (f.mb + 1) := by
        have : 2 * f.bias + 1 = (2 * f.bias - 1) + 2 := by omega
        rw [this, Nat.add_mul, hpp]
      have hpk : 2 ^ (f.mb + 1 + k) = 2 ^ (f.mb + 1) * 2 ^ k := pow_add _ _ _
      rw [e1, e2, hkb, hpk]
      constructor
      · intro h
        have : 2 ^ (f.mb + 1) ≤ R := by omega
        exact Nat.mul_le_mul_right _ this
      · intro h
        have : 2 ^ (f.mb + 1) ≤ R := Nat.le_of_mul_le_mul_right h hk0
        omega
    · -- L ≥ bias + 2: both overflow
      have n1 : (2 * f.bias + 1) * 2 ^ f.mb ≤ (L + f.bias - 2) * 2 ^ f.mb + R := by
        calc (2 * f.bias + 1) * 2 ^ f.mb = 2 * f.bias * 2 ^ f.mb + 2 ^ f.mb := by ring
          _ ≤ (L + f.bias - 2) * 2 ^ f.mb + R := Nat.add_le_add (Nat.mul_le_mul_right _ (by omega)) m1
      have n2 : 2 ^ (f.bias + 1) ≤ R * 2 ^ k := by
        have hLk : L - 1 = f.mb + k := by omega
        calc 2 ^ (f.bias + 1) ≤ 2 ^ (L - 1) := Nat.pow_le_pow_right (by norm_num) (by omega)
          _ = 2 ^ f.mb * 2 ^ k := by rw [← pow_add, ← hLk]
          _ ≤ R * 2 ^ k := Nat.mul_le_mul_right _ m1
      constructor <;> intro _ <;> assumption
  refine ⟨R, r1, r2, ?_, ?_⟩
  · intro hfin
    have hnot : ¬ f.infBits ≤ (L + f.bias - 2) * 2 ^ f.mb + R := fun h => absurd (hov.mp h) (by omega)
    rw [hcl, Nat.min_def, if_neg hnot]
    have := decode_closed_top f hf L R hL m1 m2 (by omega)
    rw [← hk] at this
    exact this
  · intro hbig
    have hle := hov.mpr hbig
    refine ⟨by rw [hcl, Nat.min_def, if_pos hle], ?_⟩
    -- the value is within half a unit of the rounded one
    unfold infThreshold
    rcases Nat.lt_or_ge (f.bias + 1) L with hgt | hle'
    · calc 2 ^ (f.bias + 1) - 2 ^ (f.bias - f.mb - 1) ≤ 2 ^ (f.bias + 1) := Nat.sub_le _ _
        _ ≤ 2 ^ (L - 1) := Nat.pow_le_pow_right (by norm_num) (by omega)
        _ ≤ v := b1
    · have hLe : L = f.bias + 1 := by
        by_contra hne
        have hlt : L < f.bias + 1 := by omega
        have hLk : L = f.mb + 1 + k := by omega
        have : R * 2 ^ k < 2 ^ (f.bias + 1) := by
          calc R * 2 ^ k ≤ 2 ^ (f.mb + 1) * 2 ^ k := Nat.mul_le_mul_right _ m2
            _ = 2 ^ L := by rw [← pow_add, ← hLk]
            _ < 2 ^ (f.bias + 1) := Nat.pow_lt_pow_right (by norm_num) hlt
        omega
      have hkb : k = (f.bias - f.mb - 1) + 1 := by omega
      have h2k : 2 ^ k = 2 * 2 ^ (f.bias - f.mb - 1) := by rw [hkb, pow_succ]; ring
      omega

end Ruint.Float
