import Ruint.Lemmas.Macro
import Ruint.Spec.Macro

/-! Lemmas for C19: what `transformLiteral` does on every literal of the documented form, and the
specification's recogniser (`Spec.Macro.shape`) against the model. -/
namespace Ruint.Macro
open Ruint Ruint.Radix

/-- the type named by the suffix letter -/
def tyOf (t : Char) : BaseType := if t = 'U' then .uint else .bits

theorem lit_suffix_recognised (value body bitsTxt : List Char) (t : Char) (base : ℕ)
    (hbase : HasBase value base body) (hbody : IsBody body) (ht : t = 'U' ∨ t = 'B')
    (hne : bitsTxt ≠ []) (hdec : ∀ c ∈ bitsTxt, isDec c = true) (hn : decVal bitsTxt < 2 ^ 64)
    (hhexB : ¬ (t = 'B' ∧ base = 16 ∧ value.getLast? ≠ some '_')) :
    parseSuffix (value ++ t :: bitsTxt) = some (tyOf t, decVal bitsTxt, value) := by
  unfold parseSuffix
  rw [splitLast_spec value t bitsTxt ht (isDec_noUB bitsTxt hdec)]
  simp only [parseUsize_dec bitsTxt hne hdec hn]
  have hx := take_two_hex value body base hbase hbody
  have : ¬ ((if t = 'U' then BaseType.uint else BaseType.bits) = BaseType.bits ∧ value.take 2 = ['0', 'x']
      ∧ value.getLast? ≠ some '_') := by
    rintro ⟨h1, h2, h3⟩
    apply hhexB
    refine ⟨?_, hx.mp h2, h3⟩
    rcases ht with rfl | rfl
    · simp at h1
    · rfl
  simp only [this, if_false, tyOf]

theorem lit_literal_valid (value body bitsTxt : List Char) (t : Char) (base : ℕ)
    (hbase : HasBase value base body) (hbody : IsBody body) (ht : t = 'U' ∨ t = 'B')
    (hne : bitsTxt ≠ []) (hdec : ∀ c ∈ bitsTxt, isDec c = true) (hn : decVal bitsTxt < 2 ^ 64)
    (hhexB : ¬ (t = 'B' ∧ base = 16 ∧ value.getLast? ≠ some '_'))
    (hvalid : ∀ d ∈ digitVals body, d < base)
    (hfit : Nat.ofDigits base (digitVals body).reverse < 2 ^ decVal bitsTxt) :
    ∃ limbs, transformLiteral (value ++ t :: bitsTxt) = .ok (tyOf t) (decVal bitsTxt) limbs
      ∧ Canon (decVal bitsTxt) limbs
      ∧ val limbs = Nat.ofDigits base (digitVals body).reverse
      ∧ fromStrRadix (decVal bitsTxt) base body = .ok limbs := by
  obtain ⟨hb2, hb16⟩ := hbase.base_le
  have hbW : base < W := by unfold W; omega
  obtain ⟨l, d1, d2, d3⟩ := digitLoop_ok base hbW body [0] hbody
    (AllLt.cons W_pos AllLt.nil) hvalid
  have hv : val l = Nat.ofDigits base (digitVals body).reverse := by
    rw [d3, hornerFrom_eq]; simp
  obtain ⟨p1, _⟩ := padLimbs_spec (decVal bitsTxt) l d2
  obtain ⟨l2, q1, q2, q3⟩ := p1 (by rw [hv]; exact hfit)
  refine ⟨l2, ?_, q2, by rw [q3, hv], ?_⟩
  · unfold transformLiteral
    rw [lit_suffix_recognised value body bitsTxt t base hbase hbody ht hne hdec hn hhexB]
    simp only [parseDigits_eq value body base hbase hbody, d1, q1]
  · have : ¬ base > 64 := by omega
    simp only [fromStrRadix, this, if_false, scan_body base (by omega) body hbody]
    rw [(fromBaseBE_ok_iff (decVal bitsTxt) base hb2 (digitVals body) l2).mpr ⟨hvalid, q2, by rw [q3, hv]⟩]

theorem lit_literal_too_large (value body bitsTxt : List Char) (t : Char) (base : ℕ)
    (hbase : HasBase value base body) (hbody : IsBody body) (ht : t = 'U' ∨ t = 'B')
    (hne : bitsTxt ≠ []) (hdec : ∀ c ∈ bitsTxt, isDec c = true) (hn : decVal bitsTxt < 2 ^ 64)
    (hhexB : ¬ (t = 'B' ∧ base = 16 ∧ value.getLast? ≠ some '_'))
    (hvalid : ∀ d ∈ digitVals body, d < base)
    (hbig : 2 ^ decVal bitsTxt ≤ Nat.ofDigits base (digitVals body).reverse) :
    transformLiteral (value ++ t :: bitsTxt) = .errLarge := by
  obtain ⟨_, hb16⟩ := hbase.base_le
  have hbW : base < W := by unfold W; omega
  obtain ⟨l, d1, d2, d3⟩ := digitLoop_ok base hbW body [0] hbody
    (AllLt.cons W_pos AllLt.nil) hvalid
  have hv : val l = Nat.ofDigits base (digitVals body).reverse := by
    rw [d3, hornerFrom_eq]; simp
  obtain ⟨_, p2⟩ := padLimbs_spec (decVal bitsTxt) l d2
  unfold transformLiteral
  rw [lit_suffix_recognised value body bitsTxt t base hbase hbody ht hne hdec hn hhexB]
  simp only [parseDigits_eq value body base hbase hbody, d1, p2 (by rw [hv]; exact hbig)]

theorem lit_literal_bad_digit (value pre post bitsTxt : List Char) (c t : Char) (base d : ℕ)
    (hbase : HasBase value base (pre ++ c :: post)) (hbody : IsBody (pre ++ c :: post)) (ht : t = 'U' ∨ t = 'B')
    (hne : bitsTxt ≠ []) (hdec : ∀ x ∈ bitsTxt, isDec x = true) (hn : decVal bitsTxt < 2 ^ 64)
    (hhexB : ¬ (t = 'B' ∧ base = 16 ∧ value.getLast? ≠ some '_'))
    (hpre : ∀ x ∈ digitVals pre, x < base) (hc : hexDigit c = some d) (hge : base ≤ d) :
    transformLiteral (value ++ t :: bitsTxt) = .errDigit c base := by
  obtain ⟨_, hb16⟩ := hbase.base_le
  have hbW : base < W := by unfold W; omega
  have hpreB : IsBody pre := fun x hx => hbody x (by simp [hx])
  have := digitLoop_bad_digit base hbW pre c post [0] d hpreB (AllLt.cons W_pos AllLt.nil) hpre hc hge
  unfold transformLiteral
  rw [lit_suffix_recognised value (pre ++ c :: post) bitsTxt t base hbase hbody ht hne hdec hn hhexB]
  simp only [parseDigits_eq value _ base hbase hbody, this]

theorem lit_pass_no_suffix_letter (src : List Char) (h : ∀ c ∈ src, c ≠ 'U' ∧ c ≠ 'B') : transformLiteral src = .pass := by
  unfold transformLiteral parseSuffix
  rw [(splitLast_none_iff src).mpr h]

theorem lit_pass_not_a_width (value rest : List Char) (t : Char) (ht : t = 'U' ∨ t = 'B')
    (hr : ∀ c ∈ rest, c ≠ 'U' ∧ c ≠ 'B') (hw : parseUsize rest = none) :
    transformLiteral (value ++ t :: rest) = .pass := by
  unfold transformLiteral parseSuffix
  rw [splitLast_spec value t rest ht hr]
  simp [hw]

theorem lit_pass_hex_B (body bitsTxt : List Char) (hdec : ∀ c ∈ bitsTxt, isDec c = true)
    (hu : ('0' :: 'x' :: body).getLast? ≠ some '_') :
    transformLiteral ('0' :: 'x' :: body ++ 'B' :: bitsTxt) = .pass := by
  have hs := splitLast_spec ('0' :: 'x' :: body) 'B' bitsTxt (Or.inr rfl) (isDec_noUB bitsTxt hdec)
  have hps : parseSuffix ('0' :: 'x' :: body ++ 'B' :: bitsTxt) = none := by
    unfold parseSuffix
    rw [hs]
    cases hp : parseUsize bitsTxt with
    | none => simp [hp]
    | some n =>
      have hu' : ¬ ('x' :: body).getLast? = some '_' := by simpa using hu
      simp [hp, hu']
  unfold transformLiteral
  rw [hps]

end Ruint.Macro

namespace Ruint.Macro
open Ruint Ruint.Radix Ruint.Spec.Macro

/-! ## the specification's recogniser (`Spec.Macro.shape`) against the model -/

set_option maxRecDepth 100000 in
theorem hexVal_ascii : ∀ n : Fin 128, Spec.Macro.hexVal? (Char.ofNat n) = hexDigit (Char.ofNat n) := by
  decide +kernel

theorem hexAlphabet_ascii : ∀ x ∈ hexAlphabet, x.toNat < 128 := by decide

theorem hexVal_eq (c : Char) : Spec.Macro.hexVal? c = hexDigit c := by
  by_cases hc : c.toNat < 128
  · have := hexVal_ascii ⟨c.toNat, hc⟩
    simpa [Char.ofNat_toNat] using this
  · have h : 128 ≤ c.toNat := by omega
    have m1 : c ∉ hexAlphabet := fun hm => by have := hexAlphabet_ascii c hm; omega
    have i1 : hexAlphabet.idxOf c = 16 := by rw [List.idxOf_eq_length m1]; decide
    have r1 := inRange_false '0' '9' c (by have : '9'.toNat = 57 := by decide
                                           omega)
    have r2 := inRange_false 'a' 'f' c (by have : 'f'.toNat = 102 := by decide
                                           omega)
    have r3 := inRange_false 'A' 'F' c (by have : 'F'.toNat = 70 := by decide
                                           omega)
    simp [Spec.Macro.hexVal?, toLower_big c h, i1, hexDigit, r1, r2, r3]

set_option maxRecDepth 100000 in
theorem isDec_ascii : ∀ n : Fin 128, Spec.Macro.isDec (Char.ofNat n) = Macro.isDec (Char.ofNat n) := by
  decide +kernel

theorem isDec_eq (c : Char) : Spec.Macro.isDec c = Macro.isDec c := by
  by_cases hc : c.toNat < 128
  · have := isDec_ascii ⟨c.toNat, hc⟩
    simpa [Char.ofNat_toNat] using this
  · have h : 128 ≤ c.toNat := by omega
    have n9 : '9'.toNat = 57 := by decide
    have a : Macro.isDec c = false := by simp [Macro.isDec]; omega
    have b : c.isDigit = false := by
      unfold Char.isDigit
      have : ¬ c.val ≤ 57 := by
        rw [UInt32.le_iff_toNat_le]
        have e : c.toNat = c.val.toNat := rfl
        have : (57 : UInt32).toNat = 57 := by decide
        omega
      simp [this]
    rw [a]; exact b

theorem isDec_fun : Spec.Macro.isDec = Macro.isDec := funext isDec_eq

end Ruint.Macro

namespace Ruint.Macro
open Ruint Ruint.Radix Ruint.Spec.Macro

theorem takeWhile_all_append {α : Type} (p : α → Bool) : ∀ (l m : List α), (∀ x ∈ l, p x = true) →
    (∀ y ys, m = y :: ys → p y = false) →
    (l ++ m).takeWhile p = l ∧ (l ++ m).dropWhile p = m := by
  intro l
  induction l with
  | nil =>
    intro m _ hm
    cases m with
    | nil => simp
    | cons y ys => have := hm y ys rfl; simp [List.takeWhile, List.dropWhile, this]
  | cons x xs ih =>
    intro m hl hm
    have hx := hl x (by simp)
    obtain ⟨i1, i2⟩ := ih m (fun y hy => hl y (by simp [hy])) hm
    simp [hx, i1, i2]

theorem splitLast_some : ∀ (cs value : List Char) (t : Char) (rest : List Char),
    splitLast cs = some (value, t, rest) → cs = value ++ t :: rest ∧ (t = 'U' ∨ t = 'B') ∧ noUB rest := by
  intro cs
  induction cs with
  | nil => intro v t r h; simp [splitLast] at h
  | cons c cs ih =>
    intro v t r h
    unfold splitLast at h
    cases hs : splitLast cs with
    | some x =>
      obtain ⟨v', t', b'⟩ := x
      rw [hs] at h
      simp only [Option.some.injEq, Prod.mk.injEq] at h
      obtain ⟨rfl, rfl, rfl⟩ := h
      obtain ⟨e, h2, h3⟩ := ih v' t' b' hs
      exact ⟨by rw [e]; rfl, h2, h3⟩
    | none =>
      rw [hs] at h
      simp only at h
      by_cases hc : c = 'U' ∨ c = 'B'
      · simp only [hc, if_true, Option.some.injEq, Prod.mk.injEq] at h
        obtain ⟨rfl, rfl, rfl⟩ := h
        exact ⟨rfl, hc, (splitLast_none_iff _).mp hs⟩
      · simp [hc] at h

theorem decimal_eq (cs : List Char) : Spec.Macro.decimal cs = decVal cs := rfl

theorem specHorner_eq (b : ℕ) (ds : List ℕ) : Spec.Macro.horner b ds = Nat.ofDigits b ds.reverse := by
  have : Spec.Macro.horner b ds = hornerFrom b 0 ds := rfl
  rw [this, hornerFrom_eq]; simp

/-- the outcomes that are compile-time errors raised by the macro. -/
def IsErr (e : Expansion) : Prop := e = .errLarge ∨ (∃ c b, e = .errDigit c b) ∨ (∃ c, e = .errChar c)

/-- the property's judgement of an outcome, for a literal of a given documented shape (this is the predicate the
    correspondence driver evaluates on the implementation's outcome). -/
def JudgedShape (s : Shape) (e : Expansion) : Prop :=
  match s with
  | .ordinary => e = .pass
  | .hexB => e = .pass
  | .outside => True
  | .ours u n base ds =>
    if (∀ d ∈ ds, d < base) ∧ Spec.Macro.horner base ds < 2 ^ n then
      e = .ok (if u then .uint else .bits) n (toLimbs (nlimbs n) (Spec.Macro.horner base ds))
    else IsErr e

/-- first digit `≥ base` in a body that has one. -/
theorem first_bad_digit (base : ℕ) : ∀ (cs : List Char), IsBody cs → ¬ (∀ d ∈ digitVals cs, d < base) →
    ∃ pre c post d, cs = pre ++ c :: post ∧ (∀ x ∈ digitVals pre, x < base) ∧ hexDigit c = some d ∧ base ≤ d := by
  intro cs
  induction cs with
  | nil => intro _ h; exact absurd (fun d hd => by simp [digitVals] at hd) h
  | cons c cs ih =>
    intro hb h
    have hb' : IsBody cs := fun x hx => hb x (by simp [hx])
    cases hd : hexDigit c with
    | none =>
      rw [digitVals_cons_none c cs hd] at h
      obtain ⟨pre, c', post, d, e, h1, h2, h3⟩ := ih hb' h
      refine ⟨c :: pre, c', post, d, by rw [e]; rfl, ?_, h2, h3⟩
      rw [digitVals_cons_none c pre hd]; exact h1
    | some d =>
      by_cases hlt : d < base
      · rw [digitVals_cons_some c cs d hd] at h
        have h' : ¬ ∀ x ∈ digitVals cs, x < base := by
          intro hall; apply h; intro x hx
          simp only [List.mem_cons] at hx
          rcases hx with rfl | hx
          · exact hlt
          · exact hall x hx
        obtain ⟨pre, c', post, d', e, h1, h2, h3⟩ := ih hb' h'
        refine ⟨c :: pre, c', post, d', by rw [e]; rfl, ?_, h2, h3⟩
        rw [digitVals_cons_some c pre d hd]
        intro x hx
        simp only [List.mem_cons] at hx
        rcases hx with rfl | hx
        · exact hlt
        · exact h1 x hx
      · exact ⟨[], c, cs, d, rfl, by intro x hx; simp [digitVals] at hx, hd, by omega⟩

theorem hasBase_of_splitPrefix (body : List Char) :
    HasBase body (splitPrefix body).1 (splitPrefix body).2 := by
  unfold splitPrefix
  have hsplit := List.take_append_drop 2 body
  by_cases h1 : body.take 2 = ['0', 'x']
  · simp only [h1, if_true]
    have : body = '0' :: 'x' :: body.drop 2 := by
      conv_lhs => rw [← hsplit, h1]
      simp
    rw [this]; simpa using HasBase.hex (body.drop 2)
  · simp only [h1, if_false]
    by_cases h2 : body.take 2 = ['0', 'o']
    · simp only [h2, if_true]
      have : body = '0' :: 'o' :: body.drop 2 := by
        conv_lhs => rw [← hsplit, h2]
        simp
      rw [this]; simpa using HasBase.oct (body.drop 2)
    · simp only [h2, if_false]
      by_cases h3 : body.take 2 = ['0', 'b']
      · simp only [h3, if_true]
        have : body = '0' :: 'b' :: body.drop 2 := by
          conv_lhs => rw [← hsplit, h3]
          simp
        rw [this]; simpa using HasBase.bin (body.drop 2)
      · simp only [h3, if_false]
        exact HasBase.dec body h3

theorem classifyOurs_judged (t : Char) (body bitsTxt : List Char) (ht : t = 'U' ∨ t = 'B')
    (hne : bitsTxt ≠ []) (hdec : ∀ c ∈ bitsTxt, Macro.isDec c = true) :
    JudgedShape (classifyOurs t body bitsTxt) (transformLiteral (body ++ t :: bitsTxt)) := by
  unfold classifyOurs
  by_cases hbig : Spec.Macro.decimal bitsTxt + 63 ≥ 2 ^ 64
  · rw [if_pos hbig]; simp [JudgedShape]
  · rw [if_neg hbig]
    simp only [decimal_eq] at hbig ⊢
    have hn : decVal bitsTxt < 2 ^ 64 := by omega
    by_cases hall : (splitPrefix body).2.all (fun c => c = '_' || (hexVal? c).isSome) = true
    · simp only [hall, if_true]
      have hbase := hasBase_of_splitPrefix body
      have hbody : IsBody (splitPrefix body).2 := by
        intro c hc
        have := List.all_eq_true.mp hall c hc
        simp only [Bool.or_eq_true, decide_eq_true_eq] at this
        rw [hexVal_eq] at this
        exact this
      have ds_eq : (splitPrefix body).2.filterMap hexVal? = digitVals (splitPrefix body).2 := by
        unfold digitVals
        congr 1
        funext c
        exact hexVal_eq c
      generalize hB : (splitPrefix body).1 = base at *
      generalize hD : (splitPrefix body).2 = digs at *
      by_cases hx : t = 'B' ∧ base = 16 ∧ body.getLast? ≠ some '_'
      · simp only [hx, and_self, if_true, JudgedShape, ne_eq, not_false_eq_true]
        obtain ⟨rfl, rfl, hu⟩ := hx
        cases hbase with
        | hex => simpa using lit_pass_hex_B digs bitsTxt hdec hu
      · simp only [hx, if_false, JudgedShape, ds_eq]
        by_cases hv : (∀ d ∈ digitVals digs, d < base) ∧ Spec.Macro.horner base (digitVals digs) < 2 ^ decVal bitsTxt
        · rw [if_pos hv]
          obtain ⟨hvalid, hfit⟩ := hv
          rw [specHorner_eq] at hfit ⊢
          obtain ⟨limbs, e1, e2, e3, _⟩ := lit_literal_valid body digs bitsTxt t base hbase hbody ht hne hdec hn hx hvalid hfit
          rw [e1]
          have hl : limbs = toLimbs (nlimbs (decVal bitsTxt)) (Nat.ofDigits base (digitVals digs).reverse) :=
            canon_ext _ _ _ e2 (canon_toLimbs _ _ hfit) (by rw [e3, val_toLimbs_of_lt _ _ hfit])
          rw [hl]
          rcases ht with rfl | rfl <;> simp [tyOf]
        · rw [if_neg hv]
          by_cases hvalid : ∀ d ∈ digitVals digs, d < base
          · have hbig' : 2 ^ decVal bitsTxt ≤ Nat.ofDigits base (digitVals digs).reverse := by
              rw [← specHorner_eq]
              by_contra hc
              exact hv ⟨hvalid, by omega⟩
            left
            exact lit_literal_too_large body digs bitsTxt t base hbase hbody ht hne hdec hn hx hvalid hbig'
          · obtain ⟨pre, c, post, d, e, h1, h2, h3⟩ := first_bad_digit base digs hbody hvalid
            subst e
            right; left
            exact ⟨c, base, lit_literal_bad_digit body pre post bitsTxt c t base d hbase hbody ht hne hdec hn hx h1 h2 h3⟩
    · simp [hall, JudgedShape]

end Ruint.Macro

namespace Ruint.Macro
open Ruint Ruint.Radix Ruint.Spec.Macro

theorem stripPlus_noplus (s : List Char) (hp : '+' ∉ s) : stripPlus s = s := by
  cases s with
  | nil => rfl
  | cons c r =>
    have : c ≠ '+' := fun e => hp (by simp [e])
    unfold stripPlus
    split
    · rename_i heq; injection heq with h1 _; exact absurd h1 this
    · rfl

theorem parseUsize_some_noplus (s : List Char) (k : ℕ) (hp : '+' ∉ s) (h : parseUsize s = some k) :
    s ≠ [] ∧ ∀ c ∈ s, Macro.isDec c = true := by
  unfold parseUsize at h
  rw [stripPlus_noplus s hp] at h
  simp only at h
  by_cases he : s.isEmpty = true
  · simp [he] at h
  · by_cases ha : s.all Macro.isDec = true
    · exact ⟨by intro e; subst e; simp at he, by simpa using ha⟩
    · simp [he, ha] at h

theorem isDec_UB (t : Char) (ht : t = 'U' ∨ t = 'B') : Spec.Macro.isDec t = false := by
  rcases ht with rfl | rfl <;> decide

theorem mem_takeWhile_true {α : Type} (p : α → Bool) : ∀ (l : List α) (x : α), x ∈ l.takeWhile p → p x = true := by
  intro l
  induction l with
  | nil => intro x hx; simp at hx
  | cons y ys ih =>
    intro x hx
    by_cases hy : p y = true
    · simp only [List.takeWhile, hy, List.mem_cons] at hx
      rcases hx with rfl | hx
      · exact hy
      · exact ih x hx
    · simp [List.takeWhile, hy] at hx

/-- **for every text**: the model's outcome satisfies the property's judgement of the literal's documented shape. -/
theorem transform_judged (src : List Char) : JudgedShape (shape src) (transformLiteral src) := by
  unfold shape
  by_cases hp : src.contains '+' = true
  · rw [if_pos hp]; simp [JudgedShape]
  · rw [if_neg hp]
    have hplus : '+' ∉ src := by simpa using hp
    simp only []
    have hsplit := List.takeWhile_append_dropWhile (p := Spec.Macro.isDec) (l := src.reverse)
    have hbits0 : ∀ c ∈ src.reverse.takeWhile Spec.Macro.isDec, Spec.Macro.isDec c = true :=
      fun c hc => mem_takeWhile_true _ _ c hc
    generalize hbr : src.reverse.takeWhile Spec.Macro.isDec = bitsR at *
    generalize hrest : src.reverse.dropWhile Spec.Macro.isDec = rest at *
    have hbits : ∀ c ∈ bitsR, Macro.isDec c = true := fun c hc => by rw [← isDec_eq]; exact hbits0 c hc
    have hsrc : src = rest.reverse ++ bitsR.reverse := by
      have := congrArg List.reverse hsplit
      simpa using this.symm
    cases rest with
    | nil =>
      simp only [JudgedShape]
      apply lit_pass_no_suffix_letter
      apply isDec_noUB
      intro c hc
      rw [hsrc] at hc
      exact hbits c (by simpa using hc)
    | cons t bodyR =>
      simp only []
      by_cases hc : bitsR ≠ [] ∧ (t = 'U' ∨ t = 'B')
      · rw [if_pos hc]
        have e : src = bodyR.reverse ++ t :: bitsR.reverse := by rw [hsrc]; simp
        have := classifyOurs_judged t bodyR.reverse bitsR.reverse hc.2 (by simpa using hc.1)
          (fun c hc' => hbits c (by simpa using hc'))
        rw [← e] at this
        exact this
      · rw [if_neg hc]
        simp only [JudgedShape]
        by_cases hub : noUB src
        · exact lit_pass_no_suffix_letter src hub
        · cases hs : splitLast src with
          | none => exact absurd ((splitLast_none_iff src).mp hs) hub
          | some x =>
            obtain ⟨value, t', rest'⟩ := x
            obtain ⟨e, ht', hr'⟩ := splitLast_some src value t' rest' hs
            rw [e]
            apply lit_pass_not_a_width value rest' t' ht' hr'
            by_contra hne
            obtain ⟨k, hk⟩ := Option.ne_none_iff_exists'.mp hne
            have hp' : '+' ∉ rest' := fun h => hplus (by rw [e]; simp [h])
            obtain ⟨n1, n2⟩ := parseUsize_some_noplus rest' k hp' hk
            -- then the trailing digits of `src` are `rest'` and the character before them is `t'`
            have hrev : src.reverse = rest'.reverse ++ t' :: value.reverse := by rw [e]; simp
            obtain ⟨tw, dw⟩ := takeWhile_all_append Spec.Macro.isDec rest'.reverse (t' :: value.reverse)
              (fun x hx => by rw [isDec_eq]; exact n2 x (by simpa using hx))
              (fun y ys hy => by injection hy with h1 _; rw [← h1]; exact isDec_UB t' ht')
            rw [← hrev] at tw dw
            rw [hbr] at tw
            rw [hrest] at dw
            injection dw with d1 _
            exact hc ⟨by rw [tw]; simpa using n1, by rw [d1]; exact ht'⟩

end Ruint.Macro
