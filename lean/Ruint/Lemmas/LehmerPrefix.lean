import Ruint.Model.Lehmer
import Mathlib.Tactic.Ring
import Mathlib.Tactic.Linarith
import Mathlib.Tactic.NormNum
import Mathlib.Tactic.Positivity
import Mathlib.Tactic.Push
import Mathlib.Tactic.LinearCombination
import Mathlib.Tactic.Zify
import Mathlib.Data.Int.GCD

/-! # `Matrix::from_u64_prefix`, unpacked-cofactor view (re-homed from `notes/probes/lehmer_prefix_matrix_full_proof.lean`)

`Lh.prefixM` is `from_u64_prefix` with the cofactors `u`, `v` kept separately and the twice-unrolled loop written as
half steps. `Lh.prefix_valid`: it returns the identity or a matrix with determinant `±1`, lower-left entry `≥ 1`,
non-decreasing rows, which maps **every** completion `(a0·K+α, a1·K+β)`, `0 ≤ α, β < K`, to `0 ≤ d < c` (Jebelean).
`Lh.apply_progress`: such a matrix preserves the gcd and gives `d < c`, `d < b`.
The packed, twice-unrolled executable model `Ruint.Lehmer.fromU64Prefix` is refined to `prefixM` in
`Lemmas/LehmerPacked.lean`. -/
namespace Ruint.Lh
open Ruint.Lehmer

/-- Jebelean's condition for two consecutive remainders, "even" orientation. -/
theorem site (K ξ η X Y p r p' r' x y : ℤ)
    (hK : 1 ≤ K) (hξ0 : 0 ≤ ξ) (hξ : ξ < K) (hη0 : 0 ≤ η) (hη : η < K)
    (hp : 0 ≤ p) (hr : 0 ≤ r) (hp' : 0 ≤ p') (hr' : 0 ≤ r')
    (hx : x = p * X - r * Y) (hy : y = r' * Y - p' * X)
    (t2 : p' ≤ y) (t3 : r' + r ≤ x - y) (hpos : 0 < r + r') :
    0 ≤ r' * (Y * K + η) - p' * (X * K + ξ) ∧
    r' * (Y * K + η) - p' * (X * K + ξ) < p * (X * K + ξ) - r * (Y * K + η) := by
  have hc : p * (X * K + ξ) - r * (Y * K + η) = x * K + p * ξ - r * η := by rw [hx]; ring
  have hd : r' * (Y * K + η) - p' * (X * K + ξ) = y * K + r' * η - p' * ξ := by rw [hy]; ring
  rw [hc, hd]
  constructor
  · have h1 : p' * ξ ≤ p' * (K - 1) := mul_le_mul_of_nonneg_left (by linarith) hp'
    have h2 : 0 ≤ r' * η := mul_nonneg hr' hη0
    have h3 : p' * K ≤ y * K := mul_le_mul_of_nonneg_right t2 (by linarith)
    nlinarith
  · have h1 : (r + r') * η ≤ (r + r') * (K - 1) := mul_le_mul_of_nonneg_left (by linarith) (by linarith)
    have h2 : 0 ≤ (p + p') * ξ := mul_nonneg (by linarith) hξ0
    have h3 : (r' + r) * K ≤ (x - y) * K := mul_le_mul_of_nonneg_right t3 (by linarith)
    nlinarith

structure St where
  (a1 a2 a3 u0 v0 u1 v1 u2 v2 u3 v3 : ℕ)
  (even : Bool)

/-- one half iteration of the `while a3 >= LIMIT` loop (the Rust loop is this, unrolled twice). -/
def halfStep (s : St) : St :=
  let q := s.a2 / s.a3
  { a1 := s.a2, a2 := s.a3, a3 := s.a2 - q * s.a3,
    u0 := s.u1, v0 := s.v1, u1 := s.u2, v1 := s.v2, u2 := s.u3, v2 := s.v3,
    u3 := s.u2 + q * s.u3, v3 := s.v2 + q * s.v3, even := !s.even }

def loop (L : ℕ) : ℕ → St → St
  | 0, s => s
  | f + 1, s => if L ≤ s.a3 then loop L f (halfStep s) else s


def select (s : St) : Mat :=
  if s.even then
    if s.u2 + s.u1 ≤ s.a1 - s.a2 then
      if s.u3 ≤ s.a3 ∧ s.v3 + s.v2 ≤ s.a2 - s.a3 then (s.u2, s.v2, s.u3, s.v3, true)
      else (s.u1, s.v1, s.u2, s.v2, false)
    else (s.u0, s.v0, s.u1, s.v1, true)
  else
    if s.v2 + s.v1 ≤ s.a1 - s.a2 then
      if s.v3 ≤ s.a3 ∧ s.u3 + s.u2 ≤ s.a2 - s.a3 then (s.u2, s.v2, s.u3, s.v3, false)
      else (s.u1, s.v1, s.u2, s.v2, true)
    else (s.u0, s.v0, s.u1, s.v1, false)


/-- loop invariant; `ag` is the (no longer stored) remainder preceding `a1`. -/
structure Inv (A0 A1 L : ℕ) (s : St) (ag : ℤ) : Prop where
  e0 : ag = sgn s.even * (s.u0 * A0 - s.v0 * A1)
  e1 : (s.a1 : ℤ) = - sgn s.even * (s.u1 * A0 - s.v1 * A1)
  e2 : (s.a2 : ℤ) = sgn s.even * (s.u2 * A0 - s.v2 * A1)
  e3 : (s.a3 : ℤ) = - sgn s.even * (s.u3 * A0 - s.v3 * A1)
  d01 : (s.u0 : ℤ) * s.v1 - s.u1 * s.v0 = sgn s.even
  d12 : (s.u1 : ℤ) * s.v2 - s.u2 * s.v1 = - sgn s.even
  d23 : (s.u2 : ℤ) * s.v3 - s.u3 * s.v2 = sgn s.even
  og : (s.a1 : ℤ) + s.a2 ≤ ag
  o1 : s.a2 + s.a3 ≤ s.a1
  o2 : s.a3 < s.a2
  lim : L ≤ s.a2
  gu2 : s.u0 + s.u1 ≤ s.u2
  gv2 : s.v0 + s.v1 ≤ s.v2
  gu3 : s.u1 + s.u2 ≤ s.u3
  gv3 : s.v1 + s.v2 ≤ s.v3
  p2 : 1 ≤ s.u2
  p3 : 1 ≤ s.u3
  p1 : 1 ≤ s.u1 ∨ s.v0 = 0
  r01 : (s.u0 ≤ s.u1 ∧ s.v0 ≤ s.v1) ∨ s.u1 = 0

theorem inv_step (A0 A1 L : ℕ) (hL : 0 < L) (s : St) (ag : ℤ) (h : Inv A0 A1 L s ag) (hc : L ≤ s.a3) :
    Inv A0 A1 L (halfStep s) s.a1 := by
  obtain ⟨e0, e1, e2, e3, d01, d12, d23, og, o1, o2, lim, gu2, gv2, gu3, gv3, p2, p3, p1, r01⟩ := h
  have ha3 : 0 < s.a3 := by omega
  obtain ⟨q, hq⟩ : ∃ q, q = s.a2 / s.a3 := ⟨_, rfl⟩
  have hq1 : 1 ≤ q := by rw [hq]; exact Nat.div_pos (le_of_lt o2) ha3
  have hqle : q * s.a3 ≤ s.a2 := by rw [hq]; exact Nat.div_mul_le_self _ _
  have hqlt : s.a2 < q * s.a3 + s.a3 := by
    rw [hq]; have := Nat.lt_div_mul_add (a := s.a2) ha3; linarith
  have hsg : sgn (!s.even) = - sgn s.even := by cases s.even <;> simp [sgn]
  have hu3 : s.u3 ≤ q * s.u3 := Nat.le_mul_of_pos_left _ hq1
  have hv3 : s.v3 ≤ q * s.v3 := Nat.le_mul_of_pos_left _ hq1
  have ha3' : s.a3 ≤ q * s.a3 := Nat.le_mul_of_pos_left _ hq1
  constructor <;> simp only [halfStep, ← hq, hsg]
  · rw [e1]
  · rw [e2]; try ring
  · rw [e3]; try ring
  · push_cast [Nat.cast_sub hqle]; rw [e2, e3]; ring
  · linear_combination d12
  · linear_combination d23
  · push_cast; linear_combination (-1 : ℤ) * d23
  · exact_mod_cast o1
  · omega
  · omega
  · exact hc
  · exact gu3
  · exact gv3
  · omega
  · omega
  · exact p3
  · omega
  · left; exact p2
  · left; exact ⟨by omega, by omega⟩

theorem inv_loop (A0 A1 L : ℕ) (hL : 0 < L) (f : ℕ) (s : St) (ag : ℤ) (h : Inv A0 A1 L s ag) :
    ∃ ag', Inv A0 A1 L (loop L f s) ag' := by
  induction f generalizing s ag with
  | zero => exact ⟨ag, h⟩
  | succ f ih =>
    simp only [loop]
    split
    · next hc => exact ih _ _ (inv_step A0 A1 L hL s ag h hc)
    · exact ⟨ag, h⟩

/-- what "valid" means for the caller: exact for every completion of the prefixes. -/
def Valid (A0 A1 : ℕ) (m : Mat) : Prop :=
  ((m.1 : ℤ) * m.2.2.2.1 - m.2.1 * m.2.2.1 = sgn m.2.2.2.2) ∧
  ∀ K α β : ℤ, 1 ≤ K → 0 ≤ α → α < K → 0 ≤ β → β < K →
    if m.2.2.2.2 then
      0 ≤ (m.2.2.2.1 : ℤ) * (A1 * K + β) - m.2.2.1 * (A0 * K + α) ∧
      (m.2.2.2.1 : ℤ) * (A1 * K + β) - m.2.2.1 * (A0 * K + α) < m.1 * (A0 * K + α) - m.2.1 * (A1 * K + β)
    else
      0 ≤ (m.2.2.1 : ℤ) * (A0 * K + α) - m.2.2.2.1 * (A1 * K + β) ∧
      (m.2.2.1 : ℤ) * (A0 * K + α) - m.2.2.2.1 * (A1 * K + β) < m.2.1 * (A1 * K + β) - m.1 * (A0 * K + α)

theorem det_pos (c e : ℤ) {a b : ℤ} (ha : 0 ≤ a) (hb : 0 ≤ b) (h : c * b - e * a = 1 ∨ c * b - e * a = -1) : 0 < a + b := by
  rcases lt_or_eq_of_le (add_nonneg ha hb) with h' | h'
  · exact h'
  · have h1 : a = 0 := by linarith
    have h2 : b = 0 := by linarith
    subst h1 h2; simp at h

set_option maxHeartbeats 1000000 in
theorem sel_valid (A0 A1 L : ℕ) (s : St) (ag : ℤ) (h : Inv A0 A1 L s ag)
    (hA : A0 < L * L) (hAle : A1 ≤ A0) :
    select s = ident ∨ (Valid A0 A1 (select s) ∧ 1 ≤ (select s).2.2.1
      ∧ (select s).1 ≤ (select s).2.2.1 ∧ (select s).2.1 ≤ (select s).2.2.2.1) := by
  obtain ⟨e0, e1, e2, e3, d01, d12, d23, og, o1, o2, lim, gu2, gv2, gu3, gv3, p2, p3, p1, r01⟩ := h
  obtain ⟨a1, a2, a3, u0, v0, u1, v1, u2, v2, u3, v3, even⟩ := s
  simp only at e0 e1 e2 e3 d01 d12 d23 og o1 o2 lim gu2 gv2 gu3 gv3 p2 p3 p1 r01
  have hss : sgn even * sgn even = 1 := by cases even <;> simp [sgn]
  -- cofactor bounds from the Bezout-type identities
  have hb1 : (v2 : ℤ) * a1 + v1 * a2 = A0 := by
    rw [e1, e2]; linear_combination (-(A0 : ℤ) * sgn even) * d12 + (A0 : ℤ) * hss
  have hb2 : (u2 : ℤ) * a1 + u1 * a2 = A1 := by
    rw [e1, e2]; linear_combination (-(A1 : ℤ) * sgn even) * d12 + (A1 : ℤ) * hss
  have hb1n : v2 * a1 + v1 * a2 = A0 := by exact_mod_cast hb1
  have hb2n : u2 * a1 + u1 * a2 = A1 := by exact_mod_cast hb2
  have hv2L : v2 < L := by
    by_contra hc; push Not at hc
    have : L * L ≤ v2 * a1 := Nat.mul_le_mul hc (by omega)
    have : 0 ≤ v1 * a2 := Nat.zero_le _
    omega
  have hu2L : u2 < L := by
    by_contra hc; push Not at hc
    have : L * L ≤ u2 * a1 := Nat.mul_le_mul hc (by omega)
    have : 0 ≤ u1 * a2 := Nat.zero_le _
    omega
  have c12 : ((a1 - a2 : ℕ) : ℤ) = (a1 : ℤ) - a2 := Nat.cast_sub (by omega)
  have c23 : ((a2 - a3 : ℕ) : ℤ) = (a2 : ℤ) - a3 := Nat.cast_sub (by omega)
  have hid : u1 = 0 → ((u0, v0, u1, v1, even) : Mat) = ident := by
    intro h0
    have hv0 : v0 = 0 := by
      rcases p1 with h | h
      · omega
      · exact h
    rw [h0, hv0] at d01
    simp only [Nat.cast_zero, zero_mul, sub_zero] at d01
    cases even
    · simp only [sgn, Bool.false_eq_true, if_false] at d01
      have : (0 : ℤ) ≤ (u0 : ℤ) * v1 := by positivity
      omega
    · simp only [sgn, if_true] at d01
      have d01n : u0 * v1 = 1 := by exact_mod_cast d01
      have h1 : u0 = 1 := Nat.eq_one_of_mul_eq_one_right d01n
      have h2 : v1 = 1 := Nat.eq_one_of_mul_eq_one_left d01n
      rw [h0, hv0, h1, h2]; rfl
  cases even
  · -- odd orientation
    simp only [sgn, Bool.false_eq_true, if_false] at e0 e1 e2 e3 d01 d12 d23
    simp only [select, Bool.false_eq_true, if_false]
    split
    · next t1 =>
      split
      · next t2 =>
        right; refine ⟨⟨by simp only [sgn]; push_cast; linear_combination d23, ?_⟩, p3, (by first | omega | (dsimp only; omega)), (by first | omega | (dsimp only; omega))⟩
        intro K α β hK hα0 hα hβ0 hβ
        simp only [Bool.false_eq_true, if_false]
        have ht2 : (v3 : ℤ) ≤ a3 := by exact_mod_cast t2.1
        have ht3 : (u3 : ℤ) + u2 ≤ (a2 : ℤ) - a3 := by rw [← c23]; exact_mod_cast t2.2
        exact site K β α A1 A0 v2 u2 v3 u3 a2 a3 hK hβ0 hβ hα0 hα (by positivity) (by positivity) (by positivity)
          (by positivity) (by rw [e2]; ring) (by rw [e3]; ring) ht2 ht3
          (det_pos (v2 : ℤ) (v3 : ℤ) (by positivity) (by positivity) (by first | exact Or.inl (by linear_combination d23) | exact Or.inl (by linear_combination -d23) | exact Or.inr (by linear_combination d23) | exact Or.inr (by linear_combination -d23)))
      · right; refine ⟨⟨by simp only [sgn]; push_cast; linear_combination d12, ?_⟩, p2, (by first | omega | (dsimp only; omega)), (by first | omega | (dsimp only; omega))⟩
        intro K α β hK hα0 hα hβ0 hβ
        simp only [if_true]
        have ht2 : (u2 : ℤ) ≤ a2 := by exact_mod_cast (by omega : u2 ≤ a2)
        have ht3 : (v2 : ℤ) + v1 ≤ (a1 : ℤ) - a2 := by rw [← c12]; exact_mod_cast t1
        exact site K α β A0 A1 u1 v1 u2 v2 a1 a2 hK hα0 hα hβ0 hβ (by positivity) (by positivity) (by positivity)
          (by positivity) (by rw [e1]; ring) (by rw [e2]; ring) ht2 ht3
          (det_pos (u1 : ℤ) (u2 : ℤ) (by positivity) (by positivity) (by first | exact Or.inl (by linear_combination d12) | exact Or.inl (by linear_combination -d12) | exact Or.inr (by linear_combination d12) | exact Or.inr (by linear_combination -d12)))
    · rcases Nat.eq_zero_or_pos u1 with hu1 | hu1
      · exact Or.inl (hid hu1)
      right; refine ⟨⟨by simp only [sgn]; push_cast; linear_combination d01, ?_⟩, hu1, (by first | omega | (dsimp only; omega)), (by first | omega | (dsimp only; omega))⟩
      intro K α β hK hα0 hα hβ0 hβ
      simp only [Bool.false_eq_true, if_false]
      have ht2 : (v1 : ℤ) ≤ a1 := by exact_mod_cast (by omega : v1 ≤ a1)
      have ht3 : (u1 : ℤ) + u0 ≤ ag - a1 := by
        have : ((u1 + u0 : ℕ) : ℤ) ≤ (a2 : ℤ) := by exact_mod_cast (by omega : u1 + u0 ≤ a2)
        push_cast at this; linarith
      exact site K β α A1 A0 v0 u0 v1 u1 ag a1 hK hβ0 hβ hα0 hα (by positivity) (by positivity) (by positivity)
        (by positivity) (by rw [e0]; ring) (by rw [e1]; ring) ht2 ht3
        (det_pos (v0 : ℤ) (v1 : ℤ) (by positivity) (by positivity) (by first | exact Or.inl (by linear_combination d01) | exact Or.inl (by linear_combination -d01) | exact Or.inr (by linear_combination d01) | exact Or.inr (by linear_combination -d01)))
  · -- even orientation
    simp only [sgn, if_true] at e0 e1 e2 e3 d01 d12 d23
    simp only [select, if_true]
    split
    · next t1 =>
      split
      · next t2 =>
        right; refine ⟨⟨by simp only [sgn]; push_cast; linear_combination d23, ?_⟩, p3, (by first | omega | (dsimp only; omega)), (by first | omega | (dsimp only; omega))⟩
        intro K α β hK hα0 hα hβ0 hβ
        simp only [if_true]
        have ht2 : (u3 : ℤ) ≤ a3 := by exact_mod_cast t2.1
        have ht3 : (v3 : ℤ) + v2 ≤ (a2 : ℤ) - a3 := by rw [← c23]; exact_mod_cast t2.2
        exact site K α β A0 A1 u2 v2 u3 v3 a2 a3 hK hα0 hα hβ0 hβ (by positivity) (by positivity) (by positivity)
          (by positivity) (by rw [e2]; ring) (by rw [e3]; ring) ht2 ht3
          (det_pos (u2 : ℤ) (u3 : ℤ) (by positivity) (by positivity) (by first | exact Or.inl (by linear_combination d23) | exact Or.inl (by linear_combination -d23) | exact Or.inr (by linear_combination d23) | exact Or.inr (by linear_combination -d23)))
      · right; refine ⟨⟨by simp only [sgn]; push_cast; linear_combination d12, ?_⟩, p2, (by first | omega | (dsimp only; omega)), (by first | omega | (dsimp only; omega))⟩
        intro K α β hK hα0 hα hβ0 hβ
        simp only [Bool.false_eq_true, if_false]
        have ht2 : (v2 : ℤ) ≤ a2 := by exact_mod_cast (by omega : v2 ≤ a2)
        have ht3 : (u2 : ℤ) + u1 ≤ (a1 : ℤ) - a2 := by rw [← c12]; exact_mod_cast t1
        exact site K β α A1 A0 v1 u1 v2 u2 a1 a2 hK hβ0 hβ hα0 hα (by positivity) (by positivity) (by positivity)
          (by positivity) (by rw [e1]; ring) (by rw [e2]; ring) ht2 ht3
          (det_pos (v1 : ℤ) (v2 : ℤ) (by positivity) (by positivity) (by first | exact Or.inl (by linear_combination d12) | exact Or.inl (by linear_combination -d12) | exact Or.inr (by linear_combination d12) | exact Or.inr (by linear_combination -d12)))
    · rcases Nat.eq_zero_or_pos u1 with hu1 | hu1
      · exact Or.inl (hid hu1)
      right; refine ⟨⟨by simp only [sgn]; push_cast; linear_combination d01, ?_⟩, hu1, (by first | omega | (dsimp only; omega)), (by first | omega | (dsimp only; omega))⟩
      intro K α β hK hα0 hα hβ0 hβ
      simp only [if_true]
      have ht2 : (u1 : ℤ) ≤ a1 := by exact_mod_cast (by omega : u1 ≤ a1)
      have ht3 : (v1 : ℤ) + v0 ≤ ag - a1 := by
        have : ((v1 + v0 : ℕ) : ℤ) ≤ (a2 : ℤ) := by exact_mod_cast (by omega : v1 + v0 ≤ a2)
        push_cast at this; linarith
      exact site K α β A0 A1 u0 v0 u1 v1 ag a1 hK hα0 hα hβ0 hβ (by positivity) (by positivity) (by positivity)
        (by positivity) (by rw [e0]; ring) (by rw [e1]; ring) ht2 ht3
        (det_pos (u0 : ℤ) (u1 : ℤ) (by positivity) (by positivity) (by first | exact Or.inl (by linear_combination d01) | exact Or.inl (by linear_combination -d01) | exact Or.inr (by linear_combination d01) | exact Or.inr (by linear_combination -d01)))


/-- the loop's initial state: `a2 = a0 mod a1`, `a3 = a1 mod a2` and the first four cofactor pairs. -/
def initSt (a0 a1 : ℕ) : St :=
  { a1 := a1, a2 := a0 - a0 / a1 * a1, a3 := a1 - a1 / (a0 - a0 / a1 * a1) * (a0 - a0 / a1 * a1),
    u0 := 1, v0 := 0, u1 := 0, v1 := 1, u2 := 1, v2 := a0 / a1,
    u3 := a1 / (a0 - a0 / a1 * a1), v3 := 1 + a1 / (a0 - a0 / a1 * a1) * (a0 / a1), even := true }

/-- `Matrix::from_u64_prefix` with unpacked cofactors (`L = 2^32` in the code). -/
def prefixM (L fuel a0 a1 : ℕ) : Mat :=
  if a1 < L then ident
  else if a0 - a0 / a1 * a1 < L then
    if a0 / a1 ≤ a0 - a0 / a1 * a1 ∧ 1 ≤ a1 - (a0 - a0 / a1 * a1) then (0, 1, 1, a0 / a1, false) else ident
  else select (loop L fuel (initSt a0 a1))

/-- the invariant holds at loop entry. -/
theorem init_inv (L a0 a1 : ℕ) (hL : 0 < L) (hle : a1 ≤ a0) (h1 : L ≤ a1) (h2 : L ≤ a0 - a0 / a1 * a1) :
    Inv a0 a1 L (initSt a0 a1) (a0 : ℤ) := by
  unfold initSt
  have ha1 : 0 < a1 := by omega
  obtain ⟨q, hq⟩ : ∃ q, q = a0 / a1 := ⟨_, rfl⟩
  have hq1 : 1 ≤ q := by rw [hq]; exact Nat.div_pos hle ha1
  have hqle : q * a1 ≤ a0 := by rw [hq]; exact Nat.div_mul_le_self _ _
  have hqlt : a0 < q * a1 + a1 := by rw [hq]; have := Nat.lt_div_mul_add (a := a0) ha1; linarith
  have ha1' : a1 ≤ q * a1 := Nat.le_mul_of_pos_left _ hq1
  rw [← hq] at h2 ⊢
  obtain ⟨a2, ha2⟩ : ∃ a2, a2 = a0 - q * a1 := ⟨_, rfl⟩
  rw [← ha2] at h2 ⊢
  have ca2 : (a2 : ℤ) = (a0 : ℤ) - q * a1 := by rw [ha2]; push_cast [Nat.cast_sub hqle]; ring
  have ha2pos : 0 < a2 := by omega
  have ha2lt : a2 < a1 := by omega
  obtain ⟨q', hq'⟩ : ∃ q', q' = a1 / a2 := ⟨_, rfl⟩
  have hq'1 : 1 ≤ q' := by rw [hq']; exact Nat.div_pos (le_of_lt ha2lt) ha2pos
  have hq'le : q' * a2 ≤ a1 := by rw [hq']; exact Nat.div_mul_le_self _ _
  have hq'lt : a1 < q' * a2 + a2 := by rw [hq']; have := Nat.lt_div_mul_add (a := a1) ha2pos; linarith
  have ha2' : a2 ≤ q' * a2 := Nat.le_mul_of_pos_left _ hq'1
  have hqq : q ≤ q' * q := Nat.le_mul_of_pos_left _ hq'1
  rw [← hq']
  constructor <;> simp only [sgn, if_true]
  · push_cast; try ring
  · push_cast; try ring
  · rw [ca2]; push_cast; try ring
  · push_cast [Nat.cast_sub hq'le]; rw [ca2]; try ring
  · push_cast; try ring
  · push_cast; try ring
  · push_cast; try ring
  · rw [ca2]
    have : ((a1 : ℕ) : ℤ) ≤ (q : ℤ) * a1 := by exact_mod_cast ha1'
    linarith
  · omega
  · omega
  · exact h2
  · omega
  · omega
  · omega
  · omega
  · omega
  · omega
  · right; trivial
  · right; trivial

set_option maxHeartbeats 1000000 in
theorem prefix_valid (L fuel a0 a1 : ℕ) (hL : 0 < L) (hle : a1 ≤ a0) (hA : a0 < L * L) :
    prefixM L fuel a0 a1 = ident ∨ (Valid a0 a1 (prefixM L fuel a0 a1) ∧ 1 ≤ (prefixM L fuel a0 a1).2.2.1
      ∧ (prefixM L fuel a0 a1).1 ≤ (prefixM L fuel a0 a1).2.2.1
      ∧ (prefixM L fuel a0 a1).2.1 ≤ (prefixM L fuel a0 a1).2.2.2.1) := by
  unfold prefixM
  split
  · left; rfl
  · next h1 =>
    push Not at h1
    split
    · have ha1 : 0 < a1 := by omega
      obtain ⟨q, hq⟩ : ∃ q, q = a0 / a1 := ⟨_, rfl⟩
      have hq1 : 1 ≤ q := by rw [hq]; exact Nat.div_pos hle ha1
      have hqle : q * a1 ≤ a0 := by rw [hq]; exact Nat.div_mul_le_self _ _
      have hqlt : a0 < q * a1 + a1 := by rw [hq]; have := Nat.lt_div_mul_add (a := a0) ha1; linarith
      rw [← hq]
      obtain ⟨a2, ha2⟩ : ∃ a2, a2 = a0 - q * a1 := ⟨_, rfl⟩
      rw [← ha2]
      have ca2 : (a2 : ℤ) = (a0 : ℤ) - q * a1 := by rw [ha2]; push_cast [Nat.cast_sub hqle]; ring
      split
      · next t =>
        right
        refine ⟨⟨by simp [sgn], ?_⟩, le_refl _, by omega, hq1⟩
        intro K α β hK hα0 hα hβ0 hβ
        simp only [Bool.false_eq_true, if_false]
        have c12 : ((a1 - a2 : ℕ) : ℤ) = (a1 : ℤ) - a2 := Nat.cast_sub (by omega)
        have ht2 : (q : ℤ) ≤ a2 := by exact_mod_cast t.1
        have ht3 : (1 : ℤ) + 0 ≤ (a1 : ℤ) - a2 := by rw [← c12]; exact_mod_cast t.2
        have := site K β α a1 a0 1 0 q 1 a1 a2 hK hβ0 hβ hα0 hα (by norm_num) (by norm_num) (by positivity)
          (by norm_num) (by ring) (by rw [ca2]; ring) ht2 ht3 (by norm_num)
        push_cast
        constructor
        · linarith [this.1]
        · linarith [this.2]
      · left; rfl
    · next h2 =>
      push Not at h2
      obtain ⟨ag', hfin⟩ := inv_loop a0 a1 L hL fuel _ _ (init_inv L a0 a1 hL hle h1 h2)
      exact sel_valid a0 a1 L _ ag' hfin hA hle

/-- cofactor bounds implied by the invariant: every `u_j`, `v_j` is below `L` (so the SWAR words never carry),
    and the remainders are bounded by the inputs. -/
theorem inv_bounds (A0 A1 L : ℕ) (s : St) (ag : ℤ) (h : Inv A0 A1 L s ag) (hA : A0 < L * L) (hAle : A1 ≤ A0) :
    s.u3 < L ∧ s.v3 < L ∧ s.u2 ≤ s.u3 ∧ s.v2 ≤ s.v3 ∧ s.u1 ≤ s.u2 ∧ s.v1 ≤ s.v2 ∧ s.u0 ≤ s.u2 ∧ s.v0 ≤ s.v2
      ∧ s.a1 ≤ A1 := by
  obtain ⟨e0, e1, e2, e3, d01, d12, d23, og, o1, o2, lim, gu2, gv2, gu3, gv3, p2, p3, p1, r01⟩ := h
  obtain ⟨a1, a2, a3, u0, v0, u1, v1, u2, v2, u3, v3, even⟩ := s
  simp only at e0 e1 e2 e3 d01 d12 d23 og o1 o2 lim gu2 gv2 gu3 gv3 p2 p3 p1 r01 ⊢
  have hss : sgn even * sgn even = 1 := by cases even <;> simp [sgn]
  have hb1 : (v3 : ℤ) * a2 + v2 * a3 = A0 := by
    rw [e2, e3]; linear_combination ((A0 : ℤ) * sgn even) * d23 + (A0 : ℤ) * hss
  have hb2 : (u3 : ℤ) * a2 + u2 * a3 = A1 := by
    rw [e2, e3]; linear_combination ((A1 : ℤ) * sgn even) * d23 + (A1 : ℤ) * hss
  have hb3 : (u2 : ℤ) * a1 + u1 * a2 = A1 := by
    rw [e1, e2]; linear_combination (-(A1 : ℤ) * sgn even) * d12 + (A1 : ℤ) * hss
  have hb1n : v3 * a2 + v2 * a3 = A0 := by exact_mod_cast hb1
  have hb2n : u3 * a2 + u2 * a3 = A1 := by exact_mod_cast hb2
  have hb3n : u2 * a1 + u1 * a2 = A1 := by exact_mod_cast hb3
  refine ⟨?_, ?_, by omega, by omega, by omega, by omega, by omega, by omega, ?_⟩
  · by_contra hc; push Not at hc
    have : L * L ≤ u3 * a2 := Nat.mul_le_mul hc lim
    have : 0 ≤ u2 * a3 := Nat.zero_le _
    omega
  · by_contra hc; push Not at hc
    have : L * L ≤ v3 * a2 := Nat.mul_le_mul hc lim
    have : 0 ≤ v2 * a3 := Nat.zero_le _
    omega
  · have : a1 ≤ u2 * a1 := Nat.le_mul_of_pos_left _ p2
    have : 0 ≤ u1 * a2 := Nat.zero_le _
    omega

/-- the packed representation: no carry between the halves as long as both cofactors stay below `L`. -/
theorem pack_step (L u v u' v' q : ℕ) (hv : v + q * v' < L) :
    (u * L + v) + q * (u' * L + v') = (u + q * u') * L + (v + q * v') ∧
    ((u * L + v) + q * (u' * L + v')) / L = u + q * u' ∧ ((u * L + v) + q * (u' * L + v')) % L = v + q * v' := by
  have e : (u * L + v) + q * (u' * L + v') = (u + q * u') * L + (v + q * v') := by ring
  have hL : 0 < L := by omega
  refine ⟨e, ?_, ?_⟩
  · rw [e, Nat.add_comm, Nat.add_mul_div_right _ _ hL, Nat.div_eq_of_lt hv, Nat.zero_add]
  · rw [e, Nat.add_comm, Nat.add_mul_mod_self_right, Nat.mod_eq_of_lt hv]


/-- `Matrix::apply` on naturals (the code computes mod `2^BITS`; the true values are in range). -/
def applyN (m : Mat) (a b : ℕ) : ℕ × ℕ :=
  if m.2.2.2.2 then (m.1 * a - m.2.1 * b, m.2.2.2.1 * b - m.2.2.1 * a)
  else (m.2.1 * b - m.1 * a, m.2.2.1 * a - m.2.2.2.1 * b)

/-- a valid matrix makes progress and preserves the gcd, for every completion of the prefixes. -/
theorem apply_progress (A0 A1 : ℕ) (m : Mat) (hv : Valid A0 A1 m) (hm2 : 1 ≤ m.2.2.1)
    (K α β : ℕ) (hK : 1 ≤ K) (hα : α < K) (hβ : β < K) :
    Nat.gcd (applyN m (A0 * K + α) (A1 * K + β)).1 (applyN m (A0 * K + α) (A1 * K + β)).2
        = Nat.gcd (A0 * K + α) (A1 * K + β)
    ∧ (applyN m (A0 * K + α) (A1 * K + β)).2 < (applyN m (A0 * K + α) (A1 * K + β)).1
    ∧ (applyN m (A0 * K + α) (A1 * K + β)).2 < A1 * K + β := by
  obtain ⟨m0, m1, m2, m3, ev⟩ := m
  obtain ⟨hdet, hall⟩ := hv
  have h := hall K α β (by exact_mod_cast hK) (by positivity) (by exact_mod_cast hα) (by positivity)
    (by exact_mod_cast hβ)
  simp only at hdet h hm2
  obtain ⟨A, hA⟩ : ∃ A, A = A0 * K + α := ⟨_, rfl⟩
  obtain ⟨B, hB⟩ : ∃ B, B = A1 * K + β := ⟨_, rfl⟩
  have cA : ((A0 : ℤ) * K + α) = (A : ℤ) := by rw [hA]; push_cast; ring
  have cB : ((A1 : ℤ) * K + β) = (B : ℤ) := by rw [hB]; push_cast; ring
  rw [cA, cB] at h
  rw [← hA, ← hB]
  unfold applyN
  cases ev
  · -- odd: c = m1*B - m0*A, d = m2*A - m3*B, det = -1
    simp only [Bool.false_eq_true, if_false, sgn] at h hdet ⊢
    obtain ⟨hd0, hdc⟩ := h
    have hle_d : m3 * B ≤ m2 * A := by
      have : ((m3 * B : ℕ) : ℤ) ≤ ((m2 * A : ℕ) : ℤ) := by push_cast; linarith
      exact_mod_cast this
    have hle_c : m0 * A ≤ m1 * B := by
      have : ((m0 * A : ℕ) : ℤ) ≤ ((m1 * B : ℕ) : ℤ) := by push_cast; linarith
      exact_mod_cast this
    obtain ⟨c, hc⟩ : ∃ c, c = m1 * B - m0 * A := ⟨_, rfl⟩
    obtain ⟨d, hd⟩ : ∃ d, d = m2 * A - m3 * B := ⟨_, rfl⟩
    have cc : (c : ℤ) = (m1 : ℤ) * B - m0 * A := by rw [hc]; push_cast [Nat.cast_sub hle_c]; ring
    have cd : (d : ℤ) = (m2 : ℤ) * A - m3 * B := by rw [hd]; push_cast [Nat.cast_sub hle_d]; ring
    rw [← hc, ← hd]
    have eA : (A : ℤ) = m3 * c + m1 * d := by rw [cc, cd]; linear_combination ((A : ℤ)) * hdet
    have eB : (B : ℤ) = m2 * c + m0 * d := by rw [cc, cd]; linear_combination ((B : ℤ)) * hdet
    have eAn : A = m3 * c + m1 * d := by exact_mod_cast eA
    have eBn : B = m2 * c + m0 * d := by exact_mod_cast eB
    have hdcn : d < c := by
      have : (d : ℤ) < c := by rw [cc, cd]; exact hdc
      exact_mod_cast this
    refine ⟨?_, hdcn, ?_⟩
    · apply Nat.dvd_antisymm
      · apply Nat.dvd_gcd
        · rw [eAn]; exact dvd_add (Dvd.dvd.mul_left (Nat.gcd_dvd_left c d) _) (Dvd.dvd.mul_left (Nat.gcd_dvd_right c d) _)
        · rw [eBn]; exact dvd_add (Dvd.dvd.mul_left (Nat.gcd_dvd_left c d) _) (Dvd.dvd.mul_left (Nat.gcd_dvd_right c d) _)
      · apply Nat.dvd_gcd
        · rw [hc]; exact Nat.dvd_sub (Dvd.dvd.mul_left (Nat.gcd_dvd_right A B) _) (Dvd.dvd.mul_left (Nat.gcd_dvd_left A B) _)
        · rw [hd]; exact Nat.dvd_sub (Dvd.dvd.mul_left (Nat.gcd_dvd_left A B) _) (Dvd.dvd.mul_left (Nat.gcd_dvd_right A B) _)
    · rw [eBn]
      have : c ≤ m2 * c := Nat.le_mul_of_pos_left _ hm2
      have : 0 ≤ m0 * d := Nat.zero_le _
      omega
  · -- even: c = m0*A - m1*B, d = m3*B - m2*A, det = 1
    simp only [if_true, sgn] at h hdet ⊢
    obtain ⟨hd0, hdc⟩ := h
    have hle_d : m2 * A ≤ m3 * B := by
      have : ((m2 * A : ℕ) : ℤ) ≤ ((m3 * B : ℕ) : ℤ) := by push_cast; linarith
      exact_mod_cast this
    have hle_c : m1 * B ≤ m0 * A := by
      have : ((m1 * B : ℕ) : ℤ) ≤ ((m0 * A : ℕ) : ℤ) := by push_cast; linarith
      exact_mod_cast this
    obtain ⟨c, hc⟩ : ∃ c, c = m0 * A - m1 * B := ⟨_, rfl⟩
    obtain ⟨d, hd⟩ : ∃ d, d = m3 * B - m2 * A := ⟨_, rfl⟩
    have cc : (c : ℤ) = (m0 : ℤ) * A - m1 * B := by rw [hc]; push_cast [Nat.cast_sub hle_c]; ring
    have cd : (d : ℤ) = (m3 : ℤ) * B - m2 * A := by rw [hd]; push_cast [Nat.cast_sub hle_d]; ring
    rw [← hc, ← hd]
    have eA : (A : ℤ) = m3 * c + m1 * d := by rw [cc, cd]; linear_combination (-(A : ℤ)) * hdet
    have eB : (B : ℤ) = m2 * c + m0 * d := by rw [cc, cd]; linear_combination (-(B : ℤ)) * hdet
    have eAn : A = m3 * c + m1 * d := by exact_mod_cast eA
    have eBn : B = m2 * c + m0 * d := by exact_mod_cast eB
    have hdcn : d < c := by
      have : (d : ℤ) < c := by rw [cc, cd]; exact hdc
      exact_mod_cast this
    refine ⟨?_, hdcn, ?_⟩
    · apply Nat.dvd_antisymm
      · apply Nat.dvd_gcd
        · rw [eAn]; exact dvd_add (Dvd.dvd.mul_left (Nat.gcd_dvd_left c d) _) (Dvd.dvd.mul_left (Nat.gcd_dvd_right c d) _)
        · rw [eBn]; exact dvd_add (Dvd.dvd.mul_left (Nat.gcd_dvd_left c d) _) (Dvd.dvd.mul_left (Nat.gcd_dvd_right c d) _)
      · apply Nat.dvd_gcd
        · rw [hc]; exact Nat.dvd_sub (Dvd.dvd.mul_left (Nat.gcd_dvd_left A B) _) (Dvd.dvd.mul_left (Nat.gcd_dvd_right A B) _)
        · rw [hd]; exact Nat.dvd_sub (Dvd.dvd.mul_left (Nat.gcd_dvd_right A B) _) (Dvd.dvd.mul_left (Nat.gcd_dvd_left A B) _)
    · rw [eBn]
      have : c ≤ m2 * c := Nat.le_mul_of_pos_left _ hm2
      have : 0 ≤ m0 * d := Nat.zero_le _
      omega

end Ruint.Lh
