import Ruint.Lemmas.Radix
import Ruint.Model.Fmt
import Ruint.Gen.FmtTableFacts
import Ruint.Spec.Fmt

/-! Lemmas for C09: the chunked formatter prints positional notation. -/
namespace Ruint.Fmt
open Ruint Ruint.Radix Ruint.Gen Ruint.Gen.FmtTable

/-! ## core's `Nat.toDigits` is `Nat.digits`, most significant first, as characters -/

theorem toDigitsCore_eq (b : ℕ) (hb : 2 ≤ b) : ∀ (fuel n : ℕ) (acc : List Char), 0 < n → n < fuel →
    Nat.toDigitsCore b fuel n acc = (Nat.digits b n).reverse.map Nat.digitChar ++ acc := by
  intro fuel
  induction fuel with
  | zero => intro n acc _ h; omega
  | succ f ih =>
    intro n acc hn hf
    rw [Nat.digits_def' (by omega) hn]
    unfold Nat.toDigitsCore
    by_cases hz : n / b = 0
    · simp [hz]
    · simp only [hz, if_false]
      have hlt : n / b < n := Nat.div_lt_self hn (by omega)
      rw [ih (n / b) _ (Nat.pos_of_ne_zero hz) (by omega)]
      simp

theorem toDigits_pos (b n : ℕ) (hb : 2 ≤ b) (hn : 0 < n) :
    Nat.toDigits b n = (Nat.digits b n).reverse.map Nat.digitChar := by
  unfold Nat.toDigits
  rw [toDigitsCore_eq b hb (n + 1) n [] hn (by omega)]; simp

theorem toDigits_zero (b : ℕ) : Nat.toDigits b 0 = ['0'] := by
  simp [Nat.toDigits, Nat.toDigitsCore, Nat.digitChar]

/-! ## chunks -/

/-- letter-case map of a trait -/
def caseMap (upper : Bool) : Char → Char := if upper then Char.toUpper else id

theorem caseMap_zero (upper : Bool) : caseMap upper '0' = '0' := by
  cases upper <;> simp [caseMap]

/-- text of little-endian digits: most significant first, as characters, in the trait's letter case -/
def txt (upper : Bool) (ds : List ℕ) : List Char := (ds.reverse.map Nat.digitChar).map (caseMap upper)

theorem txt_length (upper : Bool) (ds : List ℕ) : (txt upper ds).length = ds.length := by simp [txt]

theorem txt_append (upper : Bool) (a b : List ℕ) : txt upper (a ++ b) = txt upper b ++ txt upper a := by
  simp [txt]

theorem txt_replicate_zero (upper : Bool) (k : ℕ) : txt upper (List.replicate k 0) = List.replicate k '0' := by
  have : Nat.digitChar 0 = '0' := by decide
  simp [txt, this, caseMap_zero]

theorem u64Digits_eq (b : ℕ) (hb : 2 ≤ b) (upper : Bool) (c : ℕ) :
    u64Digits b upper c = if c = 0 then ['0'] else txt upper (Nat.digits b c) := by
  unfold u64Digits
  rw [digitsLE_eq b c hb]
  by_cases h : c = 0
  · subst h; cases upper <;> simp
  · cases upper <;> simp [h, txt, caseMap]

/-- the chunks after the first: each padded to `w`. -/
def padded (row : Row) (upper : Bool) (cs : List ℕ) : List Char :=
  (cs.map fun c => zeroPad row.width (u64Digits row.base upper c)).flatten

theorem chunksText_false (row : Row) (upper : Bool) (cs : List ℕ) :
    chunksText row upper false cs = padded row upper cs := by
  induction cs with
  | nil => rfl
  | cons c cs ih => simp [chunksText, padded, ih] at *

theorem chunksText_true_cons (row : Row) (upper : Bool) (c : ℕ) (cs : List ℕ) :
    chunksText row upper true (c :: cs) = u64Digits row.base upper c ++ padded row upper cs := by
  simp [chunksText, chunksText_false, zeroPad]

theorem padded_append_single (row : Row) (upper : Bool) (cs : List ℕ) (x : ℕ) :
    padded row upper (cs ++ [x]) = padded row upper cs ++ zeroPad row.width (u64Digits row.base upper x) := by
  simp [padded]

/-- one inner chunk: `WIDTH` characters, the base-`b` digits of the chunk left-padded with zeros. -/
theorem zeroPad_chunk (b w : ℕ) (hb : 2 ≤ b) (hw : 0 < w) (upper : Bool) (c : ℕ) (hc : c < b ^ w) :
    zeroPad w (u64Digits b upper c)
      = txt upper (Nat.digits b c ++ List.replicate (w - (Nat.digits b c).length) 0) := by
  rw [u64Digits_eq b hb, txt_append, txt_replicate_zero]
  by_cases h : c = 0
  · subst h
    simp only [if_true, Nat.digits_zero, List.length_nil, Nat.sub_zero, txt, List.reverse_nil, List.map_nil,
      List.append_nil, zeroPad, List.length_singleton]
    have : w = (w - 1) + 1 := by omega
    conv_rhs => rw [this, List.replicate_succ']
  · simp only [h, if_false, zeroPad, txt_length]

/-- **the chunked text is the positional notation**: chunks of `to_base_be(MAX)` with `MAX = b^WIDTH`, first
    unpadded and the rest zero-padded to `WIDTH`, concatenate to the base-`b` digits of the value. -/
theorem chunks_eq_txt (row : Row) (hrow : row.Ok) (hb : 2 ≤ row.base) (upper : Bool) :
    ∀ v : ℕ, 0 < v → chunksText row upper true (Nat.digits row.max v).reverse = txt upper (Nat.digits row.base v) := by
  obtain ⟨hmax, hM1, _, hw⟩ := hrow
  intro v
  induction v using Nat.strong_induction_on with
  | _ v ih =>
    intro hv
    have hM : 1 < row.max := hM1
    rw [Nat.digits_def' hM hv, List.reverse_cons]
    have hc : v % row.max < row.base ^ row.width := by rw [← hmax]; exact Nat.mod_lt _ (by omega)
    by_cases hq : v / row.max = 0
    · -- a single chunk
      have hlt : v < row.max := by
        by_contra h; push Not at h
        have : 0 < v / row.max := Nat.div_pos h (by omega)
        omega
      rw [hq, Nat.digits_zero, List.reverse_nil, List.nil_append, chunksText_true_cons, Nat.mod_eq_of_lt hlt]
      simp only [padded, List.map_nil, List.flatten_nil, List.append_nil]
      rw [u64Digits_eq _ hb]
      have : v ≠ 0 := by omega
      simp [this]
    · have hqpos : 0 < v / row.max := Nat.pos_of_ne_zero hq
      have hqlt : v / row.max < v := Nat.div_lt_self hv hM
      have IH := ih _ hqlt hqpos
      -- the BE list of the quotient's chunks is non-empty
      have hne : (Nat.digits row.max (v / row.max)).reverse ≠ [] := by
        simp [Nat.digits_ne_nil_iff_ne_zero, hq]
      obtain ⟨c, cs, hcs⟩ := List.exists_cons_of_ne_nil hne
      rw [hcs] at IH ⊢
      rw [List.cons_append, chunksText_true_cons, padded_append_single, ← List.append_assoc,
        ← chunksText_true_cons, IH, zeroPad_chunk _ _ hb hw upper _ hc, ← txt_append]
      congr 1
      -- digits of v = digits of the low chunk, zero-padded, then the digits of the quotient
      have hlen : (Nat.digits row.base (v % row.max)).length ≤ row.width :=
        (Nat.digits_length_le_iff (by omega) _).mpr hc
      have key := Nat.digits_append_zeroes_append_digits (b := row.base)
        (k := row.width - (Nat.digits row.base (v % row.max)).length) (m := v / row.max) (n := v % row.max)
        (by omega) hqpos
      rw [key]
      congr 1
      have : (Nat.digits row.base (v % row.max)).length + (row.width - (Nat.digits row.base (v % row.max)).length)
          = row.width := by omega
      rw [this, ← hmax]
      have := Nat.mod_add_div v row.max
      omega

theorem trait_row_ok (t : Trait) : t.row.Ok := by
  cases t
  · exact decimal_ok
  · exact decimal_ok
  · exact binary_ok
  · exact octal_ok
  · exact hexadecimal_ok
  · exact hexadecimal_ok

theorem trait_base (t : Trait) : t.row.base = (Spec.Fmt.traitBase t).1 ∧ t.row.pfx = (Spec.Fmt.traitBase t).2.1
    ∧ t.upper = (Spec.Fmt.traitBase t).2.2 := by
  cases t <;> decide

theorem trait_base_ge (t : Trait) : 2 ≤ t.row.base := by
  cases t <;> decide

theorem digitText_eq (t : Trait) (v : ℕ) (hv : 0 < v) :
    Spec.Fmt.digitText t v = txt t.upper (Nat.digits t.row.base v) := by
  obtain ⟨h1, _, h3⟩ := trait_base t
  rw [h1, h3]
  have e2 := toDigits_pos 2 v (by decide) hv
  have e8 := toDigits_pos 8 v (by decide) hv
  have e10 := toDigits_pos 10 v (by decide) hv
  have e16 := toDigits_pos 16 v (by decide) hv
  cases t <;>
    simp [Spec.Fmt.digitText, Spec.Fmt.traitBase, e2, e8, e10, e16, txt, caseMap]

end Ruint.Fmt
