import Ruint.Lemmas.GenStr
import Ruint.Gen.WordsMacro2
import Ruint.Model.Macro

/-! `parse_digits` of the `uint!` proc macro as GENERATED from `ruint-macro/src/lib.rs`
    (`Ruint/Gen/WordsMacro2.lean`) equals the model `Ruint.Macro.parseDigits` of `Model/Macro.lean`
    (a `&str` is the list of its code points). -/
open Ruint Ruint.Radix Ruint.Macro
namespace Ruint.GenMacro2

/-! ## the duplicated step functions are one function -/

theorem step3_eq : @Ruint.Gen.macro_parse_digits_step3 = @Ruint.Gen.macro_parse_digits_step2 := rfl
theorem step4_eq : @Ruint.Gen.macro_parse_digits_step4 = @Ruint.Gen.macro_parse_digits_step2 := rfl
theorem step6_eq : @Ruint.Gen.macro_parse_digits_step6 = @Ruint.Gen.macro_parse_digits_step2 := rfl
theorem step7_eq : @Ruint.Gen.macro_parse_digits_step7 = @Ruint.Gen.macro_parse_digits_step2 := rfl
theorem step8_eq : @Ruint.Gen.macro_parse_digits_step8 = @Ruint.Gen.macro_parse_digits_step2 := rfl
theorem step5_eq : @Ruint.Gen.macro_parse_digits_step5 = @Ruint.Gen.macro_parse_digits_step1 := rfl

/-! ## the inner limb loop = `mulAddChain` -/

theorem inner_step_eq (base bound : ℕ) (l : List ℕ) (c it : ℕ) :
    Ruint.Gen.macro_parse_digits_step2 base bound (l, c, it) =
      if it < bound then
        ((l.set it (Rs.wadd 128 (Rs.wmul 128 (l.getD it 0) base) c % 2 ^ 64),
          Rs.wadd 128 (Rs.wmul 128 (l.getD it 0) base) c / 2 ^ 64 % 2 ^ 64,
          Rs.wadd 64 it 1), true)
      else ((l, c, it), false) := by
  unfold Ruint.Gen.macro_parse_digits_step2
  simp only [decide_eq_true_eq]

/-- the `u128` step `limb * base + carry` is exact and leaves a word carry. -/
theorem chain_arith (c x base : ℕ) (hc : c < 2 ^ 64) (hx : x < 2 ^ 64) (hb : base < 2 ^ 64) :
    Rs.wadd 128 (Rs.wmul 128 x base) c = c + x * base
      ∧ (c + x * base) / 2 ^ 64 % 2 ^ 64 = (c + x * base) / 2 ^ 64
      ∧ (c + x * base) / 2 ^ 64 < 2 ^ 64 := by
  have h1 : x * base ≤ (2 ^ 64 - 1) * (2 ^ 64 - 1) := Nat.mul_le_mul (by omega) (by omega)
  have h2 : (2 ^ 64 - 1) * (2 ^ 64 - 1) = 2 ^ 128 - 2 * 2 ^ 64 + 1 := by norm_num
  obtain ⟨p, hp⟩ : ∃ p, p = x * base := ⟨_, rfl⟩
  rw [← hp] at h1 ⊢
  unfold Rs.wadd Rs.wmul
  refine ⟨?_, ?_, ?_⟩ <;> omega

theorem inner_eq (base : ℕ) (hb : base < 2 ^ 64) :
    ∀ (xs pre : List ℕ) (c f bound : ℕ), Ruint.AllLt xs → c < 2 ^ 64 → bound < 2 ^ 64 → xs.length < f →
      bound = pre.length + xs.length →
      Rs.loop (Ruint.Gen.macro_parse_digits_step2 base bound) f (pre ++ xs, c, pre.length)
        = (pre ++ (mulAddChain base xs c).1, (mulAddChain base xs c).2, bound) := by
  intro xs
  induction xs with
  | nil =>
    intro pre c f bound _ _ _ hf hbd
    obtain ⟨f, rfl⟩ : ∃ g, f = g + 1 := ⟨f - 1, by simp at hf; omega⟩
    rw [GenRadixBE.loop_succ, inner_step_eq]
    simp [mulAddChain, hbd]
  | cons x xs ih =>
    intro pre c f bound hw hc h64 hf hbd
    obtain ⟨f, rfl⟩ : ∃ g, f = g + 1 := ⟨f - 1, by simp at hf; omega⟩
    simp only [List.length_cons] at hf hbd
    have hx : x < 2 ^ 64 := hw x (by simp)
    obtain ⟨ha, hm, hq⟩ := chain_arith c x base hc hx hb
    have hi : pre.length < bound := by omega
    have g2 : (pre ++ x :: xs).getD pre.length 0 = x := by simp
    have g3 : ∀ q, (pre ++ x :: xs).set pre.length q = (pre ++ [q]) ++ xs := by intro q; simp
    have g1 : ∀ q : ℕ, Rs.wadd 64 pre.length 1 = (pre ++ [q]).length := by
      intro q; simp only [List.length_append, List.length_singleton]; unfold Rs.wadd; omega
    rw [GenRadixBE.loop_succ, inner_step_eq]
    simp only [hi, if_true, g2, ha, g3, hm]
    rw [g1 ((c + x * base) % 2 ^ 64)]
    rw [ih (pre ++ [(c + x * base) % 2 ^ 64]) ((c + x * base) / 2 ^ 64) f bound
      (fun y hy => hw y (by simp [hy])) hq h64 (by omega) (by simp; omega)]
    simp [mulAddChain, W]

/-- the whole "multiply by base and add digit" block of the generated code = `accumulate` -/
theorem acc_eq (base : ℕ) (hb : base < 2 ^ 64) (limbs : List ℕ) (d F : ℕ) (hw : Ruint.AllLt limbs)
    (hd : d < 2 ^ 64) (h64 : limbs.length < 2 ^ 64) (hF : limbs.length < F) :
    Rs.loop (Ruint.Gen.macro_parse_digits_step2 base limbs.length) F (limbs, d, 0)
      = ((mulAddChain base limbs d).1, (mulAddChain base limbs d).2, limbs.length) := by
  have := inner_eq base hb limbs [] d F limbs.length hw hd h64 hF (by simp)
  simpa using this

theorem accumulate_eq (base : ℕ) (limbs : List ℕ) (d : ℕ) :
    accumulate base limbs d =
      if (mulAddChain base limbs d).2 > 0 then (mulAddChain base limbs d).1 ++ [(mulAddChain base limbs d).2]
      else (mulAddChain base limbs d).1 := by
  simp only [accumulate]

theorem accumulate_facts (base : ℕ) (hb : base < 2 ^ 64) (limbs : List ℕ) (d : ℕ) (hw : Ruint.AllLt limbs)
    (hd : d < 2 ^ 64) :
    Ruint.AllLt (accumulate base limbs d) ∧ (accumulate base limbs d).length ≤ limbs.length + 1 := by
  obtain ⟨_, c2, c3⟩ := mulAddChain_spec base limbs d
  have c4 : (mulAddChain base limbs d).2 < W := mulAddChain_carry_lt base hb limbs d hw hd
  rw [accumulate_eq]
  split_ifs
  · refine ⟨AllLt.append c3 (AllLt.cons c4 AllLt.nil), ?_⟩
    simp only [List.length_append, List.length_singleton]; omega
  · exact ⟨c3, by omega⟩

/-! ## the character loop -/

/-- the digit map of the generated `match c`, on code points -/
def gdig (n : ℕ) : Option ℕ :=
  if 48 ≤ n ∧ n ≤ 57 then some (Rs.wsub 64 n 48)
  else if 97 ≤ n ∧ n ≤ 102 then some (Rs.wadd 64 (Rs.wsub 64 n 97) 10)
  else if 65 ≤ n ∧ n ≤ 70 then some (Rs.wadd 64 (Rs.wsub 64 n 65) 10)
  else none

theorem gdig_eq (c : Char) : gdig c.toNat = hexDigit c := by
  unfold gdig hexDigit inRange
  simp only [show '0'.toNat = 48 from rfl, show '9'.toNat = 57 from rfl, show 'a'.toNat = 97 from rfl,
    show 'f'.toNat = 102 from rfl, show 'A'.toNat = 65 from rfl, show 'F'.toNat = 70 from rfl,
    Bool.and_eq_true, decide_eq_true_eq]
  generalize c.toNat = n
  split_ifs <;> simp only [Option.some.injEq] <;> (simp only [Rs.wsub, Rs.wadd]; omega)

theorem gdig_lt (n d : ℕ) (h : gdig n = some d) : d < 2 ^ 64 := by
  unfold gdig at h
  split_ifs at h <;> injection h with h <;> (rw [← h]; simp only [Rs.wsub, Rs.wadd]; omega)

/-- one iteration of the generated character loop (latch not set) -/
theorem step1_raw (F base : ℕ) (digits : List ℕ) (bound it : ℕ) (limbs : List ℕ) (hit : it < bound) :
    Ruint.Gen.macro_parse_digits_step1 F base digits bound ((it, limbs), none) =
      match gdig (digits.getD it 0) with
      | some d =>
        if base ≤ d then (((it, limbs), some (some (Except.error (1, digits.getD it 0, base)))), false)
        else
          (((Rs.wadd 64 it 1,
            if (Rs.loop (Ruint.Gen.macro_parse_digits_step2 base limbs.length) F (limbs, d, 0)).2.1 > 0 then
              (Rs.loop (Ruint.Gen.macro_parse_digits_step2 base limbs.length) F (limbs, d, 0)).1
                ++ [(Rs.loop (Ruint.Gen.macro_parse_digits_step2 base limbs.length) F (limbs, d, 0)).2.1]
            else (Rs.loop (Ruint.Gen.macro_parse_digits_step2 base limbs.length) F (limbs, d, 0)).1), none), true)
      | none =>
        if digits.getD it 0 = 95 then (((Rs.wadd 64 it 1, limbs), none), true)
        else (((it, limbs), some (some (Except.error (0, digits.getD it 0, 0)))), false) := by
  unfold Ruint.Gen.macro_parse_digits_step1 gdig
  simp only [step3_eq, step4_eq, hit, decide_true, if_true, Bool.and_eq_true, decide_eq_true_eq, ge_iff_le,
    gt_iff_lt, beq_iff_eq]
  by_cases h1 : 48 ≤ digits.getD it 0 ∧ digits.getD it 0 ≤ 57
  · rw [if_pos h1, if_pos h1]
  · rw [if_neg h1, if_neg h1]
    by_cases h2 : 97 ≤ digits.getD it 0 ∧ digits.getD it 0 ≤ 102
    · rw [if_pos h2, if_pos h2]
    · rw [if_neg h2, if_neg h2]
      by_cases h3 : 65 ≤ digits.getD it 0 ∧ digits.getD it 0 ≤ 70
      · rw [if_pos h3, if_pos h3]
      · rw [if_neg h3, if_neg h3]

theorem step1_end (F base : ℕ) (digits : List ℕ) (bound : ℕ)
    (st : (ℕ × List ℕ) × Option (Option (Except (ℕ × ℕ × ℕ) (List ℕ)))) (hit : ¬ st.1.1 < bound) :
    Ruint.Gen.macro_parse_digits_step1 F base digits bound st = (st, false) := by
  unfold Ruint.Gen.macro_parse_digits_step1
  simp only [hit, decide_false, Bool.false_eq_true, if_false]

/-- one iteration, in terms of the model's pieces -/
theorem step1_char (F base : ℕ) (hb : base < 2 ^ 64) (digits : List ℕ) (bound it : ℕ) (limbs : List ℕ) (c : Char)
    (hit : it < bound) (h64 : it + 1 < 2 ^ 64) (hc : digits.getD it 0 = c.toNat) (hw : Ruint.AllLt limbs)
    (hl64 : limbs.length < 2 ^ 64) (hF : limbs.length < F) :
    Ruint.Gen.macro_parse_digits_step1 F base digits bound ((it, limbs), none) =
      match hexDigit c with
      | some d =>
        if digitRejected d base then (((it, limbs), some (some (Except.error (1, c.toNat, base)))), false)
        else (((it + 1, accumulate base limbs d), none), true)
      | none =>
        if c = '_' then (((it + 1, limbs), none), true)
        else (((it, limbs), some (some (Except.error (0, c.toNat, 0)))), false) := by
  rw [step1_raw F base digits bound it limbs hit, hc, gdig_eq, GenStr.wadd_eq it 1 h64]
  cases hd : hexDigit c with
  | none =>
    simp only [GenStr.ceq, show '_'.toNat = 95 from rfl]
  | some d =>
    have hdlt : d < 2 ^ 64 := gdig_lt c.toNat d (by rw [gdig_eq, hd])
    simp only [acc_eq base hb limbs d F hw hdlt hl64 hF, accumulate_eq, digitRejected, ge_iff_le,
      decide_eq_true_eq, gt_iff_lt]

/-- what `parse_digits` returns from the final loop state -/
def fin (s : (ℕ × List ℕ) × Option (Option (Except (ℕ × ℕ × ℕ) (List ℕ)))) :
    Option (Except (ℕ × ℕ × ℕ) (List ℕ)) :=
  s.2.getD (some (Except.ok s.1.2))

def toRes : Option (Except (ℕ × ℕ × ℕ) (List ℕ)) → Except Ruint.Macro.DigitsErr (List ℕ)
  | none => .error .panic
  | some (.ok l) => .ok l
  | some (.error (0, c, _)) => .error (.invalidChar (Char.ofNat c))
  | some (.error (_, c, b)) => .error (.invalidDigit (Char.ofNat c) b)

theorem outer_eq (base : ℕ) (hb : base < 2 ^ 64) (cs : List Char) (h64 : cs.length + 1 < 2 ^ 64) (F : ℕ)
    (hF : cs.length + 1 < F) :
    ∀ (l pre : List Char) (limbs : List ℕ) (g : ℕ), pre ++ l = cs → Ruint.AllLt limbs →
      limbs.length ≤ pre.length + 1 → l.length < g →
      toRes (fin (Rs.loop (Ruint.Gen.macro_parse_digits_step1 F base (cs.map Char.toNat) cs.length) g
            ((pre.length, limbs), none)))
        = digitLoop base l limbs := by
  intro l
  induction l with
  | nil =>
    intro pre limbs g hcs _ _ hg
    obtain ⟨g, rfl⟩ : ∃ k, g = k + 1 := ⟨g - 1, by simp at hg; omega⟩
    have hn : ¬ pre.length < cs.length := by rw [← hcs]; simp
    rw [GenRadixBE.loop_succ, step1_end _ _ _ _ _ hn]
    simp [fin, toRes, digitLoop]
  | cons c l ih =>
    intro pre limbs g hcs hw hll hg
    obtain ⟨g, rfl⟩ : ∃ k, g = k + 1 := ⟨g - 1, by simp at hg; omega⟩
    have hlen : cs.length = pre.length + (l.length + 1) := by rw [← hcs]; simp
    have hgd : (cs.map Char.toNat).getD pre.length 0 = c.toNat := by rw [← hcs]; exact GenStr.getD_mid pre l c
    have hcs' : (pre ++ [c]) ++ l = cs := by rw [← hcs]; simp
    have hg' : l.length < g := by simp at hg; omega
    rw [GenRadixBE.loop_succ, step1_char F base hb _ _ _ limbs c (by omega) (by omega) hgd hw (by omega) (by omega)]
    cases hd : hexDigit c with
    | none =>
      by_cases hu : c = '_'
      · have := ih (pre ++ [c]) limbs g hcs' hw (by simp; omega) hg'
        simp only [List.length_append, List.length_singleton] at this
        simp only [if_pos hu, digitLoop, hd]
        exact this
      · simp only [hu, if_false, digitLoop, hd, Bool.false_eq_true, fin, Option.getD_some, toRes,
          Char.ofNat_toNat]
    | some d =>
      have hdlt : d < 2 ^ 64 := gdig_lt c.toNat d (by rw [gdig_eq, hd])
      by_cases hr : digitRejected d base = true
      · simp only [hr, if_true, digitLoop, hd, Bool.false_eq_true, if_false, fin, Option.getD_some, toRes,
          Char.ofNat_toNat]
      · obtain ⟨a1, a2⟩ := accumulate_facts base hb limbs d hw hdlt
        have := ih (pre ++ [c]) (accumulate base limbs d) g hcs' a1 (by simp; omega) hg'
        simp only [List.length_append, List.length_singleton] at this
        simp only [hr, if_false, if_true, digitLoop, hd, Bool.false_eq_true]
        exact this

/-- the character loop from the initial state -/
theorem run_eq (base : ℕ) (hb : base < 2 ^ 64) (l : List Char) (h64 : l.length + 1 < 2 ^ 64) (F : ℕ)
    (hF : l.length + 1 < F) :
    toRes (fin (Rs.loop (Ruint.Gen.macro_parse_digits_step1 F base (l.map Char.toNat) (l.map Char.toNat).length) F
          ((0, [0]), none)))
      = digitLoop base l [0] := by
  have hz : Ruint.AllLt [0] := AllLt.cons W_pos AllLt.nil
  have := outer_eq base hb l h64 F hF l [] [0] F rfl hz (by simp) (by omega)
  simpa using this

/-! ## `parse_digits` -/

theorem utf8Len_eq (cs : List Char) : Rs.utf8Len (cs.map Char.toNat) = Ruint.Macro.utf8Len cs := by
  have h : ∀ (cs : List Char) (a : ℕ),
      cs.foldl (fun a c => a + c.utf8Size) a = a + Rs.utf8Len (cs.map Char.toNat) := by
    intro cs
    induction cs with
    | nil => intro a; simp [Rs.utf8Len]
    | cons c cs ih =>
      intro a
      simp only [List.foldl_cons, List.map_cons, Rs.utf8Len, ih, GenStr.utf8Size_eq]
      omega
  unfold Ruint.Macro.utf8Len
  rw [h]; simp

theorem map_eq_iff (l m : List Char) : l.map Char.toNat = m.map Char.toNat ↔ l = m :=
  List.map_inj_right (fun _ _ h => Char.toNat_inj.mp h)

theorem parse_digits_eq (cs : List Char) (hl : cs.length < 2 ^ 63) (f : ℕ) (hf : 2 * cs.length + 4 < f) :
    toRes (Ruint.Gen.macro_parse_digits f (cs.map Char.toNat)) = Ruint.Macro.parseDigits cs := by
  have hs := GenStr.split_len cs 2
  have R : ∀ (b : ℕ) (l : List Char), b < 2 ^ 64 → l.length ≤ cs.length →
      toRes (fin (Rs.loop (Ruint.Gen.macro_parse_digits_step1 f b (l.map Char.toNat) (l.map Char.toNat).length) f
          ((0, [0]), none))) = digitLoop b l [0] :=
    fun b l hb hll => run_eq b hb l (by omega) f (by omega)
  unfold Ruint.Gen.macro_parse_digits Ruint.Macro.parseDigits
  simp only [step5_eq, utf8Len_eq, GenStr.isCB_eq, GenStr.split_eq,
    show ([48, 120] : List ℕ) = ['0', 'x'].map Char.toNat from rfl,
    show ([48, 111] : List ℕ) = ['0', 'o'].map Char.toNat from rfl,
    show ([48, 98] : List ℕ) = ['0', 'b'].map Char.toNat from rfl, beq_iff_eq,
    decide_eq_true_eq, ge_iff_le]
  by_cases h2 : 2 ≤ Ruint.Macro.utf8Len cs
  · simp only [h2, if_true]
    by_cases hcb : isCharBoundary cs 2 = true
    · simp only [hcb, if_true, not_true_eq_false, if_false]
      generalize splitAtByte cs 2 = p at hs ⊢
      obtain ⟨pfx, rest⟩ := p
      dsimp only at hs ⊢
      simp only [map_eq_iff]
      split_ifs <;> dsimp only <;> apply R <;> omega
    · simp only [hcb, if_false, Bool.false_eq_true, not_false_eq_true, if_true, toRes]
  · simp only [h2, if_false]
    exact R 10 cs (by omega) (by omega)

end Ruint.GenMacro2

#print axioms Ruint.GenMacro2.parse_digits_eq
