import Ruint.Lemmas.GenShiftWrap
import Ruint.Gen.WordsShiftOps
/-! `Shl<Uint>` / `Shr<Uint>` (`src/bits.rs`: the shift amount is itself a `Uint`; any non-zero limb above the lowest gives
    zero) as GENERATED into `Gen/WordsShiftOps.lean` equal the models `Shift.shlUint` / `shrUint`. -/
namespace Ruint.GenShiftOps
open Ruint Ruint.Shift

theorem getD_headD (l : List ℕ) : l.getD 0 0 = l.headD 0 := by cases l <;> rfl

theorem shl_uint_eq (bits : ℕ) (hN : nlimbs bits < 2 ^ 64) (a rhs : List ℕ) (ha : Canon bits a) :
    Ruint.Gen.uint_shl_uint (nlimbs bits + 1) bits (nlimbs bits) a rhs = shlUint bits a rhs := by
  unfold Ruint.Gen.uint_shl_uint shlUint isNonzero
  by_cases h0 : bits = 0
  · simp [h0]
  · have hb : (bits == 0) = false := by simpa using h0
    simp only [hb, h0, if_false, Bool.false_eq_true]
    by_cases hz : ((rhs.drop 1).any fun limb => limb != 0) = true
    · simp only [hz, if_true]; rfl
    · simp only [hz, if_false, Bool.false_eq_true]
      rw [Ruint.GenShiftWrap.wrapping_shl_eq bits hN a ha, getD_headD]

theorem shr_uint_eq (bits : ℕ) (hN : nlimbs bits < 2 ^ 64) (a rhs : List ℕ) (ha : Canon bits a) :
    Ruint.Gen.uint_shr_uint (nlimbs bits + 1) bits (nlimbs bits) a rhs = shrUint bits a rhs := by
  unfold Ruint.Gen.uint_shr_uint shrUint isNonzero
  by_cases h0 : bits = 0
  · simp [h0]
  · have hb : (bits == 0) = false := by simpa using h0
    simp only [hb, h0, if_false, Bool.false_eq_true]
    by_cases hz : ((rhs.drop 1).any fun limb => limb != 0) = true
    · simp only [hz, if_true]; rfl
    · simp only [hz, if_false, Bool.false_eq_true]
      rw [Ruint.GenShiftWrap.wrapping_shr_eq bits hN a ha, getD_headD]

end Ruint.GenShiftOps
