import Ruint.Base
import Mathlib.Tactic.Ring
import Mathlib.Tactic.Linarith
import Mathlib.Tactic.NormNum
import Mathlib.Tactic.Positivity
import Mathlib.Tactic.Push

/-! Foundations used by every property: `val` bounds, append, the top-limb mask lemma. -/
namespace Ruint

theorem W_pos : 0 < W := by unfold W; positivity
theorem W_eq : W = 2 ^ 64 := rfl

theorem AllLt.tail {x : ℕ} {xs : List ℕ} (h : AllLt (x :: xs)) : AllLt xs :=
  fun y hy => h y (by simp [hy])
theorem AllLt.head {x : ℕ} {xs : List ℕ} (h : AllLt (x :: xs)) : x < W := h x (by simp)
theorem AllLt.cons {x : ℕ} {xs : List ℕ} (hx : x < W) (h : AllLt xs) : AllLt (x :: xs) := by
  intro y hy
  simp only [List.mem_cons] at hy
  rcases hy with rfl | hy
  · exact hx
  · exact h y hy
theorem AllLt.nil : AllLt [] := fun _ h => by simp at h
theorem AllLt.append {l m : List ℕ} (hl : AllLt l) (hm : AllLt m) : AllLt (l ++ m) := by
  intro y hy
  simp only [List.mem_append] at hy
  rcases hy with h | h
  · exact hl y h
  · exact hm y h
theorem AllLt.left {l m : List ℕ} (h : AllLt (l ++ m)) : AllLt l :=
  fun y hy => h y (by simp [hy])
theorem AllLt.right {l m : List ℕ} (h : AllLt (l ++ m)) : AllLt m :=
  fun y hy => h y (by simp [hy])

theorem val_append_single (l : List ℕ) (x : ℕ) : val (l ++ [x]) = val l + W ^ l.length * x := by
  induction l with
  | nil => simp
  | cons y ys ih => simp only [List.cons_append, val_cons, ih, List.length_cons, pow_succ]; ring

theorem val_append (l m : List ℕ) : val (l ++ m) = val l + W ^ l.length * val m := by
  induction l with
  | nil => simp
  | cons y ys ih => simp only [List.cons_append, val_cons, ih, List.length_cons, pow_succ]; ring

theorem val_lt_pow (l : List ℕ) (h : AllLt l) : val l < W ^ l.length := by
  induction l with
  | nil => simp
  | cons x xs ih =>
    have hx : x < W := h x (by simp)
    have hxs := ih (fun y hy => h y (by simp [hy]))
    simp only [val_cons, List.length_cons, pow_succ]
    nlinarith [Nat.zero_le (val xs)]

/-- equal-length word lists with equal value are equal. -/
theorem val_inj : ∀ (l m : List ℕ), l.length = m.length → AllLt l → AllLt m → val l = val m → l = m
  | [], [], _, _, _, _ => rfl
  | [], _ :: _, h, _, _, _ => by simp at h
  | _ :: _, [], h, _, _, _ => by simp at h
  | x :: xs, y :: ys, h, hl, hm, hv => by
    simp only [List.length_cons, Nat.add_right_cancel_iff] at h
    simp only [val_cons] at hv
    have hx := hl.head
    have hy := hm.head
    have h1 : x = y := by
      have := congrArg (· % W) hv
      simp only [Nat.add_mul_mod_self_left] at this
      rwa [Nat.mod_eq_of_lt hx, Nat.mod_eq_of_lt hy] at this
    subst h1
    have h2 : val xs = val ys := by
      have : W * val xs = W * val ys := by omega
      exact Nat.eq_of_mul_eq_mul_left W_pos this
    rw [val_inj xs ys h hl.tail hm.tail h2]

theorem toLimbs_allLt (n v : ℕ) : AllLt (toLimbs n v) := by
  induction n generalizing v with
  | zero => exact AllLt.nil
  | succ n ih => exact AllLt.cons (Nat.mod_lt _ W_pos) (ih _)

theorem val_toLimbs (n v : ℕ) : val (toLimbs n v) = v % W ^ n := by
  induction n generalizing v with
  | zero => simp [toLimbs, Nat.mod_one]
  | succ n ih =>
    simp only [toLimbs, val_cons, ih, pow_succ]
    rw [Nat.mul_comm (W ^ n) W, Nat.mod_mul, Nat.add_comm]

/-- number of significant bits in the top limb -/
def topBits (bits : ℕ) : ℕ := bits - 64 * (nlimbs bits - 1)

theorem topBits_range (bits : ℕ) (h : 0 < bits) : 1 ≤ topBits bits ∧ topBits bits ≤ 64
    ∧ bits = 64 * (nlimbs bits - 1) + topBits bits := by
  unfold topBits nlimbs; omega

theorem nlimbs_pos (bits : ℕ) (h : 0 < bits) : 0 < nlimbs bits := by unfold nlimbs; omega

theorem mask_eq (bits : ℕ) (h : 0 < bits) : mask bits = 2 ^ topBits bits - 1 := by
  unfold mask
  have hb : bits ≠ 0 := by omega
  simp only [hb, if_false]
  by_cases h64 : bits % 64 = 0
  · simp only [h64, if_true]
    have : topBits bits = 64 := by unfold topBits nlimbs; omega
    rw [this]; rfl
  · simp only [h64, if_false]
    have : topBits bits = bits % 64 := by unfold topBits nlimbs; omega
    rw [this]

theorem mask_succ (bits : ℕ) (h : 0 < bits) : mask bits + 1 = 2 ^ topBits bits := by
  rw [mask_eq bits h]
  have : 0 < 2 ^ topBits bits := by positivity
  omega

theorem mask_lt_W (bits : ℕ) : mask bits < W := by
  unfold mask W
  split
  · positivity
  · split
    · have : 0 < 2 ^ 64 := by positivity
      omega
    · have : 2 ^ (bits % 64) ≤ 2 ^ 64 := Nat.pow_le_pow_right (by norm_num) (by omega)
      have : 0 < 2 ^ (bits % 64) := by positivity
      omega

theorem two_pow_bits (bits : ℕ) (h : 0 < bits) :
    2 ^ bits = W ^ (nlimbs bits - 1) * 2 ^ topBits bits := by
  obtain ⟨_, _, e⟩ := topBits_range bits h
  conv_lhs => rw [e]
  rw [pow_add, pow_mul]; rfl

theorem pow_dvd_W (bits : ℕ) : 2 ^ bits ∣ W ^ nlimbs bits := by
  unfold W nlimbs
  rw [← pow_mul]
  exact pow_dvd_pow 2 (by omega)

theorem two_pow_le_W (bits : ℕ) : 2 ^ bits ≤ W ^ nlimbs bits :=
  Nat.le_of_dvd (by have := W_pos; positivity) (pow_dvd_W bits)

/-- top limb test ⇔ value test, and masking the top limb = reducing the value mod `2^bits`. -/
theorem top_mask (bits : ℕ) (h : 0 < bits) (init : List ℕ) (t : ℕ)
    (hlen : init.length = nlimbs bits - 1) (hinit : AllLt init) :
    (t ≤ mask bits ↔ val (init ++ [t]) < 2 ^ bits)
    ∧ val (init ++ [t % 2 ^ topBits bits]) = val (init ++ [t]) % 2 ^ bits := by
  have hlow := val_lt_pow init hinit
  rw [hlen] at hlow
  rw [val_append_single, val_append_single, hlen, two_pow_bits bits h, mask_eq bits h]
  have hPpos : 0 < W ^ (nlimbs bits - 1) := by have := W_pos; positivity
  have hTpos : 0 < 2 ^ topBits bits := by positivity
  generalize W ^ (nlimbs bits - 1) = P at *
  generalize 2 ^ topBits bits = T at *
  constructor
  · constructor
    · intro hle
      have : t + 1 ≤ T := by omega
      nlinarith
    · intro hlt
      by_contra hcon
      push Not at hcon
      have : T ≤ t := by omega
      nlinarith
  · have e := Nat.div_add_mod t T
    have hm := Nat.mod_lt t hTpos
    have hlt : val init + P * (t % T) < P * T := by nlinarith
    have : val init + P * t = (val init + P * (t % T)) + P * T * (t / T) := by
      have : P * t = P * (T * (t / T) + t % T) := by rw [e]
      rw [this]; ring
    rw [this, Nat.add_mul_mod_self_left, Nat.mod_eq_of_lt hlt]

/-- split a non-empty list into its init and last element -/
theorem exists_init_last (l : List ℕ) (h : l ≠ []) : ∃ init t, l = init ++ [t] :=
  ⟨l.dropLast, l.getLast h, (List.dropLast_append_getLast h).symm⟩

theorem maskTop_append (bits : ℕ) (init : List ℕ) (t : ℕ) :
    maskTop bits (init ++ [t]) = init ++ [t % (mask bits + 1)] := by
  induction init with
  | nil => simp [maskTop]
  | cons x xs ih =>
    cases hxs : xs ++ [t] with
    | nil => simp at hxs
    | cons y ys =>
      simp only [List.cons_append, hxs, maskTop]
      rw [← hxs, ih]

theorem maskTop_length (bits : ℕ) (l : List ℕ) : (maskTop bits l).length = l.length := by
  by_cases h : l = []
  · subst h; simp [maskTop]
  · obtain ⟨i, t, rfl⟩ := exists_init_last l h
    rw [maskTop_append]; simp

/-- `masked()` on a full-limb word list: canonical result with value reduced mod `2^bits`;
    and the `top > MASK` test is the value test. -/
theorem maskTop_spec (bits : ℕ) (h : 0 < bits) (l : List ℕ)
    (hlen : l.length = nlimbs bits) (hl : AllLt l) :
    Canon bits (maskTop bits l) ∧ val (maskTop bits l) = val l % 2 ^ bits
    ∧ (mask bits < l.getLast?.getD 0 ↔ 2 ^ bits ≤ val l) := by
  have hne : l ≠ [] := by
    intro e; subst e; have := nlimbs_pos bits h; simp at hlen; omega
  obtain ⟨init, t, rfl⟩ := exists_init_last l hne
  have hil : init.length = nlimbs bits - 1 := by simp at hlen; omega
  obtain ⟨h1, h2⟩ := top_mask bits h init t hil hl.left
  rw [maskTop_append, mask_succ bits h]
  refine ⟨⟨by simp at hlen ⊢; omega, ?_, ?_⟩, h2, ?_⟩
  · apply AllLt.append hl.left
    apply AllLt.cons _ AllLt.nil
    exact lt_of_le_of_lt (Nat.mod_le _ _) (hl.right.head)
  · rw [h2]; exact Nat.mod_lt _ (by positivity)
  · simp only [List.getLast?_append, List.getLast?_singleton, Option.some_or, Option.getD_some]
    rw [← not_le, h1, not_lt]

theorem canon_zero_bits (l : List ℕ) (h : Canon 0 l) : l = [] := by
  have := h.1; simpa [nlimbs] using this

theorem Canon.val_lt {bits : ℕ} {l : List ℕ} (h : Canon bits l) : val l < 2 ^ bits := h.2.2

theorem canon_toLimbs (bits v : ℕ) (h : v < 2 ^ bits) : Canon bits (toLimbs (nlimbs bits) v) := by
  refine ⟨by simp, toLimbs_allLt _ _, ?_⟩
  rw [val_toLimbs]
  exact lt_of_le_of_lt (Nat.mod_le _ _) h

theorem val_toLimbs_of_lt (bits v : ℕ) (h : v < 2 ^ bits) : val (toLimbs (nlimbs bits) v) = v := by
  rw [val_toLimbs]
  exact Nat.mod_eq_of_lt (lt_of_lt_of_le h (two_pow_le_W bits))

/-- canonical values are determined by their number: `==`/`Hash` (functions of the limb array)
    depend only on the value. -/
theorem canon_ext (bits : ℕ) (a b : List ℕ) (ha : Canon bits a) (hb : Canon bits b)
    (h : val a = val b) : a = b :=
  val_inj a b (by rw [ha.1, hb.1]) ha.2.1 hb.2.1 h

end Ruint
