import Ruint.Gen.Words
import Mathlib.Tactic.Ring

/-! `rs_norm`: unfold the fixed-width word operations (`Rs.*`) that occur in a definition generated
by `tools/rs2lean.py`, normalise `let`/tuple projections, and turn Bool flags into propositions, so
that the goal is plain `Nat` arithmetic with `%`, `/` by literals — ready for `omega`. Written to be
insensitive to which of the operations occur (semantically neutral rewrites of the Rust source must
not break the proofs that use it). -/

theorem Rs.xor_eq_true_iff (x y : Bool) :
    ((x ^^ y) = true) ↔ ((x = true ∧ ¬ y = true) ∨ (¬ x = true ∧ y = true)) := by
  cases x <;> cases y <;> simp

macro "rs_norm" : tactic =>
  `(tactic| (
    repeat (first
      | unfold Rs.oadd | unfold Rs.osub | unfold Rs.omul | unfold Rs.wadd | unfold Rs.wsub
      | unfold Rs.wmul | unfold Rs.wshl | unfold Rs.wneg)
    try dsimp only
    try simp only [Bool.or_eq_true, Bool.and_eq_true, Bool.not_eq_true', Rs.xor_eq_true_iff,
      decide_eq_true_eq, decide_eq_false_iff_not, Bool.toNat_true, Bool.toNat_false]))
