import Ruint.Lemmas.Basic
import Ruint.Lemmas.RsTactic

/-! Contracts of the core word kernels GENERATED from the Rust source (`Ruint/Gen/Words.lean`):
`nlimbs`, `mask`, the `DoubleWord` helpers, `adc`, `sbb`. Re-proved on every run against the
regenerated definitions. -/
namespace Ruint.GenCore
open Ruint

/-- `nlimbs` of `src/lib.rs` is `⌈bits/64⌉` (no `usize` overflow below `2^64 − 63`). -/
theorem nlimbs_eq (bits : ℕ) (h : bits + 63 < 2 ^ 64) : Ruint.Gen.nlimbs bits = Ruint.nlimbs bits := by
  unfold Ruint.Gen.nlimbs Ruint.nlimbs
  rs_norm
  rw [Nat.mod_eq_of_lt h]

/-- `mask` of `src/lib.rs` equals the model's top-limb mask. -/
theorem mask_eq (bits : ℕ) : Ruint.Gen.mask bits = Ruint.mask bits := by
  unfold Ruint.Gen.mask Ruint.mask
  rs_norm
  by_cases h0 : bits = 0
  · simp [h0]
  · have hm : bits % 64 < 64 := Nat.mod_lt _ (by norm_num)
    by_cases h1 : bits % 64 = 0
    · simp [h0, h1, W]
    · simp only [beq_iff_eq, h0, h1, if_false]
      have hp : 2 ^ (bits % 64) < 2 ^ 64 := Nat.pow_lt_pow_right (by norm_num) hm
      have hpos : 0 < 2 ^ (bits % 64) := by positivity
      rw [Nat.one_mul, Nat.mod_eq_of_lt hp]
      have : 2 ^ (bits % 64) + 2 ^ 64 - 1 = (2 ^ (bits % 64) - 1) + 2 ^ 64 := by omega
      rw [this, Nat.add_mod_right, Nat.mod_eq_of_lt (by omega)]

theorem dw_mul_eq (a b : ℕ) (ha : a < W) (hb : b < W) : Ruint.Gen.dw_mul a b = a * b := by
  unfold Ruint.Gen.dw_mul
  rs_norm
  apply Nat.mod_eq_of_lt
  unfold W at *
  calc a * b < 2 ^ 64 * 2 ^ 64 := Nat.mul_lt_mul'' ha hb
    _ = 2 ^ 128 := by norm_num

theorem dw_high_low (x : ℕ) (hx : x < W * W) :
    Ruint.Gen.dw_low x + W * Ruint.Gen.dw_high x = x ∧ Ruint.Gen.dw_low x < W ∧ Ruint.Gen.dw_high x < W := by
  unfold Ruint.Gen.dw_low Ruint.Gen.dw_high
  rs_norm
  unfold W at *
  omega

/-- `adc`: `lhs + rhs + carry` as (low word, carry word). -/
theorem adc_spec (a b c : ℕ) (ha : a < W) (hb : b < W) (hc : c < W) :
    (Ruint.Gen.adc a b c).1 + W * (Ruint.Gen.adc a b c).2 = a + b + c
    ∧ (Ruint.Gen.adc a b c).1 < W ∧ (Ruint.Gen.adc a b c).2 < W := by
  unfold Ruint.Gen.adc Ruint.Gen.dw_split Ruint.Gen.dw_low Ruint.Gen.dw_high
  rs_norm
  unfold W at *
  omega

/-- `sbb`: `lhs − rhs − borrow` as (low word, borrow word): `low + rhs + borrow = lhs + W·out`. -/
theorem sbb_spec (a b c : ℕ) (ha : a < W) (hb : b < W) (hc : c < W) :
    (Ruint.Gen.sbb a b c).1 + b + c = a + W * (Ruint.Gen.sbb a b c).2
    ∧ (Ruint.Gen.sbb a b c).1 < W ∧ (Ruint.Gen.sbb a b c).2 < W := by
  unfold Ruint.Gen.sbb Ruint.Gen.dw_low Ruint.Gen.dw_high
  rs_norm
  unfold W at *
  omega

end Ruint.GenCore
